#!/bin/bash
# Builds the framework from files on disk only (offline).
set -e
cd /verif/lean && lake build LlgVerif llgmodel
cd /verif/harness && CARGO_NET_OFFLINE=true cargo build --release --offline
