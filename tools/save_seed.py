#!/usr/bin/env python3
"""save_seed.py <seed-name> <property> <seedout-dir> <caught_by text> <confirm summary>"""
import json, os, shutil, sys
name, prop, src, caught, confirm = sys.argv[1:6]
dst = os.path.join('/verif/seeded', name)
os.makedirs(dst, exist_ok=True)
for f in os.listdir(src):
    if f.endswith('.log') or f.startswith('output_'):
        continue
    shutil.copy(os.path.join(src, f), os.path.join(dst, f))
meta = json.load(open(os.path.join(src, 'meta.json')))
meta['property'] = prop
meta['confirmed_by_me'] = confirm
meta['checks'] = caught
json.dump(meta, open(os.path.join(dst, 'meta.json'), 'w'), indent=1)
print('saved', dst, sorted(os.listdir(dst)))
