#!/bin/bash
# usage: try_seed.sh <PROP> <worktree> <seeddir>   (seeddir has patch.diff and run_demo.sh)
# 1. confirms the seed in the scratch worktree (unit tests pass with it; demo fails with / passes without)
# 2. applies it to /repo, runs ./check <PROP> (quick), undoes it (git checkout -- .)
p=$1; wt=$2; sd=$3
cd /verif
bash tools/confirm_seed.sh "$p-try" "$wt" "$sd/patch.diff" "sh $sd/run_demo.sh" 2>&1 | tail -4
git -C "$wt" checkout -- . 2>/dev/null
( cd /repo && git apply "$sd/patch.diff" ) || { echo "patch does not apply to /repo"; exit 2; }
./check "$p" | cut -c1-300 | tail -4
git -C /repo checkout -- .
git -C /repo status --short | head -3
