#!/bin/bash
# usage: confirm_seed.sh <seed-id> <worktree> <patch.diff> <demo test command (run inside worktree)>
# Confirms: with the patch the offline unit tests pass and the demo FAILS; without it the demo PASSES.
id=$1; wt=$2; patch=$3; shift 3; demo="$*"
export CARGO_NET_OFFLINE=true
cd "$wt" || exit 2
git checkout -q -- . 2>/dev/null
git apply "$patch" || { echo "patch does not apply"; exit 2; }
echo "== unit tests with patch"
cargo test --offline -p toktrie -p llguidance -p toktrie_hf_tokenizers -p toktrie_tiktoken --lib > /tmp/seed-$id-unit.log 2>&1
ut=$?
cargo test --offline -p toktrie --tests > /tmp/seed-$id-unit2.log 2>&1
ut2=$?
grep "test result" /tmp/seed-$id-unit.log /tmp/seed-$id-unit2.log | grep -v "0 passed; 0 failed" | sed 's/^/   /'
echo "unit tests rc=$ut/$ut2"
echo "== demo with patch"
bash -c "$demo" > /tmp/seed-$id-demo-with.log 2>&1; w=$?
tail -3 /tmp/seed-$id-demo-with.log | sed 's/^/   /'
git apply -R "$patch"
echo "== demo without patch"
bash -c "$demo" > /tmp/seed-$id-demo-without.log 2>&1; wo=$?
tail -3 /tmp/seed-$id-demo-without.log | sed 's/^/   /'
git apply "$patch"
echo "RESULT id=$id unit_rc=$ut/$ut2 demo_with_rc=$w demo_without_rc=$wo"
