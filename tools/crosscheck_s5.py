#!/usr/bin/env python3
"""crosscheck_s5.py <dump.jsonl>: validates the Lean validator S5 (not the engine) against the
python `jsonschema` package (Draft 2020-12) on the (schema, instance, S5 verdict) triples the C07
harness dumps.  Numbers are read as exact decimals; integral decimals become ints.  Prints a JSON
summary; run with python3-vt."""
import json, sys, decimal
from jsonschema import Draft202012Validator

def norm(x):
    if isinstance(x, decimal.Decimal):
        return int(x) if x == x.to_integral_value() else x
    if isinstance(x, list):
        return [norm(v) for v in x]
    if isinstance(x, dict):
        return {k: norm(v) for k, v in x.items()}
    return x

def load(text):
    return norm(json.loads(text, parse_float=decimal.Decimal, parse_int=decimal.Decimal))

n = agree = 0
dis = []
errors = 0
for line in open(sys.argv[1]):
    rec = json.loads(line)
    try:
        schema = load(json.dumps(rec["schema"]))
        inst = load(rec["instance"])
        ok = Draft202012Validator(schema).is_valid(inst)
    except Exception as e:  # the reference validator itself failed (e.g. Decimal/float mix): not counted
        errors += 1
        continue
    n += 1
    if ok == rec["lean"]:
        agree += 1
    elif len(dis) < 10:
        dis.append({"schema": rec["schema"], "instance": rec["instance"], "lean": rec["lean"], "jsonschema": ok})
print(json.dumps({"pairs": n, "agree": agree, "disagree": n - agree, "reference_errors": errors, "examples": dis}))
