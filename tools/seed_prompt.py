#!/usr/bin/env python3
"""seed_prompt.py <PROP-ID> <worktree> <outdir>: writes <outdir>/PROMPT.txt for a seeding sub-agent
(the agent gets only the property text and its scratch worktree; nothing from /verif)."""
import json, sys, os
pid, wt, out = sys.argv[1:4]
props = {json.loads(l)['id']: json.loads(l) for l in open('/verif/properties.jsonl')}
p = props[pid]
T = """You are helping test a verification effort by producing ONE realistic *breaking change* ("seeded mutation") to the Rust project guidance-ai/llguidance (a constrained-decoding engine). You work ONLY inside your own scratch git worktree at {wt} (a checkout of the project). Do not read or write anything under /repo or /verif. The machine is offline: always run cargo with --offline (e.g. `cargo build --offline`, `cargo test --offline`); nothing can be downloaded.

The semantic property the change must break:

  id: {id}
  title: {title}
  statement: {statement}
  quantified over: {quant}
  code anchors: {anchors}

Your task:
1. Read the relevant code in {wt} and devise a small, *plausible* source change (the kind of slip a developer could make in a refactor, optimisation or bug fix: an off-by-one, a wrong bound, a dropped case, a cache not invalidated, a swapped argument ...) that makes the property FALSE for some inputs, while
   - the project still compiles (`cd {wt} && cargo build --offline -p llguidance` and the workspace test build),
   - the existing test suite still gives the same result as before the change. Run `cd {wt} && cargo test --workspace --no-fail-fast --offline 2>&1 | grep -E "^test result"` before and after: offline, exactly 125 tests pass and ~1510 fail for lack of network (they need a tokenizer download) - your change must not alter which tests pass (still 125 passed).
   - Do not make a trivially detectable change (e.g. panicking everywhere, returning a constant); prefer a change that only misbehaves on a specific class of inputs. Do not touch tests. Do not add cfg flags. Keep it to a few lines in non-test code under parser/ or toktrie/.
2. Write a demonstration: a small standalone Rust program *outside the patch* (e.g. a file {wt}/parser/examples/seed_demo.rs, or a separate tiny cargo project under {out}/demo with a path dependency on {wt}/parser and {wt}/toktrie, an empty `[workspace]` table, and a copy of {wt}/Cargo.lock) that exercises the public API (e.g. llguidance::Matcher / TokenParser / ParserFactory with a small synthetic vocabulary built via toktrie::TokTrie / toktrie::ApproximateTokEnv or a hand-made TokenizerEnv - no network tokenizer), prints a clear verdict, and exits non-zero when the property is violated. It must FAIL with your change applied and PASS on the unchanged code. Verify both directions yourself (use `git stash` / `git apply -R` inside {wt}).
3. Save into {out}/ :
   - patch.diff  : `git -C {wt} diff` of ONLY the breaking source change (not the demo), applicable with `git apply` to the unchanged checkout;
   - the demo source (and a `run_demo.sh` that builds and runs it against {wt}, exit code 0 = property holds, non-zero = violated);
   - README.txt : what the change is, why it is plausible, which inputs expose it, and the exact output of the demo with and without the change.
4. Leave {wt} with the breaking change REVERTED at the end (clean `git status` apart from untracked demo files).

Report back: a short description of the change, the failing input, and confirmation of the 125-pass test result with the change applied. Be economical: the full workspace test run takes about a minute once built; the first build takes a few minutes.
"""
os.makedirs(out, exist_ok=True)
open(os.path.join(out, 'PROMPT.txt'), 'w').write(T.format(wt=wt, out=out, id=pid, title=p['title'], statement=p['statement'], quant=p['quantifier']['text'], anchors=json.dumps(p['anchors'].get('mechanism', []))[:1800]))
print(os.path.join(out, 'PROMPT.txt'))
