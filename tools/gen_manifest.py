#!/usr/bin/env python3
"""Regenerates /verif/MANIFEST.json from obligations.json (single source of truth for claims)."""
import json, os, subprocess
ROOT = os.path.dirname(os.path.dirname(os.path.abspath(__file__)))
ob = json.load(open(os.path.join(ROOT, "obligations.json")))
props = [json.loads(l) for l in open(os.path.join(ROOT, "properties.jsonl")) if l.strip()]
ids = [p["id"] for p in props]
pending = json.load(open(os.path.join(ROOT, "tools", "pending.json")))
hooks = subprocess.run(["git", "-C", "/repo", "log", "--format=%H %s"], capture_output=True, text=True).stdout.splitlines()
hook_commits = [l.split()[0] for l in hooks if " verif hooks" in l or l.split(" ", 1)[1].startswith("verif hook")]
checks = []
for pid in ids:
    if pid not in ob:
        continue
    c = ob[pid]
    checks.append({
        "property_id": pid,
        "quick_cmd": f"./check {pid} --tier quick",
        "thorough_cmd": f"./check {pid} --tier thorough",
        "evidence_file": f"/verif/evidence/{pid}.json",
        "replay_cmd_template": f"./check {pid} --replay {{path}}",
        "engine": "lean+harness",
        "level_claimed": {"category": c.get("level", "proof"), "text": c["level_text"], "design_ref": c.get("design_ref", "DESIGN.md §4 " + pid)},
        "level_note": c["level_note"],
        "technique": c.get("technique", "Lean 4 theorems over a hand-written model + correspondence (differential) run against the implementation"),
    })
na = [{"property_id": pid, "reason": pending.get(pid, "check not built yet; not claimed in this state of /verif")} for pid in ids if pid not in ob]
m = {
    "version": 1,
    "setup_cmd": "cd /verif && ./setup.sh",
    "hooks": {
        "guard": "cargo feature llg_verif of crate llguidance (/repo/parser/Cargo.toml)",
        "enable": "the harness crate /verif/harness depends on /repo/parser with features = [\"llg_verif\"]; every check runs `cargo build --release --offline` there, which rebuilds /repo's crates from the working tree",
        "baseline_off_cmd": "cd /repo && cargo test --workspace --no-fail-fast --offline",
        "source_commits": hook_commits,
        "add_only": True,
    },
    "engines": [
        {"name": "lean", "path": "/verif/lean", "serves_properties": [c["property_id"] for c in checks],
         "kind_free_text": "Lean 4.33 project LlgVerif: models (Model/, Spec/), property theorems (Props/), line-protocol model driver llgmodel (lean_exe)"},
        {"name": "harness", "path": "/verif/harness", "serves_properties": [c["property_id"] for c in checks],
         "kind_free_text": "Rust crate llgv: calls the real code in-process, generates cases from one PRNG, evaluates property oracles, pipes the same operations to llgmodel and diffs"},
    ],
    "checks": checks,
    "notes": "Verdict rule and layout: DESIGN.md §2. Known findings: /verif/known_findings.json. Seeded breakages: /verif/seeded/.",
    "not_applicable": na,
}
json.dump(m, open(os.path.join(ROOT, "MANIFEST.json"), "w"), indent=1)
print(f"{len(checks)} checks claimed, {len(na)} not claimed")
