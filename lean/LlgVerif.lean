import LlgVerif.Model.Svob
import LlgVerif.Model.Ffi
