import LlgVerif.Model.Svob
import LlgVerif.Model.Ffi
import Driver.Util
open LlgVerif Drv

def wordsOf (l : List Nat) : List Word := l.map (fun n => BitVec.ofNat 32 n)
def natsOf (l : List Word) : List Nat := l.map (·.toNat)

/-- One request line -> one response line.  Stateless requests only (stateful models keep their
    state in `St`). -/
structure St where
  vobs : List (Nat × Svob) := []

def handleParcopy (args : List String) : String :=
  match args with
  | [hasMask, size, ws, d, addEos, eos] =>
    match parseNat? size, parseNatList? ws, parseNat? d, parseNat? eos with
    | some size, some ws, some d, some eos =>
      let m : Option Svob := if hasMask = "1" then some { data := wordsOf ws, size := size } else none
      let r := parCopy m d (addEos = "1") eos
      s!"ok {showNatList (natsOf r.dest)}"
    | _, _, _, _ => "bad-op"
  | _ => "bad-op"

def handleInto (args : List String) : String :=
  match args with
  | [size, ws, vocab, byteLen] =>
    match parseNat? size, parseNatList? ws, parseNat? vocab, parseNat? byteLen with
    | some size, some ws, some vocab, some bl =>
      match computeMaskInto? { data := wordsOf ws, size := size } vocab bl with
      | some d => s!"ok {showNatList (natsOf d)}"
      | none => "err"
    | _, _, _, _ => "bad-op"
  | _ => "bad-op"

def step (st : St) (line : String) : St × String :=
  match words line with
  | "parcopy" :: args => (st, handleParcopy args)
  | "maskinto" :: args => (st, handleInto args)
  | _ => (st, "bad-op")

partial def loop (h : IO.FS.Stream) (out : IO.FS.Stream) (st : St) : IO Unit := do
  let line ← h.getLine
  if line.isEmpty then return ()
  let (st', o) := step st line
  out.putStrLn o
  loop h out st'

def main : IO Unit := do
  let out ← IO.getStdout
  loop (← IO.getStdin) out {}
  out.flush
