import LlgVerif.Model.Svob
import LlgVerif.Model.Ffi
import LlgVerif.Model.Trie
import LlgVerif.Model.Cache
import LlgVerif.Spec.Regex
import LlgVerif.Model.Repeat
import LlgVerif.Model.Engine
import LlgVerif.Model.Slicer
import LlgVerif.Model.Stop
import LlgVerif.Model.Shared
import LlgVerif.Model.TokRanges
import Driver.Util
import LlgVerif.Model.IntRange
import LlgVerif.Spec.Cfg
import LlgVerif.Model.Numeric
import LlgVerif.Model.Inline
import LlgVerif.Spec.Json
import LlgVerif.Model.FloatRange
import LlgVerif.Model.NumSat
import LlgVerif.Model.Earley
import LlgVerif.Model.Schema
import LlgVerif.Model.Lexer
import LlgVerif.Spec.Contain
open LlgVerif Drv

def wordsOf (l : List Nat) : List Word := l.map (fun n => BitVec.ofNat 32 n)
def natsOf (l : List Word) : List Nat := l.map (·.toNat)

/-- One request line -> one response line.  Stateless requests only (stateful models keep their
    state in `St`). -/
structure St where
  vobs : List (Nat × Svob) := []
  nodes : Array FlatNode := #[]
  vocab : Nat := 0
  cache : CState Nat Nat (Nat × Nat × Bool) := { rows := [], ls := 0, pending := false, cache := none }
  rb : RState Nat := { tokens := [], llmBytes := [], pBytes := [], byteTok := [], lexStack := [0], stopOk := false, bareEos := false }
  rbVocab : List (Nat × List UInt8) := []
  rbEos : List Nat := []
  rxs : List (Nat × LlgVerif.Dfa) := []
  engCfg : Option (EngCfg Nat) := none
  engSt : EngState Nat := { st := 0, tokens := [], stopped := false }
  engHist : List (EngState Nat) := []
  sliceTop : Option Slice := none
  stopStops : List (List UInt8) := []
  stopToks : List Nat := []
  stopVocab : List (Nat × List UInt8) := []
  stopSt : StopSt := StopCfg.init
  sharedTbl : List Nat := []
  cfgs : List (Nat × (Cfg.Gram Nat × Nat)) := []
  jschemas : List (Nat × Js.Json) := []
  eys : List (Nat × Ey.CG) := []
  lxs : List (Nat × Lx.Cfg) := []
  elx : Option (EngCfg Lx.St × EngState Lx.St) := none

/-- DFA over byte classes: `cls[b]` in `0..k`, `trans[q*k + c]` = successor, `≥ n` = dead. -/
structure TDfa where
  k : Nat
  n : Nat
  cls : Array Nat
  trans : Array Nat

def TDfa.toRec (d : TDfa) : Rec Nat where
  step := fun q b =>
    let c := d.cls[b.toNat]!
    let q' := d.trans[q * d.k + c]!
    if q' < d.n then some q' else none

def parseDfa? (k n cls trans : String) : Option TDfa := do
  let k ← parseNat? k
  let n ← parseNat? n
  let cls ← parseNatList? cls
  let trans ← parseNatList? trans
  if cls.length = 256 ∧ trans.length = n * k then some { k, n, cls := cls.toArray, trans := trans.toArray } else none

def showFlat (ns : Array FlatNode) : String :=
  ";".intercalate (ns.toList.map (fun n =>
    s!"{n.byte.toNat}:{match n.tok with | some t => toString t | none => "n"}:{n.numParents}:{n.subtreeSize}"))

def showVob (v : Svob) : String := s!"{v.size} {showNatList (natsOf v.data)}"

def getReg (st : St) (r : Nat) : Svob := ((st.vobs.find? (·.1 = r)).map (·.2)).getD Svob.new
def setReg (st : St) (r : Nat) (v : Svob) : St :=
  { st with vobs := (r, v) :: st.vobs.filter (·.1 ≠ r) }

def optReg (st : St) (r : Nat) (o : Option Svob) : St × String :=
  match o with
  | some v => (setReg st r v, s!"ok {showVob v}")
  | none => (st, "err")

def handleSvob (st : St) (args : List String) : St × String :=
  match args.mapM parseNat? with
  | none => (st, "bad-op")
  | some a =>
    match a with
    -- opcode :: args
    | [0, r, size] => optReg st r (some (Svob.alloc size))
    | [1, r, size] => optReg st r (some (Svob.allocOnes size))
    | [2, r, size, cap] => optReg st r (Svob.allocWithCapacity? size cap)
    | [3, r, i, v] => optReg st r ((getReg st r).set? i (v = 1))
    | [4, r, i] => (st, match (getReg st r).get? i with | some b => s!"ok {showBool b}" | none => "err")
    | [5, r, s, e] => optReg st r ((getReg st r).allowRange? s e)
    | [6, r, r2] => optReg st r (some (getReg st r2).negated)
    | [7, r, v] => optReg st r (some ((getReg st r).setAll (v = 1)))
    | [8, r, size] => optReg st r ((getReg st r).resize? size)
    | [9, r, r2] => optReg st r ((getReg st r).or? (getReg st r2))
    | [10, r, r2] => optReg st r ((getReg st r).and? (getReg st r2))
    | [11, r, r2] => optReg st r ((getReg st r).sub? (getReg st r2))
    | [12, r, r2, r3] => optReg st r ((getReg st r).orMinus? (getReg st r2) (getReg st r3))
    | [13, r, r2] => optReg st r ((getReg st r).setFrom? (getReg st r2))
    | [14, r] => (st, s!"ok {showBool (getReg st r).isZero}")
    | [15, r, r2] => (st, match (getReg st r).andIsZero? (getReg st r2) with | some b => s!"ok {showBool b}" | none => "err")
    | [16, r] => optReg st r (some (getReg st r).trimTrailingZeros)
    | [17, r] => (st, s!"ok {(getReg st r).numSet}")
    | [18, r] => (st, match (getReg st r).toList? with | some l => s!"ok {showNatList l}" | none => "err")
    | [19, r] => (st, s!"ok {showNatList (getReg st r).iterAll}")
    | [20, r] => (st, s!"ok {showOptNat (getReg st r).firstBitSet}")
    | [21, r, r2] => (st, match (getReg st r).firstBitSetHereAndIn? (getReg st r2) with | some o => s!"ok {showOptNat o}" | none => "err")
    | [22, r] => (st, s!"ok {(getReg st r).toBinString}")
    | [23, r, r2] => optReg st r (some (getReg st r2))
    | _ => (st, "bad-op")

def symFresh (rows : List Nat) (ls : Nat) (p : Bool) : Nat × Nat × Bool := (rows.length, ls, p)

def showKey (c : CState Nat Nat (Nat × Nat × Bool)) : String :=
  match c.cache with
  | some (l, i, p, _) => s!"k:{l}:{i}:{showBool p}"
  | none => "none"

def handleCache (st : St) (args : List String) : St × String :=
  match args with
  | ["init", rows, ls, p] =>
    match parseNatList? rows, parseNat? ls with
    | some rows, some ls =>
      let c : CState Nat Nat (Nat × Nat × Bool) := { rows := rows, ls := ls, pending := p = "1", cache := none }
      ({ st with cache := c }, showKey c)
    | _, _ => (st, "bad-op")
  | ["adv", rows, ls, p] =>
    match parseNatList? rows, parseNat? ls with
    | some rows, some ls =>
      let r := cstep symFresh true st.cache (.advance rows ls (p = "1"))
      ({ st with cache := r.2 }, showKey r.2)
    | _, _ => (st, "bad-op")
  | ["rb", keep, ls, p] =>
    match parseNat? keep, parseNat? ls with
    | some keep, some ls =>
      let r := cstep symFresh true st.cache (.rollback keep ls (p = "1"))
      ({ st with cache := r.2 }, showKey r.2)
    | _, _ => (st, "bad-op")
  | ["mask"] =>
    let r := cstep symFresh true st.cache .mask
    match r.1 with
    | some (n, l, p) => ({ st with cache := r.2 }, s!"{showKey r.2} {n} {l} {showBool p}")
    | none => (st, "bad-op")
  | ["inv"] =>
    let r := cstep symFresh true st.cache .invalidate
    ({ st with cache := r.2 }, showKey r.2)
  | _ => (st, "bad-op")

def showRb (s : RState Nat) : String :=
  s!"{s.tokens.length} {s.llmBytes.length} {s.byteTok.length} {s.lexStack.length - s.pBytes.length}"

def rbVocabOf (st : St) : Vocab :=
  { bytes := fun t => ((st.rbVocab.find? (·.1 = t)).map (·.2)).getD [], eos := st.rbEos }

/-- rollback model: `init eos-list`, `tok id hexbytes` (register token bytes), `c id` commit,
    `e id` commit EOS, `r k` rollback -/
def handleRb (st : St) (args : List String) : St × String :=
  match args with
  | ["init", eos] =>
    match parseNatList? eos with
    | some eos => ({ st with rb := { tokens := [], llmBytes := [], pBytes := [], byteTok := [], lexStack := [0], stopOk := false, bareEos := false }, rbVocab := [], rbEos := eos }, "ok")
    | none => (st, "bad-op")
  | ["tok", id, bs] =>
    match parseNat? id, parseHex? bs with
    | some id, some bs => ({ st with rbVocab := (id, bs) :: st.rbVocab }, "ok")
    | _, _ => (st, "bad-op")
  | ["c", id] =>
    match parseNat? id with
    | some id =>
      let v := rbVocabOf st
      let n := (v.decodeRaw id).length
      let s' := st.rb.commit v id (List.replicate n 0)
      ({ st with rb := s' }, s!"ok {showRb s'}")
    | none => (st, "bad-op")
  | ["e", id, extra] =>
    match parseNat? id, parseNat? extra with
    | some id, some extra => let s' := st.rb.commitEos id (List.replicate extra 0); ({ st with rb := s' }, s!"ok {showRb s'}")
    | _, _ => (st, "bad-op")
  | ["r", k] =>
    match parseNat? k with
    | some k =>
      match st.rb.rollback (rbVocabOf st) k with
      | some s' => ({ st with rb := s' }, s!"ok {showRb s'}")
      | none => (st, "err")
    | none => (st, "bad-op")
  | ["declen", id] =>
    match parseNat? id with
    | some id => let v := rbVocabOf st; (st, s!"ok {v.tokenLen id} {(v.decodeRaw id).length}")
    | none => (st, "bad-op")
  | _ => (st, "bad-op")

def parseRanges? (s : String) : Option (List (Nat × Nat)) :=
  if s = "-" then some [] else
  (s.splitOn ",").mapM (fun p => match p.splitOn ":" with
    | [a, b] => do pure ((← a.toNat?), (← b.toNat?))
    | _ => none)

def litRxD (bs : List UInt8) : Rx :=
  bs.foldr (fun b acc => Rx.mkCat (Rx.set [(b.toNat, b.toNat)]) acc) Rx.eps

/-- byte-level regex s-expression -> `Rx` (n-ary `cat`/`alt`/`and` fold to the right) -/
partial def rxOfSexp : SExp → Option Rx
  | .list [.atom "empty"] => some Rx.empty
  | .list [.atom "eps"] => some Rx.eps
  | .list [.atom "set", .atom rs] => (parseRanges? rs).map Rx.set
  | .list [.atom "lit", .atom h] => (parseHex? h).map litRxD
  | .list (.atom "cat" :: xs) => do
      let rs ← xs.mapM rxOfSexp
      pure (rs.foldr Rx.cat Rx.eps)
  | .list (.atom "alt" :: xs) => do
      let rs ← xs.mapM rxOfSexp
      match rs.reverse with
      | [] => pure Rx.empty
      | last :: more => pure (more.foldl (fun acc r => Rx.alt r acc) last)
  | .list [.atom "and", a, b] => do pure (Rx.and (← rxOfSexp a) (← rxOfSexp b))
  | .list [.atom "not", a] => do pure (Rx.not (← rxOfSexp a))
  | .list [.atom "star", a] => do pure (Rx.star (← rxOfSexp a))
  | .list [.atom "rep", .atom m, .atom n, a] => do
      let m ← m.toNat?
      let r ← rxOfSexp a
      if n = "inf" then pure (Rx.rep r m none) else do
        let n ← n.toNat?
        pure (Rx.rep r m (some n))
  | _ => none

def handleRx (st : St) (args : List String) : St × String :=
  match args with
  | "def" :: id :: rest =>
    match parseNat? id, (parseSexp (" ".intercalate rest)).bind rxOfSexp with
    | some id, some r =>
      match buildDfa r 4000 with
      | some d =>
        if Dfa.check r d then ({ st with rxs := (id, d) :: st.rxs.filter (·.1 ≠ id) }, s!"ok {d.states.size}")
        else (st, "bad-cert")
      | none => (st, "fuel")
    | _, _ => (st, "bad-op")
  | ["qs", id, ws] =>
    match parseNat? id, parseHexList? ws with
    | some id, some ws =>
      match st.rxs.find? (·.1 = id) with
      | some (_, d) =>
        (st, "ok " ++ String.join (ws.map (fun w => showBool (d.accepts w) ++ showBool (d.viable w))))
      | none => (st, "no-such-rx")
    | _, _ => (st, "bad-op")
  | _ => (st, "bad-op")

/-- `rep counts K m n|inf bound`: counts ≤ bound derived by `GrammarBuilder::repeat(elt, m, n)` -/
def handleRep (args : List String) : String :=
  match args with
  | ["counts", k, m, n, bound] =>
    match parseNat? k, parseNat? m, parseNat? bound with
    | some k, some m, some bound =>
      let mx : Option (Option Nat) := if n = "inf" then some none else (parseNat? n).map some
      match mx with
      | some mx =>
        match GExp.repeat? k GExp.elt m mx with
        | some g => s!"ok {showNatList (canonSet (GExp.countsUpTo bound g))}"
        | none => "err"
      | none => "bad-op"
    | _, _, _ => "bad-op"
  | _ => "bad-op"

def showHex (bs : List UInt8) : String :=
  if bs.isEmpty then "_" else
  String.ofList (bs.flatMap (fun b =>
    let d (n : Nat) : Char := if n < 10 then Char.ofNat (48 + n) else Char.ofNat (87 + n)
    [d (b.toNat / 16), d (b.toNat % 16)]))

/-- recogniser of a checked regex certificate: a byte is viable iff the successor state is live -/
def dfaRec (d : LlgVerif.Dfa) : Rec Nat where
  step := fun q b => let q' := d.next q b; if d.live[q']! then some q' else none

/-- abstract engine (M6) over a regex certificate: `init rxid words eos`, `mask`, `commit t`,
    `validate ts`, `acc` -/
def handleEng (st : St) (args : List String) : St × String :=
  match args with
  | ["init", id, ws, eos] =>
    match parseNat? id, parseHexList? ws, parseNat? eos with
    | some id, some ws, some eos =>
      match st.rxs.find? (·.1 = id) with
      | some (_, d) =>
        let cfg : EngCfg Nat := { recog := dfaRec d, accepting := fun q => d.acc[q]!, words := ws, eos := eos }
        ({ st with engCfg := some cfg, engSt := { st := 0, tokens := [], stopped := false }, engHist := [] }, "ok")
      | none => (st, "no-such-rx")
    | _, _, _ => (st, "bad-op")
  | ["mask"] =>
    match st.engCfg with
    | some c => (st, s!"ok {showNatList (canonSet (c.mask st.engSt))}")
    | none => (st, "no-engine")
  | ["acc"] =>
    match st.engCfg with
    | some c => (st, s!"ok {showBool (c.accepting st.engSt.st)}")
    | none => (st, "no-engine")
  | ["commit", t] =>
    match st.engCfg, parseNat? t with
    | some c, some t =>
      match c.commit st.engSt t with
      | some s' => ({ st with engSt := s', engHist := st.engSt :: st.engHist }, "ok")
      | none => (st, "err")
    | _, _ => (st, "bad-op")
  | ["ff"] =>
    match st.engCfg with
    | some c => (st, s!"ok {showHex (forceBytes c.recog c.accepting 32 4096 st.engSt.st).1}")
    | none => (st, "no-engine")
  | ["validate", ts] =>
    match st.engCfg, parseNatList? ts with
    | some c, some ts => (st, s!"ok {c.validate st.engSt ts}")
    | _, _ => (st, "bad-op")
  | _ => (st, "bad-op")

partial def sliceOfSexp : SExp → Option Slice
  | .list (.atom "n" :: .atom i :: .atom m :: kids) => do
      let i ← i.toNat?
      let m ← parseNatList? m
      let ks ← kids.mapM sliceOfSexp
      pure (Slice.node i m ks)
  | _ => none

/-- slicer model: `tree <sexp>`, `bias <matched idx list> <allowed ids> <subsumePossible>` -/
def handleSlice (st : St) (args : List String) : St × String :=
  match args with
  | "tree" :: rest =>
    match (parseSexp (" ".intercalate rest)).bind sliceOfSexp with
    | some t => ({ st with sliceTop := some t }, "ok")
    | none => (st, "bad-op")
  | ["parts", idx] =>
    match st.sliceTop, parseNat? idx with
    | some top, some idx =>
      let rec find (fuel : Nat) (s : Slice) : Option Slice :=
        match fuel with
        | 0 => none
        | fuel + 1 => if s.idx = idx then some s else s.kids.findSome? (find fuel)
      match find 64 top with
      | some n =>
        let r := n.remainders
        (st, "ok " ++ ";".intercalate (r.1.map (fun l => showNatList (canonSet l))) ++ "|" ++ showNatList (canonSet r.2))
      | none => (st, "no-such-slice")
    | _, _ => (st, "bad-op")
  | ["bias", matched, allowed, sp] =>
    match st.sliceTop, parseNatList? matched, parseNatList? allowed with
    | some top, some matched, some allowed =>
      let al := allowed.toArray
      let isAllowed (t : Nat) : Bool := al.binSearchContains t (· < ·)
      let r := Slice.computeBias (fun i => matched.contains i) isAllowed top (sp = "1")
      (st, s!"ok {showNatList (canonSet r)}")
    | _, _, _ => (st, "bad-op")
  | _ => (st, "bad-op")

/-- stop controller model: `init <stop strings hex list> <stop token list>`, `tok id hex`,
    `c id` -> output bytes (hex) and stopped flag -/
def handleStop (st : St) (args : List String) : St × String :=
  match args with
  | ["init", stops, toks] =>
    match parseHexList? stops, parseNatList? toks with
    | some stops, some toks => ({ st with stopStops := stops, stopToks := toks, stopVocab := [], stopSt := StopCfg.init }, "ok")
    | _, _ => (st, "bad-op")
  | ["tok", id, bs] =>
    match parseNat? id, parseHex? bs with
    | some id, some bs => ({ st with stopVocab := (id, bs) :: st.stopVocab }, "ok")
    | _, _ => (st, "bad-op")
  | ["c", id] =>
    match parseNat? id with
    | some id =>
      let cfg : StopCfg := { stops := st.stopStops, stopTokens := st.stopToks,
                             tokBytes := fun t => ((st.stopVocab.find? (·.1 = t)).map (·.2)).getD [] }
      let r := cfg.commit st.stopSt id
      ({ st with stopSt := r.2 }, s!"ok {showHex r.1} {showBool r.2.stopped}")
    | none => (st, "bad-op")
  | _ => (st, "bad-op")

/-- shared table model: `init <content hashes>`, `intern <content hash>` -> id and table size -/
def handleShared (st : St) (args : List String) : St × String :=
  match args with
  | ["init", cs] =>
    match parseNatList? cs with
    | some cs => ({ st with sharedTbl := cs }, s!"ok {cs.length}")
    | none => (st, "bad-op")
  | ["intern", c] =>
    match parseNat? c with
    | some c =>
      let r := intern st.sharedTbl c
      ({ st with sharedTbl := r.2 }, s!"ok {r.1} {r.2.length}")
    | none => (st, "bad-op")
  | _ => (st, "bad-op")

/-- `ranges neg <vocab> <lo:hi,...>` -> negated ranges or err -/
def handleRanges (args : List String) : String :=
  match args with
  | ["neg", vocab, rs] =>
    match parseNat? vocab, parseRanges? rs with
    | some vocab, some rs =>
      match negatedRanges? vocab rs with
      | some out => "ok " ++ (if out.isEmpty then "-" else ",".intercalate (out.map (fun r => s!"{r.1}:{r.2}")))
      | none => "err"
    | _, _ => "bad-op"
  | _ => "bad-op"

/-- symbol: `n<k>` nonterminal, `t<lo>-<hi>` byte range (decimal) -/
def parseCfgSym? (s : String) : Option (Cfg.Sym Nat) :=
  if s.startsWith "n" then (s.drop 1).toString.toNat?.map Cfg.Sym.nt
  else if s.startsWith "t" then
    match (s.drop 1).toString.splitOn "-" with
    | [lo, hi] => do
      let lo ← lo.toNat?
      let hi ← hi.toNat?
      if lo < 256 ∧ hi < 256 then pure (Cfg.Sym.t lo.toUInt8 hi.toUInt8) else none
    | _ => none
  else none

/-- rule: `<lhs>:<sym>,<sym>,...` (empty right-hand side: `<lhs>:`) -/
def parseCfgRule? (s : String) : Option (Nat × List (Cfg.Sym Nat)) :=
  match s.splitOn ":" with
  | [l, r] => do
    let l ← l.toNat?
    if r.isEmpty then pure (l, []) else do
      let syms ← (r.splitOn ",").mapM parseCfgSym?
      pure (l, syms)
  | _ => none

def parseCfgRules? (s : String) : Option (List (Nat × List (Cfg.Sym Nat))) :=
  if s = "-" then some [] else (s.splitOn ";").mapM parseCfgRule?

def prefixesOf (w : List UInt8) : List (List UInt8) :=
  (List.range (w.length + 1)).map (fun k => w.take k)

/-- `cfg def <id> <start> <rule;rule;...>`; `cfg q <id> <hexword>` -> per prefix: accept bit, viable bit -/
def handleCfg (st : St) (args : List String) : St × String :=
  match args with
  | ["def", id, start, rules] =>
    match parseNat? id, parseNat? start, (rules.splitOn ";").mapM parseCfgRule? with
    | some id, some start, some rs =>
      if Cfg.allProductive rs then
        ({ st with cfgs := (id, (rs, start)) :: st.cfgs.filter (·.1 ≠ id) }, s!"ok {rs.length}")
      else (st, "unproductive")
    | _, _, _ => (st, "bad-op")
  | ["acc", start, rules, w] =>
    -- accept bits of every prefix of w for an arbitrary (possibly unproductive) grammar
    match parseNat? start, parseCfgRules? rules, parseHex? (if w = "-" then "" else w) with
    | some s, some g, some w =>
      match Cfg.chart? g [[Cfg.Sym.nt s]] w 400 with
      | some c => (st, "ok " ++ String.join ((prefixesOf w).map (fun p => showBool (c.contains ([Cfg.Sym.nt s], p)))))
      | none => (st, "fuel")
    | _, _, _ => (st, "bad-op")
  | ["q", id, w] =>
    match parseNat? id, parseHex? (if w = "-" then "" else w) with
    | some id, some w =>
      match st.cfgs.find? (·.1 = id) with
      | some (_, (g, s)) =>
        match Cfg.chart? (Cfg.preG g) [[Cfg.Sym.nt (s, false)], [Cfg.Sym.nt (s, true)]] w 200 with
        | some c =>
          (st, "ok " ++ String.join ((prefixesOf w).map (fun p =>
            showBool (c.contains ([Cfg.Sym.nt (s, false)], p)) ++ showBool (c.contains ([Cfg.Sym.nt (s, true)], p)))))
        | none => (st, "fuel")
      | none => (st, "bad-op")
    | _, _ => (st, "bad-op")
  | _ => (st, "bad-op")

def parseRk? (s : String) : Option (List (Nat × Nat)) :=
  if s = "-" then some [] else (s.splitOn ";").mapM (fun e =>
    match e.splitOn "=" with
    | [a, b] => do pure (← a.toNat?, ← b.toNat?)
    | _ => none)

/-- `opt check <G> <G'> <R> <rk> <protected>`: the inlining certificate check of M9 -/
def handleOpt (args : List String) : String :=
  match args with
  | ["check", g, g', r, rk, prot] =>
    match parseCfgRules? g, parseCfgRules? g', parseCfgRules? r, parseRk? rk,
        (if prot = "-" then some [] else parseNatList? prot) with
    | some g, some g', some r, some rk, some prot =>
      let rkf := fun a => ((rk.find? (·.1 = a)).map (·.2)).getD 0
      if Cfg.checkInline g g' r rkf prot then "ok" else "reject"
    | _, _, _, _, _ => "bad-op"
  | _ => "bad-op"

/-- JSON value from an s-expression: `n t f (num <neg> <mant> <exp>) (s <hex>) (a v ...) (o (<hexkey> v) ...)`;
`-` stands for the empty hex string -/
partial def jsonOfSexp : SExp → Option Js.Json
  | .atom "n" => some .null
  | .atom "t" => some (.bool true)
  | .atom "f" => some (.bool false)
  | .list [.atom "num", .atom neg, .atom mant, .atom exp] => do
    let m ← mant.toNat?
    let e ← (if exp.startsWith "-" then (exp.drop 1).toString.toNat?.map (fun k => -(k : Int)) else exp.toNat?.map (fun k => (k : Int)))
    pure (.num { neg := neg = "1", mant := m, exp := e })
  | .list [.atom "s", .atom h] => do
    let bs ← parseHex? (if h = "-" then "" else h)
    let str ← String.fromUTF8? (ByteArray.mk bs.toArray)
    pure (.str str)
  | .list (.atom "a" :: xs) => do
    let vs ← xs.mapM jsonOfSexp
    pure (.arr vs)
  | .list (.atom "o" :: kvs) => do
    let ps ← kvs.mapM (fun kv => match kv with
      | .list [.atom k, v] => do
        let bs ← parseHex? (if k = "-" then "" else k)
        let ks ← String.fromUTF8? (ByteArray.mk bs.toArray)
        let v ← jsonOfSexp v
        pure (ks, v)
      | _ => none)
    pure (.obj ps)
  | _ => none

/-- `json schema <id> <sexp>`; `json v <id> <sexp>` -> 1 / 0 (S5 validator, fuel 64) -/
def handleJson (st : St) (args : List String) : St × String :=
  match args with
  | "schema" :: id :: rest =>
    match parseNat? id, (parseSexp (" ".intercalate rest)).bind jsonOfSexp with
    | some id, some s => ({ st with jschemas := (id, s) :: st.jschemas.filter (·.1 ≠ id) }, "ok")
    | _, _ => (st, "bad-op")
  | "v" :: id :: rest =>
    match parseNat? id, (parseSexp (" ".intercalate rest)).bind jsonOfSexp with
    | some id, some v =>
      match st.jschemas.find? (·.1 = id) with
      | some (_, s) => (st, showBool (Js.validate s 64 s v))
      | none => (st, "bad-op")
    | _, _ => (st, "bad-op")
  | _ => (st, "bad-op")

def insertItem (x : Nat × Nat) : List (Nat × Nat) → List (Nat × Nat)
  | [] => [x]
  | y :: ys => if x.1 < y.1 || (x.1 == y.1 && x.2 ≤ y.2) then x :: y :: ys else y :: insertItem x ys

def showRow (r : List (Nat × Nat)) : String :=
  let sorted := r.foldl (fun acc x => insertItem x acc) []
  if sorted.isEmpty then "-" else ",".intercalate (sorted.map (fun it => s!"{it.1}:{it.2}"))

/-- `ey def <id> <start> <rhs,...> <lhsOf,...> <rules/nullable/lexeme;...>` (rules `a+b+c` or `-`, lexeme number or `-`);
`ey rows <id> <l,l|l|...>` (`-` for no lexemes scanned yet) -> the rows and the accepting flag -/
def handleEy (st : St) (args : List String) : St × String :=
  match args with
  | ["def", id, start, rhs, lhs, syms] =>
    let sym? := fun (e : String) => match e.splitOn "/" with
      | [rs, nl, lx] => do
        let rules ← (if rs = "-" then some [] else (rs.splitOn "+").mapM (·.toNat?))
        let lexeme ← (if lx = "-" then some none else lx.toNat?.map some)
        pure ({ rules := rules, nullable := nl = "1", lexeme := lexeme } : Ey.SymD)
      | _ => none
    match parseNat? id, parseNat? start, parseNatList? rhs, parseNatList? lhs, (syms.splitOn ";").mapM sym? with
    | some id, some start, some rhs, some lhs, some syms =>
      let g : Ey.CG := { start := start, rhs := rhs.toArray, lhsOf := lhs.toArray, syms := syms.toArray }
      if !g.wf then (st, "not-wf")
      else if !g.nullableClosed then (st, "nullable-flags-not-closed")
      else ({ st with eys := (id, g) :: st.eys.filter (·.1 ≠ id) }, "ok")
    | _, _, _, _, _ => (st, "bad-op")
  | ["prod", id] =>
    -- premise of the valid-prefix theorem (c05_earley_rows_viable): every right-hand-side symbol is productive
    match parseNat? id with
    | some id =>
      match st.eys.find? (·.1 = id) with
      | some (_, g) => (st, "ok " ++ showBool g.allProductive)
      | none => (st, "bad-op")
    | none => (st, "bad-op")
  | ["rows", id, lexs] =>
    match parseNat? id, (if lexs = "-" then some [] else (lexs.splitOn "|").mapM parseNatList?) with
    | some id, some lexs =>
      match st.eys.find? (·.1 = id) with
      | some (_, g) =>
        let rows := Ey.runRows g lexs
        -- certificate of the completeness theorem (c05_earley_rows_complete / c05_earley_accept_iff)
        if !Ey.rowsClosed g lexs rows then (st, "rows-not-closed") else
        let showAllowed := fun (row : List Ey.Item) =>
          let ls := canonSet (Ey.allowedLexemes g row)
          if ls.isEmpty then "-" else ",".intercalate (ls.map toString)
        (st, "ok " ++ ";".intercalate (rows.map showRow) ++ " acc=" ++ showBool (Ey.accepting g rows)
          ++ " al=" ++ ";".intercalate (rows.map showAllowed))
      | none => (st, "bad-op")
    | _, _ => (st, "bad-op")
  | _ => (st, "bad-op")

/-! schema IR (M7): s-expressions as printed by the hook `verif_intersect` and by `Sch.showS` -/

def parseSchNum? (s : String) : Option Js.Num :=
  if s = "0" then some { neg := false, mant := 0, exp := 0 } else
  let neg := s.startsWith "-"
  let body := if neg then (s.drop 1).toString else s
  match body.splitOn "e" with
  | [m, e] => do
    let m ← m.toNat?
    let e ← (if e.startsWith "-" then (e.drop 1).toString.toNat?.map (fun n => -(n : Int)) else e.toNat?.map (fun n => (n : Int)))
    pure { neg := neg, mant := m, exp := e }
  | _ => none

def parseSchDec? (s : String) : Option Dec :=
  match s.splitOn "e-" with
  | [c, e] => do pure { coef := (← c.toNat?), exp := (← e.toNat?) }
  | _ => none

def optAtom {α : Type} (f : String → Option α) : SExp → Option (Option α)
  | .atom "_" => some none
  | .atom a => (f a).map some
  | _ => none

def unhexString? (a : String) : Option String :=
  if a.startsWith "x" then do
    let bs ← parseHex? (a.drop 1).toString
    String.fromUTF8? (ByteArray.mk bs.toArray)
  else none

def rxOfSexpS : Nat → SExp → Option Sch.RxT
  | 0, _ => none
  | _ + 1, .list [.atom "atom", .atom a] => some (.atom a)
  | _ + 1, .list [.atom "lit", .atom a] => (unhexString? a).map .lit
  | f + 1, .list [.atom "and", a, b] => do pure (.and2 (← rxOfSexpS f a) (← rxOfSexpS f b))
  | _ + 1, _ => none

mutual
def schOfSexp : Nat → SExp → Option Sch.Sch
  | 0, _ => none
  | _ + 1, .atom "any" => some .any
  | _ + 1, .atom "unsat" => some .unsat
  | _ + 1, .atom "null" => some .null
  | _ + 1, .list [.atom "bool", .atom b] =>
    if b = "_" then some (.boolean none) else if b = "1" then some (.boolean (some true)) else if b = "0" then some (.boolean (some false)) else none
  | _ + 1, .list [.atom "num", mn, mx, xmn, xmx, .atom i, mo] => do
    let mn ← optAtom parseSchNum? mn
    let mx ← optAtom parseSchNum? mx
    let xmn ← optAtom parseSchNum? xmn
    let xmx ← optAtom parseSchNum? xmx
    let mo ← optAtom parseSchDec? mo
    pure (.number { minimum := mn, maximum := mx, exclusiveMinimum := xmn, exclusiveMaximum := xmx, integer := i = "1", multipleOf := mo })
  | f + 1, .list [.atom "str", .atom lo, hi, rx] => do
    let lo ← lo.toNat?
    let hi ← optAtom (fun s => s.toNat?) hi
    let rx ← (match rx with | .atom "_" => some none | r => (rxOfSexpS f r).map some)
    pure (.string lo hi rx)
  | f + 1, .list [.atom "arr", .atom lo, hi, .list pre, items] => do
    let lo ← lo.toNat?
    let hi ← optAtom (fun s => s.toNat?) hi
    let pre ← schLOfSexp f pre
    match items with
    | .atom "_" => pure (.array lo hi pre true .any)
    | it => do pure (.array lo hi pre false (← schOfSexp f it))
  | f + 1, .list [.atom "obj", .list props, ap, .list req, .atom lo, hi] => do
    let props ← schKLOfSexp f props
    let req ← req.mapM (fun r => match r with | .atom a => unhexString? a | _ => none)
    let lo ← lo.toNat?
    let hi ← optAtom (fun s => s.toNat?) hi
    match ap with
    | .atom "_" => pure (.object props true .any req lo hi)
    | a => do pure (.object props false (← schOfSexp f a) req lo hi)
  | f + 1, .list (.atom "anyof" :: xs) => (schLOfSexp f xs).map .anyOf
  | f + 1, .list (.atom "oneof" :: xs) => (schLOfSexp f xs).map .oneOf
  | _ + 1, _ => none
def schLOfSexp : Nat → List SExp → Option Sch.SchL
  | 0, _ => none
  | _ + 1, [] => some .nil
  | f + 1, x :: xs => do pure (.cons (← schOfSexp f x) (← schLOfSexp f xs))
def schKLOfSexp : Nat → List SExp → Option Sch.SchKL
  | 0, _ => none
  | _ + 1, [] => some .nil
  | f + 1, .list [.atom k, x] :: xs => do pure (.cons (← unhexString? k) (← schOfSexp f x) (← schKLOfSexp f xs))
  | _ + 1, _ => none
end

/-- `sch isect <budget> (pair A B)` -> `ok <A ∧ B>` | `err` (budget exhausted / multipleOf values do not combine) -/
def handleSch (args : List String) : String :=
  match args with
  | "isect" :: fuel :: rest =>
    match parseNat? fuel, parseSexp (" ".intercalate rest) with
    | some fuel, some (.list [.atom "pair", a, b]) =>
      match schOfSexp 200 a, schOfSexp 200 b with
      | some a, some b =>
        match Sch.intersect Dec.checkedLcm fuel a b with
        | some r => "ok " ++ Sch.showS r
        | none => "err"
      | _, _ => "bad-op"
    | _, _ => "bad-op"
  | "sat" :: rest =>
    -- meaning of an IR node (as dumped by the code) on an instance: `sch sat (pair <IR> <instance>)` -> 1 / 0
    match parseSexp (" ".intercalate rest) with
    | some (.list [.atom "pair", a, v]) =>
      match schOfSexp 200 a, jsonOfSexp v with
      | some a, some v => showBool (Sch.sat (fun _ _ => true) Sch.isMultDec a v)
      | _, _ => "bad-op"
    | _ => "bad-op"
  | _ => "bad-op"

def parseOptInt? (s : String) : Option (Option Int) :=
  if s = "none" then some none
  else if s.startsWith "-" then (s.drop 1).toString.toNat?.map (fun n => some (-(n : Int)))
  else s.toNat?.map (fun n => some (n : Int))

/-- `num int <l|none> <r|none>` -> printed pattern; `num m <l> <r> <hexlist>` -> membership bits -/
def handleNum (args : List String) : String :=
  match args with
  | ["int", l, r] =>
    match parseOptInt? l, parseOptInt? r with
    | some l, some r =>
      match rxIntRange l r with
      | .ok p => "ok " ++ p.s
      | .error _ => "err"
    | _, _ => "bad-op"
  | ["lexi", kind, a, b, ai, bi] =>
    -- fraction-digit helpers: kind 0 = lexi_x_to_9, 1 = lexi_0_to_x, 2 = lexi_range; digits or "-"
    let dig := fun (x : String) => if x = "-" then some [] else x.toList.mapM (fun c => if c.isDigit then some (c.toNat - 48) else none)
    match dig a, dig b with
    | some a, some b =>
      let r : Except Unit PR := match kind with
        | "0" => .ok (lexiXTo9 a (ai = "1"))
        | "1" => lexi0ToX a (ai = "1")
        | _ => lexiRange a b (ai = "1") (bi = "1")
      match r with
      | .ok p => "ok " ++ p.s
      | .error _ => "err"
    | _, _ => "bad-op"
  | ["sat", lo, lex, hi, hex, step] =>
    -- bounds and step as integers at a common decimal scale; step 0 = no multipleOf on a number
    let pi := fun (x : String) => if x.startsWith "-" then (x.drop 1).toString.toNat?.map (fun n => -(n : Int)) else x.toNat?.map (fun n => (n : Int))
    match pi lo, pi hi, pi step with
    | some lo, some hi, some step =>
      if step = 0 then showBool (hasPoint lo (lex = "1") hi (hex = "1"))
      else showBool (hasMult lo (lex = "1") hi (hex = "1") step)
    | _, _, _ => "bad-op"
  | ["float", l, r, li, ri] =>
    -- bounds as decimal text (`-12.5`, `3`, `0.001`) or `none`
    let fb := fun (x : String) => if x = "none" then some none else
      let neg := x.startsWith "-"
      let y := if neg then (x.drop 1).toString else x
      match y.splitOn "." with
      | [ip] => ip.toNat?.map (fun n => some ({ neg := neg, ip := n, fd := [] } : FB))
      | [ip, fd] => do
        let n ← ip.toNat?
        let ds ← fd.toList.mapM (fun c => if c.isDigit then some (c.toNat - 48) else none)
        pure (some { neg := neg, ip := n, fd := ds })
      | _ => none
    match fb l, fb r with
    | some l, some r =>
      match rxFloatRange l r (li = "1") (ri = "1") with
      | .ok p => "ok " ++ p.s
      | .error _ => "err"
    | _, _ => "bad-op"
  | ["lcm", c1, e1, c2, e2] =>
    match parseNat? c1, parseNat? e1, parseNat? c2, parseNat? e2 with
    | some c1, some e1, some c2, some e2 =>
      match Dec.checkedLcm { coef := c1, exp := e1 } { coef := c2, exp := e2 } with
      | some d => s!"some {d.coef} {d.exp}"
      | none => "none"
    | _, _, _, _ => "bad-op"
  | ["m", l, r, ws] =>
    match parseOptInt? l, parseOptInt? r, parseHexList? ws with
    | some l, some r, some ws =>
      match rxIntRange l r with
      | .ok p => "ok " ++ String.join (ws.map (fun w => showBool (Rx.matchesB p.rx w)))
      | .error _ => "err"
    | _, _, _ => "bad-op"
  | _ => "bad-op"

def handleTrie (st : St) (args : List String) : St × String :=
  match args with
  | ["build", ws] =>
    match parseHexList? ws with
    | some words =>
      let nodes := flatten (buildTree words)
      ({ st with nodes := nodes, vocab := words.length }, s!"ok {showFlat nodes}")
    | none => (st, "bad-op")
  | ["bias", k, n, cls, trans, q0, start] =>
    match parseDfa? k n cls trans, parseNat? q0, parseHex? start with
    | some d, some q0, some start =>
      (st, s!"ok {showNatList (canonSet (addBias d.toRec st.nodes st.vocab q0 start))}")
    | _, _, _ => (st, "bad-op")
  | ["hasext", k, n, cls, trans, q0, start] =>
    match parseDfa? k n cls trans, parseNat? q0, parseHex? start with
    | some d, some q0, some start =>
      (st, s!"ok {showBool (hasValidExtensions d.toRec st.nodes q0 start)}")
    | _, _, _ => (st, "bad-op")
  | ["greedy", bs] =>
    match parseHex? bs with
    | some bs => (st, s!"ok {showNatList (greedyTokenize st.nodes (bs.length + 1) bs)}")
    | none => (st, "bad-op")
  | _ => (st, "bad-op")

def handleParcopy (args : List String) : String :=
  match args with
  | [hasMask, size, ws, d, addEos, eos] =>
    match parseNat? size, parseNatList? ws, parseNat? d, parseNat? eos with
    | some size, some ws, some d, some eos =>
      let m : Option Svob := if hasMask = "1" then some { data := wordsOf ws, size := size } else none
      let r := parCopy m d (addEos = "1") eos
      s!"ok {showNatList (natsOf r.dest)}"
    | _, _, _, _ => "bad-op"
  | _ => "bad-op"

def handleInto (args : List String) : String :=
  match args with
  | [size, ws, vocab, byteLen] =>
    match parseNat? size, parseNatList? ws, parseNat? vocab, parseNat? byteLen with
    | some size, some ws, some vocab, some bl =>
      match computeMaskInto? { data := wordsOf ws, size := size } vocab bl with
      | some d => s!"ok {showNatList (natsOf d)}"
      | none => "err"
    | _, _, _, _ => "bad-op"
  | _ => "bad-op"


/-! byte-level engine (M5): `lx def <id> <eyid> <skipId|-> <initialSkip> <rxid/lazy/skip/once;...>` (regexes
defined before by `rx def`); `lx run <id> <hex>` -> state after the bytes: scanned lexeme sets, lexemes
possible / accepting in the lexer state, pending flag, accepting flag, allowed bytes -/

def showSets (l : List (List Nat)) : String :=
  if l.isEmpty then "-" else "|".intercalate (l.map (fun s => showNatList (canonSet s)))

def showByteSet (l : List Nat) : String :=
  -- 256 bits as 64 hex digits, bit b of the set = byte b
  String.ofList ((List.range 64).map (fun k =>
    let v := (List.range 4).foldl (fun acc j => if l.contains (4 * k + j) then acc + 2 ^ j else acc) 0
    if v < 10 then Char.ofNat (48 + v) else Char.ofNat (87 + v)))

def handleLx (st : St) (args : List String) : St × String :=
  match args with
  | ["def", id, eyid, skip, ini, lexemes] =>
    let lexeme? := fun (e : String) => match e.splitOn "/" with
      | [rx, lz, sk, on] => do
        let rx ← rx.toNat?
        let ent ← st.rxs.find? (fun (e : Nat × LlgVerif.Dfa) => e.1 = rx)
        let d := ent.2
        pure ({ dfa := d, isLazy := lz = "1", skip := sk = "1", once := on = "1" } : Lx.Lexeme)
      | _ => none
    let skipO : Option (Option Nat) := if skip = "-" then some none else skip.toNat?.map some
    match parseNat? id, parseNat? eyid, skipO, (lexemes.splitOn ";").mapM lexeme? with
    | some id, some eyid, some skipId, some lxs =>
      match st.eys.find? (·.1 = eyid) with
      | some (_, g) =>
        let C : Lx.Cfg := { g := g, lexemes := lxs.toArray, skipId := skipId, initialSkip := ini = "1" }
        if !C.wf then (st, "bad-cert") else
        -- premise `hskip` of c10_matched_slice_tokens_accepted: the skip lexeme carries the skip flag
        if !(match skipId with | some k => (C.lx k).skip | none => true) then (st, "bad-skip") else
        ({ st with lxs := (id, C) :: st.lxs.filter (·.1 ≠ id) }, "ok")
      | none => (st, "no-such-grammar")
    | _, _, _, _ => (st, "bad-op")
  | ["run", id, w] =>
    match parseNat? id, parseHex? w with
    | some id, some w =>
      match st.lxs.find? (·.1 = id) with
      | some (_, C) =>
        let show1 := fun (s : Lx.St) =>
          s!"ok lexs={showSets s.lexs} po={showNatList (canonSet (Lx.possible s.ls))} ac={showNatList (canonSet (Lx.accepting C s.ls))} pend={showBool s.pending} acc={showBool (Lx.isAccepting C s)} rows={s.rows.length} mask={showByteSet (Lx.allowedBytes C s)}"
        match Lx.run C (Lx.init C) w with
        | some s =>
          -- second view of the last byte: the lexeme left open where only the semantic end-of-input test fires
          let alt : Option Lx.St := match w.reverse with
            | [] => none
            | b :: pre => (Lx.run C (Lx.init C) pre.reverse).bind (fun s0 => Lx.pushLate C s0 b)
          match alt with
          | some s2 => if show1 s2 = show1 s then (st, show1 s) else (st, show1 s ++ " || " ++ show1 s2)
          | none => (st, show1 s)
        | none => (st, "dead")
      | none => (st, "no-such-lx")
    | _, _ => (st, "bad-op")
  | ["contain", id, u, sl, entries] =>
    -- containment of the slice lexeme `sl` in the prefixes of some entry of the lexer state after the open
    -- lexeme's bytes `u` (what `check_subsume` claims when it answers true), decided on the certificates
    match parseNat? id, parseHex? u, parseNat? sl, parseNatList? entries with
    | some id, some u, some sl, some entries =>
      match st.lxs.find? (·.1 = id) with
      | some (_, C) =>
        let ds := (C.lx sl).dfa
        -- premise `NoLazy` of c10_matched_slice_tokens_accepted (`subsume_possible`)
        if entries.any (fun l => (C.lx l).isLazy) then (st, "lazy-entry") else
        let rs := entries.map (fun l =>
          let db := (C.lx l).dfa
          Dfa.decideContain ds db (Dfa.run db 0 u) 3000)
        if rs.contains (some true) then (st, "ok 1")
        else if rs.contains none then (st, "ok 1 || undecided")
        else (st, "ok 0")
      | none => (st, "no-such-lx")
    | _, _, _, _ => (st, "bad-op")
  | ["ff", id, w] =>
    -- forced bytes (M6 `forceBytes`, exhaustive probe) of the byte-level engine after the bytes `w`
    match parseNat? id, parseHex? w with
    | some id, some w =>
      match st.lxs.find? (·.1 = id) with
      | some (_, C) =>
        match Lx.run C (Lx.init C) w with
        | some s => (st, s!"ok {showHex (forceBytes ({ step := fun s b => Lx.push C s b } : Rec Lx.St) (fun s => Lx.isAccepting C s) 32 4096 s).1}")
        | none => (st, "dead")
      | none => (st, "no-such-lx")
    | _, _ => (st, "bad-op")
  | _ => (st, "bad-op")


/-- token-level engine (M6) over the byte-level engine M5: `elx init <lxid> <words> <eos>`, `elx mask`,
`elx commit t`, `elx validate ts`, `elx acc` -/
def handleElx (st : St) (args : List String) : St × String :=
  match args with
  | ["init", id, ws, eos] =>
    match parseNat? id, parseHexList? ws, parseNat? eos with
    | some id, some ws, some eos =>
      match st.lxs.find? (·.1 = id) with
      | some (_, C) =>
        let cfg : EngCfg Lx.St := { recog := { step := fun s b => Lx.push C s b }, accepting := fun s => Lx.isAccepting C s, words := ws, eos := eos }
        ({ st with elx := some (cfg, { st := Lx.init C, tokens := [], stopped := false }) }, "ok")
      | none => (st, "no-such-lx")
    | _, _, _ => (st, "bad-op")
  | ["mask"] =>
    match st.elx with
    | some (c, s) => (st, s!"ok {showNatList (canonSet (c.mask s))}")
    | none => (st, "no-engine")
  | ["acc"] =>
    match st.elx with
    | some (c, s) => (st, s!"ok {showBool (c.accepting s.st)}")
    | none => (st, "no-engine")
  | ["commit", t] =>
    match st.elx, parseNat? t with
    | some (c, s), some t =>
      match c.commit s t with
      | some s' => ({ st with elx := some (c, s') }, "ok")
      | none => (st, "err")
    | _, _ => (st, "bad-op")
  | ["validate", ts] =>
    match st.elx, parseNatList? ts with
    | some (c, s), some ts => (st, s!"ok {c.validate s ts}")
    | _, _ => (st, "bad-op")
  | _ => (st, "bad-op")

def step (st : St) (line : String) : St × String :=
  match words line with
  | "parcopy" :: args => (st, handleParcopy args)
  | "maskinto" :: args => (st, handleInto args)
  | "trie" :: args => handleTrie st args
  | "svob" :: args => handleSvob st args
  | "cache" :: args => handleCache st args
  | "rx" :: args => handleRx st args
  | "rep" :: args => (st, handleRep args)
  | "eng" :: args => handleEng st args
  | "slice" :: args => handleSlice st args
  | "stop" :: args => handleStop st args
  | "shared" :: args => handleShared st args
  | "ranges" :: args => (st, handleRanges args)
  | "num" :: args => (st, handleNum args)
  | "cfg" :: args => handleCfg st args
  | "opt" :: args => (st, handleOpt args)
  | "json" :: args => handleJson st args
  | "ey" :: args => handleEy st args
  | "lx" :: args => handleLx st args
  | "elx" :: args => handleElx st args
  | "sch" :: args => (st, handleSch args)
  | "rb" :: args => handleRb st args
  | ["reset"] => ({}, "ok")
  | _ => (st, "bad-op")

partial def loop (h : IO.FS.Stream) (out : IO.FS.Stream) (st : St) : IO Unit := do
  let line ← h.getLine
  if line.isEmpty then return ()
  let (st', o) := step st line
  out.putStrLn o
  loop h out st'

def main : IO Unit := do
  let out ← IO.getStdout
  loop (← IO.getStdin) out {}
  out.flush
