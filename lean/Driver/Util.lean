/- Parsing/printing helpers of the line-protocol driver (import-free apart from models). -/
namespace Drv

def words (s : String) : List String :=
  (s.trimAscii.toString.splitOn " ").filter (· ≠ "")

def parseNat? (s : String) : Option Nat := s.toNat?

/-- comma-separated naturals; "-" is the empty list -/
def parseNatList? (s : String) : Option (List Nat) :=
  if s = "-" then some [] else
  (s.splitOn ",").mapM (·.toNat?)

def showNatList (l : List Nat) : String :=
  if l.isEmpty then "-" else ",".intercalate (l.map toString)

def showOptNat : Option Nat → String
  | some n => toString n
  | none => "none"

def hexVal (c : Char) : Option Nat :=
  if '0' ≤ c ∧ c ≤ '9' then some (c.toNat - '0'.toNat)
  else if 'a' ≤ c ∧ c ≤ 'f' then some (c.toNat - 'a'.toNat + 10)
  else none

def parseHexAux : List Char → Option (List UInt8)
  | [] => some []
  | [_] => none
  | a :: b :: rest => do
    let x ← hexVal a
    let y ← hexVal b
    let r ← parseHexAux rest
    pure (UInt8.ofNat (16 * x + y) :: r)

/-- hex string; "_" is the empty byte string -/
def parseHex? (s : String) : Option (List UInt8) :=
  if s = "_" then some [] else parseHexAux s.toList

def parseHexList? (s : String) : Option (List (List UInt8)) :=
  if s = "-" then some [] else (s.splitOn ",").mapM parseHex?

def showBool (b : Bool) : String := if b then "1" else "0"

/-- insertion sort + dedup of naturals (canonical output of sets) -/
def insertNat (x : Nat) : List Nat → List Nat
  | [] => [x]
  | y :: ys => if x < y then x :: y :: ys else if x = y then y :: ys else y :: insertNat x ys

def canonSet (l : List Nat) : List Nat := l.foldl (fun acc x => insertNat x acc) []

/-- s-expressions: `(head arg ...)`, atoms are space-free strings -/
inductive SExp where
  | atom (s : String)
  | list (xs : List SExp)
deriving Repr, Inhabited

def tokenizeSexp (s : String) : List String :=
  let s := (s.replace "(" " ( ").replace ")" " ) "
  (s.splitOn " ").filter (· ≠ "")

/-- parse one s-expression from a token list (fuel = token count) -/
def parseSexpAux : Nat → List String → Option (SExp × List String)
  | 0, _ => none
  | _, [] => none
  | fuel + 1, tok :: rest =>
    if tok = "(" then
      let rec items (f : Nat) (ts : List String) (acc : List SExp) : Option (List SExp × List String) :=
        match f, ts with
        | 0, _ => none
        | _, [] => none
        | f + 1, ")" :: ts' => some (acc.reverse, ts')
        | f + 1, ts => match parseSexpAux fuel ts with
          | some (e, ts') => items f ts' (e :: acc)
          | none => none
      match items (fuel + 1) rest [] with
      | some (xs, rest') => some (SExp.list xs, rest')
      | none => none
    else if tok = ")" then none
    else some (SExp.atom tok, rest)

def parseSexp (s : String) : Option SExp :=
  let toks := tokenizeSexp s
  match parseSexpAux (toks.length + 1) toks with
  | some (e, []) => some e
  | _ => none

end Drv
