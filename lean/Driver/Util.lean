/- Parsing/printing helpers of the line-protocol driver (import-free apart from models). -/
namespace Drv

def words (s : String) : List String :=
  (s.trimAscii.toString.splitOn " ").filter (· ≠ "")

def parseNat? (s : String) : Option Nat := s.toNat?

/-- comma-separated naturals; "-" is the empty list -/
def parseNatList? (s : String) : Option (List Nat) :=
  if s = "-" then some [] else
  (s.splitOn ",").mapM (·.toNat?)

def showNatList (l : List Nat) : String :=
  if l.isEmpty then "-" else ",".intercalate (l.map toString)

def showOptNat : Option Nat → String
  | some n => toString n
  | none => "none"

end Drv
