/-
Half-open decimal ranges: `rx_float_range(Some(left), None)` for `left ≥ 0` and
`rx_float_range(None, Some(right))` for `right > 0` (models `floatGe`, `floatLe`).
-/
import LlgVerif.Proofs.FloatPos
namespace LlgVerif
open Rx

/-- `I(\.[0-9]+)?` for any set of integers `Q` that `I` denotes -/
theorem litLang_int_any (I : Rx) (Q : Nat → Prop) (hI : ∀ w, lang I w ↔ ∃ n, Q n ∧ w = dec n) :
    LitLang (cat I optFracAny) (fun ip _ => Q ip) := by
  intro w
  have hfa : ∀ v, lang fracAny v ↔ ∃ fd, AllDig fd ∧ fd ≠ [] ∧ v = 46 :: digB fd := by
    intro v
    unfold fracAny
    rw [lang_cat]
    constructor
    · rintro ⟨x, y, hv, hx, hy⟩
      obtain ⟨fd, hfd, hy', hne⟩ := (digLang_plus y).mp hy
      exact ⟨fd, hfd, hne, by rw [hv, (lang_dot x).mp hx, hy']; rfl⟩
    · rintro ⟨fd, hfd, hne, hv⟩
      exact ⟨[46], digB fd, hv, (lang_dot _).mpr rfl, (digLang_plus _).mpr ⟨fd, hfd, rfl, hne⟩⟩
  rw [lang_cat]
  simp only [hI _, optFracAny, lang_opt, hfa]
  constructor
  · rintro ⟨u, v, hw, ⟨n, h1, hu⟩, hv | ⟨fd, hfd, hne, hv⟩⟩
    · exact ⟨n, [], allDig_nil, by rw [hw, hu, hv]; simp [fracBytes], h1⟩
    · refine ⟨n, fd, hfd, ?_, h1⟩
      rw [hw, hu, hv]
      simp [fracBytes, List.isEmpty_iff, hne]
  · rintro ⟨ip, fd, hfd, hw, h1⟩
    refine ⟨dec ip, fracBytes fd, hw, ⟨ip, h1, rfl⟩, ?_⟩
    by_cases hne : fd = []
    · left; simp [fracBytes, hne]
    · right; exact ⟨fd, hfd, hne, by simp [fracBytes, List.isEmpty_iff, hne]⟩

theorem litLang_alts2 {r1 r2 : Rx} {P Q : Nat → List Nat → Prop} (h1 : LitLang r1 P) (h2 : LitLang r2 Q) :
    LitLang (altsRx [r1, r2]) (fun ip fd => P ip fd ∨ Q ip fd) :=
  litLang_alts_append (a := [r1]) (b := [r2]) (litLang_alts1 h1) (litLang_alts1 h2)

theorem fracLtB_iff (a b : List Nat) : fracLtB a b = true ↔ fracLT a b := by
  induction b generalizing a with
  | nil => cases a <;> simp [fracLtB, fracLT]
  | cons y b ih =>
    cases a with
    | nil => simp [fracLtB, fracLT, ih]
    | cons x a => simp [fracLtB, fracLT, ih]

/-- for a non-negative bound below `10^d`, `floatBoth l (10^d)` is the positive case -/
theorem floatBoth_pow (l : FB) (li : Bool) (d : Nat) (hneg : l.neg = false) (hlt : l.ip < 10 ^ d) :
    floatBoth l (FB.ofNat (10 ^ d)) li false = floatPos l (FB.ofNat (10 ^ d)) li false := by
  unfold floatBoth
  have h1 : FB.lt (FB.ofNat (10 ^ d)) l = false := by
    simp only [FB.lt, FB.ofNat, hneg, Bool.false_and, FB.absLt]
    simp
    constructor
    · exact decide_eq_false (by omega)
    · intro h
      have : 10 ^ d = l.ip := of_decide_eq_true h
      omega
  have h2 : FB.lt l (FB.ofNat (10 ^ d)) = true := by
    simp only [FB.lt, FB.ofNat, hneg, Bool.false_and, FB.absLt]
    simp [hlt]
  simp [h1, h2, hneg]

/-- **C08 (lower bound only, `left ≥ 0`).**  The pattern accepts exactly the non-negative plain
decimal literals with `left ≤ value` (`<` when exclusive). -/
theorem floatGe_nonneg_lang (l : FB) (li : Bool) (p : PR) (h : floatGe l li = .ok p)
    (hneg : l.neg = false) (hl : AllDig l.fd) (hln : NTZ l.fd) :
    LitLang p.rx (fun ip fd => geB li ip fd l.ip l.fd) := by
  unfold floatGe at h
  simp only [hneg, Bool.false_and, Bool.false_eq_true, ↓reduceIte] at h
  have hlt := lt_pow_numDigits l.ip
  rw [floatBoth_pow l li _ hneg hlt] at h
  split at h
  · rename_i a ha
    injection h with h; subst h
    have h1 := floatPos_lang l (FB.ofNat (10 ^ numDigits l.ip)) li false a ha hl hln allDig_nil trivial
      (Or.inl hlt)
    have h2 := litLang_int_any (bigRx (numDigits l.ip)) (fun n => 10 ^ numDigits l.ip ≤ n)
      (fun w => lang_bigRx _ w)
    refine litLang_congr (litLang_alts2 h1 h2) (fun ip fd _ => ?_)
    simp only [FB.ofNat, leB, UpperB, Bool.false_eq_true, ↓reduceIte]
    have hnf : ¬ fracLT fd [] := by cases fd <;> simp [fracLT]
    constructor
    · rintro (⟨hg, _⟩ | hq)
      · exact hg
      · exact Or.inl (by omega)
    · intro hg
      by_cases hb : ip < 10 ^ numDigits l.ip
      · exact Or.inl ⟨hg, Or.inl hb⟩
      · exact Or.inr (by omega)
  · cases h

end LlgVerif

namespace LlgVerif
open Rx

theorem lang_minus' (rx : Rx) (w : List B) : lang (cat minus rx) w ↔ ∃ v, w = 45 :: v ∧ lang rx v := by
  simp only [lang, minus, inSet, List.any_cons, List.any_nil, Bool.or_false, Bool.and_eq_true,
    decide_eq_true_eq]
  constructor
  · rintro ⟨x, v, hw, ⟨b, hx, h1, h2⟩, hv⟩
    have : b = 45 := by apply UInt8.toNat_inj.mp; simp; omega
    subst this hx
    exact ⟨v, hw, hv⟩
  · rintro ⟨v, hw, hv⟩
    exact ⟨[45], v, hw, ⟨45, rfl, by decide, by decide⟩, hv⟩

theorem isZero_false_of_pos (r : FB) (hr0 : 0 < r.ip ∨ (0 = r.ip ∧ fracLT [] r.fd)) : r.isZero = false := by
  unfold FB.isZero
  rcases hr0 with h | ⟨_, h⟩
  · have : (r.ip == 0) = false := by simp; omega
    simp [this]
  · have hz : ¬ AllZero r.fd := (fracLT_nil_left _).mp h
    have : r.fd.all (· == 0) = false := by
      cases hb : r.fd.all (· == 0) with
      | false => rfl
      | true => exact absurd ((all_zero_iff _).mp hb) hz
    simp [this]

/-- for a positive bound, `floatBoth 0 r` is the positive case -/
theorem floatBoth_zero (r : FB) (li ri : Bool) (hneg : r.neg = false)
    (hr0 : 0 < r.ip ∨ (0 = r.ip ∧ fracLT [] r.fd)) :
    floatBoth FB.zero r li ri = floatPos FB.zero r li ri := by
  unfold floatBoth
  have hz := isZero_false_of_pos r hr0
  have h2 : FB.lt FB.zero r = true := by
    simp only [FB.lt, FB.zero, hneg, Bool.false_and, FB.absLt]
    rcases hr0 with h | ⟨h, hf⟩
    · simp [h]
    · simp [← h, (fracLtB_iff [] r.fd).mpr hf]
  have h1 : FB.lt r FB.zero = false := by
    simp only [FB.lt, FB.zero, hneg, Bool.false_and, FB.absLt]
    simp [fracLtB]
  simp only [h1, h2, Bool.false_eq_true, ↓reduceIte, Bool.not_true]
  simp [FB.zero]

/-- **C08 (upper bound only, `right > 0`).**  Accepted: `-` and any literal of positive value, or a
non-negative literal with `value ≤ right` (`<` when exclusive). -/
theorem floatLe_pos_lang (r : FB) (ri : Bool) (p : PR) (h : floatLe r ri = .ok p)
    (hneg : r.neg = false) (hr0 : 0 < r.ip ∨ (0 = r.ip ∧ fracLT [] r.fd))
    (hr : AllDig r.fd) (hrn : NTZ r.fd) (w : List B) :
    lang p.rx w ↔
      (∃ ip fd, AllDig fd ∧ w = 45 :: (dec ip ++ fracBytes fd) ∧ (0 < ip ∨ (0 = ip ∧ fracLT [] fd))) ∨
      (∃ ip fd, AllDig fd ∧ w = dec ip ++ fracBytes fd ∧ leB ri ip fd r.ip r.fd) := by
  unfold floatLe at h
  have hz := isZero_false_of_pos r hr0
  simp only [hz, Bool.false_eq_true, ↓reduceIte, hneg, Bool.not_false] at h
  rw [floatBoth_zero r true ri hneg hr0] at h
  split at h
  · rename_i g b hg hb
    injection h with h; subst h
    have hgl := floatGe_nonneg_lang FB.zero false g hg rfl allDig_nil trivial
    have hbl := floatPos_lang FB.zero r true ri b hb allDig_nil trivial hr hrn hr0
    simp only [lang_altsRx, List.mem_cons, List.not_mem_nil, or_false]
    constructor
    · rintro ⟨q, hq | hq, hw⟩
      · subst hq
        obtain ⟨v, hwv, hv⟩ := (lang_minus' _ _).mp hw
        obtain ⟨ip, fd, hfd, hvv, hge⟩ := (hgl v).mp hv
        left
        refine ⟨ip, fd, hfd, by rw [hwv, hvv], ?_⟩
        simpa [geB, LowerB, FB.zero] using hge
      · subst hq
        obtain ⟨ip, fd, hfd, hvv, _, hle⟩ := (hbl w).mp hw
        exact Or.inr ⟨ip, fd, hfd, hvv, hle⟩
    · rintro (⟨ip, fd, hfd, hw, hpos⟩ | ⟨ip, fd, hfd, hw, hle⟩)
      · refine ⟨_, Or.inl rfl, (lang_minus' _ _).mpr ⟨_, hw, (hgl _).mpr ⟨ip, fd, hfd, rfl, ?_⟩⟩⟩
        simpa [geB, LowerB, FB.zero] using hpos
      · refine ⟨_, Or.inr rfl, (hbl w).mpr ⟨ip, fd, hfd, hw, ?_, hle⟩⟩
        simp only [geB, LowerB, FB.zero, ↓reduceIte, fracLE, and_true]
        omega
  · cases h

end LlgVerif
