/-
Soundness of the byte-level engine M5: whatever `Lx.accepts` accepts splits into chunks, each of
which matches the regex of every lexeme in the set the lexer ended it with, and the sequence of
non-skip sets is derived by the compiled grammar (M4 soundness).
-/
import LlgVerif.Model.Lexer
import LlgVerif.Proofs.RegexDfa
import LlgVerif.Proofs.Earley
namespace LlgVerif
namespace Lx

structure Chunk where
  S : List Nat
  w : List B

/-- every lexeme of the set matches the bytes of the chunk -/
def ChunkOK (C : Cfg) (c : Chunk) : Prop := ∀ l ∈ c.S, Rx.lang (C.lx l).rx c.w

def isSkipChunk (C : Cfg) (c : Chunk) : Bool := (c.S.find? (fun l => (C.lx l).skip)).isSome

def nonSkipSets (C : Cfg) (cs : List Chunk) : List (List Nat) :=
  (cs.filter (fun c => !isSkipChunk C c)).map (·.S)

def bytesOf (cs : List Chunk) : List B := (cs.map (·.w)).flatten

/-- every entry of the lexer state is the DFA state reached on the bytes `u` of the open lexeme -/
def Tracks (C : Cfg) (s : LState) (u : List B) : Prop :=
  ∀ e ∈ s, e.2 = Dfa.run (C.lx e.1).dfa 0 u

/-- every entry is a live state of its lexeme's certificate -/
def AllLive (C : Cfg) (s : LState) : Prop := ∀ e ∈ s, liveAt (C.lx e.1).dfa e.2 = true

def lastRow (rows : List (List Ey.Item)) : List Ey.Item := rows.getD (rows.length - 1) []

/-- the lexemes the lexer was restarted on are lexemes the current row asks for, or the skip lexeme -/
def AlOK (C : Cfg) (rows : List (List Ey.Item)) (al : List Nat) : Prop :=
  ∀ l ∈ al, l ∈ Ey.allowedLexemes C.g (lastRow rows) ∨ some l = C.skipId

/-- the invariant: the bytes read so far are the chunks followed by the open lexeme's bytes -/
def Inv (C : Cfg) (st : St) (w : List B) : Prop :=
  ∃ cs u, w = bytesOf cs ++ u ∧ (∀ c ∈ cs, ChunkOK C c) ∧ st.lexs = nonSkipSets C cs ∧
    st.rows = Ey.runRows C.g st.lexs ∧ Tracks C st.ls u ∧ (st.pending = false → u = []) ∧ AllLive C st.ls ∧
    AlOK C st.rows st.al ∧ (∀ e ∈ st.ls, e.1 ∈ st.al)

theorem tracks_start (C : Cfg) (al : List Nat) : Tracks C (start C al) [] := by
  intro e he
  unfold start at he
  simp only [List.mem_filterMap] at he
  obtain ⟨i, _, hi⟩ := he
  split at hi
  · cases hi; rfl
  · cases hi

theorem live_start (C : Cfg) (al : List Nat) : AllLive C (start C al) := by
  intro e he
  unfold start at he
  simp only [List.mem_filterMap] at he
  obtain ⟨i, _, hi⟩ := he
  split at hi
  · rename_i hl; cases hi; exact hl
  · cases hi

theorem live_step (C : Cfg) (s : LState) (b : B) : AllLive C (step C s b) := by
  intro e he
  unfold step at he
  simp only [List.mem_filterMap] at he
  obtain ⟨e0, _, hi⟩ := he
  split at hi
  · rename_i hl; cases hi; exact hl
  · cases hi

theorem tracks_step (C : Cfg) (s : LState) (u : List B) (b : B) (h : Tracks C s u) :
    Tracks C (step C s b) (u ++ [b]) := by
  intro e he
  unfold step at he
  simp only [List.mem_filterMap] at he
  obtain ⟨e0, he0, hi⟩ := he
  split at hi
  · cases hi
    simp only
    rw [Dfa.run_append, ← h e0 he0]
    rfl
  · cases hi

theorem lex_check (C : Cfg) (hw : C.wf = true) (l : Nat) (hl : l < C.lexemes.size) :
    Dfa.check (C.lx l).rx (C.lx l).dfa = true := by
  unfold Cfg.wf at hw
  rw [List.all_eq_true] at hw
  exact hw l (List.mem_range.mpr hl)

/-- a lexeme index outside the table has the empty certificate: nothing is live or accepting -/
theorem lx_default (C : Cfg) (l : Nat) (hl : ¬ l < C.lexemes.size) : C.lx l = default := by
  unfold Cfg.lx
  simp [Array.getD, hl]

theorem acc_default (q : Nat) : accAt (default : Lexeme).dfa q = false := by
  unfold accAt
  show (#[] : Array Bool)[q]! = false
  simp

/-- an accepting entry of a tracked state: the lexeme's regex matches the open bytes -/
theorem accepting_lang (C : Cfg) (hw : C.wf = true) (s : LState) (u : List B) (h : Tracks C s u)
    (l : Nat) (hl : l ∈ accepting C s) : Rx.lang (C.lx l).rx u := by
  unfold accepting at hl
  simp only [List.mem_map, List.mem_filter] at hl
  obtain ⟨e, ⟨he, hacc⟩, rfl⟩ := hl
  by_cases hlt : e.1 < C.lexemes.size
  · have hc := lex_check C hw e.1 hlt
    have := (Dfa.dfa_decides _ _ hc u).1
    apply this.mp
    unfold Dfa.accepts
    rw [← h e he]
    exact hacc
  · rw [lx_default C e.1 hlt, acc_default] at hacc
    cases hacc

theorem lowest_sub_accepting (C : Cfg) (s : LState) (l : Nat) (hl : l ∈ lowest C s) : l ∈ accepting C s := by
  unfold lowest at hl
  simp only at hl
  split at hl
  · unfold accepting
    simp only [List.mem_map, List.mem_filter, Bool.and_eq_true] at hl ⊢
    obtain ⟨e, ⟨he, _, hacc⟩, rfl⟩ := hl
    exact ⟨e, ⟨he, hacc⟩, rfl⟩
  · split at hl
    · rename_i hall
      unfold allEoi at hall
      simp only [Bool.and_eq_true, List.all_eq_true] at hall
      unfold possible at hl
      simp only [List.mem_map] at hl
      obtain ⟨e, he, rfl⟩ := hl
      have := hall.2 e he
      unfold eoi at this
      simp only [Bool.and_eq_true] at this
      unfold accepting
      simp only [List.mem_map, List.mem_filter]
      exact ⟨e, ⟨he, this.1⟩, rfl⟩
    · cases hl

theorem bytesOf_append (cs : List Chunk) (c : Chunk) : bytesOf (cs ++ [c]) = bytesOf cs ++ c.w := by
  unfold bytesOf
  simp

theorem nonSkip_append_skip (C : Cfg) (cs : List Chunk) (c : Chunk) (h : isSkipChunk C c = true) :
    nonSkipSets C (cs ++ [c]) = nonSkipSets C cs := by
  unfold nonSkipSets
  simp [List.filter_append, h]

theorem nonSkip_append (C : Cfg) (cs : List Chunk) (c : Chunk) (h : isSkipChunk C c = false) :
    nonSkipSets C (cs ++ [c]) = nonSkipSets C cs ++ [c.S] := by
  unfold nonSkipSets
  simp [List.filter_append, h]

theorem runRows_snoc (g : Ey.CG) (lexs : List (List Nat)) (S : List Nat) :
    Ey.runRows g (lexs ++ [S]) = Ey.runRows g lexs ++ [Ey.nextRow g (Ey.runRows g lexs) S] := by
  unfold Ey.runRows
  rw [List.foldl_append]
  rfl

theorem mem_insertNat (x y : Nat) (l : List Nat) (h : x ∈ insertNat y l) : x = y ∨ x ∈ l := by
  induction l with
  | nil => simp [insertNat] at h; exact Or.inl h
  | cons z zs ih =>
    unfold insertNat at h
    split at h
    · simp only [List.mem_cons] at h ⊢
      rcases h with h | h | h
      · exact Or.inl h
      · exact Or.inr (Or.inl h)
      · exact Or.inr (Or.inr h)
    · split at h
      · exact Or.inr h
      · simp only [List.mem_cons] at h ⊢
        rcases h with h | h
        · exact Or.inr (Or.inl h)
        · rcases ih h with h | h
          · exact Or.inl h
          · exact Or.inr (Or.inr h)

theorem mem_canon (x : Nat) (l : List Nat) (h : x ∈ canon l) : x ∈ l := by
  unfold canon at h
  have key : ∀ (l acc : List Nat), x ∈ l.foldl (fun acc y => insertNat y acc) acc → x ∈ acc ∨ x ∈ l := by
    intro l
    induction l with
    | nil => intro acc h; exact Or.inl h
    | cons y ys ih =>
      intro acc h
      simp only [List.foldl_cons] at h
      rcases ih _ h with h | h
      · rcases mem_insertNat x y acc h with h | h
        · exact Or.inr (by simp [h])
        · exact Or.inl h
      · exact Or.inr (by simp [h])
  rcases key l [] h with h | h
  · cases h
  · exact h

theorem possible_start_sub (C : Cfg) (al : List Nat) (l : Nat) (h : l ∈ possible (start C al)) : l ∈ al := by
  unfold possible start at h
  simp only [List.mem_map, List.mem_filterMap] at h
  obtain ⟨e, ⟨i, hi, he⟩, rfl⟩ := h
  split at he
  · cases he; exact mem_canon _ _ hi
  · cases he

theorem start_fst (C : Cfg) (al : List Nat) (e : Nat × Nat) (h : e ∈ start C al) : e.1 ∈ possible (start C al) := by
  unfold possible
  exact List.mem_map.mpr ⟨e, h, rfl⟩

theorem step_fst (C : Cfg) (s : LState) (b : B) (e : Nat × Nat) (h : e ∈ step C s b) : ∃ e0 ∈ s, e0.1 = e.1 := by
  unfold step at h
  simp only [List.mem_filterMap] at h
  obtain ⟨e0, he0, hi⟩ := h
  split at hi
  · cases hi; exact ⟨e0, he0, rfl⟩
  · cases hi

theorem allowedFor_ok (C : Cfg) (row : List Ey.Item) (ws : Bool) (l : Nat) (h : l ∈ allowedFor C row ws) :
    l ∈ Ey.allowedLexemes C.g row ∨ some l = C.skipId := by
  unfold allowedFor at h
  simp only [List.mem_append] at h
  rcases h with h | h
  · exact Or.inl h
  · split at h
    · right
      cases hs : C.skipId with
      | none => rw [hs] at h; cases h
      | some k => rw [hs] at h; simp only [Option.toList_some, List.mem_singleton] at h; rw [h]
    · cases h

theorem lastRow_snoc (rows : List (List Ey.Item)) (row : List Ey.Item) : lastRow (rows ++ [row]) = row := by
  unfold lastRow
  simp

theorem scanSet_al (C : Cfg) (st : St) (S : List Nat) (hal : AlOK C st.rows st.al)
    (lexs : List (List Nat)) (rows : List (List Ey.Item)) (al : List Nat)
    (h : scanSet C st S = some (lexs, rows, al)) : AlOK C rows al := by
  unfold scanSet at h
  split at h
  · simp only [Option.some.injEq, Prod.mk.injEq] at h
    obtain ⟨_, h2, h3⟩ := h
    subst h2
    intro l hl
    apply hal l
    rw [← h3] at hl
    split at hl
    · exact (List.mem_filter.mp hl).1
    · exact hl
  · simp only at h
    split at h
    · cases h
    · simp only [Option.some.injEq, Prod.mk.injEq] at h
      obtain ⟨_, h2, h3⟩ := h
      subst h2 h3
      intro l hl
      rw [lastRow_snoc]
      exact allowedFor_ok C _ true l hl

theorem scanSet_facts (C : Cfg) (st : St) (S : List Nat) (u : List B) (cs : List Chunk)
    (hlexs : st.lexs = nonSkipSets C cs) (hrows : st.rows = Ey.runRows C.g st.lexs)
    (lexs : List (List Nat)) (rows : List (List Ey.Item)) (al : List Nat)
    (h : scanSet C st S = some (lexs, rows, al)) :
    lexs = nonSkipSets C (cs ++ [⟨S, u⟩]) ∧ rows = Ey.runRows C.g lexs := by
  unfold scanSet at h
  split at h
  · rename_i l hfind
    simp only [Option.some.injEq, Prod.mk.injEq] at h
    obtain ⟨h1, h2, _⟩ := h
    have hsk : isSkipChunk C ⟨S, u⟩ = true := by unfold isSkipChunk; simp [hfind]
    rw [nonSkip_append_skip C cs _ hsk, ← h1, ← h2]
    exact ⟨hlexs, hrows⟩
  · rename_i hfind
    simp only at h
    split at h
    · cases h
    · simp only [Option.some.injEq, Prod.mk.injEq] at h
      obtain ⟨h1, h2, _⟩ := h
      have hsk : isSkipChunk C ⟨S, u⟩ = false := by unfold isSkipChunk; simp [hfind]
      rw [nonSkip_append C cs _ hsk, ← h1, ← h2, ← hlexs]
      refine ⟨rfl, ?_⟩
      rw [runRows_snoc, ← hrows]

/-- `advance` keeps the invariant: the chunk `(S, u)` is closed, the transition byte (if any) opens
the next lexeme -/
theorem advance_inv (C : Cfg) (hw : C.wf = true) (fuel : Nat) :
    ∀ (st : St) (S : List Nat) (tb : Option B) (w u : List B) (cs : List Chunk) (st' : St),
      w = bytesOf cs ++ u → (∀ c ∈ cs, ChunkOK C c) → st.lexs = nonSkipSets C cs →
      st.rows = Ey.runRows C.g st.lexs → (∀ l ∈ S, Rx.lang (C.lx l).rx u) → AlOK C st.rows st.al →
      advance C st S tb fuel = some st' →
      Inv C st' (w ++ tb.toList) := by
  induction fuel with
  | zero => intro st S tb w u cs st' _ _ _ _ _ _ h; simp [advance] at h
  | succ fuel ih =>
    intro st S tb w u cs st' hwd hcs hlexs hrows hS hal h
    unfold advance at h
    -- the chunk that is closed here
    have hcs' : ∀ x ∈ cs ++ [(⟨S, u⟩ : Chunk)], ChunkOK C x := by
      intro x hx
      rcases List.mem_append.mp hx with hx | hx
      · exact hcs x hx
      · simp only [List.mem_singleton] at hx; subst hx; exact hS
    have hbytes : w = bytesOf (cs ++ [(⟨S, u⟩ : Chunk)]) := by rw [bytesOf_append]; exact hwd
    cases hnext : scanSet C st S with
    | none => rw [hnext] at h; cases h
    | some trip =>
      obtain ⟨lexs, rows, al⟩ := trip
      rw [hnext] at h
      have hfacts := scanSet_facts C st S u cs hlexs hrows lexs rows al hnext
      have hal0 := scanSet_al C st S hal lexs rows al hnext
      have hal' : AlOK C rows (possible (start C al)) := fun l hl => hal0 l (possible_start_sub C al l hl)
      simp only at h
      cases tb with
      | none =>
        simp only [Option.some.injEq] at h
        subst h
        refine ⟨cs ++ [⟨S, u⟩], [], ?_, hcs', hfacts.1, hfacts.2, tracks_start C al, fun _ => rfl, live_start C al, hal', start_fst C al⟩
        simp [hbytes]
      | some b =>
        simp only at h
        split at h
        · cases h
        · split at h
          · -- a single-byte lexeme follows at once
            have htr : Tracks C (step C (start C al) b) ([] ++ [b]) := tracks_step C _ [] b (tracks_start C al)
            have := ih { lexs := lexs, rows := rows, al := possible (start C al), ls := step C (start C al) b, pending := true }
              (accepting C (step C (start C al) b)) none (w ++ [b]) [b] (cs ++ [⟨S, u⟩]) st'
              (by rw [hbytes]) hcs' hfacts.1 hfacts.2
              (fun l hl => accepting_lang C hw _ _ htr l hl) hal' h
            simpa using this
          · simp only [Option.some.injEq] at h
            subst h
            refine ⟨cs ++ [⟨S, u⟩], [b], ?_, hcs', hfacts.1, hfacts.2, ?_, fun hp => by simp at hp, live_step C _ b, hal', ?_⟩
            · simp [hbytes]
            · exact tracks_step C _ [] b (tracks_start C al)
            · intro e he
              obtain ⟨e0, he0, hfst⟩ := step_fst C _ b e he
              rw [← hfst]
              exact start_fst C al e0 he0

theorem init_inv (C : Cfg) : Inv C (init C) [] := by
  refine ⟨[], [], by simp [bytesOf], by simp, by simp [init, nonSkipSets], ?_, ?_, fun _ => rfl, ?_, ?_, ?_⟩
  · simp [init, Ey.runRows]
  · exact tracks_start C _
  · exact live_start C _
  · intro l hl
    have h1 := possible_start_sub C _ l hl
    have : lastRow (init C).rows = Ey.initRow C.g := by simp [init, lastRow]
    rw [this]
    exact allowedFor_ok C _ _ l h1
  · exact start_fst C _

theorem push_inv (C : Cfg) (hw : C.wf = true) (st st' : St) (w : List B) (b : B)
    (hi : Inv C st w) (h : push C st b = some st') : Inv C st' (w ++ [b]) := by
  obtain ⟨cs, u, hwd, hcs, hlexs, hrows, htr, hpend, _, hal, hsub⟩ := hi
  unfold push at h
  simp only at h
  split at h
  · split at h
    · cases h
    · split at h
      · cases h
      · exact advance_inv C hw 3 st _ (some b) w u cs st' hwd hcs hlexs hrows
          (fun l hl => accepting_lang C hw _ _ htr l hl) hal h
  · split at h
    · have htr' := tracks_step C _ u b htr
      have := advance_inv C hw 3 { st with ls := step C st.ls b } _ none (w ++ [b]) (u ++ [b]) cs st'
        (by rw [hwd]; simp) hcs hlexs hrows
        (fun l hl => accepting_lang C hw _ _ htr' l (lowest_sub_accepting C _ l hl)) hal h
      simpa using this
    · simp only [Option.some.injEq] at h
      subst h
      refine ⟨cs, u ++ [b], by rw [hwd]; simp, hcs, hlexs, hrows, tracks_step C _ u b htr, fun hp => by simp at hp, live_step C _ b, hal, ?_⟩
      intro e he
      obtain ⟨e0, he0, hfst⟩ := step_fst C _ b e he
      rw [← hfst]
      exact hsub e0 he0

theorem run_inv (C : Cfg) (hw : C.wf = true) (v : List B) :
    ∀ (st st' : St) (w : List B), Inv C st w → run C st v = some st' → Inv C st' (w ++ v) := by
  induction v with
  | nil => intro st st' w hi h; simp only [run, Option.some.injEq] at h; subst h; simpa using hi
  | cons b v ih =>
    intro st st' w hi h
    simp only [run] at h
    split at h
    · rename_i st1 hp
      have := ih st1 st' (w ++ [b]) (push_inv C hw st st1 w b hi hp) h
      simpa using this
    · cases h

theorem flush_inv (C : Cfg) (hw : C.wf = true) (st st' : St) (w : List B)
    (hi : Inv C st w) (h : flush C st = some st') :
    ∃ cs, w = bytesOf cs ∧ (∀ c ∈ cs, ChunkOK C c) ∧ st'.lexs = nonSkipSets C cs ∧
      st'.rows = Ey.runRows C.g st'.lexs := by
  obtain ⟨cs, u, hwd, hcs, hlexs, hrows, htr, hpend, _, hal, _⟩ := hi
  unfold flush at h
  split at h
  · rename_i hp
    simp only [Option.some.injEq] at h
    subst h
    have : st.pending = false := by simpa using hp
    have hu := hpend this
    subst hu
    exact ⟨cs, by simpa using hwd, hcs, hlexs, hrows⟩
  · simp only at h
    split at h
    · cases h
    · obtain ⟨cs', u', hwd', hcs', hlexs', hrows', _, hpend', _, _, _⟩ :=
        advance_inv C hw 3 st _ none w u cs st' hwd hcs hlexs hrows
          (fun l hl => accepting_lang C hw _ _ htr l hl) hal h
      -- `advance` without a transition byte leaves no open lexeme
      have hpf : st'.pending = false := by
        -- read off the definition: the only `some` results with `tb = none` have `pending := false`
        have : ∀ fuel st S st', advance C st S none fuel = some st' → st'.pending = false := by
          intro fuel
          cases fuel with
          | zero => intro st S st' h; simp [advance] at h
          | succ fuel =>
            intro st S st' h
            unfold advance at h
            split at h
            · cases h
            · simp only [Option.some.injEq] at h
              subst h
              rfl
        exact this 3 st _ st' h
      have hu := hpend' hpf
      subst hu
      exact ⟨cs', by simpa using hwd', hcs', hlexs', hrows'⟩

theorem live_default (q : Nat) : liveAt (default : Lexeme).dfa q = false := by
  unfold liveAt
  show (#[] : Array Bool)[q]! = false
  simp

/-- in every reachable state, each lexer entry can still be completed to a match of its lexeme -/
theorem state_viable (C : Cfg) (hw : C.wf = true) (w : List B) (st : St)
    (hrun : run C (init C) w = some st) :
    ∃ u, u <:+ w ∧ ∀ e ∈ st.ls, ∃ v, Rx.lang (C.lx e.1).rx (u ++ v) := by
  have hi := run_inv C hw w (init C) st [] (init_inv C) hrun
  simp only [List.nil_append] at hi
  obtain ⟨cs, u, hwd, _, _, _, htr, _, hlive, _, _⟩ := hi
  refine ⟨u, ⟨bytesOf cs, hwd.symm⟩, ?_⟩
  intro e he
  by_cases hlt : e.1 < C.lexemes.size
  · have hc := lex_check C hw e.1 hlt
    apply (Dfa.dfa_decides _ _ hc u).2.mp
    unfold Dfa.viable
    rw [← htr e he]
    exact hlive e he
  · have := hlive e he
    rw [lx_default C e.1 hlt, live_default] at this
    cases this

/-- in every reachable state, each lexer entry is a lexeme the current row asks for (or the skip lexeme) -/
theorem state_entries_allowed (C : Cfg) (hw : C.wf = true) (w : List B) (st : St)
    (hrun : run C (init C) w = some st) :
    st.rows = Ey.runRows C.g st.lexs ∧
      ∀ e ∈ st.ls, e.1 ∈ Ey.allowedLexemes C.g (lastRow st.rows) ∨ some e.1 = C.skipId := by
  have hi := run_inv C hw w (init C) st [] (init_inv C) hrun
  obtain ⟨_, _, _, _, _, hrows, _, _, _, hal, hsub⟩ := hi
  exact ⟨hrows, fun e he => hal e.1 (hsub e he)⟩

/-- both facts about one reachable state, with the same open-lexeme bytes `u` -/
theorem state_summary (C : Cfg) (hw : C.wf = true) (w : List B) (st : St)
    (hrun : run C (init C) w = some st) :
    ∃ u, u <:+ w ∧ (∀ e ∈ st.ls, ∃ v, Rx.lang (C.lx e.1).rx (u ++ v)) ∧
      st.rows = Ey.runRows C.g st.lexs ∧
      ∀ e ∈ st.ls, e.1 ∈ Ey.allowedLexemes C.g (lastRow st.rows) ∨ some e.1 = C.skipId := by
  have hi := run_inv C hw w (init C) st [] (init_inv C) hrun
  simp only [List.nil_append] at hi
  obtain ⟨cs, u, hwd, _, _, hrows, htr, _, hlive, hal, hsub⟩ := hi
  refine ⟨u, ⟨bytesOf cs, hwd.symm⟩, ?_, hrows, fun e he => hal e.1 (hsub e he)⟩
  intro e he
  by_cases hlt : e.1 < C.lexemes.size
  · have hc := lex_check C hw e.1 hlt
    apply (Dfa.dfa_decides _ _ hc u).2.mp
    unfold Dfa.viable
    rw [← htr e he]
    exact hlive e he
  · have := hlive e he
    rw [lx_default C e.1 hlt, live_default] at this
    cases this

end Lx
end LlgVerif
