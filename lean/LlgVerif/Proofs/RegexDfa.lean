/- S2/S3: a DFA certificate accepted by `Dfa.check` decides membership and viability. -/
import LlgVerif.Proofs.RegexNorm
namespace LlgVerif
namespace Dfa
open Rx

theorem mem_allBytes (b : B) : b ∈ allBytes := by
  unfold allBytes
  rw [List.mem_map]
  exact ⟨b.toNat, List.mem_range.mpr (UInt8.toNat_lt b), by simp⟩

structure Good (r : Rx) (d : Dfa) : Prop where
  pos : 0 < d.states.size
  init : d.states[0]! = r
  acc_ok : ∀ q, q < d.states.size → d.acc[q]! = nullable d.states[q]!
  step_ok : ∀ q, q < d.states.size → ∀ b : B,
    next d q b < d.states.size ∧ d.states[next d q b]! = derivN d.states[q]! b
  live_ok : ∀ q, q < d.states.size → d.live[q]! = true →
    d.acc[q]! = true ∨ ∃ b : B, d.live[next d q b]! = true ∧ d.rank[next d q b]! < d.rank[q]!
  dead_ok : ∀ q, q < d.states.size → d.live[q]! = false →
    d.acc[q]! = false ∧ ∀ b : B, d.live[next d q b]! = false

theorem good_of_check (r : Rx) (d : Dfa) (h : check r d = true) : Good r d := by
  unfold check at h
  simp only [Bool.and_eq_true, decide_eq_true_eq, beq_iff_eq, List.all_eq_true, List.mem_range] at h
  obtain ⟨⟨⟨⟨⟨⟨hpos, hinit⟩, _⟩, _⟩, _⟩, _⟩, hall⟩ := h
  refine ⟨hpos, hinit, ?_, ?_, ?_, ?_⟩
  · intro q hq; exact (hall q hq).1.1.2
  · intro q hq b
    have := (hall q hq).1.2 b (mem_allBytes b)
    simpa using this
  · intro q hq hl
    have := (hall q hq).2
    simp only [hl, ↓reduceIte, Bool.or_eq_true, List.any_eq_true, Bool.and_eq_true,
      decide_eq_true_eq] at this
    rcases this with h | ⟨b, _, h1, h2⟩
    · exact Or.inl h
    · exact Or.inr ⟨b, h1, h2⟩
  · intro q hq hl
    have := (hall q hq).2
    simp only [hl, Bool.false_eq_true, ↓reduceIte, Bool.and_eq_true, Bool.not_eq_eq_eq_not,
      Bool.not_true, List.all_eq_true] at this
    exact ⟨this.1, fun b => this.2 b (mem_allBytes b)⟩

theorem run_inv {r : Rx} {d : Dfa} (g : Good r d) (w : List B) (q : Nat) (hq : q < d.states.size) :
    run d q w < d.states.size ∧ d.states[run d q w]! = derivsN d.states[q]! w := by
  induction w generalizing q with
  | nil => exact ⟨hq, rfl⟩
  | cons b w ih =>
    obtain ⟨h1, h2⟩ := g.step_ok q hq b
    obtain ⟨h3, h4⟩ := ih (next d q b) h1
    exact ⟨h3, by simp only [run, derivsN, h4, h2]⟩

theorem run_append (d : Dfa) (q : Nat) (w v : List B) : run d q (w ++ v) = run d (run d q w) v := by
  induction w generalizing q with
  | nil => rfl
  | cons b w ih => simp only [List.cons_append, run, ih]

theorem live_sound {r : Rx} {d : Dfa} (g : Good r d) (n : Nat) :
    ∀ q, q < d.states.size → d.rank[q]! ≤ n → d.live[q]! = true →
      ∃ v, d.acc[run d q v]! = true := by
  induction n with
  | zero =>
    intro q hq hr hl
    rcases g.live_ok q hq hl with h | ⟨b, _, h2⟩
    · exact ⟨[], h⟩
    · omega
  | succ n ih =>
    intro q hq hr hl
    rcases g.live_ok q hq hl with h | ⟨b, h1, h2⟩
    · exact ⟨[], h⟩
    · obtain ⟨v, hv⟩ := ih (next d q b) (g.step_ok q hq b).1 (by omega) h1
      exact ⟨b :: v, hv⟩

theorem live_complete {r : Rx} {d : Dfa} (g : Good r d) (v : List B) :
    ∀ q, q < d.states.size → d.acc[run d q v]! = true → d.live[q]! = true := by
  induction v with
  | nil =>
    intro q hq h
    cases hl : d.live[q]! with
    | true => rfl
    | false =>
      have := (g.dead_ok q hq hl).1
      simp only [run] at h
      rw [this] at h; exact absurd h (by simp)
  | cons b v ih =>
    intro q hq h
    have hn := ih (next d q b) (g.step_ok q hq b).1 h
    cases hl : d.live[q]! with
    | true => rfl
    | false =>
      have := (g.dead_ok q hq hl).2 b
      rw [this] at hn; exact absurd hn (by simp)

/-- **dfa_decides** — a certificate accepted by the checker decides, for every byte string,
membership in the regex's language and viability (being a prefix of a member). -/
theorem dfa_decides (r : Rx) (d : Dfa) (h : check r d = true) (w : List B) :
    (accepts d w = true ↔ lang r w) ∧ (viable d w = true ↔ ∃ v, lang r (w ++ v)) := by
  have g := good_of_check r d h
  obtain ⟨hlt, hst⟩ := run_inv g w 0 g.pos
  rw [g.init] at hst
  constructor
  · unfold accepts
    rw [g.acc_ok _ hlt, hst, nullable_iff, derivsN_iff, List.append_nil]
  · unfold viable
    constructor
    · intro hl
      obtain ⟨v, hv⟩ := live_sound g _ _ hlt (Nat.le_refl _) hl
      refine ⟨v, ?_⟩
      rw [← run_append] at hv
      obtain ⟨hlt', hst'⟩ := run_inv g (w ++ v) 0 g.pos
      rw [g.init] at hst'
      rw [g.acc_ok _ hlt', hst', nullable_iff, derivsN_iff, List.append_nil] at hv
      exact hv
    · rintro ⟨v, hv⟩
      apply live_complete g v _ hlt
      rw [← run_append]
      obtain ⟨hlt', hst'⟩ := run_inv g (w ++ v) 0 g.pos
      rw [g.init] at hst'
      rw [g.acc_ok _ hlt', hst', nullable_iff, derivsN_iff, List.append_nil]
      exact hv

end Dfa
end LlgVerif
