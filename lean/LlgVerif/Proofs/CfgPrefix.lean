/-
Productivity computation and the prefix grammar: `(s, true)` derives exactly the prefixes of what
`s` derives, provided every symbol of the grammar is productive.
-/
import LlgVerif.Proofs.CfgComplete
namespace LlgVerif
namespace Cfg
set_option linter.unusedSectionVars false

variable {N : Type} [DecidableEq N] [Hashable N]

theorem DL_nil_inv (G : Gram N) (w : List B) (h : DL G [] w) : w = [] := by
  cases h; rfl

theorem DL_append (G : Gram N) {α β : List (Sym N)} {u v : List B} (h1 : DL G α u) (h2 : DL G β v) :
    DL G (α ++ β) (u ++ v) := by
  induction h1 with
  | nil => simpa using h2
  | t a b _ ih => exact DL.t a b ih
  | @nt a γ α' u1 u2 hr hγ _ _ ih2 =>
    have := DL.nt hr hγ ih2
    simpa [List.append_assoc] using this

theorem DL_single (G : Gram N) {a : N} {β : List (Sym N)} {u : List B} (hr : (a, β) ∈ G)
    (h : DL G β u) : DL G [Sym.nt a] u := by
  have := DL.nt hr h DL.nil
  simpa using this

/-! ### productivity -/

def Productive (G : Gram N) (α : List (Sym N)) : Prop := ∃ v, DL G α v

def SymOK (G : Gram N) : Sym N → Prop
  | Sym.nt a => Productive G [Sym.nt a]
  | Sym.t lo hi => lo ≤ hi

theorem productive_of_symOK (G : Gram N) (α : List (Sym N)) (h : ∀ s ∈ α, SymOK G s) :
    Productive G α := by
  induction α with
  | nil => exact ⟨[], DL.nil⟩
  | cons s α ih =>
    obtain ⟨v, hv⟩ := ih (fun s hs => h s (List.mem_cons_of_mem _ hs))
    have hs := h s (List.mem_cons_self)
    cases s with
    | nt a =>
      obtain ⟨u, hu⟩ := hs
      have := DL_append G hu hv
      exact ⟨u ++ v, by simpa using this⟩
    | t lo hi =>
      exact ⟨lo :: v, DL.t (UInt8.le_refl lo) hs hv⟩

def PInv (G : Gram N) (p : List N) : Prop := ∀ a, p.contains a = true → Productive G [Sym.nt a]

theorem pinv_prodStep (G : Gram N) (p : List N) (hp : PInv G p) : PInv G (prodStep G p) := by
  unfold prodStep
  have key : ∀ (l : List (N × List (Sym N))) (acc : List N), (∀ r ∈ l, r ∈ G) → PInv G acc →
      PInv G (l.foldl (fun acc r =>
        if !acc.contains r.1 && r.2.all (fun s => match s with
            | Sym.nt a => acc.contains a
            | Sym.t lo hi => decide (lo ≤ hi)) then r.1 :: acc else acc) acc) := by
    intro l
    induction l with
    | nil => intro acc _ h; exact h
    | cons r l ih =>
      intro acc hl hacc
      simp only [List.foldl_cons]
      apply ih _ (fun r' hr' => hl r' (List.mem_cons_of_mem _ hr'))
      split
      · rename_i hc
        simp only [Bool.and_eq_true, List.all_eq_true] at hc
        intro a ha
        simp only [List.contains_cons, Bool.or_eq_true, beq_iff_eq] at ha
        rcases ha with ha | ha
        · subst ha
          have hprod : Productive G r.2 := by
            apply productive_of_symOK
            intro s hs
            have := hc.2 s hs
            cases s with
            | nt b => exact hacc b this
            | t lo hi => simpa [SymOK] using this
          obtain ⟨v, hv⟩ := hprod
          exact ⟨v, DL_single G (hl r (List.mem_cons_self)) hv⟩
        · exact hacc a ha
      · exact hacc
  exact key G p (fun r hr => hr) hp

theorem pinv_prodIter (G : Gram N) (k : Nat) (p : List N) (hp : PInv G p) : PInv G (prodIter G k p) := by
  induction k generalizing p with
  | zero => exact hp
  | succ k ih => exact ih _ (pinv_prodStep G p hp)

/-- what the productivity check establishes -/
theorem allProductive_spec (G : Gram N) (h : allProductive G = true) (a : N) (β : List (Sym N))
    (hr : (a, β) ∈ G) : ∀ s ∈ β, SymOK G s := by
  unfold allProductive at h
  simp only [List.all_eq_true, Bool.and_eq_true] at h
  have hp : PInv G (prodIter G (G.length + 1) []) :=
    pinv_prodIter G _ [] (by intro a ha; simp at ha)
  intro s hs
  have := (h (a, β) hr).2 s hs
  cases s with
  | nt b => exact hp b this
  | t lo hi => simpa [SymOK] using this

theorem productive_rest (G : Gram N) (h : allProductive G = true) (a : N) (done rest : List (Sym N))
    (hr : (a, done ++ rest) ∈ G) : Productive G rest :=
  productive_of_symOK G rest (fun s hs =>
    allProductive_spec G h a _ hr s (List.mem_append_right _ hs))

/-! ### prefix grammar -/

def embL (α : List (Sym N)) : List (Sym (N × Bool)) := α.map emb

theorem mem_preRules (a : N) (β : List (Sym N)) (q : (N × Bool) × List (Sym (N × Bool))) :
    q ∈ preRules a β ↔
      (∃ d1 r1, β = d1 ++ r1 ∧ q = ((a, true), embL d1)) ∨
      (∃ d1 b r1, β = d1 ++ Sym.nt b :: r1 ∧ q = ((a, true), embL d1 ++ [Sym.nt (b, true)])) := by
  simp only [preRules, List.mem_flatMap, List.mem_range, List.mem_cons]
  constructor
  · rintro ⟨k, hk, h | h⟩
    · exact Or.inl ⟨β.take k, β.drop k, (List.take_append_drop k β).symm, h⟩
    · split at h
      · rename_i b hb
        simp only [List.mem_cons, List.not_mem_nil, or_false] at h
        refine Or.inr ⟨β.take k, b, β.drop (k + 1), ?_, h⟩
        have hlt : k < β.length := by
          rcases Nat.lt_or_ge k β.length with h1 | h1
          · exact h1
          · rw [List.getElem?_eq_none h1] at hb; cases hb
        have hget : β[k] = Sym.nt b := by
          rw [List.getElem?_eq_getElem hlt] at hb; injection hb
        rw [← hget, ← List.drop_eq_getElem_cons hlt, List.take_append_drop]
      · simp at h
  · rintro (⟨d1, r1, h, hq⟩ | ⟨d1, b, r1, h, hq⟩)
    · refine ⟨d1.length, by rw [h]; simp; omega, Or.inl ?_⟩
      rw [hq, h, List.take_left']; rfl; rfl
    · refine ⟨d1.length, by rw [h]; simp; omega, Or.inr ?_⟩
      have : β[d1.length]? = some (Sym.nt b) := by rw [h]; simp
      rw [this, hq, h, List.take_left' rfl]
      simp [embL]

/-- the three kinds of rules of the prefix grammar -/
theorem mem_preG (G : Gram N) (x : N × Bool) (γ : List (Sym (N × Bool))) :
    (x, γ) ∈ preG G ↔
      (∃ a β, (a, β) ∈ G ∧ x = (a, false) ∧ γ = embL β) ∨
      (∃ a done rest, (a, done ++ rest) ∈ G ∧ x = (a, true) ∧ γ = embL done) ∨
      (∃ a done b rest, (a, done ++ Sym.nt b :: rest) ∈ G ∧ x = (a, true) ∧
        γ = embL done ++ [Sym.nt (b, true)]) := by
  simp only [preG, List.mem_append, List.mem_map, List.mem_flatMap, mem_preRules, Prod.mk.injEq]
  constructor
  · rintro (⟨r, hr, h1, h2⟩ | ⟨r, hr, h⟩)
    · exact Or.inl ⟨r.1, r.2, hr, h1.symm, h2.symm⟩
    · rcases h with ⟨d1, r1, h, hx, hγ⟩ | ⟨d1, b, r1, h, hx, hγ⟩
      · exact Or.inr (Or.inl ⟨r.1, d1, r1, by rw [← h]; exact hr, hx, hγ⟩)
      · exact Or.inr (Or.inr ⟨r.1, d1, b, r1, by rw [← h]; exact hr, hx, hγ⟩)
  · rintro (⟨a, β, hr, hx, hγ⟩ | ⟨a, done, rest, hr, hx, hγ⟩ | ⟨a, done, b, rest, hr, hx, hγ⟩)
    · exact Or.inl ⟨(a, β), hr, hx.symm, hγ.symm⟩
    · exact Or.inr ⟨(a, done ++ rest), hr, Or.inl ⟨done, rest, rfl, hx, hγ⟩⟩
    · exact Or.inr ⟨(a, done ++ Sym.nt b :: rest), hr, Or.inr ⟨done, b, rest, rfl, hx, hγ⟩⟩

end Cfg
end LlgVerif
