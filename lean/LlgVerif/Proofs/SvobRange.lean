/- `allow_range` sets exactly the bits of the inclusive range (M1). -/
import LlgVerif.Proofs.SvobOps
namespace LlgVerif
namespace Svob

theorem getLsbD_startMask (s b : Nat) (hb : b < 32) :
    ((BitVec.allOnes 32) <<< s).getLsbD b = decide (s ≤ b) := by
  simp only [BitVec.getLsbD_shiftLeft, BitVec.getLsbD_allOnes, hb, decide_true, Bool.true_and]
  by_cases h : b < s
  · have : ¬ s ≤ b := by omega
    simp [h, this]
  · have h1 : s ≤ b := by omega
    have h2 : b - s < 32 := by omega
    simp [h, h1, h2]

theorem getLsbD_endMask (e b : Nat) (he : e < 32) :
    ((BitVec.allOnes 32) >>> (31 - e)).getLsbD b = decide (b ≤ e) := by
  simp only [BitVec.getLsbD_ushiftRight, BitVec.getLsbD_allOnes]
  by_cases h : b ≤ e
  · have : 31 - e + b < 32 := by omega
    simp [h, this]
  · have : ¬ 31 - e + b < 32 := by omega
    simp [h, this]

theorem allowRange?_spec (v r : Svob) (s e : Nat) (h : v.allowRange? s e = some r) :
    r.size = v.size ∧ r.data.length = v.data.length ∧ e < v.size ∧
    ∀ j, r.get j = (v.get j || (decide (s ≤ j) && decide (j ≤ e))) := by
  unfold allowRange? at h
  split at h
  · simp at h
  rename_i he
  have he : e < v.size := by simpa using he
  split at h
  · rename_i hse
    injection h with h; subst h
    refine ⟨rfl, rfl, he, ?_⟩
    intro j
    have : ¬ (s ≤ j ∧ j ≤ e) := by omega
    by_cases h1 : s ≤ j <;> by_cases h2 : j ≤ e <;> simp [h1, h2] <;> omega
  rename_i hse
  have hse : s ≤ e := by omega
  simp only at h
  split at h
  · rename_i hew
    split at h
    · -- same word
      rename_i hsw
      injection h with h; subst h
      refine ⟨rfl, by simp, he, ?_⟩
      intro j
      simp only [get, wordAt]
      rw [List.getElem?_set]
      by_cases hj : s / 32 = j / 32
      · have hjl : j / 32 < v.data.length := by omega
        simp only [hj, ↓reduceIte, hjl, Option.getD_some, BitVec.getLsbD_or, BitVec.getLsbD_and]
        rw [← hj, getLsbD_startMask _ _ (mod32_lt j), getLsbD_endMask _ _ (mod32_lt e)]
        have h1 : (s % 32 ≤ j % 32) = (s ≤ j) := by apply propext; omega
        have h2 : (j % 32 ≤ e % 32) = (j ≤ e) := by apply propext; omega
        simp only [h1, h2, hj]
      · simp only [hj, ↓reduceIte]
        have : ¬ (s ≤ j ∧ j ≤ e) := by omega
        by_cases h1 : s ≤ j <;> by_cases h2 : j ≤ e <;> simp [h1, h2] <;> omega
    · -- several words
      rename_i hsw
      have hsw' : s / 32 < e / 32 := by omega
      injection h with h; subst h
      refine ⟨rfl, by simp [length_mapIdxAux], he, ?_⟩
      intro j
      simp only [get, wordAt]
      rw [List.getElem?_set]
      simp only [length_mapIdxAux, List.length_set, getElem?_mapIdxAux, Nat.zero_add,
        List.getElem?_set]
      generalize hk : j / 32 = k
      generalize hb : j % 32 = b
      have hb32 : b < 32 := by rw [← hb]; exact mod32_lt j
      generalize hsw0 : s / 32 = sw at *
      generalize hew0 : e / 32 = ew at *
      have hmidE : ¬ (sw < ew ∧ ew < ew) := by omega
      by_cases hje : ew = k
      · -- last word
        subst hje
        have hne : ¬ sw = ew := by omega
        simp only [↓reduceIte, hew, hne, hmidE]
        rw [List.getElem?_eq_getElem hew]
        simp only [Option.map_some, Option.getD_some, BitVec.getLsbD_or]
        rw [getLsbD_endMask _ _ (mod32_lt e)]
        have h1 : s ≤ j := by omega
        have h2 : (b ≤ e % 32) = (j ≤ e) := by apply propext; omega
        simp [h1, h2]
      · simp only [hje, ↓reduceIte]
        by_cases hjs : sw = k
        · subst hjs
          have hjl : sw < v.data.length := by omega
          have hmid : ¬ (sw < sw ∧ sw < ew) := by omega
          simp only [↓reduceIte, hjl, Option.map_some, hmid, Option.getD_some, BitVec.getLsbD_or]
          rw [getLsbD_startMask _ _ hb32]
          have h1 : (s % 32 ≤ b) = (s ≤ j) := by apply propext; omega
          have h2 : j ≤ e := by omega
          simp [h1, h2]
        · simp only [hjs, ↓reduceIte]
          by_cases hmid : sw < k ∧ k < ew
          · have hjl : k < v.data.length := by omega
            rw [List.getElem?_eq_getElem hjl]
            have h1 : s ≤ j := by omega
            have h2 : j ≤ e := by omega
            simp only [Option.map_some, hmid, and_self, ↓reduceIte, Option.getD_some,
              BitVec.getLsbD_allOnes, hb32, decide_true, h1, h2, Bool.and_self, Bool.or_true]
          · have : ¬ (s ≤ j ∧ j ≤ e) := by omega
            cases hv : v.data[k]? with
            | none =>
              by_cases h1 : s ≤ j <;> by_cases h2 : j ≤ e <;> simp [h1, h2] <;> omega
            | some w =>
              simp only [Option.map_some, hmid, ↓reduceIte, Option.getD_some]
              by_cases h1 : s ≤ j <;> by_cases h2 : j ≤ e <;> simp [h1, h2] <;> omega
  · simp at h

theorem allowRange?_isSome (v : Svob) (hwf : v.WF) (s e : Nat) :
    (v.allowRange? s e).isSome ↔ e < v.size := by
  unfold allowRange?
  unfold WF at hwf
  by_cases he : e < v.size
  · have : e / 32 < v.data.length := by omega
    simp only [he, not_true_eq_false, ↓reduceIte, this]
    split
    · simp
    · split <;> simp
  · simp [he]

end Svob
end LlgVerif
