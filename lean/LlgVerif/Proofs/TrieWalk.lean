/-
The branch-free DFS walk with pop counts (`add_bias_inner`) over the serialised trie visits exactly
the nodes whose byte path is accepted by the recogniser, and restores the recogniser stack (M2).
-/
import LlgVerif.Model.Trie
namespace LlgVerif

variable {S : Type}

-- Tokens (or the fake id `defl`) of the nodes reached from state `s`, in DFS order.
mutual
def specTree (r : Rec S) (defl : Nat) : Tree → S → List Nat
  | Tree.node b t kids, s =>
    match r.step s b with
    | none => []
    | some s' => t.getD defl :: specKids r defl kids s'
def specKids (r : Rec S) (defl : Nat) : List Tree → S → List Nat
  | [], _ => []
  | c :: cs, s => specTree r defl c s ++ specKids r defl cs s
end

theorem ser_length_pos (t : Tree) (np : Nat) : 0 < (ser t np).length := by
  cases t with
  | node b tk kids => simp [ser]

theorem ser_head (b : Byte) (t : Option Nat) (kids : List Tree) (np : Nat) (hnp : 1 ≤ np) :
    ser (Tree.node b t kids) np =
      { byte := b, tok := t, numParents := np, subtreeSize := 1 + (serKids kids np).length } ::
        serKids kids np := by
  have : np ≠ 0 := by omega
  simp [ser, this]

theorem ser_length (t : Tree) (np : Nat) :
    (ser t np).length = 1 + (serKids t.kids np).length := by
  cases t with
  | node b tk kids => simp [ser, Tree.kids]; omega

/-- every serialised node has `subtree_size ≥ 1` and the root's is the length of its segment -/
theorem ser_subtreeSize (t : Tree) (np : Nat) :
    ∀ h : 0 < (ser t np).length, ((ser t np)[0]'h).subtreeSize = (ser t np).length := by
  cases t with
  | node b tk kids => intro h; simp [ser]; omega

-- State of the loop between iterations: `(p, nextPop, stack, toks)`; the *effective* stack is
-- `stack.drop nextPop`.
mutual
theorem walk_tree (r : Rec S) (nodes : Array FlatNode) (endp defl : Nat)
    (t : Tree) (np : Nat) (p nextPop : Nat) (stack : List S) (tk : List Nat) (s : S) (rest : List S)
    (hnp : 1 ≤ np) (hend : p + (ser t np).length ≤ endp)
    (hseg : ∀ i (h : i < (ser t np).length), nodes[p + i]! = (ser t np)[i])
    (hst : stack.drop nextPop = s :: rest) :
    ∃ np' st', walkLoop r nodes endp defl p nextPop stack tk =
        walkLoop r nodes endp defl (p + (ser t np).length) np' st' ((specTree r defl t s).reverse ++ tk) ∧
      st'.drop np' = (s :: rest).drop (np - 1) := by
  match t with
  | Tree.node b t kids =>
    rw [ser_head b t kids np hnp] at hend hseg ⊢
    have hn : nodes[p]! = { byte := b, tok := t, numParents := np, subtreeSize := 1 + (serKids kids np).length } := by
      have := hseg 0 (by simp)
      simpa using this
    have hp : p < endp := by simp at hend; omega
    rw [walkLoop]
    simp only [hp, ↓reduceDIte, hst, hn]
    cases hstep : r.step s b with
    | none =>
      simp only [specTree, hstep, List.reverse_nil, List.nil_append]
      have h0 : ¬ (1 + (serKids kids np).length = 0) := by omega
      simp only [h0, ↓reduceDIte, List.length_cons]
      refine ⟨np - 1, s :: rest, ?_, rfl⟩
      congr 1; omega
    | some s' =>
      simp only [specTree, hstep]
      by_cases hk : kids = []
      · subst hk
        simp only [serKids, List.length_nil, Nat.add_zero, ↓reduceIte, specKids, List.length_cons,
          List.reverse_cons, List.reverse_nil, List.nil_append, List.singleton_append]
        refine ⟨np, s' :: s :: rest, rfl, ?_⟩
        cases np with
        | zero => omega
        | succ k => simp
      · have hlen : 0 < (serKids kids np).length := by
          cases kids with
          | nil => exact absurd rfl hk
          | cons c cs =>
            cases cs with
            | nil => simp only [serKids]; exact ser_length_pos _ _
            | cons c2 cs => simp only [serKids, List.length_append]; have := ser_length_pos c 1; omega
        have hne : ¬ (1 + (serKids kids np).length = 1) := by omega
        simp only [hne, ↓reduceIte]
        have hseg' : ∀ i (h : i < (serKids kids np).length), nodes[p + 1 + i]! = (serKids kids np)[i] := by
          intro i h
          have := hseg (i + 1) (by simp; omega)
          simpa [Nat.add_assoc, Nat.add_comm 1 i] using this
        obtain ⟨np', st', heq, hdrop⟩ := walk_kids r nodes endp defl kids np (p + 1) 0 (s' :: s :: rest) (t.getD defl :: tk) s' (s :: rest) hk
          (by simp at hend; omega) hseg' (by simp)
        refine ⟨np', st', ?_, ?_⟩
        · rw [heq]
          simp only [List.length_cons, List.reverse_cons, List.append_assoc, List.singleton_append]
          congr 1; omega
        · rw [hdrop]
          cases np with
          | zero => omega
          | succ k => simp
theorem walk_kids (r : Rec S) (nodes : Array FlatNode) (endp defl : Nat)
    (kids : List Tree) (np : Nat) (p nextPop : Nat) (stack : List S) (tk : List Nat) (s : S) (rest : List S)
    (hk : kids ≠ []) (hend : p + (serKids kids np).length ≤ endp)
    (hseg : ∀ i (h : i < (serKids kids np).length), nodes[p + i]! = (serKids kids np)[i])
    (hst : stack.drop nextPop = s :: rest) :
    ∃ np' st', walkLoop r nodes endp defl p nextPop stack tk =
        walkLoop r nodes endp defl (p + (serKids kids np).length) np' st' ((specKids r defl kids s).reverse ++ tk) ∧
      st'.drop np' = (s :: rest).drop np := by
  match kids with
  | [] => exact absurd rfl hk
  | [c] =>
    simp only [serKids] at hend hseg ⊢
    obtain ⟨np', st', heq, hdrop⟩ := walk_tree r nodes endp defl c (np + 1) p nextPop stack tk s rest (by omega) hend hseg hst
    refine ⟨np', st', ?_, ?_⟩
    · rw [heq]; simp [specKids]
    · rw [hdrop]; simp
  | c :: c2 :: cs' =>
    simp only [serKids, List.length_append] at hend hseg ⊢
    have hseg1 : ∀ i (h : i < (ser c 1).length), nodes[p + i]! = (ser c 1)[i] := by
      intro i h
      have := hseg i (by omega)
      rw [this, List.getElem_append_left h]
    obtain ⟨np1, st1, heq1, hdrop1⟩ := walk_tree r nodes endp defl c 1 p nextPop stack tk s rest (by omega) (by omega) hseg1 hst
    have hseg2 : ∀ i (h : i < (serKids (c2 :: cs') np).length),
        nodes[p + (ser c 1).length + i]! = (serKids (c2 :: cs') np)[i] := by
      intro i h
      have := hseg ((ser c 1).length + i) (by omega)
      rw [Nat.add_assoc, this, List.getElem_append_right (by omega)]
      simp
    obtain ⟨np2, st2, heq2, hdrop2⟩ := walk_kids r nodes endp defl (c2 :: cs') np (p + (ser c 1).length) np1 st1
      ((specTree r defl c s).reverse ++ tk) s rest (by simp) (by omega) hseg2 (by simpa using hdrop1)
    refine ⟨np2, st2, ?_, hdrop2⟩
    rw [heq1, heq2]
    simp only [specKids, List.reverse_append, List.append_assoc, Nat.add_assoc]
end

end LlgVerif
