/-
`is_verifiably_disjoint_from` is sound: schemas it declares disjoint have no common instance; hence a
`oneOf` whose options are pairwise verifiably disjoint means the same as the `anyOf` `normalize` turns it into.
-/
import LlgVerif.Proofs.SchemaObj
namespace LlgVerif
namespace Sch
open Js
variable (ρ : String → String → Bool) (isMult : Dec → Num → Bool)

/-- statement at one fuel level -/
def DisjSound (f : Nat) : Prop := ∀ a b v, disjoint f a b = true → sat ρ isMult a v = true → sat ρ isMult b v = true → False

theorem disjAllL_sound (f : Nat) (ih : DisjSound ρ isMult f) (b : Sch) (v : Json) (hb : sat ρ isMult b v = true) :
    ∀ l : SchL, disjAllL f l b = true → satAny ρ isMult l v = false
  | .nil => by intro _; simp [satAny]
  | .cons h t => by
      intro hd
      simp only [disjAllL, Bool.and_eq_true] at hd
      simp only [satAny, Bool.or_eq_false_iff]
      refine ⟨?_, disjAllL_sound f ih b v hb t hd.2⟩
      cases hs : sat ρ isMult h v with
      | false => rfl
      | true => exact (ih h b v hd.1 hs hb).elim

theorem disjAllR_sound (f : Nat) (ih : DisjSound ρ isMult f) (a : Sch) (v : Json) (ha : sat ρ isMult a v = true) :
    ∀ l : SchL, disjAllR f a l = true → satAny ρ isMult l v = false
  | .nil => by intro _; simp [satAny]
  | .cons h t => by
      intro hd
      simp only [disjAllR, Bool.and_eq_true] at hd
      simp only [satAny, Bool.or_eq_false_iff]
      refine ⟨?_, disjAllR_sound f ih a v ha t hd.2⟩
      cases hs : sat ρ isMult h v with
      | false => rfl
      | true => exact (ih a h v hd.1 ha hs).elim

theorem satCount_pos_any (v : Json) : ∀ l : SchL, satAny ρ isMult l v = false → satCount ρ isMult l v = 0
  | .nil => by intro _; simp [satCount]
  | .cons h t => by
      intro hd
      simp only [satAny, Bool.or_eq_false_iff] at hd
      simp [satCount, hd.1, satCount_pos_any v t hd.2]

theorem disjoint_sound : ∀ f, DisjSound ρ isMult f := by
  intro f
  induction f with
  | zero => intro a b v h; simp [disjoint] at h
  | succ f ih =>
    intro a b v h ha hb
    cases a <;> cases b <;>
      first
      | (simp [disjoint, Sch.tag] at h; done)
      | (simp [sat] at ha hb; done)
      | (cases v <;> simp [sat] at ha hb; done)
      | (simp only [disjoint] at h
         have := disjAllL_sound ρ isMult f ih _ v hb _ h
         simp [sat, this, satCount_pos_any ρ isMult v _ this] at ha; done)
      | (simp only [disjoint] at h
         have := disjAllR_sound ρ isMult f ih _ v ha _ h
         simp [sat, this, satCount_pos_any ρ isMult v _ this] at hb; done)
      | skip
    · -- boolean / boolean
      rename_i v1 v2
      simp only [disjoint, Bool.and_eq_true, bne_iff_ne, ne_eq] at h
      cases v <;> simp only [sat] at ha hb <;> try (cases ha; done)
      rename_i c
      cases v1 <;> cases v2 <;> simp [optAll] at h ha hb
      rw [ha, hb] at h; exact h rfl
    · -- string / string: two different literals
      rename_i l1 h1 r1 l2 h2 r2
      simp only [disjoint] at h
      cases v <;> simp only [sat] at ha hb <;> try (cases ha; done)
      rename_i s
      cases r1 with
      | none => simp [isLit, Sch.tag] at h
      | some x1 =>
        cases r2 with
        | none => cases x1 <;> simp [isLit, Sch.tag] at h
        | some x2 =>
          cases x1 <;> cases x2 <;> simp [isLit, Sch.tag] at h
          simp only [optAll, satRx, Bool.and_eq_true, beq_iff_eq] at ha hb
          exact h (ha.2.symm.trans hb.2)
    · -- object / object: a required member whose two schemas are disjoint
      rename_i p1 n1 a1 r1 lo1 hi1 p2 n2 a2 r2 lo2 hi2
      simp only [disjoint, List.any_eq_true] at h
      obtain ⟨key, hkey, hd⟩ := h
      cases v <;> simp only [sat] at ha hb <;> try (cases ha; done)
      rename_i kvs
      simp only [Bool.and_eq_true, List.all_eq_true] at ha hb
      have hpres : ∃ kv ∈ kvs, (kv.1 == key) = true := by
        rcases List.mem_append.mp hkey with hk | hk
        · have := ha.1.1.1 key hk
          exact List.any_eq_true.mp this
        · have hk2 : key ∈ r2 := (List.mem_filter.mp hk).1
          have := hb.1.1.1 key hk2
          exact List.any_eq_true.mp this
      obtain ⟨kv, hkv, hke⟩ := hpres
      have e : kv.1 = key := by simpa using hke
      have s1 := ha.2 kv hkv
      have s2 := hb.2 kv hkv
      rw [e, ← propSchema_sat] at s1 s2
      exact ih _ _ kv.2 hd s1 s2

theorem pairwise_count (v : Json) : ∀ l : SchL, pairwiseDisj l = true →
    (satCount ρ isMult l v == 1) = satAny ρ isMult l v
  | .nil => by intro _; simp [satCount, satAny]
  | .cons h t => by
      intro hp
      simp only [pairwiseDisj, Bool.and_eq_true] at hp
      have ih := pairwise_count v t hp.2
      simp only [satCount, satAny]
      cases hs : sat ρ isMult h v with
      | false => simpa using ih
      | true =>
        have hnone := disjAllR_sound ρ isMult _ (disjoint_sound ρ isMult _) h v hs t hp.1
        simp [satCount_pos_any ρ isMult v t hnone]

end Sch
end LlgVerif
