/-
`intersect` of the schema IR means conjunction on the `oneOf`-free fragment: the main induction.
-/
import LlgVerif.Proofs.Schema
namespace LlgVerif
namespace Sch
open Js
variable (ρ : String → String → Bool) (isMult : Dec → Num → Bool)

set_option hygiene false in
macro "t_mism" : tactic => `(tactic| (simp only [Option.some.injEq] at hcore; subst hcore; exact ⟨by simp [Ok], fun v => by cases v <;> simp [sat]⟩))
set_option hygiene false in
macro "t_left" : tactic => `(tactic| (simp only [Option.some.injEq] at hcore; subst hcore; exact ⟨ha, fun v => by simp [sat]⟩))
set_option hygiene false in
macro "t_unsat" : tactic => `(tactic| (simp only [Option.some.injEq] at hcore; subst hcore; exact ⟨by simp [Ok], fun v => by simp [sat]⟩))
set_option hygiene false in
macro "t_oneb" : tactic => `(tactic| (simp [Ok] at hb))
set_option hygiene false in
macro "t_anyR" : tactic => `(tactic| (
  simp only [Option.map_eq_some_iff] at hcore
  obtain ⟨l', hl', rfl⟩ := hcore
  have hopts : OkL opts = true := by simpa [Ok] using hb
  obtain ⟨h1, h2⟩ := mapM_right_sat ρ isMult _ ih _ ha opts l' hl' hopts
  exact ⟨by simpa [Ok] using h1, fun v => by simp only [sat]; exact h2 v⟩))
set_option hygiene false in
macro "t_anyL" : tactic => `(tactic| (
  simp only [Option.map_eq_some_iff] at hcore
  obtain ⟨l', hl', rfl⟩ := hcore
  have hopts : OkL opts = true := by simpa [Ok] using ha
  obtain ⟨h1, h2⟩ := mapM_left_sat ρ isMult _ ih _ hb opts l' hl' hopts
  exact ⟨by simpa [Ok] using h1, fun v => by simp only [sat]; exact h2 v⟩))

theorem intersectBool_sat (v1 v2 : Option Bool) :
    Ok (intersectBool v1 v2) = true ∧ ∀ v, sat ρ isMult (intersectBool v1 v2) v =
      (sat ρ isMult (.boolean v1) v && sat ρ isMult (.boolean v2) v) := by
  have h3 : ∀ o : Option Bool, o = none ∨ o = some true ∨ o = some false := by
    intro o
    rcases o with _ | b
    · simp
    · cases b <;> simp
  rcases h3 v1 with rfl | rfl | rfl <;> rcases h3 v2 with rfl | rfl | rfl <;>
    refine ⟨by simp [intersectBool, Ok], fun v => ?_⟩ <;>
    cases v <;> simp [intersectBool, sat, optAll] <;> (rename_i c; cases c <;> rfl)

theorem intersect_good (lcm : Dec → Dec → Option Dec) (hl : LcmOK lcm isMult) :
    ∀ f, Good ρ isMult (intersect lcm f) := by
  intro f
  induction f with
  | zero => intro a b c h; simp [intersect] at h
  | succ f ih =>
    intro a b c h ha hb
    unfold intersect at h
    simp only [Option.map_eq_some_iff] at h
    obtain ⟨core, hcore, rfl⟩ := h
    suffices hs : Ok core = true ∧ ∀ v, sat ρ isMult core v = (sat ρ isMult a v && sat ρ isMult b v) by
      obtain ⟨h1, h2⟩ := normalize_sat ρ isMult core hs.1
      exact ⟨h1, fun v => by rw [h2 v, hs.2 v]⟩
    cases a with
    | any =>
      simp only [Option.some.injEq] at hcore
      subst hcore
      exact ⟨hb, fun v => by simp [sat]⟩
    | unsat => cases b <;> t_unsat
    | oneOf l => simp [Ok] at ha
    | null =>
      cases b with
      | any => t_left
      | unsat => t_unsat
      | oneOf l => t_oneb
      | anyOf opts => t_anyR
      | null => t_mism
      | boolean x => t_mism
      | number n => t_mism
      | string x y z => t_mism
      | array x y z w u => t_mism
    | boolean v1 =>
      cases b with
      | any => t_left
      | unsat => t_unsat
      | oneOf l => t_oneb
      | anyOf opts => t_anyR
      | null => t_mism
      | boolean v2 =>
        simp only [Option.some.injEq] at hcore
        subst hcore
        exact intersectBool_sat ρ isMult v1 v2
      | number n => t_mism
      | string x y z => t_mism
      | array x y z w u => t_mism
    | number n1 =>
      cases b with
      | any => t_left
      | unsat => t_unsat
      | oneOf l => t_oneb
      | anyOf opts => t_anyR
      | null => t_mism
      | boolean x => t_mism
      | number n2 =>
        simp only [Option.map_eq_some_iff] at hcore
        obtain ⟨n, hn, rfl⟩ := hcore
        refine ⟨by simp [Ok], fun v => ?_⟩
        cases v <;> simp only [sat, Bool.and_self, Bool.and_false]
        exact intersectNum_sat lcm isMult hl n1 n2 n hn _
      | string x y z => t_mism
      | array x y z w u => t_mism
    | string l1 h1 r1 =>
      cases b with
      | any => t_left
      | unsat => t_unsat
      | oneOf l => t_oneb
      | anyOf opts => t_anyR
      | null => t_mism
      | boolean x => t_mism
      | number n => t_mism
      | string l2 h2 r2 =>
        simp only [Option.some.injEq] at hcore
        subst hcore
        refine ⟨by simp [Ok], fun v => ?_⟩
        cases v <;> simp only [sat, Bool.and_self, Bool.and_false]
        rename_i s
        rw [optMinNat_le]
        have hr : optAll (intersectRx r1 r2) (fun r => satRx ρ r s) =
            (optAll r1 (fun r => satRx ρ r s) && optAll r2 (fun r => satRx ρ r s)) := by
          cases r1 <;> cases r2 <;> simp [intersectRx, optAll, satRx]
        rw [hr]
        have hm : decide (max l1 l2 ≤ s.length) = (decide (l1 ≤ s.length) && decide (l2 ≤ s.length)) := by
          by_cases a1 : l1 ≤ s.length <;> by_cases a2 : l2 ≤ s.length <;> simp [a1, a2] <;> omega
        rw [hm]
        cases decide (l1 ≤ s.length) <;> cases decide (l2 ≤ s.length) <;>
          cases optAll h1 (fun h => decide (s.length ≤ h)) <;> cases optAll h2 (fun h => decide (s.length ≤ h)) <;>
          cases optAll r1 (fun r => satRx ρ r s) <;> cases optAll r2 (fun r => satRx ρ r s) <;> rfl
      | array x y z w u => t_mism
    | array l1 h1 p1 n1 i1 =>
      cases b with
      | any => t_left
      | unsat => t_unsat
      | oneOf l => t_oneb
      | anyOf opts => t_anyR
      | null => t_mism
      | boolean x => t_mism
      | number n => t_mism
      | string x y z => t_mism
      | array l2 h2 p2 n2 i2 =>
        simp only [Ok, Bool.and_eq_true, Bool.or_eq_true, Bool.not_eq_eq_eq_not, Bool.not_true] at ha hb
        obtain ⟨⟨hp1, hi1⟩, hf1⟩ := ha
        obtain ⟨⟨hp2, hi2⟩, hf2⟩ := hb
        cases hz : SchL.zipM (intersect lcm f) (p1.pad i1 (max p1.len p2.len - p1.len)) (p2.pad i2 (max p1.len p2.len - p2.len)) with
        | none => simp [hz] at hcore
        | some pre =>
          simp only [hz] at hcore
          -- the items of the result and their meaning
          have hitems : ∃ fl it, core = .array (max l1 l2) (optMinNat h1 h2) pre fl it ∧ Ok it = true ∧
              (!fl || isAny it) = true ∧ ∀ v, sat ρ isMult it v = (sat ρ isMult i1 v && sat ρ isMult i2 v) := by
            cases n1 <;> cases n2
            · simp only [Option.map_eq_some_iff] at hcore
              obtain ⟨it, hit, rfl⟩ := hcore
              obtain ⟨h1', h2'⟩ := ih i1 i2 it hit hi1 hi2
              exact ⟨false, it, rfl, h1', by simp, h2'⟩
            · simp only [Option.some.injEq] at hcore
              have h2any : isAny i2 = true := by simpa using hf2
              exact ⟨false, i1, hcore.symm, hi1, by simp, fun v => by rw [isAny_sat ρ isMult h2any v]; simp⟩
            · simp only [Option.some.injEq] at hcore
              have h1any : isAny i1 = true := by simpa using hf1
              exact ⟨false, i2, hcore.symm, hi2, by simp, fun v => by rw [isAny_sat ρ isMult h1any v]; simp⟩
            · simp only [Option.some.injEq] at hcore
              have h1any : isAny i1 = true := by simpa using hf1
              have h2any : isAny i2 = true := by simpa using hf2
              exact ⟨true, .any, hcore.symm, by simp [Ok], by simp [isAny], fun v => by
                rw [isAny_sat ρ isMult h1any v, isAny_sat ρ isMult h2any v]; simp [sat]⟩
          obtain ⟨fl, it, rfl, hitok, hitfl, hits⟩ := hitems
          have hlen : (p1.pad i1 (max p1.len p2.len - p1.len)).len = (p2.pad i2 (max p1.len p2.len - p2.len)).len := by
            rw [pad_len, pad_len]; omega
          obtain ⟨hpre, hsat⟩ := zipM_sat ρ isMult (intersect lcm f) ih (sat ρ isMult i1) (sat ρ isMult i2) (sat ρ isMult it) hits
            _ _ pre hz hlen (OkL_pad _ _ _ hp1 hi1) (OkL_pad _ _ _ hp2 hi2)
          refine ⟨by simp [Ok, hpre, hitok, hitfl], fun v => ?_⟩
          cases v <;> simp only [sat, Bool.and_self]
          rename_i xs
          rw [optMinNat_le, hsat xs, satPre_pad ρ isMult _ i1 (fun _ => rfl), satPre_pad ρ isMult _ i2 (fun _ => rfl)]
          have hm : decide (max l1 l2 ≤ xs.length) = (decide (l1 ≤ xs.length) && decide (l2 ≤ xs.length)) := by
            by_cases a1 : l1 ≤ xs.length <;> by_cases a2 : l2 ≤ xs.length <;> simp [a1, a2] <;> omega
          rw [hm]
          cases decide (l1 ≤ xs.length) <;> cases decide (l2 ≤ xs.length) <;>
            cases optAll h1 (fun h => decide (xs.length ≤ h)) <;> cases optAll h2 (fun h => decide (xs.length ≤ h)) <;>
            cases satPre ρ isMult (sat ρ isMult i1) p1 xs <;> cases satPre ρ isMult (sat ρ isMult i2) p2 xs <;> rfl
    | anyOf opts =>
      cases b with
      | any => t_left
      | unsat => t_unsat
      | oneOf l => t_oneb
      | anyOf o2 => t_anyL
      | null => t_anyL
      | boolean x => t_anyL
      | number n => t_anyL
      | string x y z => t_anyL
      | array x y z w u => t_anyL

end Sch
end LlgVerif
