/-
`intersect` of the schema IR means conjunction on the `oneOf`-free fragment: the main induction.
-/
import LlgVerif.Proofs.SchemaObj
namespace LlgVerif
namespace Sch
open Js
variable (ρ : String → String → Bool) (isMult : Dec → Num → Bool)

set_option hygiene false in
macro "t_mism" : tactic => `(tactic| (simp only [Option.some.injEq] at hcore; subst hcore; exact ⟨by simp [Ok], fun v => by cases v <;> simp [sat]⟩))
set_option hygiene false in
macro "t_left" : tactic => `(tactic| (simp only [Option.some.injEq] at hcore; subst hcore; exact ⟨ha, fun v => by simp [sat]⟩))
set_option hygiene false in
macro "t_unsat" : tactic => `(tactic| (simp only [Option.some.injEq] at hcore; subst hcore; exact ⟨by simp [Ok], fun v => by simp [sat]⟩))
set_option hygiene false in
macro "t_oneb" : tactic => `(tactic| (simp [Ok] at hb))
set_option hygiene false in
macro "t_anyR" : tactic => `(tactic| (
  simp only [Option.map_eq_some_iff] at hcore
  obtain ⟨l', hl', rfl⟩ := hcore
  have hopts : OkL opts = true := by simpa [Ok] using hb
  obtain ⟨h1, h2⟩ := mapM_right_sat ρ isMult _ ih _ ha opts l' hl' hopts
  exact ⟨by simpa [Ok] using h1, fun v => by simp only [sat]; exact h2 v⟩))
set_option hygiene false in
macro "t_anyL" : tactic => `(tactic| (
  simp only [Option.map_eq_some_iff] at hcore
  obtain ⟨l', hl', rfl⟩ := hcore
  have hopts : OkL opts = true := by simpa [Ok] using ha
  obtain ⟨h1, h2⟩ := mapM_left_sat ρ isMult _ ih _ hb opts l' hl' hopts
  exact ⟨by simpa [Ok] using h1, fun v => by simp only [sat]; exact h2 v⟩))

theorem intersectBool_sat (v1 v2 : Option Bool) :
    Ok (intersectBool v1 v2) = true ∧ ∀ v, sat ρ isMult (intersectBool v1 v2) v =
      (sat ρ isMult (.boolean v1) v && sat ρ isMult (.boolean v2) v) := by
  have h3 : ∀ o : Option Bool, o = none ∨ o = some true ∨ o = some false := by
    intro o
    rcases o with _ | b
    · simp
    · cases b <;> simp
  rcases h3 v1 with rfl | rfl | rfl <;> rcases h3 v2 with rfl | rfl | rfl <;>
    refine ⟨by simp [intersectBool, Ok], fun v => ?_⟩ <;>
    cases v <;> simp [intersectBool, sat, optAll] <;> (rename_i c; cases c <;> rfl)

theorem intersect_good (lcm : Dec → Dec → Option Dec) (hl : LcmOK lcm isMult) :
    ∀ f, Good ρ isMult (intersect lcm f) := by
  intro f
  induction f with
  | zero => intro a b c h; simp [intersect] at h
  | succ f ih =>
    intro a b c h ha hb
    unfold intersect at h
    simp only [Option.map_eq_some_iff] at h
    obtain ⟨core, hcore, rfl⟩ := h
    suffices hs : Ok core = true ∧ ∀ v, sat ρ isMult core v = (sat ρ isMult a v && sat ρ isMult b v) by
      obtain ⟨h1, h2⟩ := normalize_sat ρ isMult core hs.1
      exact ⟨h1, fun v => by rw [h2 v, hs.2 v]⟩
    cases a with
    | any =>
      simp only [Option.some.injEq] at hcore
      subst hcore
      exact ⟨hb, fun v => by simp [sat]⟩
    | unsat => cases b <;> t_unsat
    | oneOf l => simp [Ok] at ha
    | null =>
      cases b with
      | any => t_left
      | unsat => t_unsat
      | oneOf l => t_oneb
      | anyOf opts => t_anyR
      | null => t_mism
      | boolean x => t_mism
      | number n => t_mism
      | string x y z => t_mism
      | array x y z w u => t_mism
      | object x1 x2 x3 x4 x5 x6 => t_mism
    | boolean v1 =>
      cases b with
      | any => t_left
      | unsat => t_unsat
      | oneOf l => t_oneb
      | anyOf opts => t_anyR
      | null => t_mism
      | boolean v2 =>
        simp only [Option.some.injEq] at hcore
        subst hcore
        exact intersectBool_sat ρ isMult v1 v2
      | number n => t_mism
      | string x y z => t_mism
      | array x y z w u => t_mism
      | object x1 x2 x3 x4 x5 x6 => t_mism
    | number n1 =>
      cases b with
      | any => t_left
      | unsat => t_unsat
      | oneOf l => t_oneb
      | anyOf opts => t_anyR
      | null => t_mism
      | boolean x => t_mism
      | number n2 =>
        simp only [Option.map_eq_some_iff] at hcore
        obtain ⟨n, hn, rfl⟩ := hcore
        refine ⟨by simp [Ok], fun v => ?_⟩
        cases v <;> simp only [sat, Bool.and_self, Bool.and_false]
        exact intersectNum_sat lcm isMult hl n1 n2 n hn _
      | string x y z => t_mism
      | array x y z w u => t_mism
      | object x1 x2 x3 x4 x5 x6 => t_mism
    | string l1 h1 r1 =>
      cases b with
      | any => t_left
      | unsat => t_unsat
      | oneOf l => t_oneb
      | anyOf opts => t_anyR
      | null => t_mism
      | boolean x => t_mism
      | number n => t_mism
      | string l2 h2 r2 =>
        simp only [Option.some.injEq] at hcore
        subst hcore
        refine ⟨by simp [Ok], fun v => ?_⟩
        cases v <;> simp only [sat, Bool.and_self, Bool.and_false]
        rename_i s
        rw [optMinNat_le]
        have hr : optAll (intersectRx r1 r2) (fun r => satRx ρ r s) =
            (optAll r1 (fun r => satRx ρ r s) && optAll r2 (fun r => satRx ρ r s)) := by
          cases r1 <;> cases r2 <;> simp [intersectRx, optAll, satRx]
        rw [hr]
        have hm : decide (max l1 l2 ≤ s.length) = (decide (l1 ≤ s.length) && decide (l2 ≤ s.length)) := by
          by_cases a1 : l1 ≤ s.length <;> by_cases a2 : l2 ≤ s.length <;> simp [a1, a2] <;> omega
        rw [hm]
        cases decide (l1 ≤ s.length) <;> cases decide (l2 ≤ s.length) <;>
          cases optAll h1 (fun h => decide (s.length ≤ h)) <;> cases optAll h2 (fun h => decide (s.length ≤ h)) <;>
          cases optAll r1 (fun r => satRx ρ r s) <;> cases optAll r2 (fun r => satRx ρ r s) <;> rfl
      | array x y z w u => t_mism
      | object x1 x2 x3 x4 x5 x6 => t_mism
    | array l1 h1 p1 n1 i1 =>
      cases b with
      | any => t_left
      | unsat => t_unsat
      | oneOf l => t_oneb
      | anyOf opts => t_anyR
      | null => t_mism
      | boolean x => t_mism
      | number n => t_mism
      | string x y z => t_mism
      | object x1 x2 x3 x4 x5 x6 => t_mism
      | array l2 h2 p2 n2 i2 =>
        simp only [Ok, Bool.and_eq_true, Bool.or_eq_true, Bool.not_eq_eq_eq_not, Bool.not_true] at ha hb
        obtain ⟨⟨hp1, hi1⟩, hf1⟩ := ha
        obtain ⟨⟨hp2, hi2⟩, hf2⟩ := hb
        cases hz : SchL.zipM (intersect lcm f) (p1.pad i1 (max p1.len p2.len - p1.len)) (p2.pad i2 (max p1.len p2.len - p2.len)) with
        | none => simp [hz] at hcore
        | some pre =>
          simp only [hz] at hcore
          -- the items of the result and their meaning
          have hitems : ∃ fl it, core = .array (max l1 l2) (optMinNat h1 h2) pre fl it ∧ Ok it = true ∧
              (!fl || isAny it) = true ∧ ∀ v, sat ρ isMult it v = (sat ρ isMult i1 v && sat ρ isMult i2 v) := by
            cases n1 <;> cases n2
            · simp only [Option.map_eq_some_iff] at hcore
              obtain ⟨it, hit, rfl⟩ := hcore
              obtain ⟨h1', h2'⟩ := ih i1 i2 it hit hi1 hi2
              exact ⟨false, it, rfl, h1', by simp, h2'⟩
            · simp only [Option.some.injEq] at hcore
              have h2any : isAny i2 = true := by simpa using hf2
              exact ⟨false, i1, hcore.symm, hi1, by simp, fun v => by rw [isAny_sat ρ isMult h2any v]; simp⟩
            · simp only [Option.some.injEq] at hcore
              have h1any : isAny i1 = true := by simpa using hf1
              exact ⟨false, i2, hcore.symm, hi2, by simp, fun v => by rw [isAny_sat ρ isMult h1any v]; simp⟩
            · simp only [Option.some.injEq] at hcore
              have h1any : isAny i1 = true := by simpa using hf1
              have h2any : isAny i2 = true := by simpa using hf2
              exact ⟨true, .any, hcore.symm, by simp [Ok], by simp [isAny], fun v => by
                rw [isAny_sat ρ isMult h1any v, isAny_sat ρ isMult h2any v]; simp [sat]⟩
          obtain ⟨fl, it, rfl, hitok, hitfl, hits⟩ := hitems
          have hlen : (p1.pad i1 (max p1.len p2.len - p1.len)).len = (p2.pad i2 (max p1.len p2.len - p2.len)).len := by
            rw [pad_len, pad_len]; omega
          obtain ⟨hpre, hsat⟩ := zipM_sat ρ isMult (intersect lcm f) ih (sat ρ isMult i1) (sat ρ isMult i2) (sat ρ isMult it) hits
            _ _ pre hz hlen (OkL_pad _ _ _ hp1 hi1) (OkL_pad _ _ _ hp2 hi2)
          refine ⟨by simp [Ok, hpre, hitok, hitfl], fun v => ?_⟩
          cases v <;> simp only [sat, Bool.and_self]
          rename_i xs
          rw [optMinNat_le, hsat xs, satPre_pad ρ isMult _ i1 (fun _ => rfl), satPre_pad ρ isMult _ i2 (fun _ => rfl)]
          have hm : decide (max l1 l2 ≤ xs.length) = (decide (l1 ≤ xs.length) && decide (l2 ≤ xs.length)) := by
            by_cases a1 : l1 ≤ xs.length <;> by_cases a2 : l2 ≤ xs.length <;> simp [a1, a2] <;> omega
          rw [hm]
          cases decide (l1 ≤ xs.length) <;> cases decide (l2 ≤ xs.length) <;>
            cases optAll h1 (fun h => decide (xs.length ≤ h)) <;> cases optAll h2 (fun h => decide (xs.length ≤ h)) <;>
            cases satPre ρ isMult (sat ρ isMult i1) p1 xs <;> cases satPre ρ isMult (sat ρ isMult i2) p2 xs <;> rfl
    | anyOf opts =>
      cases b with
      | any => t_left
      | unsat => t_unsat
      | oneOf l => t_oneb
      | anyOf o2 => t_anyL
      | null => t_anyL
      | boolean x => t_anyL
      | number n => t_anyL
      | string x y z => t_anyL
      | array x y z w u => t_anyL
      | object x1 x2 x3 x4 x5 x6 => t_anyL
    | object p1 n1 a1 r1 lo1 hi1 =>
      cases b with
      | any => t_left
      | unsat => t_unsat
      | oneOf l => t_oneb
      | anyOf opts => t_anyR
      | null => t_mism
      | boolean x => t_mism
      | number n => t_mism
      | string x y z => t_mism
      | array x y z w u => t_mism
      | object p2 n2 a2 r2 lo2 hi2 =>
        simp only [Ok, Bool.and_eq_true, Bool.or_eq_true, Bool.not_eq_eq_eq_not, Bool.not_true] at ha hb
        obtain ⟨⟨⟨hp1, ha1⟩, hf1⟩, hnd1⟩ := ha
        obtain ⟨⟨⟨hp2, ha2⟩, hf2⟩, hnd2⟩ := hb
        cases hq1 : SchKL.mapLeft (intersect lcm f) p2 a2 p1 with
        | none => simp [hq1] at hcore
        | some q1 =>
          cases hq2 : SchKL.mapRight (intersect lcm f) p1 a1 p2 with
          | none => simp [hq1, hq2] at hcore
          | some q2 =>
            simp only [hq1, hq2, Option.map_eq_some_iff] at hcore
            obtain ⟨apr, hapr, rfl⟩ := hcore
            have hitems : Ok apr.2 = true ∧ (!apr.1 || isAny apr.2) = true ∧
                ∀ v, sat ρ isMult apr.2 v = (sat ρ isMult a1 v && sat ρ isMult a2 v) := by
              cases n1 <;> cases n2
              · simp only [Option.map_eq_some_iff] at hapr
                obtain ⟨it, hit, rfl⟩ := hapr
                obtain ⟨h1', h2'⟩ := ih a1 a2 it hit ha1 ha2
                exact ⟨h1', by simp, h2'⟩
              · simp only [Option.some.injEq] at hapr
                subst hapr
                have h2any : isAny a2 = true := by simpa using hf2
                exact ⟨ha1, by simp, fun v => by rw [isAny_sat ρ isMult h2any v]; simp⟩
              · simp only [Option.some.injEq] at hapr
                subst hapr
                have h1any : isAny a1 = true := by simpa using hf1
                exact ⟨ha2, by simp, fun v => by rw [isAny_sat ρ isMult h1any v]; simp⟩
              · simp only [Option.some.injEq] at hapr
                subst hapr
                have h1any : isAny a1 = true := by simpa using hf1
                have h2any : isAny a2 = true := by simpa using hf2
                exact ⟨by simp [Ok], by simp [isAny], fun v => by
                  rw [isAny_sat ρ isMult h1any v, isAny_sat ρ isMult h2any v]; simp [sat]⟩
            obtain ⟨hitok, hitfl, hits⟩ := hitems
            obtain ⟨hq1ok, hq1k, hq1s⟩ := mapLeft_sat ρ isMult (intersect lcm f) ih p2 a2 hp2 ha2 p1 q1 hq1 hp1
            obtain ⟨hq2ok, hq2k, hq2s⟩ := mapRight_sat ρ isMult (intersect lcm f) ih p1 a1 hp1 ha1 p2 q2 hq2 hp2
            have hkv : ∀ key v, satKV ρ isMult (sat ρ isMult apr.2) (q1.append q2) key v =
                (satKV ρ isMult (sat ρ isMult a1) p1 key v && satKV ρ isMult (sat ρ isMult a2) p2 key v) := by
              intro key v
              rw [satKV_append]
              cases h1k : p1.hasKey key with
              | true =>
                rw [hq1k key, h1k]
                simp only [↓reduceIte]
                exact hq1s key v _ _ h1k
              | false =>
                rw [hq1k key, h1k]
                simp only [Bool.false_eq_true, ↓reduceIte]
                rw [satKV_noKey ρ isMult _ v key p1 h1k]
                cases h2k : p2.hasKey key with
                | true => exact hq2s key v _ _ h1k h2k
                | false =>
                  have : q2.hasKey key = false := by rw [hq2k key h1k, h2k]
                  rw [satKV_noKey ρ isMult _ v key q2 this, satKV_noKey ρ isMult _ v key p2 h2k]
                  exact hits v
            have hreq := nodup_union r1 r2 hnd1 hnd2
            have heq := object_eq ρ isMult p1 p2 (q1.append q2) n1 n2 apr.1 a1 a2 apr.2 r1 r2 lo1 lo2 hi1 hi2 hkv
            have hokobj : Ok (Sch.object (q1.append q2) apr.1 apr.2 (r1 ++ r2.filter (fun k => !r1.contains k))
                (max lo1 lo2) (optMinNat hi1 hi2)) = true := by
              simp only [Ok, OkKL_append, hq1ok, hq2ok, hitok, hitfl, hreq, Bool.and_self]
            cases hhi : optMinNat hi1 hi2 with
            | none =>
              simp only [hhi] at heq hokobj ⊢
              exact ⟨by simpa using hokobj, heq⟩
            | some h =>
              simp only [hhi] at heq hokobj ⊢
              by_cases c1 : max lo1 lo2 > h
              · simp only [c1, decide_true, ↓reduceIte]
                exact ⟨by simp [Ok], fun v => by
                  rw [← heq v, object_unsat_minmax ρ isMult _ _ _ _ _ h c1 v]; simp [sat]⟩
              · by_cases c2 : (r1 ++ r2.filter (fun k => !r1.contains k)).length > h
                · simp only [c1, c2, decide_true, decide_false, Bool.false_eq_true, ↓reduceIte]
                  exact ⟨by simp [Ok], fun v => by
                    rw [← heq v, object_unsat_required ρ isMult _ _ _ _ _ h hreq c2 v]; simp [sat]⟩
                · simp only [c1, c2, decide_false, Bool.false_eq_true, ↓reduceIte]
                  exact ⟨hokobj, heq⟩

end Sch
end LlgVerif
