/-
Completeness of the Earley rows model M4.

`Want` is the set of Earley items defined by the inference rules the code implements (start,
prediction, nullable advance, scan, completion over *earlier* rows only).  Two results:

* `closed_complete`: any list of rows that passes the executable certificate check `rowsClosed`
  contains every `Want` item (so the fuel of `closure` is not trusted: the driver evaluates the check
  on the rows it computed);
* `want_of_seq` / `advance`: `Want` is complete for derivations — whenever an item waits for a symbol
  and the symbol derives `inp[k..j)`, the advanced item is wanted in row `j`.  The case `k = j`
  (a completion that starts in the current row, which the code skips) is covered by the nullable
  advance because the nullable flags are closed under the rules (`CG.nullableClosed`, checked on
  every dump): `der_null`.
-/
import LlgVerif.Proofs.Earley
namespace LlgVerif
namespace Ey

inductive Want (g : CG) (inp : List (List Nat)) : Nat → Item → Prop where
  | start {r} : r ∈ (g.sym g.start).rules → Want g inp 0 (r, 0)
  | predict {j p i r} : Want g inp j (p, i) → g.atDot p ≠ 0 → r ∈ (g.sym (g.atDot p)).rules →
      Want g inp j (r, j)
  | nullable {j p i} : Want g inp j (p, i) → g.atDot p ≠ 0 → (g.sym (g.atDot p)).nullable = true →
      Want g inp j (p + 1, i)
  | scan {j p i l} : Want g inp j (p, i) → (g.sym (g.atDot p)).lexeme = some l → l ∈ inp.getD j [] →
      j < inp.length → Want g inp (j + 1) (p + 1, i)
  | complete {j p k q i} : Want g inp j (p, k) → g.atDot p = 0 → k < j → Want g inp k (q, i) →
      g.atDot q = g.lhs p → Want g inp j (q + 1, i)

theorem subsetB_mem {a b : List Item} (h : subsetB a b = true) {x : Item} (hx : x ∈ a) : x ∈ b := by
  unfold subsetB at h
  rw [List.all_eq_true] at h
  have := h x hx
  simpa using this

structure Closed (g : CG) (inp : List (List Nat)) (rows : List (List Item)) : Prop where
  start : ∀ r ∈ (g.sym g.start).rules, (r, 0) ∈ rows.getD 0 []
  exp : ∀ j, j < rows.length → ∀ it ∈ rows.getD j [], ∀ x ∈ expand g rows j it, x ∈ rows.getD j []
  scan : ∀ j, j + 1 < rows.length → ∀ x ∈ scanned g (rows.getD j []) (inp.getD j []), x ∈ rows.getD (j + 1) []

theorem closed_of_check (g : CG) (inp : List (List Nat)) (rows : List (List Item))
    (h : rowsClosed g inp rows = true) : Closed g inp rows := by
  unfold rowsClosed at h
  rw [Bool.and_eq_true, List.all_eq_true] at h
  obtain ⟨h0, h1⟩ := h
  refine ⟨?_, ?_, ?_⟩
  · intro r hr
    exact subsetB_mem h0 (List.mem_map.mpr ⟨r, hr, rfl⟩)
  · intro j hj it hit x hx
    have := h1 j (List.mem_range.mpr hj)
    rw [Bool.and_eq_true, List.all_eq_true] at this
    exact subsetB_mem (this.1 it hit) hx
  · intro j hj x hx
    have := h1 j (List.mem_range.mpr (by omega))
    rw [Bool.and_eq_true, Bool.or_eq_true] at this
    rcases this.2 with h | h
    · simp at h; omega
    · exact subsetB_mem h hx

/-- **closed rows hold every Earley item.** -/
theorem closed_complete (g : CG) (inp : List (List Nat)) (rows : List (List Item))
    (hc : Closed g inp rows) (j : Nat) (it : Item) (hw : Want g inp j it) (hj : j < rows.length) :
    it ∈ rows.getD j [] := by
  induction hw with
  | start hr => exact hc.start _ hr
  | @predict j p i r _ hne hr ih =>
    apply hc.exp j hj (p, i) (ih hj)
    unfold expand
    simp only [hne, if_false]
    exact List.mem_append_left _ (List.mem_map.mpr ⟨r, hr, rfl⟩)
  | @nullable j p i _ hne hn ih =>
    apply hc.exp j hj (p, i) (ih hj)
    unfold expand
    simp only [hne, if_false, hn, if_true]
    exact List.mem_append_right _ (by simp)
  | @scan j p i l _ hl hmem hlt ih =>
    apply hc.scan j hj
    unfold scanned
    refine List.mem_map.mpr ⟨(p, i), ?_, rfl⟩
    refine List.mem_filter.mpr ⟨ih (by omega), ?_⟩
    simp only [hl]
    simpa using hmem
  | @complete j p k q i _ hdot hk _ hq ih1 ih2 =>
    apply hc.exp j hj (p, k) (ih1 hj)
    unfold expand
    simp only [hdot, if_true, hk]
    refine List.mem_map.mpr ⟨(q, i), ?_, rfl⟩
    exact List.mem_filter.mpr ⟨ih2 (by omega), by simpa using hq⟩

/-! ### derivations -/

mutual
theorem der_mono {g : CG} {inp : List (List Nat)} {s i j : Nat} : Der g inp s i j → i ≤ j
  | .lex _ _ _ => Nat.le_succ _
  | .null _ => Nat.le_refl _
  | .rule _ hs _ => seq_mono hs
theorem seq_mono {g : CG} {inp : List (List Nat)} {r p i j : Nat} : Seq g inp r p i j → i ≤ j
  | .nil => Nat.le_refl _
  | .snoc hs _ hd => Nat.le_trans (seq_mono hs) (der_mono hd)
end

theorem seq_lhs {g : CG} (hw : WF g) {inp : List (List Nat)} {r p i j : Nat} :
    Seq g inp r p i j → g.lhs p = g.lhs r
  | .nil => rfl
  | .snoc hs hne _ => by rw [lhs_succ g hw _ hne]; exact seq_lhs hw hs

theorem seq_le {g : CG} {inp : List (List Nat)} {r p i j : Nat} : Seq g inp r p i j → r ≤ p
  | .nil => Nat.le_refl _
  | .snoc hs _ _ => Nat.le_succ_of_le (seq_le hs)

theorem seq_nonzero {g : CG} {inp : List (List Nat)} {r p i j : Nat} :
    Seq g inp r p i j → ∀ q, r ≤ q → q < p → g.atDot q ≠ 0
  | .nil => fun q h1 h2 => by omega
  | @Seq.snoc _ _ _ p' _ _ _ hs hne _ => fun q h1 h2 => by
      by_cases h : q = p'
      · subst h; exact hne
      · exact seq_nonzero hs q h1 (by omega)

/-- symbols listed by `rhsFrom` are the symbols of the rule up to its terminating 0 -/
theorem rhsFrom_mem (g : CG) (p : Nat) (hp : g.atDot p = 0) :
    ∀ fuel r, r ≤ p → (∀ q, r ≤ q → q < p → g.atDot q ≠ 0) →
      ∀ x ∈ g.rhsFrom fuel r, ∃ q, r ≤ q ∧ q < p ∧ x = g.atDot q := by
  intro fuel
  induction fuel with
  | zero => intro r _ _ x hx; simp [CG.rhsFrom] at hx
  | succ fuel ih =>
    intro r hr hnz x hx
    unfold CG.rhsFrom at hx
    split at hx
    · cases hx
    · rename_i hne
      have hlt : r < p := by
        rcases Nat.lt_or_ge r p with h | h
        · exact h
        · have : r = p := by omega
          subst this; exact absurd hp hne
      rcases List.mem_cons.mp hx with h | h
      · exact ⟨r, Nat.le_refl _, hlt, h⟩
      · obtain ⟨q, h1, h2, h3⟩ := ih (r + 1) hlt (fun q h1 h2 => hnz q (by omega) h2) x h
        exact ⟨q, by omega, h2, h3⟩

structure NullClosed (g : CG) : Prop where
  closed : ∀ s, (g.sym s).nullable = false → ∀ r ∈ (g.sym s).rules,
    ∃ x ∈ g.rhsFrom g.rhs.size r, (g.sym x).nullable = false

theorem nullClosed_of_check (g : CG) (h : g.nullableClosed = true) : NullClosed g := by
  unfold CG.nullableClosed at h
  rw [List.all_eq_true] at h
  refine ⟨?_⟩
  intro s hs r hr
  by_cases hlt : s < g.syms.size
  · have := h s (List.mem_range.mpr hlt)
    rw [Bool.or_eq_true] at this
    rcases this with h1 | h1
    · rw [hs] at h1; cases h1
    · rw [List.all_eq_true] at h1
      have := h1 r hr
      rw [List.any_eq_true] at this
      obtain ⟨x, hx, hnx⟩ := this
      exact ⟨x, hx, by simpa using hnx⟩
  · rw [sym_out_of_range g s hlt] at hr
    cases hr

mutual
/-- a symbol that derives the empty span is flagged nullable -/
theorem der_null {g : CG} (hn : NullClosed g) {inp : List (List Nat)} {s i j : Nat} :
    Der g inp s i j → i = j → (g.sym s).nullable = true
  | .lex _ _ _ => fun h => by omega
  | .null h => fun _ => h
  | @Der.rule _ _ _ r p _ _ hr hs hd => fun hij => by
      cases hnull : (g.sym s).nullable with
      | true => rfl
      | false =>
        obtain ⟨x, hx, hxn⟩ := hn.closed s hnull r hr
        obtain ⟨q, h1, h2, h3⟩ := rhsFrom_mem g p hd g.rhs.size r (seq_le hs) (seq_nonzero hs) x hx
        have := seq_null hn hs hij q h1 h2
        rw [h3, this] at hxn
        cases hxn
theorem seq_null {g : CG} (hn : NullClosed g) {inp : List (List Nat)} {r p i j : Nat} :
    Seq g inp r p i j → i = j → ∀ q, r ≤ q → q < p → (g.sym (g.atDot q)).nullable = true
  | .nil => fun _ q h1 h2 => by omega
  | @Seq.snoc _ _ _ p' _ k _ hs _ hd => fun hij q h1 h2 => by
      have hk1 := seq_mono hs
      have hk2 := der_mono hd
      by_cases h : q = p'
      · rw [h]; exact der_null hn hd (by omega)
      · exact seq_null hn hs (by omega) q h1 (by omega)
end

mutual
/-- an item waiting for `s` is advanced over every span `s` derives -/
theorem advance {g : CG} (hw : WF g) (hn : NullClosed g) {inp : List (List Nat)} {s k j : Nat} :
    Der g inp s k j → ∀ q i, Want g inp k (q, i) → g.atDot q = s → s ≠ 0 → Want g inp j (q + 1, i)
  | .lex hl hm hlt => fun q i hq hs _ => Want.scan hq (by rw [hs]; exact hl) hm hlt
  | .null hnl => fun q i hq hs hne => Want.nullable hq (by rw [hs]; exact hne) (by rw [hs]; exact hnl)
  | @Der.rule _ _ _ r p _ _ hr hsq hd => fun q i hq hs hne => by
      have hpred : Want g inp k (r, k) := Want.predict hq (by rw [hs]; exact hne) (by rw [hs]; exact hr)
      have hend : Want g inp j (p, k) := want_of_seq hw hn hsq k hpred
      rcases Nat.lt_or_ge k j with hlt | hge
      · refine Want.complete hend hd hlt hq ?_
        rw [hs, seq_lhs hw hsq, lhs_of_rule g hw s r hr]
      · have hkj : k = j := Nat.le_antisymm (seq_mono hsq) hge
        subst hkj
        have hnl := der_null hn (Der.rule hr hsq hd) rfl
        exact Want.nullable hq (by rw [hs]; exact hne) (by rw [hs]; exact hnl)
theorem want_of_seq {g : CG} (hw : WF g) (hn : NullClosed g) {inp : List (List Nat)} {r p k j : Nat} :
    Seq g inp r p k j → ∀ i, Want g inp k (r, i) → Want g inp j (p, i)
  | .nil => fun _ h => h
  | .snoc hs hne hd => fun i h => advance hw hn hd _ i (want_of_seq hw hn hs i h) rfl hne
end

/-- **completeness of acceptance**: if a rule of the start symbol derives the whole input, rows that
pass the certificate check have an accepting last row -/
theorem accepting_complete (g : CG) (hw : WF g) (hn : NullClosed g) (lexs : List (List Nat))
    (rows : List (List Item)) (hc : Closed g lexs rows) (hlen : rows.length = lexs.length + 1)
    {r p : Nat} (hr : r ∈ (g.sym g.start).rules) (hs : Seq g lexs r p 0 lexs.length)
    (hd : g.atDot p = 0) : accepting g rows = true := by
  have h0 : Want g lexs 0 (r, 0) := Want.start hr
  have h1 := want_of_seq hw hn hs 0 h0
  have h2 := closed_complete g lexs rows hc lexs.length (p, 0) h1 (by omega)
  unfold accepting
  rw [List.any_eq_true]
  refine ⟨(p, 0), ?_, ?_⟩
  · rw [hlen]; simpa using h2
  · simp only [Bool.and_eq_true, decide_eq_true_eq]
    refine ⟨⟨hd, trivial⟩, ?_⟩
    rw [seq_lhs hw hs, lhs_of_rule g hw _ r hr]

end Ey
end LlgVerif
