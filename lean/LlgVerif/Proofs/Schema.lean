/-
`intersect` of the schema IR means conjunction (on the `oneOf`-free fragment): helper lemmas.
-/
import LlgVerif.Model.Schema
import LlgVerif.Props.C06
namespace LlgVerif
namespace Sch
open Js

/-! ### order on decimals -/

theorem lt_of_le_of_lt (a b c : Num) (h1 : Num.le a b = true) (h2 : Num.lt b c = true) : Num.lt a c = true := by
  have ha : min3 a b c ≤ a.exp := by unfold min3; omega
  have hb : min3 a b c ≤ b.exp := by unfold min3; omega
  have hc : min3 a b c ≤ c.exp := by unfold min3; omega
  exact (lt_at a c _ ha hc).mpr (Int.lt_of_le_of_lt ((le_at a b _ ha hb).mp h1) ((lt_at b c _ hb hc).mp h2))

theorem lt_of_lt_of_le (a b c : Num) (h1 : Num.lt a b = true) (h2 : Num.le b c = true) : Num.lt a c = true := by
  have ha : min3 a b c ≤ a.exp := by unfold min3; omega
  have hb : min3 a b c ≤ b.exp := by unfold min3; omega
  have hc : min3 a b c ≤ c.exp := by unfold min3; omega
  exact (lt_at a c _ ha hc).mpr (Int.lt_of_lt_of_le ((lt_at a b _ ha hb).mp h1) ((le_at b c _ hb hc).mp h2))

theorem bool_eq_and_of {p q r : Bool} (h1 : p = true → q = true ∧ r = true) (h2 : q = true → r = true → p = true) :
    p = (q && r) := by
  cases p <;> cases q <;> cases r <;> simp_all

/-- lower bounds: the larger one implies the other -/
theorem optMaxN_le (a b : Option Num) (v : Num) :
    optAll (optMaxN a b) (fun m => m.le v) = (optAll a (fun m => m.le v) && optAll b (fun m => m.le v)) := by
  cases a with
  | none => cases b <;> simp [optMaxN, optAll]
  | some x =>
    cases b with
    | none => simp [optMaxN, optAll]
    | some y =>
      by_cases h : Num.le y x = true
      · simp only [optMaxN, optAll, h, ↓reduceIte]
        apply bool_eq_and_of
        · intro hx; exact ⟨hx, le_trans y x v h hx⟩
        · intro hx _; exact hx
      · simp only [optMaxN, optAll, h, ↓reduceIte]
        have hxy : Num.le x y = true := by
          rcases le_total x y with h' | h'
          · exact h'
          · exact absurd h' h
        rw [Bool.and_comm]
        apply bool_eq_and_of
        · intro hy; exact ⟨hy, le_trans x y v hxy hy⟩
        · intro hy _; exact hy

theorem optMaxN_lt (a b : Option Num) (v : Num) :
    optAll (optMaxN a b) (fun m => m.lt v) = (optAll a (fun m => m.lt v) && optAll b (fun m => m.lt v)) := by
  cases a with
  | none => cases b <;> simp [optMaxN, optAll]
  | some x =>
    cases b with
    | none => simp [optMaxN, optAll]
    | some y =>
      by_cases h : Num.le y x = true
      · simp only [optMaxN, optAll, h, ↓reduceIte]
        apply bool_eq_and_of
        · intro hx; exact ⟨hx, lt_of_le_of_lt y x v h hx⟩
        · intro hx _; exact hx
      · simp only [optMaxN, optAll, h, ↓reduceIte]
        have hxy : Num.le x y = true := by
          rcases le_total x y with h' | h'
          · exact h'
          · exact absurd h' h
        rw [Bool.and_comm]
        apply bool_eq_and_of
        · intro hy; exact ⟨hy, lt_of_le_of_lt x y v hxy hy⟩
        · intro hy _; exact hy

theorem optMinN_le (a b : Option Num) (v : Num) :
    optAll (optMinN a b) (fun m => v.le m) = (optAll a (fun m => v.le m) && optAll b (fun m => v.le m)) := by
  cases a with
  | none => cases b <;> simp [optMinN, optAll]
  | some x =>
    cases b with
    | none => simp [optMinN, optAll]
    | some y =>
      by_cases h : Num.le x y = true
      · simp only [optMinN, optAll, h, ↓reduceIte]
        apply bool_eq_and_of
        · intro hx; exact ⟨hx, le_trans v x y hx h⟩
        · intro hx _; exact hx
      · simp only [optMinN, optAll, h, ↓reduceIte]
        have hyx : Num.le y x = true := by
          rcases le_total x y with h' | h'
          · exact absurd h' h
          · exact h'
        rw [Bool.and_comm]
        apply bool_eq_and_of
        · intro hy; exact ⟨hy, le_trans v y x hy hyx⟩
        · intro hy _; exact hy

theorem optMinN_lt (a b : Option Num) (v : Num) :
    optAll (optMinN a b) (fun m => v.lt m) = (optAll a (fun m => v.lt m) && optAll b (fun m => v.lt m)) := by
  cases a with
  | none => cases b <;> simp [optMinN, optAll]
  | some x =>
    cases b with
    | none => simp [optMinN, optAll]
    | some y =>
      by_cases h : Num.le x y = true
      · simp only [optMinN, optAll, h, ↓reduceIte]
        apply bool_eq_and_of
        · intro hx; exact ⟨hx, lt_of_lt_of_le v x y hx h⟩
        · intro hx _; exact hx
      · simp only [optMinN, optAll, h, ↓reduceIte]
        have hyx : Num.le y x = true := by
          rcases le_total x y with h' | h'
          · exact absurd h' h
          · exact h'
        rw [Bool.and_comm]
        apply bool_eq_and_of
        · intro hy; exact ⟨hy, lt_of_lt_of_le v y x hy hyx⟩
        · intro hy _; exact hy

theorem optMinNat_le (a b : Option Nat) (n : Nat) :
    optAll (optMinNat a b) (fun h => decide (n ≤ h)) = (optAll a (fun h => decide (n ≤ h)) && optAll b (fun h => decide (n ≤ h))) := by
  cases a with
  | none => cases b <;> simp [optMinNat, optAll]
  | some x =>
    cases b with
    | none => simp [optMinNat, optAll]
    | some y =>
      by_cases h : x ≤ y
      · simp only [optMinNat, optAll, h, ↓reduceIte]
        apply bool_eq_and_of
        · intro hx; simp only [decide_eq_true_eq] at hx ⊢; omega
        · intro hx _; exact hx
      · simp only [optMinNat, optAll, h, ↓reduceIte]
        rw [Bool.and_comm]
        apply bool_eq_and_of
        · intro hy; simp only [decide_eq_true_eq] at hy ⊢; omega
        · intro hy _; exact hy

/-- what the least common multiple must do (the hypothesis on the `lcm` parameter) -/
def LcmOK (lcm : Dec → Dec → Option Dec) (isMult : Dec → Num → Bool) : Prop :=
  ∀ a b d, lcm a b = some d → ∀ x, isMult d x = (isMult a x && isMult b x)

theorem intersectNum_sat (lcm : Dec → Dec → Option Dec) (isMult : Dec → Num → Bool) (hl : LcmOK lcm isMult)
    (n1 n2 n : NumS) (h : intersectNum lcm n1 n2 = some n) (x : Num) :
    satNum isMult n x = (satNum isMult n1 x && satNum isMult n2 x) := by
  unfold intersectNum at h
  simp only [Option.map_eq_some_iff] at h
  obtain ⟨mo, hmo, rfl⟩ := h
  have hm : optAll mo (fun m => isMult m x) =
      (optAll n1.multipleOf (fun m => isMult m x) && optAll n2.multipleOf (fun m => isMult m x)) := by
    cases h1 : n1.multipleOf with
    | none =>
      cases h2 : n2.multipleOf with
      | none => rw [h1, h2] at hmo; simp at hmo; subst hmo; simp [optAll]
      | some m => rw [h1, h2] at hmo; simp at hmo; subst hmo; simp [optAll]
    | some m1 =>
      cases h2 : n2.multipleOf with
      | none => rw [h1, h2] at hmo; simp at hmo; subst hmo; simp [optAll]
      | some m2 =>
        rw [h1, h2] at hmo
        simp only [Option.map_eq_some_iff] at hmo
        obtain ⟨d, hd, rfl⟩ := hmo
        simp only [optAll]
        exact hl m1 m2 d hd x
  unfold satNum
  simp only [optMaxN_le, optMinN_le, optMaxN_lt, optMinN_lt, hm]
  cases optAll n1.minimum (fun m => m.le x) <;> cases optAll n2.minimum (fun m => m.le x) <;>
  cases optAll n1.maximum (fun m => x.le m) <;> cases optAll n2.maximum (fun m => x.le m) <;>
  cases optAll n1.exclusiveMinimum (fun m => m.lt x) <;> cases optAll n2.exclusiveMinimum (fun m => m.lt x) <;>
  cases optAll n1.exclusiveMaximum (fun m => x.lt m) <;> cases optAll n2.exclusiveMaximum (fun m => x.lt m) <;>
  cases n1.integer <;> cases n2.integer <;> cases x.isInteger <;>
  cases optAll n1.multipleOf (fun m => isMult m x) <;> cases optAll n2.multipleOf (fun m => isMult m x) <;> rfl

/-! ### the fragment: no `oneOf`, `items: None` stored as `any` -/

def isAny : Sch → Bool
  | .any => true
  | _ => false

def nodupB : List String → Bool
  | [] => true
  | x :: xs => !xs.contains x && nodupB xs

mutual
def Ok : Sch → Bool
  | .oneOf _ => false
  | .anyOf l => OkL l
  | .array _ _ pre none_ items => OkL pre && Ok items && (!none_ || isAny items)
  | .object props none_ ap req _ _ => OkKL props && Ok ap && (!none_ || isAny ap) && nodupB req
  | _ => true
def OkL : SchL → Bool
  | .nil => true
  | .cons h t => Ok h && OkL t
def OkKL : SchKL → Bool
  | .nil => true
  | .cons _ s t => Ok s && OkKL t
end

variable (ρ : String → String → Bool) (isMult : Dec → Num → Bool)

theorem isAny_sat {s : Sch} (h : isAny s = true) (v : Json) : sat ρ isMult s v = true := by
  cases s <;> simp [isAny] at h
  simp [sat]

/-! ### lists -/

theorem satAny_append (v : Json) : ∀ (a b : SchL), satAny ρ isMult (a.append b) v = (satAny ρ isMult a v || satAny ρ isMult b v)
  | .nil, b => by simp [SchL.append, satAny]
  | .cons h t, b => by simp [SchL.append, satAny, satAny_append v t b, Bool.or_assoc]

theorem OkL_append : ∀ (a b : SchL), OkL (a.append b) = (OkL a && OkL b)
  | .nil, b => by simp [SchL.append, OkL]
  | .cons h t, b => by simp [SchL.append, OkL, OkL_append t b, Bool.and_assoc]

theorem satAny_snoc (v : Json) (a : SchL) (x : Sch) :
    satAny ρ isMult (a.snoc x) v = (satAny ρ isMult a v || sat ρ isMult x v) := by
  unfold SchL.snoc
  rw [satAny_append]
  simp [satAny]

theorem OkL_snoc (a : SchL) (x : Sch) : OkL (a.snoc x) = (OkL a && Ok x) := by
  unfold SchL.snoc
  rw [OkL_append]
  simp [OkL]

theorem len_append : ∀ (a b : SchL), (a.append b).len = a.len + b.len
  | .nil, b => by simp [SchL.append, SchL.len]
  | .cons h t, b => by simp only [SchL.append, SchL.len, len_append t b]; omega

theorem rep_len (x : Sch) : ∀ n, (SchL.rep x n).len = n
  | 0 => by simp [SchL.rep, SchL.len]
  | n + 1 => by simp [SchL.rep, SchL.len, rep_len x n]

theorem pad_len (n : Nat) (l : SchL) (x : Sch) : (l.pad x n).len = l.len + n := by
  unfold SchL.pad
  rw [len_append, rep_len]

theorem OkL_rep (x : Sch) (hx : Ok x = true) : ∀ n, OkL (SchL.rep x n) = true
  | 0 => by simp [SchL.rep, OkL]
  | n + 1 => by simp [SchL.rep, OkL, hx, OkL_rep x hx n]

theorem OkL_pad (n : Nat) (l : SchL) (x : Sch) (h : OkL l = true) (hx : Ok x = true) : OkL (l.pad x n) = true := by
  unfold SchL.pad
  rw [OkL_append, h, OkL_rep x hx n]
  rfl

theorem satPre_rep (f : Json → Bool) (x : Sch) (hx : ∀ v, sat ρ isMult x v = f v) :
    ∀ (n : Nat) (xs : List Json), satPre ρ isMult f (SchL.rep x n) xs = xs.all f
  | 0, xs => by simp [SchL.rep, satPre]
  | n + 1, [] => by simp [SchL.rep, satPre]
  | n + 1, y :: ys => by
      simp only [SchL.rep, satPre, List.all_cons, hx y, satPre_rep f x hx n ys]

theorem satPre_pad (f : Json → Bool) (x : Sch) (hx : ∀ v, sat ρ isMult x v = f v) (n : Nat) :
    ∀ (l : SchL) (xs : List Json), satPre ρ isMult f (l.pad x n) xs = satPre ρ isMult f l xs
  | .nil, xs => by
      unfold SchL.pad
      simp only [SchL.append, satPre]
      exact satPre_rep ρ isMult f x hx n xs
  | .cons a t, [] => by unfold SchL.pad; simp [SchL.append, satPre]
  | .cons a t, y :: ys => by
      have := satPre_pad f x hx n t ys
      unfold SchL.pad at this ⊢
      simp only [SchL.append, satPre, this]

theorem all_and (f1 f2 f12 : Json → Bool) (h : ∀ v, f12 v = (f1 v && f2 v)) :
    ∀ xs : List Json, xs.all f12 = (xs.all f1 && xs.all f2)
  | [] => by simp
  | x :: xs => by
      simp only [List.all_cons, h x, all_and f1 f2 f12 h xs]
      cases f1 x <;> cases f2 x <;> cases xs.all f1 <;> cases xs.all f2 <;> rfl

/-- the statement proved for `intersect` at one recursion budget -/
def Good (g : Sch → Sch → Option Sch) : Prop :=
  ∀ a b c, g a b = some c → Ok a = true → Ok b = true →
    Ok c = true ∧ ∀ v, sat ρ isMult c v = (sat ρ isMult a v && sat ρ isMult b v)

theorem zipM_sat (g : Sch → Sch → Option Sch) (hg : Good ρ isMult g) (f1 f2 f12 : Json → Bool)
    (h : ∀ v, f12 v = (f1 v && f2 v)) :
    ∀ (p q r : SchL), SchL.zipM g p q = some r → p.len = q.len → OkL p = true → OkL q = true →
      OkL r = true ∧ ∀ xs, satPre ρ isMult f12 r xs = (satPre ρ isMult f1 p xs && satPre ρ isMult f2 q xs)
  | .nil, .nil, r => by
      intro hz _ _ _
      simp [SchL.zipM] at hz
      subst hz
      exact ⟨by simp [OkL], fun xs => by simp only [satPre]; exact all_and f1 f2 f12 h xs⟩
  | .nil, .cons _ _, r => by intro _ hl; simp [SchL.len] at hl
  | .cons _ _, .nil, r => by intro _ hl; simp [SchL.len] at hl
  | .cons a as, .cons b bs, r => by
      intro hz hl hp hq
      simp only [SchL.zipM, Option.bind_eq_bind, Option.bind_eq_some_iff, Option.pure_def, Option.some.injEq] at hz
      obtain ⟨c, hc, t, ht, rfl⟩ := hz
      simp only [OkL, Bool.and_eq_true] at hp hq
      simp only [SchL.len] at hl
      obtain ⟨hcok, hcs⟩ := hg a b c hc hp.1 hq.1
      obtain ⟨htok, hts⟩ := zipM_sat g hg f1 f2 f12 h as bs t ht (by omega) hp.2 hq.2
      refine ⟨by simp [OkL, hcok, htok], fun xs => ?_⟩
      cases xs with
      | nil => simp [satPre]
      | cons x xs =>
        simp only [satPre, hcs x, hts xs]
        cases sat ρ isMult a x <;> cases sat ρ isMult b x <;> cases satPre ρ isMult f1 as xs <;>
          cases satPre ρ isMult f2 bs xs <;> rfl

theorem mapM_left_sat (g : Sch → Sch → Option Sch) (hg : Good ρ isMult g) (s1 : Sch) (h1 : Ok s1 = true) :
    ∀ (opts r : SchL), opts.mapM (fun o => g o s1) = some r → OkL opts = true →
      OkL r = true ∧ ∀ v, satAny ρ isMult r v = (satAny ρ isMult opts v && sat ρ isMult s1 v)
  | .nil, r => by
      intro hm _
      simp [SchL.mapM] at hm
      subst hm
      exact ⟨by simp [OkL], fun v => by simp [satAny]⟩
  | .cons a as, r => by
      intro hm ho
      simp only [SchL.mapM, Option.bind_eq_bind, Option.bind_eq_some_iff, Option.pure_def, Option.some.injEq] at hm
      obtain ⟨c, hc, t, ht, rfl⟩ := hm
      simp only [OkL, Bool.and_eq_true] at ho
      obtain ⟨hcok, hcs⟩ := hg a s1 c hc ho.1 h1
      obtain ⟨htok, hts⟩ := mapM_left_sat g hg s1 h1 as t ht ho.2
      refine ⟨by simp [OkL, hcok, htok], fun v => ?_⟩
      simp only [satAny, hcs v, hts v]
      cases sat ρ isMult a v <;> cases sat ρ isMult s1 v <;> cases satAny ρ isMult as v <;> rfl

theorem mapM_right_sat (g : Sch → Sch → Option Sch) (hg : Good ρ isMult g) (s0 : Sch) (h0 : Ok s0 = true) :
    ∀ (opts r : SchL), opts.mapM (fun o => g s0 o) = some r → OkL opts = true →
      OkL r = true ∧ ∀ v, satAny ρ isMult r v = (sat ρ isMult s0 v && satAny ρ isMult opts v)
  | .nil, r => by
      intro hm _
      simp [SchL.mapM] at hm
      subst hm
      exact ⟨by simp [OkL], fun v => by simp [satAny]⟩
  | .cons a as, r => by
      intro hm ho
      simp only [SchL.mapM, Option.bind_eq_bind, Option.bind_eq_some_iff, Option.pure_def, Option.some.injEq] at hm
      obtain ⟨c, hc, t, ht, rfl⟩ := hm
      simp only [OkL, Bool.and_eq_true] at ho
      obtain ⟨hcok, hcs⟩ := hg s0 a c hc h0 ho.1
      obtain ⟨htok, hts⟩ := mapM_right_sat g hg s0 h0 as t ht ho.2
      refine ⟨by simp [OkL, hcok, htok], fun v => ?_⟩
      simp only [satAny, hcs v, hts v]
      cases sat ρ isMult a v <;> cases sat ρ isMult s0 v <;> cases satAny ρ isMult as v <;> rfl

/-! ### `normalize` -/

theorem normAnyLoop_none (v : Json) : ∀ (l acc : SchL), normAnyLoop l acc = none → satAny ρ isMult l v = true
  | .nil, acc => by simp [normAnyLoop]
  | .cons h t, acc => by
      intro hn
      cases h with
      | any => simp [satAny, sat]
      | unsat => simp only [normAnyLoop] at hn; simp [satAny, normAnyLoop_none v t acc hn]
      | anyOf nested => simp only [normAnyLoop] at hn; simp [satAny, normAnyLoop_none v t _ hn]
      | null => simp only [normAnyLoop] at hn; simp [satAny, normAnyLoop_none v t _ hn]
      | boolean b => simp only [normAnyLoop] at hn; simp [satAny, normAnyLoop_none v t _ hn]
      | number n => simp only [normAnyLoop] at hn; simp [satAny, normAnyLoop_none v t _ hn]
      | string a b c => simp only [normAnyLoop] at hn; simp [satAny, normAnyLoop_none v t _ hn]
      | array a b c d e => simp only [normAnyLoop] at hn; simp [satAny, normAnyLoop_none v t _ hn]
      | oneOf l => simp only [normAnyLoop] at hn; simp [satAny, normAnyLoop_none v t _ hn]
      | object a b c d e g => simp only [normAnyLoop] at hn; simp [satAny, normAnyLoop_none v t _ hn]

theorem normAnyLoop_some (v : Json) : ∀ (l acc r : SchL), normAnyLoop l acc = some r →
    OkL l = true → OkL acc = true →
    OkL r = true ∧ satAny ρ isMult r v = (satAny ρ isMult acc v || satAny ρ isMult l v)
  | .nil, acc, r => by
      intro hn _ ha
      simp only [normAnyLoop, Option.some.injEq] at hn
      subst hn
      exact ⟨ha, by simp [satAny]⟩
  | .cons h t, acc, r => by
      intro hn hl ha
      simp only [OkL, Bool.and_eq_true] at hl
      cases h with
      | any => simp [normAnyLoop] at hn
      | unsat =>
        simp only [normAnyLoop] at hn
        obtain ⟨h1, h2⟩ := normAnyLoop_some v t acc r hn hl.2 ha
        exact ⟨h1, by rw [h2]; simp [satAny, sat]⟩
      | anyOf nested =>
        simp only [normAnyLoop] at hn
        have hnest : OkL nested = true := by simpa [Ok] using hl.1
        obtain ⟨h1, h2⟩ := normAnyLoop_some v t _ r hn hl.2 (by rw [OkL_append]; simp [ha, hnest])
        exact ⟨h1, by rw [h2, satAny_append]; simp [satAny, sat, Bool.or_assoc]⟩
      | null =>
        simp only [normAnyLoop] at hn
        obtain ⟨h1, h2⟩ := normAnyLoop_some v t _ r hn hl.2 (by rw [OkL_snoc]; simp [ha, Ok])
        exact ⟨h1, by rw [h2, satAny_snoc]; simp [satAny, Bool.or_assoc]⟩
      | boolean b =>
        simp only [normAnyLoop] at hn
        obtain ⟨h1, h2⟩ := normAnyLoop_some v t _ r hn hl.2 (by rw [OkL_snoc]; simp [ha, Ok])
        exact ⟨h1, by rw [h2, satAny_snoc]; simp [satAny, Bool.or_assoc]⟩
      | number n =>
        simp only [normAnyLoop] at hn
        obtain ⟨h1, h2⟩ := normAnyLoop_some v t _ r hn hl.2 (by rw [OkL_snoc]; simp [ha, Ok])
        exact ⟨h1, by rw [h2, satAny_snoc]; simp [satAny, Bool.or_assoc]⟩
      | string a b c =>
        simp only [normAnyLoop] at hn
        obtain ⟨h1, h2⟩ := normAnyLoop_some v t _ r hn hl.2 (by rw [OkL_snoc]; simp [ha, Ok])
        exact ⟨h1, by rw [h2, satAny_snoc]; simp [satAny, Bool.or_assoc]⟩
      | array a b c d e =>
        simp only [normAnyLoop] at hn
        obtain ⟨h1, h2⟩ := normAnyLoop_some v t _ r hn hl.2 (by rw [OkL_snoc]; simp [ha, hl.1])
        exact ⟨h1, by rw [h2, satAny_snoc]; simp [satAny, Bool.or_assoc]⟩
      | oneOf l => simp [Ok] at hl
      | object a b c d e g =>
        simp only [normAnyLoop] at hn
        obtain ⟨h1, h2⟩ := normAnyLoop_some v t _ r hn hl.2 (by rw [OkL_snoc]; simp [ha, hl.1])
        exact ⟨h1, by rw [h2, satAny_snoc]; simp [satAny, Bool.or_assoc]⟩

theorem normalize_sat (s : Sch) (hs : Ok s = true) :
    Ok (normalize s) = true ∧ ∀ v, sat ρ isMult (normalize s) v = sat ρ isMult s v := by
  cases s with
  | anyOf opts =>
    have hopts : OkL opts = true := by simpa [Ok] using hs
    cases hn : normAnyLoop opts .nil with
    | none =>
      simp only [normalize, hn]
      refine ⟨by simp [Ok], fun v => ?_⟩
      simp only [sat]
      exact (normAnyLoop_none ρ isMult v opts .nil hn).symm
    | some valid =>
      have key : OkL valid = true ∧ ∀ v, satAny ρ isMult valid v = satAny ρ isMult opts v := by
        refine ⟨(normAnyLoop_some ρ isMult Json.null opts .nil valid hn hopts (by simp [OkL])).1, fun v => ?_⟩
        have := (normAnyLoop_some ρ isMult v opts .nil valid hn hopts (by simp [OkL])).2
        simpa [satAny] using this
      cases valid with
      | nil =>
        simp only [normalize, hn]
        exact ⟨by simp [Ok], fun v => by simp only [sat]; rw [← key.2 v]; simp [satAny]⟩
      | cons x rest =>
        cases rest with
        | nil =>
          simp only [normalize, hn]
          refine ⟨by simpa [OkL] using key.1, fun v => ?_⟩
          simp only [sat]
          rw [← key.2 v]; simp [satAny]
        | cons y rest' =>
          simp only [normalize, hn]
          refine ⟨by simpa [Ok] using key.1, fun v => ?_⟩
          simp only [sat]
          exact key.2 v
  | oneOf l => simp [Ok] at hs
  | any => exact ⟨by simp [normalize, Ok], fun v => by simp [normalize]⟩
  | unsat => exact ⟨by simp [normalize, Ok], fun v => by simp [normalize]⟩
  | null => exact ⟨by simp [normalize, Ok], fun v => by simp [normalize]⟩
  | boolean b => exact ⟨by simp [normalize, Ok], fun v => by simp [normalize]⟩
  | number n => exact ⟨by simp [normalize, Ok], fun v => by simp [normalize]⟩
  | string a b c => exact ⟨by simp [normalize, Ok], fun v => by simp [normalize]⟩
  | array a b c d e => exact ⟨by simpa [normalize] using hs, fun v => by simp [normalize]⟩
  | object a b c d e g => exact ⟨by simpa [normalize] using hs, fun v => by simp [normalize]⟩

end Sch
end LlgVerif
