/-
Chart recogniser of S4: every fact in the chart is a derivation (by construction), and once the
closure check passes every derivation inside the universe is in the chart.
-/
import LlgVerif.Spec.Cfg
namespace LlgVerif
namespace Cfg
set_option linter.unusedSectionVars false

variable {N : Type} [DecidableEq N] [Hashable N]

def Sem (G : Gram N) (f : Fact N) : Prop := DL G f.1 f.2

def Inv (G : Gram N) (c : Chart N) : Prop := ∀ f, c.contains f = true → Sem G f

theorem splits_mem {x u v : List B} (h : (u, v) ∈ splits x) : x = u ++ v := by
  simp only [splits, List.mem_map, List.mem_range] at h
  obtain ⟨k, _, hk⟩ := h
  injection hk with h1 h2
  rw [← h1, ← h2, List.take_append_drop]

theorem mem_splits (u v : List B) : (u, v) ∈ splits (u ++ v) := by
  simp only [splits, List.mem_map, List.mem_range]
  refine ⟨u.length, by simp; omega, ?_⟩
  simp

theorem infer_sound (G : Gram N) (c : Chart N) (hc : Inv G c) (f : Fact N)
    (h : infer G c f = true) : Sem G f := by
  obtain ⟨α, x⟩ := f
  match α, x with
  | [], x =>
    simp only [infer, List.isEmpty_iff] at h
    subst h; exact DL.nil
  | Sym.t lo hi :: α, [] => simp [infer] at h
  | Sym.t lo hi :: α, b :: x' =>
    simp only [infer, Bool.and_eq_true, decide_eq_true_eq] at h
    exact DL.t h.1.1 h.1.2 (hc _ h.2)
  | Sym.nt a :: α, x =>
    simp only [infer, List.any_eq_true, Bool.and_eq_true, decide_eq_true_eq] at h
    obtain ⟨⟨u, v⟩, hs, hv, r, hr, ha, hu⟩ := h
    have hx := splits_mem hs
    subst hx
    have hr' : (a, r.2) ∈ G := by rw [← ha]; exact hr
    exact DL.nt hr' (hc _ hu) (hc _ hv)

theorem inv_empty (G : Gram N) : Inv G ({} : Chart N) := by
  intro f h
  simp at h

theorem inv_stepC (G : Gram N) (U : List (Fact N)) (c : Chart N) (hc : Inv G c) :
    Inv G (stepC G U c) := by
  unfold stepC
  have key : ∀ (l : List (Fact N)) (acc : Chart N), Inv G acc →
      Inv G (l.foldl (fun acc f => if infer G acc f then acc.insert f else acc) acc) := by
    intro l
    induction l with
    | nil => intro acc h; exact h
    | cons f l ih =>
      intro acc hacc
      simp only [List.foldl_cons]
      apply ih
      by_cases hf : infer G acc f = true
      · simp only [hf, ↓reduceIte]
        intro g hg
        rw [Std.HashSet.contains_insert] at hg
        simp only [Bool.or_eq_true, beq_iff_eq] at hg
        rcases hg with hg | hg
        · subst hg; exact infer_sound G acc hacc f hf
        · exact hacc g hg
      · simp only [hf]; exact hacc
  exact key U c hc

theorem inv_iterC (G : Gram N) (U : List (Fact N)) (k : Nat) (c : Chart N) (hc : Inv G c) :
    Inv G (iterC G U k c) := by
  induction k generalizing c with
  | zero => exact hc
  | succ k ih =>
    simp only [iterC]
    split
    · exact inv_stepC G U c hc
    · exact ih _ (inv_stepC G U c hc)

/-- soundness of any chart the recogniser returns -/
theorem chart_sound (G : Gram N) (start : List (List (Sym N))) (w : List B) (fuel : Nat) (c : Chart N)
    (h : chart? G start w fuel = some c) : Inv G c := by
  unfold chart? at h
  simp only at h
  split at h
  · injection h with h; subst h
    exact inv_iterC G _ fuel _ (inv_empty G)
  · cases h

end Cfg
end LlgVerif
