/-
C08 main lemmas: the pattern of `rx_int_range` on non-negative bounds denotes exactly the canonical
spellings of the numbers in the range; it is total below 10^18; `[1-9][0-9]{d,}` denotes the numbers
from 10^d on.
-/
import LlgVerif.Proofs.IntRange
namespace LlgVerif
open Rx


theorem two_digits_of_prefix_ne {l r : Nat} (hd : numDigits l = numDigits r) (hne : l / 10 ≠ r / 10) :
    10 ≤ l ∧ 10 ≤ r := by
  by_cases hl : l < 10
  · have : r < 10 := numDigits_eq_one.mp (by rw [← hd]; exact numDigits_lt hl)
    omega
  · by_cases hr : r < 10
    · have : l < 10 := numDigits_eq_one.mp (by rw [hd]; exact numDigits_lt hr)
      omega
    · omega

theorem preB_eq (n : Nat) (_h : 10 ≤ n ∨ n / 10 = 0) : preB n = if n / 10 = 0 then [] else dec (n / 10) := by
  unfold preB
  by_cases h9 : n < 10
  · have : n / 10 = 0 := by omega
    simp [h9, this]
  · have : n / 10 ≠ 0 := by omega
    simp [h9, this]

theorem nnRange_correct (l r : Nat) (p : PR) (h : nnRange l r = .ok p) : IsRange p.rx l r := by
  fun_induction nnRange l r generalizing p
  case case1 => cases h
  case case2 r _ _ =>
    injection h with h; subst h
    intro w
    simp only [lang_litRx]
    constructor
    · intro hw; exact ⟨r, Nat.le_refl _, Nat.le_refl _, hw⟩
    · rintro ⟨n, h1, h2, hw⟩
      have : n = r := by omega
      rw [hw, this]
  case case3 l r hle hd hne hpre =>
    injection h with h; subst h
    intro w
    have hu := preB_eq l (by omega)
    rw [isRange_lastDigit (l / 10) (l % 10) (r % 10) (by omega) (by omega) w (preB l) hu]
    constructor
    · rintro ⟨n, h1, h2, h3, hw⟩
      exact ⟨n, by omega, by omega, hw⟩
    · rintro ⟨n, h1, h2, hw⟩
      exact ⟨n, by omega, by omega, by omega, hw⟩
  case case4 => cases h
  case case5 => cases h
  case case6 l r hle hd hne hpre hlt leftRec rightRec pl pr hrec inner hx parts ih =>
    injection h with h; subst h
    obtain ⟨hl10, hr10⟩ := two_digits_of_prefix_ne hd hpre
    have hin := ih inner hx
    intro w
    simp only [lang_altsRx, parts, List.map_append, List.mem_append, List.map_cons, List.map_nil,
      List.mem_cons, List.not_mem_nil, or_false]
    have hA : ∀ w, lang ((litRx (preB l)).cat (clsRx (l % 10) 9)) w ↔
        ∃ n, n / 10 = l / 10 ∧ l % 10 ≤ n % 10 ∧ n % 10 ≤ 9 ∧ w = dec n := fun w =>
      isRange_lastDigit (l / 10) (l % 10) 9 (by omega) (by omega) w (preB l) (preB_eq l (by omega))
    have hB : ∀ w, lang ((litRx (preB r)).cat (clsRx 0 (r % 10))) w ↔
        ∃ n, n / 10 = r / 10 ∧ 0 ≤ n % 10 ∧ n % 10 ≤ r % 10 ∧ w = dec n := fun w =>
      isRange_lastDigit (r / 10) 0 (r % 10) (by omega) (by omega) w (preB r) (preB_eq r (by omega))
    have hC : lang (inner.rx.cat (clsRx 0 9)) w ↔
        ∃ n, leftRec ≤ n / 10 ∧ n / 10 ≤ rightRec ∧ w = dec n := by
      simp only [lang, hin _, lang_clsRx 0 9 (by omega)]
      constructor
      · rintro ⟨u, v, hw, ⟨m, h1, h2, hu⟩, k, _, hk, hv⟩
        have hm : 1 ≤ m := by
          have : 1 ≤ leftRec := by simp only [leftRec]; split <;> omega
          omega
        refine ⟨10 * m + k, by omega, by omega, ?_⟩
        rw [dec_snoc m k hm hk, hw, hu, hv]
      · rintro ⟨n, h1, h2, hw⟩
        have hm : 1 ≤ n / 10 := by
          have : 1 ≤ leftRec := by simp only [leftRec]; split <;> omega
          omega
        refine ⟨dec (n / 10), [digitB (n % 10)], ?_, ⟨n / 10, h1, h2, rfl⟩, n % 10, by omega, by omega, rfl⟩
        rw [hw, dec_ge (by omega)]
    constructor
    · rintro ⟨q, hq, hw⟩
      rcases hq with (hq | hq) | hq
      · simp only [pl] at hq
        split at hq
        · simp only [List.map_cons, List.map_nil, List.mem_cons, List.not_mem_nil, or_false] at hq
          subst hq
          obtain ⟨n, h1, h2, h3, hw⟩ := (hA w).mp hw
          exact ⟨n, by omega, by omega, hw⟩
        · simp at hq
      · simp only [pr] at hq
        split at hq
        · simp only [List.map_cons, List.map_nil, List.mem_cons, List.not_mem_nil, or_false] at hq
          subst hq
          obtain ⟨n, h1, h2, h3, hw⟩ := (hB w).mp hw
          exact ⟨n, by omega, by omega, hw⟩
        · simp at hq
      · subst hq
        obtain ⟨n, h1, h2, hw⟩ := hC.mp hw
        refine ⟨n, ?_, ?_, hw⟩
        · simp only [leftRec] at h1; split at h1 <;> omega
        · simp only [rightRec] at h2; split at h2 <;> omega
    · rintro ⟨n, h1, h2, hw⟩
      by_cases c1 : n / 10 = l / 10
      · have hl0 : l % 10 ≠ 0 ∨ l % 10 = 0 := by omega
        rcases hl0 with hl0 | hl0
        · refine ⟨_, Or.inl (Or.inl ?_), (hA w).mpr ⟨n, c1, by omega, by omega, hw⟩⟩
          simp [pl, hl0]
        · refine ⟨_, Or.inr rfl, hC.mpr ⟨n, ?_, ?_, hw⟩⟩
          · simp only [leftRec]; split <;> omega
          · simp only [rightRec]; split <;> omega
      · by_cases c2 : n / 10 = r / 10
        · have hr9 : r % 10 ≠ 9 ∨ r % 10 = 9 := by omega
          rcases hr9 with hr9 | hr9
          · refine ⟨_, Or.inl (Or.inr ?_), (hB w).mpr ⟨n, c2, by omega, by omega, hw⟩⟩
            simp [pr, hr9]
          · refine ⟨_, Or.inr rfl, hC.mpr ⟨n, ?_, ?_, hw⟩⟩
            · simp only [leftRec]; split <;> omega
            · simp only [rightRec]; split <;> omega
        · refine ⟨_, Or.inr rfl, hC.mpr ⟨n, ?_, ?_, hw⟩⟩
          · simp only [leftRec]; split <;> omega
          · simp only [rightRec]; split <;> omega
  case case7 l r hle hd hne hpre hlt leftRec rightRec pl pr hrec parts =>
    injection h with h; subst h
    obtain ⟨hl10, hr10⟩ := two_digits_of_prefix_ne hd hpre
    intro w
    simp only [lang_altsRx, parts, List.map_append, List.mem_append]
    have hA : ∀ w, lang ((litRx (preB l)).cat (clsRx (l % 10) 9)) w ↔
        ∃ n, n / 10 = l / 10 ∧ l % 10 ≤ n % 10 ∧ n % 10 ≤ 9 ∧ w = dec n := fun w =>
      isRange_lastDigit (l / 10) (l % 10) 9 (by omega) (by omega) w (preB l) (preB_eq l (by omega))
    have hB : ∀ w, lang ((litRx (preB r)).cat (clsRx 0 (r % 10))) w ↔
        ∃ n, n / 10 = r / 10 ∧ 0 ≤ n % 10 ∧ n % 10 ≤ r % 10 ∧ w = dec n := fun w =>
      isRange_lastDigit (r / 10) 0 (r % 10) (by omega) (by omega) w (preB r) (preB_eq r (by omega))
    have hab : l % 10 ≠ 0 ∧ r % 10 ≠ 9 ∧ r / 10 = l / 10 + 1 := by
      simp only [leftRec, rightRec] at hrec
      split at hrec <;> split at hrec <;> omega
    constructor
    · rintro ⟨q, hq, hw⟩
      rcases hq with hq | hq
      · simp only [pl] at hq
        split at hq
        · simp only [List.map_cons, List.map_nil, List.mem_cons, List.not_mem_nil, or_false] at hq
          subst hq
          obtain ⟨n, h1, h2, h3, hw⟩ := (hA w).mp hw
          exact ⟨n, by omega, by omega, hw⟩
        · simp at hq
      · simp only [pr] at hq
        split at hq
        · simp only [List.map_cons, List.map_nil, List.mem_cons, List.not_mem_nil, or_false] at hq
          subst hq
          obtain ⟨n, h1, h2, h3, hw⟩ := (hB w).mp hw
          exact ⟨n, by omega, by omega, hw⟩
        · simp at hq
    · rintro ⟨n, h1, h2, hw⟩
      by_cases c1 : n / 10 = l / 10
      · refine ⟨_, Or.inl ?_, (hA w).mpr ⟨n, c1, by omega, by omega, hw⟩⟩
        simp [pl, hab.1]
      · refine ⟨_, Or.inr ?_, (hB w).mpr ⟨n, by omega, by omega, by omega, hw⟩⟩
        simp [pr, hab.2.1]
  case case8 => cases h
  case case9 l r hle hd h19 bp hbp a b hb ha iha ihb =>
    injection h with h; subst h
    intro w
    simp only [lang_altsRx, List.mem_cons, List.not_mem_nil, or_false]
    have h1 := iha a ha w
    have h2 := ihb b hb w
    constructor
    · rintro ⟨q, hq | hq, hw⟩
      · subst hq
        obtain ⟨n, x1, x2, x3⟩ := h1.mp hw
        exact ⟨n, x1, by omega, x3⟩
      · subst hq
        obtain ⟨n, x1, x2, x3⟩ := h2.mp hw
        exact ⟨n, by omega, x2, x3⟩
    · rintro ⟨n, x1, x2, x3⟩
      by_cases c : n ≤ bp
      · exact ⟨a.rx, Or.inl rfl, h1.mpr ⟨n, x1, c, x3⟩⟩
      · exact ⟨b.rx, Or.inr rfl, h2.mpr ⟨n, by omega, x2, x3⟩⟩
  case case10 => cases h
  case case11 => cases h


theorem nnRange_total (l r : Nat) (hle : l ≤ r) (hr : numDigits r ≤ 18) :
    ∃ p, nnRange l r = .ok p := by
  fun_induction nnRange l r
  case case1 => omega
  case case2 => exact ⟨_, rfl⟩
  case case3 => exact ⟨_, rfl⟩
  case case4 => omega
  case case5 l r _ hd hne hpre hlt leftRec rightRec hrec e hx ih =>
    have : numDigits rightRec ≤ 18 := by
      have : rightRec ≤ r := by simp only [rightRec]; split <;> omega
      exact Nat.le_trans (numDigits_mono this) hr
    obtain ⟨p, hp⟩ := ih hrec this
    rw [hp] at hx; cases hx
  case case6 => exact ⟨_, rfl⟩
  case case7 => exact ⟨_, rfl⟩
  case case8 l r _ hd h19 =>
    have := numDigits_mono hle
    omega
  case case9 => exact ⟨_, rfl⟩
  case case10 l r _ hd h19 bp hbp hx iha ihb =>
    have h1 : numDigits bp ≤ 18 := Nat.le_trans (numDigits_mono (by omega)) hr
    obtain ⟨a, ha⟩ := iha hbp.1 h1
    obtain ⟨b, hb⟩ := ihb (by omega) hr
    exact absurd hb (fun hb => hx a b ha hb)
  case case11 l r _ hd h19 bp hbp =>
    exfalso; apply hbp
    have h1 := lt_pow_numDigits l
    have hlt : numDigits l < numDigits r := by
      have := numDigits_mono hle; omega
    have h2 := pow_numDigits_le r (by
      have := numDigits_pos l
      by_cases h0 : r = 0
      · subst h0; have : l = 0 := by omega
        subst this; omega
      · omega)
    have h3 : 10 ^ numDigits l ≤ 10 ^ (numDigits r - 1) :=
      Nat.pow_le_pow_right (by omega) (by omega)
    simp only [bp]
    omega


def IsDigit (b : B) : Prop := ∃ k, k ≤ 9 ∧ b = digitB k

theorem lang_digit (w : List B) : lang (clsRx 0 9) w ↔ ∃ b, IsDigit b ∧ w = [b] := by
  rw [lang_clsRx 0 9 (by omega)]
  constructor
  · rintro ⟨k, _, h, hw⟩; exact ⟨digitB k, ⟨k, h, rfl⟩, hw⟩
  · rintro ⟨b, ⟨k, h, hb⟩, hw⟩; exact ⟨k, by omega, h, by rw [hw, hb]⟩

theorem flatten_singletons (v : List B) : v = (v.map (fun b => [b])).flatten := by
  induction v with
  | nil => rfl
  | cons a t ih => simp only [List.map_cons, List.flatten_cons, List.singleton_append]; rw [← ih]

theorem lang_star_digits (v : List B) : lang (star (clsRx 0 9)) v ↔ ∀ b ∈ v, IsDigit b := by
  simp only [lang]
  constructor
  · rintro ⟨ws, hv, hws⟩ b hb
    rw [hv, List.mem_flatten] at hb
    obtain ⟨u, hu, hbu⟩ := hb
    obtain ⟨c, hc, huc⟩ := (lang_digit u).mp (hws u hu)
    rw [huc] at hbu
    simp at hbu; rw [hbu]; exact hc
  · intro h
    refine ⟨v.map (fun b => [b]), ?_, ?_⟩
    · exact flatten_singletons v
    · intro u hu
      rw [List.mem_map] at hu
      obtain ⟨b, hb, rfl⟩ := hu
      exact (lang_digit _).mpr ⟨b, h b hb, rfl⟩

theorem lang_digitsGe (d : Nat) (v : List B) :
    lang (digitsGe d) v ↔ (∀ b ∈ v, IsDigit b) ∧ d ≤ v.length := by
  induction d generalizing v with
  | zero => simp [digitsGe, lang_star_digits]
  | succ d ih =>
    simp only [digitsGe, lang, ih]
    constructor
    · rintro ⟨x, y, hv, hx, hy1, hy2⟩
      obtain ⟨b, hb, hxb⟩ := (lang_digit x).mp hx
      subst hxb hv
      refine ⟨?_, by simp; omega⟩
      intro c hc
      simp at hc
      rcases hc with hc | hc
      · rw [hc]; exact hb
      · exact hy1 c hc
    · rintro ⟨h1, h2⟩
      cases v with
      | nil => simp at h2
      | cons b t =>
        refine ⟨[b], t, rfl, (lang_digit _).mpr ⟨b, h1 b (by simp), rfl⟩, ?_, by simp at h2; omega⟩
        intro c hc; exact h1 c (by simp [hc])

theorem dec_append_digits (v : List B) (hv : ∀ b ∈ v, IsDigit b) (m : Nat) (hm : 1 ≤ m) :
    ∃ n, m * 10 ^ v.length ≤ n ∧ dec m ++ v = dec n := by
  induction v generalizing m with
  | nil => exact ⟨m, by simp, by simp⟩
  | cons b t ih =>
    obtain ⟨k, hk, hb⟩ := hv b (by simp)
    obtain ⟨n, h1, h2⟩ := ih (fun c hc => hv c (by simp [hc])) (10 * m + k) (by omega)
    refine ⟨n, ?_, ?_⟩
    · simp only [List.length_cons, Nat.pow_succ]
      have : m * (10 ^ t.length * 10) = (10 * m) * 10 ^ t.length := by
        rw [Nat.mul_comm (10 ^ t.length) 10, ← Nat.mul_assoc, Nat.mul_comm m 10]
      rw [this]
      have : (10 * m) * 10 ^ t.length ≤ (10 * m + k) * 10 ^ t.length :=
        Nat.mul_le_mul_right _ (by omega)
      omega
    · rw [← h2, dec_snoc m k hm hk, hb]; simp

theorem dec_shape (n : Nat) (hn : 1 ≤ n) :
    ∃ a v, 1 ≤ a ∧ a ≤ 9 ∧ (∀ b ∈ v, IsDigit b) ∧ dec n = digitB a :: v := by
  induction n using Nat.strongRecOn with
  | _ n ih =>
    by_cases h : n < 10
    · exact ⟨n, [], hn, by omega, by simp, dec_lt h⟩
    · have h10 := Nat.not_lt.mp h
      obtain ⟨a, v, h1, h2, h3, h4⟩ := ih (n / 10) (by omega) (by omega)
      refine ⟨a, v ++ [digitB (n % 10)], h1, h2, ?_, ?_⟩
      · intro b hb
        simp at hb
        rcases hb with hb | hb
        · exact h3 b hb
        · exact ⟨n % 10, by omega, hb⟩
      · rw [dec_ge h10, h4]; simp

theorem lang_bigRx (d : Nat) (w : List B) : lang (bigRx d) w ↔ ∃ n, 10 ^ d ≤ n ∧ w = dec n := by
  simp only [bigRx, lang, lang_clsRx 1 9 (by omega), lang_digitsGe]
  constructor
  · rintro ⟨x, v, hw, ⟨a, h1, h2, hx⟩, hv, hd⟩
    obtain ⟨n, hn1, hn2⟩ := dec_append_digits v hv a h1
    refine ⟨n, ?_, ?_⟩
    · have : 10 ^ d ≤ 10 ^ v.length := Nat.pow_le_pow_right (by omega) hd
      have : 1 * 10 ^ v.length ≤ a * 10 ^ v.length := Nat.mul_le_mul_right _ h1
      omega
    · rw [hw, hx, ← hn2, dec_lt (by omega : a < 10)]
  · rintro ⟨n, hn, hw⟩
    have hpos : 1 ≤ n := Nat.le_trans (Nat.pow_pos (by omega)) hn
    obtain ⟨a, v, h1, h2, h3, h4⟩ := dec_shape n hpos
    refine ⟨[digitB a], v, by rw [hw, h4]; rfl, ⟨a, h1, h2, rfl⟩, h3, ?_⟩
    have hlen : numDigits n = v.length + 1 := by unfold numDigits; rw [h4]; rfl
    have := lt_pow_numDigits n
    have : 10 ^ d < 10 ^ numDigits n := by omega
    have := (Nat.pow_lt_pow_iff_right (by omega : 1 < 10)).mp this
    omega


end LlgVerif
