/-
The remaining sign cases of the half-open decimal ranges of `rx_float_range`:
an upper bound that is negative or zero, and a lower bound that is negative.
-/
import LlgVerif.Proofs.FloatHalf
namespace LlgVerif
open Rx

/-- **upper bound only, `right < 0`**: `-` followed by a literal of magnitude `≥ |right|` (`>` when exclusive) -/
theorem floatLe_neg_lang (r : FB) (ri : Bool) (p : PR) (h : floatLe r ri = .ok p)
    (hneg : r.neg = true) (hz : r.isZero = false) (hr : AllDig r.fd) (hrn : NTZ r.fd) (w : List B) :
    lang p.rx w ↔ ∃ ip fd, AllDig fd ∧ w = 45 :: (dec ip ++ fracBytes fd) ∧ geB ri ip fd r.ip r.fd := by
  unfold floatLe at h
  simp only [hz, Bool.false_eq_true, ↓reduceIte, hneg, Bool.not_true] at h
  split at h
  · rename_i g hg
    injection h with h; subst h
    have hgl := floatGe_nonneg_lang r.negate ri g hg (by simp [FB.negate, hneg]) hr hrn
    rw [lang_minus']
    constructor
    · rintro ⟨v, hw, hv⟩
      obtain ⟨ip, fd, hfd, hvv, hge⟩ := (hgl v).mp hv
      exact ⟨ip, fd, hfd, by rw [hw, hvv], hge⟩
    · rintro ⟨ip, fd, hfd, hw, hge⟩
      exact ⟨_, hw, (hgl _).mpr ⟨ip, fd, hfd, rfl, hge⟩⟩
  · cases h

/-- **upper bound only, `right = 0`**: the negative literals of positive magnitude, and — when the bound
is inclusive — the spellings `0`, `0.0`, `0.00`, ... -/
theorem floatLe_zero_lang (r : FB) (ri : Bool) (p : PR) (h : floatLe r ri = .ok p)
    (hz : r.isZero = true) (w : List B) :
    lang p.rx w ↔
      (∃ ip fd, AllDig fd ∧ w = 45 :: (dec ip ++ fracBytes fd) ∧ (0 < ip ∨ (0 = ip ∧ fracLT [] fd))) ∨
      (ri = true ∧ ∃ fd, (fd = [] ∨ (fd ≠ [] ∧ AllZero fd)) ∧ w = dec 0 ++ fracBytes fd) := by
  unfold floatLe at h
  simp only [hz, ↓reduceIte] at h
  split at h
  · cases h
  · rename_i g hg
    have hgl := floatGe_nonneg_lang FB.zero false g hg rfl allDig_nil trivial
    have hneglang : ∀ w, lang (cat minus g.rx) w ↔
        ∃ ip fd, AllDig fd ∧ w = 45 :: (dec ip ++ fracBytes fd) ∧ (0 < ip ∨ (0 = ip ∧ fracLT [] fd)) := by
      intro w
      rw [lang_minus']
      constructor
      · rintro ⟨v, hw, hv⟩
        obtain ⟨ip, fd, hfd, hvv, hge⟩ := (hgl v).mp hv
        exact ⟨ip, fd, hfd, by rw [hw, hvv], by simpa [geB, LowerB, FB.zero] using hge⟩
      · rintro ⟨ip, fd, hfd, hw, hpos⟩
        exact ⟨_, hw, (hgl _).mpr ⟨ip, fd, hfd, rfl, by simpa [geB, LowerB, FB.zero] using hpos⟩⟩
    have hzl : LitLang ((litRx (dec 0)).cat dotZeros) (fun ip fd => ip = 0 ∧ (fd = [] ∨ (fd ≠ [] ∧ AllZero fd))) :=
      litLang_lit_optdot digLang_zeroPlus (by simp) 0
    cases ri with
    | false =>
      simp only [Bool.false_eq_true, ↓reduceIte, Except.ok.injEq] at h
      subst h
      rw [hneglang]
      simp
    | true =>
      simp only [↓reduceIte, Except.ok.injEq] at h
      subst h
      simp only [lang_altsRx, List.mem_cons, List.not_mem_nil, or_false, true_and]
      constructor
      · rintro ⟨q, hq | hq, hw⟩
        · subst hq; exact Or.inl ((hneglang w).mp hw)
        · subst hq
          obtain ⟨ip, fd, hfd, hvv, hip, hq⟩ := (hzl w).mp hw
          subst hip
          exact Or.inr ⟨fd, hq, hvv⟩
      · rintro (hl | ⟨fd, hq, hw⟩)
        · exact ⟨_, Or.inl rfl, (hneglang w).mpr hl⟩
        · refine ⟨_, Or.inr rfl, (hzl w).mpr ⟨0, fd, ?_, hw, rfl, hq⟩⟩
          rcases hq with hq | hq
          · rw [hq]; exact allDig_nil
          · intro a ha; have := hq.2 a ha; omega

/-- `floatBoth l 0` for a negative `l` and an exclusive `0`: the negative part alone -/
theorem floatBoth_neg_zero (l : FB) (li : Bool) (hneg : l.neg = true) (hz : l.isZero = false) :
    floatBoth l FB.zero li false =
      (match floatPos FB.zero l.negate false li with
       | .error e => .error e
       | .ok np => .ok ⟨mkOrS ["(-" ++ np.s ++ ")"], altsRx [cat minus np.rx]⟩) := by
  unfold floatBoth
  have hz0 : FB.zero.isZero = true := by simp [FB.zero, FB.isZero]
  have h1 : FB.lt FB.zero l = false := by
    simp [FB.lt, hneg, hz, hz0, FB.zero]
  have h2 : FB.lt l FB.zero = true := by
    simp [FB.lt, hneg, hz, hz0, FB.zero]
  simp only [h1, h2, Bool.false_eq_true, ↓reduceIte, Bool.not_true, hneg, hz, Bool.not_false, Bool.and_self]
  have h3 : FB.zero.neg = false := rfl
  simp only [h3, Bool.false_and, Bool.false_eq_true, ↓reduceIte, hz0, Bool.not_true, Bool.or_self]
  cases floatPos FB.zero l.negate false li <;> rfl

/-- **lower bound only, `left < 0`**: `-` followed by a literal of positive magnitude `≤ |left|` (`<` when
exclusive), or any non-negative literal -/
theorem floatGe_neg_lang (l : FB) (li : Bool) (p : PR) (h : floatGe l li = .ok p)
    (hneg : l.neg = true) (hz : l.isZero = false) (hl : AllDig l.fd) (hln : NTZ l.fd)
    (hl0 : 0 < l.ip ∨ (0 = l.ip ∧ fracLT [] l.fd)) (w : List B) :
    lang p.rx w ↔
      (∃ ip fd, AllDig fd ∧ w = 45 :: (dec ip ++ fracBytes fd) ∧
        (0 < ip ∨ (0 = ip ∧ fracLT [] fd)) ∧ leB li ip fd l.ip l.fd) ∨
      (∃ ip fd, AllDig fd ∧ w = dec ip ++ fracBytes fd) := by
  have hge0 : ∀ g, floatGe FB.zero true = .ok g → LitLang g.rx (fun _ _ => True) := by
    intro g hg
    have := floatGe_nonneg_lang FB.zero true g hg rfl allDig_nil trivial
    refine litLang_congr this (fun ip fd _ => ?_)
    simp only [geB, LowerB, FB.zero, ↓reduceIte, iff_true]
    rcases Nat.eq_zero_or_pos ip with h0 | h0
    · right; exact ⟨h0.symm, by simp [fracLE]⟩
    · left; exact h0
  unfold floatGe at h
  simp only [hneg, hz, Bool.not_false, Bool.and_self, ↓reduceIte] at h
  rw [floatBoth_neg_zero l li hneg hz] at h
  -- the non-negative part is `floatGe 0 true`
  have hnn : ∀ x, (match floatBoth FB.zero (FB.ofNat (10 ^ numDigits FB.zero.ip)) true false with
      | .ok a => (Except.ok (⟨mkOrS [a.s, "[1-9][0-9]{" ++ toString (numDigits FB.zero.ip) ++ ",}(\\.[0-9]+)?"],
                   altsRx [a.rx, cat (bigRx (numDigits FB.zero.ip)) optFracAny]⟩ : PR) : Except Unit PR)
      | .error e => .error e) = x → floatGe FB.zero true = x := by
    intro x hx
    unfold floatGe
    simp only [FB.zero, Bool.false_and, Bool.false_eq_true, ↓reduceIte]
    exact hx
  cases hnp : floatPos FB.zero l.negate false li with
  | error e => simp [hnp] at h
  | ok np =>
    simp only [hnp] at h
    split at h
    · rename_i a b ha hb
      injection h with h; subst h
      injection ha with ha; subst ha
      have hbl := hge0 b (hnn _ hb)
      have hnl := floatPos_lang FB.zero l.negate false li np hnp allDig_nil trivial hl hln hl0
      simp only [lang_altsRx, List.mem_cons, List.not_mem_nil, or_false]
      constructor
      · rintro ⟨q, hq | hq, hw⟩
        · subst hq
          have hw2 : lang (cat minus np.rx) w := by
            simpa [lang_altsRx] using hw
          obtain ⟨v, hwv, hv⟩ := (lang_minus' _ _).mp hw2
          obtain ⟨ip, fd, hfd, hvv, hge, hle⟩ := (hnl v).mp hv
          left
          refine ⟨ip, fd, hfd, by rw [hwv, hvv], ?_, hle⟩
          simpa [geB, LowerB, FB.zero] using hge
        · subst hq
          obtain ⟨ip, fd, hfd, hvv, _⟩ := (hbl w).mp hw
          exact Or.inr ⟨ip, fd, hfd, hvv⟩
      · rintro (⟨ip, fd, hfd, hw, hpos, hle⟩ | ⟨ip, fd, hfd, hw⟩)
        · refine ⟨_, Or.inl rfl, ?_⟩
          have : lang (cat minus np.rx) w := (lang_minus' _ _).mpr ⟨_, hw, (hnl _).mpr ⟨ip, fd, hfd, rfl, by simpa [geB, LowerB, FB.zero] using hpos, hle⟩⟩
          simpa [lang_altsRx] using this
        · exact ⟨_, Or.inr rfl, (hbl w).mpr ⟨ip, fd, hfd, hw, trivial⟩⟩
    · cases h

end LlgVerif
