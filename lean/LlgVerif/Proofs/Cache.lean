import LlgVerif.Model.Cache
namespace LlgVerif

variable {R L M : Type} [DecidableEq L]

theorem computeBias_spec (fresh : List R → L → Bool → M) (s : CState R L M)
    (hinv : CacheInv fresh s) (hne : s.rows ≠ []) :
    (computeBias fresh s).1 = fresh s.rows s.ls s.pending ∧
    CacheInv fresh (computeBias fresh s).2 ∧
    (computeBias fresh s).2.rows = s.rows ∧ (computeBias fresh s).2.ls = s.ls ∧
    (computeBias fresh s).2.pending = s.pending := by
  have hlen : 0 < s.rows.length := List.length_pos_iff.mpr hne
  have hstore : CacheInv fresh { s with cache := some (s.ls, s.rows.length - 1, s.pending, fresh s.rows s.ls s.pending) } := by
    intro l i p m h
    simp only [Option.some.injEq, Prod.mk.injEq] at h
    obtain ⟨h1, h2, h3, h4⟩ := h
    subst h1 h2 h3 h4
    show s.rows.length - 1 < s.rows.length ∧ _
    refine ⟨by omega, ?_⟩
    show fresh s.rows s.ls s.pending = fresh (s.rows.take (s.rows.length - 1 + 1)) s.ls s.pending
    have : s.rows.length - 1 + 1 = s.rows.length := by omega
    rw [this, List.take_length]
  unfold computeBias
  cases hc : s.cache with
  | none => exact ⟨rfl, hstore, rfl, rfl, rfl⟩
  | some e =>
    obtain ⟨l, i, p, m⟩ := e
    simp only
    split
    · rename_i hhit
      obtain ⟨h1, h2, h3⟩ := hhit
      obtain ⟨_, hm⟩ := hinv l i p m hc
      refine ⟨?_, hinv, rfl, rfl, rfl⟩
      simp only
      rw [hm, h1, h2, h3]
      have : s.rows.length - 1 + 1 = s.rows.length := by omega
      rw [this, List.take_length]
    · exact ⟨rfl, hstore, rfl, rfl, rfl⟩

theorem cstep_inv (fresh : List R → L → Bool → M) (s : CState R L M) (op : COp R L)
    (hinv : CacheInv fresh s) (hne : s.rows ≠ [])
    (hkeep : ∀ k ls p, op = .rollback k ls p → 0 < k) :
    CacheInv fresh (cstep fresh true s op).2 ∧ (cstep fresh true s op).2.rows ≠ [] := by
  cases op with
  | advance nr ls p =>
    simp only [cstep]
    refine ⟨?_, by simp [hne]⟩
    intro l i p' m h
    obtain ⟨h1, h2⟩ := hinv l i p' m h
    refine ⟨by simp; omega, ?_⟩
    rw [h2, List.take_append_of_le_length (by omega)]
  | rollback k ls p =>
    simp only [cstep, ↓reduceIte]
    refine ⟨by intro l i p' m h; simp at h, ?_⟩
    have := hkeep k ls p rfl
    intro hc
    have hl : (s.rows.take k).length = 0 := by rw [hc]; rfl
    have hlen : 0 < s.rows.length := List.length_pos_iff.mpr hne
    simp only [List.length_take] at hl
    omega
  | mask =>
    simp only [cstep]
    obtain ⟨_, h2, h3, _, _⟩ := computeBias_spec fresh s hinv hne
    exact ⟨h2, by rw [h3]; exact hne⟩
  | invalidate =>
    simp only [cstep]
    exact ⟨by intro l i p' m h; simp at h, hne⟩

theorem cstep_out (fresh : List R → L → Bool → M) (s : CState R L M) (op : COp R L)
    (hinv : CacheInv fresh s) (hne : s.rows ≠ []) :
    (cstep fresh true s op).1 = (match op with | .mask => some (fresh s.rows s.ls s.pending) | _ => none) ∧
    (cstep fresh true s op).2.rows = (cstep fresh true { s with cache := none } op).2.rows ∧
    (cstep fresh true s op).2.ls = (cstep fresh true { s with cache := none } op).2.ls ∧
    (cstep fresh true s op).2.pending = (cstep fresh true { s with cache := none } op).2.pending := by
  cases op with
  | advance nr ls p => simp [cstep]
  | rollback k ls p => simp [cstep]
  | invalidate => simp [cstep]
  | mask =>
    obtain ⟨h1, _, h3, h4, h5⟩ := computeBias_spec fresh s hinv hne
    have hn : CacheInv fresh { s with cache := none } := by intro l i p m h; simp at h
    obtain ⟨_, _, g3, g4, g5⟩ := computeBias_spec fresh { s with cache := none } hn hne
    simp only [cstep, h1, h3, h4, h5, g3, g4, g5, and_self]

/-- states that differ only in the cache produce the same fresh outputs -/
theorem crunFresh_congr (fresh : List R → L → Bool → M) (s s' : CState R L M) (ops : List (COp R L))
    (h1 : s.rows = s'.rows) (h2 : s.ls = s'.ls) (h3 : s.pending = s'.pending) :
    crunFresh fresh s ops = crunFresh fresh s' ops := by
  induction ops generalizing s s' with
  | nil => rfl
  | cons op ops ih =>
    simp only [crunFresh]
    have e : ({ s with cache := none } : CState R L M) = { s' with cache := none } := by
      cases s; cases s'; simp_all
    rw [e, h1, h2, h3]

end LlgVerif
