/-
Object nodes of the schema IR: lemmas for the object arm of `intersect`.
-/
import LlgVerif.Proofs.Schema
namespace LlgVerif
namespace Sch
open Js

variable (ρ : String → String → Bool) (isMult : Dec → Num → Bool)

theorem satKV_noKey (f : Json → Bool) (v : Json) (key : String) :
    ∀ p : SchKL, p.hasKey key = false → satKV ρ isMult f p key v = f v
  | .nil => by intro _; simp [satKV]
  | .cons k s t => by
      intro h
      simp only [SchKL.hasKey, Bool.or_eq_false_iff] at h
      simp only [satKV, h.1]
      exact satKV_noKey f v key t h.2

theorem satKV_hasKey (f f' : Json → Bool) (v : Json) (key : String) :
    ∀ p : SchKL, p.hasKey key = true → satKV ρ isMult f p key v = satKV ρ isMult f' p key v
  | .nil => by intro h; simp [SchKL.hasKey] at h
  | .cons k s t => by
      intro h
      simp only [satKV]
      by_cases hk : (k == key) = true
      · simp [hk]
      · simp only [hk]
        simp only [SchKL.hasKey, hk, Bool.false_or] at h
        exact satKV_hasKey f f' v key t h

theorem satKV_append (f : Json → Bool) (v : Json) (key : String) (q : SchKL) :
    ∀ p : SchKL, satKV ρ isMult f (p.append q) key v =
      (if p.hasKey key then satKV ρ isMult f p key v else satKV ρ isMult f q key v)
  | .nil => by simp [SchKL.append, SchKL.hasKey]
  | .cons k s t => by
      simp only [SchKL.append, satKV, SchKL.hasKey]
      by_cases hk : (k == key) = true
      · simp [hk]
      · simp only [hk, Bool.false_or]
        exact satKV_append f v key q t

theorem hasKey_append (key : String) (q : SchKL) : ∀ p : SchKL, (p.append q).hasKey key = (p.hasKey key || q.hasKey key)
  | .nil => by simp [SchKL.append, SchKL.hasKey]
  | .cons k s t => by simp [SchKL.append, SchKL.hasKey, hasKey_append key q t, Bool.or_assoc]

theorem OkKL_append : ∀ (p q : SchKL), OkKL (p.append q) = (OkKL p && OkKL q)
  | .nil, q => by simp [SchKL.append, OkKL]
  | .cons k s t, q => by simp [SchKL.append, OkKL, OkKL_append t q, Bool.and_assoc]

theorem propSchema_sat (ap : Sch) (key : String) (v : Json) :
    ∀ p : SchKL, sat ρ isMult (propSchema p ap key) v = satKV ρ isMult (sat ρ isMult ap) p key v
  | .nil => by simp [propSchema, SchKL.lookup, satKV]
  | .cons k s t => by
      have ih := propSchema_sat ap key v t
      unfold propSchema at ih ⊢
      simp only [SchKL.lookup, satKV]
      by_cases hk : (k == key) = true
      · simp [hk]
      · simp only [hk]
        exact ih

theorem propSchema_ok (ap : Sch) (hap : Ok ap = true) (key : String) :
    ∀ p : SchKL, OkKL p = true → Ok (propSchema p ap key) = true
  | .nil => by intro _; simpa [propSchema, SchKL.lookup] using hap
  | .cons k s t => by
      intro hp
      simp only [OkKL, Bool.and_eq_true] at hp
      have ih := propSchema_ok ap hap key t hp.2
      unfold propSchema at ih ⊢
      simp only [SchKL.lookup]
      by_cases hk : (k == key) = true
      · simp [hk, hp.1]
      · simp only [hk]
        exact ih

theorem mapLeft_sat (g : Sch → Sch → Option Sch) (hg : Good ρ isMult g) (p2 : SchKL) (a2 : Sch)
    (hp2 : OkKL p2 = true) (ha2 : Ok a2 = true) :
    ∀ (p1 q : SchKL), SchKL.mapLeft g p2 a2 p1 = some q → OkKL p1 = true →
      OkKL q = true ∧ (∀ key, q.hasKey key = p1.hasKey key) ∧
      ∀ key v (f f1 : Json → Bool), p1.hasKey key = true →
        satKV ρ isMult f q key v = (satKV ρ isMult f1 p1 key v && satKV ρ isMult (sat ρ isMult a2) p2 key v)
  | .nil, q => by
      intro h _
      simp [SchKL.mapLeft] at h
      subst h
      exact ⟨by simp [OkKL], fun _ => rfl, fun key v f f1 hk => by simp [SchKL.hasKey] at hk⟩
  | .cons k s t, q => by
      intro h hp1
      simp only [SchKL.mapLeft, Option.bind_eq_bind, Option.bind_eq_some_iff, Option.pure_def, Option.some.injEq] at h
      obtain ⟨s', hs', t', ht', rfl⟩ := h
      simp only [OkKL, Bool.and_eq_true] at hp1
      obtain ⟨hok, hsat⟩ := hg s (propSchema p2 a2 k) s' hs' hp1.1 (propSchema_ok a2 ha2 k p2 hp2)
      obtain ⟨h1, h2, h3⟩ := mapLeft_sat g hg p2 a2 hp2 ha2 t t' ht' hp1.2
      refine ⟨by simp [OkKL, hok, h1], fun key => by simp [SchKL.hasKey, h2 key], fun key v f f1 hk => ?_⟩
      simp only [satKV]
      by_cases hkk : (k == key) = true
      · simp only [hkk, ↓reduceIte]
        have e : k = key := by simpa using hkk
        subst e
        rw [hsat v, propSchema_sat]
      · simp only [hkk]
        simp only [SchKL.hasKey, hkk, Bool.false_or] at hk
        exact h3 key v f f1 hk

theorem mapRight_sat (g : Sch → Sch → Option Sch) (hg : Good ρ isMult g) (p1 : SchKL) (a1 : Sch)
    (hp1 : OkKL p1 = true) (ha1 : Ok a1 = true) :
    ∀ (p2 q : SchKL), SchKL.mapRight g p1 a1 p2 = some q → OkKL p2 = true →
      OkKL q = true ∧ (∀ key, p1.hasKey key = false → q.hasKey key = p2.hasKey key) ∧
      ∀ key v (f f2 : Json → Bool), p1.hasKey key = false → p2.hasKey key = true →
        satKV ρ isMult f q key v = (sat ρ isMult a1 v && satKV ρ isMult f2 p2 key v)
  | .nil, q => by
      intro h _
      simp [SchKL.mapRight] at h
      subst h
      exact ⟨by simp [OkKL], fun _ _ => rfl, fun key v f f2 _ hk => by simp [SchKL.hasKey] at hk⟩
  | .cons k s t, q => by
      intro h hp2
      simp only [OkKL, Bool.and_eq_true] at hp2
      simp only [SchKL.mapRight] at h
      by_cases hin : p1.hasKey k = true
      · simp only [hin, ↓reduceIte] at h
        obtain ⟨h1, h2, h3⟩ := mapRight_sat g hg p1 a1 hp1 ha1 t q h hp2.2
        have hne : ∀ key, p1.hasKey key = false → (k == key) = false := by
          intro key hkey
          cases hkk : (k == key) with
          | false => rfl
          | true =>
            have e : k = key := by simpa using hkk
            subst e; rw [hin] at hkey; cases hkey
        refine ⟨h1, fun key hkey => by simp [SchKL.hasKey, hne key hkey, h2 key hkey], fun key v f f2 hkey hk => ?_⟩
        simp only [SchKL.hasKey, hne key hkey, Bool.false_or] at hk
        simp only [satKV, hne key hkey]
        exact h3 key v f f2 hkey hk
      · have hin' : p1.hasKey k = false := by simpa using hin
        simp only [hin', Bool.false_eq_true, ↓reduceIte, Option.bind_eq_bind, Option.bind_eq_some_iff, Option.pure_def, Option.some.injEq] at h
        obtain ⟨s', hs', t', ht', rfl⟩ := h
        obtain ⟨hok, hsat⟩ := hg (propSchema p1 a1 k) s s' hs' (propSchema_ok a1 ha1 k p1 hp1) hp2.1
        obtain ⟨h1, h2, h3⟩ := mapRight_sat g hg p1 a1 hp1 ha1 t t' ht' hp2.2
        refine ⟨by simp [OkKL, hok, h1], fun key hkey => by simp [SchKL.hasKey, h2 key hkey], fun key v f f2 hkey hk => ?_⟩
        simp only [satKV]
        by_cases hkk : (k == key) = true
        · simp only [hkk, ↓reduceIte]
          have e : k = key := by simpa using hkk
          subst e
          rw [hsat v, propSchema_sat, satKV_noKey ρ isMult _ v k p1 hin']
        · simp only [hkk]
          simp only [SchKL.hasKey, hkk, Bool.false_or] at hk
          exact h3 key v f f2 hkey hk

/-! ### `required` -/

theorem all_union (P : String → Bool) (r1 r2 : List String) :
    (r1 ++ r2.filter (fun k => !r1.contains k)).all P = (r1.all P && r2.all P) := by
  rw [List.all_append]
  cases h1 : r1.all P with
  | false => simp
  | true =>
    simp only [Bool.true_and]
    rw [List.all_eq_true] at h1
    apply Bool.eq_iff_iff.mpr
    simp only [List.all_eq_true, List.mem_filter, Bool.not_eq_true', and_imp]
    constructor
    · intro h x hx
      by_cases hc : r1.contains x = true
      · exact h1 x (by simpa using hc)
      · exact h x hx (by simpa using hc)
    · intro h x hx _; exact h x hx

theorem nodupB_iff : ∀ l : List String, nodupB l = true ↔ l.Nodup
  | [] => by simp [nodupB]
  | x :: xs => by simp [nodupB, nodupB_iff xs, List.nodup_cons]

theorem nodup_union (r1 r2 : List String) (h1 : nodupB r1 = true) (h2 : nodupB r2 = true) :
    nodupB (r1 ++ r2.filter (fun k => !r1.contains k)) = true := by
  rw [nodupB_iff] at h1 h2 ⊢
  rw [List.nodup_append]
  refine ⟨h1, h2.filter _, ?_⟩
  intro a ha b hb
  simp only [List.mem_filter, Bool.not_eq_true'] at hb
  intro e; subst e
  have : r1.contains a = true := by simpa using ha
  rw [hb.2] at this; cases this

/-- distinct required names that are all present need at least as many members -/
theorem required_le : ∀ (req keys : List String), req.Nodup → (∀ k ∈ req, k ∈ keys) → req.length ≤ keys.length
  | [], _ => by intro _ _; simp
  | r :: rs, keys => by
      intro hnd hall
      rw [List.nodup_cons] at hnd
      have hr : r ∈ keys := hall r List.mem_cons_self
      have ih := required_le rs (keys.erase r) hnd.2 (fun k hk => by
        have hne : k ≠ r := fun e => hnd.1 (e ▸ hk)
        exact (List.mem_erase_of_ne hne).mpr (hall k (List.mem_cons_of_mem _ hk)))
      rw [List.length_erase_of_mem hr] at ih
      have : 0 < keys.length := List.length_pos_of_mem hr
      simp only [List.length_cons]
      omega

theorem required_count (req : List String) (kvs : List (String × Json)) (hnd : nodupB req = true)
    (h : req.all (fun k => kvs.any (fun kv => kv.1 == k)) = true) : req.length ≤ kvs.length := by
  have := required_le req (kvs.map (·.1)) ((nodupB_iff req).mp hnd) (fun k hk => by
    rw [List.all_eq_true] at h
    have := h k hk
    rw [List.any_eq_true] at this
    obtain ⟨kv, hkv, he⟩ := this
    exact List.mem_map.mpr ⟨kv, hkv, by simpa using he⟩)
  simpa using this

/-! ### assembling the object arm -/

theorem list_all_and {α : Type} (A B : α → Bool) : ∀ l : List α, l.all (fun x => A x && B x) = (l.all A && l.all B)
  | [] => by simp
  | x :: xs => by
      simp only [List.all_cons, list_all_and A B xs]
      cases A x <;> cases B x <;> cases xs.all A <;> cases xs.all B <;> rfl

theorem object_eq (p1 p2 q : SchKL) (n1 n2 fl : Bool) (a1 a2 it : Sch) (r1 r2 : List String)
    (lo1 lo2 : Nat) (hi1 hi2 : Option Nat)
    (hkv : ∀ key v, satKV ρ isMult (sat ρ isMult it) q key v =
      (satKV ρ isMult (sat ρ isMult a1) p1 key v && satKV ρ isMult (sat ρ isMult a2) p2 key v)) (v : Json) :
    sat ρ isMult (.object q fl it (r1 ++ r2.filter (fun k => !r1.contains k)) (max lo1 lo2) (optMinNat hi1 hi2)) v =
      (sat ρ isMult (.object p1 n1 a1 r1 lo1 hi1) v && sat ρ isMult (.object p2 n2 a2 r2 lo2 hi2) v) := by
  cases v <;> simp only [sat, Bool.and_self]
  rename_i kvs
  rw [all_union, optMinNat_le]
  have hm : decide (max lo1 lo2 ≤ kvs.length) = (decide (lo1 ≤ kvs.length) && decide (lo2 ≤ kvs.length)) := by
    by_cases a1 : lo1 ≤ kvs.length <;> by_cases a2 : lo2 ≤ kvs.length <;> simp [a1, a2] <;> omega
  rw [hm]
  have hall : kvs.all (fun kv => satKV ρ isMult (sat ρ isMult it) q kv.1 kv.2) =
      (kvs.all (fun kv => satKV ρ isMult (sat ρ isMult a1) p1 kv.1 kv.2) &&
       kvs.all (fun kv => satKV ρ isMult (sat ρ isMult a2) p2 kv.1 kv.2)) := by
    rw [← list_all_and]
    congr 1
    funext kv
    exact hkv kv.1 kv.2
  rw [hall]
  cases r1.all (fun k => kvs.any (fun kv => kv.1 == k)) <;> cases r2.all (fun k => kvs.any (fun kv => kv.1 == k)) <;>
    cases decide (lo1 ≤ kvs.length) <;> cases decide (lo2 ≤ kvs.length) <;>
    cases optAll hi1 (fun h => decide (kvs.length ≤ h)) <;> cases optAll hi2 (fun h => decide (kvs.length ≤ h)) <;>
    cases kvs.all (fun kv => satKV ρ isMult (sat ρ isMult a1) p1 kv.1 kv.2) <;>
    cases kvs.all (fun kv => satKV ρ isMult (sat ρ isMult a2) p2 kv.1 kv.2) <;> rfl

theorem object_unsat_minmax (q : SchKL) (fl : Bool) (it : Sch) (req : List String) (lo h : Nat) (hgt : lo > h)
    (v : Json) : sat ρ isMult (.object q fl it req lo (some h)) v = false := by
  cases v <;> simp only [sat]
  rename_i kvs
  simp only [optAll]
  by_cases a1 : lo ≤ kvs.length
  · have : ¬ kvs.length ≤ h := by omega
    simp [this]
  · simp [a1]

theorem object_unsat_required (q : SchKL) (fl : Bool) (it : Sch) (req : List String) (lo h : Nat)
    (hnd : nodupB req = true) (hgt : req.length > h) (v : Json) :
    sat ρ isMult (.object q fl it req lo (some h)) v = false := by
  cases v <;> simp only [sat]
  rename_i kvs
  simp only [optAll]
  cases hr : req.all (fun k => kvs.any (fun kv => kv.1 == k)) with
  | false => simp
  | true =>
    have := required_count req kvs hnd hr
    have h2 : ¬ kvs.length ≤ h := by omega
    simp [h2]

end Sch
end LlgVerif
