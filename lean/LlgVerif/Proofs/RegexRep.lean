/- S2: bounded repetition denotes exactly the counts it names. -/
import LlgVerif.Proofs.RegexLang
namespace LlgVerif
namespace Rx

/-- `c`-fold concatenation of a language -/
def pow (L : List B → Prop) : Nat → List B → Prop
  | 0, w => w = []
  | n + 1, w => ∃ u v, w = u ++ v ∧ L u ∧ pow L n v

theorem lang_repExact (r : Rx) (n : Nat) (w : List B) : lang (repExact r n) w ↔ pow (lang r) n w := by
  induction n generalizing w with
  | zero => simp [repExact, lang, pow]
  | succ n ih => simp only [repExact, lang, pow, ih]

theorem lang_repUpTo (r : Rx) (n : Nat) (w : List B) :
    lang (repUpTo r n) w ↔ ∃ c, c ≤ n ∧ pow (lang r) c w := by
  induction n generalizing w with
  | zero =>
    simp only [repUpTo, lang, Nat.le_zero_eq]
    constructor
    · intro h; exact ⟨0, rfl, h⟩
    · rintro ⟨c, hc, h⟩; subst hc; exact h
  | succ n ih =>
    simp only [repUpTo, lang, ih]
    constructor
    · rintro (h | ⟨u, v, hw, hu, c, hc, hp⟩)
      · exact ⟨0, by omega, h⟩
      · exact ⟨c + 1, by omega, u, v, hw, hu, hp⟩
    · rintro ⟨c, hc, hp⟩
      cases c with
      | zero => exact Or.inl hp
      | succ c =>
        obtain ⟨u, v, hw, hu, hp'⟩ := hp
        exact Or.inr ⟨u, v, hw, hu, c, by omega, hp'⟩

theorem lang_star (r : Rx) (w : List B) : lang (star r) w ↔ ∃ c, pow (lang r) c w := by
  simp only [lang]
  constructor
  · rintro ⟨ws, hw, hall⟩
    refine ⟨ws.length, ?_⟩
    induction ws generalizing w with
    | nil => simpa [pow] using hw
    | cons x xs ih =>
      refine ⟨x, xs.flatten, by simpa using hw, hall x List.mem_cons_self, ?_⟩
      exact ih _ rfl (fun u hu => hall u (List.mem_cons_of_mem _ hu))
  · rintro ⟨c, hp⟩
    induction c generalizing w with
    | zero => exact ⟨[], by simpa [pow] using hp, by simp⟩
    | succ c ih =>
      obtain ⟨u, v, hw, hu, hp'⟩ := hp
      obtain ⟨ws, hv, hall⟩ := ih v hp'
      refine ⟨u :: ws, by simp [hw, hv], ?_⟩
      intro x hx
      rcases List.mem_cons.mp hx with h | h
      · subst h; exact hu
      · exact hall x h

theorem pow_add (L : List B → Prop) (a b : Nat) (w : List B) :
    pow L (a + b) w ↔ ∃ u v, w = u ++ v ∧ pow L a u ∧ pow L b v := by
  induction a generalizing w with
  | zero =>
    simp only [Nat.zero_add, pow]
    constructor
    · intro h; exact ⟨[], w, rfl, rfl, h⟩
    · rintro ⟨u, v, hw, hu, hv⟩; subst hu; simpa [hw] using hv
  | succ a ih =>
    have : a + 1 + b = (a + b) + 1 := by omega
    rw [this]
    simp only [pow, ih]
    constructor
    · rintro ⟨u, v, hw, hu, u', v', hv, hu', hv'⟩
      exact ⟨u ++ u', v', by simp [hw, hv], ⟨u, u', rfl, hu, hu'⟩, hv'⟩
    · rintro ⟨x, v', hw, ⟨u, u', hx, hu, hu'⟩, hv'⟩
      exact ⟨u, u' ++ v', by simp [hw, hx], hu, u', v', rfl, hu', hv'⟩

/-- **rep_counts** — `r{m,n}` (`n = none`: `r{m,}`) denotes exactly the repetition counts in range. -/
theorem rep_counts (r : Rx) (m : Nat) (n : Option Nat) (w : List B) :
    lang (rep r m n) w ↔
      ∃ c, m ≤ c ∧ (match n with | some n => c ≤ max m n | none => True) ∧ pow (lang r) c w := by
  cases n with
  | none =>
    simp only [rep, lang, lang_repExact, and_true, true_and]
    have hs := lang_star r
    simp only [lang] at hs
    constructor
    · rintro ⟨u, v, hw, hu, hv⟩
      obtain ⟨c, hc⟩ := (hs v).mp hv
      exact ⟨m + c, by omega, (pow_add _ m c w).mpr ⟨u, v, hw, hu, hc⟩⟩
    · rintro ⟨c, hc, hp⟩
      have : c = m + (c - m) := by omega
      rw [this] at hp
      obtain ⟨u, v, hw, hu, hv⟩ := (pow_add _ m (c - m) w).mp hp
      exact ⟨u, v, hw, hu, (hs v).mpr ⟨c - m, hv⟩⟩
  | some n =>
    simp only [rep, lang, lang_repExact, lang_repUpTo]
    constructor
    · rintro ⟨u, v, hw, hu, c, hc, hv⟩
      exact ⟨m + c, by omega, by omega, (pow_add _ m c w).mpr ⟨u, v, hw, hu, hv⟩⟩
    · rintro ⟨c, hc, hc2, hp⟩
      have : c = m + (c - m) := by omega
      rw [this] at hp
      obtain ⟨u, v, hw, hu, hv⟩ := (pow_add _ m (c - m) w).mp hp
      exact ⟨u, v, hw, hu, c - m, by omega, hv⟩

end Rx
end LlgVerif
