/-
The rows the model computes hold only `Want` items (the inductively defined Earley sets), so with
`closed_complete` the rows *are* those sets, and `want_viable` applies to every item of every row.
-/
import LlgVerif.Proofs.EarleyViable
namespace LlgVerif
namespace Ey

def RowsWant (g : CG) (inp : List (List Nat)) (rows : List (List Item)) : Prop :=
  ∀ j, j < rows.length → ∀ it ∈ rows.getD j [], Want g inp j it

theorem expand_want (g : CG) (inp : List (List Nat)) (rows : List (List Item)) (cur : Nat)
    (hrows : RowsWant g inp rows) (hcur : cur = rows.length) (it : Item) (hit : Want g inp cur it) :
    ∀ x ∈ expand g rows cur it, Want g inp cur x := by
  intro x hx
  unfold expand at hx
  simp only at hx
  split at hx
  · rename_i hdot
    split at hx
    · rename_i hlt
      simp only [List.mem_map, List.mem_filter, decide_eq_true_eq] at hx
      obtain ⟨jt, ⟨hj, hjd⟩, rfl⟩ := hx
      have hjw := hrows it.2 (by omega) jt hj
      exact Want.complete (p := it.1) (k := it.2) (q := jt.1) (i := jt.2) hit hdot hlt hjw hjd
    · cases hx
  · rename_i hdot
    simp only [List.mem_append, List.mem_map] at hx
    rcases hx with ⟨r', hr', rfl⟩ | hx
    · exact Want.predict (p := it.1) (i := it.2) hit hdot hr'
    · split at hx
      · rename_i hnull
        simp only [List.mem_cons, List.not_mem_nil, or_false] at hx
        subst hx
        exact Want.nullable (p := it.1) (i := it.2) hit hdot hnull
      · cases hx

theorem closure_want (g : CG) (inp : List (List Nat)) (rows : List (List Item)) (cur : Nat)
    (hrows : RowsWant g inp rows) (hcur : cur = rows.length) (fuel i : Nat) (l : List Item)
    (hl : ∀ y ∈ l, Want g inp cur y) : ∀ y ∈ closure g rows cur fuel i l, Want g inp cur y := by
  induction fuel generalizing i l with
  | zero => simpa [closure] using hl
  | succ fuel ih =>
    simp only [closure]
    split
    · exact hl
    · rename_i it hit
      apply ih
      exact foldl_addUnique_ok (Want g inp cur) _ _ hl
        (expand_want g inp rows cur hrows hcur it (hl it (List.mem_of_getElem? hit)))

theorem initRow_want (g : CG) (inp : List (List Nat)) : ∀ y ∈ initRow g, Want g inp 0 y := by
  unfold initRow
  apply closure_want g inp [] 0 (by intro j hj; simp at hj) rfl
  refine foldl_addUnique_ok (Want g inp 0) _ _ (by intro y hy; cases hy) ?_
  intro y hy
  simp only [List.mem_map] at hy
  obtain ⟨r, hr, rfl⟩ := hy
  exact Want.start hr

theorem nextRow_want (g : CG) (inp : List (List Nat)) (rows : List (List Item)) (lx : List Nat)
    (hrows : RowsWant g inp rows) (hpos : 0 < rows.length) (hlx : inp.getD (rows.length - 1) [] = lx)
    (hlen : rows.length - 1 < inp.length) :
    ∀ y ∈ nextRow g rows lx, Want g inp rows.length y := by
  unfold nextRow scanned
  simp only
  apply closure_want g inp rows rows.length hrows rfl
  refine foldl_addUnique_ok (Want g inp rows.length) _ _ (by intro y hy; cases hy) ?_
  intro y hy
  simp only [List.mem_map, List.mem_filter] at hy
  obtain ⟨it, ⟨hit, hlexm⟩, rfl⟩ := hy
  have hw := hrows (rows.length - 1) (by omega) it hit
  split at hlexm
  · rename_i l hl
    have hmem : l ∈ lx := by simpa using hlexm
    have := Want.scan (p := it.1) (i := it.2) hw hl (by rw [hlx]; exact hmem) hlen
    have e : rows.length - 1 + 1 = rows.length := by omega
    rw [e] at this
    exact this
  · cases hlexm

theorem runRows_want (g : CG) (lexs : List (List Nat)) : RowsWant g lexs (runRows g lexs) := by
  unfold runRows
  have key : ∀ (done rest : List (List Nat)) (rows : List (List Item)), lexs = done ++ rest →
      RowsWant g lexs rows → rows.length = done.length + 1 →
      RowsWant g lexs (rest.foldl (fun rows lx => rows ++ [nextRow g rows lx]) rows) := by
    intro done rest
    induction rest generalizing done with
    | nil => intro rows _ hr _; simpa using hr
    | cons lx rest ih =>
      intro rows hl hr hlen
      simp only [List.foldl_cons]
      apply ih (done ++ [lx]) (rows ++ [nextRow g rows lx]) (by rw [hl]; simp)
      · intro j hj it hit
        rw [getD_append_last] at hit
        split at hit
        · rename_i h; exact hr j h it hit
        · split at hit
          · rename_i h1 h2
            subst h2
            have hlx : lexs.getD (rows.length - 1) [] = lx := by
              rw [hl, hlen]
              simp [List.getD_eq_getElem?_getD]
            exact nextRow_want g lexs rows lx hr (by omega) hlx (by rw [hl, hlen]; simp) it hit
          · cases hit
      · simp [hlen]
  have h0 : RowsWant g lexs [initRow g] := by
    intro j hj it hit
    have : j = 0 := by simp at hj; omega
    subst this
    exact initRow_want g lexs it (by simpa using hit)
  exact key [] lexs [initRow g] rfl h0 rfl

theorem want_mono (g : CG) (inp x : List (List Nat)) (j : Nat) (it : Item) (h : Want g inp j it) :
    Want g (inp ++ x) j it := by
  induction h with
  | start hr => exact Want.start hr
  | predict _ hne hr ih => exact Want.predict ih hne hr
  | nullable _ hne hn ih => exact Want.nullable ih hne hn
  | scan _ hl hm hlt ih =>
    exact Want.scan ih hl (by rw [getD_append_left' _ _ _ hlt]; exact hm) (by simp; omega)
  | complete _ hdot hk _ hq ih1 ih2 => exact Want.complete ih1 hdot hk ih2 hq

end Ey
end LlgVerif
