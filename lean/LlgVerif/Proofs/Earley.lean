/-
Soundness of the Earley rows model M4: every item of every row has a derivation of the scanned
lexemes from the prefix of its rule before the dot (relative to the grammar's rules and its
nullable flags), hence an accepting last row means the start symbol derives the whole input.
-/
import LlgVerif.Model.Earley
namespace LlgVerif
namespace Ey

mutual
/-- symbol `s` derives the lexeme sets `inp[i..j)` -/
inductive Der (g : CG) (inp : List (List Nat)) : Nat → Nat → Nat → Prop where
  | lex {s i l} : (g.sym s).lexeme = some l → l ∈ inp.getD i [] → i < inp.length → Der g inp s i (i + 1)
  | null {s i} : (g.sym s).nullable = true → Der g inp s i i
  | rule {s r p i j} : r ∈ (g.sym s).rules → Seq g inp r p i j → g.atDot p = 0 → Der g inp s i j
/-- the symbols at positions `r .. p-1` derive `inp[i..j)` -/
inductive Seq (g : CG) (inp : List (List Nat)) : Nat → Nat → Nat → Nat → Prop where
  | nil {r i} : Seq g inp r r i i
  | snoc {r p i k j} : Seq g inp r p i k → g.atDot p ≠ 0 → Der g inp (g.atDot p) k j → Seq g inp r (p + 1) i j
end

/-- the invariant of an item `(p, s)` in row `j` -/
def ItemOK (g : CG) (inp : List (List Nat)) (j : Nat) (it : Item) : Prop :=
  it.2 ≤ j ∧ ∃ r, r ∈ (g.sym (g.lhs it.1)).rules ∧ Seq g inp r it.1 it.2 j

def RowsOK (g : CG) (inp : List (List Nat)) (rows : List (List Item)) : Prop :=
  ∀ j, j < rows.length → ∀ it ∈ rows.getD j [], ItemOK g inp j it

structure WF (g : CG) : Prop where
  null_rules : (g.sym 0).rules = []
  null_lexeme : (g.sym 0).lexeme = none
  null_nullable : (g.sym 0).nullable = false
  lhs_rule : ∀ s, s < g.syms.size → ∀ r ∈ (g.sym s).rules, g.lhs r = s
  lhs_next : ∀ p, p < g.rhs.size → g.atDot p ≠ 0 → g.lhs (p + 1) = g.lhs p

theorem wf_of_check (g : CG) (h : g.wf = true) : WF g := by
  unfold CG.wf at h
  simp only [Bool.and_eq_true, List.all_eq_true, List.mem_range, beq_iff_eq, Bool.or_eq_true,
    Bool.not_eq_eq_eq_not, Bool.not_true, List.isEmpty_iff, Option.isNone_iff_eq_none] at h
  obtain ⟨⟨⟨⟨h1, h2⟩, h3⟩, h4⟩, h5⟩ := h
  refine ⟨h1, h2, h3, h4, ?_⟩
  intro p hp hne
  rcases h5 p hp with h | h
  · exact absurd h hne
  · exact h

theorem sym_out_of_range (g : CG) (s : Nat) (h : ¬ s < g.syms.size) : g.sym s = default := by
  unfold CG.sym
  simp [Array.getD, h]

theorem atDot_out_of_range (g : CG) (p : Nat) (h : ¬ p < g.rhs.size) : g.atDot p = 0 := by
  unfold CG.atDot
  simp [Array.getD, h]

/-- rules of any symbol point into rules whose left-hand side is that symbol -/
theorem lhs_of_rule (g : CG) (hw : WF g) (s r : Nat) (h : r ∈ (g.sym s).rules) : g.lhs r = s := by
  by_cases hs : s < g.syms.size
  · exact hw.lhs_rule s hs r h
  · rw [sym_out_of_range g s hs] at h
    cases h

theorem lhs_succ (g : CG) (hw : WF g) (p : Nat) (h : g.atDot p ≠ 0) : g.lhs (p + 1) = g.lhs p := by
  by_cases hp : p < g.rhs.size
  · exact hw.lhs_next p hp h
  · exact absurd (atDot_out_of_range g p hp) h

/-- one agenda step produces only good items -/
theorem expand_ok (g : CG) (hw : WF g) (inp : List (List Nat)) (rows : List (List Item)) (cur : Nat)
    (hrows : RowsOK g inp rows) (hcur : cur = rows.length) (it : Item) (hit : ItemOK g inp cur it) :
    ∀ x ∈ expand g rows cur it, ItemOK g inp cur x := by
  intro x hx
  unfold expand at hx
  obtain ⟨hle, r, hr, hseq⟩ := hit
  simp only at hx
  split at hx
  · rename_i hdot
    -- completion
    split at hx
    · rename_i hlt
      simp only [List.mem_map, List.mem_filter, decide_eq_true_eq] at hx
      obtain ⟨jt, ⟨hj, hjd⟩, rfl⟩ := hx
      have hjok := hrows it.2 (by omega) jt hj
      obtain ⟨hjle, rj, hrj, hjseq⟩ := hjok
      have hder : Der g inp (g.lhs it.1) it.2 cur := Der.rule hr hseq hdot
      have hne : g.atDot jt.1 ≠ 0 := by
        rw [hjd]
        intro h0
        rw [h0, hw.null_rules] at hr
        cases hr
      refine ⟨by simp; omega, rj, ?_, ?_⟩
      · simp only; rw [lhs_succ g hw jt.1 hne]; exact hrj
      · exact Seq.snoc hjseq hne (by rw [hjd]; exact hder)
    · cases hx
  · rename_i hdot
    simp only [List.mem_append, List.mem_map] at hx
    rcases hx with ⟨r', hr', rfl⟩ | hx
    · -- prediction
      refine ⟨Nat.le_refl _, r', ?_, Seq.nil⟩
      simp only
      rw [lhs_of_rule g hw _ r' hr']; exact hr'
    · split at hx
      · rename_i hnull
        simp only [List.mem_cons, List.not_mem_nil, or_false] at hx
        subst hx
        refine ⟨hle, r, ?_, Seq.snoc hseq hdot (Der.null hnull)⟩
        simp only; rw [lhs_succ g hw it.1 hdot]; exact hr
      · cases hx

theorem addUnique_mem (l : List Item) (x y : Item) (h : y ∈ addUnique l x) : y ∈ l ∨ y = x := by
  unfold addUnique at h
  split at h
  · exact Or.inl h
  · rcases List.mem_append.mp h with h | h
    · exact Or.inl h
    · simp at h; exact Or.inr h

theorem foldl_addUnique_ok (P : Item → Prop) (xs l : List Item) (hl : ∀ y ∈ l, P y) (hx : ∀ y ∈ xs, P y) :
    ∀ y ∈ xs.foldl addUnique l, P y := by
  induction xs generalizing l with
  | nil => simpa using hl
  | cons x xs ih =>
    simp only [List.foldl_cons]
    apply ih
    · intro y hy
      rcases addUnique_mem l x y hy with h | h
      · exact hl y h
      · rw [h]; exact hx x List.mem_cons_self
    · intro y hy; exact hx y (List.mem_cons_of_mem _ hy)

theorem closure_ok (g : CG) (hw : WF g) (inp : List (List Nat)) (rows : List (List Item)) (cur : Nat)
    (hrows : RowsOK g inp rows) (hcur : cur = rows.length) (fuel i : Nat) (l : List Item)
    (hl : ∀ y ∈ l, ItemOK g inp cur y) : ∀ y ∈ closure g rows cur fuel i l, ItemOK g inp cur y := by
  induction fuel generalizing i l with
  | zero => simpa [closure] using hl
  | succ fuel ih =>
    simp only [closure]
    split
    · exact hl
    · rename_i it hit
      apply ih
      exact foldl_addUnique_ok (ItemOK g inp cur) _ _ hl
        (expand_ok g hw inp rows cur hrows hcur it (hl it (List.mem_of_getElem? hit)))

theorem initRow_ok (g : CG) (hw : WF g) (inp : List (List Nat)) : ∀ y ∈ initRow g, ItemOK g inp 0 y := by
  unfold initRow
  apply closure_ok g hw inp [] 0 (by intro j hj; simp at hj) rfl
  refine foldl_addUnique_ok (ItemOK g inp 0) _ _ (by intro y hy; cases hy) ?_
  intro y hy
  simp only [List.mem_map] at hy
  obtain ⟨r, hr, rfl⟩ := hy
  refine ⟨Nat.le_refl _, r, ?_, Seq.nil⟩
  simp only
  rw [lhs_of_rule g hw _ r hr]; exact hr

theorem nextRow_ok (g : CG) (hw : WF g) (inp : List (List Nat)) (rows : List (List Item)) (lx : List Nat)
    (hrows : RowsOK g inp rows) (hpos : 0 < rows.length) (hlx : inp.getD (rows.length - 1) [] = lx)
    (hlen : rows.length - 1 < inp.length) :
    ∀ y ∈ nextRow g rows lx, ItemOK g inp rows.length y := by
  unfold nextRow scanned
  simp only
  apply closure_ok g hw inp rows rows.length hrows rfl
  refine foldl_addUnique_ok (ItemOK g inp rows.length) _ _ (by intro y hy; cases hy) ?_
  intro y hy
  simp only [List.mem_map, List.mem_filter] at hy
  obtain ⟨it, ⟨hit, hlexm⟩, rfl⟩ := hy
  obtain ⟨hle, r, hr, hseq⟩ := hrows (rows.length - 1) (by omega) it hit
  split at hlexm
  · rename_i l hl
    have hmem : l ∈ lx := by simpa using hlexm
    have hne : g.atDot it.1 ≠ 0 := by
      intro h0; rw [h0, hw.null_lexeme] at hl; cases hl
    have hder : Der g inp (g.atDot it.1) (rows.length - 1) (rows.length - 1 + 1) :=
      Der.lex hl (by rw [hlx]; exact hmem) hlen
    have e : rows.length - 1 + 1 = rows.length := by omega
    rw [e] at hder
    refine ⟨by simp; omega, r, ?_, Seq.snoc hseq hne hder⟩
    simp only; rw [lhs_succ g hw it.1 hne]; exact hr
  · cases hlexm

theorem getD_append_last (rows : List (List Item)) (x : List Item) (j : Nat) :
    (rows ++ [x]).getD j [] = if j < rows.length then rows.getD j [] else if j = rows.length then x else [] := by
  simp only [List.getD_eq_getElem?_getD]
  split
  · rename_i h; rw [List.getElem?_append_left h]
  · rename_i h
    split
    · rename_i h2; subst h2; simp
    · rename_i h2
      rw [List.getElem?_eq_none (by simp; omega)]; rfl

/-- **rows are sound.**  Every item of every row the model computes has a derivation. -/
theorem runRows_ok (g : CG) (hw : WF g) (lexs : List (List Nat)) :
    RowsOK g lexs (runRows g lexs) ∧ (runRows g lexs).length = lexs.length + 1 := by
  unfold runRows
  -- generalise over the part of the input already consumed
  have key : ∀ (done rest : List (List Nat)) (rows : List (List Item)), lexs = done ++ rest →
      RowsOK g lexs rows → rows.length = done.length + 1 →
      RowsOK g lexs (rest.foldl (fun rows lx => rows ++ [nextRow g rows lx]) rows) ∧
      (rest.foldl (fun rows lx => rows ++ [nextRow g rows lx]) rows).length = lexs.length + 1 := by
    intro done rest
    induction rest generalizing done with
    | nil =>
      intro rows hl hr hlen
      simp only [List.foldl_nil]
      exact ⟨hr, by rw [hlen, hl]; simp⟩
    | cons lx rest ih =>
      intro rows hl hr hlen
      simp only [List.foldl_cons]
      apply ih (done ++ [lx]) (rows ++ [nextRow g rows lx]) (by rw [hl]; simp)
      · intro j hj it hit
        rw [getD_append_last] at hit
        split at hit
        · rename_i h; exact hr j h it hit
        · split at hit
          · rename_i h1 h2
            subst h2
            have hlx : lexs.getD (rows.length - 1) [] = lx := by
              rw [hl, hlen]
              simp [List.getD_eq_getElem?_getD]
            exact nextRow_ok g hw lexs rows lx hr (by omega) hlx (by rw [hl, hlen]; simp) it hit
          · cases hit
      · simp [hlen]
  have h0 : RowsOK g lexs [initRow g] := by
    intro j hj it hit
    have : j = 0 := by simp at hj; omega
    subst this
    simpa using initRow_ok g hw lexs it (by simpa using hit)
  exact key [] lexs [initRow g] rfl h0 rfl

theorem runRows_len (g : CG) (lexs : List (List Nat)) : (runRows g lexs).length = lexs.length + 1 := by
  unfold runRows
  have key : ∀ (rest : List (List Nat)) (rows : List (List Item)),
      (rest.foldl (fun rows lx => rows ++ [nextRow g rows lx]) rows).length = rows.length + rest.length := by
    intro rest
    induction rest with
    | nil => intro rows; simp
    | cons lx rest ih => intro rows; simp only [List.foldl_cons]; rw [ih]; simp; omega
  rw [key]; simp; omega

/-- **no over-acceptance at the parser level.**  If the model's last row is accepting, the start
symbol derives the whole sequence of scanned lexeme sets. -/
theorem accepting_sound (g : CG) (hw : WF g) (lexs : List (List Nat))
    (h : accepting g (runRows g lexs) = true) : Der g lexs g.start 0 lexs.length := by
  obtain ⟨hok, hlen⟩ := runRows_ok g hw lexs
  unfold accepting at h
  simp only [List.any_eq_true, Bool.and_eq_true, decide_eq_true_eq, beq_iff_eq] at h
  obtain ⟨it, hit, ⟨hdot, hs⟩, hlhs⟩ := h
  rw [hlen] at hit
  have e : lexs.length + 1 - 1 = lexs.length := by omega
  rw [e] at hit
  obtain ⟨_, r, hr, hseq⟩ := hok lexs.length (by rw [hlen]; omega) it hit
  rw [hlhs] at hr
  rw [hs] at hseq
  exact Der.rule hr hseq hdot

end Ey
end LlgVerif
