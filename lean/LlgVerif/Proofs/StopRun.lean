/- M9: run-level invariant and the output theorem. -/
import LlgVerif.Proofs.Stop
namespace LlgVerif
namespace StopCfg

theorem foldl_max_mem (l : List Nat) (a : Nat) : l.foldl max a = a ∨ l.foldl max a ∈ l := by
  induction l generalizing a with
  | nil => simp
  | cons y ys ih =>
    simp only [List.foldl_cons, List.mem_cons]
    rcases ih (max a y) with h | h
    · rw [h]
      by_cases hay : a ≤ y
      · right; left; omega
      · left; omega
    · right; right; exact h

theorem chop_cand_or_zero (c : StopCfg) (t : List SB) : c.chop t = 0 ∨ ChopCand c t (c.chop t) := by
  have hdef : c.chop t = List.foldl max 0 ((List.range (t.length + 1)).filter (fun k =>
      c.stops.any (fun s => k < s.length && s.take k == t.drop (t.length - k)))) := rfl
  rw [hdef]
  rcases foldl_max_mem ((List.range (t.length + 1)).filter (fun k =>
      c.stops.any (fun s => k < s.length && s.take k == t.drop (t.length - k)))) 0 with h | h
  · left; exact h
  · right
    simp only [List.mem_filter, List.mem_range, List.any_eq_true, Bool.and_eq_true,
      decide_eq_true_eq, beq_iff_eq] at h
    obtain ⟨h1, s, hs, h2, h3⟩ := h
    exact ⟨by omega, s, hs, h2, h3⟩

/-- feeding `bs` can extend the withheld look-ahead by at most `|bs|` -/
theorem chop_append_le (c : StopCfg) (text bs : List SB) :
    c.chop (text ++ bs) ≤ c.chop text + bs.length := by
  rcases chop_cand_or_zero c (text ++ bs) with h | ⟨hk, s, hs, hlt, heq⟩
  · omega
  · by_cases hle : c.chop (text ++ bs) ≤ bs.length
    · omega
    · -- the candidate reaches into `text`
      have hcand : ChopCand c text (c.chop (text ++ bs) - bs.length) := by
        simp only [List.length_append] at hk
        refine ⟨by omega, s, hs, by omega, ?_⟩
        have hd : (text ++ bs).drop ((text ++ bs).length - c.chop (text ++ bs)) =
            text.drop (text.length - (c.chop (text ++ bs) - bs.length)) ++ bs := by
          simp only [List.length_append]
          rw [List.drop_append_of_le_length (by omega)]
          congr 2
          omega
        rw [hd] at heq
        have := congrArg (List.take (c.chop (text ++ bs) - bs.length)) heq
        rw [List.take_take] at this
        have hmin : min (c.chop (text ++ bs) - bs.length) (c.chop (text ++ bs)) = c.chop (text ++ bs) - bs.length := by omega
        rw [hmin] at this
        rw [this, List.take_left']
        simp only [List.length_drop]
        omega
      have := chop_ge c text _ hcand
      omega

/-- an ordinary text token: not a stop token, non-empty, not special -/
def TextTok (c : StopCfg) (t : Nat) : Prop :=
  c.stopTokens.contains t = false ∧ ∃ b rest, c.tokBytes t = b :: rest ∧ (b == 0xFF) = false

def allBytesOf (c : StopCfg) (ts : List Nat) : List SB := ts.flatMap c.tokBytes

/-- no stop string ends at any non-empty prefix of `w` -/
def NoMatchIn (c : StopCfg) (w : List SB) : Prop :=
  ∀ p q, w = p ++ q → p ≠ [] → c.matchLen p = none

structure RunInv (c : StopCfg) (outs : List (List SB)) (s : StopSt) (all : List SB) : Prop where
  notStopped : s.stopped = false
  conserve : outs.flatten ++ s.pending = all
  text : s.text = all
  noMatch : NoMatchIn c all
  withheld : c.chop all ≤ s.pending.length

theorem commit_text (c : StopCfg) (hne : c.stops.isEmpty = false) (s : StopSt) (t : Nat)
    (hs : s.stopped = false) (ht : TextTok c t) :
    c.commit s t = feedBytes c (c.tokBytes t) s.pending s.text := by
  obtain ⟨h1, b, rest, h2, h3⟩ := ht
  unfold commit
  simp only [hs, Bool.false_eq_true, ↓reduceIte, h1, h2, h3, hne]

theorem run_stopped (c : StopCfg) (s : StopSt) (hs : s.stopped = true) (ts : List Nat) :
    (run c s ts).1.flatten = [] ∧ (run c s ts).2 = s := by
  induction ts with
  | nil => simp [run]
  | cons t ts ih =>
    have hc : commit c s t = ([], s) := by unfold commit; simp [hs]
    simp only [run, hc, List.flatten_cons, List.nil_append]
    exact ih

/-- the stopped outcome: the returned text is the text before the first stop occurrence -/
def StoppedAt (c : StopCfg) (outs : List (List SB)) (s : StopSt) (all : List SB) : Prop :=
  s.stopped = true ∧ ∃ p q k, all = p ++ q ∧ c.matchLen p = some k ∧ k ≤ p.length ∧
    (∀ p' q', p = p' ++ q' → p' ≠ [] → q' ≠ [] → c.matchLen p' = none) ∧
    outs.flatten = p.take (p.length - k)

theorem prefix_cases (a b p q : List SB) (h : a ++ b = p ++ q) :
    (∃ q', a = p ++ q') ∨ (∃ p2, p2 ≠ [] ∧ p = a ++ p2 ∧ b = p2 ++ q) := by
  by_cases hlen : p.length ≤ a.length
  · left
    refine ⟨a.drop p.length, ?_⟩
    have h1 := congrArg (List.take p.length) h
    rw [List.take_append_of_le_length hlen, List.take_left'] at h1
    · have := (List.take_append_drop p.length a).symm
      rw [h1] at this; exact this
    · rfl
  · right
    have hlt : a.length < p.length := by omega
    refine ⟨p.drop a.length, ?_, ?_, ?_⟩
    · intro he
      have := congrArg List.length he
      simp at this
      omega
    · have h1 := congrArg (List.take a.length) h
      rw [List.take_left', List.take_append_of_le_length (by omega)] at h1
      · have := (List.take_append_drop a.length p).symm
        rw [← h1] at this; exact this
      · rfl
    · have h2 := congrArg (List.drop a.length) h
      rw [List.drop_left', List.drop_append_of_le_length (by omega)] at h2
      · exact h2
      · rfl

theorem take_sub_append (a b : List SB) (k : Nat) (hk : k ≤ b.length) :
    (a ++ b).take ((a ++ b).length - k) = a ++ b.take (b.length - k) := by
  rw [List.take_append]
  have h1 : (a ++ b).length - k - a.length = b.length - k := by
    simp only [List.length_append]; omega
  rw [h1, List.take_of_length_le (by simp only [List.length_append]; omega)]

/-- one token from a running state -/
theorem commit_step (c : StopCfg) (hne : c.stops.isEmpty = false) (outs : List (List SB))
    (s : StopSt) (all : List SB) (hinv : RunInv c outs s all) (t : Nat) (htt : TextTok c t) :
    RunInv c (outs ++ [(commit c s t).1]) (commit c s t).2 (all ++ c.tokBytes t) ∨
    StoppedAt c (outs ++ [(commit c s t).1]) (commit c s t).2 (all ++ c.tokBytes t) := by
  obtain ⟨hns, hcons, htext, hnm, hwh⟩ := hinv
  rw [commit_text c hne _ t hns htt]
  have hfb := feedBytes_spec c (c.tokBytes t) s.pending s.text
  simp only at hfb
  rcases hfb with ⟨g1, g2, g3, g4, g5⟩ | ⟨g1, g2, p, q, k, gb, gp, gk, gmin, gout⟩
  · left
    refine ⟨g1, ?_, ?_, ?_, ?_⟩
    · simp only [List.flatten_append, List.flatten_cons, List.flatten_nil, List.append_nil,
        List.append_assoc, g2]
      rw [← List.append_assoc, hcons]
    · rw [g3, htext]
    · intro p q h hp
      rcases prefix_cases all (c.tokBytes t) p q h with ⟨q', hq'⟩ | ⟨p2, hp2, hpa, hb⟩
      · exact hnm p q' hq' hp
      · have := g4 p2 q hb hp2
        rw [htext] at this
        rw [hpa]; exact this
    · have hca := chop_append_le c all (c.tokBytes t)
      rw [htext] at g5
      simp only [List.length_append] at g5
      rw [htext]
      omega
  · right
    have hreach := match_reach c s.text p gp k gk
    rw [htext] at hreach
    have hpl : s.pending.length ≤ all.length := by
      have := congrArg List.length hcons
      simp at this; omega
    refine ⟨g1, all ++ p, q, k, ?_, ?_, ?_, ?_, ?_⟩
    · simp only [gb, List.append_assoc]
    · rw [← htext]; exact gk
    · simp only [List.length_append]; omega
    · intro p' q' h hp' hq'
      rcases prefix_cases all p p' q' h with ⟨q'', hq''⟩ | ⟨p2, hp2, hpa, hb⟩
      · exact hnm p' q'' hq'' hp'
      · have := gmin p2 q' hb hp2 hq'
        rw [htext] at this
        rw [hpa]; exact this
    · simp only [List.flatten_append, List.flatten_cons, List.flatten_nil, List.append_nil, gout]
      have hsplit : all ++ p = outs.flatten ++ (s.pending ++ p) := by
        rw [← List.append_assoc, hcons]
      rw [hsplit]
      have hkb : k ≤ (s.pending ++ p).length := by
        simp only [List.length_append]; omega
      exact (take_sub_append outs.flatten (s.pending ++ p) k hkb).symm

theorem run_from (c : StopCfg) (hne : c.stops.isEmpty = false) (ts : List Nat)
    (hts : ∀ t ∈ ts, TextTok c t) (outs : List (List SB)) (s : StopSt) (all : List SB)
    (hinv : RunInv c outs s all) :
    RunInv c (outs ++ (run c s ts).1) (run c s ts).2 (all ++ allBytesOf c ts) ∨
    StoppedAt c (outs ++ (run c s ts).1) (run c s ts).2 (all ++ allBytesOf c ts) := by
  induction ts generalizing outs s all with
  | nil => left; simpa [run, allBytesOf] using hinv
  | cons t ts ih =>
    have htt := hts t List.mem_cons_self
    have hts' : ∀ x ∈ ts, TextTok c x := fun x hx => hts x (List.mem_cons_of_mem _ hx)
    simp only [run, allBytesOf, List.flatMap_cons]
    rcases commit_step c hne outs s all hinv t htt with h | h
    · have := ih hts' _ _ _ h
      simpa [allBytesOf, List.append_assoc] using this
    · right
      obtain ⟨hst, p, q, k, hall, hk, hkle, hmin, hout⟩ := h
      obtain ⟨hr1, hr2⟩ := run_stopped c _ hst ts
      refine ⟨by rw [hr2]; exact hst, p, q ++ allBytesOf c ts, k, ?_, hk, hkle, hmin, ?_⟩
      · simp only [allBytesOf] at hall ⊢
        rw [← List.append_assoc, ← List.append_assoc, hall, List.append_assoc]
      · rw [← hout]
        simp [hr1]

theorem runInv_init (c : StopCfg) : RunInv c [] init [] := by
  refine ⟨rfl, rfl, rfl, ?_, ?_⟩
  · intro p q h hp
    have : p = [] := by
      have := congrArg List.length h
      simp at this
      exact List.length_eq_zero_iff.mp (by omega)
    exact absurd this hp
  · simp only [init, List.length_nil, Nat.le_zero_eq]
    rcases chop_cand_or_zero c [] with h | ⟨h, _⟩
    · exact h
    · simpa using h

end StopCfg
end LlgVerif
