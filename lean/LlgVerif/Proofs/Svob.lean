/- Helper lemmas about the bit-vector model M1 (`Model/Svob.lean`). -/
import LlgVerif.Model.Svob
namespace LlgVerif
namespace Svob

theorem getElem?_mapIdxAux (f : Nat → Word → Word) (k : Nat) (l : List Word) (i : Nat) :
    (mapIdxAux f k l)[i]? = (l[i]?).map (f (k + i)) := by
  induction l generalizing k i with
  | nil => simp [mapIdxAux]
  | cons w ws ih =>
    cases i with
    | zero => simp [mapIdxAux]
    | succ i =>
      simp only [mapIdxAux, List.getElem?_cons_succ, ih]
      congr 2; omega

theorem length_mapIdxAux (f : Nat → Word → Word) (k : Nat) (l : List Word) :
    (mapIdxAux f k l).length = l.length := by
  induction l generalizing k with
  | nil => rfl
  | cons w ws ih => simp [mapIdxAux, ih]

theorem getElem?_zipW (f : Word → Word → Word) (a b : List Word) (i : Nat) :
    (zipW f a b)[i]? = match a[i]?, b[i]? with
      | some x, some y => some (f x y)
      | some x, none => some x
      | none, _ => none := by
  induction a generalizing b i with
  | nil => cases b <;> simp [zipW]
  | cons x xs ih =>
    cases b with
    | nil => simp [zipW]; cases h : (x :: xs)[i]? <;> simp
    | cons y ys =>
      cases i with
      | zero => simp [zipW]
      | succ i => simp [zipW, ih]

theorem length_zipW (f : Word → Word → Word) (a b : List Word) : (zipW f a b).length = a.length := by
  induction a generalizing b with
  | nil => cases b <;> simp [zipW]
  | cons x xs ih => cases b <;> simp [zipW, ih]

theorem getElem?_zipW3 (f : Word → Word → Word → Word) (a b c : List Word) (i : Nat) :
    (zipW3 f a b c)[i]? = match a[i]?, b[i]?, c[i]? with
      | some x, some y, some z => some (f x y z)
      | some x, _, _ => some x
      | none, _, _ => none := by
  induction a generalizing b c i with
  | nil => cases b <;> cases c <;> simp [zipW3]
  | cons x xs ih =>
    cases b with
    | nil => simp [zipW3]; cases h : (x :: xs)[i]? <;> simp
    | cons y ys =>
      cases c with
      | nil =>
        simp [zipW3]
        cases h : (x :: xs)[i]? <;> cases h2 : (y :: ys)[i]? <;> simp
      | cons z zs =>
        cases i with
        | zero => simp [zipW3]
        | succ i => simp [zipW3, ih]

theorem length_zipW3 (f : Word → Word → Word → Word) (a b c : List Word) :
    (zipW3 f a b c).length = a.length := by
  induction a generalizing b c with
  | nil => cases b <;> cases c <;> simp [zipW3]
  | cons x xs ih => cases b <;> cases c <;> simp [zipW3, ih]

theorem get_eq_false_of_len (v : Svob) (i : Nat) (h : v.data.length ≤ i / 32) : v.get i = false := by
  unfold get wordAt
  rw [List.getElem?_eq_none_iff.mpr h]; simp

theorem mod32_lt (i : Nat) : i % 32 < 32 := Nat.mod_lt _ (by decide)

theorem getLsbD_setBit (w : Word) (b j : Nat) (val : Bool) (hb : b < 32) (hj : j < 32) :
    (setBit w b val).getLsbD j = if j = b then val else w.getLsbD j := by
  unfold setBit
  cases val
  · simp only [Bool.false_eq_true, ↓reduceIte, BitVec.getLsbD_and, BitVec.getLsbD_not,
      BitVec.getLsbD_shiftLeft, BitVec.getLsbD_one]
    by_cases h : j = b
    · subst h; simp [hj]
    · simp only [h, ↓reduceIte]
      by_cases h2 : j < b
      · simp [hj, h2]
      · have : j - b ≠ 0 := by omega
        simp [hj, this]
  · simp only [↓reduceIte, BitVec.getLsbD_or, BitVec.getLsbD_shiftLeft, BitVec.getLsbD_one]
    by_cases h : j = b
    · subst h; simp [hj]
    · simp only [h, ↓reduceIte]
      by_cases h2 : j < b
      · simp [h2]
      · have : j - b ≠ 0 := by omega
        simp [this]

end Svob
end LlgVerif
