/-
Languages of the fraction-digit helpers (C08): digit-string predicates, combinators for
"the language of this regex is the set of digit strings with property P", and the order on
fractions `0.d` given by their digit strings (lexicographic with implicit trailing zeros).
-/
import LlgVerif.Model.FloatRange
import LlgVerif.Proofs.IntRangeMain
namespace LlgVerif
open Rx

def AllDig (d : List Nat) : Prop := ∀ a ∈ d, a ≤ 9
def digB (d : List Nat) : List B := d.map digitB

/-- `0.d ≤ 0.x` -/
def fracLE : List Nat → List Nat → Prop
  | [], _ => True
  | a :: d, [] => a = 0 ∧ fracLE d []
  | a :: d, b :: x => a < b ∨ (a = b ∧ fracLE d x)

/-- `0.d < 0.x` -/
def fracLT : List Nat → List Nat → Prop
  | _, [] => False
  | [], b :: x => 0 < b ∨ fracLT [] x
  | a :: d, b :: x => a < b ∨ (a = b ∧ fracLT d x)

/-- the regex `rx` denotes exactly the digit strings with property `P` -/
def DigLang (rx : Rx) (P : List Nat → Prop) : Prop :=
  ∀ w, lang rx w ↔ ∃ d, AllDig d ∧ w = digB d ∧ P d

theorem allDig_nil : AllDig [] := by intro a h; cases h
theorem allDig_cons {a : Nat} {d : List Nat} : AllDig (a :: d) ↔ a ≤ 9 ∧ AllDig d := by
  simp [AllDig]

theorem bytes_digits (v : List B) (h : ∀ b ∈ v, IsDigit b) : ∃ d, AllDig d ∧ v = digB d := by
  induction v with
  | nil => exact ⟨[], allDig_nil, rfl⟩
  | cons b v ih =>
    obtain ⟨d, hd, hv⟩ := ih (fun c hc => h c (List.mem_cons_of_mem _ hc))
    obtain ⟨k, hk, hb⟩ := h b List.mem_cons_self
    exact ⟨k :: d, allDig_cons.mpr ⟨hk, hd⟩, by simp [digB, hb, hv]⟩

theorem digLang_digStar : DigLang digStar (fun _ => True) := by
  intro w
  unfold digStar
  rw [lang_star_digits]
  constructor
  · intro h
    obtain ⟨d, hd, hw⟩ := bytes_digits w h
    exact ⟨d, hd, hw, trivial⟩
  · rintro ⟨d, hd, hw, _⟩ b hb
    rw [hw] at hb
    simp only [digB, List.mem_map] at hb
    obtain ⟨k, hk, rfl⟩ := hb
    exact ⟨k, hd k hk, rfl⟩

theorem digLang_congr {rx : Rx} {P Q : List Nat → Prop} (h : DigLang rx P)
    (hpq : ∀ d, AllDig d → (P d ↔ Q d)) : DigLang rx Q := by
  intro w
  rw [h w]
  constructor
  · rintro ⟨d, hd, hw, hp⟩; exact ⟨d, hd, hw, (hpq d hd).mp hp⟩
  · rintro ⟨d, hd, hw, hq⟩; exact ⟨d, hd, hw, (hpq d hd).mpr hq⟩

theorem digLang_cons {r : Rx} {P : List Nat → Prop} (lo hi : Nat) (hhi : hi ≤ 9) (h : DigLang r P) :
    DigLang (cat (clsRx lo hi) r) (fun d => ∃ k d', d = k :: d' ∧ lo ≤ k ∧ k ≤ hi ∧ P d') := by
  intro w
  simp only [lang, lang_clsRx lo hi hhi]
  constructor
  · rintro ⟨u, v, hw, ⟨k, h1, h2, hu⟩, hv⟩
    obtain ⟨d', hd', hvd, hp⟩ := (h v).mp hv
    refine ⟨k :: d', allDig_cons.mpr ⟨by omega, hd'⟩, by rw [hw, hu, hvd]; rfl, k, d', rfl, h1, h2, hp⟩
  · rintro ⟨d, hd, hw, k, d', hdd, h1, h2, hp⟩
    subst hdd
    refine ⟨[digitB k], digB d', by rw [hw]; rfl, ⟨k, h1, h2, rfl⟩, (h _).mpr ⟨d', (allDig_cons.mp hd).2, rfl, hp⟩⟩

theorem digLang_alt {r1 r2 : Rx} {P1 P2 : List Nat → Prop} (h1 : DigLang r1 P1) (h2 : DigLang r2 P2) :
    DigLang (alt r1 r2) (fun d => P1 d ∨ P2 d) := by
  intro w
  simp only [lang, h1 w, h2 w]
  constructor
  · rintro (⟨d, hd, hw, hp⟩ | ⟨d, hd, hw, hp⟩)
    · exact ⟨d, hd, hw, Or.inl hp⟩
    · exact ⟨d, hd, hw, Or.inr hp⟩
  · rintro ⟨d, hd, hw, hp | hp⟩
    · exact Or.inl ⟨d, hd, hw, hp⟩
    · exact Or.inr ⟨d, hd, hw, hp⟩

theorem digLang_empty : DigLang Rx.empty (fun _ => False) := by
  intro w; simp [lang]

theorem digLang_eps : DigLang Rx.eps (fun d => d = []) := by
  intro w
  simp only [lang]
  constructor
  · intro h; exact ⟨[], allDig_nil, by rw [h]; rfl, rfl⟩
  · rintro ⟨d, _, hw, hd⟩; rw [hw, hd]; rfl

theorem digLang_opt {r : Rx} {P : List Nat → Prop} (h : DigLang r P) :
    DigLang (optRx r) (fun d => d = [] ∨ P d) := digLang_alt digLang_eps h

/-- `altsRx` of one or two parts (what `mk_or` builds here) -/
theorem digLang_alts1 {r : Rx} {P : List Nat → Prop} (h : DigLang r P) : DigLang (altsRx [r]) P := by
  have := digLang_alt h digLang_empty
  exact digLang_congr this (fun d _ => by simp)

theorem digLang_alts2 {r1 r2 : Rx} {P1 P2 : List Nat → Prop} (h1 : DigLang r1 P1) (h2 : DigLang r2 P2) :
    DigLang (altsRx [r1, r2]) (fun d => P1 d ∨ P2 d) :=
  digLang_alt h1 (digLang_alts1 h2)

/-! ### the fraction order -/

def AllZero (x : List Nat) : Prop := ∀ a ∈ x, a = 0

/-- no trailing zero (what `trim_end_matches('0')` establishes) -/
def NTZ : List Nat → Prop
  | [] => True
  | [a] => a ≠ 0
  | _ :: b :: x => NTZ (b :: x)

theorem fracLE_nil_right (x : List Nat) : fracLE x [] ↔ AllZero x := by
  induction x with
  | nil => simp [fracLE, AllZero]
  | cons a x ih => simp [fracLE, ih, AllZero]

theorem ntz_not_allZero (x : List Nat) (hne : x ≠ []) (h : NTZ x) : ¬ AllZero x := by
  induction x with
  | nil => exact absurd rfl hne
  | cons a x ih =>
    cases x with
    | nil => intro hz; exact h (hz a List.mem_cons_self)
    | cons b x =>
      intro hz
      exact ih (by simp) h (fun c hc => hz c (List.mem_cons_of_mem _ hc))

theorem fracLT_nil_left (d : List Nat) : fracLT [] d ↔ ¬ AllZero d := by
  induction d with
  | nil => simp [fracLT, AllZero]
  | cons b d ih =>
    simp only [fracLT, ih, AllZero, List.mem_cons, forall_eq_or_imp, not_and]
    constructor
    · rintro (h | h) h0
      · omega
      · exact h
    · intro h
      by_cases hb : b = 0
      · exact Or.inr (h hb)
      · exact Or.inl (by omega)

theorem ntz_tail {a : Nat} {x : List Nat} (h : NTZ (a :: x)) : NTZ x := by
  cases x with
  | nil => trivial
  | cons b x => exact h

end LlgVerif

namespace LlgVerif
open Rx

theorem allDig_append {u v : List Nat} : AllDig (u ++ v) ↔ AllDig u ∧ AllDig v := by
  simp only [AllDig, List.mem_append]
  constructor
  · intro h; exact ⟨fun a ha => h a (Or.inl ha), fun a ha => h a (Or.inr ha)⟩
  · rintro ⟨h1, h2⟩ a (ha | ha)
    · exact h1 a ha
    · exact h2 a ha

theorem digLang_cat {r1 r2 : Rx} {P1 P2 : List Nat → Prop} (h1 : DigLang r1 P1) (h2 : DigLang r2 P2) :
    DigLang (cat r1 r2) (fun d => ∃ u v, d = u ++ v ∧ P1 u ∧ P2 v) := by
  intro w
  simp only [lang, h1 _, h2 _]
  constructor
  · rintro ⟨x, y, hw, ⟨d1, hd1, hx, hp1⟩, ⟨d2, hd2, hy, hp2⟩⟩
    exact ⟨d1 ++ d2, allDig_append.mpr ⟨hd1, hd2⟩, by rw [hw, hx, hy]; simp [digB], d1, d2, rfl, hp1, hp2⟩
  · rintro ⟨d, hd, hw, u, v, hdd, hp1, hp2⟩
    subst hdd
    obtain ⟨hu, hv⟩ := allDig_append.mp hd
    exact ⟨digB u, digB v, by rw [hw]; simp [digB], ⟨u, hu, rfl, hp1⟩, ⟨v, hv, rfl, hp2⟩⟩

theorem lang_star_cls (lo hi : Nat) (hhi : hi ≤ 9) (w : List B) :
    lang (star (clsRx lo hi)) w ↔ ∀ b ∈ w, ∃ k, lo ≤ k ∧ k ≤ hi ∧ b = digitB k := by
  simp only [lang]
  constructor
  · rintro ⟨ws, hv, hws⟩ b hb
    rw [hv, List.mem_flatten] at hb
    obtain ⟨u, hu, hbu⟩ := hb
    obtain ⟨k, h1, h2, huc⟩ := (lang_clsRx lo hi hhi u).mp (hws u hu)
    rw [huc] at hbu
    simp only [List.mem_cons, List.not_mem_nil, or_false] at hbu
    exact ⟨k, h1, h2, hbu⟩
  · intro h
    refine ⟨w.map (fun b => [b]), flatten_singletons w, ?_⟩
    intro u hu
    rw [List.mem_map] at hu
    obtain ⟨b, hb, rfl⟩ := hu
    obtain ⟨k, h1, h2, hk⟩ := h b hb
    exact (lang_clsRx lo hi hhi _).mpr ⟨k, h1, h2, by rw [hk]⟩

theorem digLang_zeroStar : DigLang zeroStar AllZero := by
  intro w
  unfold zeroStar
  rw [lang_star_cls 0 0 (by omega)]
  constructor
  · intro h
    have hd : ∀ b ∈ w, IsDigit b := fun b hb => by
      obtain ⟨k, _, h2, hk⟩ := h b hb; exact ⟨k, by omega, hk⟩
    obtain ⟨d, hdd, hw⟩ := bytes_digits w hd
    refine ⟨d, hdd, hw, ?_⟩
    intro a ha
    have : digitB a ∈ w := by rw [hw]; exact List.mem_map.mpr ⟨a, ha, rfl⟩
    obtain ⟨k, _, h2, hk⟩ := h _ this
    have hk0 : k = 0 := by omega
    subst hk0
    have h1 := digitB_toNat a (hdd a ha)
    have h2' := digitB_toNat 0 (by omega)
    rw [hk] at h1
    omega
  · rintro ⟨d, _, hw, hz⟩ b hb
    rw [hw] at hb
    simp only [digB, List.mem_map] at hb
    obtain ⟨a, ha, rfl⟩ := hb
    exact ⟨0, by omega, by omega, by rw [hz a ha]⟩

theorem not_allZero_split (d : List Nat) (hd : AllDig d) :
    ¬ AllZero d ↔ ∃ u v, d = u ++ v ∧ True ∧ ∃ k d', v = k :: d' ∧ 1 ≤ k ∧ k ≤ 9 ∧ True := by
  constructor
  · intro h
    induction d with
    | nil => exact absurd (fun a ha => by cases ha) h
    | cons a d ih =>
      by_cases ha : a = 0
      · have : ¬ AllZero d := by
          intro hz; apply h
          intro c hc
          simp only [List.mem_cons] at hc
          rcases hc with hc | hc
          · rw [hc, ha]
          · exact hz c hc
        obtain ⟨u, v, hdd, _, k, d', hv, h1, h2, _⟩ := ih (allDig_cons.mp hd).2 this
        exact ⟨a :: u, v, by rw [hdd]; rfl, trivial, k, d', hv, h1, h2, trivial⟩
      · exact ⟨[], a :: d, rfl, trivial, a, d, rfl, by omega, (allDig_cons.mp hd).1, trivial⟩
  · rintro ⟨u, v, hdd, _, k, d', hv, h1, _, _⟩ hz
    have : k ∈ d := by rw [hdd, hv]; simp
    have := hz k this
    omega

theorem lexiXTo9_lang (x : List Nat) (incl : Bool) (hx : AllDig x) (hn : NTZ x) :
    DigLang (lexiXTo9 x incl).rx (fun d => if incl then fracLE x d else fracLT x d) := by
  fun_induction lexiXTo9 x incl
  case case1 =>
    exact digLang_congr digLang_digStar (fun d _ => by simp [fracLE])
  case case2 =>
    have h := digLang_cat digLang_digStar (digLang_cons 1 9 (by omega) digLang_digStar)
    refine digLang_congr h (fun d hd => ?_)
    simp only [Bool.false_eq_true, ↓reduceIte, fracLT_nil_left]
    exact (not_allZero_split d hd).symm
  case case3 a =>
    have h := digLang_cons a 9 (by omega) digLang_digStar
    refine digLang_congr h (fun d hd => ?_)
    simp only [↓reduceIte]
    have ha : a ≠ 0 := hn
    cases d with
    | nil => simp [fracLE]; exact ha
    | cons k d' =>
      have hk := (allDig_cons.mp hd).1
      simp only [fracLE, List.cons.injEq, and_true]
      constructor
      · rintro ⟨k', d'', ⟨rfl, rfl⟩, h1, _⟩; omega
      · intro h; exact ⟨k, d', ⟨rfl, rfl⟩, by omega, hk⟩
  case case4 a rest incl hne r first parts ih =>
    have hrest := ih (allDig_cons.mp hx).2 (ntz_tail hn)
    have ha9 := (allDig_cons.mp hx).1
    have h1 := digLang_cons a a (by omega) hrest
    -- the empty string is outside, on both sides
    have hnil : ¬ (if incl = true then fracLE (a :: rest) [] else fracLT (a :: rest) []) := by
      cases incl with
      | false => simp [fracLT]
      | true =>
        simp only [↓reduceIte, fracLE, fracLE_nil_right]
        rintro ⟨_, hz⟩
        have hr : rest ≠ [] := fun h => hne rfl h
        exact ntz_not_allZero rest hr (ntz_tail hn) hz
    by_cases h9 : a < 9
    · have h2 := digLang_cons (a + 1) 9 (by omega) digLang_digStar
      have h := digLang_alts2 h1 h2
      simp only [parts, first, h9, ↓reduceIte, List.map_cons, List.map_nil]
      refine digLang_congr h (fun d hd => ?_)
      cases d with
      | nil =>
        constructor
        · rintro (⟨k, d', h, _⟩ | ⟨k, d', h, _⟩) <;> cases h
        · intro h; exact absurd h hnil
      | cons k d' =>
        have hk := (allDig_cons.mp hd).1
        cases incl with
        | true =>
          simp only [↓reduceIte, fracLE, List.cons.injEq, and_true] at *
          constructor
          · rintro (⟨k', d'', ⟨rfl, rfl⟩, h3, h4, h5⟩ | ⟨k', d'', ⟨rfl, rfl⟩, h3, h4⟩)
            · exact Or.inr ⟨by omega, h5⟩
            · exact Or.inl (by omega)
          · rintro (h | ⟨h, h5⟩)
            · exact Or.inr ⟨k, d', ⟨rfl, rfl⟩, by omega, hk⟩
            · exact Or.inl ⟨k, d', ⟨rfl, rfl⟩, by omega, by omega, h5⟩
        | false =>
          simp only [Bool.false_eq_true, ↓reduceIte, fracLT, List.cons.injEq, and_true] at *
          constructor
          · rintro (⟨k', d'', ⟨rfl, rfl⟩, h3, h4, h5⟩ | ⟨k', d'', ⟨rfl, rfl⟩, h3, h4⟩)
            · exact Or.inr ⟨by omega, h5⟩
            · exact Or.inl (by omega)
          · rintro (h | ⟨h, h5⟩)
            · exact Or.inr ⟨k, d', ⟨rfl, rfl⟩, by omega, hk⟩
            · exact Or.inl ⟨k, d', ⟨rfl, rfl⟩, by omega, by omega, h5⟩
    · have h := digLang_alts1 h1
      simp only [parts, first, h9, ↓reduceIte, List.map_cons, List.map_nil]
      refine digLang_congr h (fun d hd => ?_)
      cases d with
      | nil =>
        constructor
        · rintro ⟨k, d', h, _⟩; cases h
        · intro h; exact absurd h hnil
      | cons k d' =>
        have hk := (allDig_cons.mp hd).1
        cases incl with
        | true =>
          simp only [↓reduceIte, fracLE, List.cons.injEq] at *
          constructor
          · rintro ⟨k', d'', ⟨rfl, rfl⟩, h3, h4, h5⟩
            exact Or.inr ⟨by omega, h5⟩
          · rintro (h | ⟨h, h5⟩)
            · omega
            · exact ⟨k, d', ⟨rfl, rfl⟩, by omega, by omega, h5⟩
        | false =>
          simp only [Bool.false_eq_true, ↓reduceIte, fracLT, List.cons.injEq] at *
          constructor
          · rintro ⟨k', d'', ⟨rfl, rfl⟩, h3, h4, h5⟩
            exact Or.inr ⟨by omega, h5⟩
          · rintro (h | ⟨h, h5⟩)
            · omega
            · exact ⟨k, d', ⟨rfl, rfl⟩, by omega, by omega, h5⟩

end LlgVerif

namespace LlgVerif
open Rx

theorem lexi0ToX_lang (x : List Nat) (incl : Bool) (p : PR) (h : lexi0ToX x incl = .ok p)
    (hx : AllDig x) (hn : NTZ x) :
    DigLang p.rx (fun d => d ≠ [] ∧ (if incl then fracLE d x else fracLT d x)) := by
  fun_induction lexi0ToX x incl generalizing p
  case case1 =>
    injection h with h; subst h
    have h1 := digLang_cons 0 0 (by omega) digLang_zeroStar
    refine digLang_congr h1 (fun d hd => ?_)
    simp only [↓reduceIte, fracLE_nil_right]
    constructor
    · rintro ⟨k, d', rfl, _, hk, hz⟩
      refine ⟨by simp, ?_⟩
      intro c hc
      simp only [List.mem_cons] at hc
      rcases hc with hc | hc
      · omega
      · exact hz c hc
    · rintro ⟨hne, hz⟩
      cases d with
      | nil => exact absurd rfl hne
      | cons k d' =>
        exact ⟨k, d', rfl, by omega, by have := hz k List.mem_cons_self; omega,
          fun c hc => hz c (List.mem_cons_of_mem _ hc)⟩
  case case2 => cases h
  case case3 => cases h
  case case4 a ha =>
    injection h with h; subst h
    have h1 := digLang_cons 0 (a - 1) (by have := hx a List.mem_cons_self; omega) digLang_digStar
    refine digLang_congr h1 (fun d hd => ?_)
    simp only [Bool.false_eq_true, ↓reduceIte]
    cases d with
    | nil => simp
    | cons k d' =>
      simp only [fracLT, List.cons.injEq, and_true, and_false, or_false, ne_eq, reduceCtorEq,
        not_false_eq_true, true_and]
      constructor
      · rintro ⟨k', d'', ⟨rfl, rfl⟩, _, h2⟩; omega
      · intro h; exact ⟨k, d', ⟨rfl, rfl⟩, by omega, by omega⟩
  case case5 => cases h
  case case6 a rest incl hne first f hf parts ih =>
    injection h with h; subst h
    have ha9 := (allDig_cons.mp hx).1
    have hQnil : rest ≠ [] → (if incl = true then fracLE [] rest else fracLT [] rest) := by
      intro hr
      cases incl with
      | true => simp [fracLE]
      | false =>
        simp only [Bool.false_eq_true, ↓reduceIte, fracLT_nil_left]
        exact ntz_not_allZero rest hr (ntz_tail hn)
    -- the first part: the digit `a`, then something at most / below `rest`
    have hfirst : DigLang f.rx (fun d => ∃ k d', d = k :: d' ∧ a ≤ k ∧ k ≤ a ∧
        (if incl = true then fracLE d' rest else fracLT d' rest)) := by
      simp only [first] at hf
      split at hf
      · rename_i hemp
        injection hf with hf; subst hf
        have hr : rest = [] := List.isEmpty_iff.mp hemp
        subst hr
        have hi : incl = true := by
          cases incl with
          | true => rfl
          | false => exact absurd rfl (hne rfl)
        subst hi
        have h1 := digLang_cons a a (by omega) digLang_zeroStar
        refine digLang_congr h1 (fun d _ => ?_)
        simp only [↓reduceIte, fracLE_nil_right]
      · rename_i hemp
        have hr : rest ≠ [] := fun h => hemp (List.isEmpty_iff.mpr h)
        split at hf
        · rename_i r hr0
          injection hf with hf; subst hf
          have hrest := ih r hr0 (allDig_cons.mp hx).2 (ntz_tail hn)
          have h1 := digLang_cons a a (by omega) (digLang_opt hrest)
          refine digLang_congr h1 (fun d _ => ?_)
          constructor
          · rintro ⟨k, d', rfl, h1, h2, hq⟩
            refine ⟨k, d', rfl, h1, h2, ?_⟩
            rcases hq with hq | hq
            · rw [hq]; exact hQnil hr
            · exact hq.2
          · rintro ⟨k, d', rfl, h1, h2, hq⟩
            refine ⟨k, d', rfl, h1, h2, ?_⟩
            by_cases hd' : d' = []
            · exact Or.inl hd'
            · exact Or.inr ⟨hd', hq⟩
        · cases hf
    -- compare with the target, with or without the second part
    have target : ∀ d, AllDig d →
        ((∃ k d', d = k :: d' ∧ a ≤ k ∧ k ≤ a ∧ (if incl = true then fracLE d' rest else fracLT d' rest)) ∨
          (0 < a ∧ ∃ k d', d = k :: d' ∧ 0 ≤ k ∧ k ≤ a - 1 ∧ True) ↔
        d ≠ [] ∧ (if incl = true then fracLE d (a :: rest) else fracLT d (a :: rest))) := by
      intro d hd
      cases d with
      | nil => simp
      | cons k d' =>
        cases incl with
        | true =>
          simp only [↓reduceIte, fracLE, List.cons.injEq, ne_eq, reduceCtorEq, not_false_eq_true, true_and]
          constructor
          · rintro (⟨k', d'', ⟨rfl, rfl⟩, h1, h2, hq⟩ | ⟨h0, k', d'', ⟨rfl, rfl⟩, _, h2, _⟩)
            · exact Or.inr ⟨by omega, hq⟩
            · exact Or.inl (by omega)
          · rintro (h | ⟨h, hq⟩)
            · exact Or.inr ⟨by omega, k, d', ⟨rfl, rfl⟩, by omega, by omega, trivial⟩
            · exact Or.inl ⟨k, d', ⟨rfl, rfl⟩, by omega, by omega, hq⟩
        | false =>
          simp only [Bool.false_eq_true, ↓reduceIte, fracLT, List.cons.injEq, ne_eq, reduceCtorEq,
            not_false_eq_true, true_and]
          constructor
          · rintro (⟨k', d'', ⟨rfl, rfl⟩, h1, h2, hq⟩ | ⟨h0, k', d'', ⟨rfl, rfl⟩, _, h2, _⟩)
            · exact Or.inr ⟨by omega, hq⟩
            · exact Or.inl (by omega)
          · rintro (h | ⟨h, hq⟩)
            · exact Or.inr ⟨by omega, k, d', ⟨rfl, rfl⟩, by omega, by omega, trivial⟩
            · exact Or.inl ⟨k, d', ⟨rfl, rfl⟩, by omega, by omega, hq⟩
    by_cases h0 : a > 0
    · have h2 := digLang_cons 0 (a - 1) (by omega) digLang_digStar
      have hh := digLang_alts2 hfirst h2
      simp only [parts, h0, ↓reduceIte, List.map_cons, List.map_nil]
      refine digLang_congr hh (fun d hd => ?_)
      rw [← target d hd]
      simp [h0]
    · have hh := digLang_alts1 hfirst
      simp only [parts, h0, ↓reduceIte, List.map_cons, List.map_nil]
      refine digLang_congr hh (fun d hd => ?_)
      rw [← target d hd]
      simp [h0]

/-- `lexi_0_to_x` does not fail on a trimmed digit string (non-empty when exclusive) -/
theorem lexi0ToX_total (x : List Nat) (incl : Bool) (hn : NTZ x) (hne : incl = true ∨ x ≠ []) :
    ∃ p, lexi0ToX x incl = .ok p := by
  fun_induction lexi0ToX x incl
  case case1 => exact ⟨_, rfl⟩
  case case2 => rcases hne with h | h <;> simp at h
  case case3 => exact absurd rfl hn
  case case4 => exact ⟨_, rfl⟩
  case case5 a rest incl hne' first e hf ih =>
    exfalso
    simp only [first] at hf
    split at hf
    · cases hf
    · rename_i hemp
      have hr : rest ≠ [] := fun h => hemp (List.isEmpty_iff.mpr h)
      obtain ⟨r, hr0⟩ := ih (ntz_tail hn) (Or.inr hr)
      rw [hr0] at hf
      cases hf
  case case6 => exact ⟨_, rfl⟩

end LlgVerif

namespace LlgVerif
open Rx

/-! ### trailing zeros do not change the value -/

theorem allZero_cons {a : Nat} {x : List Nat} : AllZero (a :: x) ↔ a = 0 ∧ AllZero x := by
  simp [AllZero]

theorem fracLE_zeros_left (z d : List Nat) (hz : AllZero z) : fracLE z d := by
  induction z generalizing d with
  | nil => simp [fracLE]
  | cons a z ih =>
    obtain ⟨ha, hz'⟩ := allZero_cons.mp hz
    subst ha
    cases d with
    | nil => exact ⟨rfl, (fracLE_nil_right z).mpr hz'⟩
    | cons b d =>
      simp only [fracLE]
      by_cases hb : 0 < b
      · exact Or.inl hb
      · exact Or.inr ⟨by omega, ih d hz'⟩

theorem fracLT_zeros_left (z d : List Nat) (hz : AllZero z) : fracLT z d ↔ ¬ AllZero d := by
  induction z generalizing d with
  | nil => exact fracLT_nil_left d
  | cons a z ih =>
    obtain ⟨ha, hz'⟩ := allZero_cons.mp hz
    subst ha
    cases d with
    | nil => simp [fracLT, AllZero]
    | cons b d =>
      simp only [fracLT, ih d hz', allZero_cons]
      constructor
      · rintro (h | ⟨h, h2⟩) ⟨h3, h4⟩
        · omega
        · exact h2 h4
      · intro h
        by_cases hb : b = 0
        · exact Or.inr ⟨hb.symm, fun h4 => h ⟨hb, h4⟩⟩
        · exact Or.inl (by omega)

theorem fracLE_zeros_right (d z : List Nat) (hz : AllZero z) : fracLE d z ↔ AllZero d := by
  induction d generalizing z with
  | nil => simp [fracLE, AllZero]
  | cons a d ih =>
    cases z with
    | nil => exact fracLE_nil_right _
    | cons b z =>
      obtain ⟨hb, hz'⟩ := allZero_cons.mp hz
      subst hb
      simp only [fracLE, ih z hz', allZero_cons]
      constructor
      · rintro (h | h)
        · omega
        · exact h
      · intro h; exact Or.inr h

theorem fracLT_zeros_right (d z : List Nat) (hz : AllZero z) : ¬ fracLT d z := by
  induction z generalizing d with
  | nil => cases d <;> simp [fracLT]
  | cons b z ih =>
    obtain ⟨hb, hz'⟩ := allZero_cons.mp hz
    subst hb
    cases d with
    | nil =>
      simp only [fracLT]
      rintro (h | h)
      · omega
      · exact ih [] hz' h
    | cons a d =>
      simp only [fracLT]
      rintro (h | ⟨_, h⟩)
      · omega
      · exact ih d hz' h

theorem fracLE_append_zeros_left (x z d : List Nat) (hz : AllZero z) : fracLE (x ++ z) d ↔ fracLE x d := by
  induction x generalizing d with
  | nil => simp [fracLE]; exact fracLE_zeros_left z d hz
  | cons a x ih =>
    cases d with
    | nil =>
      rw [fracLE_nil_right, fracLE_nil_right]
      constructor
      · intro h c hc
        exact h c (by simp only [List.cons_append, List.mem_cons, List.mem_append] at hc ⊢
                      rcases hc with hc | hc
                      · exact Or.inl hc
                      · exact Or.inr (Or.inl hc))
      · intro h c hc
        simp only [List.cons_append, List.mem_cons, List.mem_append] at hc
        rcases hc with hc | hc | hc
        · exact h c (by rw [hc]; exact List.mem_cons_self)
        · exact h c (List.mem_cons_of_mem _ hc)
        · exact hz c hc
    | cons b d => simp only [List.cons_append, fracLE, ih d]

theorem fracLT_append_zeros_left (x z d : List Nat) (hz : AllZero z) : fracLT (x ++ z) d ↔ fracLT x d := by
  induction x generalizing d with
  | nil => simp only [List.nil_append]; rw [fracLT_zeros_left z d hz, fracLT_nil_left]
  | cons a x ih =>
    cases d with
    | nil => simp [fracLT]
    | cons b d => simp only [List.cons_append, fracLT, ih d]

theorem fracLE_append_zeros_right (d x z : List Nat) (hz : AllZero z) : fracLE d (x ++ z) ↔ fracLE d x := by
  induction x generalizing d with
  | nil => simp only [List.nil_append]; rw [fracLE_zeros_right d z hz, fracLE_nil_right]
  | cons a x ih =>
    cases d with
    | nil => simp [fracLE]
    | cons b d => simp only [List.cons_append, fracLE, ih d]

theorem fracLT_append_zeros_right (d x z : List Nat) (hz : AllZero z) : fracLT d (x ++ z) ↔ fracLT d x := by
  induction x generalizing d with
  | nil =>
    simp only [List.nil_append]
    constructor
    · intro h; exact absurd h (fracLT_zeros_right d z hz)
    · intro h; cases d <;> simp [fracLT] at h
  | cons a x ih =>
    cases d with
    | nil =>
      simp only [List.cons_append, fracLT, ih []]
    | cons b d => simp only [List.cons_append, fracLT, ih d]

theorem trim_spec (x : List Nat) : ∃ z, AllZero z ∧ x = trimZeros x ++ z ∧ NTZ (trimZeros x) := by
  induction x with
  | nil => exact ⟨[], (by intro a h; cases h), rfl, trivial⟩
  | cons a x ih =>
    obtain ⟨z, hz, hx, hn⟩ := ih
    simp only [trimZeros]
    cases ht : trimZeros x with
    | nil =>
      rw [ht] at hx hn
      have hxz : x = z := by simpa using hx
      by_cases ha : a = 0
      · simp only [ha, ↓reduceIte]
        exact ⟨0 :: z, allZero_cons.mpr ⟨rfl, hz⟩, by rw [hxz]; rfl, trivial⟩
      · simp only [ha, ↓reduceIte]
        exact ⟨z, hz, by rw [hxz]; rfl, ha⟩
    | cons t ts =>
      rw [ht] at hx hn
      exact ⟨z, hz, by rw [hx]; rfl, hn⟩

theorem trim_isEmpty (x : List Nat) : (trimZeros x).isEmpty = true ↔ AllZero x := by
  obtain ⟨z, hz, hx, hn⟩ := trim_spec x
  constructor
  · intro h
    rw [List.isEmpty_iff] at h
    rw [h] at hx
    rw [hx]; exact hz
  · intro h
    rw [List.isEmpty_iff]
    cases ht : trimZeros x with
    | nil => rfl
    | cons t ts =>
      exfalso
      rw [ht] at hn hx
      apply ntz_not_allZero (t :: ts) (by simp) hn
      intro c hc
      exact h c (by rw [hx]; exact List.mem_append_left _ hc)

theorem allDig_trim (x : List Nat) (h : AllDig x) : AllDig (trimZeros x) := by
  obtain ⟨z, _, hx, _⟩ := trim_spec x
  intro a ha
  exact h a (by rw [hx]; exact List.mem_append_left _ ha)

theorem fracLE_trim_left (x d : List Nat) : fracLE (trimZeros x) d ↔ fracLE x d := by
  obtain ⟨z, hz, hx, _⟩ := trim_spec x
  conv => rhs; rw [hx]
  exact (fracLE_append_zeros_left _ z d hz).symm
theorem fracLT_trim_left (x d : List Nat) : fracLT (trimZeros x) d ↔ fracLT x d := by
  obtain ⟨z, hz, hx, _⟩ := trim_spec x
  conv => rhs; rw [hx]
  exact (fracLT_append_zeros_left _ z d hz).symm
theorem fracLE_trim_right (d x : List Nat) : fracLE d (trimZeros x) ↔ fracLE d x := by
  obtain ⟨z, hz, hx, _⟩ := trim_spec x
  conv => rhs; rw [hx]
  exact (fracLE_append_zeros_right d _ z hz).symm
theorem fracLT_trim_right (d x : List Nat) : fracLT d (trimZeros x) ↔ fracLT d x := by
  obtain ⟨z, hz, hx, _⟩ := trim_spec x
  conv => rhs; rw [hx]
  exact (fracLT_append_zeros_right d _ z hz).symm

theorem ntz_trim (x : List Nat) : NTZ (trimZeros x) := by
  obtain ⟨_, _, _, hn⟩ := trim_spec x; exact hn

end LlgVerif

namespace LlgVerif
open Rx

def LowerB (li : Bool) (ld d : List Nat) : Prop := if li then fracLE ld d else fracLT ld d
def UpperB (ri : Bool) (d rd : List Nat) : Prop := if ri then fracLE d rd else fracLT d rd

theorem bounds_same_head (li ri : Bool) (r0 k : Nat) (lt rt d' : List Nat) :
    LowerB li (r0 :: lt) (k :: d') ∧ UpperB ri (k :: d') (r0 :: rt) ↔
      k = r0 ∧ LowerB li lt d' ∧ UpperB ri d' rt := by
  cases li <;> cases ri <;> simp only [LowerB, UpperB, fracLE, fracLT, Bool.false_eq_true, ↓reduceIte] <;>
  · constructor
    · rintro ⟨h1 | ⟨h1, a⟩, h2 | ⟨h2, b⟩⟩ <;> first | omega | exact ⟨h2, a, b⟩
    · rintro ⟨h, a, b⟩; exact ⟨Or.inr ⟨h.symm, a⟩, Or.inr ⟨h, b⟩⟩

theorem bounds_diff_head (li ri : Bool) (l0 r0 k : Nat) (hlt : l0 < r0) (lt rt d' : List Nat) :
    LowerB li (l0 :: lt) (k :: d') ∧ UpperB ri (k :: d') (r0 :: rt) ↔
      (k = l0 ∧ LowerB li lt d') ∨ (l0 < k ∧ k < r0) ∨ (k = r0 ∧ UpperB ri d' rt) := by
  cases li <;> cases ri <;> simp only [LowerB, UpperB, fracLE, fracLT, Bool.false_eq_true, ↓reduceIte] <;>
  · constructor
    · rintro ⟨h1 | ⟨h1, a⟩, h2 | ⟨h2, b⟩⟩
      · exact Or.inr (Or.inl ⟨h1, h2⟩)
      · exact Or.inr (Or.inr ⟨h2, b⟩)
      · exact Or.inl ⟨h1.symm, a⟩
      · omega
    · rintro (⟨h, a⟩ | ⟨h1, h2⟩ | ⟨h, b⟩)
      · exact ⟨Or.inr ⟨h.symm, a⟩, Or.inl (by omega)⟩
      · exact ⟨Or.inl h1, Or.inl h2⟩
      · exact ⟨Or.inl (by omega), Or.inr ⟨h, b⟩⟩

theorem lang_altsRx_append (a b : List Rx) (w : List B) :
    lang (altsRx (a ++ b)) w ↔ lang (altsRx a) w ∨ lang (altsRx b) w := by
  simp only [lang_altsRx, List.mem_append]
  constructor
  · rintro ⟨p, hp | hp, h⟩
    · exact Or.inl ⟨p, hp, h⟩
    · exact Or.inr ⟨p, hp, h⟩
  · rintro (⟨p, hp, h⟩ | ⟨p, hp, h⟩)
    · exact ⟨p, Or.inl hp, h⟩
    · exact ⟨p, Or.inr hp, h⟩

theorem digLang_alts_append {a b : List Rx} {P Q : List Nat → Prop} (ha : DigLang (altsRx a) P)
    (hb : DigLang (altsRx b) Q) : DigLang (altsRx (a ++ b)) (fun d => P d ∨ Q d) := by
  intro w
  rw [lang_altsRx_append, ha w, hb w]
  constructor
  · rintro (⟨d, hd, hw, hp⟩ | ⟨d, hd, hw, hp⟩)
    · exact ⟨d, hd, hw, Or.inl hp⟩
    · exact ⟨d, hd, hw, Or.inr hp⟩
  · rintro ⟨d, hd, hw, hp | hp⟩
    · exact Or.inl ⟨d, hd, hw, hp⟩
    · exact Or.inr ⟨d, hd, hw, hp⟩

theorem digLang_alts_nil : DigLang (altsRx []) (fun _ => False) := digLang_empty

theorem allZero_eq_of_length {a b : List Nat} (ha : AllZero a) (hb : AllZero b) (hl : a.length = b.length) :
    a = b := by
  induction a generalizing b with
  | nil => cases b with
    | nil => rfl
    | cons _ _ => simp at hl
  | cons x a ih =>
    cases b with
    | nil => simp at hl
    | cons y b =>
      obtain ⟨hx, ha'⟩ := allZero_cons.mp ha
      obtain ⟨hy, hb'⟩ := allZero_cons.mp hb
      rw [hx, hy, ih ha' hb' (by simpa using hl)]

/-- **`lexi_range`.**  For different, equally long digit strings the pattern denotes exactly the
non-empty digit strings `d` with `0.ld ≤ 0.d ≤ 0.rd` (strict where the flag is off). -/
theorem lexiRange_lang (ld rd : List Nat) (li ri : Bool) (p : PR) (h : lexiRange ld rd li ri = .ok p)
    (hne : ld ≠ rd) (hl : AllDig ld) (hr : AllDig rd) :
    DigLang p.rx (fun d => d ≠ [] ∧ LowerB li ld d ∧ UpperB ri d rd) := by
  fun_induction lexiRange ld rd li ri generalizing p
  case case1 => cases h
  case case2 => exact absurd rfl hne
  case case3 => cases h
  case case4 => cases h
  case case5 li ri lt r0 rt f hf hopt hlen hneq ih =>
    injection h with h; subst h
    have hne' : lt ≠ rt := fun e => hne (by rw [e])
    have hrest := ih f hf hne' (allDig_cons.mp hl).2 (allDig_cons.mp hr).2
    have h1 := digLang_cons r0 r0 (by have := (allDig_cons.mp hl).1; omega) (digLang_opt hrest)
    refine digLang_congr h1 (fun d hd => ?_)
    simp only [Bool.and_eq_true] at hopt
    obtain ⟨hli, hz⟩ := hopt
    have hz' : AllZero lt := (trim_isEmpty lt).mp hz
    have hlen' : lt.length = rt.length := by simpa using hlen
    -- the spelling that stops after the common digit is inside the bounds
    have hnil : LowerB li lt [] ∧ UpperB ri [] rt := by
      subst hli
      refine ⟨by simp only [LowerB, ↓reduceIte]; exact (fracLE_nil_right lt).mpr hz', ?_⟩
      cases ri with
      | true => simp [UpperB, fracLE]
      | false =>
        simp only [UpperB, Bool.false_eq_true, ↓reduceIte, fracLT_nil_left]
        intro hzr
        exact hne' (allZero_eq_of_length hz' hzr hlen')
    cases d with
    | nil => simp
    | cons k d' =>
      simp only [ne_eq, reduceCtorEq, not_false_eq_true, true_and, List.cons.injEq]
      rw [bounds_same_head]
      constructor
      · rintro ⟨k', d'', ⟨rfl, rfl⟩, h1, h2, hq⟩
        refine ⟨by omega, ?_⟩
        rcases hq with hq | hq
        · rw [hq]; exact hnil
        · exact hq.2
      · rintro ⟨hk, hq⟩
        refine ⟨k, d', ⟨rfl, rfl⟩, by omega, by omega, ?_⟩
        by_cases hd' : d' = []
        · exact Or.inl hd'
        · exact Or.inr ⟨hd', hq⟩
  case case6 li ri lt r0 rt f hf hopt hlen hneq ih =>
    injection h with h; subst h
    have hne' : lt ≠ rt := fun e => hne (by rw [e])
    have hrest := ih f hf hne' (allDig_cons.mp hl).2 (allDig_cons.mp hr).2
    have h1 := digLang_cons r0 r0 (by have := (allDig_cons.mp hl).1; omega) hrest
    refine digLang_congr h1 (fun d hd => ?_)
    -- stopping after the common digit is below the lower bound here
    have hnil : ¬ LowerB li lt [] := by
      intro hlow
      apply hopt
      cases li with
      | false => simp [LowerB, fracLT] at hlow
      | true =>
        simp only [LowerB, ↓reduceIte, fracLE_nil_right] at hlow
        simp [(trim_isEmpty lt).mpr hlow]
    cases d with
    | nil => simp
    | cons k d' =>
      simp only [ne_eq, reduceCtorEq, not_false_eq_true, true_and, List.cons.injEq]
      rw [bounds_same_head]
      constructor
      · rintro ⟨k', d'', ⟨rfl, rfl⟩, h1, h2, hq⟩
        exact ⟨by omega, hq.2⟩
      · rintro ⟨hk, hq⟩
        refine ⟨k, d', ⟨rfl, rfl⟩, by omega, by omega, ?_, hq⟩
        intro hd'; rw [hd'] at hq; exact hnil hq.1
  case case7 => cases h
  case case8 => cases h
  case case9 li ri l0 lt r0 rt hne0 hge lo p1 mid rdRest hi0 hi hhi parts hlen hneq =>
    injection h with h; subst h
    have hlt : l0 < r0 := by omega
    have hl0 := (allDig_cons.mp hl).1
    have hr0 := (allDig_cons.mp hr).1
    -- first part: the digit l0, then something at or above the rest of ld
    have h1 : DigLang p1.rx (fun d => ∃ k d', d = k :: d' ∧ l0 ≤ k ∧ k ≤ l0 ∧ LowerB li lt d') := by
      have hlo := lexiXTo9_lang (trimZeros lt) li (allDig_trim lt (allDig_cons.mp hl).2) (ntz_trim lt)
      have := digLang_cons l0 l0 (by omega) hlo
      refine digLang_congr this (fun d _ => ?_)
      cases li <;> simp only [LowerB, Bool.false_eq_true, ↓reduceIte, fracLE_trim_left, fracLT_trim_left]
    -- middle digits
    have h2 : DigLang (altsRx (mid.map (·.rx))) (fun d => ∃ k d', d = k :: d' ∧ l0 < k ∧ k < r0) := by
      simp only [mid]
      split
      · rename_i hm
        have := digLang_alts1 (digLang_cons (l0 + 1) (r0 - 1) (by omega) digLang_digStar)
        simp only [List.map_cons, List.map_nil]
        refine digLang_congr this (fun d _ => ?_)
        constructor
        · rintro ⟨k, d', rfl, h1, h2, _⟩; exact ⟨k, d', rfl, by omega, by omega⟩
        · rintro ⟨k, d', rfl, h1, h2⟩; exact ⟨k, d', rfl, by omega, by omega, trivial⟩
      · rename_i hm
        refine digLang_congr digLang_alts_nil (fun d _ => ?_)
        constructor
        · intro h; cases h
        · rintro ⟨k, d', rfl, h1, h2⟩; omega
    -- last part: the digit r0, then something at or below the rest of rd
    have h3 : DigLang (altsRx (hi.map (·.rx))) (fun d => ∃ k d', d = k :: d' ∧ r0 ≤ k ∧ k ≤ r0 ∧ UpperB ri d' rt) := by
      simp only [hi0] at hhi
      split at hhi
      · rename_i hnonempty
        have hre : trimZeros rt ≠ [] := by
          intro e; simp [rdRest, e] at hnonempty
        split at hhi
        · rename_i r hr0'
          injection hhi with hhi; subst hhi
          have hrr := lexi0ToX_lang (trimZeros rt) ri r hr0' (allDig_trim rt (allDig_cons.mp hr).2) (ntz_trim rt)
          have := digLang_alts1 (digLang_cons r0 r0 (by omega) (digLang_opt hrr))
          simp only [List.map_cons, List.map_nil]
          refine digLang_congr this (fun d _ => ?_)
          have hnil : UpperB ri [] rt := by
            cases ri with
            | true => simp [UpperB, fracLE]
            | false =>
              simp only [UpperB, Bool.false_eq_true, ↓reduceIte]
              rw [← fracLT_trim_right, fracLT_nil_left]
              exact ntz_not_allZero _ hre (ntz_trim rt)
          have hup : ∀ d', (if ri = true then fracLE d' (trimZeros rt) else fracLT d' (trimZeros rt)) ↔ UpperB ri d' rt := by
            intro d'
            cases ri <;> simp only [UpperB, Bool.false_eq_true, ↓reduceIte, fracLE_trim_right, fracLT_trim_right]
          constructor
          · rintro ⟨k, d', rfl, h1, h2, hq⟩
            refine ⟨k, d', rfl, h1, h2, ?_⟩
            rcases hq with hq | hq
            · rw [hq]; exact hnil
            · exact (hup d').mp hq.2
          · rintro ⟨k, d', rfl, h1, h2, hq⟩
            refine ⟨k, d', rfl, h1, h2, ?_⟩
            by_cases hd' : d' = []
            · exact Or.inl hd'
            · exact Or.inr ⟨hd', (hup d').mpr hq⟩
        · cases hhi
      · rename_i hempty
        have hz : AllZero rt := by
          apply (trim_isEmpty rt).mp
          simpa [rdRest] using hempty
        split at hhi
        · rename_i hri
          injection hhi with hhi; subst hhi
          have := digLang_alts1 (digLang_cons r0 r0 (by omega) digLang_zeroStar)
          simp only [List.map_cons, List.map_nil]
          refine digLang_congr this (fun d _ => ?_)
          subst hri
          simp only [UpperB, ↓reduceIte, fracLE_zeros_right _ rt hz]
        · rename_i hri
          injection hhi with hhi; subst hhi
          simp only [List.map_nil]
          refine digLang_congr digLang_alts_nil (fun d _ => ?_)
          have hri' : ri = false := by simpa using hri
          subst hri'
          constructor
          · intro h; cases h
          · rintro ⟨k, d', rfl, _, _, hq⟩
            simp only [UpperB, Bool.false_eq_true, ↓reduceIte] at hq
            exact fracLT_zeros_right d' rt hz hq
    have hall := digLang_alts_append (digLang_alts1 h1) (digLang_alts_append h2 h3)
    simp only [parts, List.map_cons, List.map_append]
    have e : p1.rx :: (mid.map (·.rx) ++ hi.map (·.rx)) = [p1.rx] ++ (mid.map (·.rx) ++ hi.map (·.rx)) := rfl
    rw [e]
    refine digLang_congr hall (fun d hd => ?_)
    cases d with
    | nil =>
      constructor
      · rintro (⟨k, d', h, _⟩ | ⟨k, d', h, _⟩ | ⟨k, d', h, _⟩) <;> cases h
      · rintro ⟨h, _⟩; exact absurd rfl h
    | cons k d' =>
      simp only [ne_eq, reduceCtorEq, not_false_eq_true, true_and, List.cons.injEq]
      rw [bounds_diff_head li ri l0 r0 k hlt]
      constructor
      · rintro (⟨k', d'', ⟨rfl, rfl⟩, h1, h2, hq⟩ | ⟨k', d'', ⟨rfl, rfl⟩, h1, h2⟩ | ⟨k', d'', ⟨rfl, rfl⟩, h1, h2, hq⟩)
        · exact Or.inl ⟨by omega, hq⟩
        · exact Or.inr (Or.inl ⟨h1, h2⟩)
        · exact Or.inr (Or.inr ⟨by omega, hq⟩)
      · rintro (⟨hk, hq⟩ | ⟨h1, h2⟩ | ⟨hk, hq⟩)
        · exact Or.inl ⟨k, d', ⟨rfl, rfl⟩, by omega, by omega, hq⟩
        · exact Or.inr (Or.inl ⟨k, d', ⟨rfl, rfl⟩, h1, h2⟩)
        · exact Or.inr (Or.inr ⟨k, d', ⟨rfl, rfl⟩, by omega, by omega, hq⟩)
  case case10 ld rd li ri hx =>
    cases h

end LlgVerif

namespace LlgVerif

/-- `0.d × 10^n` as a natural number, for `n ≥ d.length` -/
def fracScaled : List Nat → Nat → Nat
  | [], _ => 0
  | _ :: _, 0 => 0
  | a :: d, n + 1 => a * 10 ^ n + fracScaled d n

theorem fracScaled_lt (d : List Nat) (n : Nat) (hd : AllDig d) (hn : d.length ≤ n) :
    fracScaled d n < 10 ^ n := by
  induction d generalizing n with
  | nil => simp [fracScaled]; exact Nat.pow_pos (by omega)
  | cons a d ih =>
    cases n with
    | zero => simp at hn
    | succ n =>
      have := ih n (allDig_cons.mp hd).2 (by simpa using hn)
      have ha := (allDig_cons.mp hd).1
      simp only [fracScaled, Nat.pow_succ]
      have : a * 10 ^ n ≤ 9 * 10 ^ n := Nat.mul_le_mul_right _ ha
      omega

theorem fracScaled_zero_iff (d : List Nat) (n : Nat) (hn : d.length ≤ n) :
    fracScaled d n = 0 ↔ AllZero d := by
  induction d generalizing n with
  | nil => simp [fracScaled, AllZero]
  | cons a d ih =>
    cases n with
    | zero => simp at hn
    | succ n =>
      simp only [fracScaled, allZero_cons]
      have hp : 0 < 10 ^ n := Nat.pow_pos (by omega)
      rw [Nat.add_eq_zero_iff, ih n (by simpa using hn)]
      constructor
      · rintro ⟨h1, h2⟩
        refine ⟨?_, h2⟩
        rcases Nat.mul_eq_zero.mp h1 with h | h
        · exact h
        · omega
      · rintro ⟨h1, h2⟩; exact ⟨by rw [h1]; simp, h2⟩

/-- the order `fracLE` is the numeric order of the fractions `0.d` -/
theorem fracLE_iff_scaled (d x : List Nat) (n : Nat) (hd : AllDig d) (hx : AllDig x)
    (hdn : d.length ≤ n) (hxn : x.length ≤ n) :
    fracLE d x ↔ fracScaled d n ≤ fracScaled x n := by
  induction d generalizing x n with
  | nil => simp [fracLE, fracScaled]
  | cons a d ih =>
    cases n with
    | zero => simp at hdn
    | succ n =>
      have had := allDig_cons.mp hd
      cases x with
      | nil =>
        rw [fracLE_nil_right]
        simp only [fracScaled, Nat.le_zero_eq]
        have := fracScaled_zero_iff (a :: d) (n + 1) hdn
        simp only [fracScaled] at this
        exact this.symm
      | cons b x =>
        have hbx := allDig_cons.mp hx
        have h1 := fracScaled_lt d n had.2 (by simpa using hdn)
        have h2 := fracScaled_lt x n hbx.2 (by simpa using hxn)
        simp only [fracLE, fracScaled, ih x n had.2 hbx.2 (by simpa using hdn) (by simpa using hxn)]
        constructor
        · rintro (h | ⟨h, h3⟩)
          · have : (a + 1) * 10 ^ n ≤ b * 10 ^ n := Nat.mul_le_mul_right _ h
            rw [Nat.add_mul] at this
            omega
          · subst h; omega
        · intro h
          by_cases hab : a < b
          · exact Or.inl hab
          · by_cases hba : b < a
            · exfalso
              have : (b + 1) * 10 ^ n ≤ a * 10 ^ n := Nat.mul_le_mul_right _ hba
              rw [Nat.add_mul] at this
              omega
            · have : a = b := by omega
              subst this
              exact Or.inr ⟨rfl, by omega⟩

theorem fracLT_iff_scaled (d x : List Nat) (n : Nat) (hd : AllDig d) (hx : AllDig x)
    (hdn : d.length ≤ n) (hxn : x.length ≤ n) :
    fracLT d x ↔ fracScaled d n < fracScaled x n := by
  induction x generalizing d n with
  | nil => cases d <;> simp [fracLT, fracScaled]
  | cons b x ih =>
    cases n with
    | zero => simp at hxn
    | succ n =>
      have hbx := allDig_cons.mp hx
      have h2 := fracScaled_lt x n hbx.2 (by simpa using hxn)
      cases d with
      | nil =>
        have := ih [] n allDig_nil hbx.2 (by simp) (by simpa using hxn)
        simp only [fracLT, fracScaled, this]
        have hp : 0 < 10 ^ n := Nat.pow_pos (by omega)
        constructor
        · rintro (h | h)
          · have : 1 * 10 ^ n ≤ b * 10 ^ n := Nat.mul_le_mul_right _ h
            omega
          · omega
        · intro h
          by_cases hb : 0 < b
          · exact Or.inl hb
          · have : b = 0 := by omega
            subst this
            simp at h
            exact Or.inr h
      | cons a d =>
        have had := allDig_cons.mp hd
        have h1 := fracScaled_lt d n had.2 (by simpa using hdn)
        simp only [fracLT, fracScaled, ih d n had.2 hbx.2 (by simpa using hdn) (by simpa using hxn)]
        constructor
        · rintro (h | ⟨h, h3⟩)
          · have : (a + 1) * 10 ^ n ≤ b * 10 ^ n := Nat.mul_le_mul_right _ h
            rw [Nat.add_mul] at this
            omega
          · subst h; omega
        · intro h
          by_cases hab : a < b
          · exact Or.inl hab
          · by_cases hba : b < a
            · exfalso
              have : (b + 1) * 10 ^ n ≤ a * 10 ^ n := Nat.mul_le_mul_right _ hba
              rw [Nat.add_mul] at this
              omega
            · have : a = b := by omega
              subst this
              exact Or.inr ⟨rfl, by omega⟩

end LlgVerif
