/-
Completeness of the chart recogniser at a closed chart.
-/
import LlgVerif.Proofs.CfgChart
namespace LlgVerif
namespace Cfg
set_option linter.unusedSectionVars false

variable {N : Type} [DecidableEq N] [Hashable N]

theorem mem_suffixes {α : Type} (l w : List α) : l ∈ suffixes w ↔ l <:+ w := by
  induction w with
  | nil => simp [suffixes]
  | cons a w ih =>
    simp only [suffixes, List.mem_cons, ih, List.suffix_cons_iff]

theorem mem_prefixes {α : Type} (l w : List α) : l ∈ prefixes w ↔ l <+: w := by
  induction w generalizing l with
  | nil => simp [prefixes]
  | cons a w ih =>
    simp only [prefixes, List.mem_cons, List.mem_map]
    constructor
    · rintro (h | ⟨m, hm, rfl⟩)
      · subst h; exact List.nil_prefix
      · exact List.cons_prefix_cons.mpr ⟨rfl, (ih m).mp hm⟩
    · intro h
      cases l with
      | nil => exact Or.inl rfl
      | cons b m =>
        obtain ⟨rfl, hm⟩ := List.cons_prefix_cons.mp h
        exact Or.inr ⟨m, (ih m).mpr hm, rfl⟩

theorem mem_infixes {α : Type} (l w : List α) : l ∈ infixes w ↔ l <:+: w := by
  simp only [infixes, List.mem_flatMap, mem_suffixes, mem_prefixes]
  constructor
  · rintro ⟨s, hs, hl⟩
    exact List.IsInfix.trans hl.isInfix hs.isInfix
  · rintro ⟨p, q, h⟩
    refine ⟨l ++ q, ⟨p, by rw [← h]; simp⟩, List.prefix_append l q⟩

theorem forms_tail (G : Gram N) (start : List (List (Sym N))) (s : Sym N) (α : List (Sym N))
    (h : s :: α ∈ forms G start) : α ∈ forms G start := by
  simp only [forms, List.mem_append, List.mem_flatMap, mem_suffixes] at h ⊢
  rcases h with ⟨r, hr, h⟩ | ⟨r, hr, h⟩
  · exact Or.inl ⟨r, hr, List.IsSuffix.trans (List.suffix_cons s α) h⟩
  · exact Or.inr ⟨r, hr, List.IsSuffix.trans (List.suffix_cons s α) h⟩

theorem forms_rhs (G : Gram N) (start : List (List (Sym N))) (a : N) (β : List (Sym N))
    (h : (a, β) ∈ G) : β ∈ forms G start := by
  simp only [forms, List.mem_append, List.mem_flatMap, mem_suffixes]
  exact Or.inr ⟨(a, β), h, List.suffix_refl β⟩

theorem forms_start (G : Gram N) (start : List (List (Sym N))) (α : List (Sym N))
    (h : α ∈ start) : α ∈ forms G start := by
  simp only [forms, List.mem_append, List.mem_flatMap, mem_suffixes]
  exact Or.inl ⟨α, h, List.suffix_refl α⟩

theorem mem_univ (G : Gram N) (start : List (List (Sym N))) (w : List B) (α : List (Sym N)) (x : List B) :
    (α, x) ∈ univ G start w ↔ α ∈ forms G start ∧ x <:+: w := by
  simp only [univ, List.mem_flatMap, List.mem_map, Prod.mk.injEq, ← mem_infixes, List.mem_eraseDups]
  constructor
  · rintro ⟨β, hβ, y, hy, rfl, rfl⟩; exact ⟨hβ, hy⟩
  · rintro ⟨h1, h2⟩; exact ⟨α, h1, x, h2, rfl, rfl⟩

theorem closed_spec (G : Gram N) (U : List (Fact N)) (c : Chart N) (h : closed G U c = true)
    (f : Fact N) (hf : f ∈ U) (hi : infer G c f = true) : c.contains f = true := by
  simp only [closed, List.all_eq_true, Bool.or_eq_true, Bool.not_eq_eq_eq_not, Bool.not_true] at h
  rcases h f hf with h | h
  · rw [hi] at h; cases h
  · exact h

theorem chart_complete_aux (G : Gram N) (start : List (List (Sym N))) (w : List B) (c : Chart N)
    (hcl : closed G (univ G start w) c = true) (α : List (Sym N)) (x : List B) (hd : DL G α x) :
    α ∈ forms G start → x <:+: w → c.contains (α, x) = true := by
  induction hd with
  | nil =>
    intro hα hx
    exact closed_spec G _ c hcl _ ((mem_univ G start w _ _).mpr ⟨hα, hx⟩) (by simp [infer])
  | @t lo hi b α x' h1 h2 _ ih =>
    intro hα hx
    have hx' : x' <:+: w := List.IsInfix.trans (List.suffix_cons b x').isInfix hx
    have := ih (forms_tail G start _ _ hα) hx'
    exact closed_spec G _ c hcl _ ((mem_univ G start w _ _).mpr ⟨hα, hx⟩)
      (by simp [infer, h1, h2, this])
  | @nt a β α u v hr _ _ ih1 ih2 =>
    intro hα hx
    have hu : u <:+: w := List.IsInfix.trans (List.prefix_append u v).isInfix hx
    have hv : v <:+: w := List.IsInfix.trans (List.suffix_append u v).isInfix hx
    have h1 := ih1 (forms_rhs G start a β hr) hu
    have h2 := ih2 (forms_tail G start _ _ hα) hv
    apply closed_spec G _ c hcl _ ((mem_univ G start w _ _).mpr ⟨hα, hx⟩)
    simp only [infer, List.any_eq_true, Bool.and_eq_true, decide_eq_true_eq]
    exact ⟨(u, v), mem_splits u v, h2, (a, β), hr, rfl, h1⟩

/-- **S4 recogniser.**  When `chart?` returns a chart for `w`, membership in it decides derivability
for every form of the universe and every infix of `w`. -/
theorem chart_correct (G : Gram N) (start : List (List (Sym N))) (w : List B) (fuel : Nat) (c : Chart N)
    (h : chart? G start w fuel = some c) (α : List (Sym N)) (x : List B)
    (hα : α ∈ forms G start) (hx : x <:+: w) :
    c.contains (α, x) = true ↔ DL G α x := by
  constructor
  · intro hc; exact chart_sound G start w fuel c h (α, x) hc
  · intro hd
    unfold chart? at h
    simp only at h
    split at h
    · rename_i hcl
      injection h with h; subst h
      exact chart_complete_aux G start w _ hcl α x hd hα hx
    · cases h

end Cfg
end LlgVerif
