/-
The `multipleOf` hypothesis of `intersect_good` discharged for the code's checked least common
multiple: a number is a multiple of `checkedLcm a b` exactly when it is a multiple of both.
-/
import LlgVerif.Proofs.SchemaMain
import LlgVerif.Props.C20
namespace LlgVerif
namespace Sch
open Js

theorem p10_ne (k : Nat) : ((10 : Int) ^ k) ≠ 0 := Int.ne_of_gt (pow10_pos k)

/-- the scaled instance: `x · 10^(t + E)` with `t = (-x.exp).toNat` -/
def scaledY (x : Num) (E : Nat) : Int :=
  x.signed * (10 : Int) ^ (x.exp + ((-x.exp).toNat : Int)).toNat * (10 : Int) ^ E

/-- divisibility at the common scale `E ≥ m.exp` -/
theorem isMultDec_at (m : Dec) (x : Num) (E : Nat) (hE : m.exp ≤ E) :
    isMultDec m x = true ↔
      ((m.coef * 10 ^ (E - m.exp) * 10 ^ (-x.exp).toNat : Nat) : Int) ∣ scaledY x E := by
  unfold isMultDec scaledY
  simp only [decide_eq_true_eq]
  rw [← Int.dvd_iff_emod_eq_zero]
  have hE' : E = m.exp + (E - m.exp) := by omega
  have e1 : (10 : Int) ^ E = (10 : Int) ^ m.exp * (10 : Int) ^ (E - m.exp) := by
    conv => lhs; rw [hE']
    exact Int.pow_add _ _ _
  rw [e1]
  have e2 : ((m.coef * 10 ^ (E - m.exp) * 10 ^ (-x.exp).toNat : Nat) : Int) =
      ((m.coef : Int) * (10 : Int) ^ (-x.exp).toNat) * (10 : Int) ^ (E - m.exp) := by
    simp only [Int.natCast_mul, Int.natCast_pow]
    have : ((10 : Nat) : Int) = (10 : Int) := rfl
    rw [this]
    rw [Int.mul_assoc, Int.mul_assoc, Int.mul_comm ((10 : Int) ^ (E - m.exp))]
  rw [e2, ← Int.mul_assoc (x.signed * _ ) _ _]
  exact (Int.mul_dvd_mul_iff_right (p10_ne (E - m.exp))).symm

theorem natCast_dvd_iff (n : Nat) (z : Int) : (n : Int) ∣ z ↔ n ∣ z.natAbs := by
  rw [← Int.natCast_dvd_natCast, Int.dvd_natAbs]

theorem lcmOK_checked : LcmOK Dec.checkedLcm isMultDec := by
  intro a b d h x
  by_cases hz : a.coef = 0 ∨ b.coef = 0
  · -- a zero operand: the result is zero; only zero is a multiple of zero
    have hd : d = { coef := 0, exp := 0 } := by
      unfold Dec.checkedLcm at h
      simp only [hz, ↓reduceIte, Option.some.injEq] at h
      rw [← h]; simp [Dec.new]
    subst hd
    have key : ∀ m : Dec, m.coef = 0 → (isMultDec m x = true ↔ x.signed = 0) := by
      intro m hm
      unfold isMultDec
      simp only [hm, decide_eq_true_eq, Int.natCast_zero, Int.zero_mul, Int.emod_zero]
      constructor
      · intro h0
        rcases Int.mul_eq_zero.mp h0 with h1 | h1
        · rcases Int.mul_eq_zero.mp h1 with h2 | h2
          · exact h2
          · exact absurd h2 (p10_ne _)
        · exact absurd h1 (p10_ne _)
      · intro h0; rw [h0]; simp
    have zero_mult : ∀ m : Dec, x.signed = 0 → isMultDec m x = true := by
      intro m h0
      unfold isMultDec
      simp [h0]
    apply bool_eq_and_of
    · intro h0
      have hx := (key _ rfl).mp h0
      exact ⟨zero_mult a hx, zero_mult b hx⟩
    · intro ha hb
      rcases hz with hz | hz
      · exact (key _ rfl).mpr ((key a hz).mp ha)
      · exact (key _ rfl).mpr ((key b hz).mp hb)
  · have hx : a.coef ≠ 0 := fun h0 => hz (Or.inl h0)
    have hy : b.coef ≠ 0 := fun h0 => hz (Or.inr h0)
    obtain ⟨_, _, _, hdE, hdv, _⟩ := lcm_no_overflow_or_error a b d hx hy h
    try dsimp only at hdE hdv
    have hEa : a.exp ≤ max a.exp b.exp := by omega
    have hEb : b.exp ≤ max a.exp b.exp := by omega
    apply bool_eq_and_of
    · intro hd
      rw [isMultDec_at d x _ hdE, natCast_dvd_iff, hdv, ← Nat.lcm_mul_right, Nat.lcm_dvd_iff] at hd
      constructor
      · rw [isMultDec_at a x _ hEa, natCast_dvd_iff]; exact hd.1
      · rw [isMultDec_at b x _ hEb, natCast_dvd_iff]; exact hd.2
    · intro ha hb
      rw [isMultDec_at a x _ hEa, natCast_dvd_iff] at ha
      rw [isMultDec_at b x _ hEb, natCast_dvd_iff] at hb
      rw [isMultDec_at d x _ hdE, natCast_dvd_iff, hdv, ← Nat.lcm_mul_right, Nat.lcm_dvd_iff]
      exact ⟨ha, hb⟩

end Sch
end LlgVerif
