/-
Derivations by the rules alone (`DerP`: no appeal to the nullable flags) and their equivalence with
`Der` when the flags are sound (`CG.nullableSound`, an executable check on every dump: each flagged
symbol is reached by the least-fixed-point computation `nullIter`).
-/
import LlgVerif.Proofs.EarleyComplete
namespace LlgVerif
namespace Ey

mutual
inductive DerP (g : CG) (inp : List (List Nat)) : Nat → Nat → Nat → Prop where
  | lex {s i l} : (g.sym s).lexeme = some l → l ∈ inp.getD i [] → i < inp.length → DerP g inp s i (i + 1)
  | rule {s r p i j} : r ∈ (g.sym s).rules → SeqP g inp r p i j → g.atDot p = 0 → DerP g inp s i j
inductive SeqP (g : CG) (inp : List (List Nat)) : Nat → Nat → Nat → Nat → Prop where
  | nil {r i} : SeqP g inp r r i i
  | snoc {r p i k j} : SeqP g inp r p i k → g.atDot p ≠ 0 → DerP g inp (g.atDot p) k j → SeqP g inp r (p + 1) i j
end

mutual
theorem der_of_derP {g : CG} {inp : List (List Nat)} {s i j : Nat} : DerP g inp s i j → Der g inp s i j
  | .lex h1 h2 h3 => Der.lex h1 h2 h3
  | .rule hr hs hd => Der.rule hr (seq_of_seqP hs) hd
theorem seq_of_seqP {g : CG} {inp : List (List Nat)} {r p i j : Nat} : SeqP g inp r p i j → Seq g inp r p i j
  | .nil => Seq.nil
  | .snoc hs hne hd => Seq.snoc (seq_of_seqP hs) hne (der_of_derP hd)
end

/-- the flags are sound: a flagged symbol derives the empty span by the rules alone -/
def NullSound (g : CG) : Prop := ∀ s, (g.sym s).nullable = true → ∀ inp i, DerP g inp s i i

mutual
theorem derP_of_der {g : CG} (hs : NullSound g) {inp : List (List Nat)} {s i j : Nat} :
    Der g inp s i j → DerP g inp s i j
  | .lex h1 h2 h3 => DerP.lex h1 h2 h3
  | .null h => hs _ h inp _
  | .rule hr hq hd => DerP.rule hr (seqP_of_seq hs hq) hd
theorem seqP_of_seq {g : CG} (hs : NullSound g) {inp : List (List Nat)} {r p i j : Nat} :
    Seq g inp r p i j → SeqP g inp r p i j
  | .nil => SeqP.nil
  | .snoc hq hne hd => SeqP.snoc (seqP_of_seq hs hq) hne (derP_of_der hs hd)
end

/-- a rule all of whose symbols derive the empty span derives it too -/
theorem seqP_of_rhsFrom (g : CG) (inp : List (List Nat)) (i r0 : Nat) (P : Nat → Prop)
    (hP : ∀ x, P x → DerP g inp x i i) :
    ∀ fuel r, g.rhs.size ≤ fuel + r → SeqP g inp r0 r i i → (∀ x ∈ g.rhsFrom fuel r, P x) →
      ∃ p, SeqP g inp r0 p i i ∧ g.atDot p = 0 := by
  intro fuel
  induction fuel with
  | zero =>
    intro r hr hs _
    exact ⟨r, hs, atDot_out_of_range g r (by omega)⟩
  | succ fuel ih =>
    intro r hr hs hall
    unfold CG.rhsFrom at hall
    split at hall
    · rename_i h0; exact ⟨r, hs, h0⟩
    · rename_i hne
      have hx := hP _ (hall _ List.mem_cons_self)
      exact ih (r + 1) (by omega) (SeqP.snoc hs hne hx) (fun x hx => hall x (List.mem_cons_of_mem _ hx))

theorem nullIter_sound (g : CG) (inp : List (List Nat)) (i : Nat) :
    ∀ n s, s ∈ nullIter g n → DerP g inp s i i := by
  intro n
  induction n with
  | zero => intro s hs; simp [nullIter] at hs
  | succ n ih =>
    intro s hs
    simp only [nullIter, nullStep, List.mem_filter, List.mem_range, Bool.or_eq_true,
      List.any_eq_true, List.all_eq_true] at hs
    obtain ⟨_, h | ⟨r, hr, hall⟩⟩ := hs
    · exact ih s (by simpa using h)
    · obtain ⟨p, hp, h0⟩ := seqP_of_rhsFrom g inp i r (fun x => x ∈ nullIter g n) (fun x hx => ih x hx)
        g.rhs.size r (by omega) SeqP.nil (fun x hx => by simpa using hall x hx)
      exact DerP.rule hr hp h0

theorem nullSound_of_check (g : CG) (h : g.nullableSound = true) : NullSound g := by
  intro s hs inp i
  unfold CG.nullableSound at h
  simp only [List.all_eq_true, List.mem_range, Bool.or_eq_true, Bool.not_eq_eq_eq_not, Bool.not_true] at h
  by_cases hlt : s < g.syms.size
  · rcases h s hlt with h1 | h1
    · rw [hs] at h1; cases h1
    · exact nullIter_sound g inp i _ s (by simpa using h1)
  · rw [sym_out_of_range g s hlt] at hs
    cases hs

end Ey
end LlgVerif
