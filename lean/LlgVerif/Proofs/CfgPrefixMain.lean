/-
The prefix grammar theorem: in `preG G`, `(s, false)` derives what `s` derives in `G`, and
`(s, true)` derives exactly the prefixes of what `s` derives (all symbols productive).
-/
import LlgVerif.Proofs.CfgPrefix
namespace LlgVerif
namespace Cfg
set_option linter.unusedSectionVars false

variable {N : Type} [DecidableEq N] [Hashable N]

theorem emb_inj_nt (s : Sym N) (a : N) (f : Bool) (h : emb s = Sym.nt (a, f)) :
    s = Sym.nt a ∧ f = false := by
  cases s with
  | nt b => simp only [emb, Sym.nt.injEq, Prod.mk.injEq] at h; exact ⟨by rw [h.1], h.2.symm⟩
  | t lo hi => simp [emb] at h

theorem emb_inj_t (s : Sym N) (lo hi : UInt8) (h : emb s = Sym.t lo hi) : s = Sym.t lo hi := by
  cases s with
  | nt b => simp [emb] at h
  | t lo' hi' => simp only [emb, Sym.t.injEq] at h; rw [h.1, h.2]

/-- a rule of `preG` for an unmarked nonterminal is an embedded rule of `G` -/
theorem preG_false (G : Gram N) (a : N) (γ : List (Sym (N × Bool))) (h : ((a, false), γ) ∈ preG G) :
    ∃ β, (a, β) ∈ G ∧ γ = embL β := by
  rcases (mem_preG G _ _).mp h with ⟨a', β, hr, hx, hγ⟩ | ⟨_, _, _, _, hx, _⟩ | ⟨_, _, _, _, _, hx, _⟩
  · injection hx with h1 _; subst h1; exact ⟨β, hr, hγ⟩
  · injection hx with _ h2; cases h2
  · injection hx with _ h2; cases h2

/-! ### direction A: what `preG` derives is a (prefix of a) derivation of `G` -/

theorem preG_sound (G : Gram N) (hp : allProductive G = true) (γ : List (Sym (N × Bool)))
    (w : List B) (hd : DL (preG G) γ w) :
    (∀ α, γ = embL α → DL G α w) ∧
    (∀ α b, γ = embL α ++ [Sym.nt (b, true)] → ∃ v, DL G (α ++ [Sym.nt b]) (w ++ v)) := by
  induction hd with
  | nil =>
    constructor
    · intro α h
      cases α with
      | nil => exact DL.nil
      | cons _ _ => simp [embL] at h
    · intro α b h
      cases α <;> simp [embL] at h
  | @t lo hi c γ0 w0 h1 h2 _ ih =>
    constructor
    · intro α h
      cases α with
      | nil => simp [embL] at h
      | cons s α0 =>
        simp only [embL, List.map_cons, List.cons.injEq] at h
        have hs := emb_inj_t s lo hi h.1.symm
        subst hs
        exact DL.t h1 h2 (ih.1 α0 h.2)
    · intro α b h
      cases α with
      | nil => simp [embL] at h
      | cons s α0 =>
        simp only [embL, List.map_cons, List.cons_append, List.cons.injEq] at h
        have hs := emb_inj_t s lo hi h.1.symm
        subst hs
        obtain ⟨v, hv⟩ := ih.2 α0 b h.2
        exact ⟨v, DL.t h1 h2 hv⟩
  | @nt x β' γ0 u v0 hr _ _ ih1 ih2 =>
    constructor
    · intro α h
      cases α with
      | nil => simp [embL] at h
      | cons s α0 =>
        simp only [embL, List.map_cons, List.cons.injEq] at h
        obtain ⟨hs, hf⟩ := emb_inj_nt s x.1 x.2 (by rw [h.1])
        subst hs
        have hx : x = (x.1, false) := by rw [← hf]
        rw [hx] at hr
        obtain ⟨β, hβ, hγ⟩ := preG_false G _ _ hr
        exact DL.nt hβ (ih1.1 β hγ) (ih2.1 α0 h.2)
    · intro α b h
      cases α with
      | nil =>
        simp only [embL, List.map_nil, List.nil_append, List.cons.injEq] at h
        obtain ⟨hx, hγ0⟩ := h
        have hx : x = (b, true) := by injection hx
        subst hγ0
        have hv0 : v0 = [] := DL_nil_inv G v0 (ih2.1 [] rfl)
        subst hv0
        rw [hx] at hr
        rcases (mem_preG G _ _).mp hr with ⟨_, _, _, hx', _⟩ | ⟨a, done, rest, hβ, hx', hγ⟩ |
            ⟨a, done, c, rest, hβ, hx', hγ⟩
        · injection hx' with _ h2; cases h2
        · injection hx' with h1 _; subst h1
          have hdone := ih1.1 done hγ
          obtain ⟨v, hv⟩ := productive_rest G hp b done rest hβ
          refine ⟨v, ?_⟩
          have := DL_single G hβ (DL_append G hdone hv)
          simpa using this
        · injection hx' with h1 _; subst h1
          obtain ⟨v1, hv1⟩ := ih1.2 done c hγ
          obtain ⟨v2, hv2⟩ := productive_rest G hp b (done ++ [Sym.nt c]) rest
            (by simpa [List.append_assoc] using hβ)
          refine ⟨v1 ++ v2, ?_⟩
          have hr' : (b, (done ++ [Sym.nt c]) ++ rest) ∈ G := by simpa [List.append_assoc] using hβ
          have := DL_single G hr' (DL_append G hv1 hv2)
          simpa [List.append_assoc] using this
      | cons s α0 =>
        simp only [embL, List.map_cons, List.cons_append, List.cons.injEq] at h
        obtain ⟨hs, hf⟩ := emb_inj_nt s x.1 x.2 (by rw [h.1])
        subst hs
        have hx : x = (x.1, false) := by rw [← hf]
        rw [hx] at hr
        obtain ⟨β, hβ, hγ⟩ := preG_false G _ _ hr
        obtain ⟨v, hv⟩ := ih2.2 α0 b h.2
        refine ⟨v, ?_⟩
        have := DL.nt hβ (ih1.1 β hγ) hv
        simpa [List.append_assoc] using this

/-! ### direction B -/

theorem preG_embed (G : Gram N) (α : List (Sym N)) (w : List B) (hd : DL G α w) :
    DL (preG G) (embL α) w := by
  induction hd with
  | nil => exact DL.nil
  | t h1 h2 _ ih => exact DL.t h1 h2 ih
  | @nt a β α u v hr _ _ ih1 ih2 =>
    have : ((a, false), embL β) ∈ preG G := (mem_preG G _ _).mpr (Or.inl ⟨a, β, hr, rfl, rfl⟩)
    exact DL.nt this ih1 ih2

/-- `w` is consumed by a prefix of the form `α`: either it ends at a symbol boundary, or inside the
expansion of a nonterminal -/
def Pre (G : Gram N) (α : List (Sym N)) (w : List B) : Prop :=
  (∃ done rest, α = done ++ rest ∧ DL (preG G) (embL done) w) ∨
  (∃ done c rest, α = done ++ Sym.nt c :: rest ∧ DL (preG G) (embL done ++ [Sym.nt (c, true)]) w)

theorem pre_to_nt (G : Gram N) (a : N) (β : List (Sym N)) (hr : (a, β) ∈ G) (w : List B)
    (h : Pre G β w) : DL (preG G) [Sym.nt (a, true)] w := by
  rcases h with ⟨done, rest, hβ, hd⟩ | ⟨done, c, rest, hβ, hd⟩
  · have : ((a, true), embL done) ∈ preG G :=
      (mem_preG G _ _).mpr (Or.inr (Or.inl ⟨a, done, rest, by rw [← hβ]; exact hr, rfl, rfl⟩))
    exact DL_single (preG G) this hd
  · have : ((a, true), embL done ++ [Sym.nt (c, true)]) ∈ preG G :=
      (mem_preG G _ _).mpr (Or.inr (Or.inr ⟨a, done, c, rest, by rw [← hβ]; exact hr, rfl, rfl⟩))
    exact DL_single (preG G) this hd

theorem preG_complete_aux (G : Gram N) (α : List (Sym N)) (x : List B) (hd : DL G α x) :
    ∀ w v, x = w ++ v → Pre G α w := by
  induction hd with
  | nil =>
    intro w v h
    have : w = [] := by
      cases w with
      | nil => rfl
      | cons _ _ => simp at h
    subst this
    exact Or.inl ⟨[], [], rfl, DL.nil⟩
  | @t lo hi b α0 x0 h1 h2 _ ih =>
    intro w v h
    cases w with
    | nil => exact Or.inl ⟨[], _, rfl, DL.nil⟩
    | cons b' w0 =>
      simp only [List.cons_append, List.cons.injEq] at h
      obtain ⟨rfl, h⟩ := h
      rcases ih w0 v h with ⟨done, rest, hα, hd⟩ | ⟨done, c, rest, hα, hd⟩
      · exact Or.inl ⟨Sym.t lo hi :: done, rest, by rw [hα]; rfl, DL.t h1 h2 hd⟩
      · exact Or.inr ⟨Sym.t lo hi :: done, c, rest, by rw [hα]; rfl, DL.t h1 h2 hd⟩
  | @nt a β α0 u v0 hr hβ _ ih1 ih2 =>
    intro w v h
    rcases List.append_eq_append_iff.mp h with ⟨z, hw, hv0⟩ | ⟨z, hu, hv⟩
    · -- w = u ++ z : the nonterminal is consumed entirely
      have hu' := preG_embed G β u hβ
      have hrule : ((a, false), embL β) ∈ preG G := (mem_preG G _ _).mpr (Or.inl ⟨a, β, hr, rfl, rfl⟩)
      rcases ih2 z v hv0 with ⟨done, rest, hα, hd⟩ | ⟨done, c, rest, hα, hd⟩
      · refine Or.inl ⟨Sym.nt a :: done, rest, by rw [hα]; rfl, ?_⟩
        rw [hw]; exact DL.nt hrule hu' hd
      · refine Or.inr ⟨Sym.nt a :: done, c, rest, by rw [hα]; rfl, ?_⟩
        rw [hw]; exact DL.nt hrule hu' hd
    · -- u = w ++ z : w ends inside the expansion of a
      have := pre_to_nt G a β hr w (ih1 w z hu)
      exact Or.inr ⟨[], a, α0, rfl, by simpa [embL] using this⟩

theorem DL_single_inv (G : Gram N) (a : N) (x : List B) (h : DL G [Sym.nt a] x) :
    ∃ β, (a, β) ∈ G ∧ DL G β x := by
  have key : ∀ α x, DL G α x → α = [Sym.nt a] → ∃ β, (a, β) ∈ G ∧ DL G β x := by
    intro α x hd
    cases hd with
    | nil => intro h; cases h
    | t _ _ _ => intro h; cases h
    | @nt a' β α0 u v0 hr hβ hα0 =>
      intro h
      injection h with h1 h2
      injection h1 with h1
      subst h1 h2
      have := DL_nil_inv G v0 hα0
      subst this
      exact ⟨β, hr, by simpa using hβ⟩
  exact key _ _ h rfl

/-- **Prefix grammar.**  With every symbol productive, `(s, true)` derives `w` in the prefix grammar
iff `w` is a prefix of a string `s` derives in `G`; `(s, false)` derives what `s` derives. -/
theorem preG_prefix (G : Gram N) (hp : allProductive G = true) (s : N) (w : List B) :
    DL (preG G) [Sym.nt (s, true)] w ↔ ∃ v, DL G [Sym.nt s] (w ++ v) := by
  constructor
  · intro h
    have := (preG_sound G hp _ _ h).2 [] s (by simp [embL])
    simpa using this
  · rintro ⟨v, h⟩
    obtain ⟨β, hr, hβ⟩ := DL_single_inv G s (w ++ v) h
    exact pre_to_nt G s β hr w (preG_complete_aux G β _ hβ w v rfl)

theorem preG_same (G : Gram N) (hp : allProductive G = true) (s : N) (w : List B) :
    DL (preG G) [Sym.nt (s, false)] w ↔ DL G [Sym.nt s] w := by
  constructor
  · intro h
    exact (preG_sound G hp _ _ h).1 [Sym.nt s] (by simp [embL, emb])
  · intro h
    have := preG_embed G _ _ h
    simpa [embL, emb] using this

end Cfg
end LlgVerif
