/- M9: the stop controller returns the text up to the first stop occurrence. -/
import LlgVerif.Model.Stop
namespace LlgVerif
namespace StopCfg

theorem back_le (arr : Array SB) (fuel i : Nat) : validUtf8Len.back arr fuel i ≤ i := by
  induction fuel generalizing i with
  | zero => simp [validUtf8Len.back]
  | succ f ih =>
    simp only [validUtf8Len.back]
    split
    · have := ih (i - 1); omega
    · exact Nat.le_refl _

theorem validUtf8Len_le (d : List SB) : validUtf8Len d ≤ d.length := by
  unfold validUtf8Len
  split
  · simp
  · simp only
    have hb := back_le d.toArray d.length (d.length - 1)
    generalize validUtf8Len.back d.toArray d.length (d.length - 1) = i at hb ⊢
    generalize (if (d.toArray[i]! &&& 128 == 0) = true then 1
      else if (d.toArray[i]! &&& 224 == 192) = true then 2
      else if (d.toArray[i]! &&& 240 == 224) = true then 3
      else if (d.toArray[i]! &&& 248 == 240) = true then 4 else 1) = e
    split <;> omega

/-- `k` is a candidate for `chop t`: the last `k` bytes of `t` are a proper prefix of a stop string -/
def ChopCand (c : StopCfg) (t : List SB) (k : Nat) : Prop :=
  k ≤ t.length ∧ ∃ s ∈ c.stops, k < s.length ∧ s.take k = t.drop (t.length - k)

theorem foldl_max_ge (l : List Nat) (a : Nat) : a ≤ l.foldl max a ∧ ∀ x ∈ l, x ≤ l.foldl max a := by
  induction l generalizing a with
  | nil => simp
  | cons y ys ih =>
    simp only [List.foldl_cons, List.mem_cons]
    obtain ⟨h1, h2⟩ := ih (max a y)
    refine ⟨by omega, ?_⟩
    rintro x (rfl | hx)
    · omega
    · exact h2 x hx

theorem chop_ge (c : StopCfg) (t : List SB) (k : Nat) (h : ChopCand c t k) : k ≤ c.chop t := by
  unfold chop
  apply (foldl_max_ge _ 0).2
  obtain ⟨hk, s, hs, hlt, heq⟩ := h
  simp only [List.mem_filter, List.mem_range, List.any_eq_true, Bool.and_eq_true, decide_eq_true_eq,
    beq_iff_eq]
  exact ⟨by omega, s, hs, hlt, heq⟩

theorem isSuffix_iff (s t : List SB) : isSuffix s t = true ↔ ∃ u, t = u ++ s := by
  unfold isSuffix
  simp only [Bool.and_eq_true, decide_eq_true_eq, beq_iff_eq]
  constructor
  · rintro ⟨hl, hd⟩
    refine ⟨t.take (t.length - s.length), ?_⟩
    have := (List.take_append_drop (t.length - s.length) t).symm
    rw [hd] at this
    exact this
  · rintro ⟨u, rfl⟩
    simp

theorem matchLen_some (c : StopCfg) (t : List SB) (k : Nat) (h : c.matchLen t = some k) :
    ∃ s ∈ c.stops, s.length = k ∧ ∃ u, t = u ++ s := by
  unfold matchLen at h
  cases hf : c.stops.find? (fun s => isSuffix s t) with
  | none => simp [hf] at h
  | some s =>
    simp only [hf, Option.map_some, Option.some.injEq] at h
    have hmem := List.mem_of_find?_eq_some hf
    have hp := List.find?_some hf
    exact ⟨s, hmem, h, (isSuffix_iff s t).mp hp⟩

/-- a stop string that ends inside the freshly fed bytes `p` reaches back into `text` by at most
    `chop text` bytes -/
theorem match_reach (c : StopCfg) (text p : List SB) (hp : p ≠ []) (k : Nat)
    (h : c.matchLen (text ++ p) = some k) : k ≤ c.chop text + p.length := by
  obtain ⟨s, hs, hlen, u, hu⟩ := matchLen_some c _ k h
  by_cases hk : k ≤ p.length
  · omega
  · -- the stop string starts inside `text`
    have hk' : p.length < s.length := by omega
    have hlenEq : text.length + p.length = u.length + s.length := by
      have := congrArg List.length hu
      simpa using this
    -- s = s1 ++ p with s1 the last (k - |p|) bytes of text
    have hcand : ChopCand c text (s.length - p.length) := by
      refine ⟨by omega, s, hs, ?_, ?_⟩
      · have : 0 < p.length := List.length_pos_iff.mpr hp
        omega
      · -- take (|s| - |p|) s = drop (|text| - (|s| - |p|)) text
        have h1 : (text ++ p).drop u.length = s := by rw [hu]; simp
        have hul : u.length ≤ text.length := by omega
        rw [List.drop_append_of_le_length hul] at h1
        have h2 : text.length - (s.length - p.length) = u.length := by omega
        rw [h2, ← h1]
        have h3 : (List.drop u.length text ++ p).length - p.length = (List.drop u.length text).length := by
          simp
        rw [h3, List.take_left']
        rfl
    have := chop_ge c text _ hcand
    omega

/-- result of the byte loop -/
theorem feedBytes_spec (c : StopCfg) (bs buf text : List SB) :
    let r := feedBytes c bs buf text
    (r.2.stopped = false ∧ r.1 ++ r.2.pending = buf ++ bs ∧ r.2.text = text ++ bs ∧
      (∀ p q, bs = p ++ q → p ≠ [] → c.matchLen (text ++ p) = none) ∧
      min (buf ++ bs).length (c.chop (text ++ bs)) ≤ r.2.pending.length) ∨
    (r.2.stopped = true ∧ r.2.pending = [] ∧ ∃ p q k, bs = p ++ q ∧ p ≠ [] ∧
      c.matchLen (text ++ p) = some k ∧
      (∀ p' q', p = p' ++ q' → p' ≠ [] → q' ≠ [] → c.matchLen (text ++ p') = none) ∧
      r.1 = (buf ++ p).take ((buf ++ p).length - k)) := by
  induction bs generalizing buf text with
  | nil =>
    left
    simp only [feedBytes, List.append_nil, List.take_append_drop, true_and]
    refine ⟨?_, ?_⟩
    · intro p q h hp
      have : p = [] := by
        have := congrArg List.length h
        simp at this
        exact List.length_eq_zero_iff.mp (by omega)
      exact absurd this hp
    · have h1 := validUtf8Len_le (buf.take (buf.length - c.chop text))
      simp only [List.length_take, List.length_drop] at h1 ⊢
      omega
  | cons b bs ih =>
    simp only [feedBytes]
    cases hm : c.matchLen (text ++ [b]) with
    | some k =>
      right
      refine ⟨rfl, rfl, [b], bs, k, rfl, by simp, hm, ?_, rfl⟩
      intro p' q' h hp' hq'
      have := congrArg List.length h
      simp at this
      have h1 : 0 < p'.length := List.length_pos_iff.mpr hp'
      have h2 : 0 < q'.length := List.length_pos_iff.mpr hq'
      omega
    | none =>
      simp only
      rcases ih (buf ++ [b]) (text ++ [b]) with ⟨h1, h2, h3, h4, h5⟩ | ⟨h1, h2, p, q, k, hb, hp, hk, hmin, hout⟩
      · left
        refine ⟨h1, by simpa using h2, by simpa using h3, ?_, by simpa using h5⟩
        intro p q h hp
        cases p with
        | nil => exact absurd rfl hp
        | cons x p' =>
          simp only [List.cons_append, List.cons.injEq] at h
          obtain ⟨hx, hq⟩ := h
          subst hx
          by_cases hp' : p' = []
          · subst hp'; simpa using hm
          · have := h4 p' q hq hp'
            simpa using this
      · right
        refine ⟨h1, h2, b :: p, q, k, by simp [hb], by simp, by simpa using hk, ?_, by simpa using hout⟩
        intro p' q' h hp' hq'
        cases p' with
        | nil => exact absurd rfl hp'
        | cons x p'' =>
          simp only [List.cons_append, List.cons.injEq] at h
          obtain ⟨hx, hq⟩ := h
          subst hx
          by_cases hp'' : p'' = []
          · subst hp''; simpa using hm
          · have := hmin p'' q' hq hp'' hq'
            simpa using this

end StopCfg
end LlgVerif
