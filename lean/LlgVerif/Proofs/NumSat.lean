import LlgVerif.Model.NumSat
import Mathlib.Tactic.Linarith
namespace LlgVerif

theorem firstMult_spec (lo : Int) (lex : Bool) (step : Int) (hs : 0 < step) :
    step ∣ firstMult lo lex step ∧
    (lo < firstMult lo lex step ∨ (lo = firstMult lo lex step ∧ lex = false)) ∧
    (∀ z, step ∣ z → (lo < z ∨ (lo = z ∧ lex = false)) → firstMult lo lex step ≤ z) := by
  have hdiv : lo / step * step + lo % step = lo := Int.ediv_mul_add_emod lo step
  have hr0 : 0 ≤ lo % step := Int.emod_nonneg lo (by omega)
  have hr1 : lo % step < step := Int.emod_lt_of_pos lo hs
  unfold firstMult
  simp only
  split
  · rename_i hc
    refine ⟨?_, ?_, ?_⟩
    · exact Int.dvd_add (Dvd.intro_left _ rfl) (Int.dvd_refl step)
    · left; omega
    · intro z hz hlow
      obtain ⟨q, rfl⟩ := hz
      -- q > lo / step
      have hq : lo / step < q := by
        by_contra hcon
        have hle : q ≤ lo / step := by omega
        have : step * q ≤ lo / step * step := by nlinarith
        rcases hc with h1 | ⟨h1, h2⟩
        · rcases hlow with h3 | ⟨h3, _⟩ <;> omega
        · rcases hlow with h3 | ⟨h3, h4⟩
          · omega
          · rw [h2] at h4; cases h4
      have : (lo / step + 1) * step ≤ step * q := by nlinarith
      nlinarith
  · rename_i hc
    have hk : lo / step * step = lo ∧ lex = false := by
      constructor
      · by_contra h; apply hc; left; omega
      · by_contra h
        apply hc
        have : lex = true := by cases lex <;> simp_all
        by_cases hlt : lo / step * step < lo
        · exact Or.inl hlt
        · exact Or.inr ⟨by omega, this⟩
    refine ⟨Dvd.intro_left _ rfl, Or.inr ⟨hk.1.symm, hk.2⟩, ?_⟩
    intro z _ hlow
    rcases hlow with h | ⟨h, _⟩ <;> omega

/-- **C08 (emptiness).**  `hasMult` decides whether some multiple of `step` satisfies both bounds. -/
theorem hasMult_iff (lo : Int) (lex : Bool) (hi : Int) (hex : Bool) (step : Int) (hs : 0 < step) :
    hasMult lo lex hi hex step = true ↔
      ∃ z, step ∣ z ∧ (lo < z ∨ (lo = z ∧ lex = false)) ∧ (z < hi ∨ (z = hi ∧ hex = false)) := by
  obtain ⟨hd, hlow, hmin⟩ := firstMult_spec lo lex step hs
  unfold hasMult
  simp only [Bool.or_eq_true, decide_eq_true_eq, Bool.and_eq_true, Bool.not_eq_true']
  constructor
  · intro h
    exact ⟨firstMult lo lex step, hd, hlow, h⟩
  · rintro ⟨z, hz, hl, hu⟩
    have := hmin z hz hl
    rcases hu with hu | ⟨hu, hx⟩
    · left; omega
    · by_cases he : firstMult lo lex step = hi
      · exact Or.inr ⟨he, hx⟩
      · left; omega

theorem hasPoint_iff (lo : Int) (lex : Bool) (hi : Int) (hex : Bool) :
    hasPoint lo lex hi hex = true ↔ lo < hi ∨ (lo = hi ∧ lex = false ∧ hex = false) := by
  unfold hasPoint
  simp [Bool.or_eq_true, Bool.and_eq_true, and_assoc]

end LlgVerif
