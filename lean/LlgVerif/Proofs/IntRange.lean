/-
Helper lemmas for C08: decimal spellings, languages of the pattern fragments of `rx_int_range`.
-/
import LlgVerif.Model.IntRange
namespace LlgVerif
open Rx

theorem digitB_toNat (k : Nat) (h : k ≤ 9) : (digitB k).toNat = 48 + k := by
  unfold digitB
  rw [UInt8.toNat_ofNat']
  omega

theorem dec_lt {n : Nat} (h : n < 10) : dec n = [digitB n] := by
  rw [dec]; simp [h]

theorem dec_ge {n : Nat} (h : 10 ≤ n) : dec n = dec (n / 10) ++ [digitB (n % 10)] := by
  rw [dec]; simp [Nat.not_lt.mpr h]

theorem dec_snoc (m k : Nat) (hm : 1 ≤ m) (hk : k ≤ 9) : dec (10 * m + k) = dec m ++ [digitB k] := by
  rw [dec_ge (by omega)]
  have h1 : (10 * m + k) / 10 = m := by omega
  have h2 : (10 * m + k) % 10 = k := by omega
  rw [h1, h2]

theorem dec_pre (n : Nat) : dec n = preB n ++ [digitB (n % 10)] := by
  unfold preB
  by_cases h : n < 10
  · simp [h, dec_lt h, Nat.mod_eq_of_lt h]
  · simp [h, dec_ge (Nat.not_lt.mp h)]

theorem dec_ne_nil (n : Nat) : dec n ≠ [] := by
  rw [dec_pre]; simp

theorem numDigits_pos (n : Nat) : 1 ≤ numDigits n := by
  unfold numDigits
  have := dec_ne_nil n
  cases h : dec n with
  | nil => exact absurd h this
  | cons a t => simp

theorem numDigits_lt {n : Nat} (h : n < 10) : numDigits n = 1 := by
  unfold numDigits; rw [dec_lt h]; rfl

theorem numDigits_ge {n : Nat} (h : 10 ≤ n) : numDigits n = numDigits (n / 10) + 1 := by
  unfold numDigits; rw [dec_ge h]; simp

theorem numDigits_eq_one {n : Nat} : numDigits n = 1 ↔ n < 10 := by
  constructor
  · intro h
    by_cases h10 : n < 10
    · exact h10
    · rw [numDigits_ge (Nat.not_lt.mp h10)] at h
      have := numDigits_pos (n / 10)
      omega
  · exact numDigits_lt

/-- `n < 10 ^ numDigits n` and `10 ^ (numDigits n - 1) ≤ n` for `n ≥ 1` -/
theorem lt_pow_numDigits (n : Nat) : n < 10 ^ numDigits n := by
  induction n using Nat.strongRecOn with
  | _ n ih =>
    by_cases h : n < 10
    · rw [numDigits_lt h]; omega
    · have h10 := Nat.not_lt.mp h
      rw [numDigits_ge h10, Nat.pow_succ]
      have := ih (n / 10) (by omega)
      omega

theorem pow_numDigits_le (n : Nat) (h : 1 ≤ n) : 10 ^ (numDigits n - 1) ≤ n := by
  induction n using Nat.strongRecOn with
  | _ n ih =>
    by_cases h9 : n < 10
    · rw [numDigits_lt h9]; simpa using h
    · have h10 := Nat.not_lt.mp h9
      rw [numDigits_ge h10]
      have := ih (n / 10) (by omega) (by omega)
      have hp := numDigits_pos (n / 10)
      have e : numDigits (n / 10) + 1 - 1 = (numDigits (n / 10) - 1) + 1 := by omega
      rw [e, Nat.pow_succ]
      omega

theorem numDigits_mono {a b : Nat} (h : a ≤ b) : numDigits a ≤ numDigits b := by
  by_cases ha : a = 0
  · subst ha; rw [numDigits_lt (by omega)]; exact numDigits_pos b
  · have h1 := pow_numDigits_le a (by omega)
    have h2 := lt_pow_numDigits b
    have : 10 ^ (numDigits a - 1) < 10 ^ numDigits b := by omega
    have := (Nat.pow_lt_pow_iff_right (by omega : 1 < 10)).mp this
    omega

/-! ### languages of the fragments -/

theorem lang_litRx (u w : List B) : lang (litRx u) w ↔ w = u := by
  induction u generalizing w with
  | nil => simp [litRx, lang]
  | cons b u ih =>
    simp only [litRx, lang, ih]
    constructor
    · rintro ⟨x, v, hw, ⟨c, hx, hin⟩, hv⟩
      subst hx hv hw
      simp only [inSet, List.any_cons, List.any_nil, Bool.or_false, Bool.and_eq_true,
        decide_eq_true_eq] at hin
      have : c = b := by
        apply UInt8.toNat_inj.mp
        omega
      simp [this]
    · intro hw
      refine ⟨[b], u, by simp [hw], ⟨b, rfl, by simp [inSet]⟩, rfl⟩

theorem lang_clsRx (lo hi : Nat) (hhi : hi ≤ 9) (w : List B) :
    lang (clsRx lo hi) w ↔ ∃ k, lo ≤ k ∧ k ≤ hi ∧ w = [digitB k] := by
  simp only [clsRx, lang, inSet, List.any_cons, List.any_nil, Bool.or_false, Bool.and_eq_true,
    decide_eq_true_eq]
  constructor
  · rintro ⟨b, hw, h1, h2⟩
    refine ⟨b.toNat - 48, by omega, by omega, ?_⟩
    rw [hw]
    congr 1
    apply UInt8.toNat_inj.mp
    rw [digitB_toNat _ (by omega)]
    omega
  · rintro ⟨k, h1, h2, hw⟩
    refine ⟨digitB k, hw, ?_, ?_⟩ <;> rw [digitB_toNat _ (by omega)] <;> omega

theorem lang_altsRx (ps : List Rx) (w : List B) : lang (altsRx ps) w ↔ ∃ p ∈ ps, lang p w := by
  induction ps with
  | nil => simp [altsRx, lang]
  | cons p ps ih => simp [altsRx, lang, ih]

theorem lang_lit_cls (u : List B) (lo hi : Nat) (hhi : hi ≤ 9) (w : List B) :
    lang (cat (litRx u) (clsRx lo hi)) w ↔ ∃ k, lo ≤ k ∧ k ≤ hi ∧ w = u ++ [digitB k] := by
  simp only [lang, lang_litRx, lang_clsRx lo hi hhi]
  constructor
  · rintro ⟨x, v, hw, hx, k, h1, h2, hv⟩
    exact ⟨k, h1, h2, by rw [hw, hx, hv]⟩
  · rintro ⟨k, h1, h2, hw⟩
    exact ⟨u, [digitB k], hw, rfl, k, h1, h2, rfl⟩

/-- the language of `rx` is the set of canonical spellings of the numbers in `[l, r]` -/
def IsRange (rx : Rx) (l r : Nat) : Prop := ∀ w, lang rx w ↔ ∃ n, l ≤ n ∧ n ≤ r ∧ w = dec n

theorem isRange_lastDigit (m lo hi : Nat) (hm : 10 ≤ 10 * m + lo ∨ m = 0) (hhi : hi ≤ 9) (w : List B)
    (u : List B) (hu : u = if m = 0 then [] else dec m) :
    lang (cat (litRx u) (clsRx lo hi)) w ↔ ∃ n, n / 10 = m ∧ lo ≤ n % 10 ∧ n % 10 ≤ hi ∧ w = dec n := by
  rw [lang_lit_cls u lo hi hhi]
  constructor
  · rintro ⟨k, h1, h2, hw⟩
    refine ⟨10 * m + k, by omega, by omega, by omega, ?_⟩
    rw [hw, hu]
    by_cases h0 : m = 0
    · subst h0; simp [dec_lt (by omega : k < 10)]
    · simp only [h0, ↓reduceIte]
      rw [dec_snoc m k (by omega) (by omega)]
  · rintro ⟨n, h1, h2, h3, hw⟩
    refine ⟨n % 10, h2, h3, ?_⟩
    rw [hw, hu, dec_pre n]
    unfold preB
    by_cases h0 : m = 0
    · subst h0
      have : n < 10 := by omega
      simp [this]
    · have : ¬ n < 10 := by omega
      simp [this, h0, h1]

end LlgVerif
