/-
Paths of the builder tree = the vocabulary (`build_paths`), and the DFS spec = per-token filtering.
-/
import LlgVerif.Proofs.TrieWalk
namespace LlgVerif

variable {S : Type}

-- byte paths (from the child list downwards) with the token stored at their end
mutual
def pathsTree : Tree → List (List Byte × Option Nat)
  | Tree.node b t kids => ([b], t) :: (pathsKids kids).map (fun p => (b :: p.1, p.2))
def pathsKids : List Tree → List (List Byte × Option Nat)
  | [] => []
  | c :: cs => pathsTree c ++ pathsKids cs
end

theorem runBytes_cons (r : Rec S) (s : S) (b : Byte) (w : List Byte) :
    runBytes r s (b :: w) = (r.step s b).bind (fun s' => runBytes r s' w) := by
  simp only [runBytes]
  cases r.step s b <;> simp

mutual
theorem mem_specTree (r : Rec S) (defl : Nat) (t : Tree) (s : S) (x : Nat) :
    x ∈ specTree r defl t s ↔
      ∃ w tk, (w, tk) ∈ pathsTree t ∧ (runBytes r s w).isSome ∧ x = tk.getD defl := by
  match t with
  | Tree.node b t kids =>
    simp only [specTree, pathsTree]
    cases hstep : r.step s b with
    | none =>
      simp only [List.not_mem_nil, false_iff, not_exists, not_and]
      intro w tk hmem
      simp only [List.mem_cons, List.mem_map] at hmem
      rcases hmem with h | ⟨p, _, h⟩
      · injection h with h1 h2; subst h1
        simp [runBytes, hstep]
      · injection h with h1 h2; subst h1
        simp [runBytes, hstep]
    | some s' =>
      simp only [List.mem_cons, mem_specKids r defl kids s' x, List.mem_map]
      constructor
      · rintro (h | ⟨w, tk, hm, hr, hx⟩)
        · exact ⟨[b], t, Or.inl rfl, by simp [runBytes, hstep], h⟩
        · exact ⟨b :: w, tk, Or.inr ⟨(w, tk), hm, rfl⟩, by simpa [runBytes, hstep] using hr, hx⟩
      · rintro ⟨w, tk, hm, hr, hx⟩
        rcases hm with h | ⟨p, hp, h⟩
        · injection h with h1 h2; subst h1 h2
          exact Or.inl hx
        · injection h with h1 h2; subst h1 h2
          right
          refine ⟨p.1, p.2, hp, ?_, hx⟩
          simpa [runBytes, hstep] using hr
theorem mem_specKids (r : Rec S) (defl : Nat) (kids : List Tree) (s : S) (x : Nat) :
    x ∈ specKids r defl kids s ↔
      ∃ w tk, (w, tk) ∈ pathsKids kids ∧ (runBytes r s w).isSome ∧ x = tk.getD defl := by
  match kids with
  | [] => simp [specKids, pathsKids]
  | c :: cs =>
    simp only [specKids, pathsKids, List.mem_append, mem_specTree r defl c s x,
      mem_specKids r defl cs s x]
    constructor
    · rintro (⟨w, tk, hm, h⟩ | ⟨w, tk, hm, h⟩)
      · exact ⟨w, tk, Or.inl hm, h⟩
      · exact ⟨w, tk, Or.inr hm, h⟩
    · rintro ⟨w, tk, hm | hm, h⟩
      · exact Or.inl ⟨w, tk, hm, h⟩
      · exact Or.inr ⟨w, tk, hm, h⟩
end

/-! ### builder -/

theorem pathsKids_append (a b : List Tree) : pathsKids (a ++ b) = pathsKids a ++ pathsKids b := by
  induction a with
  | nil => simp [pathsKids]
  | cons c cs ih => simp [pathsKids, ih]

theorem mem_paths_insertLast (b : Byte) (t : Nat) (cs : List Tree) (w : List Byte) (x : Nat) :
    (w, some x) ∈ pathsKids (insertLast b t cs) ↔ (w, some x) ∈ pathsKids cs ∨ (w = [b] ∧ x = t) := by
  induction cs with
  | nil => simp [insertLast, pathsKids, pathsTree]
  | cons c rest ih =>
    cases c with
    | node cb ct ck =>
      simp only [insertLast, Tree.byte, Tree.tok, Tree.kids]
      by_cases hb : cb = b
      · subst hb
        cases ct with
        | none =>
          simp only [↓reduceIte, pathsKids, pathsTree, List.mem_append, List.mem_cons, Prod.mk.injEq,
            Option.some.injEq, List.mem_map, reduceCtorEq, and_false, false_or]
          constructor
          · rintro ((⟨h1, h2⟩ | h) | h)
            · exact Or.inr ⟨h1, h2⟩
            · exact Or.inl (Or.inl h)
            · exact Or.inl (Or.inr h)
          · rintro ((h | h) | ⟨h1, h2⟩)
            · exact Or.inl (Or.inr h)
            · exact Or.inr h
            · exact Or.inl (Or.inl ⟨h1, h2⟩)
        | some y =>
          simp only [↓reduceIte, pathsKids, pathsKids_append, pathsTree, List.mem_append,
            List.mem_cons, Prod.mk.injEq, Option.some.injEq, List.mem_map, List.map_nil,
            List.not_mem_nil, or_false]
      · simp only [hb, ↓reduceIte, pathsKids, List.mem_append, ih]
        constructor
        · rintro (h | h | h)
          · exact Or.inl (Or.inl h)
          · exact Or.inl (Or.inr h)
          · exact Or.inr h
        · rintro ((h | h) | h)
          · exact Or.inl h
          · exact Or.inr (Or.inl h)
          · exact Or.inr (Or.inr h)

theorem mem_paths_modFirst (b : Byte) (f : Tree → Tree) (mk : Unit → Tree) (cs : List Tree)
    (P : List Byte × Option Nat → Prop) (q : List Byte × Option Nat)
    (hf : ∀ c, c.byte = b → (q ∈ pathsTree (f c) ↔ q ∈ pathsTree c ∨ P q))
    (hmk : q ∈ pathsTree (mk ()) ↔ P q) :
    q ∈ pathsKids (modFirst b f mk cs) ↔ q ∈ pathsKids cs ∨ P q := by
  induction cs with
  | nil => simp [modFirst, pathsKids, hmk]
  | cons c rest ih =>
    simp only [modFirst]
    by_cases hb : c.byte = b
    · simp only [hb, ↓reduceIte, pathsKids, List.mem_append, hf c hb]
      constructor
      · rintro ((h | h) | h)
        · exact Or.inl (Or.inl h)
        · exact Or.inr h
        · exact Or.inl (Or.inr h)
      · rintro ((h | h) | h)
        · exact Or.inl (Or.inl h)
        · exact Or.inr h
        · exact Or.inl (Or.inr h)
    · simp only [hb, ↓reduceIte, pathsKids, List.mem_append, ih]
      constructor
      · rintro (h | h | h)
        · exact Or.inl (Or.inl h)
        · exact Or.inl (Or.inr h)
        · exact Or.inr h
      · rintro ((h | h) | h)
        · exact Or.inl h
        · exact Or.inr (Or.inl h)
        · exact Or.inr (Or.inr h)

/-- `TrieBuilder::insert` adds exactly the path `(word, id)` to the token-carrying paths. -/
theorem mem_paths_insertKids (word : List Byte) (t : Nat) (cs : List Tree) (hw : word ≠ [])
    (w : List Byte) (x : Nat) :
    (w, some x) ∈ pathsKids (insertKids word t cs) ↔
      (w, some x) ∈ pathsKids cs ∨ (w = word ∧ x = t) := by
  match word with
  | [] => exact absurd rfl hw
  | [b] => simp only [insertKids]; exact mem_paths_insertLast b t cs w x
  | b :: b2 :: rest =>
    simp only [insertKids]
    refine (mem_paths_modFirst b _ _ cs (fun q => q.1 = b :: b2 :: rest ∧ q.2 = some t) (w, some x) ?_ ?_).trans ?_
    · intro c hc
      cases c with
      | node cb ct ck =>
        simp only [Tree.byte] at hc
        subst hc
        simp only [Tree.byte, Tree.tok, Tree.kids, pathsTree, List.mem_cons, Prod.mk.injEq,
          List.mem_map, Option.some.injEq]
        constructor
        · rintro (h | ⟨p, hp, h1, h2⟩)
          · exact Or.inl (Or.inl h)
          · have hp' : (p.1, some x) ∈ pathsKids (insertKids (b2 :: rest) t ck) := by
              rw [← h2]; exact hp
            rcases (mem_paths_insertKids (b2 :: rest) t ck (by simp) p.1 x).mp hp' with h | ⟨h3, h4⟩
            · exact Or.inl (Or.inr ⟨(p.1, some x), h, by simp [h1]⟩)
            · exact Or.inr ⟨by rw [← h1, h3], by rw [h4]⟩
        · rintro ((h | ⟨p, hp, h1, h2⟩) | ⟨h1, h2⟩)
          · exact Or.inl h
          · right
            refine ⟨(p.1, some x), ?_, h1, rfl⟩
            apply (mem_paths_insertKids (b2 :: rest) t ck (by simp) p.1 x).mpr
            left; rw [← h2]; exact hp
          · right
            refine ⟨(b2 :: rest, some x), ?_, by simp [h1], rfl⟩
            apply (mem_paths_insertKids (b2 :: rest) t ck (by simp) (b2 :: rest) x).mpr
            right; exact ⟨rfl, h2⟩
    · simp only [pathsTree, List.mem_cons, Prod.mk.injEq, reduceCtorEq, and_false, List.mem_map,
        false_or, Option.some.injEq]
      constructor
      · rintro ⟨p, hp, h1, h2⟩
        have hp' : (p.1, some x) ∈ pathsKids (insertKids (b2 :: rest) t []) := by
          rw [← h2]; exact hp
        rcases (mem_paths_insertKids (b2 :: rest) t [] (by simp) p.1 x).mp hp' with h | ⟨h3, h4⟩
        · simp [pathsKids] at h
        · exact ⟨by rw [← h1, h3], by rw [h4]⟩
      · rintro ⟨h1, h2⟩
        refine ⟨(b2 :: rest, some x), ?_, by simp [h1], rfl⟩
        apply (mem_paths_insertKids (b2 :: rest) t [] (by simp) (b2 :: rest) x).mpr
        right; exact ⟨rfl, h2⟩
    · simp
termination_by word.length

end LlgVerif
