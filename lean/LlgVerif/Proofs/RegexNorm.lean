/- S2: the normalising constructors preserve the language; `derivN` is a derivative. -/
import LlgVerif.Proofs.RegexLang
namespace LlgVerif
namespace Rx

theorem lang_altOfList (l : List Rx) (w : List B) : lang (altOfList l) w ↔ ∃ r ∈ l, lang r w := by
  induction l with
  | nil => simp [altOfList, lang]
  | cons x xs ih =>
    cases xs with
    | nil => simp [altOfList]
    | cons y ys =>
      simp only [altOfList, lang, List.mem_cons, exists_eq_or_imp] at ih ⊢
      rw [ih]

theorem mem_insertDedup (x y : Rx) (l : List Rx) : y ∈ insertDedup x l ↔ y = x ∨ y ∈ l := by
  induction l with
  | nil => simp [insertDedup]
  | cons z zs ih =>
    simp only [insertDedup]
    split
    · rename_i h; subst h; simp
    · split
      · simp
      · simp only [List.mem_cons, ih]
        constructor
        · rintro (h | h | h)
          · exact Or.inr (Or.inl h)
          · exact Or.inl h
          · exact Or.inr (Or.inr h)
        · rintro (h | h | h)
          · exact Or.inr (Or.inl h)
          · exact Or.inl h
          · exact Or.inr (Or.inr h)

theorem mem_foldl_insertDedup (l acc : List Rx) (y : Rx) :
    y ∈ l.foldl (fun acc x => insertDedup x acc) acc ↔ y ∈ l ∨ y ∈ acc := by
  induction l generalizing acc with
  | nil => simp
  | cons x xs ih =>
    simp only [List.foldl_cons, ih, mem_insertDedup, List.mem_cons]
    constructor
    · rintro (h | h | h)
      · exact Or.inl (Or.inr h)
      · exact Or.inl (Or.inl h)
      · exact Or.inr h
    · rintro ((h | h) | h)
      · exact Or.inr (Or.inl h)
      · exact Or.inl h
      · exact Or.inr (Or.inr h)

theorem lang_flattenAlt (a : Rx) (w : List B) : (∃ r ∈ flattenAlt a, lang r w) ↔ lang a w := by
  induction a with
  | alt a b iha ihb =>
    simp only [flattenAlt, List.mem_append, lang, ← iha, ← ihb]
    constructor
    · rintro ⟨r, h | h, hl⟩
      · exact Or.inl ⟨r, h, hl⟩
      · exact Or.inr ⟨r, h, hl⟩
    · rintro (⟨r, h, hl⟩ | ⟨r, h, hl⟩)
      · exact ⟨r, Or.inl h, hl⟩
      · exact ⟨r, Or.inr h, hl⟩
  | empty => simp [flattenAlt]
  | eps => simp [flattenAlt]
  | set rs => simp [flattenAlt]
  | cat a b => simp [flattenAlt]
  | and a b => simp [flattenAlt]
  | not a => simp [flattenAlt]
  | star a => simp [flattenAlt]

theorem mkAlt_lang (a b : Rx) (w : List B) : lang (mkAlt a b) w ↔ lang a w ∨ lang b w := by
  unfold mkAlt
  simp only [lang_altOfList, mem_foldl_insertDedup, List.not_mem_nil, or_false, List.mem_filter,
    List.mem_append, ← lang_flattenAlt a, ← lang_flattenAlt b]
  constructor
  · rintro ⟨r, ⟨h | h, _⟩, hl⟩
    · exact Or.inl ⟨r, h, hl⟩
    · exact Or.inr ⟨r, h, hl⟩
  · rintro (⟨r, h, hl⟩ | ⟨r, h, hl⟩)
    · refine ⟨r, ⟨Or.inl h, ?_⟩, hl⟩
      simp only [ne_eq, decide_not, Bool.not_eq_eq_eq_not, Bool.not_true, decide_eq_false_iff_not]
      intro he; subst he; exact hl
    · refine ⟨r, ⟨Or.inr h, ?_⟩, hl⟩
      simp only [ne_eq, decide_not, Bool.not_eq_eq_eq_not, Bool.not_true, decide_eq_false_iff_not]
      intro he; subst he; exact hl

theorem lang_cat_empty_left (b : Rx) (w : List B) : lang (cat empty b) w ↔ False := by
  simp [lang]
theorem lang_cat_empty_right (a : Rx) (w : List B) : lang (cat a empty) w ↔ False := by
  simp [lang]
theorem lang_cat_eps_left (b : Rx) (w : List B) : lang (cat eps b) w ↔ lang b w := by
  simp only [lang]
  constructor
  · rintro ⟨u, v, h, hu, hv⟩; subst hu; simpa [h] using hv
  · intro h; exact ⟨[], w, rfl, rfl, h⟩
theorem lang_cat_eps_right (a : Rx) (w : List B) : lang (cat a eps) w ↔ lang a w := by
  simp only [lang]
  constructor
  · rintro ⟨u, v, h, hu, hv⟩; subst hv; simpa [h] using hu
  · intro h; exact ⟨w, [], by simp, h, rfl⟩

theorem mkCat_lang (a b : Rx) (w : List B) : lang (mkCat a b) w ↔ lang (cat a b) w := by
  cases a <;> cases b <;>
    simp only [mkCat, lang_cat_empty_left, lang_cat_empty_right, lang_cat_eps_left,
      lang_cat_eps_right] <;> simp [lang]

theorem mkAnd_lang (a b : Rx) (w : List B) : lang (mkAnd a b) w ↔ lang a w ∧ lang b w := by
  have key : ∀ a b : Rx, lang (if a = b then a else and a b) w ↔ lang a w ∧ lang b w := by
    intro a b
    split
    · rename_i h; subst h; simp
    · simp [lang]
  cases a <;> cases b <;> simp only [mkAnd] <;> first | exact key _ _ | simp [lang]

theorem mkNot_lang (a : Rx) (w : List B) : lang (mkNot a) w ↔ ¬ lang a w := by
  cases a <;> simp only [mkNot, lang]
  exact Classical.not_not.symm

theorem derivN_iff (r : Rx) (b : B) (w : List B) : lang (derivN r b) w ↔ lang r (b :: w) := by
  rw [← deriv_iff]
  induction r generalizing w with
  | empty => simp [derivN, deriv]
  | eps => simp [derivN, deriv]
  | set rs => simp [derivN, deriv]
  | cat a c iha ihc =>
    simp only [derivN, deriv]
    split
    · simp only [mkAlt_lang, mkCat_lang, lang, iha, ihc]
    · simp only [mkCat_lang, lang, iha]
  | alt a c iha ihc => simp only [derivN, deriv, mkAlt_lang, lang, iha, ihc]
  | and a c iha ihc => simp only [derivN, deriv, mkAnd_lang, lang, iha, ihc]
  | not a iha => simp only [derivN, deriv, mkNot_lang, lang, iha]
  | star a iha => simp only [derivN, deriv, mkCat_lang, lang, iha]

theorem derivsN_iff (r : Rx) (w v : List B) : lang (derivsN r w) v ↔ lang r (w ++ v) := by
  induction w generalizing r with
  | nil => rfl
  | cons b w ih => simp only [derivsN, ih, derivN_iff, List.cons_append]

end Rx
end LlgVerif
