/-
From the containment certificate to the slicer's hypothesis, through the byte-level engine M5: in a
lexer state without lazy lexemes, if the slice regex is contained in the prefixes of one entry's
remaining language, every non-empty string of the slice regex is accepted byte by byte.
-/
import LlgVerif.Proofs.Lexer
import LlgVerif.Proofs.Contain
namespace LlgVerif
namespace Lx
open Dfa

def NoLazy (C : Cfg) (s : LState) : Prop := ∀ e ∈ s, (C.lx e.1).isLazy = false

theorem step_nolazy (C : Cfg) (s : LState) (b : B) (h : NoLazy C s) : NoLazy C (step C s b) := by
  intro e he
  obtain ⟨e0, he0, hf⟩ := step_fst C s b e he
  rw [← hf]
  exact h e0 he0

theorem lowest_nolazy (C : Cfg) (s : LState) (h : NoLazy C s) :
    lowest C s = if allEoi C s then possible s else [] := by
  unfold lowest
  have : (s.filter (fun e => (C.lx e.1).isLazy && accAt (C.lx e.1).dfa e.2)) = [] := by
    rw [List.filter_eq_nil_iff]
    intro e he
    simp [h e he]
  simp [this]

theorem live_back {r : Rx} {d : Dfa} (g : Good r d) (v : List B) :
    ∀ q, q < d.states.size → d.live[Dfa.run d q v]! = true → d.live[q]! = true := by
  induction v with
  | nil => intro q _ h; exact h
  | cons b v ih =>
    intro q hq h
    have hn := ih (next d q b) (g.step_ok q hq b).1 h
    cases hl : d.live[q]! with
    | true => rfl
    | false =>
      have := (g.dead_ok q hq hl).2 b
      rw [this] at hn; exact absurd hn (by simp)

theorem mem_step (C : Cfg) (s : LState) (b : B) (l q : Nat) (h : (l, q) ∈ s)
    (hl : liveAt (C.lx l).dfa ((C.lx l).dfa.next q b) = true) : (l, (C.lx l).dfa.next q b) ∈ step C s b := by
  unfold step
  rw [List.mem_filterMap]
  exact ⟨(l, q), h, by simp [hl]⟩

theorem addUnique_len (l : List Ey.Item) (x : Ey.Item) : l.length ≤ (Ey.addUnique l x).length := by
  unfold Ey.addUnique
  split <;> simp

theorem foldl_addUnique_len (xs l : List Ey.Item) : l.length ≤ (xs.foldl Ey.addUnique l).length := by
  induction xs generalizing l with
  | nil => simp
  | cons x xs ih => simp only [List.foldl_cons]; exact Nat.le_trans (addUnique_len l x) (ih _)

theorem foldl_addUnique_ne (xs : List Ey.Item) (h : xs ≠ []) : xs.foldl Ey.addUnique [] ≠ [] := by
  cases xs with
  | nil => exact absurd rfl h
  | cons x xs =>
    simp only [List.foldl_cons]
    have h1 : 1 ≤ (Ey.addUnique [] x).length := by simp [Ey.addUnique]
    have h2 := Nat.le_trans h1 (foldl_addUnique_len xs (Ey.addUnique [] x))
    intro hc
    rw [hc] at h2
    simp at h2

theorem closure_len (g : Ey.CG) (rows : List (List Ey.Item)) (cur fuel : Nat) :
    ∀ (i : Nat) (l : List Ey.Item), l.length ≤ (Ey.closure g rows cur fuel i l).length := by
  induction fuel with
  | zero => intro i l; simp [Ey.closure]
  | succ fuel ih =>
    intro i l
    unfold Ey.closure
    split
    · simp
    · exact Nat.le_trans (foldl_addUnique_len _ l) (ih _ _)

/-- scanning a set that holds a lexeme the last row asks for gives a non-empty row -/
theorem nextRow_ne (g : Ey.CG) (rows : List (List Ey.Item)) (S : List Nat) (l : Nat) (hl : l ∈ S)
    (hal : l ∈ Ey.allowedLexemes g (lastRow rows)) : Ey.nextRow g rows S ≠ [] := by
  unfold Ey.allowedLexemes at hal
  rw [List.mem_filterMap] at hal
  obtain ⟨it, hit, hlex⟩ := hal
  have hsc : Ey.scanned g (lastRow rows) S ≠ [] := by
    unfold Ey.scanned
    intro hc
    have h1 := List.map_eq_nil_iff.mp hc
    rw [List.filter_eq_nil_iff] at h1
    have h2 := h1 it hit
    simp only [hlex] at h2
    exact h2 (List.contains_iff_mem.mpr hl)
  unfold Ey.nextRow
  simp only
  intro hc
  have h1 := closure_len g rows rows.length (Ey.fuelFor g rows.length) 0
    ((Ey.scanned g (rows.getD (rows.length - 1) []) S).foldl Ey.addUnique [])
  rw [hc] at h1
  have h2 := foldl_addUnique_ne _ hsc
  unfold lastRow at h2
  simp only [List.length_nil, Nat.le_zero_eq, List.length_eq_zero_iff] at h1
  exact h2 h1

/-- `advance` without a transition byte succeeds when the set holds a lexeme the lexer was allowed -/
theorem advance_some (C : Cfg) (hskip : ∀ k, C.skipId = some k → (C.lx k).skip = true) (st : St)
    (S : List Nat) (l : Nat) (hl : l ∈ S) (hal : AlOK C st.rows st.al) (hla : l ∈ st.al) (fuel : Nat) :
    (advance C st S none (fuel + 1)).isSome = true := by
  unfold advance
  have hscan : (scanSet C st S).isSome = true := by
    unfold scanSet
    split
    · rfl
    · rename_i hfind
      simp only
      have hne : Ey.nextRow C.g st.rows S ≠ [] := by
        apply nextRow_ne C.g st.rows S l hl
        rcases hal l hla with h | h
        · exact h
        · exfalso
          have hs := hskip l h.symm
          rw [List.find?_eq_none] at hfind
          have := hfind l hl
          simp [hs] at this
      simp [hne]
  cases hsc : scanSet C st S with
  | none => rw [hsc] at hscan; cases hscan
  | some t => obtain ⟨a, b, c⟩ := t; rfl

/-- a byte that keeps some entry alive in a state without lazy lexemes, when not every entry is at
its end: the lexer just moves on -/
theorem push_mid (C : Cfg) (st : St) (b : B) (hne : (step C st.ls b).isEmpty = false)
    (hnl : NoLazy C (step C st.ls b)) (hnot : allEoi C (step C st.ls b) = false) :
    push C st b = some { st with ls := step C st.ls b, pending := true } := by
  unfold push
  simp only [hne, Bool.false_eq_true, ↓reduceIte]
  rw [lowest_nolazy C _ hnl]
  simp [hnot]

/-- the same byte as the last one: the lexer moves on, or ends the lexeme with a set the parser takes -/
theorem push_last (C : Cfg) (hskip : ∀ k, C.skipId = some k → (C.lx k).skip = true) (st : St) (b : B)
    (l q' : Nat) (hmem' : (l, q') ∈ step C st.ls b) (hnl : NoLazy C (step C st.ls b))
    (hal : AlOK C st.rows st.al) (hla : l ∈ st.al) : (push C st b).isSome = true := by
  have hne : (step C st.ls b).isEmpty = false := by
    cases hs' : step C st.ls b with
    | nil => rw [hs'] at hmem'; cases hmem'
    | cons _ _ => rfl
  cases hall : allEoi C (step C st.ls b) with
  | false => rw [push_mid C st b hne hnl hall]; rfl
  | true =>
    unfold push
    simp only [hne, Bool.false_eq_true, ↓reduceIte]
    rw [lowest_nolazy C _ hnl]
    have hposs : (possible (step C st.ls b)).isEmpty = false := by
      cases hs' : step C st.ls b with
      | nil => rw [hs'] at hmem'; cases hmem'
      | cons _ _ => rfl
    simp only [hall, ↓reduceIte, hposs, Bool.not_false]
    exact advance_some C hskip { st with ls := step C st.ls b } (possible (step C st.ls b)) l
      (List.mem_map.mpr ⟨_, hmem', rfl⟩) hal hla 2

/-- the main induction: all of `w` is read from a state that tracks entry `(l, q)` -/
theorem run_contained (C : Cfg) (hw : C.wf = true) (hskip : ∀ k, C.skipId = some k → (C.lx k).skip = true)
    (rs : Rx) (ds : Dfa) (hs : check rs ds = true) (l : Nat) (hl : l < C.lexemes.size) (q0 : Nat)
    (pairs : List (Nat × Nat)) (hc : containCheck ds (C.lx l).dfa q0 pairs = true) :
    ∀ (w : List B) (st : St) (p q : Nat), (p, q) ∈ pairs → p < ds.states.size → q < (C.lx l).dfa.states.size →
      ds.acc[Dfa.run ds p w]! = true → w ≠ [] → (l, q) ∈ st.ls → NoLazy C st.ls →
      AlOK C st.rows st.al → (∀ e ∈ st.ls, e.1 ∈ st.al) → (Lx.run C st w).isSome = true := by
  have gs := good_of_check rs ds hs
  have gb := good_of_check _ _ (lex_check C hw l hl)
  have hclos : ∀ pq ∈ pairs, ∀ b : B, ds.live[next ds pq.1 b]! = true →
      (next ds pq.1 b, next (C.lx l).dfa pq.2 b) ∈ pairs := by
    intro pq hpq b hlv
    unfold containCheck at hc
    simp only [Bool.and_eq_true, List.all_eq_true, Bool.or_eq_true, Bool.not_eq_eq_eq_not, Bool.not_true,
      List.contains_iff_mem] at hc
    rcases (hc.2 pq hpq).2 b (mem_allBytes b) with h1 | h1
    · rw [hlv] at h1; cases h1
    · exact h1
  intro w
  induction w with
  | nil => intro st p q _ _ _ _ hne; exact absurd rfl hne
  | cons b w ih =>
    intro st p q hpq hp hq hacc _ hmem hnl hal hsub
    -- the entry survives the byte
    have hlive_all := contain_step gs q0 pairs hc (b :: w) p q hpq hp hacc
    simp only [Dfa.run] at hlive_all hacc
    have hq' := (gb.step_ok q hq b).1
    have hlive := live_back gb w _ hq' hlive_all
    have hmem' := mem_step C st.ls b l q hmem hlive
    have hne' : (step C st.ls b).isEmpty = false := by
      cases hs' : step C st.ls b with
      | nil => rw [hs'] at hmem'; cases hmem'
      | cons _ _ => rfl
    have hnl' := step_nolazy C st.ls b hnl
    have hsub' : ∀ e ∈ step C st.ls b, e.1 ∈ st.al := by
      intro e he
      obtain ⟨e0, he0, hf⟩ := step_fst C _ b e he
      rw [← hf]; exact hsub e0 he0
    simp only [Lx.run]
    cases w with
    | nil =>
      have hp := push_last C hskip st b l _ hmem' hnl' hal (hsub (l, q) hmem)
      cases hpp : push C st b with
      | none => rw [hpp] at hp; cases hp
      | some s2 => simp [Lx.run]
    | cons b2 w2 =>
      -- not the last byte: the entry cannot be at its end, so nothing is emitted
      have hp' := (gs.step_ok p hp b).1
      have hlp : ds.live[next ds p b]! = true := live_complete gs (b2 :: w2) _ hp' hacc
      have hpq' := hclos (p, q) hpq b hlp
      have hlive2_all := contain_step gs q0 pairs hc (b2 :: w2) _ _ hpq' hp' hacc
      simp only [Dfa.run] at hlive2_all
      have hlive2 := live_back gb w2 _ (gb.step_ok _ hq' b2).1 hlive2_all
      have hnot : allEoi C (step C st.ls b) = false := by
        cases hall : allEoi C (step C st.ls b) with
        | false => rfl
        | true =>
          exfalso
          unfold allEoi at hall
          simp only [Bool.and_eq_true, List.all_eq_true] at hall
          have he := hall.2 _ hmem'
          unfold eoi at he
          simp only [Bool.and_eq_true, List.all_eq_true, Bool.not_eq_eq_eq_not, Bool.not_true] at he
          have := he.2 b2 (mem_allBytes b2)
          unfold liveAt at this
          rw [hlive2] at this
          cases this
      rw [push_mid C st b hne' hnl' hnot]
      exact ih { st with ls := step C st.ls b, pending := true } _ _ hpq' hp' hq' hacc (by simp) hmem' hnl' hal hsub'

/-- from a reachable state: the hypothesis `Sound` of the slicer model for one matched slice -/
theorem slice_tokens_accepted (C : Cfg) (hw : C.wf = true)
    (hskip : ∀ k, C.skipId = some k → (C.lx k).skip = true) (w0 : List B) (st : St)
    (hrun : Lx.run C (init C) w0 = some st) (hnl : NoLazy C st.ls)
    (rs : Rx) (ds : Dfa) (hs : check rs ds = true) (l q : Nat) (hmem : (l, q) ∈ st.ls)
    (pairs : List (Nat × Nat)) (hc : containCheck ds (C.lx l).dfa q pairs = true)
    (w : List B) (hne : w ≠ []) (hlang : Rx.lang rs w) : (Lx.run C st w).isSome = true := by
  have hi := run_inv C hw w0 (init C) st [] (init_inv C) hrun
  obtain ⟨_, u, _, _, _, _, htr, _, hlive, hal, hsub⟩ := hi
  have hl : l < C.lexemes.size := by
    by_cases h : l < C.lexemes.size
    · exact h
    · have := hlive (l, q) hmem
      simp only at this
      rw [lx_default C l h, live_default] at this
      cases this
  have gb := good_of_check _ _ (lex_check C hw l hl)
  have hq : q < (C.lx l).dfa.states.size := by
    have := htr (l, q) hmem
    simp only at this
    rw [this]
    exact (Dfa.run_inv gb u 0 gb.pos).1
  have gs := good_of_check rs ds hs
  have h0 : (0, q) ∈ pairs := by
    unfold containCheck at hc
    simp only [Bool.and_eq_true, List.contains_iff_mem] at hc
    exact hc.1
  have hacc : ds.acc[Dfa.run ds 0 w]! = true := ((dfa_decides rs ds hs w).1).mpr hlang
  exact run_contained C hw hskip rs ds hs l hl q pairs hc w st 0 q h0 gs.pos hq hacc hne hmem hnl hal hsub

end Lx
end LlgVerif
