/-
Valid-prefix property of the Earley item sets: when every symbol that occurs in a right-hand side is
productive (`CG.allProductive`, an executable check), every `Want` item — hence every item of every
row of the model — lies on a derivation of some continuation: the input read so far can be extended
to an input the compiled grammar accepts.  This is the parser-level content of "no dead ends".
-/
import LlgVerif.Proofs.EarleyComplete
namespace LlgVerif
namespace Ey

/-! ### derivations only look at the part of the input they span -/

mutual
theorem der_local {g : CG} {inp inp' : List (List Nat)} {s i j : Nat} :
    Der g inp s i j → (∀ k, k < j → inp'.getD k [] = inp.getD k []) → j ≤ inp'.length → Der g inp' s i j
  | .lex hl hm _ => fun h hlen => Der.lex hl (by rw [h _ (Nat.lt_succ_self _)]; exact hm) hlen
  | .null hn => fun _ _ => Der.null hn
  | .rule hr hs hd => fun h hlen => Der.rule hr (seq_local hs h hlen) hd
theorem seq_local {g : CG} {inp inp' : List (List Nat)} {r p i j : Nat} :
    Seq g inp r p i j → (∀ k, k < j → inp'.getD k [] = inp.getD k []) → j ≤ inp'.length → Seq g inp' r p i j
  | .nil => fun _ _ => Seq.nil
  | .snoc hs hne hd => fun h hlen =>
      have hkj := der_mono hd
      Seq.snoc (seq_local hs (fun k hk => h k (by omega)) (by omega)) hne (der_local hd h hlen)
end

theorem getD_append_left' (a b : List (List Nat)) (k : Nat) (h : k < a.length) :
    (a ++ b).getD k [] = a.getD k [] := by
  simp only [List.getD_eq_getElem?_getD]
  rw [List.getElem?_append_left h]

/-- a symbol is productive: after any input it derives some continuation -/
def Prod (g : CG) (s : Nat) : Prop :=
  ∀ pre : List (List Nat), ∃ v, Der g (pre ++ v) s pre.length (pre.length + v.length)

/-- a partial right-hand side whose remaining symbols are productive can be completed -/
theorem extend_seq (g : CG) (r0 i : Nat) :
    ∀ fuel r (inp : List (List Nat)), g.rhs.size ≤ fuel + r → Seq g inp r0 r i inp.length →
      (∀ x ∈ g.rhsFrom fuel r, Prod g x) →
      ∃ v p, Seq g (inp ++ v) r0 p i (inp.length + v.length) ∧ g.atDot p = 0 := by
  intro fuel
  induction fuel with
  | zero =>
    intro r inp hr hs _
    exact ⟨[], r, by simpa using hs, atDot_out_of_range g r (by omega)⟩
  | succ fuel ih =>
    intro r inp hr hs hall
    unfold CG.rhsFrom at hall
    split at hall
    · rename_i h0
      exact ⟨[], r, by simpa using hs, h0⟩
    · rename_i hne
      obtain ⟨v1, hd⟩ := hall _ List.mem_cons_self inp
      have hs' : Seq g (inp ++ v1) r0 r i inp.length :=
        seq_local hs (fun k hk => getD_append_left' inp v1 k hk) (by simp)
      have hsn := Seq.snoc hs' hne hd
      have hlen : (inp ++ v1).length = inp.length + v1.length := by simp
      rw [← hlen] at hsn
      obtain ⟨v2, p, hp, h0⟩ := ih (r + 1) (inp ++ v1) (by omega) hsn
        (fun x hx => hall x (List.mem_cons_of_mem _ hx))
      refine ⟨v1 ++ v2, p, ?_, h0⟩
      rw [← List.append_assoc]
      have e : inp.length + (v1 ++ v2).length = (inp ++ v1).length + v2.length := by simp; omega
      rw [e]; exact hp

theorem prodIter_sound (g : CG) : ∀ n s, s ∈ prodIter g n → Prod g s := by
  intro n
  induction n with
  | zero => intro s hs; simp [prodIter] at hs
  | succ n ih =>
    intro s hs
    simp only [prodIter, prodStep, List.mem_filter, List.mem_range, Bool.or_eq_true,
      List.any_eq_true, List.all_eq_true] at hs
    obtain ⟨_, ((h | h) | h) | ⟨r, hr, hall⟩⟩ := hs
    · exact ih s (by simpa using h)
    · intro pre
      rw [Option.isSome_iff_exists] at h
      obtain ⟨l, hl⟩ := h
      refine ⟨[[l]], ?_⟩
      have : Der g (pre ++ [[l]]) s pre.length (pre.length + 1) :=
        Der.lex hl (by simp [List.getD_eq_getElem?_getD]) (by simp)
      simpa using this
    · intro pre
      exact ⟨[], by simpa using (Der.null h : Der g (pre ++ []) s pre.length pre.length)⟩
    · intro pre
      obtain ⟨v, p, hp, h0⟩ := extend_seq g r pre.length g.rhs.size r pre (by omega) Seq.nil
        (fun x hx => ih x (by simpa using hall x hx))
      exact ⟨v, Der.rule hr hp h0⟩

structure AllProd (g : CG) : Prop where
  prod : ∀ p, g.atDot p ≠ 0 → Prod g (g.atDot p)

theorem allProd_of_check (g : CG) (h : g.allProductive = true) : AllProd g := by
  refine ⟨?_⟩
  intro p hne
  unfold CG.allProductive at h
  simp only [List.all_eq_true, List.mem_range, Bool.or_eq_true, beq_iff_eq] at h
  by_cases hp : p < g.rhs.size
  · rcases h p hp with h1 | h1
    · exact absurd h1 hne
    · exact prodIter_sound g _ _ (by simpa using h1)
  · exact absurd (atDot_out_of_range g p hp) hne

theorem rhsFrom_atDot (g : CG) : ∀ fuel r, ∀ x ∈ g.rhsFrom fuel r, ∃ q, x = g.atDot q ∧ g.atDot q ≠ 0 := by
  intro fuel
  induction fuel with
  | zero => intro r x hx; simp [CG.rhsFrom] at hx
  | succ fuel ih =>
    intro r x hx
    unfold CG.rhsFrom at hx
    split at hx
    · cases hx
    · rename_i hne
      rcases List.mem_cons.mp hx with h | h
      · exact ⟨r, h, hne⟩
      · exact ih (r + 1) x h

/-- complete the rule of an item -/
theorem finish_rule (g : CG) (hp : AllProd g) {inp : List (List Nat)} {r p i : Nat}
    (hs : Seq g inp r p i inp.length) :
    ∃ v p', Seq g (inp ++ v) r p' i (inp.length + v.length) ∧ g.atDot p' = 0 :=
  extend_seq g r i g.rhs.size p inp (by omega) hs (fun x hx => by
    obtain ⟨q, rfl, hne⟩ := rhsFrom_atDot g _ _ x hx
    exact hp.prod q hne)

/-! ### wanted items are sound -/

theorem want_sound (g : CG) (hw : WF g) (inp : List (List Nat)) (j : Nat) (it : Item)
    (h : Want g inp j it) : j ≤ inp.length ∧ ItemOK g inp j it := by
  induction h with
  | @start r hr =>
    refine ⟨Nat.zero_le _, Nat.le_refl _, r, ?_, Seq.nil⟩
    simp only; rw [lhs_of_rule g hw _ r hr]; exact hr
  | @predict j p i r _ hne hr ih =>
    refine ⟨ih.1, Nat.le_refl _, r, ?_, Seq.nil⟩
    simp only; rw [lhs_of_rule g hw _ r hr]; exact hr
  | @nullable j p i _ hne hn ih =>
    obtain ⟨hj, hle, r, hr, hs⟩ := ih
    refine ⟨hj, hle, r, ?_, Seq.snoc hs hne (Der.null hn)⟩
    simp only; rw [lhs_succ g hw p hne]; exact hr
  | @scan j p i l _ hl hm hlt ih =>
    obtain ⟨hj, hle, r, hr, hs⟩ := ih
    have hne : g.atDot p ≠ 0 := by
      intro h0; rw [h0, hw.null_lexeme] at hl; cases hl
    refine ⟨hlt, Nat.le_succ_of_le hle, r, ?_, Seq.snoc hs hne (Der.lex hl hm hlt)⟩
    simp only; rw [lhs_succ g hw p hne]; exact hr
  | @complete j p k q i _ hdot hk _ hq ih1 ih2 =>
    obtain ⟨hj, _, r, hr, hs⟩ := ih1
    obtain ⟨_, hle2, r2, hr2, hs2⟩ := ih2
    have hne : g.atDot q ≠ 0 := by
      rw [hq]; intro h0
      simp only at hr
      rw [h0, hw.null_rules] at hr; cases hr
    have hder : Der g inp (g.atDot q) k j := by rw [hq]; exact Der.rule hr hs hdot
    refine ⟨hj, by simp only at hle2 ⊢; omega, r2, ?_, Seq.snoc hs2 hne hder⟩
    simp only; rw [lhs_succ g hw q hne]; exact hr2

/-! ### every wanted item has a continuation to acceptance -/

/-- the compiled grammar accepts `inp` -/
def Accepts (g : CG) (inp : List (List Nat)) : Prop :=
  ∃ r ∈ (g.sym g.start).rules, ∃ p, Seq g inp r p 0 inp.length ∧ g.atDot p = 0

/-- whatever a rule of `A`, predicted after the first `i` lexemes of `lexs`, derives, can be
continued to an accepted input -/
def Cont (g : CG) (lexs : List (List Nat)) (i A : Nat) : Prop :=
  ∀ inp : List (List Nat), i ≤ inp.length → (∀ k, k < i → inp.getD k [] = lexs.getD k []) →
    (∃ r ∈ (g.sym A).rules, ∃ p, Seq g inp r p i inp.length ∧ g.atDot p = 0) →
    ∃ v, Accepts g (inp ++ v)

theorem take_getD (l : List (List Nat)) (j k : Nat) (h : k < j) : (l.take j).getD k [] = l.getD k [] := by
  simp only [List.getD_eq_getElem?_getD]
  rw [List.getElem?_take_of_lt h]

theorem want_cont (g : CG) (hw : WF g) (hp : AllProd g) (lexs : List (List Nat)) (j : Nat) (it : Item)
    (h : Want g lexs j it) : Cont g lexs it.2 (g.lhs it.1) := by
  induction h with
  | @start r hr =>
    intro inp _ _ hd
    simp only at hd
    rw [lhs_of_rule g hw _ r hr] at hd
    exact ⟨[], by simpa [Accepts] using hd⟩
  | @predict j p i r hwant hne hr ih =>
    -- a rule of `B = atDot p` predicted at `j`: continue the parent item over what `B` derives
    intro inp hlen hagree hd
    simp only at hlen hagree hd ih
    rw [lhs_of_rule g hw _ r hr] at hd
    obtain ⟨rB, hrB, pB, hsB, h0B⟩ := hd
    obtain ⟨hj, hle, r0, hr0, hs0⟩ := want_sound g hw lexs j (p, i) hwant
    simp only at hle hr0 hs0
    have hs0' : Seq g inp r0 p i j := seq_local hs0 (fun k hk => hagree k hk) hlen
    have hderB : Der g inp (g.atDot p) j inp.length := Der.rule hrB hsB h0B
    have hs1 : Seq g inp r0 (p + 1) i inp.length := Seq.snoc hs0' hne hderB
    obtain ⟨v1, p1, hs2, h01⟩ := finish_rule g hp hs1
    have := ih (inp ++ v1) (by simp; omega)
      (fun k hk => by rw [getD_append_left' inp v1 k (by omega)]; exact hagree k (by omega))
      ⟨r0, hr0, p1, by simpa using hs2, h01⟩
    obtain ⟨v2, hacc⟩ := this
    exact ⟨v1 ++ v2, by rw [← List.append_assoc]; exact hacc⟩
  | @nullable j p i _ hne _ ih =>
    simp only at ih ⊢
    rw [lhs_succ g hw p hne]; exact ih
  | @scan j p i l _ hl _ _ ih =>
    have hne : g.atDot p ≠ 0 := by
      intro h0; rw [h0, hw.null_lexeme] at hl; cases hl
    simp only at ih ⊢
    rw [lhs_succ g hw p hne]; exact ih
  | @complete j p k q i hw1 hdot hk hw2 hq _ ih2 =>
    have hne : g.atDot q ≠ 0 := by
      obtain ⟨_, _, r, hr, _⟩ := want_sound g hw lexs j (p, k) hw1
      rw [hq]; intro h0
      simp only at hr
      rw [h0, hw.null_rules] at hr; cases hr
    simp only at ih2 ⊢
    rw [lhs_succ g hw q hne]; exact ih2

/-- **valid-prefix property**: every wanted item lies on an accepted continuation of the input read
so far -/
theorem want_viable (g : CG) (hw : WF g) (hp : AllProd g) (lexs : List (List Nat)) (j : Nat) (it : Item)
    (h : Want g lexs j it) : ∃ v, Accepts g (lexs.take j ++ v) := by
  obtain ⟨hj, hle, r, hr, hs⟩ := want_sound g hw lexs j it h
  have hlen : (lexs.take j).length = j := by simp; omega
  have hs' : Seq g (lexs.take j) r it.1 it.2 (lexs.take j).length := by
    rw [hlen]
    exact seq_local hs (fun k hk => take_getD lexs j k hk) (by omega)
  obtain ⟨v1, p1, hs2, h01⟩ := finish_rule g hp hs'
  have hc := want_cont g hw hp lexs j it h (lexs.take j ++ v1) (by simp; omega)
    (fun k hk => by
      rw [getD_append_left' _ v1 k (by omega)]
      exact take_getD lexs j k (by omega))
    ⟨r, hr, p1, by simpa using hs2, h01⟩
  obtain ⟨v2, hacc⟩ := hc
  exact ⟨v1 ++ v2, by rw [← List.append_assoc]; exact hacc⟩

end Ey
end LlgVerif
