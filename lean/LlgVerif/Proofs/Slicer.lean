/- M7: the slice tree application yields exactly the allowed tokens of the slice. -/
import LlgVerif.Model.Slicer
namespace LlgVerif
namespace Slice

/-- children's masks are contained in the parent's, recursively -/
inductive WFS : Slice → Prop where
  | mk (i : Nat) (m : List Nat) (kids : List Slice)
      (hsub : ∀ c ∈ kids, ∀ t ∈ c.mask, t ∈ m) (hk : ∀ c ∈ kids, WFS c) : WFS (node i m kids)

/-- every matched node of the subtree holds only allowed tokens (`slice_sound`) -/
inductive Sound (mtch : Nat → Bool) (allowed : Nat → Bool) : Slice → Prop where
  | mk (i : Nat) (m : List Nat) (kids : List Slice)
      (hm : mtch i = true → ∀ t ∈ m, allowed t = true)
      (hk : ∀ c ∈ kids, Sound mtch allowed c) : Sound mtch allowed (node i m kids)

def AppliedMem : List Slice → List Bool → Nat → Prop
  | c :: cs, f :: fs, t => (f = true ∧ t ∈ c.mask) ∨ AppliedMem cs fs t
  | _, _, _ => False

def UnappliedMem : List Slice → List Bool → Nat → Prop
  | c :: cs, f :: fs, t => (f = false ∧ t ∈ c.mask) ∨ UnappliedMem cs fs t
  | _, _, _ => False

theorem mem_walk (allowed : Nat → Bool) (xs acc : List Nat) (t : Nat) :
    t ∈ walk allowed xs acc ↔ t ∈ acc ∨ (t ∈ xs ∧ allowed t = true) := by
  simp [walk, List.mem_filter]

theorem mem_diff (a b : List Nat) (t : Nat) : t ∈ diff a b ↔ t ∈ a ∧ t ∉ b := by
  simp [diff, List.mem_filter]

theorem anyMem_split (kids : List Slice) (flags : List Bool) (h : flags.length = kids.length) (t : Nat) :
    (∃ c ∈ kids, t ∈ c.mask) ↔ AppliedMem kids flags t ∨ UnappliedMem kids flags t := by
  induction kids generalizing flags with
  | nil => cases flags <;> simp [AppliedMem, UnappliedMem]
  | cons c cs ih =>
    cases flags with
    | nil => simp at h
    | cons f fs =>
      simp only [List.length_cons, Nat.add_right_cancel_iff] at h
      simp only [List.mem_cons, exists_eq_or_imp, AppliedMem, UnappliedMem, ih fs h]
      cases f <;> simp <;> constructor
      · rintro (h | h | h)
        · exact Or.inr (Or.inl h)
        · exact Or.inl h
        · exact Or.inr (Or.inr h)
      · rintro (h | h | h)
        · exact Or.inr (Or.inl h)
        · exact Or.inl h
        · exact Or.inr (Or.inr h)
      · rintro (h | h | h)
        · exact Or.inl (Or.inl h)
        · exact Or.inl (Or.inr h)
        · exact Or.inr h
      · rintro ((h | h) | h)
        · exact Or.inl h
        · exact Or.inr (Or.inl h)
        · exact Or.inr (Or.inr h)

theorem mem_walkUnapplied (allowed : Nat → Bool) (kids : List Slice) (flags : List Bool) (acc : List Nat) (t : Nat) :
    t ∈ walkUnapplied allowed kids flags acc ↔ t ∈ acc ∨ (UnappliedMem kids flags t ∧ allowed t = true) := by
  induction kids generalizing flags acc with
  | nil => cases flags <;> simp [walkUnapplied, UnappliedMem]
  | cons c cs ih =>
    cases flags with
    | nil => simp [walkUnapplied, UnappliedMem]
    | cons f fs =>
      simp only [walkUnapplied, ih, UnappliedMem]
      cases f
      · simp only [Bool.false_eq_true, ↓reduceIte, mem_walk, true_and]
        constructor
        · rintro ((h | ⟨h1, h2⟩) | ⟨h1, h2⟩)
          · exact Or.inl h
          · exact Or.inr ⟨Or.inl h1, h2⟩
          · exact Or.inr ⟨Or.inr h1, h2⟩
        · rintro (h | ⟨h1 | h1, h2⟩)
          · exact Or.inl (Or.inl h)
          · exact Or.inl (Or.inr ⟨h1, h2⟩)
          · exact Or.inr ⟨h1, h2⟩
      · simp

/-- when exactly one flag is set, the applied children are the one at `idxOf true` -/
theorem appliedMem_single (kids : List Slice) (flags : List Bool) (h : flags.length = kids.length)
    (h1 : flags.count true = 1) (t : Nat) :
    AppliedMem kids flags t ↔ t ∈ ((kids[flags.idxOf true]?).map Slice.mask |>.getD []) := by
  induction kids generalizing flags with
  | nil => cases flags <;> simp [AppliedMem]
  | cons c cs ih =>
    cases flags with
    | nil => simp at h
    | cons f fs =>
      simp only [List.length_cons, Nat.add_right_cancel_iff] at h
      cases f with
      | true =>
        have h0 : fs.count true = 0 := by simpa [List.count_cons] using h1
        have hno : ∀ t, ¬ AppliedMem cs fs t := by
          intro t
          have hall : ∀ b ∈ fs, b = false := by
            intro b hb
            cases b with
            | false => rfl
            | true => exact absurd (List.count_pos_iff.mpr hb) (by omega)
          clear ih h1 h0
          induction cs generalizing fs with
          | nil => cases fs <;> simp [AppliedMem]
          | cons c' cs' ih' =>
            cases fs with
            | nil => simp [AppliedMem]
            | cons f' fs' =>
              simp only [AppliedMem, not_or, not_and]
              have hf' := hall f' List.mem_cons_self
              subst hf'
              refine ⟨by simp, ih' fs' (by simpa using h) (fun b hb => hall b (List.mem_cons_of_mem _ hb))⟩
        simp [AppliedMem, hno t, List.idxOf_cons]
      | false =>
        have h1' : fs.count true = 1 := by simpa [List.count_cons] using h1
        have := ih fs h h1'
        simp only [AppliedMem, Bool.false_eq_true, false_and, false_or, this]
        have hi : (false :: fs).idxOf true = fs.idxOf true + 1 := by simp [List.idxOf_cons]
        rw [hi]
        simp

mutual
theorem apply_spec (mtch allowed : Nat → Bool) (s : Slice) (acc : List Nat)
    (hwf : WFS s) (hs : Sound mtch allowed s) (t : Nat) :
    t ∈ (apply mtch allowed s acc).2 ↔
      t ∈ acc ∨ ((apply mtch allowed s acc).1 = true ∧ t ∈ s.mask ∧ allowed t = true) := by
  match s, hwf, hs with
  | node i m kids, WFS.mk _ _ _ hsub hkw, Sound.mk _ _ _ hm hks =>
    unfold apply
    by_cases hmi : mtch i = true
    · simp only [hmi, ↓reduceIte, List.mem_append, Slice.mask, true_and]
      constructor
      · rintro (h | h)
        · exact Or.inl h
        · exact Or.inr ⟨h, hm hmi t h⟩
      · rintro (h | ⟨h, _⟩)
        · exact Or.inl h
        · exact Or.inr h
    · simp only [hmi, Bool.false_eq_true, ↓reduceIte, Slice.mask]
      obtain ⟨hlen, hk⟩ := applyKids_spec mtch allowed kids acc hkw hks t
      have hsplit := anyMem_split kids (applyKids mtch allowed kids acc).2 hlen t
      have happ_sub : AppliedMem kids (applyKids mtch allowed kids acc).2 t → t ∈ m := by
        intro ha
        obtain ⟨c, hc, htc⟩ := hsplit.mpr (Or.inl ha)
        exact hsub c hc t htc
      split
      · -- no child applied
        rename_i hall
        have hno : ¬ AppliedMem kids (applyKids mtch allowed kids acc).2 t := by
          generalize (applyKids mtch allowed kids acc).2 = flags at hall
          clear hk hsplit happ_sub hlen
          induction kids generalizing flags with
          | nil => cases flags <;> simp [AppliedMem]
          | cons c cs ih =>
            cases flags with
            | nil => simp [AppliedMem]
            | cons f fs =>
              simp only [List.all_cons, Bool.and_eq_true, Bool.not_eq_eq_eq_not, Bool.not_true] at hall
              simp only [AppliedMem, not_or, not_and]
              refine ⟨by simp [hall.1], ih (fun c hc => hsub c (List.mem_cons_of_mem _ hc))
                (fun c hc => hkw c (List.mem_cons_of_mem _ hc)) (fun c hc => hks c (List.mem_cons_of_mem _ hc)) fs hall.2⟩
        simp only [hk, hno, false_and, or_false, Bool.false_eq_true]
      · split
        · -- exactly one child applied
          rename_i _ hone
          simp only [mem_walk, mem_diff, hk, true_and]
          rw [← appliedMem_single kids _ hlen hone t]
          constructor
          · rintro ((h | ⟨h1, h2⟩) | ⟨⟨h1, _⟩, h2⟩)
            · exact Or.inl h
            · exact Or.inr ⟨happ_sub h1, h2⟩
            · exact Or.inr ⟨h1, h2⟩
          · rintro (h | ⟨h1, h2⟩)
            · exact Or.inl (Or.inl h)
            · by_cases ha : AppliedMem kids (applyKids mtch allowed kids acc).2 t
              · exact Or.inl (Or.inr ⟨ha, h2⟩)
              · exact Or.inr ⟨⟨h1, ha⟩, h2⟩
        · -- several children applied
          simp only [mem_walk, mem_diff, mem_walkUnapplied, hk, true_and, List.mem_flatMap]
          constructor
          · rintro (((h | ⟨h1, h2⟩) | ⟨h1, h2⟩) | ⟨⟨h1, _⟩, h2⟩)
            · exact Or.inl h
            · exact Or.inr ⟨happ_sub h1, h2⟩
            · obtain ⟨c, hc, htc⟩ := hsplit.mpr (Or.inr h1)
              exact Or.inr ⟨hsub c hc t htc, h2⟩
            · exact Or.inr ⟨h1, h2⟩
          · rintro (h | ⟨h1, h2⟩)
            · exact Or.inl (Or.inl (Or.inl h))
            · by_cases hany : ∃ c ∈ kids, t ∈ c.mask
              · rcases hsplit.mp hany with ha | hu
                · exact Or.inl (Or.inl (Or.inr ⟨ha, h2⟩))
                · exact Or.inl (Or.inr ⟨hu, h2⟩)
              · exact Or.inr ⟨⟨h1, hany⟩, h2⟩
theorem applyKids_spec (mtch allowed : Nat → Bool) (kids : List Slice) (acc : List Nat)
    (hwf : ∀ c ∈ kids, WFS c) (hs : ∀ c ∈ kids, Sound mtch allowed c) (t : Nat) :
    (applyKids mtch allowed kids acc).2.length = kids.length ∧
    (t ∈ (applyKids mtch allowed kids acc).1 ↔
      t ∈ acc ∨ (AppliedMem kids (applyKids mtch allowed kids acc).2 t ∧ allowed t = true)) := by
  match kids with
  | [] => simp [applyKids, AppliedMem]
  | c :: cs =>
    have hc := apply_spec mtch allowed c acc (hwf c List.mem_cons_self) (hs c List.mem_cons_self) t
    obtain ⟨hl, hr⟩ := applyKids_spec mtch allowed cs (apply mtch allowed c acc).2
      (fun x hx => hwf x (List.mem_cons_of_mem _ hx)) (fun x hx => hs x (List.mem_cons_of_mem _ hx)) t
    refine ⟨by simp [applyKids, hl], ?_⟩
    simp only [applyKids, AppliedMem, hr, hc]
    constructor
    · rintro ((h | ⟨h1, h2, h3⟩) | ⟨h1, h2⟩)
      · exact Or.inl h
      · exact Or.inr ⟨Or.inl ⟨h1, h2⟩, h3⟩
      · exact Or.inr ⟨Or.inr h1, h2⟩
    · rintro (h | ⟨⟨h1, h2⟩ | h1, h3⟩)
      · exact Or.inl (Or.inl h)
      · exact Or.inl (Or.inr ⟨h1, h2, h3⟩)
      · exact Or.inr ⟨h1, h3⟩
end

end Slice
end LlgVerif
