import LlgVerif.Spec.Contain
import LlgVerif.Proofs.RegexDfa
namespace LlgVerif
namespace Dfa
open Rx

theorem contain_step {rs : Rx} {ds db : Dfa} (gs : Good rs ds) (q0 : Nat) (pairs : List (Nat × Nat))
    (h : containCheck ds db q0 pairs = true) (w : List B) :
    ∀ p q, (p, q) ∈ pairs → p < ds.states.size → ds.acc[run ds p w]! = true → db.live[run db q w]! = true := by
  unfold containCheck at h
  simp only [Bool.and_eq_true, List.all_eq_true, Bool.or_eq_true, Bool.not_eq_eq_eq_not, Bool.not_true,
    List.contains_iff_mem] at h
  obtain ⟨_, hall⟩ := h
  induction w with
  | nil =>
    intro p q hm _ hacc
    simp only [run] at hacc ⊢
    rcases (hall (p, q) hm).1 with h1 | h1
    · simp only at h1; rw [hacc] at h1; cases h1
    · exact h1
  | cons b w ih =>
    intro p q hm hp hacc
    simp only [run] at hacc ⊢
    have hlive := live_complete gs w (next ds p b) (gs.step_ok p hp b).1 hacc
    rcases (hall (p, q) hm).2 b (mem_allBytes b) with h1 | h1
    · simp only at h1; rw [hlive] at h1; cases h1
    · exact ih _ _ h1 (gs.step_ok p hp b).1 hacc

/-- a checked containment certificate: every string of the small regex, read from state `run db 0 u`
of the big automaton, is a prefix of a string the big regex matches after `u` -/
theorem contain_sound (rs rb : Rx) (ds db : Dfa) (hs : check rs ds = true) (hb : check rb db = true)
    (u : List B) (pairs : List (Nat × Nat)) (h : containCheck ds db (run db 0 u) pairs = true)
    (w : List B) (hw : lang rs w) : ∃ v, lang rb (u ++ w ++ v) := by
  have gs := good_of_check rs ds hs
  have gb := good_of_check rb db hb
  have h0 : (0, run db 0 u) ∈ pairs := by
    unfold containCheck at h
    simp only [Bool.and_eq_true, List.contains_iff_mem] at h
    exact h.1
  have hacc : ds.acc[run ds 0 w]! = true := ((dfa_decides rs ds hs w).1).mpr hw
  have hlive := contain_step gs (run db 0 u) pairs h w 0 (run db 0 u) h0 gs.pos hacc
  rw [← run_append] at hlive
  have := (dfa_decides rb db hb (u ++ w)).2.mp hlive
  exact this

end Dfa
end LlgVerif
