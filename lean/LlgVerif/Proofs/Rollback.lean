import LlgVerif.Model.Cache
namespace LlgVerif

theorem digitsLoop_eq (fuel n len : Nat) (hlen : 1 ≤ len) :
    digitsLoop fuel n len = len + (decDigits fuel n).length - 1 := by
  induction fuel generalizing n len with
  | zero => simp [digitsLoop, decDigits]
  | succ f ih =>
    simp only [digitsLoop, decDigits]
    split
    · rw [ih (n / 10) (len + 1) (by omega)]
      simp only [List.length_append, List.length_singleton]
      have : 1 ≤ (decDigits f (n / 10)).length := by
        cases f <;> simp [decDigits] <;> split <;> simp
      omega
    · simp

/-- **tokenLen_eq_decodeRaw_length** — the number of bytes `rollback` attributes to a token
(`TokTrie::token_len`, which counts decimal digits in a loop) is the number of bytes `commit`
applied for it (`TokTrie::decode_raw`, which prints `\xFF[<id>]` for special and empty tokens). -/
theorem tokenLen_eq_decodeRaw_length (v : Vocab) (t : Nat) :
    v.tokenLen t = (v.decodeRaw t).length := by
  unfold Vocab.tokenLen Vocab.decodeRaw
  split
  · simp only [specialTokenLen, decodeSpecial, List.length_cons, List.length_append,
      List.length_nil]
    rw [digitsLoop_eq _ _ _ (by omega)]
    have : 1 ≤ (decDigits (t + 1) t).length := by
      simp [decDigits]; split <;> simp
    omega
  · rfl

/-- a committed token with the lexer-stack entries pushed for its bytes (any token id: an EOS token
the grammar consumes as a token is committed like every other special token) -/
structure Cmt (LS : Type) where
  t : Nat
  ls : List LS

def Cmt.WF {LS} (v : Vocab) (c : Cmt LS) : Prop := c.ls.length = (v.decodeRaw c.t).length

def RState.apply {LS} (v : Vocab) (s : RState LS) (c : Cmt LS) : RState LS := s.commit v c.t c.ls

def RState.WF {LS} (s : RState LS) : Prop :=
  s.byteTok.length = s.pBytes.length ∧ s.llmBytes.length = s.pBytes.length ∧
  s.lexStack.length = s.pBytes.length + 1

theorem apply_decomp {LS} (v : Vocab) (cs : List (Cmt LS)) (s : RState LS)
    (hcs : ∀ c ∈ cs, c.WF v) :
    ∃ (B : List Byte') (T : List Nat) (Ls : List LS),
      cs.foldl (RState.apply v) s =
        { tokens := s.tokens ++ cs.map Cmt.t, llmBytes := s.llmBytes ++ B,
          pBytes := s.pBytes ++ B, byteTok := s.byteTok ++ T, lexStack := s.lexStack ++ Ls,
          stopOk := s.stopOk, bareEos := if cs = [] then s.bareEos else false } ∧
      T.length = B.length ∧ ((cs.map Cmt.t).map v.tokenLen).sum = B.length := by
  induction cs generalizing s with
  | nil =>
    refine ⟨[], [], [], ?_, rfl, rfl⟩
    simp
  | cons c cs ih =>
    have hc := hcs c List.mem_cons_self
    obtain ⟨B, T, Ls, heq, h1, h3⟩ := ih (s.apply v c) (fun c' h => hcs c' (List.mem_cons_of_mem _ h))
    refine ⟨v.decodeRaw c.t ++ B, List.replicate (v.decodeRaw c.t).length s.tokens.length ++ T, c.ls ++ Ls, ?_, ?_, ?_⟩
    · rw [List.foldl_cons, heq]
      simp only [RState.apply, RState.commit, List.map_cons, List.append_assoc, List.singleton_append]
      simp
    · simp [h1]
    · simp only [List.map_cons, List.sum_cons, List.length_append, h3]
      rw [tokenLen_eq_decodeRaw_length]

end LlgVerif
