import LlgVerif.Model.Cache
namespace LlgVerif

theorem digitsLoop_eq (fuel n len : Nat) (hlen : 1 ≤ len) :
    digitsLoop fuel n len = len + (decDigits fuel n).length - 1 := by
  induction fuel generalizing n len with
  | zero => simp [digitsLoop, decDigits]
  | succ f ih =>
    simp only [digitsLoop, decDigits]
    split
    · rw [ih (n / 10) (len + 1) (by omega)]
      simp only [List.length_append, List.length_singleton]
      have : 1 ≤ (decDigits f (n / 10)).length := by
        cases f <;> simp [decDigits] <;> split <;> simp
      omega
    · simp

/-- **tokenLen_eq_decodeRaw_length** — the number of bytes `rollback` attributes to a token
(`TokTrie::token_len`, which counts decimal digits in a loop) is the number of bytes `commit`
applied for it (`TokTrie::decode_raw`, which prints `\xFF[<id>]` for special and empty tokens). -/
theorem tokenLen_eq_decodeRaw_length (v : Vocab) (t : Nat) :
    v.tokenLen t = (v.decodeRaw t).length := by
  unfold Vocab.tokenLen Vocab.decodeRaw
  split
  · simp only [specialTokenLen, decodeSpecial, List.length_cons, List.length_append,
      List.length_nil]
    rw [digitsLoop_eq _ _ _ (by omega)]
    have : 1 ≤ (decDigits (t + 1) t).length := by
      simp [decDigits]; split <;> simp
    omega
  · rfl

/-- a committed step: a non-EOS token with the lexer-stack entries pushed for its bytes, or EOS -/
inductive Cmt (LS : Type) where
  | tok (t : Nat) (ls : List LS)
  | eos (t : Nat) (extra : List LS)

def Cmt.token {LS} : Cmt LS → Nat
  | .tok t _ => t
  | .eos t _ => t

def Cmt.WF {LS} (v : Vocab) : Cmt LS → Prop
  | .tok t ls => v.eos.contains t = false ∧ ls.length = (v.decodeRaw t).length
  | .eos t _ => v.eos.contains t = true

def RState.apply {LS} (v : Vocab) (s : RState LS) : Cmt LS → RState LS
  | .tok t ls => s.commit v t ls
  | .eos t extra => s.commitEos t extra

def RState.WF {LS} (s : RState LS) : Prop :=
  s.byteTok.length = s.pBytes.length ∧ s.llmBytes.length = s.pBytes.length ∧
  s.lexStack.length = s.pBytes.length + 1

theorem apply_decomp {LS} (v : Vocab) (cs : List (Cmt LS)) (s : RState LS)
    (hcs : ∀ c ∈ cs, c.WF v) :
    ∃ (B : List Byte') (T : List Nat) (Ls : List LS) (st : Bool),
      cs.foldl (RState.apply v) s =
        { tokens := s.tokens ++ cs.map Cmt.token, llmBytes := s.llmBytes ++ B,
          pBytes := s.pBytes ++ B, byteTok := s.byteTok ++ T, lexStack := s.lexStack ++ Ls,
          stopOk := st } ∧
      T.length = B.length ∧ bytesToDrop v (cs.map Cmt.token) = B.length := by
  induction cs generalizing s with
  | nil =>
    refine ⟨[], [], [], s.stopOk, ?_, rfl, rfl⟩
    simp
  | cons c cs ih =>
    have hc := hcs c List.mem_cons_self
    obtain ⟨B, T, Ls, st, heq, h1, h3⟩ := ih (s.apply v c) (fun c' h => hcs c' (List.mem_cons_of_mem _ h))
    cases c with
    | tok t ls =>
      obtain ⟨he, hl⟩ := hc
      refine ⟨v.decodeRaw t ++ B, List.replicate (v.decodeRaw t).length s.tokens.length ++ T, ls ++ Ls, st, ?_, ?_, ?_⟩
      · rw [List.foldl_cons, heq]
        simp only [RState.apply, RState.commit, Cmt.token, List.map_cons,
          List.append_assoc, List.singleton_append]
      · simp [h1]
      · have h3' : (List.map (fun t => if v.eos.contains t = true then 0 else v.tokenLen t) (List.map Cmt.token cs)).sum = B.length := h3
        simp only [List.map_cons, Cmt.token, bytesToDrop, List.sum_cons, List.length_append, h3']
        rw [tokenLen_eq_decodeRaw_length]
        have he' : ¬ t ∈ v.eos := by simpa using he
        simp [he']
    | eos t extra =>
      refine ⟨B, T, extra ++ Ls, st, ?_, h1, ?_⟩
      · rw [List.foldl_cons, heq]
        simp only [RState.apply, RState.commitEos, Cmt.token, List.map_cons,
          List.append_assoc, List.singleton_append]
      · have he : v.eos.contains t = true := hc
        have h3' : (List.map (fun t => if v.eos.contains t = true then 0 else v.tokenLen t) (List.map Cmt.token cs)).sum = B.length := h3
        simp only [List.map_cons, Cmt.token, bytesToDrop, List.sum_cons, h3']
        have he' : t ∈ v.eos := by simpa using he
        simp [he']

end LlgVerif
