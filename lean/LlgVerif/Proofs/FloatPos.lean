/-
`rx_float_range` for `0 ≤ left < right` (model `floatPos`): the pattern accepts exactly the plain
decimal literals `ip` or `ip.fd` whose value lies between the bounds.
-/
import LlgVerif.Proofs.FloatRange
namespace LlgVerif
open Rx

/-- the bytes after the integer part: nothing, or `.` and at least one digit -/
def fracBytes (fd : List Nat) : List B := if fd.isEmpty then [] else 46 :: digB fd

/-- value order between a literal `(ip, fd)` and a bound `(bip, bfd)` -/
def geB (li : Bool) (ip : Nat) (fd : List Nat) (bip : Nat) (bfd : List Nat) : Prop :=
  bip < ip ∨ (bip = ip ∧ LowerB li bfd fd)
def leB (ri : Bool) (ip : Nat) (fd : List Nat) (bip : Nat) (bfd : List Nat) : Prop :=
  ip < bip ∨ (ip = bip ∧ UpperB ri fd bfd)

/-- the regex denotes exactly the literals with property `P` -/
def LitLang (rx : Rx) (P : Nat → List Nat → Prop) : Prop :=
  ∀ w, lang rx w ↔ ∃ ip fd, AllDig fd ∧ w = dec ip ++ fracBytes fd ∧ P ip fd

theorem lang_dot (w : List B) : lang dotRx w ↔ w = [46] := by
  simp only [dotRx, lang, inSet, List.any_cons, List.any_nil, Bool.or_false, Bool.and_eq_true,
    decide_eq_true_eq]
  constructor
  · rintro ⟨b, hw, h1, h2⟩
    have : b = 46 := by apply UInt8.toNat_inj.mp; simp; omega
    rw [hw, this]
  · intro h; exact ⟨46, h, by decide, by decide⟩

/-- `n\.X` -/
theorem lang_lit_dot {X : Rx} {PX : List Nat → Prop} (hX : DigLang X PX) (n : Nat) (w : List B) :
    lang (cat (litRx (dec n)) (cat dotRx X)) w ↔ ∃ fd, AllDig fd ∧ PX fd ∧ w = dec n ++ 46 :: digB fd := by
  simp only [lang, lang_litRx, lang_dot, hX _]
  constructor
  · rintro ⟨u, v, hw, hu, x, y, hv, hx, fd, hfd, hy, hp⟩
    exact ⟨fd, hfd, hp, by rw [hw, hu, hv, hx, hy]; rfl⟩
  · rintro ⟨fd, hfd, hp, hw⟩
    exact ⟨dec n, 46 :: digB fd, hw, rfl, [46], digB fd, rfl, rfl, fd, hfd, rfl, hp⟩

theorem lang_cat (a b : Rx) (w : List B) :
    lang (cat a b) w ↔ ∃ u v, w = u ++ v ∧ lang a u ∧ lang b v := by
  rw [lang]

theorem lang_opt (r : Rx) (w : List B) : lang (optRx r) w ↔ w = [] ∨ lang r w := by
  simp [optRx, lang]

/-- `n(\.X)?` -/
theorem lang_lit_optdot {X : Rx} {PX : List Nat → Prop} (hX : DigLang X PX) (n : Nat) (w : List B) :
    lang (cat (litRx (dec n)) (optRx (cat dotRx X))) w ↔
      w = dec n ∨ ∃ fd, AllDig fd ∧ PX fd ∧ w = dec n ++ 46 :: digB fd := by
  have h1 := lang_lit_dot hX n w
  simp only [lang, lang_litRx, lang_dot, hX _, optRx] at h1 ⊢
  constructor
  · rintro ⟨u, v, hw, hu, hv | hv⟩
    · left; rw [hw, hu, hv]; simp
    · right; exact h1.mp ⟨u, v, hw, hu, hv⟩
  · rintro (h | h)
    · exact ⟨dec n, [], by rw [h]; simp, rfl, Or.inl rfl⟩
    · obtain ⟨u, v, hw, hu, hv⟩ := h1.mpr h
      exact ⟨u, v, hw, hu, Or.inr hv⟩

theorem digLang_plus : DigLang (cat (clsRx 0 9) digStar) (fun d => d ≠ []) := by
  refine digLang_congr (digLang_cons 0 9 (by omega) digLang_digStar) (fun d hd => ?_)
  constructor
  · rintro ⟨k, d', rfl, _⟩; simp
  · intro h
    cases d with
    | nil => exact absurd rfl h
    | cons k d' => exact ⟨k, d', rfl, by omega, (allDig_cons.mp hd).1, trivial⟩

theorem digLang_zeroPlus : DigLang (cat (clsRx 0 0) zeroStar) (fun d => d ≠ [] ∧ AllZero d) := by
  refine digLang_congr (digLang_cons 0 0 (by omega) digLang_zeroStar) (fun d hd => ?_)
  constructor
  · rintro ⟨k, d', rfl, _, hk, hz⟩
    exact ⟨by simp, allZero_cons.mpr ⟨by omega, hz⟩⟩
  · rintro ⟨h, hz⟩
    cases d with
    | nil => exact absurd rfl h
    | cons k d' =>
      obtain ⟨h0, hz'⟩ := allZero_cons.mp hz
      exact ⟨k, d', rfl, by omega, by omega, hz'⟩

/-- a literal with any fraction after an integer from a proved range: `I(\.[0-9]+)?` -/
theorem litLang_range_any (I : Rx) (a b : Nat) (hI : IsRange I a b) :
    LitLang (cat I optFracAny) (fun ip _ => a ≤ ip ∧ ip ≤ b) := by
  intro w
  have hfa : ∀ v, lang fracAny v ↔ ∃ fd, AllDig fd ∧ fd ≠ [] ∧ v = 46 :: digB fd := by
    intro v
    unfold fracAny
    rw [lang_cat]
    constructor
    · rintro ⟨x, y, hv, hx, hy⟩
      obtain ⟨fd, hfd, hy', hne⟩ := (digLang_plus y).mp hy
      exact ⟨fd, hfd, hne, by rw [hv, (lang_dot x).mp hx, hy']; rfl⟩
    · rintro ⟨fd, hfd, hne, hv⟩
      exact ⟨[46], digB fd, hv, (lang_dot _).mpr rfl, (digLang_plus _).mpr ⟨fd, hfd, rfl, hne⟩⟩
  rw [lang_cat]
  simp only [hI _, optFracAny, lang_opt, hfa]
  constructor
  · rintro ⟨u, v, hw, ⟨n, h1, h2, hu⟩, hv | ⟨fd, hfd, hne, hv⟩⟩
    · exact ⟨n, [], allDig_nil, by rw [hw, hu, hv]; simp [fracBytes], h1, h2⟩
    · refine ⟨n, fd, hfd, ?_, h1, h2⟩
      rw [hw, hu, hv]
      simp [fracBytes, List.isEmpty_iff, hne]
  · rintro ⟨ip, fd, hfd, hw, h1, h2⟩
    refine ⟨dec ip, fracBytes fd, hw, ⟨ip, h1, h2, rfl⟩, ?_⟩
    by_cases hne : fd = []
    · left; simp [fracBytes, hne]
    · right; exact ⟨fd, hfd, hne, by simp [fracBytes, List.isEmpty_iff, hne]⟩

theorem litLang_congr {rx : Rx} {P Q : Nat → List Nat → Prop} (h : LitLang rx P)
    (hpq : ∀ ip fd, AllDig fd → (P ip fd ↔ Q ip fd)) : LitLang rx Q := by
  intro w
  rw [h w]
  constructor
  · rintro ⟨ip, fd, hd, hw, hp⟩; exact ⟨ip, fd, hd, hw, (hpq ip fd hd).mp hp⟩
  · rintro ⟨ip, fd, hd, hw, hq⟩; exact ⟨ip, fd, hd, hw, (hpq ip fd hd).mpr hq⟩

theorem litLang_alts_nil : LitLang (altsRx []) (fun _ _ => False) := by
  intro w; simp [altsRx, lang]

theorem litLang_alts_append {a b : List Rx} {P Q : Nat → List Nat → Prop} (ha : LitLang (altsRx a) P)
    (hb : LitLang (altsRx b) Q) : LitLang (altsRx (a ++ b)) (fun ip fd => P ip fd ∨ Q ip fd) := by
  intro w
  rw [lang_altsRx_append, ha w, hb w]
  constructor
  · rintro (⟨ip, fd, hd, hw, hp⟩ | ⟨ip, fd, hd, hw, hp⟩)
    · exact ⟨ip, fd, hd, hw, Or.inl hp⟩
    · exact ⟨ip, fd, hd, hw, Or.inr hp⟩
  · rintro ⟨ip, fd, hd, hw, hp | hp⟩
    · exact Or.inl ⟨ip, fd, hd, hw, hp⟩
    · exact Or.inr ⟨ip, fd, hd, hw, hp⟩

theorem litLang_alts1 {r : Rx} {P : Nat → List Nat → Prop} (h : LitLang r P) : LitLang (altsRx [r]) P := by
  intro w
  simp only [altsRx, lang, or_false]
  exact h w

/-- `n\.X` as a literal language: integer part `n`, a fraction with property `PX` (never empty) -/
theorem litLang_lit_dot {X : Rx} {PX : List Nat → Prop} (hX : DigLang X PX) (hnil : ¬ PX []) (n : Nat) :
    LitLang (cat (litRx (dec n)) (cat dotRx X)) (fun ip fd => ip = n ∧ fd ≠ [] ∧ PX fd) := by
  intro w
  rw [lang_lit_dot hX n w]
  constructor
  · rintro ⟨fd, hfd, hp, hw⟩
    have hne : fd ≠ [] := fun e => hnil (e ▸ hp)
    exact ⟨n, fd, hfd, by rw [hw]; simp [fracBytes, List.isEmpty_iff, hne], rfl, hne, hp⟩
  · rintro ⟨ip, fd, hfd, hw, rfl, hne, hp⟩
    exact ⟨fd, hfd, hp, by rw [hw]; simp [fracBytes, List.isEmpty_iff, hne]⟩

/-- `n(\.X)?`: integer part `n`, no fraction or a non-empty fraction with property `PX` -/
theorem litLang_lit_optdot {X : Rx} {PX : List Nat → Prop} (hX : DigLang X PX) (hnil : ¬ PX []) (n : Nat) :
    LitLang (cat (litRx (dec n)) (optRx (cat dotRx X))) (fun ip fd => ip = n ∧ (fd = [] ∨ PX fd)) := by
  intro w
  rw [lang_lit_optdot hX n w]
  constructor
  · rintro (h | ⟨fd, hfd, hp, hw⟩)
    · exact ⟨n, [], allDig_nil, by rw [h]; simp [fracBytes], rfl, Or.inl rfl⟩
    · have hne : fd ≠ [] := fun e => hnil (e ▸ hp)
      exact ⟨n, fd, hfd, by rw [hw]; simp [fracBytes, List.isEmpty_iff, hne], rfl, Or.inr hp⟩
  · rintro ⟨ip, fd, hfd, hw, rfl, hq⟩
    by_cases hne : fd = []
    · left; rw [hw, hne]; simp [fracBytes]
    · right
      rcases hq with hq | hq
      · exact absurd hq hne
      · exact ⟨fd, hfd, hq, by rw [hw]; simp [fracBytes, List.isEmpty_iff, hne]⟩

end LlgVerif

namespace LlgVerif
open Rx

theorem bounds_same_ip (li ri : Bool) (n ip : Nat) (lfd rfd fd : List Nat) :
    geB li ip fd n lfd ∧ leB ri ip fd n rfd ↔ ip = n ∧ LowerB li lfd fd ∧ UpperB ri fd rfd := by
  unfold geB leB
  constructor
  · rintro ⟨h1 | ⟨h1, a⟩, h2 | ⟨h2, b⟩⟩ <;> first | omega | exact ⟨h2, a, b⟩
  · rintro ⟨h, a, b⟩; exact ⟨Or.inr ⟨h.symm, a⟩, Or.inr ⟨h, b⟩⟩

theorem bounds_diff_ip (li ri : Bool) (lip rip ip : Nat) (hlt : lip < rip) (lfd rfd fd : List Nat) :
    geB li ip fd lip lfd ∧ leB ri ip fd rip rfd ↔
      (ip = lip ∧ LowerB li lfd fd) ∨ (lip < ip ∧ ip < rip) ∨ (ip = rip ∧ UpperB ri fd rfd) := by
  unfold geB leB
  constructor
  · rintro ⟨h1 | ⟨h1, a⟩, h2 | ⟨h2, b⟩⟩
    · exact Or.inr (Or.inl ⟨h1, h2⟩)
    · exact Or.inr (Or.inr ⟨h2, b⟩)
    · exact Or.inl ⟨h1.symm, a⟩
    · omega
  · rintro (⟨h, a⟩ | ⟨h1, h2⟩ | ⟨h, b⟩)
    · exact ⟨Or.inr ⟨h.symm, a⟩, Or.inl (by omega)⟩
    · exact ⟨Or.inl h1, Or.inl h2⟩
    · exact ⟨Or.inl (by omega), Or.inr ⟨h, b⟩⟩

theorem allZero_replicate (n : Nat) : AllZero (List.replicate n 0) := by
  intro a ha; exact (List.mem_replicate.mp ha).2

theorem allDig_padTo (x : List Nat) (n : Nat) (h : AllDig x) : AllDig (padTo x n) := by
  unfold padTo
  apply allDig_append.mpr
  refine ⟨h, fun a ha => ?_⟩
  rw [(List.mem_replicate.mp ha).2]; omega

theorem lowerB_pad (li : Bool) (x d : List Nat) (n : Nat) : LowerB li (padTo x n) d ↔ LowerB li x d := by
  unfold LowerB padTo
  cases li
  · simp only [Bool.false_eq_true, ↓reduceIte]; exact fracLT_append_zeros_left x _ d (allZero_replicate _)
  · simp only [↓reduceIte]; exact fracLE_append_zeros_left x _ d (allZero_replicate _)

theorem upperB_pad (ri : Bool) (d x : List Nat) (n : Nat) : UpperB ri d (padTo x n) ↔ UpperB ri d x := by
  unfold UpperB padTo
  cases ri
  · simp only [Bool.false_eq_true, ↓reduceIte]; exact fracLT_append_zeros_right d x _ (allZero_replicate _)
  · simp only [↓reduceIte]; exact fracLE_append_zeros_right d x _ (allZero_replicate _)

theorem fracLT_irrefl (x : List Nat) : ¬ fracLT x x := by
  induction x with
  | nil => simp [fracLT]
  | cons a x ih => simp only [fracLT]; rintro (h | ⟨_, h⟩); omega; exact ih h

theorem fracLT_pad_both (x y : List Nat) (n : Nat) : fracLT (padTo x n) (padTo y n) ↔ fracLT x y := by
  unfold padTo
  rw [fracLT_append_zeros_left x _ _ (allZero_replicate _), fracLT_append_zeros_right x y _ (allZero_replicate _)]

theorem all_zero_iff (x : List Nat) : x.all (· == 0) = true ↔ AllZero x := by
  simp [AllZero, List.all_eq_true]

theorem allZero_pad (x : List Nat) (n : Nat) : AllZero (padTo x n) ↔ AllZero x := by
  unfold padTo
  constructor
  · intro h a ha; exact h a (List.mem_append_left _ ha)
  · intro h a ha
    rcases List.mem_append.mp ha with h1 | h1
    · exact h a h1
    · exact (List.mem_replicate.mp h1).2

theorem padTo_length (x : List Nat) (n : Nat) (h : x.length ≤ n) : (padTo x n).length = n := by
  unfold padTo; simp; omega

theorem mid_lang (a rip : Nat) (m : List PR)
    (hm : (if rip > a then
        match nnRange a (rip - 1) with
        | Except.ok i => Except.ok [({ s := "(" ++ i.s ++ "(\\.[0-9]+)?)", rx := i.rx.cat optFracAny } : PR)]
        | Except.error e => Except.error e
      else (Except.ok [] : Except Unit (List PR))) = Except.ok m) :
    LitLang (altsRx (m.map (·.rx))) (fun ip _ => a ≤ ip ∧ ip < rip) := by
  split at hm
  · rename_i hgt
    split at hm
    · rename_i i hi
      injection hm with hm; subst hm
      have := litLang_alts1 (litLang_range_any i.rx a (rip - 1) (nnRange_correct a (rip - 1) i hi))
      simp only [List.map_cons, List.map_nil]
      refine litLang_congr this (fun ip fd _ => ?_)
      constructor
      · rintro ⟨h1, h2⟩; exact ⟨h1, by omega⟩
      · rintro ⟨h1, h2⟩; exact ⟨h1, by omega⟩
    · cases hm
  · rename_i hgt
    injection hm with hm; subst hm
    simp only [List.map_nil]
    refine litLang_congr litLang_alts_nil (fun ip fd _ => ?_)
    constructor
    · intro h; cases h
    · rintro ⟨h1, h2⟩; omega

theorem last_lang (r : FB) (ri : Bool) (la : List PR) (hr : AllDig r.fd) (hrn : NTZ r.fd)
    (hla : (if (!r.fd.isEmpty) = true then
        match lexi0ToX r.fd ri with
        | Except.ok x => Except.ok [(⟨"(" ++ toString r.ip ++ "(\\." ++ x.s ++ ")?)", (litRx (dec r.ip)).cat (optRx (dotRx.cat x.rx))⟩ : PR)]
        | Except.error e => Except.error e
      else
        if ri = true then Except.ok [({ s := toString r.ip ++ "(\\.0+)?", rx := (litRx (dec r.ip)).cat dotZeros } : PR)]
        else (Except.ok [] : Except Unit (List PR))) = Except.ok la) :
    LitLang (altsRx (la.map (·.rx))) (fun ip fd => ip = r.ip ∧ UpperB ri fd r.fd) := by
  split at hla
  · rename_i hne
    have hne' : r.fd ≠ [] := by intro e; simp [e] at hne
    split at hla
    · rename_i x hx
      injection hla with hla; subst hla
      have hX := lexi0ToX_lang r.fd ri x hx hr hrn
      have hXnil : ¬ (fun d => d ≠ [] ∧ (if ri = true then fracLE d r.fd else fracLT d r.fd)) [] := by simp
      simp only [List.map_cons, List.map_nil]
      refine litLang_congr (litLang_alts1 (litLang_lit_optdot hX hXnil r.ip)) (fun ip fd _ => ?_)
      have hnil : UpperB ri [] r.fd := by
        cases ri with
        | true => simp [UpperB, fracLE]
        | false =>
          simp only [UpperB, Bool.false_eq_true, ↓reduceIte, fracLT_nil_left]
          exact ntz_not_allZero _ hne' hrn
      constructor
      · rintro ⟨hi, hq | hq⟩
        · rw [hq]; exact ⟨hi, hnil⟩
        · refine ⟨hi, ?_⟩
          have := hq.2
          cases ri <;> simpa [UpperB] using this
      · rintro ⟨hi, hq⟩
        refine ⟨hi, ?_⟩
        by_cases hfd : fd = []
        · exact Or.inl hfd
        · refine Or.inr ⟨hfd, ?_⟩
          cases ri <;> simpa [UpperB] using hq
    · cases hla
  · rename_i he
    have he' : r.fd = [] := by
      cases hfd : r.fd with
      | nil => rfl
      | cons _ _ => simp [hfd] at he
    split at hla
    · rename_i hri
      injection hla with hla; subst hla
      simp only [List.map_cons, List.map_nil]
      -- `n(\.0+)?`
      have hz : LitLang ((litRx (dec r.ip)).cat dotZeros) (fun ip fd => ip = r.ip ∧ (fd = [] ∨ (fd ≠ [] ∧ AllZero fd))) := by
        have := litLang_lit_optdot digLang_zeroPlus (by simp) r.ip
        exact this
      refine litLang_congr (litLang_alts1 hz) (fun ip fd _ => ?_)
      subst hri
      simp only [UpperB, ↓reduceIte, he', fracLE_nil_right]
      constructor
      · rintro ⟨hi, hq | hq⟩
        · exact ⟨hi, by rw [hq]; intro a ha; cases ha⟩
        · exact ⟨hi, hq.2⟩
      · rintro ⟨hi, hq⟩
        refine ⟨hi, ?_⟩
        by_cases hfd : fd = []
        · exact Or.inl hfd
        · exact Or.inr ⟨hfd, hq⟩
    · rename_i hri
      injection hla with hla; subst hla
      simp only [List.map_nil]
      refine litLang_congr litLang_alts_nil (fun ip fd _ => ?_)
      have hri' : ri = false := by simpa using hri
      subst hri'
      constructor
      · intro h; cases h
      · rintro ⟨_, hq⟩
        simp only [UpperB, Bool.false_eq_true, ↓reduceIte, he'] at hq
        cases fd <;> simp [fracLT] at hq

/-- **`rx_float_range`, `0 ≤ left < right`.**  The pattern accepts exactly the literals `ip` / `ip.fd`
with `left ≤ value ≤ right` (strict where a flag is off). -/
theorem floatPos_lang (l r : FB) (li ri : Bool) (p : PR) (h : floatPos l r li ri = .ok p)
    (hl : AllDig l.fd) (hln : NTZ l.fd) (hr : AllDig r.fd) (hrn : NTZ r.fd)
    (hlt : l.ip < r.ip ∨ (l.ip = r.ip ∧ fracLT l.fd r.fd)) :
    LitLang p.rx (fun ip fd => geB li ip fd l.ip l.fd ∧ leB ri ip fd r.ip r.fd) := by
  unfold floatPos at h
  split at h
  · -- same integer part
    rename_i hip
    have hfl : fracLT l.fd r.fd := by rcases hlt with h1 | h1; omega; exact h1.2
    simp only at h
    split at h
    · cases h
    · rename_i s hs
      have hnm : padTo l.fd (max l.fd.length r.fd.length) ≠ padTo r.fd (max l.fd.length r.fd.length) := by
        intro e
        have := (fracLT_pad_both l.fd r.fd (max l.fd.length r.fd.length)).mpr hfl
        rw [e] at this
        exact fracLT_irrefl _ this
      have hX := lexiRange_lang _ _ li ri s hs hnm (allDig_padTo _ _ hl) (allDig_padTo _ _ hr)
      have hXnil : ¬ ((fun d => d ≠ [] ∧ LowerB li (padTo l.fd (max l.fd.length r.fd.length)) d ∧
          UpperB ri d (padTo r.fd (max l.fd.length r.fd.length))) []) := by simp
      split at h
      · rename_i hopt
        injection h with h; subst h
        simp only [Bool.and_eq_true, all_zero_iff, allZero_pad] at hopt
        obtain ⟨hli, hz⟩ := hopt
        refine litLang_congr (litLang_lit_optdot hX hXnil l.ip) (fun ip fd _ => ?_)
        rw [← hip, bounds_same_ip, lowerB_pad, upperB_pad]
        have hnil : LowerB li l.fd [] ∧ UpperB ri [] r.fd := by
          subst hli
          refine ⟨by simp only [LowerB, ↓reduceIte]; exact (fracLE_nil_right _).mpr hz, ?_⟩
          cases ri with
          | true => simp [UpperB, fracLE]
          | false =>
            simp only [UpperB, Bool.false_eq_true, ↓reduceIte]
            exact (fracLT_nil_left _).mpr ((fracLT_zeros_left l.fd r.fd hz).mp hfl)
        constructor
        · rintro ⟨hi, hq | hq⟩
          · rw [hq]; exact ⟨hi, hnil⟩
          · exact ⟨hi, hq.2⟩
        · rintro ⟨hi, hq⟩
          refine ⟨hi, ?_⟩
          by_cases hfd : fd = []
          · exact Or.inl hfd
          · exact Or.inr ⟨hfd, hq⟩
      · rename_i hopt
        injection h with h; subst h
        refine litLang_congr (litLang_lit_dot hX hXnil l.ip) (fun ip fd _ => ?_)
        rw [← hip, bounds_same_ip, lowerB_pad, upperB_pad]
        have hnil : ¬ LowerB li l.fd [] := by
          intro hlow
          apply hopt
          cases li with
          | false => simp [LowerB, fracLT] at hlow
          | true =>
            simp only [LowerB, ↓reduceIte, fracLE_nil_right] at hlow
            rw [Bool.true_and]
            exact (all_zero_iff _).mpr ((allZero_pad _ _).mpr hlow)
        constructor
        · rintro ⟨hi, _, hq⟩; exact ⟨hi, hq.2⟩
        · rintro ⟨hi, hq⟩
          refine ⟨hi, ?_, ?_, hq⟩
          · intro e; rw [e] at hq; exact hnil hq.1
          · intro e; rw [e] at hq; exact hnil hq.1
  · -- different integer parts
    rename_i hip
    have hlt' : l.ip < r.ip := by rcases hlt with h1 | h1; exact h1; exact absurd h1.1 hip
    simp only at h
    split at h
    · rename_i m la hm hla
      injection h with h; subst h
      -- first part
      have hfirst : LitLang (altsRx ((if (!l.fd.isEmpty || !li) = true then
            ([({ s := "(" ++ toString l.ip ++ "\\." ++ (lexiXTo9 l.fd li).s ++ ")",
                 rx := (litRx (dec l.ip)).cat (dotRx.cat (lexiXTo9 l.fd li).rx) } : PR)], l.ip + 1)
          else ([], l.ip)).1.map (·.rx)))
          (fun ip fd => (!l.fd.isEmpty || !li) = true ∧ ip = l.ip ∧ LowerB li l.fd fd) := by
        split
        · rename_i hc
          have hU := lexiXTo9_lang l.fd li hl hln
          have hUnil : ¬ (fun d => if li = true then fracLE l.fd d else fracLT l.fd d) [] := by
            simp only
            cases li with
            | false => simp [fracLT]
            | true =>
              simp only [↓reduceIte, fracLE_nil_right]
              intro hz
              have hne : l.fd ≠ [] := by
                intro e; simp [e] at hc
              exact ntz_not_allZero _ hne hln hz
          simp only [List.map_cons, List.map_nil]
          refine litLang_congr (litLang_alts1 (litLang_lit_dot hU hUnil l.ip)) (fun ip fd _ => ?_)
          constructor
          · rintro ⟨hi, _, hq⟩; exact ⟨hc, hi, hq⟩
          · rintro ⟨_, hi, hq⟩
            exact ⟨hi, fun e => hUnil (e ▸ hq), hq⟩
        · rename_i hc
          simp only [List.map_nil]
          refine litLang_congr litLang_alts_nil (fun ip fd _ => ?_)
          constructor
          · intro h; cases h
          · rintro ⟨hcc, _⟩; exact absurd hcc hc
      -- leftRec and the condition of the first part
      have hmid := mid_lang _ r.ip m hm
      have hlast := last_lang r ri la hr hrn hla
      have hall := litLang_alts_append (litLang_alts_append hfirst hmid) hlast
      simp only [List.map_append] at hall ⊢
      refine litLang_congr hall (fun ip fd _ => ?_)
      rw [bounds_diff_ip li ri l.ip r.ip ip hlt']
      by_cases hc : (!l.fd.isEmpty || !li) = true
      · simp only [hc, ↓reduceIte, true_and]
        constructor
        · rintro ((⟨hi, hq⟩ | ⟨h1, h2⟩) | ⟨hi, hq⟩)
          · exact Or.inl ⟨hi, hq⟩
          · exact Or.inr (Or.inl ⟨by omega, h2⟩)
          · exact Or.inr (Or.inr ⟨hi, hq⟩)
        · rintro (⟨hi, hq⟩ | ⟨h1, h2⟩ | ⟨hi, hq⟩)
          · exact Or.inl (Or.inl ⟨hi, hq⟩)
          · exact Or.inl (Or.inr ⟨by omega, h2⟩)
          · exact Or.inr ⟨hi, hq⟩
      · simp only [hc, Bool.false_eq_true, ↓reduceIte, false_and, false_or]
        -- the lower bound is an inclusive integer: every literal with that integer part is inside
        have hfd : l.fd = [] ∧ li = true := by
          cases hfd : l.fd with
          | nil => cases li <;> simp [hfd] at hc ⊢
          | cons _ _ => simp [hfd] at hc
        have hlow : LowerB li l.fd fd := by
          rw [hfd.1, hfd.2]; simp [LowerB, fracLE]
        constructor
        · rintro (⟨h1, h2⟩ | ⟨hi, hq⟩)
          · by_cases he : ip = l.ip
            · exact Or.inl ⟨he, hlow⟩
            · exact Or.inr (Or.inl ⟨by omega, h2⟩)
          · exact Or.inr (Or.inr ⟨hi, hq⟩)
        · rintro (⟨hi, _⟩ | ⟨h1, h2⟩ | ⟨hi, hq⟩)
          · exact Or.inl ⟨by omega, by omega⟩
          · exact Or.inl ⟨by omega, h2⟩
          · exact Or.inr ⟨hi, hq⟩
    · cases h

end LlgVerif
