/-
The lexemes a row allows are exactly the lexemes that have an accepted continuation (the converse of
`want_viable` at the next position): if the compiled grammar accepts an input, then at every
position before its end some wanted item is about to scan a lexeme of the set found there.
-/
import LlgVerif.Proofs.EarleyRowsWant
namespace LlgVerif
namespace Ey

/-- wanted items only depend on the input before their row -/
theorem want_local (g : CG) {inp inp' : List (List Nat)} {j : Nat} {it : Item} (h : Want g inp j it) :
    (∀ k, k < j → inp'.getD k [] = inp.getD k []) → j ≤ inp'.length → Want g inp' j it := by
  induction h with
  | start hr => intro _ _; exact Want.start hr
  | predict _ hne hr ih => intro h1 h2; exact Want.predict (ih h1 h2) hne hr
  | nullable _ hne hn ih => intro h1 h2; exact Want.nullable (ih h1 h2) hne hn
  | @scan j p i l _ hl hm hlt ih =>
    intro h1 h2
    exact Want.scan (ih (fun k hk => h1 k (by omega)) (by omega)) hl
      (by rw [h1 j (Nat.lt_succ_self _)]; exact hm) (by omega)
  | @complete j p k q i _ hdot hk _ hq ih1 ih2 =>
    intro h1 h2
    exact Want.complete (ih1 h1 h2) hdot hk (ih2 (fun k' hk' => h1 k' (by omega)) (by omega)) hq

/-- some wanted item of row `n` is about to scan a lexeme of `inp[n]` -/
def Scans (g : CG) (inp : List (List Nat)) (n : Nat) : Prop :=
  ∃ p i l, Want g inp n (p, i) ∧ (g.sym (g.atDot p)).lexeme = some l ∧ l ∈ inp.getD n []

mutual
theorem der_scans {g : CG} (hw : WF g) (hn : NullClosed g) {inp : List (List Nat)} (n : Nat) {s k j : Nat} :
    Der g inp s k j → ∀ q i, Want g inp k (q, i) → g.atDot q = s → s ≠ 0 → k ≤ n → n < j → Scans g inp n
  | .lex hl hm _ => fun q i hq hs _ h1 h2 => by
      have e : n = k := by omega
      subst e
      exact ⟨q, i, _, hq, by rw [hs]; exact hl, hm⟩
  | .null _ => fun _ _ _ _ _ h1 h2 => by omega
  | @Der.rule _ _ _ r p _ _ hr hsq hd => fun q i hq hs hne h1 h2 =>
      seq_scans hw hn n hsq k (Want.predict hq (by rw [hs]; exact hne) (by rw [hs]; exact hr)) h1 h2
theorem seq_scans {g : CG} (hw : WF g) (hn : NullClosed g) {inp : List (List Nat)} (n : Nat) {r p k j : Nat} :
    Seq g inp r p k j → ∀ i, Want g inp k (r, i) → k ≤ n → n < j → Scans g inp n
  | .nil => fun _ _ h1 h2 => by omega
  | @Seq.snoc _ _ _ p' _ k' _ hs hne hd => fun i h h1 h2 =>
      if hlt : n < k' then seq_scans hw hn n hs i h h1 hlt
      else der_scans hw hn n hd p' i (want_of_seq hw hn hs i h) rfl hne (by omega) h2
end

theorem getD_append_at (a : List (List Nat)) (x : List Nat) (v : List (List Nat)) :
    (a ++ x :: v).getD a.length [] = x := by
  simp [List.getD_eq_getElem?_getD]

/-- if `lexs` followed by the lexeme set `X` extends to an accepted input, a wanted item of row
`|lexs|` is about to scan a lexeme of `X` -/
theorem accepted_scans (g : CG) (hw : WF g) (hn : NullClosed g) (lexs : List (List Nat)) (X : List Nat)
    (v : List (List Nat)) (h : Accepts g (lexs ++ X :: v)) :
    ∃ p i l, Want g lexs lexs.length (p, i) ∧ (g.sym (g.atDot p)).lexeme = some l ∧ l ∈ X := by
  obtain ⟨r, hr, p, hs, _⟩ := h
  have h0 : Want g (lexs ++ X :: v) 0 (r, 0) := Want.start hr
  obtain ⟨p', i, l, hwant, hl, hm⟩ := seq_scans hw hn lexs.length hs 0 h0 (Nat.zero_le _) (by simp)
  rw [getD_append_at] at hm
  refine ⟨p', i, l, ?_, hl, hm⟩
  exact want_local g hwant (fun k hk => (getD_append_left' lexs (X :: v) k hk).symm) (Nat.le_refl _)

end Ey
end LlgVerif
