/- M11: the repetition factorisation derives exactly the counts it names, for every block size K. -/
import LlgVerif.Model.Repeat
import Mathlib.Tactic.Ring
import Mathlib.Tactic.Linarith
namespace LlgVerif
namespace GExp

/-- the element derives exactly `u` copies -/
def HasUnit (e : GExp) (u : Nat) : Prop := ∀ c, counts e c ↔ c = u

theorem hasUnit_elt : HasUnit elt 1 := fun _ => Iff.rfl

theorem countsSeq_replicate (e : GExp) (u : Nat) (h : HasUnit e u) (n c : Nat) :
    counts.countsSeq (List.replicate n e) c ↔ c = n * u := by
  induction n generalizing c with
  | zero => simp [counts.countsSeq]
  | succ n ih =>
    simp only [List.replicate_succ, counts.countsSeq, h _, ih]
    constructor
    · rintro ⟨a, b, hc, ha, hb⟩; subst ha hb hc; ring
    · intro hc; exact ⟨u, n * u, by rw [hc]; ring, rfl, rfl⟩

theorem counts_simpleRepeat (e : GExp) (u : Nat) (h : HasUnit e u) (n : Nat) :
    HasUnit (simpleRepeat e n) (n * u) := by
  intro c
  simp only [simpleRepeat, counts]
  exact countsSeq_replicate e u h n c

theorem countsSeq_append (xs ys : List GExp) (c : Nat) :
    counts.countsSeq (xs ++ ys) c ↔ ∃ a b, c = a + b ∧ counts.countsSeq xs a ∧ counts.countsSeq ys b := by
  induction xs generalizing c with
  | nil =>
    simp only [List.nil_append, counts.countsSeq]
    constructor
    · intro h; exact ⟨0, c, by simp, rfl, h⟩
    · rintro ⟨a, b, hc, ha, hb⟩; subst ha; simpa [hc] using hb
  | cons x xs ih =>
    simp only [List.cons_append, counts.countsSeq, ih]
    constructor
    · rintro ⟨a, b, hc, ha, a', b', hb, ha', hb'⟩
      exact ⟨a + a', b', by omega, ⟨a, a', rfl, ha, ha'⟩, hb'⟩
    · rintro ⟨s, b', hc, ⟨a, a', hs, ha, ha'⟩, hb'⟩
      exact ⟨a, a' + b', by omega, ha, a', b', rfl, ha', hb'⟩

theorem countsSeq_singleton (g : GExp) (c : Nat) : counts.countsSeq [g] c ↔ counts g c := by
  simp only [counts.countsSeq]
  constructor
  · rintro ⟨a, b, hc, ha, hb⟩; subst hb; simpa [hc] using ha
  · intro h; exact ⟨c, 0, by simp, h, rfl⟩

/-- **repeatExact_counts** -/
theorem counts_repeatExact (K fuel : Nat) (e : GExp) (u : Nat) (h : HasUnit e u) (n : Nat) :
    HasUnit (repeatExact K fuel e n) (n * u) := by
  induction fuel generalizing e u n with
  | zero => exact counts_simpleRepeat e u h n
  | succ fuel ih =>
    unfold repeatExact
    split
    · intro c
      have hin := ih (simpleRepeat e K) (K * u) (counts_simpleRepeat e u h K) (n / K)
      simp only [counts, countsSeq_append, countsSeq_singleton, countsSeq_replicate e u h, hin _]
      have key : n % K * u + n / K * (K * u) = n * u := by
        have := Nat.div_add_mod n K
        calc n % K * u + n / K * (K * u) = (K * (n / K) + n % K) * u := by ring
          _ = n * u := by rw [this]
      constructor
      · rintro ⟨a, b, hc, ha, hb⟩; subst ha hb; omega
      · intro hc; exact ⟨_, _, by omega, rfl, rfl⟩
    · exact counts_simpleRepeat e u h n

theorem countsAlt_map_range (e : GExp) (u : Nat) (h : HasUnit e u) (n c : Nat) :
    counts.countsAlt ((List.range n).map (simpleRepeat e)) c ↔ ∃ j, j < n ∧ c = j * u := by
  induction n with
  | zero => simp [counts.countsAlt]
  | succ n ih =>
    rw [List.range_succ, List.map_append]
    have happ : ∀ (xs ys : List GExp), counts.countsAlt (xs ++ ys) c ↔ counts.countsAlt xs c ∨ counts.countsAlt ys c := by
      intro xs ys
      induction xs with
      | nil => simp [counts.countsAlt]
      | cons x xs ihx => simp only [List.cons_append, counts.countsAlt, ihx, or_assoc]
    rw [happ, ih]
    simp only [List.map_cons, List.map_nil, counts.countsAlt, or_false, counts_simpleRepeat e u h n c]
    constructor
    · rintro (⟨j, hj, hc⟩ | hc)
      · exact ⟨j, by omega, hc⟩
      · exact ⟨n, by omega, hc⟩
    · rintro ⟨j, hj, hc⟩
      by_cases hjn : j = n
      · subst hjn; exact Or.inr hc
      · exact Or.inl ⟨j, by omega, hc⟩

/-- index arithmetic of the factorisation: pairs (a ≤ q-1, b ≤ K-1) enumerate 0 .. q*K-1 -/
theorem block_index (K q j : Nat) (hK : 1 ≤ K) (hq : 1 ≤ q) :
    (∃ a b, a ≤ q - 1 ∧ b ≤ K - 1 ∧ j = a * K + b) ↔ j < q * K := by
  constructor
  · rintro ⟨a, b, ha, hb, hj⟩
    have h1 : a * K ≤ (q - 1) * K := Nat.mul_le_mul_right K ha
    have h2 : (q - 1) * K + K = q * K := by
      have : q = (q - 1) + 1 := by omega
      conv_rhs => rw [this]
      ring
    omega
  · intro hj
    refine ⟨j / K, j % K, ?_, ?_, ?_⟩
    · have : j / K < q := Nat.div_lt_of_lt_mul (by rw [Nat.mul_comm]; exact hj)
      omega
    · have := Nat.mod_lt j (show 0 < K by omega); omega
    · have := Nat.div_add_mod j K; rw [Nat.mul_comm] at this; omega

theorem counts_select_range (e : GExp) (u : Nat) (h : HasUnit e u) (n c : Nat) :
    counts (select ((List.range (n + 1)).map (simpleRepeat e))) c ↔ ∃ j, j ≤ n ∧ c = j * u := by
  simp only [counts, countsAlt_map_range e u h]
  constructor
  · rintro ⟨j, hj, hc⟩; exact ⟨j, by omega, hc⟩
  · rintro ⟨j, hj, hc⟩; exact ⟨j, by omega, hc⟩

/-- **atMost_counts** -/
theorem counts_atMost (K fuel : Nat) (hK : 1 ≤ K) (e : GExp) (u : Nat) (h : HasUnit e u) (n c : Nat) :
    counts (atMost K fuel e n) c ↔ ∃ j, j ≤ n ∧ c = j * u := by
  induction fuel generalizing e u n c with
  | zero => exact counts_select_range e u h n c
  | succ fuel ih =>
    unfold atMost
    split
    · rename_i h0; subst h0
      simp only [empty, counts, counts.countsSeq]
      constructor
      · intro hc; exact ⟨0, by omega, by simp [hc]⟩
      · rintro ⟨j, hj, hc⟩; have : j = 0 := by omega
        subst this; simpa using hc
    · split
      · rename_i _ h1; subst h1
        simp only [optional, empty, counts, counts.countsAlt, counts.countsSeq, h _, or_false]
        constructor
        · rintro (hc | hc)
          · exact ⟨0, by omega, by simp [hc]⟩
          · exact ⟨1, by omega, by simp [hc]⟩
        · rintro ⟨j, hj, hc⟩
          have : j = 0 ∨ j = 1 := by omega
          rcases this with rfl | rfl
          · left; simpa using hc
          · right; simpa using hc
      · split
        · exact counts_select_range e u h n c
        · rename_i hn0 hn1 hn3
          have hq : 1 ≤ n / K := by
            have : K ≤ n := by omega
            exact (Nat.one_le_div_iff (by omega)).mpr this
          have hEltK := counts_simpleRepeat e u h K
          simp only [counts, counts.countsAlt, counts.countsSeq, or_false]
          have ihA := fun c => ih (simpleRepeat e K) (K * u) hEltK (n / K - 1) c
          have ihB := fun n' c => ih e u h n' c
          have hRE := counts_repeatExact K n (simpleRepeat e K) (K * u) hEltK (n / K)
          simp only [ihA, ihB, hRE _]
          have hdm := Nat.div_add_mod n K
          have hml := Nat.mod_lt n (show 0 < K by omega)
          constructor
          · rintro (⟨a, b, hc, ha, b', z, hb, ⟨j, hj, hb'⟩, hz⟩ | ⟨a, b, hc, ⟨ja, hja, ha⟩, b', z, hb, ⟨jb, hjb, hb'⟩, hz⟩)
            · -- blocks of exactly n/K, plus at most n%K
              subst hz ha hb'
              refine ⟨n / K * K + j, ?_, ?_⟩
              · have : K * (n / K) = n / K * K := Nat.mul_comm _ _
                omega
              · rw [hc, hb]; ring
            · subst hz ha hb'
              have hlt : ja * K + jb < n / K * K := (block_index K (n / K) _ hK hq).mp ⟨ja, jb, hja, hjb, rfl⟩
              refine ⟨ja * K + jb, ?_, ?_⟩
              · have : K * (n / K) = n / K * K := Nat.mul_comm _ _
                omega
              · rw [hc, hb]; ring
          · rintro ⟨j, hj, hc⟩
            by_cases hlow : j < n / K * K
            · right
              obtain ⟨a, b, ha, hb, hjab⟩ := (block_index K (n / K) j hK hq).mpr hlow
              refine ⟨a * (K * u), b * u, ?_, ⟨a, ha, rfl⟩, b * u, 0, by simp, ⟨b, hb, rfl⟩, rfl⟩
              rw [hc, hjab]; ring
            · left
              have hge : n / K * K ≤ j := by omega
              refine ⟨n / K * (K * u), (j - n / K * K) * u, ?_, rfl, (j - n / K * K) * u, 0, by simp, ⟨j - n / K * K, ?_, rfl⟩, rfl⟩
              · rw [hc]
                have : j = n / K * K + (j - n / K * K) := by omega
                conv_lhs => rw [this]
                ring
              · have : K * (n / K) = n / K * K := Nat.mul_comm _ _
                omega

end GExp
end LlgVerif
