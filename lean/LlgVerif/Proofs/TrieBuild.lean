/- `TokTrie::from` represents exactly `(bytes, id)` of the non-empty words; top-level statement of
   the walk over the built, serialised trie. -/
import LlgVerif.Proofs.TriePaths
namespace LlgVerif

variable {S : Type}

theorem mem_insertSorted (x y : List Byte × Nat) (l : List (List Byte × Nat)) :
    y ∈ insertSorted x l ↔ y = x ∨ y ∈ l := by
  induction l with
  | nil => simp [insertSorted]
  | cons z zs ih =>
    simp only [insertSorted]
    split
    · simp only [List.mem_cons, ih]
      constructor
      · rintro (h | h | h)
        · exact Or.inr (Or.inl h)
        · exact Or.inl h
        · exact Or.inr (Or.inr h)
      · rintro (h | h | h)
        · exact Or.inr (Or.inl h)
        · exact Or.inl h
        · exact Or.inr (Or.inr h)
    · simp

theorem mem_foldl_insertSorted (l acc : List (List Byte × Nat)) (y : List Byte × Nat) :
    y ∈ l.foldl (fun acc x => insertSorted x acc) acc ↔ y ∈ l ∨ y ∈ acc := by
  induction l generalizing acc with
  | nil => simp
  | cons x xs ih =>
    simp only [List.foldl_cons, ih, mem_insertSorted, List.mem_cons]
    constructor
    · rintro (h | h | h)
      · exact Or.inl (Or.inr h)
      · exact Or.inl (Or.inl h)
      · exact Or.inr h
    · rintro ((h | h) | h)
      · exact Or.inr (Or.inl h)
      · exact Or.inl h
      · exact Or.inr (Or.inr h)

theorem mem_sortWords (l : List (List Byte × Nat)) (y : List Byte × Nat) :
    y ∈ sortWords l ↔ y ∈ l := by
  simp [sortWords, mem_foldl_insertSorted]

theorem mem_enumFrom {α} (k : Nat) (l : List α) (w : α) (i : Nat) :
    (w, i) ∈ enumFrom k l ↔ k ≤ i ∧ l[i - k]? = some w := by
  induction l generalizing k with
  | nil => simp [enumFrom]
  | cons x xs ih =>
    simp only [enumFrom, List.mem_cons, Prod.mk.injEq, ih]
    constructor
    · rintro (⟨h1, h2⟩ | ⟨h1, h2⟩)
      · subst h1 h2; simp
      · refine ⟨by omega, ?_⟩
        have : i - k = (i - (k + 1)) + 1 := by omega
        rw [this]; simpa using h2
    · rintro ⟨h1, h2⟩
      by_cases hik : i = k
      · subst hik; left; simpa using h2.symm
      · right
        refine ⟨by omega, ?_⟩
        have : i - k = (i - (k + 1)) + 1 := by omega
        rw [this] at h2; simpa using h2

theorem mem_paths_foldl (l : List (List Byte × Nat)) (cs : List Tree) (w : List Byte) (x : Nat) :
    (w, some x) ∈ pathsKids (l.foldl (fun cs (p : List Byte × Nat) =>
        if p.1.isEmpty then cs else insertKids p.1 p.2 cs) cs) ↔
      (w, some x) ∈ pathsKids cs ∨ ((w, x) ∈ l ∧ w ≠ []) := by
  induction l generalizing cs with
  | nil => simp
  | cons p ps ih =>
    simp only [List.foldl_cons, ih, List.mem_cons]
    by_cases hp : p.1.isEmpty
    · simp only [hp, ↓reduceIte]
      have hp' : p.1 = [] := by simpa using hp
      constructor
      · rintro (h | ⟨h, hne⟩)
        · exact Or.inl h
        · exact Or.inr ⟨Or.inr h, hne⟩
      · rintro (h | ⟨h | h, hne⟩)
        · exact Or.inl h
        · exfalso; apply hne; rw [← hp']; rw [← h]
        · exact Or.inr ⟨h, hne⟩
    · simp only [hp, Bool.false_eq_true, ↓reduceIte]
      have hp' : p.1 ≠ [] := by simpa using hp
      rw [mem_paths_insertKids p.1 p.2 cs hp' w x]
      constructor
      · rintro ((h | ⟨h1, h2⟩) | ⟨h, hne⟩)
        · exact Or.inl h
        · refine Or.inr ⟨Or.inl ?_, by rw [h1]; exact hp'⟩
          rw [h1, h2]
        · exact Or.inr ⟨Or.inr h, hne⟩
      · rintro (h | ⟨h | h, hne⟩)
        · exact Or.inl (Or.inl h)
        · left; right
          rw [← h]; exact ⟨rfl, rfl⟩
        · exact Or.inr ⟨h, hne⟩

/-- **build_paths**: the trie built by `TokTrie::from` has a token-carrying path `(w, id)` exactly
for the non-empty vocabulary entries `words[id] = w` (duplicates included, as separate nodes). -/
theorem build_paths (words : List (List Byte)) (w : List Byte) (x : Nat) :
    (w, some x) ∈ pathsKids (buildTree words).kids ↔ (words[x]? = some w ∧ w ≠ []) := by
  simp only [buildTree, Tree.kids, mem_paths_foldl, pathsKids, List.not_mem_nil, false_or,
    mem_sortWords, mem_enumFrom, Nat.zero_le, Nat.sub_zero, true_and]

theorem walkLoop_done (r : Rec S) (nodes : Array FlatNode) (endp defl p np : Nat) (st : List S)
    (tk : List Nat) (h : ¬ p < endp) : walkLoop r nodes endp defl p np st tk = (np, st, tk) := by
  rw [walkLoop]; simp [h]

/-- The walk from the root of a serialised tree, empty start: result tokens and restored stack. -/
theorem walk_root (r : Rec S) (t : Tree) (defl : Nat) (s0 : S) :
    ∃ np' st', walkLoop r (flatten t) (ser t 0).length defl 1 0 [s0] [] =
        (np', st', (specKids r defl t.kids s0).reverse) ∧ st'.drop np' = [s0] := by
  cases t with
  | node b tk kids =>
    simp only [Tree.kids]
    by_cases hk : kids = []
    · subst hk
      refine ⟨0, [s0], ?_, rfl⟩
      rw [walkLoop_done]
      · simp [specKids]
      · simp [ser, serKids]
    · have hser : ser (Tree.node b tk kids) 0 =
          { byte := b, tok := tk, numParents := 1, subtreeSize := 1 + (serKids kids 0).length } ::
            serKids kids 0 := by simp [ser]
      have hseg : ∀ i (h : i < (serKids kids 0).length),
          (flatten (Tree.node b tk kids))[1 + i]! = (serKids kids 0)[i] := by
        intro i h
        simp only [flatten, hser]
        have hlt : i + 1 < (serKids kids 0).length + 1 := by omega
        simp [Nat.add_comm 1 i, hlt]
      obtain ⟨np', st', heq, hdrop⟩ := walk_kids r (flatten (Tree.node b tk kids))
        (ser (Tree.node b tk kids) 0).length defl kids 0 1 0 [s0] [] s0 [] hk
        (by rw [hser]; simp; omega) hseg (by simp)
      refine ⟨np', st', ?_, by simpa using hdrop⟩
      rw [heq, walkLoop_done]
      · simp
      · rw [hser]; simp; omega

end LlgVerif
