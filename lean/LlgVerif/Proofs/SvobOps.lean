/- Each `SimpleVob` operation, read through `get`, is the corresponding operation on sets of
   naturals (M1).  `get` is totalised by `false` beyond the storage. -/
import LlgVerif.Proofs.Svob
namespace LlgVerif
namespace Svob

theorem set?_spec (v v' : Svob) (i : Nat) (val : Bool) (h : v.set? i val = some v') :
    v'.size = v.size ∧ v'.data.length = v.data.length ∧
    ∀ j, v'.get j = if j = i then val else v.get j := by
  unfold set? at h
  split at h
  · rename_i hi
    injection h with h; subst h
    refine ⟨rfl, by simp, ?_⟩
    intro j
    simp only [get, wordAt]
    rw [List.getElem?_set]
    by_cases hw : i / 32 = j / 32
    · simp only [hw, ↓reduceIte]
      have hj : j / 32 < v.data.length := hw ▸ hi
      simp only [hj, ↓reduceIte, Option.getD_some]
      rw [getLsbD_setBit _ _ _ _ (mod32_lt i) (mod32_lt j)]
      by_cases hji : j = i
      · simp [hji]
      · have : j % 32 ≠ i % 32 := by omega
        simp [hji, this]
    · have : j ≠ i := by intro h'; subst h'; exact hw rfl
      simp [hw, this]
  · simp at h

theorem set?_isSome (v : Svob) (i : Nat) (val : Bool) : (v.set? i val).isSome ↔ i / 32 < v.data.length := by
  unfold set?; split <;> simp_all

theorem get_alloc (size i : Nat) : (alloc size).get i = false := by
  simp only [get, wordAt, alloc, List.getElem?_replicate]
  split <;> simp

theorem wf_alloc (size : Nat) : (alloc size).WF := by
  simp only [WF, alloc, List.length_replicate]; omega

theorem allocWithCapacity?_spec (size cap : Nat) (v : Svob) (h : allocWithCapacity? size cap = some v) :
    v.size = size ∧ v.data.length = (cap + 31) / 32 ∧ ∀ i, v.get i = false := by
  unfold allocWithCapacity? at h
  split at h
  · injection h with h; subst h
    refine ⟨rfl, by simp, ?_⟩
    intro i
    simp only [get, wordAt, List.getElem?_replicate]
    split <;> simp
  · simp at h

theorem getLsbD_clearWord (size k : Nat) (w : Word) (b : Nat) (hb : b < 32) :
    (clearWord size k w).getLsbD b = (decide (32 * k + b < size) && w.getLsbD b) := by
  unfold clearWord
  split
  · rename_i h
    have : ¬ 32 * k + b < size := by omega
    simp [this]
  · split
    · rename_i h1 h2
      have : 32 * k + b < size := by omega
      simp [this]
    · rename_i h1 h2
      simp only [BitVec.getLsbD_and, BitVec.getLsbD_not, BitVec.getLsbD_shiftLeft,
        BitVec.getLsbD_allOnes, hb, decide_true, Bool.true_and]
      by_cases h3 : 32 * k + b < size
      · have : b < size - 32 * k := by omega
        simp [h3, this]
      · have h4 : ¬ b < size - 32 * k := by omega
        have : b - (size - 32 * k) < 32 := by omega
        simp [h3, h4, this]

theorem get_clearExcessive (v : Svob) (i : Nat) :
    (clearExcessive v).get i = (decide (i < v.size) && v.get i) := by
  simp only [get, wordAt, clearExcessive, getElem?_mapIdxAux, Nat.zero_add]
  cases h : v.data[i / 32]? with
  | none => simp
  | some w =>
    simp only [Option.map_some, Option.getD_some]
    rw [getLsbD_clearWord _ _ _ _ (mod32_lt i)]
    have : 32 * (i / 32) + i % 32 = i := Nat.div_add_mod i 32
    rw [this]

theorem get_negated (v : Svob) (i : Nat) :
    (negated v).get i = (decide (i < v.size) && decide (i / 32 < v.data.length) && !v.get i) := by
  unfold negated
  rw [get_clearExcessive]
  simp only [get, wordAt, List.getElem?_map]
  by_cases h : i / 32 < v.data.length
  · rw [List.getElem?_eq_getElem h]
    simp [h, mod32_lt]
  · have h' : v.data.length ≤ i / 32 := Nat.le_of_not_lt h
    rw [List.getElem?_eq_none_iff.mpr h']
    simp [h]

theorem get_negated_wf (v : Svob) (hwf : v.WF) (i : Nat) :
    (negated v).get i = (decide (i < v.size) && !v.get i) := by
  rw [get_negated]
  by_cases h : i < v.size
  · have : i / 32 < v.data.length := by unfold WF at hwf; omega
    simp [h, this]
  · simp [h]

theorem size_negated (v : Svob) : (negated v).size = v.size := rfl

theorem get_setAll (v : Svob) (val : Bool) (i : Nat) :
    (setAll v val).get i = (val && decide (i < v.size) && decide (i / 32 < v.data.length)) := by
  unfold setAll
  cases val
  · simp only [Bool.false_eq_true, ↓reduceIte, get, wordAt, List.getElem?_map]
    cases h : v.data[i / 32]? <;> simp
  · simp only [↓reduceIte]
    rw [get_clearExcessive]
    simp only [get, wordAt, List.getElem?_map]
    by_cases h : i / 32 < v.data.length
    · rw [List.getElem?_eq_getElem h]
      simp only [Option.map_some, Option.getD_some, BitVec.getLsbD_allOnes, mod32_lt, h,
        decide_true, Bool.and_true, Bool.true_and]
    · have h' : v.data.length ≤ i / 32 := Nat.le_of_not_lt h
      rw [List.getElem?_eq_none_iff.mpr h']
      simp [h]

theorem or?_spec (v o r : Svob) (h : v.or? o = some r) :
    r.size = v.size ∧ r.data.length = v.data.length ∧
    ∀ j, r.get j = (v.get j || (decide (j / 32 < v.data.length) && o.get j)) := by
  unfold or? at h
  split at h
  · injection h with h; subst h
    refine ⟨rfl, length_zipW _ _ _, ?_⟩
    intro j
    simp only [get, wordAt, getElem?_zipW]
    cases h1 : v.data[j / 32]? with
    | none =>
      have : ¬ j / 32 < v.data.length := by
        intro hlt; rw [List.getElem?_eq_getElem hlt] at h1; simp at h1
      simp [this]
    | some x =>
      have : j / 32 < v.data.length := by
        apply Nat.lt_of_not_le; intro hle
        rw [List.getElem?_eq_none_iff.mpr hle] at h1; simp at h1
      cases h2 : o.data[j / 32]? <;> simp [this]
  · simp at h

theorem and?_spec (v o r : Svob) (h : v.and? o = some r) :
    r.size = v.size ∧ r.data.length = v.data.length ∧
    ∀ j, r.get j = (v.get j && (o.get j || !decide (j / 32 < o.data.length))) := by
  unfold and? at h
  split at h
  · injection h with h; subst h
    refine ⟨rfl, length_zipW _ _ _, ?_⟩
    intro j
    simp only [get, wordAt, getElem?_zipW]
    cases h1 : v.data[j / 32]? with
    | none => simp
    | some x =>
      cases h2 : o.data[j / 32]? with
      | none =>
        have : ¬ j / 32 < o.data.length := by
          intro hlt; rw [List.getElem?_eq_getElem hlt] at h2; simp at h2
        simp [this]
      | some y =>
        have : j / 32 < o.data.length := by
          apply Nat.lt_of_not_le; intro hle
          rw [List.getElem?_eq_none_iff.mpr hle] at h2; simp at h2
        simp [this]
  · simp at h

theorem sub?_spec (v o r : Svob) (h : v.sub? o = some r) :
    r.size = v.size ∧ r.data.length = v.data.length ∧
    ∀ j, r.get j = (v.get j && !o.get j) := by
  unfold sub? at h
  split at h
  · injection h with h; subst h
    refine ⟨rfl, length_zipW _ _ _, ?_⟩
    intro j
    simp only [get, wordAt, getElem?_zipW]
    cases h1 : v.data[j / 32]? with
    | none => simp
    | some x =>
      cases h2 : o.data[j / 32]? with
      | none => simp
      | some y => simp [mod32_lt]
  · simp at h

theorem orMinus?_spec (v o m r : Svob) (h : v.orMinus? o m = some r)
    (hlo : o.data.length = v.data.length) (hlm : m.data.length = v.data.length) :
    r.size = v.size ∧ r.data.length = v.data.length ∧
    ∀ j, r.get j = (v.get j || (o.get j && !m.get j)) := by
  unfold orMinus? at h
  split at h
  · injection h with h; subst h
    refine ⟨rfl, length_zipW3 _ _ _ _, ?_⟩
    intro j
    simp only [get, wordAt, getElem?_zipW3]
    by_cases hj : j / 32 < v.data.length
    · rw [List.getElem?_eq_getElem hj, List.getElem?_eq_getElem (hlo ▸ hj),
        List.getElem?_eq_getElem (hlm ▸ hj)]
      simp [mod32_lt]
    · have h' : v.data.length ≤ j / 32 := Nat.le_of_not_lt hj
      rw [List.getElem?_eq_none_iff.mpr h', List.getElem?_eq_none_iff.mpr (hlo ▸ h')]
      simp
  · simp at h

theorem toList?_spec (v : Svob) (l : List Nat) (h : v.toList? = some l) :
    ∀ i, i ∈ l ↔ (i < v.size ∧ v.get i = true) := by
  unfold toList? at h
  split at h
  · injection h with h; subst h
    intro i; simp [List.mem_filter]
  · simp at h

theorem toList?_sorted (v : Svob) (l : List Nat) (h : v.toList? = some l) :
    l.Pairwise (· < ·) := by
  unfold toList? at h
  split at h
  · injection h with h; subst h
    exact List.Pairwise.filter _ (List.pairwise_lt_range)
  · simp at h

theorem mem_iterAll (v : Svob) (i : Nat) : i ∈ v.iterAll ↔ v.get i = true := by
  unfold iterAll
  simp only [List.mem_filter, List.mem_range]
  constructor
  · exact fun h => h.2
  · intro h
    refine ⟨?_, h⟩
    apply Nat.lt_of_not_le; intro hle
    have : v.data.length ≤ i / 32 := by omega
    rw [get_eq_false_of_len v i this] at h; simp at h

end Svob
end LlgVerif
