/- S2: derivatives are correct w.r.t. the declarative language. -/
import LlgVerif.Spec.Regex
namespace LlgVerif
namespace Rx

theorem nullable_iff (r : Rx) : nullable r = true ↔ lang r [] := by
  induction r with
  | empty => simp [nullable, lang]
  | eps => simp [nullable, lang]
  | set rs => simp [nullable, lang]
  | cat a b iha ihb =>
    simp only [nullable, lang, Bool.and_eq_true, iha, ihb]
    constructor
    · rintro ⟨h1, h2⟩; exact ⟨[], [], rfl, h1, h2⟩
    · rintro ⟨u, v, h, h1, h2⟩
      obtain ⟨hu, hv⟩ := List.nil_eq_append_iff.mp h
      subst hu hv; exact ⟨h1, h2⟩
  | alt a b iha ihb => simp only [nullable, lang, Bool.or_eq_true, iha, ihb]
  | and a b iha ihb => simp only [nullable, lang, Bool.and_eq_true, iha, ihb]
  | not a iha =>
    simp only [nullable, lang, Bool.not_eq_true', ← iha]
    cases nullable a <;> simp
  | star a _ =>
    simp only [nullable, lang, true_iff]
    exact ⟨[], rfl, by simp⟩

theorem flatten_filter_ne_nil (ws : List (List B)) :
    (ws.filter (· ≠ [])).flatten = ws.flatten := by
  induction ws with
  | nil => rfl
  | cons x xs ih =>
    have ih' : (List.filter (fun x => !decide (x = [])) xs).flatten = xs.flatten := by
      simpa using ih
    by_cases hx : x = []
    · subst hx; simp [ih']
    · simp [List.filter_cons, hx, ih']

/-- non-empty pieces suffice for `star` -/
theorem star_nonempty_pieces (a : Rx) (w : List B) (ws : List (List B)) (h : w = ws.flatten)
    (hall : ∀ u ∈ ws, lang a u) :
    ∃ ws' : List (List B), w = ws'.flatten ∧ (∀ u ∈ ws', lang a u) ∧ ∀ u ∈ ws', u ≠ [] := by
  refine ⟨ws.filter (· ≠ []), ?_, ?_, ?_⟩
  · rw [h, flatten_filter_ne_nil]
  · intro u hu; exact hall u (List.mem_filter.mp hu).1
  · intro u hu; simpa using (List.mem_filter.mp hu).2

theorem deriv_iff (r : Rx) (b : B) (w : List B) : lang (deriv r b) w ↔ lang r (b :: w) := by
  induction r generalizing w with
  | empty => simp [deriv, lang]
  | eps => simp [deriv, lang]
  | set rs =>
    simp only [deriv]
    by_cases h : inSet rs b = true
    · simp only [h, ↓reduceIte, lang]
      constructor
      · intro hw; subst hw; exact ⟨b, rfl, h⟩
      · rintro ⟨c, hc, _⟩; injection hc with _ h2
    · simp only [h, Bool.false_eq_true, ↓reduceIte, lang, false_iff, not_exists, not_and]
      intro c hc; injection hc with h1 _; subst h1; exact h
  | cat a c iha ihc =>
    have key : (∃ u v, b :: w = u ++ v ∧ lang a u ∧ lang c v) ↔
        ((∃ u' v, w = u' ++ v ∧ lang a (b :: u') ∧ lang c v) ∨ (lang a [] ∧ lang c (b :: w))) := by
      constructor
      · rintro ⟨u, v, h, h1, h2⟩
        cases u with
        | nil => right; simp at h; subst h; exact ⟨h1, h2⟩
        | cons x u' =>
          left; simp at h; obtain ⟨hx, hw⟩ := h; subst hx
          exact ⟨u', v, hw, h1, h2⟩
      · rintro (⟨u', v, hw, h1, h2⟩ | ⟨h1, h2⟩)
        · exact ⟨b :: u', v, by simp [hw], h1, h2⟩
        · exact ⟨[], b :: w, rfl, h1, h2⟩
    simp only [deriv]
    by_cases hn : nullable a = true
    · simp only [hn, ↓reduceIte, lang, key]
      have hn' := (nullable_iff a).mp hn
      constructor
      · rintro (⟨u, v, hw, h1, h2⟩ | h)
        · exact Or.inl ⟨u, v, hw, (iha u).mp h1, h2⟩
        · exact Or.inr ⟨hn', (ihc w).mp h⟩
      · rintro (⟨u, v, hw, h1, h2⟩ | ⟨_, h⟩)
        · exact Or.inl ⟨u, v, hw, (iha u).mpr h1, h2⟩
        · exact Or.inr ((ihc w).mpr h)
    · have hn' : ¬ lang a [] := fun h => hn ((nullable_iff a).mpr h)
      simp only [hn, Bool.false_eq_true, ↓reduceIte, lang, key]
      constructor
      · rintro ⟨u, v, hw, h1, h2⟩
        exact Or.inl ⟨u, v, hw, (iha u).mp h1, h2⟩
      · rintro (⟨u, v, hw, h1, h2⟩ | ⟨h, _⟩)
        · exact ⟨u, v, hw, (iha u).mpr h1, h2⟩
        · exact absurd h hn'
  | alt a c iha ihc => simp only [deriv, lang, iha, ihc]
  | and a c iha ihc => simp only [deriv, lang, iha, ihc]
  | not a iha => simp only [deriv, lang, iha]
  | star a iha =>
    simp only [deriv, lang]
    constructor
    · rintro ⟨u, v, hw, h1, ws, hv, hall⟩
      refine ⟨(b :: u) :: ws, by simp [hw, hv], ?_⟩
      intro x hx
      rcases List.mem_cons.mp hx with h | h
      · subst h; exact (iha u).mp h1
      · exact hall x h
    · rintro ⟨ws, hw, hall⟩
      obtain ⟨ws', hw', hall', hne⟩ := star_nonempty_pieces a (b :: w) ws hw hall
      cases ws' with
      | nil => simp at hw'
      | cons x xs =>
        have hx := hne x List.mem_cons_self
        cases x with
        | nil => exact absurd rfl hx
        | cons c u =>
          simp at hw'
          obtain ⟨hc, hw''⟩ := hw'
          subst hc
          refine ⟨u, xs.flatten, hw'', (iha u).mpr (hall' _ List.mem_cons_self), xs, rfl, ?_⟩
          intro y hy; exact hall' y (List.mem_cons_of_mem _ hy)

theorem derivs_iff (r : Rx) (w v : List B) : lang (derivs r w) v ↔ lang r (w ++ v) := by
  induction w generalizing r with
  | nil => rfl
  | cons b w ih => simp only [derivs, ih, deriv_iff, List.cons_append]

/-- **matches_iff_lang** -/
theorem matchesB_iff_lang (r : Rx) (w : List B) : matchesB r w = true ↔ lang r w := by
  unfold matchesB
  rw [nullable_iff, derivs_iff, List.append_nil]

end Rx
end LlgVerif
