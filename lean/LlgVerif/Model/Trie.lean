/-
M2 — model of `toktrie/src/toktree.rs`: trie builder with duplicate handling
(`TrieBuilder::insert`, :1233-1312), DFS serialisation with subtree sizes and parent counts
(`serialize_node`, :1314-1344), the branch-free walk with pop counts (`add_bias_inner`, :977-1031;
`add_bias`, :948-974; `has_valid_extensions`, :896-930), and greedy tokenisation (:612-641).

The recogniser is a parameter: a step function on states; `Recognizer::try_push_byte` pushes the
successor state on a stack, `pop_bytes n` drops `n` states.  Import-free.
-/
namespace LlgVerif

abbrev Byte := UInt8

inductive Tree where
  | node (byte : Byte) (tok : Option Nat) (kids : List Tree)
deriving Repr, Inhabited

namespace Tree
def byte : Tree → Byte | node b _ _ => b
def tok : Tree → Option Nat | node _ t _ => t
def kids : Tree → List Tree | node _ _ k => k
end Tree

structure FlatNode where
  byte : Byte
  tok : Option Nat
  numParents : Nat
  subtreeSize : Nat
deriving Repr, DecidableEq, Inhabited

/-! ### Builder -/

/-- Last byte of a word: the first child with byte `b` takes the token unless it already carries
    one; then a duplicate leaf is appended at the end of the child list. -/
def insertLast (b : Byte) (t : Nat) : List Tree → List Tree
  | [] => [Tree.node b (some t) []]
  | c :: rest =>
    if c.byte = b then
      match c.tok with
      | none => Tree.node b (some t) c.kids :: rest
      | some _ => c :: rest ++ [Tree.node b (some t) []]
    else c :: insertLast b t rest

/-- Inner byte of a word: descend into the first child with byte `b`, or append a new child. -/
def modFirst (b : Byte) (f : Tree → Tree) (mk : Unit → Tree) : List Tree → List Tree
  | [] => [mk ()]
  | c :: rest => if c.byte = b then f c :: rest else c :: modFirst b f mk rest

/-- `TrieBuilder::insert` on the child list of the current node. -/
def insertKids : List Byte → Nat → List Tree → List Tree
  | [], _, cs => cs
  | [b], t, cs => insertLast b t cs
  | b :: b2 :: w, t, cs =>
    modFirst b (fun c => Tree.node c.byte c.tok (insertKids (b2 :: w) t c.kids))
      (fun _ => Tree.node b none (insertKids (b2 :: w) t [])) cs

/-- Stable insertion sort of `(word, id)` by word bytes (Rust's `sort_by` is stable). -/
def bytesLe : List Byte → List Byte → Bool
  | [], _ => true
  | _ :: _, [] => false
  | a :: as, b :: bs => if a < b then true else if b < a then false else bytesLe as bs

def insertSorted (x : List Byte × Nat) : List (List Byte × Nat) → List (List Byte × Nat)
  | [] => [x]
  | y :: ys => if bytesLe y.1 x.1 then y :: insertSorted x ys else x :: y :: ys

def sortWords (ws : List (List Byte × Nat)) : List (List Byte × Nat) :=
  ws.foldl (fun acc x => insertSorted x acc) []

def enumFrom {α} : Nat → List α → List (α × Nat)
  | _, [] => []
  | k, x :: xs => (x, k) :: enumFrom (k + 1) xs

/-- `TokTrie::from`: non-empty words inserted in sorted order under a root with byte `0xff`. -/
def buildTree (words : List (List Byte)) : Tree :=
  let sorted := sortWords (enumFrom 0 words)
  let kids := sorted.foldl (fun cs (w : List Byte × Nat) => if w.1.isEmpty then cs else insertKids w.1 w.2 cs) []
  Tree.node 0xff none kids

/-! ### Serialisation -/

mutual
def ser : Tree → Nat → List FlatNode
  | Tree.node b t kids, np =>
    let body := serKids kids np
    { byte := b, tok := t, numParents := if np = 0 then 1 else np, subtreeSize := 1 + body.length } :: body
def serKids : List Tree → Nat → List FlatNode
  | [], _ => []
  | [c], np => ser c (np + 1)
  | c :: c2 :: cs, np => ser c 1 ++ serKids (c2 :: cs) np
end

def flatten (t : Tree) : Array FlatNode := (ser t 0).toArray

/-! ### The walk -/

structure Rec (S : Type) where
  step : S → Byte → Option S

/-- `add_bias_inner`: the loop over `p` in `off+1 .. endp`; children of node `off` are visited in
    DFS order, `next_pop` states are popped at the start of each iteration.  A node with
    `subtree_size = 0` would make the Rust loop spin forever; the model stops there (serialisation
    never produces one: `ser_subtreeSize_pos`).  An empty recogniser stack (`pop_bytes` beyond the
    stack, a panic in every Rust recogniser) also stops the model. -/
def walkLoop {S} (r : Rec S) (nodes : Array FlatNode) (endp defl : Nat)
    (p np : Nat) (st : List S) (tk : List Nat) : Nat × List S × List Nat :=
  if h : p < endp then
    let st := st.drop np
    let n := nodes[p]!
    match st with
    | [] => (0, st, tk)
    | s :: _ =>
      match r.step s n.byte with
      | some s' =>
        walkLoop r nodes endp defl (p + 1) (if n.subtreeSize = 1 then n.numParents else 0)
          (s' :: st) (n.tok.getD defl :: tk)
      | none =>
        if h0 : n.subtreeSize = 0 then (0, st, tk)
        else walkLoop r nodes endp defl (p + n.subtreeSize) (n.numParents - 1) st tk
  else (np, st, tk)
termination_by endp - p
decreasing_by
  all_goals simp_wf
  · omega
  · have h1 : nodes[p]!.subtreeSize ≠ 0 := h0
    omega

/-- first child of node `off` with byte `b` (`child_at_byte`) -/
def childAtByte (nodes : Array FlatNode) (off : Nat) (b : Byte) : Option Nat :=
  let endp := off + (nodes[off]!).subtreeSize
  let rec go (fuel p : Nat) : Option Nat :=
    match fuel with
    | 0 => none
    | fuel + 1 =>
      if p < endp then
        if (nodes[p]!).byte = b then some p else go fuel (p + (nodes[p]!).subtreeSize)
      else none
  go nodes.size (off + 1)

def childAtBytes (nodes : Array FlatNode) (off : Nat) : List Byte → Option Nat
  | [] => some off
  | b :: bs => match childAtByte nodes off b with
    | some c => childAtBytes nodes c bs
    | none => none

/-- recogniser that accepts exactly the prefixes of a fixed byte string (`FixedRecognizer`) -/
def fixedRec : Rec (List Byte) where
  step := fun rest b => match rest with
    | [] => none
    | x :: xs => if x = b then some xs else none

/-- `add_bias(r, toks, start)`; returns the token ids set (the fake id `vocab` removed at the end),
    in visiting order, and the recogniser stack after the final pop. -/
def addBias {S} (r : Rec S) (nodes : Array FlatNode) (vocab : Nat) (s0 : S) (start : List Byte) :
    List Nat :=
  let pre := if start.isEmpty then [] else
    let root := nodes[0]!
    (walkLoop fixedRec nodes root.subtreeSize vocab 1 0 [start] []).2.2
  match childAtBytes nodes 0 start with
  | none => pre.filter (· ≠ vocab)
  | some off =>
    let n := nodes[off]!
    let res := walkLoop r nodes (off + n.subtreeSize) vocab (off + 1) 0 [s0] pre
    res.2.2.filter (· ≠ vocab)

/-- `has_valid_extensions`: stops at the first accepted node that carries a token. -/
def hasValidExtLoop {S} (r : Rec S) (nodes : Array FlatNode) (endp : Nat) :
    Nat → Nat → Nat → List S → Bool
  | 0, _, _, _ => false
  | fuel + 1, p, np, st =>
    if p < endp then
      let st := st.drop np
      let n := nodes[p]!
      match st with
      | [] => false
      | s :: _ =>
        match r.step s n.byte with
        | some s' =>
          if n.tok.isSome then true
          else hasValidExtLoop r nodes endp fuel (p + 1) (if n.subtreeSize = 1 then n.numParents else 0) (s' :: st)
        | none => hasValidExtLoop r nodes endp fuel (p + n.subtreeSize) (n.numParents - 1) st
    else false

def hasValidExtensions {S} (r : Rec S) (nodes : Array FlatNode) (s0 : S) (start : List Byte) : Bool :=
  match childAtBytes nodes 0 start with
  | none => false
  | some off =>
    hasValidExtLoop r nodes (off + (nodes[off]!).subtreeSize) nodes.size (off + 1) 0 [s0]

/-! ### Greedy tokenisation -/

/-- longest token that is a prefix of `bs` when descending from `off`: (token, bytes consumed) -/
def longestTok (nodes : Array FlatNode) : Nat → List Byte → Nat → Option (Nat × Nat) → Option (Nat × Nat)
  | _, [], _, best => best
  | off, b :: bs, len, best =>
    match childAtByte nodes off b with
    | none => best
    | some c =>
      let best := match (nodes[c]!).tok with
        | some t => some (t, len + 1)
        | none => best
      longestTok nodes c bs (len + 1) best

/-- `greedy_tokenize`: a byte with no token is skipped (the Rust code "just carries on"). -/
def greedyTokenize (nodes : Array FlatNode) : Nat → List Byte → List Nat
  | 0, _ => []
  | _, [] => []
  | fuel + 1, b :: bs =>
    match longestTok nodes 0 (b :: bs) 0 none with
    | some (t, n) => t :: greedyTokenize nodes fuel ((b :: bs).drop n)
    | none => greedyTokenize nodes fuel bs

/-- naive reference: token `t` with bytes `w` is selected iff every byte is accepted in turn -/
def runBytes {S} (r : Rec S) : S → List Byte → Option S
  | s, [] => some s
  | s, b :: bs => match r.step s b with
    | some s' => runBytes r s' bs
    | none => none

end LlgVerif
