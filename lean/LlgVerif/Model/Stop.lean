/-
M9 — model of `StopController` (`stop_controller.rs`) for stop tokens and stop *strings*.

The regex machinery of derivre (`(?s:.*)` followed by a look-ahead of the stop alternatives, run as
a lazy lexeme) is represented by what it computes for literal stop strings:
* a match is reported after the first byte at which some stop string is a suffix of the text fed
  since the last reset; the look-ahead length is the length of that stop string;
* `possible_lookahead_len` is the length of the longest suffix of that text which is a proper
  prefix of some stop string.
After the repair of defect F6 a byte that kills the automaton (text that cannot be valid UTF-8)
restarts matching at that byte; for literal stops and valid text this never triggers.
Import-free.
-/
namespace LlgVerif

abbrev SB := UInt8

structure StopCfg where
  stops : List (List SB)          -- stop strings (non-empty)
  stopTokens : List Nat
  tokBytes : Nat → List SB

structure StopSt where
  stopped : Bool
  pending : List SB
  text : List SB                  -- bytes fed to the matcher since the last reset
deriving Repr, DecidableEq

namespace StopCfg

def isSuffix (s t : List SB) : Bool := s.length ≤ t.length && t.drop (t.length - s.length) == s

/-- some stop string is a suffix of `t`: its length (first in list order) -/
def matchLen (c : StopCfg) (t : List SB) : Option Nat :=
  (c.stops.find? (fun s => isSuffix s t)).map List.length

/-- longest suffix of `t` that is a proper prefix of some stop string -/
def chop (c : StopCfg) (t : List SB) : Nat :=
  let cands := (List.range (t.length + 1)).filter (fun k =>
    c.stops.any (fun s => k < s.length && s.take k == t.drop (t.length - k)))
  cands.foldl max 0

/-- `valid_utf8_len` -/
def validUtf8Len (data : List SB) : Nat :=
  if data.isEmpty then 0 else
  let arr := data.toArray
  let rec back (fuel i : Nat) : Nat :=
    match fuel with
    | 0 => i
    | fuel + 1 => if i > 0 && (arr[i]! &&& 0xC0) == 0x80 then back fuel (i - 1) else i
  let i := back data.length (data.length - 1)
  let fb := arr[i]!
  let expected : Nat :=
    if fb &&& 0x80 == 0 then 1
    else if fb &&& 0xE0 == 0xC0 then 2
    else if fb &&& 0xF0 == 0xE0 then 3
    else if fb &&& 0xF8 == 0xF0 then 4
    else 1
  if i + expected ≤ data.length then i + expected else i

def decimalBytes (n : Nat) : List SB := (toString n).toUTF8.toList

/-- the byte loop of `commit_token_u8` for an ordinary token; returns (output, new state) -/
def feedBytes (c : StopCfg) : List SB → List SB → List SB → List SB × StopSt
  | [], buf, text =>
    let ch := c.chop text
    let toReturn := buf.length - ch
    let valid := validUtf8Len (buf.take toReturn)
    (buf.take valid, { stopped := false, pending := buf.drop valid, text := text })
  | b :: bs, buf, text =>
    let buf := buf ++ [b]
    let text := text ++ [b]
    match c.matchLen text with
    | some k => (buf.take (buf.length - k), { stopped := true, pending := [], text := text })
    | none => feedBytes c bs buf text

/-- `commit_token` (as bytes; the Rust function converts lossily to a `String`) -/
def commit (c : StopCfg) (s : StopSt) (tok : Nat) : List SB × StopSt :=
  if s.stopped then ([], s)
  else if c.stopTokens.contains tok then (s.pending, { s with stopped := true, pending := [] })
  else
    let bytes := c.tokBytes tok
    match bytes with
    | [] => (s.pending ++ ("<[".toUTF8.toList ++ decimalBytes tok ++ "]>".toUTF8.toList), { s with pending := [], text := [] })
    | b :: rest =>
      if b == 0xFF then (s.pending ++ rest, { s with pending := [], text := [] })
      else if c.stops.isEmpty then
        let buf := s.pending ++ bytes
        let valid := validUtf8Len buf
        (buf.take valid, { s with pending := buf.drop valid })
      else feedBytes c bytes s.pending s.text

def run (c : StopCfg) : StopSt → List Nat → List (List SB) × StopSt
  | s, [] => ([], s)
  | s, t :: ts =>
    let r := commit c s t
    let rs := run c r.2 ts
    (r.1 :: rs.1, rs.2)

def init : StopSt := { stopped := false, pending := [], text := [] }

end StopCfg
end LlgVerif
