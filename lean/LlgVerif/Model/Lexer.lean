/-
M5 — the byte-level engine: the lexer of `parser/src/earley/regexvec.rs` / `lexer.rs` (a state is the
vector of live (lexeme, derivative) pairs; greedy lexemes end when the vector dies, lazy ones as soon
as they match, "all at end of input" counts as a match) joined with the Earley rows of M4 the way
`advance_parser` / `scan` / `scan_skip_lexeme` / `just_push_row` of `parser.rs` join them.

Derivatives are represented by the states of the checked DFA certificate of each lexeme's regex
(S2): the state reached on the bytes read since the lexeme started.  Pruning by non-emptiness
(`is_non_empty_limited`) is the `live` flag of the certificate, nullability its `acc` flag.

Outside this model: look-ahead / hidden bytes, special tokens, sub-grammars with their own lexeme
class, parametric rules, max_tokens, captures, resource limits, the speculative row reuse
(`rows_valid_end`) — the harness only sends grammars without those to this model.  Import-free.
-/
import LlgVerif.Spec.Regex
import LlgVerif.Model.Earley
namespace LlgVerif
namespace Lx

structure Lexeme where
  dfa : Dfa
  isLazy : Bool
  skip : Bool
  once : Bool

instance : Inhabited Lexeme := ⟨⟨⟨#[], #[], #[], #[], #[]⟩, false, false, false⟩⟩

/-- the regex a lexeme's certificate is about -/
def Lexeme.rx (l : Lexeme) : Rx := l.dfa.states.getD 0 Rx.empty

structure Cfg where
  g : Ey.CG
  lexemes : Array Lexeme
  skipId : Option Nat        -- the skip lexeme of the grammar (single lexeme class)
  initialSkip : Bool         -- `allow_initial_skip`

def Cfg.lx (C : Cfg) (i : Nat) : Lexeme := C.lexemes.getD i default

/-- every certificate is accepted by the checker (evaluated by the driver when a configuration is loaded) -/
def Cfg.wf (C : Cfg) : Bool :=
  (List.range C.lexemes.size).all (fun i => Dfa.check (C.lx i).rx (C.lx i).dfa)

abbrev LState := List (Nat × Nat)   -- (lexeme, DFA state), ascending by lexeme

def liveAt (d : Dfa) (q : Nat) : Bool := d.live[q]!
def accAt (d : Dfa) (q : Nat) : Bool := d.acc[q]!

def insertNat (x : Nat) : List Nat → List Nat
  | [] => [x]
  | y :: ys => if x < y then x :: y :: ys else if x = y then y :: ys else y :: insertNat x ys

def canon (l : List Nat) : List Nat := l.foldl (fun acc x => insertNat x acc) []

/-- `RegexVec::initial_state`: the selected lexemes whose regex is not empty -/
def start (C : Cfg) (allowed : List Nat) : LState :=
  (canon allowed).filterMap (fun i => if liveAt (C.lx i).dfa 0 then some (i, 0) else none)

/-- `RegexVec::transition_inner`: derivative of every entry, empty ones dropped -/
def step (C : Cfg) (s : LState) (b : B) : LState :=
  s.filterMap (fun e =>
    let q' := (C.lx e.1).dfa.next e.2 b
    if liveAt (C.lx e.1).dfa q' then some (e.1, q') else none)

/-- `StateDesc::possible` -/
def possible (s : LState) : List Nat := s.map (·.1)

/-- `StateDesc::greedy_accepting`: every entry whose derivative is nullable -/
def accepting (C : Cfg) (s : LState) : List Nat :=
  (s.filter (fun e => accAt (C.lx e.1).dfa e.2)).map (·.1)

/-- the derivative matches the empty string only (`NextByte::ForcedEOI`) -/
def eoi (C : Cfg) (e : Nat × Nat) : Bool :=
  let d := (C.lx e.1).dfa
  accAt d e.2 && Dfa.allBytes.all (fun b => !liveAt d (d.next e.2 b))

def allEoi (C : Cfg) (s : LState) : Bool := !s.isEmpty && s.all (eoi C)

/-- `lowest_match_inner` (`StateDesc::lazy_accepting`): the lazy lexemes that match; else, when every
entry is a greedy lexeme at its end, all of them -/
def lowest (C : Cfg) (s : LState) : List Nat :=
  let lz := (s.filter (fun e => (C.lx e.1).isLazy && accAt (C.lx e.1).dfa e.2)).map (·.1)
  if !lz.isEmpty then lz else if allEoi C s then possible s else []

/-- `Lexer::allowed_first_byte` -/
def firstByte (C : Cfg) (b : B) : Bool :=
  !(step C (start C (List.range C.lexemes.size)) b).isEmpty

structure St where
  lexs : List (List Nat)          -- lexeme sets scanned so far, skip lexemes aside
  rows : List (List Ey.Item)      -- the Earley rows (rows copied by a skip lexeme are not repeated)
  al : List Nat                   -- lexemes possible in the lexer start state of the current row
  ls : LState                     -- lexer state
  pending : Bool                  -- bytes of an unfinished lexeme have been read
deriving Repr

/-- lexemes the row asks for, plus the skip lexeme when it asks for any (`just_push_row`) -/
def allowedFor (C : Cfg) (row : List Ey.Item) (withSkip : Bool) : List Nat :=
  let a := Ey.allowedLexemes C.g row
  a ++ (if withSkip && !a.isEmpty then C.skipId.toList else [])

def init (C : Cfg) : St :=
  let row := Ey.initRow C.g
  let s0 := start C (allowedFor C row C.initialSkip)
  { lexs := [], rows := [row], al := possible s0, ls := s0, pending := false }

/-- `scan` / `scan_skip_lexeme` with the lexeme set `S`: the new lexeme-set log, rows and the lexemes
the lexer restarts on -/
def scanSet (C : Cfg) (st : St) (S : List Nat) : Option (List (List Nat) × List (List Ey.Item) × List Nat) :=
  match S.find? (fun l => (C.lx l).skip) with
  | some l =>
    -- `scan_skip_lexeme`: the row is copied, the lexer restarts on the same lexemes
    -- (without the skip lexeme when it may occur only once)
    some (st.lexs, st.rows, if (C.lx l).once then st.al.filter (fun x => some x != C.skipId) else st.al)
  | none =>
    let row := Ey.nextRow C.g st.rows S
    if row.isEmpty then none else some (st.lexs ++ [S], st.rows ++ [row], allowedFor C row true)

/-- `advance_parser` with the lexeme set `S`; `tb` is the byte that already belongs to the next
lexeme (greedy end), `fuel` bounds the one nested call for a single-byte lexeme -/
def advance (C : Cfg) (st : St) (S : List Nat) (tb : Option B) : Nat → Option St
  | 0 => none
  | fuel + 1 =>
    match scanSet C st S with
    | none => none
    | some (lexs, rows, al) =>
      let s0 := start C al
      match tb with
      | none => some { lexs, rows, al := possible s0, ls := s0, pending := false }
      | some b =>
        let s1 := step C s0 b
        if s1.isEmpty then none
        else
          let st1 : St := { lexs, rows, al := possible s0, ls := s1, pending := true }
          if allEoi C s1 then advance C st1 (accepting C s1) none fuel   -- `check_for_single_byte_lexeme`
          else some st1

/-- one byte (`Lexer::advance` + `advance_lexer_or_parser`) -/
def push (C : Cfg) (st : St) (b : B) : Option St :=
  let s' := step C st.ls b
  if s'.isEmpty then
    if !firstByte C b then none
    else
      let S := accepting C st.ls
      if S.isEmpty then none else advance C st S (some b) 3
  else
    let lo := lowest C s'
    if !lo.isEmpty then advance C { st with ls := s' } lo none 3
    else some { st with ls := s', pending := true }

/-- the same byte when the all-at-end-of-input rule does not fire: derivre's `ForcedEOI` test is
syntactic (the derivative *is* the empty string), so it can miss a derivative that merely *accepts* only
the empty string (`ε & x*`); the lexeme then stays open and ends one byte later through the
dying-vector path.  Used by the driver to offer the tie both views of the last byte. -/
def pushLate (C : Cfg) (st : St) (b : B) : Option St :=
  let s' := step C st.ls b
  if s'.isEmpty then push C st b
  else
    let lz := (s'.filter (fun e => (C.lx e.1).isLazy && accAt (C.lx e.1).dfa e.2)).map (·.1)
    if !lz.isEmpty then push C st b
    else some { st with ls := s', pending := true }

def run (C : Cfg) : St → List B → Option St
  | st, [] => some st
  | st, b :: bs => match push C st b with
    | some st' => run C st' bs
    | none => none

/-- `flush_lexer`: end the unfinished lexeme here -/
def flush (C : Cfg) (st : St) : Option St :=
  if !st.pending then some st
  else
    let S := accepting C st.ls
    if S.isEmpty then none else advance C st S none 3

/-- `is_accepting` -/
def isAccepting (C : Cfg) (st : St) : Bool :=
  match flush C st with
  | some st' => Ey.accepting C.g st'.rows
  | none => false

def accepts (C : Cfg) (w : List B) : Bool :=
  match run C (init C) w with
  | some st => isAccepting C st
  | none => false

def allowedBytes (C : Cfg) (st : St) : List Nat :=
  (List.range 256).filter (fun n => (push C st (UInt8.ofNat n)).isSome)

end Lx
end LlgVerif
