/-
Model of `GrammarBuilder::negated_token_ranges` (`grammar_builder.rs:320-368`): the complement of
a list of inclusive token-id ranges inside `0 .. vocab-1`.  `none` = one of the `ensure!`s fails.
Import-free.
-/
namespace LlgVerif

abbrev TRange := Nat × Nat

def inRanges (rs : List TRange) (t : Nat) : Bool := rs.any (fun r => r.1 ≤ t && t ≤ r.2)

/-- stable insertion sort by range start (Rust's `sort_by_key` is stable) -/
def insertByStart (x : TRange) : List TRange → List TRange
  | [] => [x]
  | y :: ys => if y.1 ≤ x.1 then y :: insertByStart x ys else x :: y :: ys

def sortByStart (rs : List TRange) : List TRange := rs.foldl (fun acc x => insertByStart x acc) []

/-- the loop over the sorted ranges: (current, negated so far) -/
def negLoop : List TRange → Nat → List TRange → Nat × List TRange
  | [], cur, acc => (cur, acc)
  | (s, e) :: rest, cur, acc =>
    if e < cur then negLoop rest cur acc
    else negLoop rest (max cur (e + 1)) (if s > cur then acc ++ [(cur, s - 1)] else acc)

def negatedRanges? (vocab : Nat) (rs : List TRange) : Option (List TRange) :=
  if rs.isEmpty then none
  else if rs.any (fun r => !(r.2 < vocab) || !(r.1 ≤ r.2)) then none
  else
    let r := negLoop (sortByStart rs) 0 []
    some (if r.1 ≤ vocab - 1 then r.2 ++ [(r.1, vocab - 1)] else r.2)

end LlgVerif
