/-
M8 — `rx_int_range` (parser/src/json/numeric.rs): the digit-by-digit recursion that turns integer
bounds into a regular expression.  The model builds, side by side, the *string* the Rust code
formats (tied to the implementation by string equality on every run) and the regular expression
that string denotes (an `Rx` of the declarative spec S2, whose language the theorems are about).
Import-free apart from the regex spec.
-/
import LlgVerif.Spec.Regex
namespace LlgVerif
open Rx

/-- ASCII digit -/
def digitB (k : Nat) : B := UInt8.ofNat (48 + k)

/-- canonical decimal spelling of a natural number (`n.to_string()`) -/
def dec (n : Nat) : List B :=
  if n < 10 then [digitB n] else dec (n / 10) ++ [digitB (n % 10)]
termination_by n
decreasing_by omega

/-- `num_digits` -/
def numDigits (n : Nat) : Nat := (dec n).length

/-- a literal byte string -/
def litRx : List B → Rx
  | [] => eps
  | b :: w => cat (set [(b.toNat, b.toNat)]) (litRx w)

/-- `[lo-hi]` over digits -/
def clsRx (lo hi : Nat) : Rx := set [(48 + lo, 48 + hi)]

/-- alternation of a list of parts (`mk_or`) -/
def altsRx : List Rx → Rx
  | [] => empty
  | r :: rs => alt r (altsRx rs)

/-- `[0-9]{n,}` -/
def digitsGe : Nat → Rx
  | 0 => star (clsRx 0 9)
  | n + 1 => cat (clsRx 0 9) (digitsGe n)

/-- `mk_or` on the printed side -/
def mkOrS (parts : List String) : String :=
  match parts with
  | [p] => p
  | ps => "(" ++ "|".intercalate ps ++ ")"

/-- printed pattern and its denotation -/
structure PR where
  s : String
  rx : Rx
deriving Inhabited

/-- the text before the last digit (`&l[..l.len() - 1]`) -/
def preS (n : Nat) : String := if n < 10 then "" else toString (n / 10)
def preB (n : Nat) : List B := if n < 10 then [] else dec (n / 10)

/-- `rx_int_range(Some(l), Some(r))` for `0 ≤ l`. -/
def nnRange (l r : Nat) : Except Unit PR :=
  if l > r then .error ()
  else if numDigits l = numDigits r then
    if l = r then .ok ⟨"(" ++ toString l ++ ")", litRx (dec l)⟩
    else if l / 10 = r / 10 then
      .ok ⟨"(" ++ preS l ++ "[" ++ toString (l % 10) ++ "-" ++ toString (r % 10) ++ "])",
           cat (litRx (preB l)) (clsRx (l % 10) (r % 10))⟩
    else if l / 10 ≥ r / 10 then .error ()
    else
      let leftRec := if l % 10 ≠ 0 then l / 10 + 1 else l / 10
      let rightRec := if r % 10 ≠ 9 then r / 10 - 1 else r / 10
      let pl : List PR := if l % 10 ≠ 0 then
        [⟨preS l ++ "[" ++ toString (l % 10) ++ "-9]", cat (litRx (preB l)) (clsRx (l % 10) 9)⟩] else []
      let pr : List PR := if r % 10 ≠ 9 then
        [⟨preS r ++ "[0-" ++ toString (r % 10) ++ "]", cat (litRx (preB r)) (clsRx 0 (r % 10))⟩] else []
      if leftRec ≤ rightRec then
        match nnRange leftRec rightRec with
        | .error e => .error e
        | .ok inner =>
          let parts := pl ++ pr ++ [⟨inner.s ++ "[0-9]", cat inner.rx (clsRx 0 9)⟩]
          .ok ⟨mkOrS (parts.map (·.s)), altsRx (parts.map (·.rx))⟩
      else
        let parts := pl ++ pr
        .ok ⟨mkOrS (parts.map (·.s)), altsRx (parts.map (·.rx))⟩
  else if numDigits l ≥ 19 then .error ()      -- `10_i64.checked_pow` overflows
  else
    let bp := 10 ^ numDigits l - 1
    if l ≤ bp ∧ bp < r then
      match nnRange l bp, nnRange (bp + 1) r with
      | .ok a, .ok b => .ok ⟨mkOrS [a.s, b.s], altsRx [a.rx, b.rx]⟩
      | _, _ => .error ()
    else .error ()
termination_by r - l
decreasing_by
  all_goals simp_wf
  · split <;> split <;> omega
  · omega
  · omega

/-- `[1-9][0-9]{d,}` -/
def bigRx (d : Nat) : Rx := cat (clsRx 1 9) (digitsGe d)

/-- `rx_int_range(Some(l), None)` for `0 ≤ l` -/
def nnGe (l : Nat) : Except Unit PR :=
  if numDigits l ≥ 19 then .error ()          -- "9" * 19 does not parse as i64
  else
    match nnRange l (10 ^ numDigits l - 1) with
    | .error e => .error e
    | .ok a => .ok ⟨mkOrS [a.s, "[1-9][0-9]{" ++ toString (numDigits l) ++ ",}"],
                    altsRx [a.rx, bigRx (numDigits l)]⟩

def minus : Rx := set [(45, 45)]

def i64Min : Int := -9223372036854775808

/-- `rx_int_range(Some(l), Some(r))` on `i64`; negating `i64::MIN` overflows (error here). -/
def intBoth (l r : Int) : Except Unit PR :=
  if l > r then .error ()
  else if l < 0 then
    if l = i64Min then .error ()
    else if r < 0 then
      match nnRange (-r).toNat (-l).toNat with
      | .error e => .error e
      | .ok a => .ok ⟨"(-" ++ a.s ++ ")", cat minus a.rx⟩
    else
      match nnRange 0 (-l).toNat, nnRange 0 r.toNat with
      | .ok a, .ok b => .ok ⟨"(-" ++ a.s ++ "|" ++ b.s ++ ")", alt (cat minus a.rx) b.rx⟩
      | _, _ => .error ()
  else nnRange l.toNat r.toNat

/-- `rx_int_range(Some(l), None)` -/
def intGe (l : Int) : Except Unit PR :=
  if l < 0 then
    match intBoth l (-1), nnGe 0 with
    | .ok a, .ok b => .ok ⟨mkOrS [a.s, b.s], altsRx [a.rx, b.rx]⟩
    | _, _ => .error ()
  else nnGe l.toNat

/-- `rx_int_range(None, Some(r))` -/
def intLe (r : Int) : Except Unit PR :=
  if r ≥ 0 then
    match intBoth 0 r, nnGe 1 with
    | .ok a, .ok b => .ok ⟨mkOrS [a.s, "-" ++ b.s], altsRx [a.rx, cat minus b.rx]⟩
    | _, _ => .error ()
  else if r = i64Min then .error ()
  else
    match nnGe (-r).toNat with
    | .error e => .error e
    | .ok b => .ok ⟨"-" ++ b.s, cat minus b.rx⟩

/-- `-?(0|[1-9][0-9]*)` -/
def intAny : PR :=
  ⟨"-?(0|[1-9][0-9]*)", cat (alt minus eps) (alt (litRx (dec 0)) (bigRx 0))⟩

def rxIntRange : Option Int → Option Int → Except Unit PR
  | none, none => .ok intAny
  | some l, none => intGe l
  | none, some r => intLe r
  | some l, some r => intBoth l r

end LlgVerif
