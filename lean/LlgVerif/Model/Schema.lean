/-
M7 — the schema IR of `parser/src/json/schema.rs` (`enum Schema`; `$ref` and `patternProperties` aside) with
`normalize`, `is_verifiably_disjoint_from` and `intersect` (the function behind `allOf`, `anyOf`,
`oneOf`, `enum`, `const` and sibling keywords), and the meaning of an IR node as a predicate on JSON
values (`sat`).  Bounds are exact decimals (`Js.Num`; the code holds `f64`), `multipleOf` values are
`Dec` and combined by `Dec.checkedLcm`, regexes are opaque atoms / literals / conjunctions.
`intersect` takes the recursion budget the code has (`stack_level > max_stack_level` → error).
Import-free apart from the specification S5 and the decimal model.
-/
import LlgVerif.Spec.Json
import LlgVerif.Model.Numeric
namespace LlgVerif
namespace Sch
open Js

inductive RxT where
  /-- an opaque regex, identified by its (hex-encoded) source -/
  | atom (i : String)
  /-- `RegexAst::Literal` -/
  | lit (s : String)
  | and2 (a b : RxT)
deriving Repr, Inhabited

structure NumS where
  minimum : Option Num
  maximum : Option Num
  exclusiveMinimum : Option Num
  exclusiveMaximum : Option Num
  integer : Bool
  multipleOf : Option Dec
deriving Repr, Inhabited

mutual
inductive Sch where
  | any
  | unsat
  | null
  | boolean (v : Option Bool)
  | number (n : NumS)
  | string (minLen : Nat) (maxLen : Option Nat) (rx : Option RxT)
  /-- `itemsNone`: the `items` field is `None` (then `items` is `any`) -/
  | array (minItems : Nat) (maxItems : Option Nat) (pre : SchL) (itemsNone : Bool) (items : Sch)
  | anyOf (opts : SchL)
  | oneOf (opts : SchL)
  /-- objects without `patternProperties`; `apNone`: `additional_properties` is `None` (then `ap` is `any`) -/
  | object (props : SchKL) (apNone : Bool) (ap : Sch) (required : List String) (minP : Nat) (maxP : Option Nat)
inductive SchL where
  | nil
  | cons (h : Sch) (t : SchL)
/-- `IndexMap<String, Schema>` in insertion order -/
inductive SchKL where
  | nil
  | cons (k : String) (s : Sch) (t : SchKL)
end

instance : Inhabited Sch := ⟨Sch.any⟩

/-! ### lists of schemas -/

def SchL.len : SchL → Nat
  | .nil => 0
  | .cons _ t => t.len + 1

def SchL.append : SchL → SchL → SchL
  | .nil, b => b
  | .cons h t, b => .cons h (t.append b)

def SchL.snoc (l : SchL) (x : Sch) : SchL := l.append (.cons x .nil)

def SchKL.append : SchKL → SchKL → SchKL
  | .nil, b => b
  | .cons k s t, b => .cons k s (t.append b)

def SchKL.hasKey : SchKL → String → Bool
  | .nil, _ => false
  | .cons k _ t, key => k == key || t.hasKey key

def SchKL.lookup : SchKL → String → Option Sch
  | .nil, _ => none
  | .cons k s t, key => if k == key then some s else t.lookup key

def SchKL.keys : SchKL → List String
  | .nil => []
  | .cons k _ t => k :: t.keys

/-- `ctx.property_schema(obj, key)` without pattern properties: the named property or the additional-properties schema -/
def propSchema (props : SchKL) (ap : Sch) (key : String) : Sch :=
  match props.lookup key with
  | some s => s
  | none => ap

/-- first loop of the object arm: every property of the left object against the right object's schema for its name -/
def SchKL.mapLeft (g : Sch → Sch → Option Sch) (p2 : SchKL) (ap2 : Sch) : SchKL → Option SchKL
  | .nil => some .nil
  | .cons k s t => do
    let s' ← g s (propSchema p2 ap2 k)
    let t' ← SchKL.mapLeft g p2 ap2 t
    pure (.cons k s' t')

/-- second loop: the properties of the right object whose name the left one does not list -/
def SchKL.mapRight (g : Sch → Sch → Option Sch) (p1 : SchKL) (ap1 : Sch) : SchKL → Option SchKL
  | .nil => some .nil
  | .cons k s t =>
    if p1.hasKey k then SchKL.mapRight g p1 ap1 t
    else do
      let s' ← g (propSchema p1 ap1 k) s
      let t' ← SchKL.mapRight g p1 ap1 t
      pure (.cons k s' t')

def SchL.mapM (g : Sch → Option Sch) : SchL → Option SchL
  | .nil => some .nil
  | .cons h t => do
    let h' ← g h
    let t' ← t.mapM g
    pure (.cons h' t')

def SchL.rep (x : Sch) : Nat → SchL
  | 0 => .nil
  | n + 1 => .cons x (SchL.rep x n)

/-- `resize_with(len, || items)`: `n` copies of `x` appended -/
def SchL.pad (l : SchL) (x : Sch) (n : Nat) : SchL := l.append (SchL.rep x n)

def SchL.zipM (g : Sch → Sch → Option Sch) : SchL → SchL → Option SchL
  | .cons a as, .cons b bs => do
    let h ← g a b
    let t ← SchL.zipM g as bs
    pure (.cons h t)
  | _, _ => some .nil

/-! ### meaning -/

def optAll {α : Type} (o : Option α) (p : α → Bool) : Bool :=
  match o with
  | none => true
  | some a => p a

def satNum (isMult : Dec → Num → Bool) (n : NumS) (x : Num) : Bool :=
  optAll n.minimum (fun m => m.le x) && optAll n.maximum (fun m => x.le m) &&
  optAll n.exclusiveMinimum (fun m => m.lt x) && optAll n.exclusiveMaximum (fun m => x.lt m) &&
  (!n.integer || x.isInteger) && optAll n.multipleOf (fun m => isMult m x)

/-- `x` is an integer multiple of the decimal `m = coef·10^-exp` (both scaled to integers) -/
def isMultDec (m : Dec) (x : Num) : Bool :=
  let t := (-x.exp).toNat
  let X : Int := x.signed * (10 : Int) ^ (x.exp + t).toNat * (10 : Int) ^ m.exp
  let M : Int := (m.coef : Int) * (10 : Int) ^ t
  decide (X % M = 0)

def satRx (ρ : String → String → Bool) : RxT → String → Bool
  | .atom i, s => ρ i s
  | .lit t, s => s == t
  | .and2 a b, s => satRx ρ a s && satRx ρ b s

mutual
def sat (ρ : String → String → Bool) (isMult : Dec → Num → Bool) : Sch → Json → Bool
  | .any, _ => true
  | .unsat, _ => false
  | .null, v => (match v with | .null => true | _ => false)
  | .boolean b, v => (match v with | .bool c => optAll b (fun b => b == c) | _ => false)
  | .number n, v => (match v with | .num x => satNum isMult n x | _ => false)
  | .string lo hi rx, v =>
    (match v with
     | .str s => decide (lo ≤ s.length) && optAll hi (fun h => decide (s.length ≤ h)) && optAll rx (fun r => satRx ρ r s)
     | _ => false)
  | .array lo hi pre _ items, v =>
    (match v with
     | .arr xs => decide (lo ≤ xs.length) && optAll hi (fun h => decide (xs.length ≤ h)) && satPre ρ isMult (sat ρ isMult items) pre xs
     | _ => false)
  | .anyOf l, v => satAny ρ isMult l v
  | .oneOf l, v => satCount ρ isMult l v == 1
  | .object props _ ap req lo hi, v =>
    (match v with
     | .obj kvs => req.all (fun k => kvs.any (fun kv => kv.1 == k)) && decide (lo ≤ kvs.length) &&
         optAll hi (fun h => decide (kvs.length ≤ h)) &&
         kvs.all (fun kv => satKV ρ isMult (sat ρ isMult ap) props kv.1 kv.2)
     | _ => false)
/-- elements against the prefix schemas, the rest against `items` (given as its meaning `f`) -/
def satPre (ρ : String → String → Bool) (isMult : Dec → Num → Bool) (f : Json → Bool) : SchL → List Json → Bool
  | .nil, xs => xs.all f
  | .cons _ _, [] => true
  | .cons p ps, x :: xs => sat ρ isMult p x && satPre ρ isMult f ps xs
/-- the value of the member `key` against its property schema, or against additional properties (`f`) -/
def satKV (ρ : String → String → Bool) (isMult : Dec → Num → Bool) (f : Json → Bool) : SchKL → String → Json → Bool
  | .nil, _, v => f v
  | .cons k s t, key, v => if k == key then sat ρ isMult s v else satKV ρ isMult f t key v
def satAny (ρ : String → String → Bool) (isMult : Dec → Num → Bool) : SchL → Json → Bool
  | .nil, _ => false
  | .cons h t, v => sat ρ isMult h v || satAny ρ isMult t v
def satCount (ρ : String → String → Bool) (isMult : Dec → Num → Bool) : SchL → Json → Nat
  | .nil, _ => 0
  | .cons h t, v => (if sat ρ isMult h v then 1 else 0) + satCount ρ isMult t v
end

/-! ### `normalize` -/

/-- the loop of the `AnyOf` arm: `none` = an option is `Any`; otherwise (valid options, flattened
one level; whether an unsatisfiable option was seen) -/
def normAnyLoop : SchL → SchL → Option SchL
  | .nil, acc => some acc
  | .cons .any _, _ => none
  | .cons .unsat t, acc => normAnyLoop t acc
  | .cons (.anyOf nested) t, acc => normAnyLoop t (acc.append nested)
  | .cons h t, acc => normAnyLoop t (acc.snoc h)

def normOneLoop : SchL → SchL → SchL
  | .nil, acc => acc
  | .cons .unsat t, acc => normOneLoop t acc
  | .cons (.oneOf nested) t, acc => normOneLoop t (acc.append nested)
  | .cons h t, acc => normOneLoop t (acc.snoc h)

def isLit : Option RxT → Option String
  | some (.lit s) => some s
  | _ => none

/-- constructor index, as `mem::discriminant` -/
def Sch.tag : Sch → Nat
  | .any => 0 | .unsat => 1 | .null => 2 | .boolean _ => 3 | .number _ => 4 | .string _ _ _ => 5
  | .array _ _ _ _ _ => 6 | .anyOf _ => 7 | .oneOf _ => 8 | .object _ _ _ _ _ _ => 9

mutual
/-- `is_verifiably_disjoint_from` -/
def disjoint : Nat → Sch → Sch → Bool
  | 0, _, _ => false
  | _ + 1, .unsat, _ => true
  | _ + 1, _, .unsat => true
  | _ + 1, .any, _ => false
  | _ + 1, _, .any => false
  | _ + 1, .boolean v1, .boolean v2 => v1.isSome && v2.isSome && v1 != v2
  | f + 1, .anyOf opts, b => disjAllL f opts b
  | f + 1, a, .anyOf opts => disjAllR f a opts
  | f + 1, .oneOf opts, b => disjAllL f opts b
  | f + 1, a, .oneOf opts => disjAllR f a opts
  | _ + 1, .string l1 h1 r1, .string l2 h2 r2 =>
    (match isLit r1, isLit r2 with
     | some a, some b => a != b
     | _, _ => (Sch.string l1 h1 r1).tag != (Sch.string l2 h2 r2).tag)
  | f + 1, .object p1 _ a1 r1 _ _, .object p2 _ a2 r2 _ _ =>
    (r1 ++ r2.filter (fun k => !r1.contains k)).any (fun key => disjoint f (propSchema p1 a1 key) (propSchema p2 a2 key))
  | _ + 1, a, b => a.tag != b.tag
def disjAllL : Nat → SchL → Sch → Bool
  | _, .nil, _ => true
  | f, .cons h t, b => disjoint f h b && disjAllL f t b
def disjAllR : Nat → Sch → SchL → Bool
  | _, _, .nil => true
  | f, a, .cons h t => disjoint f a h && disjAllR f a t
end

mutual
def Sch.size : Sch → Nat
  | .array _ _ pre _ items => pre.size + items.size + 1
  | .anyOf l => l.size + 1
  | .oneOf l => l.size + 1
  | .object props _ ap _ _ _ => props.size + ap.size + 1
  | _ => 1
def SchL.size : SchL → Nat
  | .nil => 1
  | .cons h t => h.size + t.size + 1
def SchKL.size : SchKL → Nat
  | .nil => 1
  | .cons _ s t => s.size + t.size + 1
end

def disj (a b : Sch) : Bool := disjoint (a.size + b.size + 1) a b

/-- every pair of the "upper diagonal" is verifiably disjoint -/
def pairwiseDisj : SchL → Bool
  | .nil => true
  | .cons h t => (disjAllR (h.size + t.size + 1) h t) && pairwiseDisj t

def normalize : Sch → Sch
  | .anyOf opts =>
    (match normAnyLoop opts .nil with
     | none => .any
     | some .nil => .unsat
     | some (.cons x .nil) => x
     | some valid => .anyOf valid)
  | .oneOf opts =>
    (match normOneLoop opts .nil with
     | .nil => .unsat
     | .cons x .nil => x
     | valid => if pairwiseDisj valid then .anyOf valid else .oneOf valid)
  | s => s

/-! ### `intersect` -/

def optMaxN (a b : Option Num) : Option Num :=
  match a, b with
  | some x, some y => if y.le x then some x else some y
  | some x, none => some x
  | none, some y => some y
  | none, none => none

def optMinN (a b : Option Num) : Option Num :=
  match a, b with
  | some x, some y => if x.le y then some x else some y
  | some x, none => some x
  | none, some y => some y
  | none, none => none

def optMinNat (a b : Option Nat) : Option Nat :=
  match a, b with
  | some x, some y => if x ≤ y then some x else some y
  | some x, none => some x
  | none, some y => some y
  | none, none => none

def intersectNum (lcm : Dec → Dec → Option Dec) (n1 n2 : NumS) : Option NumS :=
  let mo : Option (Option Dec) := match n1.multipleOf, n2.multipleOf with
    | none, none => some none
    | none, some m => some (some m)
    | some m, none => some (some m)
    | some m1, some m2 => (lcm m1 m2).map some
  mo.map (fun mo =>
    { minimum := optMaxN n1.minimum n2.minimum
      maximum := optMinN n1.maximum n2.maximum
      exclusiveMinimum := optMaxN n1.exclusiveMinimum n2.exclusiveMinimum
      exclusiveMaximum := optMinN n1.exclusiveMaximum n2.exclusiveMaximum
      integer := n1.integer || n2.integer
      multipleOf := mo })

def intersectRx (a b : Option RxT) : Option RxT :=
  match a, b with
  | none, none => none
  | none, some r => some r
  | some r, none => some r
  | some r1, some r2 => some (.and2 r1 r2)

def intersectBool (v1 v2 : Option Bool) : Sch :=
  if v1 == v2 || v2.isNone then .boolean v1
  else if v1.isNone then .boolean v2
  else .unsat

/-- `Schema::intersect`; the first argument is the remaining recursion budget -/
def intersect (lcm : Dec → Dec → Option Dec) : Nat → Sch → Sch → Option Sch
  | 0, _, _ => none
  | f + 1, a, b =>
    let core : Option Sch :=
      match a, b with
      | .any, s1 => some s1
      | s0, .any => some s0
      | .unsat, _ => some .unsat
      | _, .unsat => some .unsat
      | .oneOf opts, s1 => (opts.mapM (fun o => intersect lcm f o s1)).map .oneOf
      | s0, .oneOf opts => (opts.mapM (fun o => intersect lcm f s0 o)).map .oneOf
      | .anyOf opts, s1 => (opts.mapM (fun o => intersect lcm f o s1)).map .anyOf
      | s0, .anyOf opts => (opts.mapM (fun o => intersect lcm f s0 o)).map .anyOf
      | .null, .null => some .null
      | .boolean v1, .boolean v2 => some (intersectBool v1 v2)
      | .number n1, .number n2 => (intersectNum lcm n1 n2).map .number
      | .string l1 h1 r1, .string l2 h2 r2 => some (.string (max l1 l2) (optMinNat h1 h2) (intersectRx r1 r2))
      | .array l1 h1 p1 n1 i1, .array l2 h2 p2 n2 i2 =>
        let len := max p1.len p2.len
        match SchL.zipM (intersect lcm f) (p1.pad i1 (len - p1.len)) (p2.pad i2 (len - p2.len)) with
        | none => none
        | some pre =>
          (match n1, n2 with
           | true, true => some (.array (max l1 l2) (optMinNat h1 h2) pre true .any)
           | true, false => some (.array (max l1 l2) (optMinNat h1 h2) pre false i2)
           | false, true => some (.array (max l1 l2) (optMinNat h1 h2) pre false i1)
           | false, false => (intersect lcm f i1 i2).map (fun it => .array (max l1 l2) (optMinNat h1 h2) pre false it))
      | .object p1 n1 a1 r1 lo1 hi1, .object p2 n2 a2 r2 lo2 hi2 =>
        match SchKL.mapLeft (intersect lcm f) p2 a2 p1, SchKL.mapRight (intersect lcm f) p1 a1 p2 with
        | some q1, some q2 =>
          let ap : Option (Bool × Sch) :=
            match n1, n2 with
            | true, true => some (true, .any)
            | true, false => some (false, a2)
            | false, true => some (false, a1)
            | false, false => (intersect lcm f a1 a2).map (fun x => (false, x))
          ap.map (fun ap =>
            let req := r1 ++ r2.filter (fun k => !r1.contains k)
            let lo := max lo1 lo2
            let hi := optMinNat hi1 hi2
            -- `mk_object_schema`
            if (match hi with | some h => decide (lo > h) | none => false) then .unsat
            else if (match hi with | some h => decide (req.length > h) | none => false) then .unsat
            else .object (q1.append q2) ap.1 ap.2 req lo hi)
        | _, _ => none
      | _, _ => some .unsat
    core.map normalize

/-! ### canonical text (the correspondence check prints the code's IR the same way) -/

def showNum (n : Num) : String :=
  -- canonical: no trailing zeros in the mantissa, zero is "0"
  if n.mant = 0 then "0" else
    let rec strip (fuel m : Nat) (e : Int) : Nat × Int :=
      match fuel with
      | 0 => (m, e)
      | k + 1 => if m % 10 = 0 then strip k (m / 10) (e + 1) else (m, e)
    let p := strip 400 n.mant n.exp
    (if n.neg then "-" else "") ++ toString p.1 ++ "e" ++ toString p.2

def showOpt {α : Type} (f : α → String) : Option α → String
  | none => "_"
  | some a => f a

def hexDigit (n : Nat) : Char := if n < 10 then Char.ofNat (48 + n) else Char.ofNat (87 + n)

/-- strings travel hex-encoded (UTF-8 bytes, prefix `x`) in the canonical text -/
def hexOfString (s : String) : String :=
  "x" ++ String.ofList (s.toUTF8.toList.flatMap (fun b => [hexDigit (b.toNat / 16), hexDigit (b.toNat % 16)]))

def showRx : RxT → String
  | .atom i => "(atom " ++ i ++ ")"
  | .lit s => "(lit " ++ hexOfString s ++ ")"
  | .and2 a b => "(and " ++ showRx a ++ " " ++ showRx b ++ ")"

mutual
def showS : Sch → String
  | .any => "any"
  | .unsat => "unsat"
  | .null => "null"
  | .boolean b => "(bool " ++ showOpt (fun (b : Bool) => if b then "1" else "0") b ++ ")"
  | .number n => "(num " ++ showOpt showNum n.minimum ++ " " ++ showOpt showNum n.maximum ++ " " ++
      showOpt showNum n.exclusiveMinimum ++ " " ++ showOpt showNum n.exclusiveMaximum ++ " " ++
      (if n.integer then "1" else "0") ++ " " ++ showOpt (fun (d : Dec) => toString d.coef ++ "e-" ++ toString d.exp) n.multipleOf ++ ")"
  | .string lo hi rx => "(str " ++ toString lo ++ " " ++ showOpt toString hi ++ " " ++ showOpt showRx rx ++ ")"
  | .array lo hi pre none_ items => "(arr " ++ toString lo ++ " " ++ showOpt toString hi ++ " (" ++ showL pre ++ ") " ++
      (if none_ then "_" else showS items) ++ ")"
  | .anyOf l => "(anyof" ++ (match l with | .nil => "" | _ => " ") ++ showL l ++ ")"
  | .oneOf l => "(oneof" ++ (match l with | .nil => "" | _ => " ") ++ showL l ++ ")"
  | .object props none_ ap req lo hi => "(obj (" ++ showKL props ++ ") " ++ (if none_ then "_" else showS ap) ++
      " (" ++ " ".intercalate (req.map hexOfString) ++ ") " ++ toString lo ++ " " ++ showOpt toString hi ++ ")"
def showL : SchL → String
  | .nil => ""
  | .cons h .nil => showS h
  | .cons h t => showS h ++ " " ++ showL t
def showKL : SchKL → String
  | .nil => ""
  | .cons k s .nil => "(" ++ hexOfString k ++ " " ++ showS s ++ ")"
  | .cons k s t => "(" ++ hexOfString k ++ " " ++ showS s ++ ") " ++ showKL t
end

end Sch
end LlgVerif
