/-
M6 (abstract) — the token-level engine over a byte-level recogniser.

The grammar side is abstracted to a deterministic byte recogniser `Rec S` (a step function on
states: `none` = the byte is not viable) plus an `accepting` predicate; this is what
`ParserRecognizer` offers to the trie walk (`parser.rs:2653-2724`) and what `apply_token`
(`parser.rs:1152-1357`) / `validate_tokens` (`parser.rs:1039-1101`) run byte by byte.  The mask is
computed by the *trie walk* of M2 (`addBias`), exactly as `compute_bias` does; commit and validate
run the token's bytes through the recogniser (`tokenparser.rs:428-450, 461-519, 804-845`).
Import-free.
-/
import LlgVerif.Model.Trie
namespace LlgVerif

structure EngCfg (S : Type) where
  recog : Rec S
  accepting : S → Bool
  words : List (List Byte)      -- vocabulary; index = token id
  eos : Nat                     -- end-of-sequence token id

structure EngState (S : Type) where
  st : S                        -- recogniser state after the committed bytes
  tokens : List Nat             -- committed tokens
  stopped : Bool

namespace EngCfg
variable {S : Type}

def tokBytes (c : EngCfg S) (t : Nat) : List Byte := (c.words[t]?).getD []

/-- `compute_mask`: trie walk + EOS iff accepting -/
def mask (c : EngCfg S) (s : EngState S) : List Nat :=
  let walk := addBias c.recog (flatten (buildTree c.words)) c.words.length s.st []
  if c.accepting s.st then c.eos :: walk else walk

/-- `consume_token` for a non-EOS token: all bytes of the token must be accepted in turn -/
def commit (c : EngCfg S) (s : EngState S) (t : Nat) : Option (EngState S) :=
  if s.stopped then none
  else if t = c.eos then
    if c.accepting s.st then some { s with tokens := s.tokens ++ [t], stopped := true } else none
  else
    match c.tokBytes t with
    | [] => none
    | b :: bs =>
      match runBytes c.recog s.st (b :: bs) with
      | some st' => some { s with st := st', tokens := s.tokens ++ [t] }
      | none => none

/-- `validate_tokens`: number of leading tokens that can be applied one after the other -/
def validate (c : EngCfg S) : EngState S → List Nat → Nat
  | _, [] => 0
  | s, t :: ts =>
    match c.commit s t with
    | some s' => 1 + validate c s' ts
    | none => 0

end EngCfg
end LlgVerif

/-! ### forced bytes (`parser.rs:1626-1689 forced_byte`, `:1372-1447 force_bytes`) -/
namespace LlgVerif
variable {S : Type}

def byteOfNat (n : Nat) : Byte := UInt8.ofNat n

/-- the 256 bytes in the order the probe visits them, starting at `b0` and wrapping around -/
def probeOrder (b0 : Nat) : List Byte := (List.range 256).map (fun i => byteOfNat ((b0 + i) % 256))

/-- the probing loop: `none` as soon as a second accepted byte is seen -/
def probeLoop (r : Rec S) (s : S) : List Byte → Option Byte → Option Byte
  | [], found => found
  | b :: bs, found =>
    if (r.step s b).isSome then
      match found with
      | some _ => none
      | none => probeLoop r s bs (some b)
    else probeLoop r s bs found

/-- `forced_byte`: nothing is forced in an accepting state; a lexer hint `ForcedByte b` is trusted
    (fast path, external derivre attribute); otherwise the exhaustive probe from `b0` -/
def forcedByte (r : Rec S) (accepting : S → Bool) (s : S) (hint : Option Byte) (b0 : Nat) : Option Byte :=
  if accepting s then none
  else match hint with
    | some b => some b
    | none => probeLoop r s (probeOrder b0) none

/-- `force_bytes`: keep pushing the forced byte while there is one (slow path only) -/
def forceBytes (r : Rec S) (accepting : S → Bool) (b0 : Nat) : Nat → S → List Byte × S
  | 0, s => ([], s)
  | fuel + 1, s =>
    match forcedByte r accepting s none b0 with
    | none => ([], s)
    | some b =>
      match r.step s b with
      | none => ([], s)
      | some s' => let rest := forceBytes r accepting b0 fuel s'; (b :: rest.1, rest.2)

end LlgVerif
