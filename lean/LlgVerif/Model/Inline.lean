/-
M9 — rule inlining (`Grammar::expand_shortcuts` / `optimize`, earley/grammar.rs:638-827) as a
*checked certificate*: the optimiser's output `G'` is accepted when there is a replacement map `R`
(symbol ↦ the sentential form it was replaced by) with a rank such that
  * every replaced symbol has exactly one rule `s → β` in `G`, `R s = subst R β`, and the replaced
    symbols occurring in `β` have smaller rank (no cycle),
  * the rules of the kept symbols in `G'` are exactly the rules of the kept symbols of `G` with
    `subst R` applied (rules of replaced symbols may be left behind in `G'`; they are dead),
  * no protected (special) symbol is replaced.
`Props/C15.lean` proves that an accepted pair derives the same terminal strings from every form
without replaced symbols.  Import-free apart from the CFG spec.
-/
import LlgVerif.Spec.Cfg
namespace LlgVerif
namespace Cfg

variable {N : Type} [DecidableEq N]

abbrev RMap (N : Type) := List (N × List (Sym N))

def rlookup (R : RMap N) (a : N) : Option (List (Sym N)) :=
  match R with
  | [] => none
  | (b, γ) :: R' => if b = a then some γ else rlookup R' a

def substSym (R : RMap N) : Sym N → List (Sym N)
  | Sym.nt a => (rlookup R a).getD [Sym.nt a]
  | Sym.t lo hi => [Sym.t lo hi]

def subst (R : RMap N) (α : List (Sym N)) : List (Sym N) := α.flatMap (substSym R)

def inDom (R : RMap N) (a : N) : Bool := (rlookup R a).isSome

/-- rank condition for one replaced symbol's rule body -/
def rankOK (R : RMap N) (rk : N → Nat) (s : N) (β : List (Sym N)) : Bool :=
  β.all (fun x => match x with
    | Sym.nt b => !inDom R b || decide (rk b < rk s)
    | Sym.t _ _ => true)

/-- the certificate check -/
def checkInline (G G' : Gram N) (R : RMap N) (rk : N → Nat) (protected_ : List N) : Bool :=
  -- replaced symbols: exactly one rule, replacement = substituted body, ranks decrease
  R.all (fun sγ =>
    match G.filter (fun r => decide (r.1 = sγ.1)) with
    | [r] => decide (rlookup R sγ.1 = some sγ.2) && decide (sγ.2 = subst R r.2) && rankOK R rk sγ.1 r.2
    | _ => false) &&
  -- every rule of G' for a kept symbol is a substituted rule of that symbol
  -- (rules of replaced symbols that the optimiser leaves behind are dead: nothing kept refers to them)
  G'.all (fun r' => inDom R r'.1 || G.any (fun r => !inDom R r.1 && decide (r' = (r.1, subst R r.2)))) &&
  -- every rule of a kept symbol appears substituted in G'
  G.all (fun r => inDom R r.1 || G'.contains (r.1, subst R r.2)) &&
  -- protected symbols are kept
  protected_.all (fun a => !inDom R a)

end Cfg
end LlgVerif
