/-
M8b — the fraction-digit helpers of `rx_float_range` (parser/src/json/numeric.rs:
`lexi_x_to_9`, `lexi_0_to_x`, `lexi_range`), after the repairs recorded in known_findings.json.
As in `IntRange.lean` every function builds the *printed pattern* (tied to the Rust code by string
equality through the hook `verif_lexi`) and the regular expression it denotes side by side.
Digit strings are lists of naturals below 10.
-/
import LlgVerif.Model.IntRange
namespace LlgVerif
open Rx

def digStar : Rx := star (clsRx 0 9)
def zeroStar : Rx := star (clsRx 0 0)
def optRx (r : Rx) : Rx := alt eps r

def digitsS (x : List Nat) : String := String.join (x.map toString)

/-- `trim_end_matches('0')` -/
def trimZeros (x : List Nat) : List Nat :=
  match x with
  | [] => []
  | a :: rest =>
    match trimZeros rest with
    | [] => if a = 0 then [] else [a]
    | t => a :: t

/-- `lexi_x_to_9(x, incl)`: digit strings `d` with `0.d ≥ 0.x` (`>` if not inclusive) -/
def lexiXTo9 : List Nat → Bool → PR
  | [], true => ⟨"[0-9]*", digStar⟩
  | [], false => ⟨"[0-9]*[1-9][0-9]*", cat digStar (cat (clsRx 1 9) digStar)⟩
  | [a], true => ⟨"[" ++ toString a ++ "-9][0-9]*", cat (clsRx a 9) digStar⟩
  | a :: rest, incl =>
    let r := lexiXTo9 rest incl
    let first : PR := ⟨toString a ++ r.s, cat (clsRx a a) r.rx⟩
    let parts := first ::
      (if a < 9 then [(⟨"[" ++ toString (a + 1) ++ "-9][0-9]*", cat (clsRx (a + 1) 9) digStar⟩ : PR)] else [])
    ⟨mkOrS (parts.map (·.s)), altsRx (parts.map (·.rx))⟩

/-- `lexi_0_to_x(x, incl)`: non-empty digit strings `d` with `0.d ≤ 0.x` (`<` if not inclusive) -/
def lexi0ToX : List Nat → Bool → Except Unit PR
  | [], true => .ok ⟨"0+", cat (clsRx 0 0) zeroStar⟩
  | [], false => .error ()
  | [a], false =>
    if a = 0 then .error ()
    else .ok ⟨"[0-" ++ toString (a - 1) ++ "][0-9]*", cat (clsRx 0 (a - 1)) digStar⟩
  | a :: rest, incl =>
    let first : Except Unit PR :=
      if rest.isEmpty then .ok ⟨toString a ++ "0*", cat (clsRx a a) zeroStar⟩
      else match lexi0ToX rest incl with
        | .ok r => .ok ⟨toString a ++ "(" ++ r.s ++ ")?", cat (clsRx a a) (optRx r.rx)⟩
        | .error e => .error e
    match first with
    | .error e => .error e
    | .ok f =>
      let parts := f ::
        (if a > 0 then [(⟨"[0-" ++ toString (a - 1) ++ "][0-9]*", cat (clsRx 0 (a - 1)) digStar⟩ : PR)] else [])
      .ok ⟨mkOrS (parts.map (·.s)), altsRx (parts.map (·.rx))⟩

/-- `lexi_range(ld, rd, ld_incl, rd_incl)` on equally long digit strings -/
def lexiRange : List Nat → List Nat → Bool → Bool → Except Unit PR
  | ld, rd, li, ri =>
    if ld.length ≠ rd.length then .error ()
    else if ld = rd then
      if li && ri then .ok ⟨digitsS ld ++ "0*", cat (litRx (ld.map digitB)) zeroStar⟩ else .error ()
    else
      match ld, rd with
      | l0 :: lt, r0 :: rt =>
        if l0 = r0 then
          match lexiRange lt rt li ri with
          | .error e => .error e
          | .ok r =>
            if li && (trimZeros lt).isEmpty then
              .ok ⟨toString l0 ++ "(" ++ r.s ++ ")?", cat (clsRx l0 l0) (optRx r.rx)⟩
            else .ok ⟨toString l0 ++ r.s, cat (clsRx l0 l0) r.rx⟩
        else if l0 ≥ r0 then .error ()
        else
          let lo := lexiXTo9 (trimZeros lt) li
          let p1 : PR := ⟨toString l0 ++ lo.s, cat (clsRx l0 l0) lo.rx⟩
          let mid : List PR := if l0 + 1 < r0 then
            [⟨"[" ++ toString (l0 + 1) ++ "-" ++ toString (r0 - 1) ++ "][0-9]*", cat (clsRx (l0 + 1) (r0 - 1)) digStar⟩] else []
          let rdRest := trimZeros rt
          let hi : Except Unit (List PR) :=
            if !rdRest.isEmpty then
              match lexi0ToX rdRest ri with
              | .ok r => .ok [⟨toString r0 ++ "(" ++ r.s ++ ")?", cat (clsRx r0 r0) (optRx r.rx)⟩]
              | .error e => .error e
            else if ri then .ok [⟨toString r0 ++ "0*", cat (clsRx r0 r0) zeroStar⟩]
            else .ok []
          match hi with
          | .error e => .error e
          | .ok hi =>
            let parts := p1 :: (mid ++ hi)
            .ok ⟨mkOrS (parts.map (·.s)), altsRx (parts.map (·.rx))⟩
      | _, _ => .error ()
termination_by ld _ _ _ => ld.length

end LlgVerif
