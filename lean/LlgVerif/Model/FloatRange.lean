/-
M8b — the fraction-digit helpers of `rx_float_range` (parser/src/json/numeric.rs:
`lexi_x_to_9`, `lexi_0_to_x`, `lexi_range`), after the repairs recorded in known_findings.json.
As in `IntRange.lean` every function builds the *printed pattern* (tied to the Rust code by string
equality through the hook `verif_lexi`) and the regular expression it denotes side by side.
Digit strings are lists of naturals below 10.
-/
import LlgVerif.Model.IntRange
namespace LlgVerif
open Rx

def digStar : Rx := star (clsRx 0 9)
def zeroStar : Rx := star (clsRx 0 0)
def optRx (r : Rx) : Rx := alt eps r

def digitsS (x : List Nat) : String := String.join (x.map toString)

/-- `trim_end_matches('0')` -/
def trimZeros (x : List Nat) : List Nat :=
  match x with
  | [] => []
  | a :: rest =>
    match trimZeros rest with
    | [] => if a = 0 then [] else [a]
    | t => a :: t

/-- `lexi_x_to_9(x, incl)`: digit strings `d` with `0.d ≥ 0.x` (`>` if not inclusive) -/
def lexiXTo9 : List Nat → Bool → PR
  | [], true => ⟨"[0-9]*", digStar⟩
  | [], false => ⟨"[0-9]*[1-9][0-9]*", cat digStar (cat (clsRx 1 9) digStar)⟩
  | [a], true => ⟨"[" ++ toString a ++ "-9][0-9]*", cat (clsRx a 9) digStar⟩
  | a :: rest, incl =>
    let r := lexiXTo9 rest incl
    let first : PR := ⟨toString a ++ r.s, cat (clsRx a a) r.rx⟩
    let parts := first ::
      (if a < 9 then [(⟨"[" ++ toString (a + 1) ++ "-9][0-9]*", cat (clsRx (a + 1) 9) digStar⟩ : PR)] else [])
    ⟨mkOrS (parts.map (·.s)), altsRx (parts.map (·.rx))⟩

/-- `lexi_0_to_x(x, incl)`: non-empty digit strings `d` with `0.d ≤ 0.x` (`<` if not inclusive) -/
def lexi0ToX : List Nat → Bool → Except Unit PR
  | [], true => .ok ⟨"0+", cat (clsRx 0 0) zeroStar⟩
  | [], false => .error ()
  | [a], false =>
    if a = 0 then .error ()
    else .ok ⟨"[0-" ++ toString (a - 1) ++ "][0-9]*", cat (clsRx 0 (a - 1)) digStar⟩
  | a :: rest, incl =>
    let first : Except Unit PR :=
      if rest.isEmpty then .ok ⟨toString a ++ "0*", cat (clsRx a a) zeroStar⟩
      else match lexi0ToX rest incl with
        | .ok r => .ok ⟨toString a ++ "(" ++ r.s ++ ")?", cat (clsRx a a) (optRx r.rx)⟩
        | .error e => .error e
    match first with
    | .error e => .error e
    | .ok f =>
      let parts := f ::
        (if a > 0 then [(⟨"[0-" ++ toString (a - 1) ++ "][0-9]*", cat (clsRx 0 (a - 1)) digStar⟩ : PR)] else [])
      .ok ⟨mkOrS (parts.map (·.s)), altsRx (parts.map (·.rx))⟩

/-- `lexi_range(ld, rd, ld_incl, rd_incl)` on equally long digit strings -/
def lexiRange : List Nat → List Nat → Bool → Bool → Except Unit PR
  | ld, rd, li, ri =>
    if ld.length ≠ rd.length then .error ()
    else if ld = rd then
      if li && ri then .ok ⟨digitsS ld ++ "0*", cat (litRx (ld.map digitB)) zeroStar⟩ else .error ()
    else
      match ld, rd with
      | l0 :: lt, r0 :: rt =>
        if l0 = r0 then
          match lexiRange lt rt li ri with
          | .error e => .error e
          | .ok r =>
            if li && (trimZeros lt).isEmpty then
              .ok ⟨toString l0 ++ "(" ++ r.s ++ ")?", cat (clsRx l0 l0) (optRx r.rx)⟩
            else .ok ⟨toString l0 ++ r.s, cat (clsRx l0 l0) r.rx⟩
        else if l0 ≥ r0 then .error ()
        else
          let lo := lexiXTo9 (trimZeros lt) li
          let p1 : PR := ⟨toString l0 ++ lo.s, cat (clsRx l0 l0) lo.rx⟩
          let mid : List PR := if l0 + 1 < r0 then
            [⟨"[" ++ toString (l0 + 1) ++ "-" ++ toString (r0 - 1) ++ "][0-9]*", cat (clsRx (l0 + 1) (r0 - 1)) digStar⟩] else []
          let rdRest := trimZeros rt
          let hi : Except Unit (List PR) :=
            if !rdRest.isEmpty then
              match lexi0ToX rdRest ri with
              | .ok r => .ok [⟨toString r0 ++ "(" ++ r.s ++ ")?", cat (clsRx r0 r0) (optRx r.rx)⟩]
              | .error e => .error e
            else if ri then .ok [⟨toString r0 ++ "0*", cat (clsRx r0 r0) zeroStar⟩]
            else .ok []
          match hi with
          | .error e => .error e
          | .ok hi =>
            let parts := p1 :: (mid ++ hi)
            .ok ⟨mkOrS (parts.map (·.s)), altsRx (parts.map (·.rx))⟩
      | _, _ => .error ()
termination_by ld _ _ _ => ld.length

end LlgVerif

namespace LlgVerif
open Rx

/-- a decimal bound as `format!("{f}")` prints it: sign, integer part, fraction digits (no trailing zero) -/
structure FB where
  neg : Bool
  ip : Nat
  fd : List Nat
deriving Repr, DecidableEq, Inhabited

def FB.isZero (b : FB) : Bool := b.ip == 0 && b.fd.all (· == 0)

/-- digit-list comparison of fractions (`0.a < 0.b`), executable twin of `fracLT` -/
def fracLtB : List Nat → List Nat → Bool
  | _, [] => false
  | [], b :: x => decide (0 < b) || fracLtB [] x
  | a :: d, b :: x => decide (a < b) || (decide (a = b) && fracLtB d x)

/-- magnitude comparison `|a| < |b|` -/
def FB.absLt (a b : FB) : Bool := decide (a.ip < b.ip) || (decide (a.ip = b.ip) && fracLtB a.fd b.fd)

/-- `a < b` on signed values (`-0` counts as `0`) -/
def FB.lt (a b : FB) : Bool :=
  let an := a.neg && !a.isZero
  let bn := b.neg && !b.isZero
  match an, bn with
  | true, false => true
  | false, true => false
  | false, false => FB.absLt a b
  | true, true => FB.absLt b a

def FB.negate (a : FB) : FB := { a with neg := !a.neg }
def FB.zero : FB := ⟨false, 0, []⟩
def FB.ofNat (n : Nat) : FB := ⟨false, n, []⟩

def FB.str (a : FB) : String :=
  (if a.neg then "-" else "") ++ toString a.ip ++ (if a.fd.isEmpty then "" else "." ++ digitsS a.fd)

/-- `regex_syntax::escape` on such a string: `-` and `.` are escaped -/
def FB.escaped (a : FB) : String :=
  (if a.neg then "\\-" else "") ++ toString a.ip ++ (if a.fd.isEmpty then "" else "\\." ++ digitsS a.fd)

def dotRx : Rx := set [(46, 46)]
def fracAny : Rx := cat dotRx (cat (clsRx 0 9) digStar)            -- `\.[0-9]+`
def optFracAny : Rx := optRx fracAny                               -- `(\.[0-9]+)?`
def dotZeros : Rx := optRx (cat dotRx (cat (clsRx 0 0) zeroStar))  -- `(\.0+)?`

def padTo (x : List Nat) (n : Nat) : List Nat := x ++ List.replicate (n - x.length) 0

/-- `rx_float_range(Some(left), Some(right), li, ri)` for `0 ≤ left < right` -/
def floatPos (l r : FB) (li ri : Bool) : Except Unit PR :=
  if l.ip = r.ip then
    let n := max l.fd.length r.fd.length
    let ld := padTo l.fd n
    let rd := padTo r.fd n
    match lexiRange ld rd li ri with
    | .error e => .error e
    | .ok s =>
      let suffS := "\\." ++ s.s
      let suffR := cat dotRx s.rx
      if li && ld.all (· == 0) then
        .ok ⟨"(" ++ toString l.ip ++ "(" ++ suffS ++ ")?)", cat (litRx (dec l.ip)) (optRx suffR)⟩
      else .ok ⟨"(" ++ toString l.ip ++ suffS ++ ")", cat (litRx (dec l.ip)) suffR⟩
  else
    let first : List PR × Nat :=
      if !l.fd.isEmpty || !li then
        let u := lexiXTo9 l.fd li
        ([⟨"(" ++ toString l.ip ++ "\\." ++ u.s ++ ")", cat (litRx (dec l.ip)) (cat dotRx u.rx)⟩], l.ip + 1)
      else ([], l.ip)
    let leftRec := first.2
    let mid : Except Unit (List PR) :=
      if r.ip > leftRec then
        match nnRange leftRec (r.ip - 1) with
        | .ok i => .ok [⟨"(" ++ i.s ++ "(\\.[0-9]+)?)", cat i.rx optFracAny⟩]
        | .error e => .error e
      else .ok []
    let last : Except Unit (List PR) :=
      if !r.fd.isEmpty then
        match lexi0ToX r.fd ri with
        | .ok x => .ok [⟨"(" ++ toString r.ip ++ "(\\." ++ x.s ++ ")?)", cat (litRx (dec r.ip)) (optRx (cat dotRx x.rx))⟩]
        | .error e => .error e
      else if ri then .ok [⟨toString r.ip ++ "(\\.0+)?", cat (litRx (dec r.ip)) dotZeros⟩]
      else .ok []
    match mid, last with
    | .ok m, .ok la =>
      let parts := first.1 ++ m ++ la
      .ok ⟨mkOrS (parts.map (·.s)), altsRx (parts.map (·.rx))⟩
    | _, _ => .error ()

/-- `rx_float_range(Some(left), Some(right), li, ri)`, any signs -/
def floatBoth (l r : FB) (li ri : Bool) : Except Unit PR :=
  if FB.lt r l then .error ()
  else if !FB.lt l r then
    -- equal values
    if li && ri then
      let sign : Rx := if l.neg then minus else eps
      if !l.fd.isEmpty then
        .ok ⟨"(" ++ l.escaped ++ "0*)", cat sign (cat (litRx (dec l.ip)) (cat dotRx (cat (litRx (l.fd.map digitB)) zeroStar)))⟩
      else .ok ⟨"(" ++ l.escaped ++ "(\\.0+)?)", cat sign (cat (litRx (dec l.ip)) dotZeros)⟩
    else .error ()
  else if l.neg && !l.isZero then
    if r.neg && !r.isZero then
      match floatPos r.negate l.negate ri li with
      | .ok p => .ok ⟨"(-" ++ p.s ++ ")", cat minus p.rx⟩
      | .error e => .error e
    else
      match floatPos FB.zero l.negate false li with
      | .error e => .error e
      | .ok np =>
        let negPart : PR := ⟨"(-" ++ np.s ++ ")", cat minus np.rx⟩
        if !r.isZero || ri then
          if r.isZero then
            -- rx_float_range(Some(0.0), Some(0.0), true, right_inclusive): equal bounds
            if ri then .ok ⟨mkOrS [negPart.s, "(0(\\.0+)?)"], altsRx [negPart.rx, cat (litRx (dec 0)) dotZeros]⟩
            else .error ()
          else
            match floatPos FB.zero r true ri with
            | .ok pp => .ok ⟨mkOrS [negPart.s, pp.s], altsRx [negPart.rx, pp.rx]⟩
            | .error e => .error e
        else .ok ⟨mkOrS [negPart.s], altsRx [negPart.rx]⟩
  else floatPos l r li ri


/-- `rx_float_range(Some(left), None, li, _)` -/
def floatGe (l : FB) (li : Bool) : Except Unit PR :=
  let geNonneg := fun (l : FB) (li : Bool) =>
    let d := numDigits l.ip
    match floatBoth l (FB.ofNat (10 ^ d)) li false with
    | .ok a => Except.ok (⟨mkOrS [a.s, "[1-9][0-9]{" ++ toString d ++ ",}(\\.[0-9]+)?"],
                 altsRx [a.rx, cat (bigRx d) optFracAny]⟩ : PR)
    | .error e => .error e
  if l.neg && !l.isZero then
    match floatBoth l FB.zero li false, geNonneg FB.zero true with
    | .ok a, .ok b => .ok ⟨mkOrS [a.s, b.s], altsRx [a.rx, b.rx]⟩
    | _, _ => .error ()
  else geNonneg l li

/-- `rx_float_range(None, Some(right), _, ri)` -/
def floatLe (r : FB) (ri : Bool) : Except Unit PR :=
  if r.isZero then
    match floatGe FB.zero false with
    | .error e => .error e
    | .ok g =>
      let n : PR := ⟨"-" ++ g.s, cat minus g.rx⟩
      if ri then .ok ⟨mkOrS [n.s, "0(\\.0+)?"], altsRx [n.rx, cat (litRx (dec 0)) dotZeros]⟩ else .ok n
  else if !r.neg then
    match floatGe FB.zero false, floatBoth FB.zero r true ri with
    | .ok g, .ok b => .ok ⟨mkOrS ["-" ++ g.s, b.s], altsRx [cat minus g.rx, b.rx]⟩
    | _, _ => .error ()
  else
    match floatGe r.negate ri with
    | .ok g => .ok ⟨"-" ++ g.s, cat minus g.rx⟩
    | .error e => .error e

def rxFloatRange : Option FB → Option FB → Bool → Bool → Except Unit PR
  | none, none, _, _ => .ok ⟨"-?(0|[1-9][0-9]*)(\\.[0-9]+)?([eE][+-]?[0-9]+)?", empty⟩
  | some l, none, li, _ => floatGe l li
  | none, some r, _, ri => floatLe r ri
  | some l, some r, li, ri => floatBoth l r li ri

end LlgVerif
