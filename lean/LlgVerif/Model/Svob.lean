/-
M1 — model of `toktrie/src/svob.rs` (`SimpleVob`): a bit vector stored in 32-bit words.

Every public operation is mirrored word-for-word.  Rust `assert!`s and out-of-range
indexing (which panic) become `none`.  Import-free so that the driver links.
-/
namespace LlgVerif

abbrev Word := BitVec 32

structure Svob where
  data : List Word
  size : Nat
deriving Repr, DecidableEq

namespace Svob

def BITS : Nat := 32

def wordAt (v : Svob) (k : Nat) : Word := (v.data[k]?).getD 0

/-- `get`, totalised with zero words beyond the storage (the Rust code panics there; see `get?`). -/
def get (v : Svob) (i : Nat) : Bool := (v.wordAt (i / 32)).getLsbD (i % 32)

/-- `SimpleVob::get` / `is_allowed`: indexing `data[idx / 32]` panics when out of range. -/
def get? (v : Svob) (i : Nat) : Option Bool :=
  if i / 32 < v.data.length then some (v.get i) else none

def setBit (w : Word) (b : Nat) (val : Bool) : Word :=
  if val then w ||| (1#32 <<< b) else w &&& ~~~(1#32 <<< b)

/-- `SimpleVob::set` (also `allow_token`, `disallow_token`). -/
def set? (v : Svob) (i : Nat) (val : Bool) : Option Svob :=
  if i / 32 < v.data.length then
    some { v with data := v.data.set (i / 32) (setBit (v.wordAt (i / 32)) (i % 32) val) }
  else none

/-- `resize` (asserts that storage never shrinks). -/
def resize? (v : Svob) (size : Nat) : Option Svob :=
  let n := (size + 31) / 32
  if n < v.data.length then none
  else some { data := v.data ++ List.replicate (n - v.data.length) 0, size := size }

def new : Svob := { data := [], size := 0 }

def alloc (size : Nat) : Svob :=
  { data := List.replicate ((size + 31) / 32) 0, size := size }

/-- `alloc_with_capacity(size, capacity)`; asserts `size <= capacity`. -/
def allocWithCapacity? (size capacity : Nat) : Option Svob :=
  if size ≤ capacity then some { data := List.replicate ((capacity + 31) / 32) 0, size := size }
  else none

/-- Clear bit `b..31` of a word for every `32*k + b ≥ size` (one word of `clear_excessive_bits`). -/
def clearWord (size : Nat) (k : Nat) (w : Word) : Word :=
  if size ≤ 32 * k then 0
  else if 32 * (k + 1) ≤ size then w
  else w &&& ~~~((BitVec.allOnes 32) <<< (size - 32 * k))

def mapIdxAux (f : Nat → Word → Word) : Nat → List Word → List Word
  | _, [] => []
  | k, w :: ws => f k w :: mapIdxAux f (k + 1) ws

/-- `clear_excessive_bits`: disallow every index in `size .. 32 * data.len()`. -/
def clearExcessive (v : Svob) : Svob :=
  { v with data := mapIdxAux (clearWord v.size) 0 v.data }

/-- `negated`. -/
def negated (v : Svob) : Svob :=
  clearExcessive { data := v.data.map (fun w => ~~~w), size := v.size }

/-- `set_all`. -/
def setAll (v : Svob) (val : Bool) : Svob :=
  if val then clearExcessive { v with data := v.data.map (fun _ => BitVec.allOnes 32) }
  else { v with data := v.data.map (fun _ => 0) }

def allocOnes (size : Nat) : Svob := (alloc size).setAll true

/-- `allow_range(start..=end)`; asserts `end < size`; an empty range is a no-op. -/
def allowRange? (v : Svob) (s e : Nat) : Option Svob :=
  if ¬ e < v.size then none
  else if s > e then some v
  else
    let sw := s / 32
    let ew := e / 32
    let sm : Word := (BitVec.allOnes 32) <<< (s % 32)
    let em : Word := (BitVec.allOnes 32) >>> (31 - e % 32)
    if ew < v.data.length then
      if sw = ew then
        some { v with data := v.data.set sw (v.wordAt sw ||| (sm &&& em)) }
      else
        let d1 := v.data.set sw (v.wordAt sw ||| sm)
        let d2 := mapIdxAux (fun k w => if sw < k ∧ k < ew then BitVec.allOnes 32 else w) 0 d1
        some { v with data := d2.set ew (((d2[ew]?).getD 0) ||| em) }
    else none

def zipW (f : Word → Word → Word) : List Word → List Word → List Word
  | a :: as, b :: bs => f a b :: zipW f as bs
  | as, _ => as

/-- `or`: asserts `self.size >= other.size`; zips over the shorter storage. -/
def or? (v o : Svob) : Option Svob :=
  if v.size ≥ o.size then some { v with data := zipW (· ||| ·) v.data o.data } else none

/-- `and`: asserts equal sizes. -/
def and? (v o : Svob) : Option Svob :=
  if v.size = o.size then some { v with data := zipW (· &&& ·) v.data o.data } else none

/-- `sub`: asserts equal sizes. -/
def sub? (v o : Svob) : Option Svob :=
  if v.size = o.size then some { v with data := zipW (fun a b => a &&& ~~~b) v.data o.data } else none

def zipW3 (f : Word → Word → Word → Word) : List Word → List Word → List Word → List Word
  | a :: as, b :: bs, c :: cs => f a b c :: zipW3 f as bs cs
  | as, _, _ => as

/-- `or_minus`: `self |= other & !minus`; asserts equal sizes. -/
def orMinus? (v o m : Svob) : Option Svob :=
  if v.size = o.size ∧ v.size = m.size then
    some { v with data := zipW3 (fun a b c => a ||| (b &&& ~~~c)) v.data o.data m.data }
  else none

/-- `set_from`: asserts equal sizes; `copy_from_slice` panics on different storage length. -/
def setFrom? (v o : Svob) : Option Svob :=
  if v.size = o.size ∧ v.data.length = o.data.length then some { v with data := o.data } else none

def isZero (v : Svob) : Bool := v.data.all (· == 0)

def andIsZero? (v o : Svob) : Option Bool :=
  if v.size = o.size then some ((List.zipWith (· &&& ·) v.data o.data).all (· == 0))
  else none

def dropTrailingZeros : List Word → List Word
  | [] => []
  | w :: ws =>
    match dropTrailingZeros ws with
    | [] => if w == 0 then [] else [w]
    | r => w :: r

/-- `trim_trailing_zeros`. -/
def trimTrailingZeros (v : Svob) : Svob :=
  let d := dropTrailingZeros v.data
  if d.length ≠ v.data.length then { data := d, size := d.length * 32 } else v

def popcount (w : Word) : Nat := (List.range 32).countP (fun b => w.getLsbD b)

/-- `num_set`. -/
def numSet (v : Svob) : Nat := (v.data.map popcount).sum

/-- `to_list` / `iter_set_entries`: indices below `size` that are set, ascending.
    (`as_slice()[..size/32]` panics when the storage is shorter than `size/32` words.) -/
def toList? (v : Svob) : Option (List Nat) :=
  if v.size / 32 ≤ v.data.length ∧ (v.size % 32 = 0 ∨ v.size / 32 < v.data.length) then
    some ((List.range v.size).filter v.get)
  else none

/-- `iter()` (`SimpleVobIter`): every set bit of the storage, ascending (not limited by `size`). -/
def iterAll (v : Svob) : List Nat := (List.range (32 * v.data.length)).filter v.get

def firstBitSet (v : Svob) : Option Nat := (v.iterAll).head?

def firstBitSetHereAndIn? (v o : Svob) : Option (Option Nat) :=
  if v.size = o.size then
    some (((List.range (32 * min v.data.length o.data.length)).filter (fun i => v.get i && o.get i)).head?)
  else none

def toBinString (v : Svob) : String :=
  String.ofList ((List.range v.size).map (fun i => if v.get i then '1' else '0'))

/-- Well-formedness kept by the public constructors: storage covers `size` bits. -/
def WF (v : Svob) : Prop := v.size ≤ 32 * v.data.length

/-- No bit at or above `n` is set anywhere in the storage. -/
def NoBitGe (v : Svob) (n : Nat) : Prop := ∀ i, n ≤ i → v.get i = false

end Svob
end LlgVerif
