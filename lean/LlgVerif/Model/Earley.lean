/-
M4 — the Earley rows of `parser/src/earley/parser.rs` (`scan`, `process_agenda`, initial row):
items are `(rhs pointer, start row)` over the compiled grammar's flat right-hand-side array
(`CGrammar::rhs_elements`, 0 = end of rule); a new row is the scanned items closed under
completion (over earlier rows), prediction and the nullable advance.  The agenda of the code is a
single pass over the growing item list with duplicate suppression, i.e. a worklist; the model
computes the same set with an explicit fuel.  Skip lexemes, sub-grammars, captures and parametric
rules are outside this model.  Import-free.
-/
namespace LlgVerif
namespace Ey

structure SymD where
  rules : List Nat          -- pointers to the first element of each right-hand side
  nullable : Bool
  lexeme : Option Nat
deriving Repr, Inhabited

structure CG where
  start : Nat
  rhs : Array Nat           -- 0 terminates a right-hand side
  lhsOf : Array Nat         -- left-hand side of the rule around position p: lhsOf[p / 4]
  syms : Array SymD
deriving Repr, Inhabited

abbrev Item := Nat × Nat    -- (rhs pointer, start row)

def CG.atDot (g : CG) (p : Nat) : Nat := g.rhs.getD p 0
def CG.lhs (g : CG) (p : Nat) : Nat := g.lhsOf.getD (p / 4) 0
def CG.sym (g : CG) (s : Nat) : SymD := g.syms.getD s default

def addUnique (l : List Item) (x : Item) : List Item := if l.contains x then l else l ++ [x]

/-- what processing one agenda item adds -/
def expand (g : CG) (rows : List (List Item)) (cur : Nat) (it : Item) : List Item :=
  let s := g.atDot it.1
  if s = 0 then
    -- complete item: advance the items of the start row that wait for its left-hand side
    if it.2 < cur then
      ((rows.getD it.2 []).filter (fun j => g.atDot j.1 = g.lhs it.1)).map (fun j => (j.1 + 1, j.2))
    else []
  else
    let sd := g.sym s
    sd.rules.map (fun r => (r, cur)) ++ (if sd.nullable then [(it.1 + 1, it.2)] else [])

/-- the agenda: position `i` walks over the growing list -/
def closure (g : CG) (rows : List (List Item)) (cur : Nat) : Nat → Nat → List Item → List Item
  | 0, _, l => l
  | fuel + 1, i, l =>
    match l[i]? with
    | none => l
    | some it => closure g rows cur fuel (i + 1) ((expand g rows cur it).foldl addUnique l)

def fuelFor (g : CG) (cur : Nat) : Nat := (g.rhs.size + 1) * (cur + 2) + 8

/-- row 0 -/
def initRow (g : CG) : List Item :=
  closure g [] 0 (fuelFor g 0) 0 (((g.sym g.start).rules.map (fun r => (r, 0))).foldl addUnique [])

/-- the items of `row` that wait for a lexeme of the set `lx`, advanced over it -/
def scanned (g : CG) (row : List Item) (lx : List Nat) : List Item :=
  (row.filter (fun it => match (g.sym (g.atDot it.1)).lexeme with
    | some l => lx.contains l
    | none => false)).map (fun it => (it.1 + 1, it.2))

/-- the row pushed after scanning a lexeme of the set `lx` from the last row -/
def nextRow (g : CG) (rows : List (List Item)) (lx : List Nat) : List Item :=
  let cur := rows.length
  let last := rows.getD (cur - 1) []
  closure g rows cur (fuelFor g cur) 0 ((scanned g last lx).foldl addUnique [])

def runRows (g : CG) (lexs : List (List Nat)) : List (List Item) :=
  lexs.foldl (fun rows lx => rows ++ [nextRow g rows lx]) [initRow g]

/-- accepting: the last row holds a complete item of the start symbol that began in row 0 -/
def accepting (g : CG) (rows : List (List Item)) : Bool :=
  (rows.getD (rows.length - 1) []).any (fun it => g.atDot it.1 = 0 && it.2 = 0 && g.lhs it.1 = g.start)

/-- the lexemes a row allows: those after the dot of some item (this set selects the lexer's start
state for the row) -/
def allowedLexemes (g : CG) (row : List Item) : List Nat :=
  row.filterMap (fun it => (g.sym (g.atDot it.1)).lexeme)

def subsetB (a b : List Item) : Bool := a.all (fun x => b.contains x)

/-- certificate check on a list of rows (the model's, or any other): row 0 holds the start rules,
every row is closed under `expand`, and row `j+1` holds the items of row `j` scanned over `lexs[j]`.
`Proofs/EarleyComplete.lean` shows that rows passing this check contain every Earley item, so the
fuel of `closure` is not part of what the completeness theorem trusts. -/
def rowsClosed (g : CG) (lexs : List (List Nat)) (rows : List (List Item)) : Bool :=
  subsetB ((g.sym g.start).rules.map (fun r => (r, 0))) (rows.getD 0 []) &&
  (List.range rows.length).all (fun j =>
    (rows.getD j []).all (fun it => subsetB (expand g rows j it) (rows.getD j [])) &&
    (!(decide (j + 1 < rows.length)) || subsetB (scanned g (rows.getD j []) (lexs.getD j [])) (rows.getD (j + 1) [])))

/-- well-formedness of the dump that the soundness theorem needs (checked by the driver when a
grammar is loaded): the null symbol has no rules, no lexeme and is not nullable; the rule pointers
of a symbol lie in rules whose recorded left-hand side is that symbol; positions of one rule share
their left-hand side -/
def CG.wf (g : CG) : Bool :=
  (g.sym 0).rules.isEmpty && (g.sym 0).lexeme.isNone && !(g.sym 0).nullable &&
  (List.range g.syms.size).all (fun s => (g.sym s).rules.all (fun r => g.lhs r == s)) &&
  (List.range g.rhs.size).all (fun p => g.atDot p == 0 || g.lhs (p + 1) == g.lhs p)

/-- the symbols of the right-hand side starting at `p` (up to the terminating 0) -/
def CG.rhsFrom (g : CG) : Nat → Nat → List Nat
  | 0, _ => []
  | fuel + 1, p => if g.atDot p = 0 then [] else g.atDot p :: g.rhsFrom fuel (p + 1)

/-- the nullable flags are closed under the stored rules: a symbol with a rule whose symbols are all
flagged nullable is flagged itself (the completion step skips items that start in the current row
and relies on these flags instead) -/
def CG.nullableClosed (g : CG) : Bool :=
  (List.range g.syms.size).all (fun s =>
    (g.sym s).nullable || (g.sym s).rules.all (fun r => (g.rhsFrom g.rhs.size r).any (fun x => !(g.sym x).nullable)))

/-- one round of the nullable computation: symbols already known, or with a rule all of whose
symbols are known -/
def nullStep (g : CG) (set : List Nat) : List Nat :=
  (List.range g.syms.size).filter (fun s =>
    set.contains s || (g.sym s).rules.any (fun r => (g.rhsFrom g.rhs.size r).all (fun x => set.contains x)))

def nullIter (g : CG) : Nat → List Nat
  | 0 => []
  | n + 1 => nullStep g (nullIter g n)

/-- every symbol flagged nullable is derived nullable by the rules alone (so the flags add nothing
to the grammar's language) -/
def CG.nullableSound (g : CG) : Bool :=
  let set := nullIter g (g.syms.size + 1)
  (List.range g.syms.size).all (fun s => !(g.sym s).nullable || set.contains s)

/-- one round of the productivity computation (a lexeme is taken to match something) -/
def prodStep (g : CG) (set : List Nat) : List Nat :=
  (List.range g.syms.size).filter (fun s =>
    set.contains s || (g.sym s).lexeme.isSome || (g.sym s).nullable ||
    (g.sym s).rules.any (fun r => (g.rhsFrom g.rhs.size r).all (fun x => set.contains x)))

def prodIter (g : CG) : Nat → List Nat
  | 0 => []
  | n + 1 => prodStep g (prodIter g n)

/-- every symbol that occurs in a right-hand side derives some lexeme sequence -/
def CG.allProductive (g : CG) : Bool :=
  let set := prodIter g (g.syms.size + 1)
  (List.range g.rhs.size).all (fun p => g.atDot p == 0 || set.contains (g.atDot p))

end Ey
end LlgVerif
