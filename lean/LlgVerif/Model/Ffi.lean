/-
M13 — model of the mask copy in `parser/src/ffi_par.rs:54-91` (`llg_par_compute_mask`) and of the
exact-size check in `parser/src/ffi.rs` `llg_matcher_compute_mask_into`.

`parCopy` models the code as repaired by the `fix:` commit (number of words copied =
`min(mask.as_slice().len(), dest words)`); `parCopyBits` models the code as it was at the pinned
commit (`min(mask.len() /* bits */, dest words)`), where reading word `i ≥ data.length` is an
out-of-bounds read, reported as `none`.
-/
import LlgVerif.Model.Svob
namespace LlgVerif

structure CopyResult where
  dest      : List Word
  wordsRead : Nat       -- words read from the engine's mask storage
deriving Repr, DecidableEq

def orBitAt (d : List Word) (i : Nat) : List Word :=
  d.set (i / 32) (((d[i / 32]?).getD 0) ||| (1#32 <<< (i % 32)))

/-- Copy of `mask` (when the engine returned one) into a destination of `d` words, zero fill,
    then the EOS bit when the step is a stop and the bit lies inside the destination. -/
def parCopy (mask : Option Svob) (d : Nat) (addEos : Bool) (eos : Nat) : CopyResult :=
  let n := match mask with
    | some m => min m.data.length d
    | none => 0
  let copied := match mask with
    | some m => m.data.take n
    | none => []
  let dest := copied ++ List.replicate (d - n) 0
  let dest := if addEos ∧ eos / 32 < d then orBitAt dest eos else dest
  { dest := dest, wordsRead := n }

/-- The pinned code: the count is derived from the *bit* length.  `none` = read outside the mask. -/
def parCopyBits (mask : Option Svob) (d : Nat) (addEos : Bool) (eos : Nat) : Option CopyResult :=
  let n := match mask with
    | some m => min m.size d
    | none => 0
  match mask with
  | some m =>
    if n ≤ m.data.length then
      let dest := m.data.take n ++ List.replicate (d - n) 0
      let dest := if addEos ∧ eos / 32 < d then orBitAt dest eos else dest
      some { dest := dest, wordsRead := n }
    else none
  | none =>
    let dest := List.replicate d 0
    let dest := if addEos ∧ eos / 32 < d then orBitAt dest eos else dest
    some { dest := dest, wordsRead := 0 }

/-- `llg_matcher_compute_mask_into`: `n_elts = ceil(vocab/32)`; the slice `as_slice()[0..n_elts]`
    panics (-> error) when the mask storage is shorter; error unless the byte length is exactly
    `4 * n_elts`; otherwise exactly `n_elts` words are copied. -/
def computeMaskInto? (mask : Svob) (vocab byteLen : Nat) : Option (List Word) :=
  let n := (vocab + 31) / 32
  if n ≤ mask.data.length ∧ byteLen = 4 * n then some (mask.data.take n) else none

def bitOf (d : List Word) (t : Nat) : Bool := ((d[t / 32]?).getD 0).getLsbD (t % 32)

end LlgVerif
