/-
M5 (abstract part) — the mask cache of `ParserState::compute_bias` (`parser.rs:400-406, 756-827`)
over the append-only row log, and the truncation arithmetic of rollback
(`tokenparser.rs:374-423`, `parser.rs:1011-1037`, `toktree.rs:484-498, 540-552`).

The Earley rows, lexer states and masks are abstract: `fresh rows ls pending` is the mask a walk
would compute in a state whose committed rows are `rows` (row `rows.length - 1` on top), whose top
lexer state is `ls` and whose pending-lexeme flag is `pending`.  Import-free.
-/
namespace LlgVerif

structure CState (R L M : Type) where
  rows : List R
  ls : L
  pending : Bool
  cache : Option (L × Nat × Bool × M)

inductive COp (R L : Type) where
  | advance (newRows : List R) (ls : L) (pending : Bool)   -- definitive commit: rows only grow
  | rollback (keep : Nat) (ls : L) (pending : Bool)        -- rows truncated to `keep`
  | mask
  | invalidate

variable {R L M : Type} [DecidableEq L]

/-- `compute_bias` with empty start: cache hit iff (lexer state, row index, pending) all equal. -/
def computeBias (fresh : List R → L → Bool → M) (s : CState R L M) : M × CState R L M :=
  let key := (s.ls, s.rows.length - 1, s.pending)
  match s.cache with
  | some (l, i, p, m) =>
    if l = s.ls ∧ i = s.rows.length - 1 ∧ p = s.pending then (m, s)
    else
      let m' := fresh s.rows s.ls s.pending
      (m', { s with cache := some (key.1, key.2.1, key.2.2, m') })
  | none =>
    let m' := fresh s.rows s.ls s.pending
    (m', { s with cache := some (key.1, key.2.1, key.2.2, m') })

/-- one operation; `clear` = whether `rollback` drops the cache (the repaired code: `true`) -/
def cstep (fresh : List R → L → Bool → M) (clear : Bool) (s : CState R L M) :
    COp R L → Option M × CState R L M
  | .advance nr ls p => (none, { s with rows := s.rows ++ nr, ls := ls, pending := p })
  | .rollback keep ls p =>
    (none, { rows := s.rows.take keep, ls := ls, pending := p,
             cache := if clear then none else s.cache })
  | .mask => let r := computeBias fresh s; (some r.1, r.2)
  | .invalidate => (none, { s with cache := none })

def crun (fresh : List R → L → Bool → M) (clear : Bool) (s : CState R L M) :
    List (COp R L) → List (Option M) × CState R L M
  | [] => ([], s)
  | op :: ops =>
    let r := cstep fresh clear s op
    let rs := crun fresh clear r.2 ops
    (r.1 :: rs.1, rs.2)

/-- what a cache-free engine would answer -/
def crunFresh (fresh : List R → L → Bool → M) (s : CState R L M) :
    List (COp R L) → List (Option M)
  | [] => []
  | op :: ops =>
    let r := cstep fresh true { s with cache := none } op
    (match op with | .mask => some (fresh s.rows s.ls s.pending) | _ => none) ::
      crunFresh fresh r.2 ops

/-- Cache invariant: a stored entry describes a prefix of the current row log. -/
def CacheInv (fresh : List R → L → Bool → M) (s : CState R L M) : Prop :=
  ∀ l i p m, s.cache = some (l, i, p, m) →
    i < s.rows.length ∧ m = fresh (s.rows.take (i + 1)) l p

/-! ### Rollback arithmetic -/

abbrev Byte' := UInt8

/-- `TokTrie::token_len` for a special / empty token `idx`: digits of `idx` plus 3. -/
def digitsLoop : Nat → Nat → Nat → Nat
  | 0, _, len => len
  | fuel + 1, idx, len => if idx ≥ 10 then digitsLoop fuel (idx / 10) (len + 1) else len

def specialTokenLen (idx : Nat) : Nat := digitsLoop (idx + 1) idx 1 + 3

/-- `decode_raw` / `decode_as_special` of a special token: `0xFF '[' decimal ']'`. -/
def decDigits : Nat → Nat → List Byte'
  | 0, n => [(48 + n % 10).toUInt8]
  | fuel + 1, n => if n ≥ 10 then decDigits fuel (n / 10) ++ [(48 + n % 10).toUInt8] else [(48 + n % 10).toUInt8]

def decodeSpecial (idx : Nat) : List Byte' :=
  0xFF :: 91 :: (decDigits (idx + 1) idx ++ [93])

structure Vocab where
  bytes : Nat → List Byte'        -- `token(idx)`
  eos : List Nat

def Vocab.isSpecial (v : Vocab) (t : Nat) : Bool :=
  match v.bytes t with
  | [] => true
  | b :: _ => b == 0xFF

def Vocab.tokenLen (v : Vocab) (t : Nat) : Nat :=
  if v.isSpecial t then specialTokenLen t else (v.bytes t).length

def Vocab.decodeRaw (v : Vocab) (t : Nat) : List Byte' :=
  if v.isSpecial t then decodeSpecial t else v.bytes t

/-- Token-level and parser-level histories that rollback truncates. -/
structure RState (LS : Type) where
  tokens : List Nat
  llmBytes : List Byte'
  pBytes : List Byte'
  byteTok : List Nat
  lexStack : List LS          -- one entry per byte, plus the initial one
  stopOk : Bool               -- stopped "normally" (undone by rollback)
  /-- `last_token_is_bare_eos`: the last token is an EOS that ended the sequence (no bytes applied) -/
  bareEos : Bool
deriving Repr

/-- committing a token whose `decode_raw` bytes were all applied (an EOS token the grammar consumes
    as a token included), pushing one lexer-stack entry per byte; `ls` are those entries -/
def RState.commit {LS} (v : Vocab) (s : RState LS) (t : Nat) (ls : List LS) : RState LS :=
  let bs := v.decodeRaw t
  { s with tokens := s.tokens ++ [t], llmBytes := s.llmBytes ++ bs, pBytes := s.pBytes ++ bs,
           byteTok := s.byteTok ++ List.replicate bs.length s.tokens.length,
           lexStack := s.lexStack ++ ls, bareEos := false }

/-- committing EOS in an accepting state: recorded as a token, no bytes; flushing the lexer for
    the EOS check may leave extra lexer-stack entries (`lexer_stack_top_eos`) -/
def RState.commitEos {LS} (s : RState LS) (t : Nat) (extra : List LS) : RState LS :=
  { s with tokens := s.tokens ++ [t], lexStack := s.lexStack ++ extra, stopOk := true, bareEos := true }

/-- bytes of the rolled-back tokens: every token counts its `token_len`, except a last token that
    is a bare end-of-sequence -/
def bytesToDrop (v : Vocab) (toks : List Nat) (lastBare : Bool) : Nat :=
  ((if lastBare then toks.dropLast else toks).map v.tokenLen).sum

/-- `TokenParser::rollback` + `ParserState::rollback` -/
def RState.rollback {LS} (v : Vocab) (s : RState LS) (k : Nat) : Option (RState LS) :=
  if k = 0 then some s
  else if k > s.tokens.length then none
  else
    let newLen := s.tokens.length - k
    let drop := bytesToDrop v (s.tokens.drop newLen) s.bareEos
    if drop > s.llmBytes.length ∨ drop > s.byteTok.length then none
    else
      let nb := s.byteTok.length - drop
      some { tokens := s.tokens.take newLen,
             llmBytes := s.llmBytes.take (s.llmBytes.length - drop),
             pBytes := s.pBytes.take nb,
             byteTok := s.byteTok.take nb,
             lexStack := s.lexStack.take (nb + 1),
             stopOk := false, bareEos := false }

end LlgVerif
