/-
M10 (part) — `Decimal` of `json/numeric.rs:6-73`: `coef * 10^-exp` with `u32` fields, `new`
(strip trailing zeros), `gcd` (Euclid; the model uses `Nat.gcd`, the same algorithm) and the
checked least common multiple introduced by the repair of defect F4.  `none` = an intermediate or
the result does not fit `u32`.  Import-free.
-/
namespace LlgVerif

structure Dec where
  coef : Nat
  exp : Nat
deriving Repr, DecidableEq

def u32Max : Nat := 4294967295

/-- the `while exp > 0 && coef % 10 == 0` loop of `Decimal::new` -/
def stripZeros : Nat → Nat → Nat → Nat × Nat
  | 0, c, e => (c, e)
  | f + 1, c, e => if e > 0 ∧ c % 10 = 0 then stripZeros f (c / 10) (e - 1) else (c, e)

def Dec.new (coef exp : Nat) : Dec :=
  if coef = 0 then { coef := 0, exp := 0 }
  else let r := stripZeros exp coef exp; { coef := r.1, exp := r.2 }

def checkedMul (a b : Nat) : Option Nat := if a * b ≤ u32Max then some (a * b) else none
def checkedPow10 (k : Nat) : Option Nat := if 10 ^ k ≤ u32Max then some (10 ^ k) else none

/-- `Decimal::checked_lcm` -/
def Dec.checkedLcm (x y : Dec) : Option Dec :=
  if x.coef = 0 ∨ y.coef = 0 then some (Dec.new 0 0)
  else do
    let pa ← checkedPow10 (y.exp - x.exp)
    let a ← checkedMul x.coef pa
    let pb ← checkedPow10 (x.exp - y.exp)
    let b ← checkedMul y.coef pb
    let coef ← checkedMul (a / Nat.gcd a b) b
    pure (Dec.new coef (max x.exp y.exp))

/-- the pinned code: wrapping `u32` arithmetic (release profile) -/
def Dec.wrappingLcm (x y : Dec) : Dec :=
  if x.coef = 0 ∨ y.coef = 0 then Dec.new 0 0
  else
    let m := u32Max + 1
    let a := (x.coef * ((10 ^ (y.exp - x.exp)) % m)) % m
    let b := (y.coef * ((10 ^ (x.exp - y.exp)) % m)) % m
    Dec.new (((a * b) % m) / Nat.gcd a b) (max x.exp y.exp)

end LlgVerif
