/-
M11 — model of the grammar-level repetition factorisation of `grammar_builder.rs:529-786`
(`join`, `select`, `optional`, `zero_or_more`, `simple_repeat`, `repeat_exact`, `at_most`,
`at_least`, `repeat`) for an arbitrary block size `K`.  Grammar expressions are abstract regular
expressions over one element; the caches of the Rust code only share nodes and are not modelled.
Import-free.
-/
namespace LlgVerif

inductive GExp where
  | elt                          -- the repeated element
  | join (xs : List GExp)        -- sequence (`join`; `join []` is the empty string)
  | select (xs : List GExp)      -- alternatives (`select`)
  | star (g : GExp)              -- `zero_or_more`
deriving Repr, Inhabited

namespace GExp

def empty : GExp := join []
def optional (e : GExp) : GExp := select [empty, e]

def simpleRepeat (e : GExp) (n : Nat) : GExp := join (List.replicate n e)

/-- `repeat_exact`; `fuel` bounds the recursion depth (`n / K < n` for `K ≥ 2`) -/
def repeatExact (K : Nat) : Nat → GExp → Nat → GExp
  | 0, e, n => simpleRepeat e n
  | fuel + 1, e, n =>
    if n > 2 * K then
      let eltK := simpleRepeat e K
      let inner := repeatExact K fuel eltK (n / K)
      join (List.replicate (n % K) e ++ [inner])
    else simpleRepeat e n

/-- `at_most` -/
def atMost (K : Nat) : Nat → GExp → Nat → GExp
  | 0, e, n => select ((List.range (n + 1)).map (simpleRepeat e))
  | fuel + 1, e, n =>
    if n = 0 then empty
    else if n = 1 then optional e
    else if n < 3 * K then select ((List.range (n + 1)).map (simpleRepeat e))
    else
      let eltK := simpleRepeat e K
      let maxNk := join [atMost K fuel eltK (n / K - 1), atMost K fuel e (K - 1)]
      let eltN := join [repeatExact K n eltK (n / K), atMost K fuel e (n % K)]
      select [eltN, maxNk]

def atLeast (K : Nat) (e : GExp) (n : Nat) : GExp :=
  if n = 0 then star e else join [repeatExact K n e n, star e]

/-- `GrammarBuilder::repeat(elt, min, max)`; `none` when the Rust code asserts (`min > max`) -/
def repeat? (K : Nat) (e : GExp) (min : Nat) (max : Option Nat) : Option GExp :=
  match max with
  | none => some (atLeast K e min)
  | some max =>
    if min > max then none
    else if min = max then some (repeatExact K min e min)
    else if min = 0 then some (atMost K max e max)
    else some (join [repeatExact K min e min, atMost K (max - min) e (max - min)])

/-- counts of the element derivable from an expression, as a predicate -/
def counts : GExp → Nat → Prop
  | elt, c => c = 1
  | join xs, c => countsSeq xs c
  | select xs, c => countsAlt xs c
  | star g, c => ∃ cs : List Nat, c = cs.sum ∧ ∀ x ∈ cs, counts g x
where
  countsSeq : List GExp → Nat → Prop
    | [], c => c = 0
    | x :: xs, c => ∃ a b, c = a + b ∧ counts x a ∧ countsSeq xs b
  countsAlt : List GExp → Nat → Prop
    | [], _ => False
    | x :: xs, c => counts x c ∨ countsAlt xs c

/-- executable enumeration of the counts `≤ bound` (for the correspondence run) -/
def countsUpTo (bound : Nat) : GExp → List Nat
  | elt => if 1 ≤ bound then [1] else []
  | join xs => seqUpTo bound xs
  | select xs => altUpTo bound xs
  | star g =>
    -- closure of {0} under adding counts of g, bounded
    let base := countsUpTo bound g
    let step (acc : List Nat) : List Nat :=
      (acc ++ (acc.flatMap (fun a => base.map (· + a)))).filter (· ≤ bound) |>.eraseDups
    (List.range (bound + 1)).foldl (fun acc _ => step acc) [0]
where
  seqUpTo (bound : Nat) : List GExp → List Nat
    | [] => [0]
    | x :: xs =>
      let a := countsUpTo bound x
      let b := seqUpTo bound xs
      ((a.flatMap (fun i => b.map (· + i))).filter (· ≤ bound)).eraseDups
  altUpTo (bound : Nat) : List GExp → List Nat
    | [] => []
    | x :: xs => (countsUpTo bound x ++ altUpTo bound xs).eraseDups

end GExp
end LlgVerif
