/-
M8 — the shared, append-only lexer state table (`regexvec.rs:662-688 append_state/insert_state`)
used by several clones through a mutex (`parser.rs:2881-2888 with_shared`): every operation of a
clone runs atomically over the table, may append states, and keeps only state *ids*.

A state's content is abstract (`C`, the vector of derivatives); `delta` is the pure transition on
contents (what `transition_inner` computes when the entry is missing).  Import-free.
-/
namespace LlgVerif

variable {C : Type} [DecidableEq C]

/-- `insert_state`: the id of `c` if present, otherwise `c` is appended -/
def intern (tbl : List C) (c : C) : Nat × List C :=
  let i := tbl.idxOf c
  if i < tbl.length then (i, tbl) else (tbl.length, tbl ++ [c])

/-- one atomic operation of clone `i`: transition of its current state by byte `b` -/
def sharedStep (delta : C → Nat → C) (st : List C × List Nat) (op : Nat × Nat) : List C × List Nat :=
  let (tbl, ids) := st
  let (i, b) := op
  match ids[i]? with
  | none => st
  | some q =>
    match tbl[q]? with
    | none => st
    | some c =>
      let r := intern tbl (delta c b)
      (r.2, ids.set i r.1)

def sharedRun (delta : C → Nat → C) (st : List C × List Nat) (sched : List (Nat × Nat)) : List C × List Nat :=
  sched.foldl (sharedStep delta) st

/-- what clone `i` computes with a private engine: its own bytes, in order -/
def privateRun (delta : C → Nat → C) (c0 : C) (i : Nat) (sched : List (Nat × Nat)) : C :=
  (sched.filter (fun op => op.1 = i)).foldl (fun c op => delta c op.2) c0

end LlgVerif
