/-
M8c — emptiness of a numeric schema: is there a multiple of `step` between the bounds?
(what `check_number_bounds`, parser/src/json/numeric.rs, decides before a number schema is compiled;
the code works in f64, this model in exact integers at a common decimal scale).  Import-free.
-/
namespace LlgVerif

/-- least multiple of `step` that is `≥ lo` (`> lo` when the bound is exclusive) -/
def firstMult (lo : Int) (lex : Bool) (step : Int) : Int :=
  let k := lo / step * step
  if k < lo ∨ (k = lo ∧ lex = true) then k + step else k

/-- some multiple of `step` lies between `lo` and `hi` (exclusive where flagged) -/
def hasMult (lo : Int) (lex : Bool) (hi : Int) (hex : Bool) (step : Int) : Bool :=
  let k := firstMult lo lex step
  decide (k < hi) || (decide (k = hi) && !hex)

/-- dense case (no `multipleOf`, type number): a non-empty interval -/
def hasPoint (lo : Int) (lex : Bool) (hi : Int) (hex : Bool) : Bool :=
  decide (lo < hi) || (decide (lo = hi) && !lex && !hex)

end LlgVerif
