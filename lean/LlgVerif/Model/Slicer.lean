/-
M7 — model of `TokenizerSlice::apply` and `SlicedBiasComputer::compute_bias`
(`slicer.rs:82-168, 369-390`).  Token sets are lists of ids; `allowed t` is what a trie walk over
the current recogniser state finds for token `t` (C16: a walk over a filtered trie yields exactly
the allowed tokens of that trie); `mtch idx` is the outcome of the containment test for slice
`idx` in the current lexer state.  Import-free.
-/
namespace LlgVerif

inductive Slice where
  | node (idx : Nat) (mask : List Nat) (kids : List Slice)   -- mask = mask_with_children
deriving Repr, Inhabited

namespace Slice

def idx : Slice → Nat | node i _ _ => i
def mask : Slice → List Nat | node _ m _ => m
def kids : Slice → List Slice | node _ _ k => k

/-- walk of a trie holding exactly the tokens `xs` -/
def walk (allowed : Nat → Bool) (xs : List Nat) (acc : List Nat) : List Nat :=
  acc ++ xs.filter allowed

def diff (a b : List Nat) : List Nat := a.filter (fun t => !b.contains t)

/-- `c.trie_apply` for every child that did not apply (`flags` = which children applied) -/
def walkUnapplied (allowed : Nat → Bool) : List Slice → List Bool → List Nat → List Nat
  | c :: cs, f :: fs, acc => walkUnapplied allowed cs fs (if f then acc else walk allowed c.mask acc)
  | _, _, acc => acc

mutual
-- `apply`: returns whether the slice was applied, and the target set
def apply (mtch : Nat → Bool) (allowed : Nat → Bool) : Slice → List Nat → Bool × List Nat
  | node i m kids, acc =>
    if mtch i then (true, acc ++ m)
    else
      let r := applyKids mtch allowed kids acc
      -- r = (target after the children, for every child whether it applied)
      if r.2.all (fun f => !f) then (false, r.1)
      else if r.2.count true = 1 then
        -- exactly one child applied: trie_without_child[k] = mask minus that child's mask
        let k := r.2.idxOf true
        (true, walk allowed (diff m ((kids[k]?).map Slice.mask |>.getD [])) r.1)
      else
        -- walk the children that did not apply, then this slice's own tokens
        let acc1 := walkUnapplied allowed kids r.2 r.1
        let own := diff m (kids.flatMap Slice.mask)
        (true, walk allowed own acc1)
def applyKids (mtch : Nat → Bool) (allowed : Nat → Bool) : List Slice → List Nat → List Nat × List Bool
  | [], acc => (acc, [])
  | c :: cs, acc =>
    let r := apply mtch allowed c acc
    let rs := applyKids mtch allowed cs r.2
    (rs.1, r.1 :: rs.2)
end

/-- the token sets of the remainder tries built by `from_topo_node`: `trie_without_child[k]` for
    every child, and `trie_without_children`; these are the sets `apply` walks -/
def remainders : Slice → List (List Nat) × List Nat
  | node _ m kids => (kids.map (fun k => diff m k.mask), diff m (kids.flatMap Slice.mask))

/-- `SlicedBiasComputer::compute_bias` (empty start): try the slice tree, else walk everything -/
def computeBias (mtch : Nat → Bool) (allowed : Nat → Bool) (top : Slice) (subsumePossible : Bool) :
    List Nat :=
  if !top.kids.isEmpty && subsumePossible then
    let r := apply mtch allowed top []
    if r.1 then r.2 else walk allowed top.mask []
  else walk allowed top.mask []

end Slice
end LlgVerif
