/-
S2 — byte-level regular expressions with intersection and complement: declarative language,
Brzozowski derivatives, normalising constructors, and a *checked* DFA certificate
(states = normalised derivatives, transitions for all 256 bytes, accepting flags, live flags with a
rank witness).  Import-free.
-/
namespace LlgVerif

abbrev B := UInt8

inductive Rx where
  | empty
  | eps
  | set (rs : List (Nat × Nat))      -- byte ranges, inclusive
  | cat (a b : Rx)
  | alt (a b : Rx)
  | and (a b : Rx)
  | not (a : Rx)
  | star (a : Rx)
deriving Repr, DecidableEq, Inhabited

namespace Rx

def inSet (rs : List (Nat × Nat)) (b : B) : Bool := rs.any (fun r => r.1 ≤ b.toNat && b.toNat ≤ r.2)

/-- declarative language -/
def lang : Rx → List B → Prop
  | empty, _ => False
  | eps, w => w = []
  | set rs, w => ∃ b, w = [b] ∧ inSet rs b = true
  | cat a b, w => ∃ u v, w = u ++ v ∧ lang a u ∧ lang b v
  | alt a b, w => lang a w ∨ lang b w
  | and a b, w => lang a w ∧ lang b w
  | not a, w => ¬ lang a w
  | star a, w => ∃ ws : List (List B), w = ws.flatten ∧ ∀ u ∈ ws, lang a u

def nullable : Rx → Bool
  | empty => false
  | eps => true
  | set _ => false
  | cat a b => nullable a && nullable b
  | alt a b => nullable a || nullable b
  | and a b => nullable a && nullable b
  | not a => !nullable a
  | star _ => true

/-- plain Brzozowski derivative -/
def deriv : Rx → B → Rx
  | empty, _ => empty
  | eps, _ => empty
  | set rs, b => if inSet rs b then eps else empty
  | cat a b, c => if nullable a then alt (cat (deriv a c) b) (deriv b c) else cat (deriv a c) b
  | alt a b, c => alt (deriv a c) (deriv b c)
  | and a b, c => and (deriv a c) (deriv b c)
  | not a, c => not (deriv a c)
  | star a, c => cat (deriv a c) (star a)

def derivs (r : Rx) : List B → Rx
  | [] => r
  | b :: w => derivs (deriv r b) w

def matchesB (r : Rx) (w : List B) : Bool := nullable (derivs r w)

/-! ### normalising constructors (keep the set of derivatives finite in practice) -/

/-- total order used to sort alternatives (any total function works; only dedup matters) -/
def size : Rx → Nat
  | empty => 1 | eps => 1 | set rs => 1 + rs.length
  | cat a b => 1 + size a + size b | alt a b => 1 + size a + size b
  | and a b => 1 + size a + size b | not a => 1 + size a | star a => 1 + size a

def tag : Rx → Nat
  | empty => 0 | eps => 1 | set _ => 2 | cat _ _ => 3 | alt _ _ => 4 | and _ _ => 5 | not _ => 6 | star _ => 7

def flattenAlt : Rx → List Rx
  | alt a b => flattenAlt a ++ flattenAlt b
  | r => [r]

def insertDedup (x : Rx) : List Rx → List Rx
  | [] => [x]
  | y :: ys =>
    if x = y then y :: ys
    else if size x < size y ∨ (size x = size y ∧ tag x < tag y) then x :: y :: ys
    else y :: insertDedup x ys

def altOfList : List Rx → Rx
  | [] => empty
  | [r] => r
  | r :: rs => alt r (altOfList rs)

def mkAlt (a b : Rx) : Rx :=
  let l := (flattenAlt a ++ flattenAlt b).filter (· ≠ empty)
  altOfList (l.foldl (fun acc x => insertDedup x acc) [])

def mkCat (a b : Rx) : Rx :=
  match a, b with
  | empty, _ => empty
  | _, empty => empty
  | eps, b => b
  | a, eps => a
  | a, b => cat a b

def mkAnd (a b : Rx) : Rx :=
  match a, b with
  | empty, _ => empty
  | _, empty => empty
  | a, b => if a = b then a else and a b

def mkNot (a : Rx) : Rx :=
  match a with
  | not x => x
  | a => not a

/-- normalised derivative -/
def derivN : Rx → B → Rx
  | empty, _ => empty
  | eps, _ => empty
  | set rs, b => if inSet rs b then eps else empty
  | cat a b, c => if nullable a then mkAlt (mkCat (derivN a c) b) (derivN b c) else mkCat (derivN a c) b
  | alt a b, c => mkAlt (derivN a c) (derivN b c)
  | and a b, c => mkAnd (derivN a c) (derivN b c)
  | not a, c => mkNot (derivN a c)
  | star a, c => mkCat (derivN a c) (star a)

def derivsN (r : Rx) : List B → Rx
  | [] => r
  | b :: w => derivsN (derivN r b) w

/-- bounded repetition `r{m,n}` / `r{m,}` as a derived form -/
def repExact (r : Rx) : Nat → Rx
  | 0 => eps
  | n + 1 => cat r (repExact r n)

def repUpTo (r : Rx) : Nat → Rx
  | 0 => eps
  | n + 1 => alt eps (cat r (repUpTo r n))

def rep (r : Rx) (m : Nat) (n : Option Nat) : Rx :=
  match n with
  | none => cat (repExact r m) (star r)
  | some n => cat (repExact r m) (repUpTo r (n - m))

end Rx

/-! ### checked DFA certificate -/

structure Dfa where
  states : Array Rx
  trans : Array (Array Nat)     -- trans[q][b]
  acc : Array Bool
  live : Array Bool
  rank : Array Nat
deriving Repr

namespace Dfa

def next (d : Dfa) (q : Nat) (b : B) : Nat := (d.trans[q]!)[b.toNat]!

def run (d : Dfa) : Nat → List B → Nat
  | q, [] => q
  | q, b :: w => run d (next d q b) w

def allBytes : List B := (List.range 256).map (fun n => UInt8.ofNat n)

/-- the certificate check: state 0 is the regex; every transition is the normalised derivative;
    accepting = nullable; `live` is a fixpoint and every live non-accepting state has a successor
    of smaller rank that is live (so live = "some accepting state is reachable") -/
def check (r : Rx) (d : Dfa) : Bool :=
  d.states.size > 0 && d.states[0]! == r &&
  d.trans.size == d.states.size && d.acc.size == d.states.size &&
  d.live.size == d.states.size && d.rank.size == d.states.size &&
  (List.range d.states.size).all (fun q =>
    (d.trans[q]!).size == 256 &&
    d.acc[q]! == Rx.nullable d.states[q]! &&
    allBytes.all (fun b =>
      let q' := next d q b
      q' < d.states.size && d.states[q']! == Rx.derivN d.states[q]! b) &&
    (if d.live[q]! then
       d.acc[q]! || allBytes.any (fun b => d.live[next d q b]! && d.rank[next d q b]! < d.rank[q]!)
     else
       !d.acc[q]! && allBytes.all (fun b => !d.live[next d q b]!)))

def accepts (d : Dfa) (w : List B) : Bool := d.acc[run d 0 w]!
def viable (d : Dfa) (w : List B) : Bool := d.live[run d 0 w]!

end Dfa

/-- untrusted construction of the certificate (breadth-first closure under `derivN`, then
    backward reachability with ranks); `none` = state budget exceeded -/
def buildDfa (r : Rx) (maxStates : Nat) : Option Dfa := Id.run do
  let mut states : Array Rx := #[r]
  let mut trans : Array (Array Nat) := #[]
  let mut q := 0
  let mut fuel := maxStates + 1
  while q < states.size && fuel > 0 do
    fuel := fuel - 1
    let s := states[q]!
    let mut row : Array Nat := Array.mkEmpty 256
    for b in Dfa.allBytes do
      let s' := Rx.derivN s b
      match states.findIdx? (· == s') with
      | some i => row := row.push i
      | none =>
        row := row.push states.size
        states := states.push s'
    trans := trans.push row
    q := q + 1
    if states.size > maxStates then
      return none
  if q < states.size then return none
  let n := states.size
  let acc := states.map Rx.nullable
  let mut live := acc
  let mut rank : Array Nat := Array.replicate n 0
  let mut changed := true
  let mut round := 1
  while changed && round ≤ n + 1 do
    changed := false
    for i in [0:n] do
      if !live[i]! then
        if (trans[i]!).any (fun j => live[j]! && rank[j]! < round) then
          live := live.set! i true
          rank := rank.set! i round
          changed := true
    round := round + 1
  return some { states, trans, acc, live, rank }

end LlgVerif
