/-
Containment of a regex in the prefixes of (a derivative of) another, decided on checked DFA
certificates (S2): the question `RegexVec::check_subsume` / derivre's `is_contained_in_prefixes`
answers for the slicer — "is every string of the slice regex a prefix of some string the lexeme can
still match from its current state?".  The certificate is a set of state pairs closed under the
bytes that keep the small automaton live.  Import-free.
-/
import LlgVerif.Spec.Regex
namespace LlgVerif
namespace Dfa

def containCheck (ds db : Dfa) (q0 : Nat) (pairs : List (Nat × Nat)) : Bool :=
  pairs.contains (0, q0) &&
  pairs.all (fun pq =>
    (!(ds.acc[pq.1]!) || db.live[pq.2]!) &&
    allBytes.all (fun b => !(ds.live[next ds pq.1 b]!) || pairs.contains (next ds pq.1 b, next db pq.2 b)))

/-- untrusted construction: pairs reachable from `(0, q0)` through live states of the small automaton -/
def buildPairs (ds db : Dfa) (q0 : Nat) (fuel : Nat) : List (Nat × Nat) := Id.run do
  let mut pairs : Array (Nat × Nat) := #[(0, q0)]
  let mut i := 0
  let mut f := fuel
  while i < pairs.size && f > 0 do
    f := f - 1
    let pq := pairs[i]!
    for b in allBytes do
      let p' := next ds pq.1 b
      if ds.live[p']! then
        let x := (p', next db pq.2 b)
        if !pairs.contains x then pairs := pairs.push x
    i := i + 1
  return pairs.toList

/-- `some true`: contained (certificate checked); `some false`: the closure is complete and holds a
pair whose small state accepts while the big one is dead; `none`: budget exceeded -/
def decideContain (ds db : Dfa) (q0 : Nat) (fuel : Nat) : Option Bool :=
  let pairs := buildPairs ds db q0 fuel
  if containCheck ds db q0 pairs then some true
  else if pairs.length < fuel then some false
  else none

end Dfa
end LlgVerif
