/-
S5 — JSON values and a validator for the JSON-Schema keywords the engine documents as supported
(Draft 2020-12 semantics), working directly on the schema *document* (a JSON value), so that no
translation step sits between the schema text and its meaning.
Keywords: boolean schemas, type, enum, const, anyOf, allOf, oneOf, $ref (`#`, `#/$defs/x`,
`#/definitions/x`), items, prefixItems, minItems, maxItems, properties, required,
additionalProperties, minProperties, maxProperties, minLength, maxLength, minimum, maximum,
exclusiveMinimum, exclusiveMaximum, multipleOf.  Numbers are exact decimals.  Import-free.
-/
namespace LlgVerif
namespace Js

/-- exact decimal: `(-1)^neg * mant * 10^exp` -/
structure Num where
  neg : Bool
  mant : Nat
  exp : Int
deriving Repr, DecidableEq, Inhabited

inductive Json where
  | null
  | bool (b : Bool)
  | num (n : Num)
  | str (s : String)
  | arr (xs : List Json)
  | obj (kvs : List (String × Json))
deriving Repr, Inhabited

/-! ### numbers -/

def Num.signed (n : Num) : Int := if n.neg then -(n.mant : Int) else (n.mant : Int)

/-- both numbers as integers at the common (smaller) exponent -/
def Num.align (a b : Num) : Int × Int :=
  let e := min a.exp b.exp
  (a.signed * (10 : Int) ^ (a.exp - e).toNat, b.signed * (10 : Int) ^ (b.exp - e).toNat)

def Num.le (a b : Num) : Bool := let p := Num.align a b; decide (p.1 ≤ p.2)
def Num.lt (a b : Num) : Bool := let p := Num.align a b; decide (p.1 < p.2)
def Num.eq (a b : Num) : Bool := let p := Num.align a b; decide (p.1 = p.2)

/-- `a` is an integer multiple of `m` (`m ≠ 0`) -/
def Num.multipleOf (a m : Num) : Bool :=
  let p := Num.align a m
  if p.2 = 0 then false else decide (p.1 % p.2 = 0)

def Num.isInteger (a : Num) : Bool :=
  if a.exp ≥ 0 then true else decide (a.mant % 10 ^ (-a.exp).toNat = 0)

/-! ### structural equality up to number spelling and key order -/

def lookup (kvs : List (String × Json)) (k : String) : Option Json :=
  match kvs with
  | [] => none
  | (k', v) :: rest => if k' = k then some v else lookup rest k

def jeq : Nat → Json → Json → Bool
  | 0, _, _ => false
  | _ + 1, .null, .null => true
  | _ + 1, .bool a, .bool b => a == b
  | _ + 1, .num a, .num b => Num.eq a b
  | _ + 1, .str a, .str b => a == b
  | f + 1, .arr xs, .arr ys =>
    xs.length == ys.length && (xs.zip ys).all (fun p => jeq f p.1 p.2)
  | f + 1, .obj xs, .obj ys =>
    xs.length == ys.length &&
    xs.all (fun kv => match lookup ys kv.1 with | some v => jeq f kv.2 v | none => false)
  | _ + 1, _, _ => false

/-! ### schema documents -/

def typeOK (t : String) (v : Json) : Bool :=
  match t, v with
  | "null", .null => true
  | "boolean", .bool _ => true
  | "number", .num _ => true
  | "integer", .num n => n.isInteger
  | "string", .str _ => true
  | "array", .arr _ => true
  | "object", .obj _ => true
  | _, _ => false

def asNum : Option Json → Option Num
  | some (.num n) => some n
  | _ => none

def asNat : Option Json → Option Nat
  | some (.num n) => if n.neg || n.exp < 0 then (if n.mant = 0 then some 0 else none) else some (n.mant * 10 ^ n.exp.toNat)
  | _ => none

def distinctKeys (kvs : List (String × Json)) : List String :=
  kvs.foldl (fun acc kv => if acc.contains kv.1 then acc else acc ++ [kv.1]) []

/-- `$ref` targets: the root, or an entry of `$defs` / `definitions` of the root -/
def resolveRef (root : Json) (r : String) : Option Json :=
  if r = "#" then some root
  else
    let defsOf := fun (key : String) (name : String) =>
      match root with
      | .obj kvs => match lookup kvs key with
        | some (.obj ds) => lookup ds name
        | _ => none
      | _ => none
    if r.startsWith "#/$defs/" then defsOf "$defs" (r.drop 8).toString
    else if r.startsWith "#/definitions/" then defsOf "definitions" (r.drop 14).toString
    else none

/-- the validator; `fuel` bounds the nesting of schema applications (refs included) -/
def validate (root : Json) : Nat → Json → Json → Bool
  | 0, _, _ => false
  | _ + 1, .bool b, _ => b
  | fuel + 1, .obj kw, v =>
    let get := lookup kw
    let sub := validate root fuel
    -- $ref
    (match get "$ref" with
     | some (.str r) => (match resolveRef root r with | some s => sub s v | none => false)
     | some _ => false
     | none => true) &&
    -- type
    (match get "type" with
     | some (.str t) => typeOK t v
     | some (.arr ts) => ts.any (fun t => match t with | .str t => typeOK t v | _ => false)
     | some _ => false
     | none => true) &&
    -- enum / const
    (match get "enum" with
     | some (.arr vs) => vs.any (fun x => jeq (fuel + 1) x v)
     | some _ => false
     | none => true) &&
    (match get "const" with
     | some c => jeq (fuel + 1) c v
     | none => true) &&
    -- combinators
    (match get "allOf" with
     | some (.arr ss) => ss.all (fun s => sub s v)
     | some _ => false
     | none => true) &&
    (match get "anyOf" with
     | some (.arr ss) => ss.any (fun s => sub s v)
     | some _ => false
     | none => true) &&
    (match get "oneOf" with
     | some (.arr ss) => (ss.filter (fun s => sub s v)).length == 1
     | some _ => false
     | none => true) &&
    -- by instance kind
    (match v with
     | .num n =>
       (match asNum (get "minimum") with | some b => Num.le b n | none => true) &&
       (match asNum (get "maximum") with | some b => Num.le n b | none => true) &&
       (match asNum (get "exclusiveMinimum") with | some b => Num.lt b n | none => true) &&
       (match asNum (get "exclusiveMaximum") with | some b => Num.lt n b | none => true) &&
       (match asNum (get "multipleOf") with | some m => Num.multipleOf n m | none => true)
     | .str s =>
       (match asNat (get "minLength") with | some k => decide (k ≤ s.length) | none => true) &&
       (match asNat (get "maxLength") with | some k => decide (s.length ≤ k) | none => true)
     | .arr xs =>
       let pre := match get "prefixItems" with | some (.arr ps) => ps | _ => []
       (match asNat (get "minItems") with | some k => decide (k ≤ xs.length) | none => true) &&
       (match asNat (get "maxItems") with | some k => decide (xs.length ≤ k) | none => true) &&
       ((xs.zip pre).all (fun p => sub p.2 p.1)) &&
       (match get "items" with
        | some s => (xs.drop pre.length).all (fun x => sub s x)
        | none => true)
     | .obj kvs =>
       let props := match get "properties" with | some (.obj ps) => ps | _ => []
       let keys := distinctKeys kvs
       (match asNat (get "minProperties") with | some k => decide (k ≤ keys.length) | none => true) &&
       (match asNat (get "maxProperties") with | some k => decide (keys.length ≤ k) | none => true) &&
       (match get "required" with
        | some (.arr rs) => rs.all (fun r => match r with | .str r => keys.contains r | _ => false)
        | some _ => false
        | none => true) &&
       kvs.all (fun kv =>
         match lookup props kv.1 with
         | some s => sub s kv.2
         | none =>
           match get "additionalProperties" with
           | some s => sub s kv.2
           | none => true)
     | _ => true)
  | _ + 1, _, _ => false

end Js
end LlgVerif
