/-
S4 — context-free grammars over bytes: declarative derivations, a chart recogniser whose answer is
certified by a closure check, the prefix-grammar construction, and a productivity computation.
Nonterminals are of an arbitrary type `N` (the prefix grammar uses `N × Bool`).
-/
import Std.Data.HashSet
namespace LlgVerif
namespace Cfg

abbrev B := UInt8

inductive Sym (N : Type) where
  | nt (a : N)
  | t (lo hi : UInt8)        -- one byte in [lo, hi]
deriving DecidableEq, Hashable, Repr, Inhabited

abbrev Gram (N : Type) := List (N × List (Sym N))

/-- derivation of a byte string from a sentential form (leftmost symbol first) -/
inductive DL {N : Type} (G : Gram N) : List (Sym N) → List B → Prop where
  | nil : DL G [] []
  | t {lo hi b α w} : lo ≤ b → b ≤ hi → DL G α w → DL G (Sym.t lo hi :: α) (b :: w)
  | nt {a β α u v} : (a, β) ∈ G → DL G β u → DL G α v → DL G (Sym.nt a :: α) (u ++ v)

/-! ### chart recogniser -/

variable {N : Type} [DecidableEq N] [Hashable N]

abbrev Fact (N : Type) := List (Sym N) × List B
abbrev Chart (N : Type) [DecidableEq N] [Hashable N] := Std.HashSet (Fact N)

def splits (x : List B) : List (List B × List B) :=
  (List.range (x.length + 1)).map (fun k => (x.take k, x.drop k))

/-- one inference step read off the chart `c` -/
def infer (G : Gram N) (c : Chart N) : Fact N → Bool
  | ([], x) => x.isEmpty
  | (Sym.t lo hi :: α, x) =>
    match x with
    | [] => false
    | b :: x' => decide (lo ≤ b) && decide (b ≤ hi) && c.contains (α, x')
  | (Sym.nt a :: α, x) =>
    (splits x).any (fun uv =>
      c.contains (α, uv.2) && G.any (fun r => decide (r.1 = a) && c.contains (r.2, uv.1)))

def suffixes {α : Type} : List α → List (List α)
  | [] => [[]]
  | a :: l => (a :: l) :: suffixes l

def prefixes {α : Type} : List α → List (List α)
  | [] => [[]]
  | a :: l => [] :: (prefixes l).map (a :: ·)

def infixes {α : Type} (l : List α) : List (List α) := (suffixes l).flatMap prefixes

/-- the sentential forms the chart talks about: suffixes of right-hand sides and of the start forms -/
def forms (G : Gram N) (starts : List (List (Sym N))) : List (List (Sym N)) :=
  starts.flatMap suffixes ++ G.flatMap (fun r => suffixes r.2)

def univ (G : Gram N) (start : List (List (Sym N))) (w : List B) : List (Fact N) :=
  (forms G start).eraseDups.flatMap (fun α => (infixes w).eraseDups.map (fun x => (α, x)))

def stepC (G : Gram N) (U : List (Fact N)) (c : Chart N) : Chart N :=
  U.foldl (fun acc f => if infer G acc f then acc.insert f else acc) c

def iterC (G : Gram N) (U : List (Fact N)) : Nat → Chart N → Chart N
  | 0, c => c
  | k + 1, c =>
    let c' := stepC G U c
    if c'.size = c.size then c' else iterC G U k c'

/-- closure check: every fact of the univ that one step would infer is already in the chart -/
def closed (G : Gram N) (U : List (Fact N)) (c : Chart N) : Bool :=
  U.all (fun f => !infer G c f || c.contains f)

/-- chart for `w` (untrusted iteration count `fuel`), `none` if not closed -/
def chart? (G : Gram N) (start : List (List (Sym N))) (w : List B) (fuel : Nat) : Option (Chart N) :=
  let U := univ G start w
  let c := iterC G U fuel {}
  if closed G U c then some c else none

/-! ### productivity -/

def prodStep (G : Gram N) (p : List N) : List N :=
  G.foldl (fun acc r =>
    if !acc.contains r.1 && r.2.all (fun s => match s with
        | Sym.nt a => acc.contains a
        | Sym.t lo hi => decide (lo ≤ hi)) then r.1 :: acc else acc) p

def prodIter (G : Gram N) : Nat → List N → List N
  | 0, p => p
  | k + 1, p => prodIter G k (prodStep G p)

/-- every nonterminal mentioned in the grammar is productive and every terminal class is non-empty
(checked with the computed set) -/
def allProductive (G : Gram N) : Bool :=
  let p := prodIter G (G.length + 1) []
  G.all (fun r => p.contains r.1 && r.2.all (fun s => match s with
    | Sym.nt a => p.contains a
    | Sym.t lo hi => decide (lo ≤ hi)))

/-! ### prefix grammar -/

def emb : Sym N → Sym (N × Bool)
  | Sym.nt a => Sym.nt (a, false)
  | Sym.t lo hi => Sym.t lo hi

/-- rules for the prefix nonterminal `(a, true)` from one rule `a → β`: stop after `k` symbols, or
descend into the prefix of the nonterminal at position `k` -/
def preRules (a : N) (β : List (Sym N)) : List ((N × Bool) × List (Sym (N × Bool))) :=
  (List.range (β.length + 1)).flatMap (fun k =>
    ((a, true), (β.take k).map emb) ::
      (match β[k]? with
       | some (Sym.nt b) => [((a, true), (β.take k).map emb ++ [Sym.nt (b, true)])]
       | _ => []))

def preG (G : Gram N) : Gram (N × Bool) :=
  G.map (fun r => ((r.1, false), r.2.map emb)) ++ G.flatMap (fun r => preRules r.1 r.2)

end Cfg
end LlgVerif
