/-
C05 at the level of bytes — the mechanism model M5 (`Model/Lexer.lean`: the lexer's state vector,
greedy / lazy lexeme ends, skip lexemes, `advance_parser` over the Earley rows of M4) accepts only
byte strings of the grammar's language: the string splits into chunks, every lexeme of the set a chunk
was ended with matches the chunk's bytes (regex language of S2, through the checked DFA
certificates), and the compiled grammar derives the sequence of non-skip sets from its start symbol
(`Ey.Der`, the derivation relation of M4).  M5 is tied to the parser state by state on every run
(`lx run`: scanned lexeme sets, lexer-state lexemes, pending flag, accepting flag, allowed bytes).

The converse is not a theorem of the code: maximal-munch lexing loses strings whose only split
needs a shorter lexeme than the lexer's greedy choice (documented behaviour of llguidance).
-/
import LlgVerif.Proofs.Lexer
import LlgVerif.Props.C05
namespace LlgVerif

/-- **soundness of the byte-level engine**: for every compiled grammar, lexeme table with checked
certificates and byte string — no bound on any of them. -/
theorem c05_bytes_sound (C : Lx.Cfg) (hw : C.wf = true) (hg : C.g.wf = true) (w : List B)
    (h : Lx.accepts C w = true) :
    ∃ cs : List Lx.Chunk, w = Lx.bytesOf cs ∧ (∀ c ∈ cs, ∀ l ∈ c.S, Rx.lang (C.lx l).rx c.w) ∧
      Ey.Der C.g (Lx.nonSkipSets C cs) C.g.start 0 (Lx.nonSkipSets C cs).length := by
  unfold Lx.accepts at h
  split at h
  · rename_i st hrun
    have hi := Lx.run_inv C hw w (Lx.init C) st [] (Lx.init_inv C) hrun
    simp only [List.nil_append] at hi
    unfold Lx.isAccepting at h
    split at h
    · rename_i st' hfl
      obtain ⟨cs, hwd, hcs, hlexs, hrows⟩ := Lx.flush_inv C hw st st' w hi hfl
      refine ⟨cs, hwd, hcs, ?_⟩
      rw [hrows] at h
      have := Ey.accepting_sound C.g (Ey.wf_of_check C.g hg) st'.lexs h
      rw [hlexs] at this
      exact this
    · cases h
  · cases h

/-- **every byte the engine allows keeps the open lexeme inside some lexeme's language**: in every
reachable state, each entry of the lexer state is a lexeme whose regex still has a match extending the
bytes read since the lexeme started (the lexer never walks into a dead lexeme) -/
theorem c05_lexer_state_viable (C : Lx.Cfg) (hw : C.wf = true) (w : List B) (st : Lx.St)
    (hrun : Lx.run C (Lx.init C) w = some st) :
    ∃ u, u <:+ w ∧ ∀ e ∈ st.ls, ∃ v, Rx.lang (C.lx e.1).rx (u ++ v) :=
  Lx.state_viable C hw w st hrun

/-- **valid-prefix property of the byte-level engine** (the lexer half of "no dead ends", C03): in
every reachable state, every entry of the lexer state other than the skip lexeme is viable at both
levels — the bytes read since the lexeme started extend to a match of the lexeme's regex, and the
lexeme sets scanned so far followed by this lexeme extend to a lexeme sequence the compiled grammar
accepts (for grammars whose right-hand-side symbols are productive, `CG.allProductive`, evaluated on
every dump).  So no allowed byte leads the lexer into a lexeme the parser could not use. -/
theorem c05_bytes_prefix_viable (C : Lx.Cfg) (hw : C.wf = true) (hg : C.g.wf = true)
    (hp : C.g.allProductive = true) (w : List B) (st : Lx.St)
    (hrun : Lx.run C (Lx.init C) w = some st) :
    ∃ u, u <:+ w ∧ ∀ e ∈ st.ls, some e.1 ≠ C.skipId →
      (∃ vb, Rx.lang (C.lx e.1).rx (u ++ vb)) ∧ (∃ vs, Ey.Accepts C.g (st.lexs ++ [e.1] :: vs)) := by
  obtain ⟨u, hu, hv, hrows, hal⟩ := Lx.state_summary C hw w st hrun
  refine ⟨u, hu, fun e he hne => ⟨hv e he, ?_⟩⟩
  rcases hal e he with h | h
  · unfold Ey.allowedLexemes at h
    rw [List.mem_filterMap] at h
    obtain ⟨it, hit, hl⟩ := h
    have hlast : Lx.lastRow st.rows = (Ey.runRows C.g st.lexs).getD st.lexs.length [] := by
      unfold Lx.lastRow
      rw [hrows, Ey.runRows_len]
      simp
    rw [hlast] at hit
    exact c05_earley_allowed_lexeme_viable C.g hg hp st.lexs it e.1 hit hl
  · exact absurd h hne

/-! non-vacuity: `start: A B`, `A: /a+/`, `B: "b"` (lexeme 0 is an unused skip lexeme with an empty
regex); `aab` is accepted by the model, `aa` and `ba` are not -/
section Example
def exLexA : Rx := Rx.cat (Rx.set [(97, 97)]) (Rx.star (Rx.set [(97, 97)]))
def exLexB : Rx := Rx.set [(98, 98)]
def exRow (b t e : Nat) : Array Nat := ((List.range 256).map (fun x => if x = b then t else e)).toArray
/-- literal certificates (states, transitions, accepting, live, rank) -/
def exDfaA : Dfa :=
  { states := #[exLexA, Rx.star (Rx.set [(97, 97)]), Rx.empty], trans := #[exRow 97 1 2, exRow 97 1 2, exRow 97 2 2],
    acc := #[false, true, false], live := #[true, true, false], rank := #[1, 0, 0] }
def exDfaB : Dfa :=
  { states := #[exLexB, Rx.eps, Rx.empty], trans := #[exRow 98 1 2, exRow 98 2 2, exRow 98 2 2],
    acc := #[false, true, false], live := #[true, true, false], rank := #[1, 0, 0] }
def exDfaE : Dfa :=
  { states := #[Rx.empty], trans := #[exRow 0 0 0], acc := #[false], live := #[false], rank := #[0] }
def exCfgB : Lx.Cfg :=
  { g := { start := 1
           rhs := #[0, 0, 0, 0, 2, 3, 0, 0]
           lhsOf := #[0, 1]
           syms := #[⟨[], false, none⟩, ⟨[4], false, none⟩, ⟨[], false, some 1⟩, ⟨[], false, some 2⟩] }
    lexemes := #[⟨exDfaE, false, true, false⟩, ⟨exDfaA, false, false, false⟩, ⟨exDfaB, false, false, false⟩]
    skipId := some 0
    initialSkip := true }
example : exCfgB.wf = true ∧ exCfgB.g.wf = true ∧ Lx.accepts exCfgB [97, 97, 98] = true ∧
    Lx.accepts exCfgB [97, 97] = false ∧ Lx.accepts exCfgB [98, 97] = false := by decide +kernel
end Example

end LlgVerif
