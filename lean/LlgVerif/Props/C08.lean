/-
C08 — numeric bound keywords admit exactly the numbers inside the bounds.

Proved here for the integer recursion `rx_int_range` (model M8, tied to the Rust function by string
equality of the printed pattern on every run): for every pair of bounds for which the function
returns a pattern, the language of that pattern is exactly the set of canonical decimal spellings of
the integers inside the bounds (plus the spelling "-0" of zero where the pattern admits it), and the
function does return a pattern whenever the bounds are ordered and below 10^18 in magnitude.
Float ranges and `multipleOf` are decided by the exact-arithmetic correspondence check only
(see DESIGN.md), hence the level `partial`.
-/
import LlgVerif.Proofs.IntRangeMain
import LlgVerif.Proofs.FloatRange
import LlgVerif.Proofs.FloatPos
import LlgVerif.Proofs.FloatHalf
import LlgVerif.Proofs.FloatHalf2
import LlgVerif.Proofs.NumSat
namespace LlgVerif
open Rx

/-- canonical decimal spelling of an integer -/
def decI (z : Int) : List B := if z < 0 then 45 :: dec (-z).toNat else dec z.toNat

theorem lang_minus (rx : Rx) (w : List B) : lang (cat minus rx) w ↔ ∃ v, w = 45 :: v ∧ lang rx v := by
  simp only [lang, minus, inSet, List.any_cons, List.any_nil, Bool.or_false, Bool.and_eq_true,
    decide_eq_true_eq]
  constructor
  · rintro ⟨x, v, hw, ⟨b, hx, h1, h2⟩, hv⟩
    have : b = 45 := by apply UInt8.toNat_inj.mp; simp; omega
    subst this hx
    exact ⟨v, hw, hv⟩
  · rintro ⟨v, hw, hv⟩
    exact ⟨[45], v, hw, ⟨45, rfl, by decide, by decide⟩, hv⟩

theorem lang_alt (a b : Rx) (w : List B) : lang (alt a b) w ↔ lang a w ∨ lang b w := by
  simp [lang]

theorem decI_neg (n : Nat) (hn : 1 ≤ n) (w v : List B) (hw : w = 45 :: v) (hv : v = dec n) :
    w = decI (-(n : Int)) := by
  have h1 : (-(n : Int)) < 0 := by omega
  have h2 : (-(-(n : Int))).toNat = n := by omega
  unfold decI
  rw [if_pos h1, h2, hw, hv]

theorem decI_nonneg (n : Nat) : decI (n : Int) = dec n := by
  have h1 : ¬ ((n : Int) < 0) := by omega
  unfold decI
  rw [if_neg h1]; simp

/-- `rx_int_range(Some(l), None)`, `0 ≤ l`: every number from `l` on, nothing else. -/
theorem nnGe_correct (l : Nat) (p : PR) (h : nnGe l = .ok p) (w : List B) :
    lang p.rx w ↔ ∃ n, l ≤ n ∧ w = dec n := by
  unfold nnGe at h
  split at h
  · cases h
  · split at h
    · cases h
    · rename_i a ha
      injection h with h; subst h
      have hr := nnRange_correct l _ a ha
      have hl := lt_pow_numDigits l
      simp only [lang_altsRx, List.mem_cons, List.not_mem_nil, or_false]
      constructor
      · rintro ⟨q, hq | hq, hw⟩
        · subst hq
          obtain ⟨n, h1, _, h3⟩ := (hr w).mp hw
          exact ⟨n, h1, h3⟩
        · subst hq
          obtain ⟨n, h1, h3⟩ := (lang_bigRx _ w).mp hw
          exact ⟨n, by omega, h3⟩
      · rintro ⟨n, h1, h3⟩
        by_cases c : n ≤ 10 ^ numDigits l - 1
        · exact ⟨_, Or.inl rfl, (hr w).mpr ⟨n, h1, c, h3⟩⟩
        · exact ⟨_, Or.inr rfl, (lang_bigRx _ w).mpr ⟨n, by omega, h3⟩⟩

theorem nnGe_total (l : Nat) (h : numDigits l ≤ 18) : ∃ p, nnGe l = .ok p := by
  unfold nnGe
  have hl := lt_pow_numDigits l
  have hd : numDigits (10 ^ numDigits l - 1) ≤ 18 := by
    by_cases c : numDigits (10 ^ numDigits l - 1) ≤ numDigits l
    · omega
    · exfalso
      have h10 : 10 ^ 1 ≤ 10 ^ numDigits l := Nat.pow_le_pow_right (by omega) (numDigits_pos l)
      have h1 := pow_numDigits_le (10 ^ numDigits l - 1) (by omega)
      have h2 : 10 ^ numDigits l ≤ 10 ^ (numDigits (10 ^ numDigits l - 1) - 1) :=
        Nat.pow_le_pow_right (by omega) (by omega)
      omega
  obtain ⟨a, ha⟩ := nnRange_total l (10 ^ numDigits l - 1) (by omega) hd
  simp [show ¬ numDigits l ≥ 19 by omega, ha]

/-- **C08, both bounds.**  The pattern accepts exactly the canonical spellings of the integers in
`[l, r]`, and the spelling `-0` of zero exactly when `l < 0 ≤ r`. -/
theorem intBoth_correct (l r : Int) (p : PR) (h : intBoth l r = .ok p) (w : List B) :
    lang p.rx w ↔ (∃ z : Int, l ≤ z ∧ z ≤ r ∧ w = decI z) ∨ (l < 0 ∧ 0 ≤ r ∧ w = 45 :: dec 0) := by
  unfold intBoth at h
  split at h
  · cases h
  split at h
  · split at h
    · cases h
    split at h
    · -- both negative
      split at h
      · cases h
      · rename_i hl _ hr a ha
        injection h with h; subst h
        have hrange := nnRange_correct _ _ a ha
        rw [lang_minus]
        constructor
        · rintro ⟨v, hw, hv⟩
          obtain ⟨n, h1, h2, h3⟩ := (hrange v).mp hv
          left
          refine ⟨-(n : Int), by omega, by omega, ?_⟩
          exact decI_neg n (by omega) w v hw h3
        · rintro (⟨z, h1, h2, hw⟩ | ⟨_, h0, _⟩)
          · have hz : z < 0 := by omega
            refine ⟨dec (-z).toNat, by simp [decI, hz] at hw; exact hw, (hrange _).mpr ⟨(-z).toNat, by omega, by omega, rfl⟩⟩
          · omega
    · -- l < 0 ≤ r
      split at h
      · rename_i hl _ hr a b ha hb
        injection h with h; subst h
        have hra := nnRange_correct _ _ a ha
        have hrb := nnRange_correct _ _ b hb
        rw [lang_alt, lang_minus]
        constructor
        · rintro (⟨v, hw, hv⟩ | hv)
          · obtain ⟨n, _, h2, h3⟩ := (hra v).mp hv
            by_cases hn : n = 0
            · right; subst hn; exact ⟨by omega, by omega, by rw [hw, h3]⟩
            · left
              refine ⟨-(n : Int), by omega, by omega, ?_⟩
              exact decI_neg n (by omega) w v hw h3
          · obtain ⟨n, _, h2, h3⟩ := (hrb w).mp hv
            left
            exact ⟨(n : Int), by omega, by omega, by rw [decI_nonneg, h3]⟩
        · rintro (⟨z, h1, h2, hw⟩ | ⟨_, _, hw⟩)
          · by_cases hz : z < 0
            · left
              refine ⟨dec (-z).toNat, by simp [decI, hz] at hw; exact hw, (hra _).mpr ⟨(-z).toNat, by omega, by omega, rfl⟩⟩
            · right
              simp only [decI, hz, ↓reduceIte] at hw
              exact (hrb w).mpr ⟨z.toNat, by omega, by omega, hw⟩
          · left
            exact ⟨dec 0, hw, (hra _).mpr ⟨0, by omega, by omega, rfl⟩⟩
      · cases h
  · -- 0 ≤ l
    rename_i hle hl
    have hrange := nnRange_correct _ _ p h
    constructor
    · intro hw
      obtain ⟨n, h1, h2, h3⟩ := (hrange w).mp hw
      left
      exact ⟨(n : Int), by omega, by omega, by rw [decI_nonneg, h3]⟩
    · rintro (⟨z, h1, h2, hw⟩ | ⟨h0, _, _⟩)
      · have hz : ¬ z < 0 := by omega
        simp only [decI, hz, ↓reduceIte] at hw
        exact (hrange w).mpr ⟨z.toNat, by omega, by omega, hw⟩
      · omega

/-- `rx_int_range(Some(l), None)` -/
theorem intGe_correct (l : Int) (p : PR) (h : intGe l = .ok p) (w : List B) :
    lang p.rx w ↔ ∃ z : Int, l ≤ z ∧ w = decI z := by
  unfold intGe at h
  split at h
  · rename_i hl
    split at h
    · rename_i a b ha hb
      injection h with h; subst h
      have h1 := intBoth_correct l (-1) a ha
      have h2 := nnGe_correct 0 b hb
      simp only [lang_altsRx, List.mem_cons, List.not_mem_nil, or_false]
      constructor
      · rintro ⟨q, hq | hq, hw⟩
        · subst hq
          rcases (h1 w).mp hw with ⟨z, x1, _, x3⟩ | ⟨_, x2, _⟩
          · exact ⟨z, x1, x3⟩
          · omega
        · subst hq
          obtain ⟨n, _, x3⟩ := (h2 w).mp hw
          exact ⟨(n : Int), by omega, by rw [decI_nonneg, x3]⟩
      · rintro ⟨z, x1, x3⟩
        by_cases hz : z < 0
        · exact ⟨_, Or.inl rfl, (h1 w).mpr (Or.inl ⟨z, x1, by omega, x3⟩)⟩
        · refine ⟨_, Or.inr rfl, (h2 w).mpr ⟨z.toNat, by omega, ?_⟩⟩
          simp only [decI, hz, ↓reduceIte] at x3
          exact x3
    · cases h
  · rename_i hl
    have h2 := nnGe_correct _ p h
    constructor
    · intro hw
      obtain ⟨n, x1, x3⟩ := (h2 w).mp hw
      exact ⟨(n : Int), by omega, by rw [decI_nonneg, x3]⟩
    · rintro ⟨z, x1, x3⟩
      have hz : ¬ z < 0 := by omega
      simp only [decI, hz, ↓reduceIte] at x3
      exact (h2 w).mpr ⟨z.toNat, by omega, x3⟩

theorem lang_minus_ge (b : PR) (k : Nat) (hk : 1 ≤ k) (hb : nnGe k = .ok b) (w : List B) :
    lang (cat minus b.rx) w ↔ ∃ z : Int, z ≤ -(k : Int) ∧ w = decI z := by
  rw [lang_minus]
  have h2 := nnGe_correct k b hb
  constructor
  · rintro ⟨v, hw, hv⟩
    obtain ⟨n, x1, x3⟩ := (h2 v).mp hv
    exact ⟨-(n : Int), by omega, decI_neg n (by omega) w v hw x3⟩
  · rintro ⟨z, x1, x3⟩
    have hz : z < 0 := by omega
    simp only [decI, hz, ↓reduceIte] at x3
    exact ⟨_, x3, (h2 _).mpr ⟨(-z).toNat, by omega, rfl⟩⟩

/-- `rx_int_range(None, Some(r))` -/
theorem intLe_correct (r : Int) (p : PR) (h : intLe r = .ok p) (w : List B) :
    lang p.rx w ↔ ∃ z : Int, z ≤ r ∧ w = decI z := by
  unfold intLe at h
  split at h
  · rename_i hr
    split at h
    · rename_i a b ha hb
      injection h with h; subst h
      have h1 := intBoth_correct 0 r a ha
      have h2 := lang_minus_ge b 1 (by omega) hb
      simp only [lang_altsRx, List.mem_cons, List.not_mem_nil, or_false]
      constructor
      · rintro ⟨q, hq | hq, hw⟩
        · subst hq
          rcases (h1 w).mp hw with ⟨z, _, x2, x3⟩ | ⟨x1, _, _⟩
          · exact ⟨z, x2, x3⟩
          · omega
        · subst hq
          obtain ⟨z, x1, x3⟩ := (h2 w).mp hw
          exact ⟨z, by omega, x3⟩
      · rintro ⟨z, x1, x3⟩
        by_cases hz : z < 0
        · exact ⟨_, Or.inr rfl, (h2 w).mpr ⟨z, by omega, x3⟩⟩
        · exact ⟨_, Or.inl rfl, (h1 w).mpr (Or.inl ⟨z, by omega, x1, x3⟩)⟩
    · cases h
  · rename_i hr
    split at h
    · cases h
    · split at h
      · cases h
      · rename_i b hb
        injection h with h; subst h
        have h2 := lang_minus_ge b (-r).toNat (by omega) hb w
        rw [h2]
        constructor
        · rintro ⟨z, x1, x3⟩; exact ⟨z, by omega, x3⟩
        · rintro ⟨z, x1, x3⟩; exact ⟨z, by omega, x3⟩

/-- no bounds: `-?(0|[1-9][0-9]*)` is every canonical spelling, and `-0` -/
theorem intAny_correct (w : List B) :
    lang intAny.rx w ↔ (∃ z : Int, w = decI z) ∨ w = 45 :: dec 0 := by
  have hnat : ∀ v, lang (alt (litRx (dec 0)) (bigRx 0)) v ↔ ∃ n : Nat, v = dec n := by
    intro v
    rw [lang_alt, lang_litRx, lang_bigRx]
    constructor
    · rintro (h | ⟨n, _, h⟩)
      · exact ⟨0, h⟩
      · exact ⟨n, h⟩
    · rintro ⟨n, h⟩
      by_cases hn : n = 0
      · left; rw [h, hn]
      · right; exact ⟨n, by simp; omega, h⟩
  show lang (cat (alt minus eps) (alt (litRx (dec 0)) (bigRx 0))) w ↔ _
  constructor
  · intro hw
    simp only [lang] at hw
    obtain ⟨u, v, hw, hu, hv⟩ := hw
    have hv' := (hnat v).mp (by simp only [lang]; exact hv)
    obtain ⟨n, hn⟩ := hv'
    rcases hu with ⟨b, hu, hb⟩ | hu
    · have : b = 45 := by
        simp only [inSet, List.any_cons, List.any_nil, Bool.or_false, Bool.and_eq_true,
          decide_eq_true_eq] at hb
        apply UInt8.toNat_inj.mp; simp; omega
      subst this hu
      by_cases h0 : n = 0
      · right; rw [hw, hn, h0]; rfl
      · left; exact ⟨-(n : Int), decI_neg n (by omega) w v (by rw [hw]; rfl) hn⟩
    · left; exact ⟨(n : Int), by rw [decI_nonneg, hw, hu, hn]; rfl⟩
  · intro h
    have key : ∀ n : Nat, lang (cat (alt minus eps) (alt (litRx (dec 0)) (bigRx 0))) (45 :: dec n) := by
      intro n
      have := (hnat (dec n)).mpr ⟨n, rfl⟩
      simp only [lang] at this ⊢
      exact ⟨[45], dec n, rfl, Or.inl ⟨45, rfl, by decide⟩, this⟩
    rcases h with ⟨z, hz⟩ | h
    · by_cases hneg : z < 0
      · simp only [decI, hneg, ↓reduceIte] at hz
        rw [hz]; exact key _
      · simp only [decI, hneg, ↓reduceIte] at hz
        have := (hnat w).mpr ⟨z.toNat, hz⟩
        simp only [lang] at this ⊢
        exact ⟨[], w, rfl, Or.inr rfl, this⟩
    · rw [h]; exact key 0

/-- the bounds as the schema states them -/
def InBounds (l r : Option Int) (z : Int) : Prop :=
  (∀ a, l = some a → a ≤ z) ∧ (∀ b, r = some b → z ≤ b)

/-- where the pattern also admits the spelling `-0` of zero -/
def AdmitsNegZero : Option Int → Option Int → Prop
  | some l, some r => l < 0 ∧ 0 ≤ r
  | none, none => True
  | _, _ => False

/-- **C08 (integers).**  Whenever `rx_int_range` returns a pattern, the pattern accepts exactly the
canonical decimal spellings of the integers inside the bounds (and `-0`, whose value is inside the
bounds, in the two shapes where the pattern has a sign branch over zero). -/
theorem rxIntRange_correct (l r : Option Int) (p : PR) (h : rxIntRange l r = .ok p) (w : List B) :
    lang p.rx w ↔ (∃ z : Int, InBounds l r z ∧ w = decI z) ∨ (AdmitsNegZero l r ∧ w = 45 :: dec 0) := by
  cases l with
  | none =>
    cases r with
    | none =>
      injection h with h; subst h
      rw [intAny_correct]
      simp [InBounds, AdmitsNegZero]
    | some r =>
      rw [intLe_correct r p h w]
      simp [InBounds, AdmitsNegZero]
  | some l =>
    cases r with
    | none =>
      rw [intGe_correct l p h w]
      simp [InBounds, AdmitsNegZero]
    | some r =>
      rw [intBoth_correct l r p h w]
      simp [InBounds, AdmitsNegZero, and_assoc]

/-- no value outside the bounds is ever accepted, whatever its spelling: every accepted string
is a spelling of a number inside the bounds (`-0` has value 0, inside whenever admitted) -/
theorem rxIntRange_sound (l r : Option Int) (p : PR) (h : rxIntRange l r = .ok p) (w : List B)
    (hw : lang p.rx w) : ∃ z : Int, InBounds l r z ∧ (w = decI z ∨ (z = 0 ∧ w = 45 :: dec 0)) := by
  rcases (rxIntRange_correct l r p h w).mp hw with ⟨z, hz, hw⟩ | ⟨ha, hw⟩
  · exact ⟨z, hz, Or.inl hw⟩
  · refine ⟨0, ?_, Or.inr ⟨rfl, hw⟩⟩
    cases l <;> cases r <;> simp_all [AdmitsNegZero, InBounds] <;> omega

/-- the function returns a pattern for all ordered bounds of magnitude below 10^18 -/
theorem intBoth_total (l r : Int) (hle : l ≤ r) (hl : -(10 : Int) ^ 18 < l) (hr : r < (10 : Int) ^ 18) :
    ∃ p, intBoth l r = .ok p := by
  have hd : ∀ n : Nat, (n : Int) < (10 : Int) ^ 18 → numDigits n ≤ 18 := by
    intro n hn
    by_cases h0 : n = 0
    · subst h0; rw [numDigits_lt (by omega)]; omega
    · have h1 := pow_numDigits_le n (by omega)
      have hn' : n < 10 ^ 18 := by exact_mod_cast hn
      have : 10 ^ (numDigits n - 1) < 10 ^ 18 := by omega
      have := (Nat.pow_lt_pow_iff_right (by omega : 1 < 10)).mp this
      omega
  unfold intBoth
  have hmin : l ≠ i64Min := by unfold i64Min; omega
  rw [if_neg (by omega)]
  by_cases hl0 : l < 0
  · rw [if_pos hl0, if_neg hmin]
    by_cases hr0 : r < 0
    · rw [if_pos hr0]
      obtain ⟨a, ha⟩ := nnRange_total (-r).toNat (-l).toNat (by omega) (hd _ (by omega))
      rw [ha]; exact ⟨_, rfl⟩
    · rw [if_neg hr0]
      obtain ⟨a, ha⟩ := nnRange_total 0 (-l).toNat (by omega) (hd _ (by omega))
      obtain ⟨b, hb⟩ := nnRange_total 0 r.toNat (by omega) (hd _ (by omega))
      rw [ha, hb]; exact ⟨_, rfl⟩
  · rw [if_neg hl0]
    exact nnRange_total l.toNat r.toNat (by omega) (hd _ (by omega))

/-! non-vacuity: concrete bounds for which the function returns a pattern, and a member -/
example : ∃ p, intBoth (-12) 345 = .ok p := intBoth_total _ _ (by decide) (by decide) (by decide)
example : decI (-12) = [45, 49, 50] := by
  simp [decI, dec, digitB]
example : InBounds (some (-12)) (some 345) 7 := by simp [InBounds]

/-! ### fraction digits of decimal bounds (`lexi_x_to_9`, `lexi_0_to_x`, `lexi_range`)

`fracLE d x` / `fracLT d x` is the order of the fractions `0.d`, `0.x` (theorems
`fracLE_iff_scaled`, `fracLT_iff_scaled`: it is the numeric order of `0.d × 10^n`).  The three
helpers, as repaired, denote exactly the digit strings on the right side of the bound, including
shorter spellings and trailing zeros. -/

/-- **C08 (lower fraction bound).** `lexi_x_to_9(x, incl)` accepts exactly the digit strings `d` with
`0.x ≤ 0.d` (`<` when exclusive), for every trimmed digit string `x`. -/
theorem c08_lexi_x_to_9 (x : List Nat) (incl : Bool) (hx : AllDig x) (hn : NTZ x) :
    DigLang (lexiXTo9 x incl).rx (fun d => if incl then fracLE x d else fracLT x d) :=
  lexiXTo9_lang x incl hx hn

/-- **C08 (upper fraction bound).** `lexi_0_to_x(x, incl)` accepts exactly the non-empty digit strings
`d` with `0.d ≤ 0.x` (`<` when exclusive), and does not fail on a trimmed `x` (non-empty when exclusive). -/
theorem c08_lexi_0_to_x (x : List Nat) (incl : Bool) (hx : AllDig x) (hn : NTZ x)
    (hne : incl = true ∨ x ≠ []) :
    ∃ p, lexi0ToX x incl = .ok p ∧
      DigLang p.rx (fun d => d ≠ [] ∧ (if incl then fracLE d x else fracLT d x)) := by
  obtain ⟨p, hp⟩ := lexi0ToX_total x incl hn hne
  exact ⟨p, hp, lexi0ToX_lang x incl p hp hx hn⟩

/-- **C08 (both fraction bounds, same integer part).** `lexi_range(ld, rd, li, ri)` on different, equally
long digit strings accepts exactly the non-empty `d` with `0.ld ≤ 0.d ≤ 0.rd` (strict where a flag is off). -/
theorem c08_lexi_range (ld rd : List Nat) (li ri : Bool) (p : PR) (h : lexiRange ld rd li ri = .ok p)
    (hne : ld ≠ rd) (hl : AllDig ld) (hr : AllDig rd) :
    DigLang p.rx (fun d => d ≠ [] ∧ LowerB li ld d ∧ UpperB ri d rd) :=
  lexiRange_lang ld rd li ri p h hne hl hr

/-! ### decimal bounds: the assembled pattern of `rx_float_range` -/

/-- **C08 (decimal bounds, `0 ≤ left < right`).**  The pattern accepts exactly the plain decimal
literals `ip` / `ip.fd` (any number of fraction digits) whose value `v` satisfies
`left ≤ v ≤ right` (strict where a flag is off): shorter spellings, trailing zeros and the bare
integer are inside exactly when their value is. -/
theorem c08_float_pos (l r : FB) (li ri : Bool) (p : PR) (h : floatPos l r li ri = .ok p)
    (hl : AllDig l.fd) (hln : NTZ l.fd) (hr : AllDig r.fd) (hrn : NTZ r.fd)
    (hlt : l.ip < r.ip ∨ (l.ip = r.ip ∧ fracLT l.fd r.fd)) :
    LitLang p.rx (fun ip fd => geB li ip fd l.ip l.fd ∧ leB ri ip fd r.ip r.fd) :=
  floatPos_lang l r li ri p h hl hln hr hrn hlt

/-- **C08 (both bounds negative).**  `(-P)` with `P` the pattern of the mirrored positive range: the
accepted strings are `-` followed by a literal whose magnitude lies between `|right|` and `|left|`. -/
theorem c08_float_neg (l r : FB) (li ri : Bool) (p : PR)
    (h : floatPos r.negate l.negate ri li = .ok p)
    (hl : AllDig l.fd) (hln : NTZ l.fd) (hr : AllDig r.fd) (hrn : NTZ r.fd)
    (hlt : r.ip < l.ip ∨ (r.ip = l.ip ∧ fracLT r.fd l.fd)) (w : List B) :
    lang (cat minus p.rx) w ↔ ∃ ip fd, AllDig fd ∧ w = 45 :: (dec ip ++ fracBytes fd) ∧
      geB ri ip fd r.ip r.fd ∧ leB li ip fd l.ip l.fd := by
  rw [lang_minus]
  have := floatPos_lang r.negate l.negate ri li p h hr hrn hl hln hlt
  constructor
  · rintro ⟨v, hw, hv⟩
    obtain ⟨ip, fd, hfd, hvv, hp⟩ := (this v).mp hv
    exact ⟨ip, fd, hfd, by rw [hw, hvv], hp⟩
  · rintro ⟨ip, fd, hfd, hw, hp⟩
    exact ⟨_, hw, (this _).mpr ⟨ip, fd, hfd, rfl, hp⟩⟩

/-- **C08 (left < 0 < right).**  Negative part: `-` and a literal of magnitude in `(0, |left|]`;
non-negative part: a literal with value in `[0, right]`. -/
theorem c08_float_mixed (l r : FB) (li ri : Bool) (np pp : PR)
    (hn : floatPos FB.zero l.negate false li = .ok np) (hp : floatPos FB.zero r true ri = .ok pp)
    (hl : AllDig l.fd) (hln : NTZ l.fd) (hr : AllDig r.fd) (hrn : NTZ r.fd)
    (hl0 : 0 < l.ip ∨ (0 = l.ip ∧ fracLT [] l.fd)) (hr0 : 0 < r.ip ∨ (0 = r.ip ∧ fracLT [] r.fd))
    (w : List B) :
    lang (altsRx [cat minus np.rx, pp.rx]) w ↔
      (∃ ip fd, AllDig fd ∧ w = 45 :: (dec ip ++ fracBytes fd) ∧
        (0 < ip ∨ (0 = ip ∧ fracLT [] fd)) ∧ leB li ip fd l.ip l.fd) ∨
      (∃ ip fd, AllDig fd ∧ w = dec ip ++ fracBytes fd ∧ leB ri ip fd r.ip r.fd) := by
  have h1 := floatPos_lang FB.zero l.negate false li np hn allDig_nil trivial hl hln hl0
  have h2 := floatPos_lang FB.zero r true ri pp hp allDig_nil trivial hr hrn hr0
  simp only [lang_altsRx, List.mem_cons, List.not_mem_nil, or_false]
  constructor
  · rintro ⟨q, hq | hq, hw⟩
    · subst hq
      obtain ⟨v, hwv, hv⟩ := (lang_minus _ _).mp hw
      obtain ⟨ip, fd, hfd, hvv, hge, hle⟩ := (h1 v).mp hv
      left
      refine ⟨ip, fd, hfd, by rw [hwv, hvv], ?_, hle⟩
      simpa [geB, LowerB, FB.zero] using hge
    · subst hq
      obtain ⟨ip, fd, hfd, hvv, _, hle⟩ := (h2 w).mp hw
      exact Or.inr ⟨ip, fd, hfd, hvv, hle⟩
  · rintro (⟨ip, fd, hfd, hw, hpos, hle⟩ | ⟨ip, fd, hfd, hw, hle⟩)
    · refine ⟨_, Or.inl rfl, (lang_minus _ _).mpr ⟨_, hw, (h1 _).mpr ⟨ip, fd, hfd, rfl, ?_, hle⟩⟩⟩
      simpa [geB, LowerB, FB.zero] using hpos
    · refine ⟨_, Or.inr rfl, (h2 w).mpr ⟨ip, fd, hfd, hw, ?_, hle⟩⟩
      simp only [geB, LowerB, FB.zero, ↓reduceIte, fracLE, and_true]
      omega

/-- **C08 (only a lower decimal bound, `left ≥ 0`).** -/
theorem c08_float_ge (l : FB) (li : Bool) (p : PR) (h : floatGe l li = .ok p)
    (hneg : l.neg = false) (hl : AllDig l.fd) (hln : NTZ l.fd) :
    LitLang p.rx (fun ip fd => geB li ip fd l.ip l.fd) :=
  floatGe_nonneg_lang l li p h hneg hl hln

/-- **C08 (only an upper decimal bound, `right > 0`).** -/
theorem c08_float_le (r : FB) (ri : Bool) (p : PR) (h : floatLe r ri = .ok p)
    (hneg : r.neg = false) (hr0 : 0 < r.ip ∨ (0 = r.ip ∧ fracLT [] r.fd))
    (hr : AllDig r.fd) (hrn : NTZ r.fd) (w : List B) :
    lang p.rx w ↔
      (∃ ip fd, AllDig fd ∧ w = 45 :: (dec ip ++ fracBytes fd) ∧ (0 < ip ∨ (0 = ip ∧ fracLT [] fd))) ∨
      (∃ ip fd, AllDig fd ∧ w = dec ip ++ fracBytes fd ∧ leB ri ip fd r.ip r.fd) :=
  floatLe_pos_lang r ri p h hneg hr0 hr hrn w

/-- **C08 (only a lower decimal bound, `left < 0`).**  `-` and a literal of positive magnitude `≤ |left|`
(`<` when exclusive), or any non-negative literal. -/
theorem c08_float_ge_neg (l : FB) (li : Bool) (p : PR) (h : floatGe l li = .ok p)
    (hneg : l.neg = true) (hz : l.isZero = false) (hl : AllDig l.fd) (hln : NTZ l.fd)
    (hl0 : 0 < l.ip ∨ (0 = l.ip ∧ fracLT [] l.fd)) (w : List B) :
    lang p.rx w ↔
      (∃ ip fd, AllDig fd ∧ w = 45 :: (dec ip ++ fracBytes fd) ∧
        (0 < ip ∨ (0 = ip ∧ fracLT [] fd)) ∧ leB li ip fd l.ip l.fd) ∨
      (∃ ip fd, AllDig fd ∧ w = dec ip ++ fracBytes fd) :=
  floatGe_neg_lang l li p h hneg hz hl hln hl0 w

/-- **C08 (only an upper decimal bound, `right < 0`).**  `-` and a literal of magnitude `≥ |right|`. -/
theorem c08_float_le_neg (r : FB) (ri : Bool) (p : PR) (h : floatLe r ri = .ok p)
    (hneg : r.neg = true) (hz : r.isZero = false) (hr : AllDig r.fd) (hrn : NTZ r.fd) (w : List B) :
    lang p.rx w ↔ ∃ ip fd, AllDig fd ∧ w = 45 :: (dec ip ++ fracBytes fd) ∧ geB ri ip fd r.ip r.fd :=
  floatLe_neg_lang r ri p h hneg hz hr hrn w

/-- **C08 (only an upper decimal bound, `right = 0`).**  The negative literals of positive magnitude and,
for an inclusive bound, every spelling of zero (`0`, `0.0`, `0.00`, ...). -/
theorem c08_float_le_zero (r : FB) (ri : Bool) (p : PR) (h : floatLe r ri = .ok p)
    (hz : r.isZero = true) (w : List B) :
    lang p.rx w ↔
      (∃ ip fd, AllDig fd ∧ w = 45 :: (dec ip ++ fracBytes fd) ∧ (0 < ip ∨ (0 = ip ∧ fracLT [] fd))) ∨
      (ri = true ∧ ∃ fd, (fd = [] ∨ (fd ≠ [] ∧ AllZero fd)) ∧ w = dec 0 ++ fracBytes fd) :=
  floatLe_zero_lang r ri p h hz w

/-- **C08 (empty combinations).**  With bounds and `multipleOf` brought to a common decimal scale
(for integers the step is `lcm(multipleOf, 1)`), `hasMult` says "not empty" exactly when some
multiple of the step satisfies both bounds — the question `check_number_bounds` answers before a
number schema is compiled. -/
theorem c08_emptiness (lo : Int) (lex : Bool) (hi : Int) (hex : Bool) (step : Int) (hs : 0 < step) :
    hasMult lo lex hi hex step = true ↔
      ∃ z, step ∣ z ∧ (lo < z ∨ (lo = z ∧ lex = false)) ∧ (z < hi ∨ (z = hi ∧ hex = false)) :=
  hasMult_iff lo lex hi hex step hs

/-! non-vacuity: `maximum 0.15` (digits [1,5], inclusive): `0.1`, `0.15`, `0.150`, `0.09` are inside, `0.2` is not -/
example : fracLE [1] [1, 5] ∧ fracLE [1, 5, 0] [1, 5] ∧ fracLE [0, 9] [1, 5] ∧ ¬ fracLE [2] [1, 5] := by
  simp [fracLE]
example : NTZ [1, 5] ∧ AllDig [1, 5] := by
  refine ⟨by simp [NTZ], ?_⟩
  intro a ha; simp at ha; omega

end LlgVerif
