/-
C20 — arbitrary input never crashes, corrupts or hangs the engine: the part a model can carry.
Fixed-width arithmetic of `multipleOf` (defect F4), and pointers to the totality results of the
other models (every loop of every model is a total Lean function whose termination argument is
the code's).  Stack depth, allocation, wall-clock time and panics inside external crates cannot
be exhibited by a model: decided by the child-process runs only.
-/
import LlgVerif.Model.Numeric
import LlgVerif.Props.C12
import LlgVerif.Props.C16
namespace LlgVerif

theorem stripZeros_value (f c e E : Nat) (hE : e ≤ E) :
    (stripZeros f c e).2 ≤ e ∧
    (stripZeros f c e).1 * 10 ^ (E - (stripZeros f c e).2) = c * 10 ^ (E - e) ∧
    (stripZeros f c e).1 ≤ c := by
  induction f generalizing c e with
  | zero => simp [stripZeros]
  | succ f ih =>
    simp only [stripZeros]
    split
    · rename_i h
      obtain ⟨h1, h2, h3⟩ := ih (c / 10) (e - 1) (by omega)
      refine ⟨by omega, ?_, by have := Nat.div_le_self c 10; omega⟩
      rw [h2]
      have hc : c = c / 10 * 10 := by
        have := Nat.div_add_mod c 10
        omega
      have he : E - (e - 1) = (E - e) + 1 := by omega
      rw [he, Nat.pow_succ]
      have : c / 10 * (10 ^ (E - e) * 10) = (c / 10 * 10) * 10 ^ (E - e) := by
        rw [Nat.mul_comm (10 ^ (E - e)) 10, ← Nat.mul_assoc]
      rw [this, ← hc]
    · exact ⟨Nat.le_refl _, rfl, Nat.le_refl _⟩

theorem div_gcd_mul (a b : Nat) : a / Nat.gcd a b * b = Nat.lcm a b := by
  unfold Nat.lcm
  rw [Nat.mul_comm (a / Nat.gcd a b) b, ← Nat.mul_div_assoc b (Nat.gcd_dvd_left a b), Nat.mul_comm]

/-- **lcm_no_overflow_or_error** — the checked least common multiple either reports an error or
returns, without any intermediate exceeding `u32`, a decimal whose value is exactly the least
common multiple of the two `multipleOf` values (scaled to the common exponent `E`). -/
theorem lcm_no_overflow_or_error (x y d : Dec) (hx : x.coef ≠ 0) (hy : y.coef ≠ 0)
    (h : x.checkedLcm y = some d) :
    let E := max x.exp y.exp
    let a := x.coef * 10 ^ (E - x.exp)
    let b := y.coef * 10 ^ (E - y.exp)
    a ≤ u32Max ∧ b ≤ u32Max ∧ Nat.lcm a b ≤ u32Max ∧
    d.exp ≤ E ∧ d.coef * 10 ^ (E - d.exp) = Nat.lcm a b ∧ d.coef ≤ u32Max := by
  unfold Dec.checkedLcm at h
  have hne : ¬ (x.coef = 0 ∨ y.coef = 0) := by simp [hx, hy]
  simp only [hne, ↓reduceIte, checkedPow10, checkedMul] at h
  have e1 : max x.exp y.exp - x.exp = y.exp - x.exp := by omega
  have e2 : max x.exp y.exp - y.exp = x.exp - y.exp := by omega
  simp only [e1, e2]
  by_cases hp1 : 10 ^ (y.exp - x.exp) ≤ u32Max
  · simp only [hp1, ↓reduceIte, Option.bind_eq_bind, Option.bind_some] at h
    by_cases hm1 : x.coef * 10 ^ (y.exp - x.exp) ≤ u32Max
    · simp only [hm1, ↓reduceIte, Option.bind_some] at h
      by_cases hp2 : 10 ^ (x.exp - y.exp) ≤ u32Max
      · simp only [hp2, ↓reduceIte, Option.bind_some] at h
        by_cases hm2 : y.coef * 10 ^ (x.exp - y.exp) ≤ u32Max
        · simp only [hm2, ↓reduceIte, Option.bind_some] at h
          rw [div_gcd_mul] at h
          by_cases hm3 : Nat.lcm (x.coef * 10 ^ (y.exp - x.exp)) (y.coef * 10 ^ (x.exp - y.exp)) ≤ u32Max
          · simp only [hm3, ↓reduceIte, Option.bind_some, Option.pure_def, Option.some.injEq] at h
            subst h
            have hlpos : Nat.lcm (x.coef * 10 ^ (y.exp - x.exp)) (y.coef * 10 ^ (x.exp - y.exp)) ≠ 0 := by
              apply Nat.lcm_ne_zero
              · exact Nat.mul_ne_zero hx (Nat.pos_iff_ne_zero.mp (Nat.pow_pos (by decide)))
              · exact Nat.mul_ne_zero hy (Nat.pos_iff_ne_zero.mp (Nat.pow_pos (by decide)))
            simp only [Dec.new, hlpos, ↓reduceIte]
            obtain ⟨s1, s2, s3⟩ := stripZeros_value (max x.exp y.exp) _ (max x.exp y.exp) (max x.exp y.exp) (Nat.le_refl _)
            refine ⟨hm1, hm2, hm3, s1, ?_, by omega⟩
            rw [s2]; simp
          · simp [hm3] at h
        · simp [hm2] at h
      · simp [hp2] at h
    · simp [hm1] at h
  · simp [hp1] at h

/-- **Refutation of the pinned code (F4)**: `multipleOf 1e-10` and `multipleOf 3`: the checked
version reports an error, the wrapping (release) version returned a wrong multipleOf. -/
example :
    ({ coef := 1, exp := 10 } : Dec).checkedLcm { coef := 3, exp := 0 } = none ∧
    ({ coef := 1, exp := 10 } : Dec).wrappingLcm { coef := 3, exp := 0 } ≠ { coef := 3, exp := 0 } := by
  decide

/-- Non-vacuity: `multipleOf 0.25` and `multipleOf 0.1` combine to `0.5`. -/
example : ({ coef := 25, exp := 2 } : Dec).checkedLcm { coef := 1, exp := 1 } = some { coef := 5, exp := 1 } := by
  decide

/-- the byte count rollback uses equals the bytes commit applied, for every token id (no
arithmetic surprise for large ids): re-export of `tokenLen_eq_decodeRaw_length` -/
theorem token_len_total (v : Vocab) (t : Nat) : v.tokenLen t = (v.decodeRaw t).length :=
  tokenLen_eq_decodeRaw_length v t

/-- the trie walk terminates on every serialised trie because every subtree size is positive:
re-export of `flat_wf` -/
theorem walk_progress (t : Tree) (np : Nat) :
    ∃ h : 0 < (ser t np).length, ((ser t np)[0]'h).subtreeSize = (ser t np).length := flat_wf t np

end LlgVerif
