/-
C10 — the slicing optimisation never changes a mask (M7 `Model/Slicer.lean`).
-/
import LlgVerif.Proofs.Slicer
import LlgVerif.Proofs.Contain
import LlgVerif.Proofs.LexerSlice
namespace LlgVerif
open Slice

/-- **slice_sound** — for every slice tree whose children's token sets are contained in their
parent's, every outcome of the containment tests, and every recogniser state (`allowed`): if each
*matched* slice holds only allowed tokens, the sliced computation yields exactly the tokens the
plain walk over the whole vocabulary yields. -/
theorem slice_sound (mtch allowed : Nat → Bool) (top : Slice) (subsumePossible : Bool)
    (hwf : WFS top) (hs : Sound mtch allowed top) (t : Nat) :
    t ∈ computeBias mtch allowed top subsumePossible ↔ t ∈ walk allowed top.mask [] := by
  unfold computeBias
  split
  · simp only
    have h := apply_spec mtch allowed top [] hwf hs t
    split
    · rename_i hr
      rw [h, hr]
      simp [mem_walk]
    · rfl
  · rfl

/-- **apply_covers** — what `apply` adds for one slice (any accumulator): nothing if it reports
"not applied", otherwise exactly the allowed tokens of the slice. -/
theorem apply_covers (mtch allowed : Nat → Bool) (s : Slice) (acc : List Nat)
    (hwf : WFS s) (hs : Sound mtch allowed s) (t : Nat) :
    t ∈ (apply mtch allowed s acc).2 ↔
      t ∈ acc ∨ ((apply mtch allowed s acc).1 = true ∧ t ∈ s.mask ∧ allowed t = true) :=
  apply_spec mtch allowed s acc hwf hs t

/-- **containment decided on certificates** — what the slicer asks of the lexer (`check_subsume`,
derivre's `is_contained_in_prefixes`): a pair set accepted by `Dfa.containCheck` for the checked
certificates of the slice regex and of a lexeme, started at the lexeme's state after the bytes `u`,
proves that every string of the slice regex continues `u` to a prefix of a match of the lexeme.  On
every run each "contained" answer of the implementation is re-decided this way (`lx contain`). -/
theorem c10_containment_decided (rs rb : Rx) (ds db : Dfa) (hs : Dfa.check rs ds = true)
    (hb : Dfa.check rb db = true) (u : List B) (pairs : List (Nat × Nat))
    (h : Dfa.containCheck ds db (Dfa.run db 0 u) pairs = true) (w : List B) (hw : Rx.lang rs w) :
    ∃ v, Rx.lang rb (u ++ w ++ v) :=
  Dfa.contain_sound rs rb ds db hs hb u pairs h w hw

/-- **from containment to the slicer's hypothesis, through the byte-level engine M5**: in a reachable
state of M5 whose lexer state holds no lazy lexeme (`subsume_possible`), if the slice regex is contained
in the prefixes of what one entry can still match (a checked containment certificate from the entry's
state), then every non-empty string of the slice regex is accepted byte by byte from this state — so every
token of a matched slice is one the plain walk allows, which is the hypothesis `Sound` of `slice_sound`.
(`hskip`: the configuration's skip lexeme carries the skip flag — true of every dumped lexeme table.) -/
theorem c10_matched_slice_tokens_accepted (C : Lx.Cfg) (hw : C.wf = true)
    (hskip : ∀ k, C.skipId = some k → (C.lx k).skip = true) (w0 : List B) (st : Lx.St)
    (hrun : Lx.run C (Lx.init C) w0 = some st) (hnl : Lx.NoLazy C st.ls)
    (rs : Rx) (ds : Dfa) (hs : Dfa.check rs ds = true) (l q : Nat) (hmem : (l, q) ∈ st.ls)
    (pairs : List (Nat × Nat)) (hc : Dfa.containCheck ds (C.lx l).dfa q pairs = true)
    (w : List B) (hne : w ≠ []) (hlang : Rx.lang rs w) : (Lx.run C st w).isSome = true :=
  Lx.slice_tokens_accepted C hw hskip w0 st hrun hnl rs ds hs l q hmem pairs hc w hne hlang

/-- Non-vacuity: two overlapping child slices under a wildcard top slice; child 0 matched and
sound, child 1 not matched: the hypotheses hold and token 5 (in no child) is reported, 3 is not. -/
example :
    let top := Slice.node 2 [0, 1, 2, 3, 4, 5] [Slice.node 0 [1, 2] [], Slice.node 1 [2, 3] []]
    let allowed : Nat → Bool := fun t => t == 1 || t == 2 || t == 5
    let mtch : Nat → Bool := fun i => i == 0
    5 ∈ computeBias mtch allowed top true ∧ 3 ∉ computeBias mtch allowed top true := by
  intro top allowed mtch
  have hwf : WFS top := by
    refine WFS.mk _ _ _ ?_ ?_
    · intro c hc t ht
      simp at hc
      rcases hc with rfl | rfl <;> simp [Slice.mask] at ht <;> rcases ht with rfl | rfl <;> simp
    · intro c hc
      simp at hc
      rcases hc with rfl | rfl <;> exact WFS.mk _ _ _ (by simp) (by simp)
  have hs : Sound mtch allowed top := by
    refine Sound.mk _ _ _ (by simp [mtch]) ?_
    intro c hc
    simp at hc
    rcases hc with rfl | rfl
    · refine Sound.mk _ _ _ ?_ (by simp)
      intro _ t ht
      simp at ht
      rcases ht with rfl | rfl <;> simp [allowed]
    · exact Sound.mk _ _ _ (by simp [mtch]) (by simp)
  constructor
  · rw [slice_sound mtch allowed top true hwf hs]
    simp [mem_walk, Slice.mask, top, allowed]
  · rw [slice_sound mtch allowed top true hwf hs]
    simp [mem_walk, Slice.mask, top, allowed]

end LlgVerif
