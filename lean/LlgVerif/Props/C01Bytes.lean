/-
C01 + C05 end to end on the mechanism models: the token-level engine (M6: trie walk, commit, EOS)
instantiated with the byte-level engine M5 (lexer + Earley rows) as its recogniser.  This is the
engine the driver runs for `elx` requests, whose masks are compared with the implementation's on
every run over multi-byte vocabularies.

`c01_m5_mask_eq_commit`: its mask is exactly the set of committable tokens (instance of
`mask_eq_commit`, no hypothesis about the recogniser left open).
`c01_m5_generation_sound`: whatever sequence of tokens is committed from the initial state, if EOS
is then in the mask, the concatenated bytes of the tokens are a string of the grammar's language
(chunks matching the regexes of their lexeme sets, set sequence derived by the compiled grammar) —
for every grammar, lexeme table, vocabulary and token sequence.
-/
import LlgVerif.Props.C01
import LlgVerif.Props.C05Bytes
namespace LlgVerif
open EngCfg

/-- the token-level engine over M5 -/
def m5Engine (C : Lx.Cfg) (words : List (List Byte)) (eos : Nat) : EngCfg Lx.St :=
  { recog := { step := fun s b => Lx.push C s b }, accepting := fun s => Lx.isAccepting C s, words := words, eos := eos }

def m5Init (C : Lx.Cfg) : EngState Lx.St := { st := Lx.init C, tokens := [], stopped := false }

theorem c01_m5_mask_eq_commit (C : Lx.Cfg) (words : List (List Byte)) (eos : Nat) (s : EngState Lx.St)
    (hs : s.stopped = false) (t : Nat) (ht : t ≠ eos) :
    t ∈ (m5Engine C words eos).mask s ↔ ((m5Engine C words eos).commit s t).isSome :=
  mask_eq_commit (m5Engine C words eos) s hs t ht

theorem runBytes_eq_run (C : Lx.Cfg) (words : List (List Byte)) (eos : Nat) (s : Lx.St) (bs : List Byte) :
    runBytes (m5Engine C words eos).recog s bs = Lx.run C s bs := by
  induction bs generalizing s with
  | nil => rfl
  | cons b bs ih =>
    simp only [runBytes, Lx.run, m5Engine]
    cases Lx.push C s b with
    | none => rfl
    | some s' => exact ih s'

theorem run_append (C : Lx.Cfg) (s : Lx.St) (u v : List B) :
    Lx.run C s (u ++ v) = (Lx.run C s u).bind (fun s' => Lx.run C s' v) := by
  induction u generalizing s with
  | nil => rfl
  | cons b u ih =>
    simp only [List.cons_append, Lx.run]
    cases Lx.push C s b with
    | none => rfl
    | some s' => exact ih s'

/-- committing non-EOS tokens runs their bytes through M5 -/
theorem commits_run (C : Lx.Cfg) (words : List (List Byte)) (eos : Nat) (ts : List Nat) :
    ∀ (s s' : EngState Lx.St), (∀ t ∈ ts, t ≠ eos) →
      ts.foldlM (fun st t => (m5Engine C words eos).commit st t) s = some s' →
      Lx.run C s.st (ts.flatMap (fun t => (m5Engine C words eos).tokBytes t)) = some s'.st := by
  induction ts with
  | nil => intro s s' _ h; simp only [List.foldlM_nil, Option.pure_def, Option.some.injEq] at h; subst h; rfl
  | cons t ts ih =>
    intro s s' hne h
    simp only [List.foldlM_cons, Option.bind_eq_bind] at h
    cases hc : (m5Engine C words eos).commit s t with
    | none => rw [hc] at h; cases h
    | some s1 =>
      rw [hc] at h
      simp only [Option.bind_some] at h
      have ht : t ≠ eos := hne t (by simp)
      have hrun1 : Lx.run C s.st ((m5Engine C words eos).tokBytes t) = some s1.st := by
        unfold commit at hc
        split at hc
        · cases hc
        · have hte : ¬ t = (m5Engine C words eos).eos := ht
          simp only [hte, ↓reduceIte] at hc
          split at hc
          · cases hc
          · rename_i b bs hb
            rw [hb, ← runBytes_eq_run C words eos]
            cases hr : runBytes (m5Engine C words eos).recog s.st (b :: bs) with
            | none => rw [hr] at hc; cases hc
            | some st' => rw [hr] at hc; simp only [Option.some.injEq] at hc; subst hc; rfl
      have := ih s1 s' (fun x hx => hne x (by simp [hx])) h
      simp only [List.flatMap_cons]
      rw [run_append, hrun1]
      exact this

/-- **end-to-end soundness of generation under the masks of the model engine** -/
theorem c01_m5_generation_sound (C : Lx.Cfg) (hw : C.wf = true) (hg : C.g.wf = true)
    (words : List (List Byte)) (eos : Nat) (ts : List Nat) (s' : EngState Lx.St)
    (hne : ∀ t ∈ ts, t ≠ eos)
    (hrun : ts.foldlM (fun st t => (m5Engine C words eos).commit st t) (m5Init C) = some s')
    (hspecial : ∀ w, words[eos]? = some w → w = [] ∨ (runBytes (m5Engine C words eos).recog s'.st w).isNone)
    (heos : eos ∈ (m5Engine C words eos).mask s') :
    ∃ cs : List Lx.Chunk, ts.flatMap (fun t => (m5Engine C words eos).tokBytes t) = Lx.bytesOf cs ∧
      (∀ c ∈ cs, ∀ l ∈ c.S, Rx.lang (C.lx l).rx c.w) ∧
      Ey.Der C.g (Lx.nonSkipSets C cs) C.g.start 0 (Lx.nonSkipSets C cs).length := by
  have hacc : Lx.isAccepting C s'.st = true :=
    (eos_iff_accepting (m5Engine C words eos) s' hspecial).mp heos
  have hr := commits_run C words eos ts (m5Init C) s' hne hrun
  apply c05_bytes_sound C hw hg
  unfold Lx.accepts
  have : Lx.run C (Lx.init C) (ts.flatMap (fun t => (m5Engine C words eos).tokBytes t)) = some s'.st := hr
  rw [this]
  exact hacc

/-! non-vacuity: the example configuration of `C05Bytes` (`A: /a+/`, `B: "b"`), vocabulary `a`, `ab`,
`b`, special EOS: committing `a`, `ab` reaches a state whose mask holds EOS -/
example :
    let c := m5Engine exCfgB [[97], [97, 98], [98], [0xFF, 60]] 3
    (([0, 1] : List Nat).foldlM (fun st t => c.commit st t) (m5Init exCfgB)).isSome = true ∧
    ((([0, 1] : List Nat).foldlM (fun st t => c.commit st t) (m5Init exCfgB)).map (fun s => decide (3 ∈ c.mask s))) = some true := by
  decide +kernel

end LlgVerif
