/-
C17 — the C API stays inside caller buffers (model M13, `ffi_par.rs:54-91`, `ffi.rs:1671-1696`).
Property theorems only; followed by non-vacuity examples and the refutation of the pinned code.
-/
import LlgVerif.Model.Ffi
namespace LlgVerif
open Svob

theorem bitOf_orBitAt (d : List Word) (i t : Nat) (hi : i / 32 < d.length) :
    bitOf (orBitAt d i) t = (bitOf d t || decide (t = i)) := by
  unfold bitOf orBitAt
  rw [List.getElem?_set]
  by_cases h : i / 32 = t / 32
  · simp only [h, ↓reduceIte]
    have : t / 32 < d.length := h ▸ hi
    simp only [this, ↓reduceIte, Option.getD_some, BitVec.getLsbD_or, BitVec.getLsbD_shiftLeft,
      BitVec.getLsbD_one]
    have h1 : t % 32 < 32 := Nat.mod_lt _ (by decide)
    have h2 : i % 32 < 32 := Nat.mod_lt _ (by decide)
    by_cases hti : t = i
    · subst hti; simp [h1]
    · have : t % 32 ≠ i % 32 := by omega
      have h3 : ¬ (t % 32 - i % 32 = 0 ∧ ¬ t % 32 < i % 32) := by omega
      simp only [hti, decide_false, Bool.or_false]
      by_cases h4 : t % 32 < i % 32
      · simp [h4]
      · have : t % 32 - i % 32 ≠ 0 := by omega
        simp [this]
  · have : t ≠ i := by intro h'; subst h'; exact h rfl
    simp [h, this]

theorem bitOf_append_replicate (a : List Word) (k t : Nat) :
    bitOf (a ++ List.replicate k 0) t = bitOf a t := by
  unfold bitOf
  by_cases h : t / 32 < a.length
  · rw [List.getElem?_append_left h]
  · have h' : a.length ≤ t / 32 := Nat.le_of_not_lt h
    rw [List.getElem?_append_right h', List.getElem?_replicate]
    have : a[t / 32]? = none := List.getElem?_eq_none_iff.mpr h'
    rw [this]
    split <;> simp

theorem bitOf_take (a : List Word) (n t : Nat) :
    bitOf (a.take n) t = (decide (t / 32 < n) && bitOf a t) := by
  unfold bitOf
  rw [List.getElem?_take]
  by_cases h : t / 32 < n <;> simp [h]

/-- **C17 (copy arithmetic), every destination length.**  For a mask `m` that holds no bit at or
above `vocab` (this is `no_id_ge_vocab`, C16) and an EOS id below `vocab`:
the copy reads only words of the engine's mask, writes exactly `d` words, sets only bits of real
token ids, reproduces the mask on the common prefix, and zero-fills the rest. -/
theorem parCopy_in_bounds (m : Svob) (vocab d eos : Nat) (addEos : Bool)
    (hnb : m.NoBitGe vocab) (heos : eos < vocab) :
    let r := parCopy (some m) d addEos eos
    r.wordsRead ≤ m.data.length ∧ r.wordsRead ≤ d ∧ r.dest.length = d ∧
    (∀ t, vocab ≤ t → bitOf r.dest t = false) ∧
    (∀ t, t ≠ eos ∨ addEos = false →
        bitOf r.dest t = (decide (t / 32 < min m.data.length d) && m.get t)) ∧
    (addEos = true → eos / 32 < d → bitOf r.dest eos = true) := by
  intro r
  have hlen0 : (m.data.take (min m.data.length d) ++
      List.replicate (d - min m.data.length d) (0 : Word)).length = d := by
    simp only [List.length_append, List.length_take, List.length_replicate]; omega
  have hbase : ∀ t, bitOf (m.data.take (min m.data.length d) ++
      List.replicate (d - min m.data.length d) (0 : Word)) t =
      (decide (t / 32 < min m.data.length d) && m.get t) := by
    intro t
    rw [bitOf_append_replicate, bitOf_take]; rfl
  refine ⟨Nat.min_le_left _ _, Nat.min_le_right _ _, ?_, ?_, ?_, ?_⟩
  · show r.dest.length = d
    simp only [r, parCopy]
    split
    · simp only [orBitAt, List.length_set]; exact hlen0
    · exact hlen0
  · intro t ht
    simp only [r, parCopy]
    split
    · rename_i hc
      rw [bitOf_orBitAt _ _ _ (by rw [hlen0]; exact hc.2), hbase, hnb t ht]
      have : t ≠ eos := by omega
      simp [this]
    · rw [hbase, hnb t ht]; simp
  · intro t ht
    simp only [r, parCopy]
    split
    · rename_i hc
      rw [bitOf_orBitAt _ _ _ (by rw [hlen0]; exact hc.2), hbase]
      rcases ht with ht | ht
      · simp [ht]
      · simp [ht] at hc
    · exact hbase t
  · intro ha he
    simp only [r, parCopy]
    rw [if_pos ⟨ha, he⟩, bitOf_orBitAt _ _ _ (by rw [hlen0]; exact he)]
    simp

/-- No engine mask (`sample_mask = None`): the destination is all zero except a possible EOS bit. -/
theorem parCopy_none (d eos : Nat) (addEos : Bool) :
    let r := parCopy none d addEos eos
    r.wordsRead = 0 ∧ r.dest.length = d ∧
    (∀ t, t ≠ eos ∨ addEos = false → bitOf r.dest t = false) := by
  intro r
  have hb : ∀ t, bitOf (([] : List Word) ++ List.replicate (d - 0) 0) t = false := by
    intro t; rw [bitOf_append_replicate]; simp [bitOf]
  refine ⟨rfl, ?_, ?_⟩
  · simp only [r, parCopy]; split <;> simp [orBitAt]
  · intro t ht
    simp only [r, parCopy]
    split
    · rename_i hc
      rw [bitOf_orBitAt _ _ _ (by simpa using hc.2), hb]
      rcases ht with ht | ht
      · simp [ht]
      · simp [ht] at hc
    · exact hb t

/-- `llg_matcher_compute_mask_into`: succeeds exactly when the caller's byte length is the
advertised mask size; then it reads `n ≤ storage` words and writes exactly `byteLen / 4` words,
which are the first `ceil(vocab/32)` words of the mask; otherwise nothing is written. -/
theorem computeMaskInto_exact_size (m : Svob) (vocab byteLen : Nat)
    (hst : (vocab + 31) / 32 ≤ m.data.length) :
    (∀ d, computeMaskInto? m vocab byteLen = some d →
        byteLen = 4 * ((vocab + 31) / 32) ∧ d.length * 4 = byteLen ∧ d.length ≤ m.data.length ∧
        ∀ t, bitOf d t = (decide (t / 32 < (vocab + 31) / 32) && m.get t)) ∧
    (byteLen ≠ 4 * ((vocab + 31) / 32) → computeMaskInto? m vocab byteLen = none) ∧
    (byteLen = 4 * ((vocab + 31) / 32) → (computeMaskInto? m vocab byteLen).isSome) := by
  simp only [computeMaskInto?]
  refine ⟨?_, ?_, ?_⟩
  · intro d h
    split at h
    · rename_i hc
      injection h with h
      subst h
      refine ⟨hc.2, ?_, ?_, ?_⟩
      · simp only [List.length_take]; omega
      · simp only [List.length_take]; omega
      · intro t; rw [bitOf_take]; rfl
    · simp at h
  · intro h; simp [h]
  · intro h; simp [h, hst]

/-- Non-vacuity: a concrete mask of 33 bits over two words meets the hypotheses. -/
example : ({ data := [0x80000001#32, 0x1#32], size := 33 } : Svob).NoBitGe 33 := by
  intro i hi
  unfold Svob.get Svob.wordAt
  by_cases h1 : i / 32 = 1
  · have : i % 32 ≠ 0 := by omega
    simp [h1, BitVec.getLsbD_one, this]
  · by_cases h0 : i / 32 = 0
    · omega
    · have : 2 ≤ i / 32 := by omega
      have : ([0x80000001#32, 0x1#32] : List Word)[i / 32]? = none := by
        apply List.getElem?_eq_none_iff.mpr; simpa using this
      simp [this]

/-- Refutation of the pinned code (defect F2): vocab 1000 → mask of 1001 bits in 32 words; a
destination of 33 words makes the copy read a 33rd word that does not exist. -/
example : parCopyBits (some (Svob.alloc 1001)) 33 false 0 = none := by decide

example : (parCopy (some (Svob.alloc 1001)) 33 false 0).wordsRead = 32 := by decide

end LlgVerif
