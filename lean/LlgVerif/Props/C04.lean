/-
C04 — a regular-expression constraint admits exactly the regex's language (spec S2).

The theorems state that the Lean deciders used to judge the implementation are exact:
`matchesB` (derivatives) decides membership for every regex and byte string, and a DFA certificate
accepted by `Dfa.check` decides membership *and* viability ("is a prefix of some member") for
every byte string.  The implementation is judged against them on every run (impl-vs-spec).
-/
import LlgVerif.Proofs.RegexDfa
import LlgVerif.Proofs.RegexRep
namespace LlgVerif
open Rx

/-- **matches_iff_lang** (all constructors incl. intersection, complement, star). -/
theorem matches_iff_lang (r : Rx) (w : List B) : matchesB r w = true ↔ lang r w :=
  matchesB_iff_lang r w

/-- **viable_decided** — complete acceptance and prefix viability are decided by any certificate
the checker accepts (the construction of the certificate is untrusted). -/
theorem viable_decided (r : Rx) (d : Dfa) (h : Dfa.check r d = true) (w : List B) :
    (Dfa.accepts d w = true ↔ lang r w) ∧ (Dfa.viable d w = true ↔ ∃ v, lang r (w ++ v)) :=
  Dfa.dfa_decides r d h w

/-- **token_allowed_spec** — for a token with bytes `t` after text `w`: the spec's answer
"`w ++ t` is viable" is exactly "some completion of `w ++ t` matches". -/
theorem token_allowed_spec (r : Rx) (d : Dfa) (h : Dfa.check r d = true) (w t : List B) :
    Dfa.viable d (w ++ t) = true ↔ ∃ v, lang r (w ++ t ++ v) :=
  (Dfa.dfa_decides r d h (w ++ t)).2

/-- normalised derivatives are derivatives (what the certificate's transitions are checked against) -/
theorem derivN_correct (r : Rx) (b : B) (w : List B) : lang (derivN r b) w ↔ lang r (b :: w) :=
  derivN_iff r b w

/-- **regex_rep_counts** — `r{m,n}`, `r{m,}` denote exactly the counts in range (also used by C09). -/
theorem regex_rep_counts (r : Rx) (m : Nat) (n : Option Nat) (w : List B) :
    lang (rep r m n) w ↔
      ∃ c, m ≤ c ∧ (match n with | some n => c ≤ max m n | none => True) ∧ pow (lang r) c w :=
  rep_counts r m n w

/-- Non-vacuity: `(ab)*c` with intersection/complement: `ab·ab·c` matches `(ab)*c & ~(abc)`. -/
example :
    let ab : Rx := cat (set [(97, 97)]) (set [(98, 98)])
    let r : Rx := and (cat (star ab) (set [(99, 99)])) (not (cat ab (set [(99, 99)])))
    matchesB r [97, 98, 97, 98, 99] = true ∧ matchesB r [97, 98, 99] = false := by decide

end LlgVerif
