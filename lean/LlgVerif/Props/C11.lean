/-
C11 — internal caching never changes a mask (abstract part of M5: `Model/Cache.lean`).
-/
import LlgVerif.Proofs.Cache
namespace LlgVerif

variable {R L M : Type} [DecidableEq L]

/-- every `rollback` keeps at least the initial row (`num_rows ≥ 1` always holds in the parser) -/
def RollbackKeepsRow (ops : List (COp R L)) : Prop :=
  ∀ op ∈ ops, ∀ k ls p, op = COp.rollback k ls p → 0 < k

/-- **cache_transparent** — on every history of commits (rows only appended), rollbacks (rows
truncated, cache cleared), mask computations and invalidations, the mask returned by the cached
`compute_bias` is the mask a cache-free engine computes in the same state. -/
theorem cache_transparent (fresh : List R → L → Bool → M) (ops : List (COp R L))
    (s : CState R L M) (hinv : CacheInv fresh s) (hne : s.rows ≠ []) (hk : RollbackKeepsRow ops) :
    (crun fresh true s ops).1 = crunFresh fresh s ops := by
  induction ops generalizing s with
  | nil => rfl
  | cons op ops ih =>
    have hk' : RollbackKeepsRow ops := fun o ho => hk o (List.mem_cons_of_mem _ ho)
    have hkop : ∀ k ls p, op = .rollback k ls p → 0 < k := hk op List.mem_cons_self
    obtain ⟨hi, hn⟩ := cstep_inv fresh s op hinv hne hkop
    obtain ⟨ho, h1, h2, h3⟩ := cstep_out fresh s op hinv hne
    simp only [crun, crunFresh]
    rw [ih _ hi hn hk', ho]
    congr 1
    exact crunFresh_congr fresh _ _ ops h1 h2 h3

/-- The invariant holds initially (empty cache). -/
theorem cacheInv_init (fresh : List R → L → Bool → M) (rows : List R) (ls : L) (p : Bool) :
    CacheInv fresh ({ rows := rows, ls := ls, pending := p, cache := none } : CState R L M) := by
  intro l i p m h; simp at h

/-- Non-vacuity and **refutation of the pinned code** (defect F1): with `rollback` *not* clearing
the cache, the history `commit x·a, mask, rollback to row 0, commit y·a, mask` returns the mask of
the `x` context in the `y` context (rows are `Nat` labels, the mask is the list of labels). -/
example :
    let fresh : List Nat → Nat → Bool → List Nat := fun rows _ _ => rows
    let ops : List (COp Nat Nat) :=
      [.advance [10, 11] 7 true, .mask, .rollback 1 0 false, .advance [20, 21] 7 true, .mask]
    let s0 : CState Nat Nat (List Nat) := { rows := [0], ls := 0, pending := false, cache := none }
    (crun fresh false s0 ops).1 ≠ crunFresh fresh s0 ops ∧
    (crun fresh true s0 ops).1 = crunFresh fresh s0 ops := by
  decide

end LlgVerif
