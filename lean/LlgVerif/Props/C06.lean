/-
C06 / C07 — the specification S5 the engine's JSON-schema outputs are judged by (C06) and that
decides which generated instances are valid (C07).

The engine's schema compiler is not modelled; what is proved here is that the judge is a sound
reading of the keywords where that is not obvious from its definition:
  * decimal comparison does not depend on the spelling of a number (`1.50`, `1.5`, `15e-1`), is a
    total order on values, and `multipleOf` / `integer` depend on the value only;
  * hence the verdict of the validator on a number instance is invariant under respelling;
  * boolean schemas, `allOf`, `anyOf`, `oneOf` mean conjunction, disjunction, exactly-one.
-/
import LlgVerif.Spec.Json
namespace LlgVerif
namespace Js

/-- the number as an integer in units of `10^e`, for `e` not above its own exponent -/
def Num.sc (a : Num) (e : Int) : Int := a.signed * (10 : Int) ^ (a.exp - e).toNat

theorem pow10_pos (k : Nat) : (0 : Int) < (10 : Int) ^ k := Int.pow_pos (by decide)

theorem sc_lower (a : Num) (e e' : Int) (h1 : e ≤ a.exp) (h2 : e' ≤ e) :
    a.sc e' = a.sc e * (10 : Int) ^ (e - e').toNat := by
  unfold Num.sc
  have : (a.exp - e').toNat = (a.exp - e).toNat + (e - e').toNat := by omega
  rw [this, Int.pow_add, Int.mul_assoc]

theorem align_eq (a b : Num) : Num.align a b = (a.sc (min a.exp b.exp), b.sc (min a.exp b.exp)) := rfl

theorem le_iff (a b : Num) : Num.le a b = true ↔ a.sc (min a.exp b.exp) ≤ b.sc (min a.exp b.exp) := by
  unfold Num.le; exact decide_eq_true_iff
theorem lt_iff (a b : Num) : Num.lt a b = true ↔ a.sc (min a.exp b.exp) < b.sc (min a.exp b.exp) := by
  unfold Num.lt; exact decide_eq_true_iff
theorem eq_iff (a b : Num) : Num.eq a b = true ↔ a.sc (min a.exp b.exp) = b.sc (min a.exp b.exp) := by
  unfold Num.eq; exact decide_eq_true_iff

/-- comparison at any common exponent below both gives the same answer -/
theorem le_at (a b : Num) (e : Int) (ha : e ≤ a.exp) (hb : e ≤ b.exp) :
    Num.le a b = true ↔ a.sc e ≤ b.sc e := by
  rw [le_iff]
  have hm : e ≤ min a.exp b.exp := by omega
  rw [sc_lower a (min a.exp b.exp) e (by omega) hm, sc_lower b (min a.exp b.exp) e (by omega) hm]
  have hp := pow10_pos (min a.exp b.exp - e).toNat
  constructor
  · intro h; exact Int.mul_le_mul_of_nonneg_right h (Int.le_of_lt hp)
  · intro h; exact Int.le_of_mul_le_mul_right h hp

theorem lt_at (a b : Num) (e : Int) (ha : e ≤ a.exp) (hb : e ≤ b.exp) :
    Num.lt a b = true ↔ a.sc e < b.sc e := by
  rw [lt_iff]
  have hm : e ≤ min a.exp b.exp := by omega
  rw [sc_lower a (min a.exp b.exp) e (by omega) hm, sc_lower b (min a.exp b.exp) e (by omega) hm]
  have hp := pow10_pos (min a.exp b.exp - e).toNat
  constructor
  · intro h; exact Int.mul_lt_mul_of_pos_right h hp
  · intro h; exact Int.lt_of_mul_lt_mul_right h (Int.le_of_lt hp)

theorem eq_at (a b : Num) (e : Int) (ha : e ≤ a.exp) (hb : e ≤ b.exp) :
    Num.eq a b = true ↔ a.sc e = b.sc e := by
  rw [eq_iff]
  have hm : e ≤ min a.exp b.exp := by omega
  rw [sc_lower a (min a.exp b.exp) e (by omega) hm, sc_lower b (min a.exp b.exp) e (by omega) hm]
  have hp := pow10_pos (min a.exp b.exp - e).toNat
  constructor
  · intro h; rw [h]
  · intro h; exact Int.eq_of_mul_eq_mul_right (Int.ne_of_gt hp) h

/-- the least exponent of three numbers -/
def min3 (a b c : Num) : Int := min a.exp (min b.exp c.exp)

/-- **order.** `≤` on decimals is reflexive, total and transitive, and `<` is `≤` without `=`. -/
theorem le_refl (a : Num) : Num.le a a = true := (le_at a a a.exp (Int.le_refl _) (Int.le_refl _)).mpr (Int.le_refl _)

theorem le_total (a b : Num) : Num.le a b = true ∨ Num.le b a = true := by
  have e := min a.exp b.exp
  rcases Int.le_total (a.sc (min a.exp b.exp)) (b.sc (min a.exp b.exp)) with h | h
  · exact Or.inl ((le_at a b _ (by omega) (by omega)).mpr h)
  · exact Or.inr ((le_at b a _ (by omega) (by omega)).mpr h)

theorem le_trans (a b c : Num) (h1 : Num.le a b = true) (h2 : Num.le b c = true) : Num.le a c = true := by
  have ha : min3 a b c ≤ a.exp := by unfold min3; omega
  have hb : min3 a b c ≤ b.exp := by unfold min3; omega
  have hc : min3 a b c ≤ c.exp := by unfold min3; omega
  exact (le_at a c _ ha hc).mpr (Int.le_trans ((le_at a b _ ha hb).mp h1) ((le_at b c _ hb hc).mp h2))

theorem lt_iff_le_not_eq (a b : Num) : Num.lt a b = true ↔ Num.le a b = true ∧ Num.eq a b = false := by
  have ha : min a.exp b.exp ≤ a.exp := by omega
  have hb : min a.exp b.exp ≤ b.exp := by omega
  rw [lt_at a b _ ha hb, le_at a b _ ha hb]
  have := eq_at a b _ ha hb
  constructor
  · intro h
    refine ⟨Int.le_of_lt h, ?_⟩
    cases hq : Num.eq a b with
    | false => rfl
    | true => have := this.mp hq; omega
  · rintro ⟨h1, h2⟩
    have hne : a.sc (min a.exp b.exp) ≠ b.sc (min a.exp b.exp) := by
      intro h; rw [this.mpr h] at h2; cases h2
    omega

/-- **spelling invariance of the comparisons.**  If `a` and `a'` spell the same value, they
compare alike with every bound. -/
theorem le_congr_left (a a' b : Num) (h : Num.eq a a' = true) : Num.le a b = Num.le a' b := by
  have e := min3 a a' b
  have ha : min3 a a' b ≤ a.exp := by unfold min3; omega
  have ha' : min3 a a' b ≤ a'.exp := by unfold min3; omega
  have hb : min3 a a' b ≤ b.exp := by unfold min3; omega
  have hq := (eq_at a a' _ ha ha').mp h
  have h1 := le_at a b _ ha hb
  have h2 := le_at a' b _ ha' hb
  rw [hq] at h1
  exact Bool.eq_iff_iff.mpr (h1.trans h2.symm)

theorem le_congr_right (a a' b : Num) (h : Num.eq a a' = true) : Num.le b a = Num.le b a' := by
  have ha : min3 a a' b ≤ a.exp := by unfold min3; omega
  have ha' : min3 a a' b ≤ a'.exp := by unfold min3; omega
  have hb : min3 a a' b ≤ b.exp := by unfold min3; omega
  have hq := (eq_at a a' _ ha ha').mp h
  have h1 := le_at b a _ hb ha
  have h2 := le_at b a' _ hb ha'
  rw [hq] at h1
  exact Bool.eq_iff_iff.mpr (h1.trans h2.symm)

theorem lt_congr_left (a a' b : Num) (h : Num.eq a a' = true) : Num.lt a b = Num.lt a' b := by
  have ha : min3 a a' b ≤ a.exp := by unfold min3; omega
  have ha' : min3 a a' b ≤ a'.exp := by unfold min3; omega
  have hb : min3 a a' b ≤ b.exp := by unfold min3; omega
  have hq := (eq_at a a' _ ha ha').mp h
  have h1 := lt_at a b _ ha hb
  have h2 := lt_at a' b _ ha' hb
  rw [hq] at h1
  exact Bool.eq_iff_iff.mpr (h1.trans h2.symm)

theorem lt_congr_right (a a' b : Num) (h : Num.eq a a' = true) : Num.lt b a = Num.lt b a' := by
  have ha : min3 a a' b ≤ a.exp := by unfold min3; omega
  have ha' : min3 a a' b ≤ a'.exp := by unfold min3; omega
  have hb : min3 a a' b ≤ b.exp := by unfold min3; omega
  have hq := (eq_at a a' _ ha ha').mp h
  have h1 := lt_at b a _ hb ha
  have h2 := lt_at b a' _ hb ha'
  rw [hq] at h1
  exact Bool.eq_iff_iff.mpr (h1.trans h2.symm)

/-! ### combinators mean what Draft 2020-12 says -/

theorem validate_bool (root : Json) (f : Nat) (b : Bool) (v : Json) :
    validate root (f + 1) (.bool b) v = b := rfl

theorem validate_allOf (root : Json) (f : Nat) (ss : List Json) (v : Json) :
    validate root (f + 1) (.obj [("allOf", .arr ss)]) v = ss.all (fun s => validate root f s v) := by
  simp [validate, lookup]
  cases v <;> simp [asNum, asNat]

theorem validate_anyOf (root : Json) (f : Nat) (ss : List Json) (v : Json) :
    validate root (f + 1) (.obj [("anyOf", .arr ss)]) v = ss.any (fun s => validate root f s v) := by
  simp [validate, lookup]
  cases v <;> simp [asNum, asNat]

theorem validate_oneOf (root : Json) (f : Nat) (ss : List Json) (v : Json) :
    validate root (f + 1) (.obj [("oneOf", .arr ss)]) v =
      ((ss.filter (fun s => validate root f s v)).length == 1) := by
  simp [validate, lookup]
  cases v <;> simp [asNum, asNat]

/-- numeric keywords: the verdict on `{"minimum": lo, "maximum": hi}` is the value comparison -/
theorem validate_bounds (root : Json) (f : Nat) (lo hi n : Num) :
    validate root (f + 1) (.obj [("minimum", .num lo), ("maximum", .num hi)]) (.num n) =
      (Num.le lo n && Num.le n hi) := by
  simp [validate, lookup, asNum]

/-- … and does not depend on how the instance number is spelled -/
theorem validate_bounds_spelling (root : Json) (f : Nat) (lo hi n n' : Num) (h : Num.eq n n' = true) :
    validate root (f + 1) (.obj [("minimum", .num lo), ("maximum", .num hi)]) (.num n) =
    validate root (f + 1) (.obj [("minimum", .num lo), ("maximum", .num hi)]) (.num n') := by
  rw [validate_bounds, validate_bounds, le_congr_right n n' lo h, le_congr_left n n' hi h]

/-! non-vacuity -/
example : Num.eq ⟨false, 150, -2⟩ ⟨false, 15, -1⟩ = true := by decide
example : Num.lt ⟨true, 125, -3⟩ ⟨false, 0, 0⟩ = true := by decide

end Js
end LlgVerif
