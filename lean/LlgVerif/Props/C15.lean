/-
C15 — grammar optimisation preserves the language.

`checkInline G G' R rk prot = true` (the certificate the harness builds from the grammar before and
after `Grammar::optimize` and re-checks with this function on every run) implies that every
sentential form without replaced symbols — in particular the start symbol and every protected
symbol — derives exactly the same terminal strings in `G'` as in `G`, for strings of every length.
-/
import LlgVerif.Model.Inline
import LlgVerif.Proofs.CfgPrefix
namespace LlgVerif
namespace Cfg
set_option linter.unusedSectionVars false

variable {N : Type} [DecidableEq N] [Hashable N]

theorem DL_split (G : Gram N) (γ1 γ2 : List (Sym N)) (w : List B) (h : DL G (γ1 ++ γ2) w) :
    ∃ u v, w = u ++ v ∧ DL G γ1 u ∧ DL G γ2 v := by
  induction γ1 generalizing w with
  | nil => exact ⟨[], w, rfl, DL.nil, h⟩
  | cons s γ1 ih =>
    cases s with
    | t lo hi =>
      cases h with
      | t h1 h2 h3 =>
        obtain ⟨u, v, hw, hu, hv⟩ := ih _ h3
        exact ⟨_ :: u, v, by rw [hw]; rfl, DL.t h1 h2 hu, hv⟩
    | nt a =>
      cases h with
      | nt hr hβ hrest =>
        obtain ⟨u, v, hw, hu, hv⟩ := ih _ hrest
        exact ⟨_ ++ u, v, by rw [hw, List.append_assoc], DL.nt hr hβ hu, hv⟩

theorem subst_append (R : RMap N) (α β : List (Sym N)) :
    subst R (α ++ β) = subst R α ++ subst R β := by
  simp [subst, List.flatMap_append]

theorem subst_cons (R : RMap N) (s : Sym N) (α : List (Sym N)) :
    subst R (s :: α) = substSym R s ++ subst R α := by
  simp [subst, List.flatMap_cons]

theorem rlookup_mem (R : RMap N) (a : N) (γ : List (Sym N)) (h : rlookup R a = some γ) :
    (a, γ) ∈ R := by
  induction R with
  | nil => simp [rlookup] at h
  | cons p R ih =>
    obtain ⟨b, δ⟩ := p
    simp only [rlookup] at h
    split at h
    · rename_i hb
      injection h with h
      subst hb h
      exact List.mem_cons_self
    · exact List.mem_cons_of_mem _ (ih h)

theorem subst_id (R : RMap N) (γ : List (Sym N)) (h : ∀ a, Sym.nt a ∈ γ → inDom R a = false) :
    subst R γ = γ := by
  induction γ with
  | nil => rfl
  | cons s γ ih =>
    rw [subst_cons, ih (fun a ha => h a (List.mem_cons_of_mem _ ha))]
    cases s with
    | t lo hi => rfl
    | nt a =>
      have := h a List.mem_cons_self
      simp only [inDom, Option.isSome_eq_false_iff, Option.isNone_iff_eq_none] at this
      simp [substSym, this]

def domFree (R : RMap N) (γ : List (Sym N)) : Prop := ∀ a, Sym.nt a ∈ γ → inDom R a = false

theorem domFree_subst (R : RMap N) (β : List (Sym N))
    (h : ∀ b γb, Sym.nt b ∈ β → rlookup R b = some γb → domFree R γb) : domFree R (subst R β) := by
  induction β with
  | nil => intro a ha; simp [subst] at ha
  | cons x β ih =>
    rw [subst_cons]
    intro a ha
    rw [List.mem_append] at ha
    rcases ha with ha | ha
    · cases x with
      | t lo hi => simp [substSym] at ha
      | nt b =>
        cases hl : rlookup R b with
        | none =>
          simp only [substSym, hl, Option.getD_none, List.mem_cons, Sym.nt.injEq, List.not_mem_nil,
            or_false] at ha
          subst ha; simp [inDom, hl]
        | some γb =>
          simp only [substSym, hl, Option.getD_some] at ha
          exact h b γb List.mem_cons_self hl a ha
    · exact ih (fun b γb hb => h b γb (List.mem_cons_of_mem _ hb)) a ha

section
variable (G G' : Gram N) (R : RMap N) (rk : N → Nat) (prot : List N)
variable (hc : checkInline G G' R rk prot = true)
include hc

theorem ci_replaced (s : N) (γ : List (Sym N)) (h : rlookup R s = some γ) :
    ∃ β, (s, β) ∈ G ∧ (∀ β', (s, β') ∈ G → β' = β) ∧ γ = subst R β ∧ rankOK R rk s β = true := by
  unfold checkInline at hc
  simp only [Bool.and_eq_true, List.all_eq_true] at hc
  have := hc.1.1.1 (s, γ) (rlookup_mem R s γ h)
  simp only at this
  split at this
  · rename_i r hf
    simp only [Bool.and_eq_true, decide_eq_true_eq] at this
    have hr : r ∈ G.filter (fun r => decide (r.1 = s)) := by rw [hf]; exact List.mem_cons_self
    simp only [List.mem_filter, decide_eq_true_eq] at hr
    refine ⟨r.2, by rw [← hr.2]; exact hr.1, ?_, this.1.2, by rw [← hr.2] at this ⊢; exact this.2⟩
    intro β' hβ'
    have : (s, β') ∈ G.filter (fun r => decide (r.1 = s)) := by
      simp only [List.mem_filter, decide_eq_true_eq]; exact ⟨hβ', trivial⟩
    rw [hf] at this
    simp only [List.mem_cons, List.not_mem_nil, or_false] at this
    rw [← this]
  · cases this

theorem ci_sound (r' : N × List (Sym N)) (h : r' ∈ G') (hk : inDom R r'.1 = false) :
    ∃ a β, (a, β) ∈ G ∧ inDom R a = false ∧ r' = (a, subst R β) := by
  unfold checkInline at hc
  simp only [Bool.and_eq_true, List.all_eq_true, List.any_eq_true] at hc
  have := hc.1.1.2 r' h
  simp only [hk, Bool.false_or, List.any_eq_true] at this
  obtain ⟨r, hr, h2⟩ := this
  simp only [Bool.and_eq_true, Bool.not_eq_eq_eq_not, Bool.not_true, decide_eq_true_eq] at h2
  exact ⟨r.1, r.2, hr, h2.1, h2.2⟩

theorem ci_complete (a : N) (β : List (Sym N)) (h : (a, β) ∈ G) (hd : inDom R a = false) :
    (a, subst R β) ∈ G' := by
  unfold checkInline at hc
  simp only [Bool.and_eq_true, List.all_eq_true] at hc
  have := hc.1.2 (a, β) h
  simp only [Bool.or_eq_true, hd, Bool.false_eq_true, false_or, List.contains_eq_mem,
    decide_eq_true_eq] at this
  exact this

theorem ci_protected (a : N) (h : a ∈ prot) : inDom R a = false := by
  unfold checkInline at hc
  simp only [Bool.and_eq_true, List.all_eq_true] at hc
  have := hc.2 a h
  simpa using this

/-- a derivation from the substituted body is a derivation from the body, given the same for the
replaced symbols occurring in it -/
theorem unsubst_form (β : List (Sym N)) (u : List B)
    (hexp : ∀ b γ, Sym.nt b ∈ β → rlookup R b = some γ → ∀ u, DL G γ u → DL G [Sym.nt b] u)
    (h : DL G (subst R β) u) : DL G β u := by
  induction β generalizing u with
  | nil => simpa [subst] using h
  | cons x β ih =>
    rw [subst_cons] at h
    obtain ⟨u1, u2, hu, h1, h2⟩ := DL_split G _ _ u h
    have h2' := ih u2 (fun b γ hb => hexp b γ (List.mem_cons_of_mem _ hb)) h2
    have h1' : DL G [x] u1 := by
      cases x with
      | t lo hi => simpa [substSym] using h1
      | nt b =>
        cases hl : rlookup R b with
        | none => simpa [substSym, hl] using h1
        | some γ =>
          simp only [substSym, hl, Option.getD_some] at h1
          exact hexp b γ List.mem_cons_self hl u1 h1
    rw [hu]
    exact DL_append G h1' h2'

theorem expand_ok (n : Nat) : ∀ a γ, rk a < n → rlookup R a = some γ → ∀ u, DL G γ u → DL G [Sym.nt a] u := by
  induction n with
  | zero => intro a γ h; omega
  | succ n ih =>
    intro a γ hlt hl u hu
    obtain ⟨β, hβ, _, hγ, hrank⟩ := ci_replaced G G' R rk prot hc a γ hl
    subst hγ
    apply DL_single G hβ
    apply unsubst_form G G' R rk prot hc β u _ hu
    intro b γb hb hlb
    simp only [rankOK, List.all_eq_true] at hrank
    have := hrank (Sym.nt b) hb
    simp only [inDom, hlb, Option.isSome_some, Bool.not_true, Bool.false_or, decide_eq_true_eq] at this
    exact ih b γb (by omega) hlb

theorem repl_domFree (n : Nat) : ∀ a γ, rk a < n → rlookup R a = some γ → domFree R γ := by
  induction n with
  | zero => intro a γ h; omega
  | succ n ih =>
    intro a γ hlt hl
    obtain ⟨β, _, _, hγ, hrank⟩ := ci_replaced G G' R rk prot hc a γ hl
    subst hγ
    apply domFree_subst R
    intro b γb hb hlb
    simp only [rankOK, List.all_eq_true] at hrank
    have := hrank (Sym.nt b) hb
    simp only [inDom, hlb, Option.isSome_some, Bool.not_true, Bool.false_or, decide_eq_true_eq] at this
    exact ih b γb (by omega) hlb

/-- what the optimised grammar derives from a form without replaced symbols, the original grammar
derives (rules left behind for replaced symbols are never reached) -/
theorem inline_sound (γ : List (Sym N)) (w : List B) (h : DL G' γ w) (hf : domFree R γ) : DL G γ w := by
  induction h with
  | nil => exact DL.nil
  | @t lo hi b α w' h1 h2 _ ih =>
    exact DL.t h1 h2 (ih (fun a ha => hf a (List.mem_cons_of_mem _ ha)))
  | @nt a β' α u v hr _ _ ih1 ih2 =>
    have hk : inDom R a = false := hf a List.mem_cons_self
    obtain ⟨a', β, hβ, _, heq⟩ := ci_sound G G' R rk prot hc (a, β') hr hk
    injection heq with h1 h2
    subst h1 h2
    have hfree : domFree R (subst R β) := domFree_subst R β
      (fun b γb _ hlb => repl_domFree G G' R rk prot hc (rk b + 1) b γb (by omega) hlb)
    have : DL G β u := unsubst_form G G' R rk prot hc β u
      (fun b γb _ hlb => expand_ok G G' R rk prot hc (rk b + 1) b γb (by omega) hlb) (ih1 hfree)
    exact DL.nt hβ this (ih2 (fun a ha => hf a (List.mem_cons_of_mem _ ha)))

/-- what the original grammar derives from a form, the optimised grammar derives from the
substituted form -/
theorem inline_complete (γ : List (Sym N)) (w : List B) (h : DL G γ w) : DL G' (subst R γ) w := by
  induction h with
  | nil => exact DL.nil
  | @t lo hi b α w' h1 h2 _ ih =>
    rw [subst_cons]; exact DL.t h1 h2 ih
  | @nt a β α u v hr _ _ ih1 ih2 =>
    rw [subst_cons]
    cases hl : rlookup R a with
    | none =>
      have hd : inDom R a = false := by simp [inDom, hl]
      have := ci_complete G G' R rk prot hc a β hr hd
      simp only [substSym, hl, Option.getD_none]
      exact DL.nt this ih1 ih2
    | some γa =>
      obtain ⟨β0, _, huniq, hγ, _⟩ := ci_replaced G G' R rk prot hc a γa hl
      have : β = β0 := huniq β hr
      subst this
      simp only [substSym, hl, Option.getD_some]
      rw [hγ]
      exact DL_append G' ih1 ih2

/-- **C15.**  An accepted certificate means: every form without replaced symbols derives the same
terminal strings before and after the optimisation. -/
theorem inline_preserves (γ : List (Sym N)) (hγ : ∀ a, Sym.nt a ∈ γ → inDom R a = false)
    (w : List B) : DL G γ w ↔ DL G' γ w := by
  constructor
  · intro h
    have := inline_complete G G' R rk prot hc γ w h
    rwa [subst_id R γ hγ] at this
  · intro h; exact inline_sound G G' R rk prot hc γ w h hγ

/-- protected symbols (captures, token limits, sub-grammar boundaries, start) are kept and keep
their language -/
theorem inline_keeps_protected (a : N) (ha : a ∈ prot) (w : List B) :
    inDom R a = false ∧ (DL G [Sym.nt a] w ↔ DL G' [Sym.nt a] w) := by
  have hd := ci_protected G G' R rk prot hc a ha
  refine ⟨hd, inline_preserves G G' R rk prot hc _ ?_ w⟩
  intro b hb
  simp only [List.mem_cons, Sym.nt.injEq, List.not_mem_nil, or_false] at hb
  subst hb; exact hd
end

/-! non-vacuity: `S → A "b"`, `A → "a"` optimised to `S → "a" "b"` -/
def exGa : Gram Nat := [(0, [Sym.nt 1, Sym.t 98 98]), (1, [Sym.t 97 97])]
def exGb : Gram Nat := [(0, [Sym.t 97 97, Sym.t 98 98])]
example : checkInline exGa exGb [(1, [Sym.t 97 97])] (fun _ => 0) [0] = true := by decide

end Cfg
end LlgVerif
