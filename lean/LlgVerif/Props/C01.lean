/-
C01 — the token mask is exactly the set of tokens the engine will accept next (abstract M6 over
M2; `Model/Engine.lean`).  The byte recogniser is a parameter, so the statements hold for every
grammar whose speculative and definitive byte runs agree (that agreement is what the
correspondence and oracle runs check on the implementation).
-/
import LlgVerif.Model.Engine
import LlgVerif.Props.C16
namespace LlgVerif
open EngCfg

variable {S : Type}

/-- **mask_eq_commit** — for every recogniser, vocabulary (duplicates, empty entries, prefixes),
and state that is not stopped: a non-EOS token id is in the mask computed by the trie walk iff
committing it succeeds. -/
theorem mask_eq_commit (c : EngCfg S) (s : EngState S) (hs : s.stopped = false) (t : Nat)
    (ht : t ≠ c.eos) :
    t ∈ c.mask s ↔ (c.commit s t).isSome := by
  have hw := walk_eq_filter c.recog c.words s.st t
  unfold mask commit
  simp only [hs, Bool.false_eq_true, ↓reduceIte, ht]
  have hmem : (t ∈ (if c.accepting s.st = true then
        c.eos :: addBias c.recog (flatten (buildTree c.words)) c.words.length s.st []
      else addBias c.recog (flatten (buildTree c.words)) c.words.length s.st [])) ↔
      t ∈ addBias c.recog (flatten (buildTree c.words)) c.words.length s.st [] := by
    split
    · simp [ht]
    · rfl
  rw [hmem, hw]
  unfold tokBytes
  cases hwd : c.words[t]? with
  | none => simp
  | some w =>
    cases w with
    | nil => simp
    | cons b bs =>
      simp only [Option.some.injEq, ne_eq, exists_eq_left', reduceCtorEq, not_false_eq_true,
        true_and, Option.getD_some]
      cases runBytes c.recog s.st (b :: bs) <;> simp

/-- **eos_iff_accepting** — EOS is in the mask exactly when the state is accepting (for an EOS id
that is not also the id of a text token matched by the walk: its vocabulary entry is special). -/
theorem eos_iff_accepting (c : EngCfg S) (s : EngState S)
    (hspecial : ∀ w, c.words[c.eos]? = some w → w = [] ∨ (runBytes c.recog s.st w).isNone) :
    c.eos ∈ c.mask s ↔ c.accepting s.st = true := by
  unfold mask
  split
  · rename_i h; simp [h]
  · rename_i h
    have hf : c.accepting s.st = false := by simpa using h
    rw [hf]
    refine ⟨fun hm => ?_, fun hx => absurd hx (by simp)⟩
    exfalso
    replace hm : c.eos ∈ addBias c.recog (flatten (buildTree c.words)) c.words.length s.st [] := hm
    obtain ⟨w, h1, h2, h3⟩ := (walk_eq_filter c.recog c.words s.st c.eos).mp hm
    rcases hspecial w h1 with h4 | h4
    · exact h2 h4
    · rw [Option.isNone_iff_eq_none] at h4; rw [h4] at h3; simp at h3

/-- **validate_longest_prefix** — `validate` returns `k` such that the first `k` tokens can be
committed one by one and (if `k < |ts|`) the next one cannot. -/
theorem validate_longest_prefix (c : EngCfg S) (s : EngState S) (ts : List Nat) :
    let k := c.validate s ts
    k ≤ ts.length ∧
    (∃ s', (ts.take k).foldlM (fun st t => c.commit st t) s = some s' ∧
      (k < ts.length → c.commit s' (ts[k]!) = none)) := by
  induction ts generalizing s with
  | nil => exact ⟨Nat.le_refl _, s, rfl, fun h => absurd h (by simp)⟩
  | cons t ts ih =>
    cases hc : c.commit s t with
    | none =>
      have hv : c.validate s (t :: ts) = 0 := by simp [validate, hc]
      simp only [hv]
      refine ⟨by simp, s, rfl, fun _ => ?_⟩
      simpa using hc
    | some s' =>
      obtain ⟨h1, s'', h2, h3⟩ := ih s'
      have hv : c.validate s (t :: ts) = 1 + c.validate s' ts := by simp [validate, hc]
      simp only [hv]
      refine ⟨by simp; omega, s'', ?_, ?_⟩
      · have : 1 + c.validate s' ts = (c.validate s' ts) + 1 := by omega
        rw [this]
        simp only [List.take_succ_cons, List.foldlM_cons, hc]
        exact h2
      · intro hk
        have hk' : c.validate s' ts < ts.length := by simp at hk; omega
        have := h3 hk'
        have e : (t :: ts)[1 + c.validate s' ts]! = ts[c.validate s' ts]! := by
          rw [Nat.add_comm]; simp
        rw [e]; exact this

/-- Non-vacuity: vocabulary `a`, `ab`, `b`, special EOS; recogniser for `a b*`. -/
example :
    let c : EngCfg Nat := { recog := ⟨fun q b => if q = 0 ∧ b = 97 then some 1 else if q = 1 ∧ b = 98 then some 1 else none⟩,
                            accepting := fun q => q == 1, words := [[97], [97, 98], [98], [0xFF, 60]], eos := 3 }
    let s0 : EngState Nat := { st := 0, tokens := [], stopped := false }
    (c.commit s0 1).isSome = true ∧ (c.commit s0 2).isSome = false ∧ c.validate s0 [1, 2, 0] = 2 := by
  decide

end LlgVerif
