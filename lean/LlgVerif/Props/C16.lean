/-
C16 — vocabulary handling matches a naive model.
Property theorems over M1 (`Model/Svob.lean`) and M2 (`Model/Trie.lean`); helper lemmas live in
`Proofs/`.  Each theorem is followed by a non-vacuity example where it has hypotheses.
-/
import LlgVerif.Proofs.SvobRange
import LlgVerif.Proofs.TrieBuild
namespace LlgVerif

variable {S : Type}

/-! ## Trie: the set reported by the walk equals per-token filtering -/

/-- **walk_eq_filter** (empty start).  For every vocabulary (duplicates, empty entries, prefixes,
any bytes), every recogniser and every recogniser state: the branch-free DFS walk with pop counts
over the serialised trie reports token `x` iff `x` is a non-empty vocabulary entry whose bytes the
recogniser accepts one after the other. -/
theorem walk_eq_filter (r : Rec S) (words : List (List Byte)) (s0 : S) (x : Nat) :
    x ∈ addBias r (flatten (buildTree words)) words.length s0 [] ↔
      ∃ w, words[x]? = some w ∧ w ≠ [] ∧ (runBytes r s0 w).isSome := by
  obtain ⟨np', st', hw, _⟩ := walk_root r (buildTree words) words.length s0
  have hsz : ((flatten (buildTree words))[0]!).subtreeSize = (ser (buildTree words) 0).length := by
    simp [flatten, buildTree, ser]; omega
  simp only [addBias, List.isEmpty_nil, ↓reduceIte, childAtBytes, Nat.zero_add, hsz, hw,
    List.mem_filter, List.mem_reverse, mem_specKids]
  constructor
  · rintro ⟨⟨w, tk, hm, hr, hx⟩, hne⟩
    cases tk with
    | none => simp at hx; simp [hx] at hne
    | some t =>
      simp at hx; subst hx
      obtain ⟨h1, h2⟩ := (build_paths words w x).mp hm
      exact ⟨w, h1, h2, hr⟩
  · rintro ⟨w, h1, h2, hr⟩
    have hlt : x < words.length := by
      apply Nat.lt_of_not_le; intro hle
      rw [List.getElem?_eq_none_iff.mpr hle] at h1; simp at h1
    refine ⟨⟨w, some x, (build_paths words w x).mpr ⟨h1, h2⟩, hr, by simp⟩, ?_⟩
    simp; omega

/-- **no_id_ge_vocab**: after the walk (and the removal of the fake slot) no id ≥ vocab is reported. -/
theorem no_id_ge_vocab (r : Rec S) (words : List (List Byte)) (s0 : S) (x : Nat)
    (h : x ∈ addBias r (flatten (buildTree words)) words.length s0 []) : x < words.length := by
  obtain ⟨w, h1, _, _⟩ := (walk_eq_filter r words s0 x).mp h
  apply Nat.lt_of_not_le; intro hle
  rw [List.getElem?_eq_none_iff.mpr hle] at h1; simp at h1

/-- **walk_restores_stack**: after the final `pop_bytes(next_pop)` the recogniser stack is the one
the walk started with (so `trie_finished` sees exactly one element). -/
theorem walk_restores_stack (r : Rec S) (t : Tree) (defl : Nat) (s0 : S) :
    let res := walkLoop r (flatten t) (ser t 0).length defl 1 0 [s0] []
    res.2.1.drop res.1 = [s0] := by
  obtain ⟨np', st', hw, hd⟩ := walk_root r t defl s0
  simp only [hw]; exact hd

/-- **flat_wf**: every serialised subtree records its own length (≥ 1) as `subtree_size`. -/
theorem flat_wf (t : Tree) (np : Nat) :
    ∃ h : 0 < (ser t np).length, ((ser t np)[0]'h).subtreeSize = (ser t np).length :=
  ⟨ser_length_pos t np, ser_subtreeSize t np (ser_length_pos t np)⟩

/-- **build_paths** (re-export): the built trie has a token path `(w, id)` exactly for the non-empty
entries `words[id] = w`; in particular every id maps back to its bytes and duplicates are kept. -/
theorem token_roundtrip (words : List (List Byte)) (w : List Byte) (x : Nat) :
    (w, some x) ∈ pathsKids (buildTree words).kids ↔ (words[x]? = some w ∧ w ≠ []) :=
  build_paths words w x

/-- Non-vacuity: a vocabulary with a duplicate, an empty entry and a prefix pair; recogniser
accepting only strings of `a`s: the duplicate id 2 is reported, `ab` (id 1) is not. -/
example :
    let r : Rec Unit := ⟨fun _ b => if b = 97 then some () else none⟩
    let words : List (List Byte) := [[97], [97, 98], [97], [], [97, 97]]
    2 ∈ addBias r (flatten (buildTree words)) words.length () [] ∧
    1 ∉ addBias r (flatten (buildTree words)) words.length () [] := by
  intro r words
  constructor
  · exact (walk_eq_filter r words () 2).mpr ⟨[97], rfl, by simp, by decide⟩
  · intro h
    obtain ⟨w, h1, _, h3⟩ := (walk_eq_filter r words () 1).mp h
    have : w = [97, 98] := by simpa [words] using h1.symm
    subst this
    revert h3; decide

/-! ## Token sets: operations are set operations below `size` -/

open Svob in
/-- **svob_ops_refine_sets**: every mutating operation of `SimpleVob`, read through `get`
(membership), is the corresponding operation on sets of naturals; failures are exactly the Rust
asserts / out-of-range indexing. -/
theorem svob_ops_refine_sets :
    (∀ (v v' : Svob) i val, v.set? i val = some v' → ∀ j, v'.get j = if j = i then val else v.get j) ∧
    (∀ (v : Svob) i val, (v.set? i val).isSome ↔ i / 32 < v.data.length) ∧
    (∀ (v : Svob), v.WF → ∀ i, (negated v).get i = (decide (i < v.size) && !v.get i)) ∧
    (∀ (v : Svob) val i, (setAll v val).get i = (val && decide (i < v.size) && decide (i / 32 < v.data.length))) ∧
    (∀ (v r : Svob) s e, v.allowRange? s e = some r →
        e < v.size ∧ ∀ j, r.get j = (v.get j || (decide (s ≤ j) && decide (j ≤ e)))) ∧
    (∀ (v : Svob), v.WF → ∀ s e, (v.allowRange? s e).isSome ↔ e < v.size) ∧
    (∀ (v o r : Svob), v.or? o = some r → ∀ j, r.get j = (v.get j || (decide (j / 32 < v.data.length) && o.get j))) ∧
    (∀ (v o r : Svob), v.and? o = some r → ∀ j, r.get j = (v.get j && (o.get j || !decide (j / 32 < o.data.length)))) ∧
    (∀ (v o r : Svob), v.sub? o = some r → ∀ j, r.get j = (v.get j && !o.get j)) ∧
    (∀ (v o m r : Svob), v.orMinus? o m = some r → o.data.length = v.data.length → m.data.length = v.data.length →
        ∀ j, r.get j = (v.get j || (o.get j && !m.get j))) ∧
    (∀ (v : Svob) l, v.toList? = some l → l.Pairwise (· < ·) ∧ ∀ i, i ∈ l ↔ (i < v.size ∧ v.get i = true)) ∧
    (∀ size i, (alloc size).get i = false) :=
  ⟨fun v v' i val h => (set?_spec v v' i val h).2.2,
   set?_isSome,
   get_negated_wf,
   get_setAll,
   fun v r s e h => ⟨(allowRange?_spec v r s e h).2.2.1, (allowRange?_spec v r s e h).2.2.2⟩,
   allowRange?_isSome,
   fun v o r h => (or?_spec v o r h).2.2,
   fun v o r h => (and?_spec v o r h).2.2,
   fun v o r h => (sub?_spec v o r h).2.2,
   fun v o m r h h1 h2 => (orMinus?_spec v o m r h h1 h2).2.2,
   fun v l h => ⟨toList?_sorted v l h, toList?_spec v l h⟩,
   get_alloc⟩

open Svob in
/-- **excess_bits_clear**: `negated` and `set_all(true)` leave no bit at or above `size`. -/
theorem excess_bits_clear (v : Svob) :
    (negated v).NoBitGe v.size ∧ (setAll v true).NoBitGe v.size := by
  constructor
  · intro i hi
    rw [get_negated]
    have : ¬ i < v.size := by omega
    simp [this]
  · intro i hi
    rw [get_setAll]
    have : ¬ i < v.size := by omega
    simp [this]

/-- Non-vacuity: a range crossing two word boundaries. -/
example : ((Svob.alloc 100).allowRange? 30 70).isSome = true := by decide

end LlgVerif
