/-
C05 — a Lark context-free grammar admits exactly the grammar's language.

The Lean side is the *specification* the engine is compared with on every run: a chart recogniser
for arbitrary CFGs (empty productions, left/right/mutual recursion, ambiguity) whose answers are
proved to coincide with the declarative derivation relation `DL`, and the prefix-grammar
construction proved to capture "is a prefix of some derivable string".  The engine's Earley parser
itself is not modelled here; the tie is impl-vs-proved-spec (see DESIGN.md).
-/
import LlgVerif.Proofs.CfgPrefixMain
import LlgVerif.Proofs.Earley
import LlgVerif.Proofs.EarleyPure
import LlgVerif.Proofs.EarleyRowsWant
import LlgVerif.Proofs.EarleyMask
namespace LlgVerif
namespace Cfg

abbrev G0 := Gram Nat

/-- chart over the prefix grammar for the input `w` -/
def specChart (G : G0) (s : Nat) (w : List B) (fuel : Nat) : Option (Chart (Nat × Bool)) :=
  chart? (preG G) [[Sym.nt (s, false)], [Sym.nt (s, true)]] w fuel

def acceptsC (c : Chart (Nat × Bool)) (s : Nat) (p : List B) : Bool := c.contains ([Sym.nt (s, false)], p)
def viableC (c : Chart (Nat × Bool)) (s : Nat) (p : List B) : Bool := c.contains ([Sym.nt (s, true)], p)

/-- **C05, complete strings.**  The spec decider says "accepted" for an infix `p` of the charted
input exactly when the grammar derives `p` from the start symbol. -/
theorem spec_accepts (G : G0) (s : Nat) (w : List B) (fuel : Nat) (c : Chart (Nat × Bool))
    (hp : allProductive G = true) (h : specChart G s w fuel = some c) (p : List B) (hpw : p <:+: w) :
    acceptsC c s p = true ↔ DL G [Sym.nt s] p := by
  unfold acceptsC
  rw [chart_correct (preG G) _ w fuel c h _ p (forms_start _ _ _ (by simp)) hpw]
  exact preG_same G hp s p

/-- **C05, prefixes.**  The spec decider says "viable" for `p` exactly when `p` is a prefix of some
string the grammar derives. -/
theorem spec_viable (G : G0) (s : Nat) (w : List B) (fuel : Nat) (c : Chart (Nat × Bool))
    (hp : allProductive G = true) (h : specChart G s w fuel = some c) (p : List B) (hpw : p <:+: w) :
    viableC c s p = true ↔ ∃ v, DL G [Sym.nt s] (p ++ v) := by
  unfold viableC
  rw [chart_correct (preG G) _ w fuel c h _ p (forms_start _ _ _ (by simp)) hpw]
  exact preG_prefix G hp s p

/-- a token (byte string `tok`) is allowed after `p` iff `p ++ tok` is still a prefix of a derivable
string — the statement the mask is compared with -/
theorem token_allowed_cfg (G : G0) (s : Nat) (w : List B) (fuel : Nat) (c : Chart (Nat × Bool))
    (hp : allProductive G = true) (h : specChart G s w fuel = some c) (p tok : List B)
    (hpw : (p ++ tok) <:+: w) :
    viableC c s (p ++ tok) = true ↔ ∃ v, DL G [Sym.nt s] (p ++ tok ++ v) :=
  spec_viable G s w fuel c hp h (p ++ tok) hpw

/-! non-vacuity: `S → "a" S "b" | ε` is productive and derives `ab` -/
def exG : G0 := [(0, [Sym.t 97 97, Sym.nt 0, Sym.t 98 98]), (0, [])]
example : allProductive exG = true := by decide
example : DL exG [Sym.nt 0] [97, 98] := by
  have h0 : DL exG [Sym.nt 0] [] := DL_single exG (β := []) (by simp [exG]) DL.nil
  have h1 : DL exG [Sym.t 97 97, Sym.nt 0, Sym.t 98 98] [97, 98] :=
    DL.t (by decide) (by decide) (DL_append exG h0 (DL.t (by decide) (by decide) DL.nil))
  exact DL_single exG (by simp [exG]) h1

end Cfg

/-! ### the Earley rows (mechanism model M4, tied to the parser's rows item by item)

`Ey.runRows` mirrors `scan` / `process_agenda` over the compiled grammar dump; on every run the
items of every row of the real parser are compared with it.  Soundness of the model: every item has
a derivation of the scanned lexemes, so an accepting last row means the start symbol derives the
input (relative to the grammar's rules and nullable flags; the flags are checked to be closed under
the rules when the dump is loaded). -/

theorem c05_earley_rows_sound (g : Ey.CG) (hw : g.wf = true) (lexs : List (List Nat)) :
    Ey.RowsOK g lexs (Ey.runRows g lexs) :=
  (Ey.runRows_ok g (Ey.wf_of_check g hw) lexs).1

theorem c05_earley_accept_sound (g : Ey.CG) (hw : g.wf = true) (lexs : List (List Nat))
    (h : Ey.accepting g (Ey.runRows g lexs) = true) : Ey.Der g lexs g.start 0 lexs.length :=
  Ey.accepting_sound g (Ey.wf_of_check g hw) lexs h

/-! ### completeness of the rows

`Ey.Want` is the set of Earley items given by the inference rules (start, prediction, nullable
advance, scan, completion over earlier rows).  Rows that pass the executable certificate check
`Ey.rowsClosed` — evaluated by the driver on the rows it computed, so the fuel of the worklist is
not trusted — hold every such item; and the item set is complete for derivations, the completion the
code skips (items that start in the current row) being covered by the nullable advance because the
flags are closed under the rules (`CG.nullableClosed`). -/

theorem c05_earley_rows_complete (g : Ey.CG) (lexs : List (List Nat))
    (hc : Ey.rowsClosed g lexs (Ey.runRows g lexs) = true) (j : Nat) (it : Ey.Item)
    (hwant : Ey.Want g lexs j it) (hj : j ≤ lexs.length) : it ∈ (Ey.runRows g lexs).getD j [] := by
  have hlen := (Ey.runRows_len g lexs)
  exact Ey.closed_complete g lexs _ (Ey.closed_of_check g lexs _ hc) j it hwant (by omega)

/-! `Ey.Accepts g lexs` (Proofs/EarleyViable.lean): a rule of the start symbol derives all of `lexs`.
`Ey.Seq`/`Ey.Der` read a nullable flag as an ε-rule of the symbol — `CGrammar` drops empty rules and
keeps only the flag ("we handle the empty rule separately via is_nullable field"), so this *is* the
compiled grammar's derivation relation. -/

/-- **C05 at the level of the parser's rows**: the last row is accepting exactly when the compiled
grammar derives the scanned lexemes. -/
theorem c05_earley_accept_iff (g : Ey.CG) (hw : g.wf = true) (hn : g.nullableClosed = true)
    (lexs : List (List Nat)) (hc : Ey.rowsClosed g lexs (Ey.runRows g lexs) = true) :
    Ey.accepting g (Ey.runRows g lexs) = true ↔ Ey.Accepts g lexs := by
  have hW := Ey.wf_of_check g hw
  obtain ⟨hok, hlen⟩ := Ey.runRows_ok g hW lexs
  constructor
  · intro h
    unfold Ey.accepting at h
    simp only [List.any_eq_true, Bool.and_eq_true, decide_eq_true_eq] at h
    obtain ⟨it, hit, ⟨hdot, hz⟩, hlhs⟩ := h
    rw [hlen] at hit
    have e : lexs.length + 1 - 1 = lexs.length := by omega
    rw [e] at hit
    obtain ⟨_, r, hr, hseq⟩ := hok lexs.length (by rw [hlen]; omega) it hit
    rw [hlhs] at hr
    rw [hz] at hseq
    exact ⟨r, hr, it.1, hseq, hdot⟩
  · rintro ⟨r, hr, p, hseq, hdot⟩
    exact Ey.accepting_complete g hW (Ey.nullClosed_of_check g hn) lexs _
      (Ey.closed_of_check g lexs _ hc) hlen hr hseq hdot

/-- the same with derivations by the rules alone, for grammars whose flags are all derived
(`CG.nullableSound`: no dropped empty rule) -/
def Ey.AcceptsP (g : Ey.CG) (lexs : List (List Nat)) : Prop :=
  ∃ r ∈ (g.sym g.start).rules, ∃ p, Ey.SeqP g lexs r p 0 lexs.length ∧ g.atDot p = 0

theorem c05_earley_accept_iff_pure (g : Ey.CG) (hw : g.wf = true) (hn : g.nullableClosed = true)
    (hs : g.nullableSound = true) (lexs : List (List Nat))
    (hc : Ey.rowsClosed g lexs (Ey.runRows g lexs) = true) :
    Ey.accepting g (Ey.runRows g lexs) = true ↔ Ey.AcceptsP g lexs := by
  rw [c05_earley_accept_iff g hw hn lexs hc]
  constructor
  · rintro ⟨r, hr, p, hseq, hdot⟩
    exact ⟨r, hr, p, Ey.seqP_of_seq (Ey.nullSound_of_check g hs) hseq, hdot⟩
  · rintro ⟨r, hr, p, hseq, hdot⟩
    exact ⟨r, hr, p, Ey.seq_of_seqP hseq, hdot⟩

/-- the rows of the model are exactly the Earley item sets -/
theorem c05_earley_rows_exact (g : Ey.CG) (lexs : List (List Nat))
    (hc : Ey.rowsClosed g lexs (Ey.runRows g lexs) = true) (j : Nat) (hj : j ≤ lexs.length) (it : Ey.Item) :
    it ∈ (Ey.runRows g lexs).getD j [] ↔ Ey.Want g lexs j it := by
  constructor
  · intro h
    exact Ey.runRows_want g lexs j (by rw [Ey.runRows_len]; omega) it h
  · intro h
    exact c05_earley_rows_complete g lexs hc j it h hj

/-- **valid-prefix property of the rows** (the parser-level content of "no dead ends"): when every
symbol that occurs in a right-hand side is productive, every item of every row lies on a derivation
of some continuation — the lexemes read so far extend to an input the compiled grammar accepts. -/
theorem c05_earley_rows_viable (g : Ey.CG) (hw : g.wf = true) (hp : g.allProductive = true)
    (lexs : List (List Nat)) (j : Nat) (hj : j ≤ lexs.length) (it : Ey.Item)
    (hit : it ∈ (Ey.runRows g lexs).getD j []) : ∃ v, Ey.Accepts g (lexs.take j ++ v) :=
  Ey.want_viable g (Ey.wf_of_check g hw) (Ey.allProd_of_check g hp) lexs j it
    (Ey.runRows_want g lexs j (by rw [Ey.runRows_len]; omega) it hit)

/-- **a lexeme the last row allows can be continued**: if an item of the last row has a lexeme `l`
after its dot, then `lexs` followed by `l` extends to an accepted input -/
theorem c05_earley_allowed_lexeme_viable (g : Ey.CG) (hw : g.wf = true) (hp : g.allProductive = true)
    (lexs : List (List Nat)) (it : Ey.Item) (l : Nat)
    (hit : it ∈ (Ey.runRows g lexs).getD lexs.length [])
    (hl : (g.sym (g.atDot it.1)).lexeme = some l) : ∃ v, Ey.Accepts g (lexs ++ [l] :: v) := by
  have h0 := Ey.runRows_want g lexs lexs.length (by rw [Ey.runRows_len]; omega) it hit
  have h1 := Ey.want_mono g lexs [[l]] lexs.length it h0
  have h2 : Ey.Want g (lexs ++ [[l]]) (lexs.length + 1) (it.1 + 1, it.2) :=
    Ey.Want.scan (p := it.1) (i := it.2) h1 hl (by simp [List.getD_eq_getElem?_getD]) (by simp)
  obtain ⟨v, hv⟩ := Ey.want_viable g (Ey.wf_of_check g hw) (Ey.allProd_of_check g hp) _ _ _ h2
  refine ⟨v, ?_⟩
  have e : (lexs ++ [[l]]).take (lexs.length + 1) = lexs ++ [[l]] := by
    rw [List.take_of_length_le (by simp)]
  rw [e] at hv
  simpa using hv

/-- **the lexeme-level mask of the rows is exact**: a lexeme is allowed by the last row exactly when
`lexs` followed by it extends to an input the compiled grammar accepts. -/
theorem c05_earley_lexeme_mask_exact (g : Ey.CG) (hw : g.wf = true) (hn : g.nullableClosed = true)
    (hp : g.allProductive = true) (lexs : List (List Nat))
    (hc : Ey.rowsClosed g lexs (Ey.runRows g lexs) = true) (l : Nat) :
    l ∈ Ey.allowedLexemes g ((Ey.runRows g lexs).getD lexs.length []) ↔
      ∃ v, Ey.Accepts g (lexs ++ [l] :: v) := by
  unfold Ey.allowedLexemes
  rw [List.mem_filterMap]
  constructor
  · rintro ⟨it, hit, hl⟩
    exact c05_earley_allowed_lexeme_viable g hw hp lexs it l hit hl
  · rintro ⟨v, hv⟩
    obtain ⟨p, i, l', hwant, hl, hm⟩ := Ey.accepted_scans g (Ey.wf_of_check g hw)
      (Ey.nullClosed_of_check g hn) lexs [l] v hv
    have : l' = l := by simpa using hm
    subst this
    exact ⟨(p, i), c05_earley_rows_complete g lexs hc _ _ hwant (Nat.le_refl _), hl⟩

/-! non-vacuity: `S → a S | ε` as a compiled grammar (symbol 0 is the null symbol, rules start at
multiples of 4), input `a a`: all checks hold and the last row accepts -/
def exCG : Ey.CG :=
  { start := 1
    rhs := #[0, 0, 0, 0, 2, 1, 0, 0, 0, 0, 0, 0]
    lhsOf := #[0, 1, 1]
    syms := #[⟨[], false, none⟩, ⟨[4, 8], true, none⟩, ⟨[], false, some 0⟩] }
example : exCG.wf = true ∧ exCG.nullableClosed = true ∧ exCG.nullableSound = true ∧ exCG.allProductive = true ∧
    Ey.rowsClosed exCG [[0], [0]] (Ey.runRows exCG [[0], [0]]) = true ∧
    Ey.accepting exCG (Ey.runRows exCG [[0], [0]]) = true := by decide

end LlgVerif
