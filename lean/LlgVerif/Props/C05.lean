/-
C05 — a Lark context-free grammar admits exactly the grammar's language.

The Lean side is the *specification* the engine is compared with on every run: a chart recogniser
for arbitrary CFGs (empty productions, left/right/mutual recursion, ambiguity) whose answers are
proved to coincide with the declarative derivation relation `DL`, and the prefix-grammar
construction proved to capture "is a prefix of some derivable string".  The engine's Earley parser
itself is not modelled here; the tie is impl-vs-proved-spec (see DESIGN.md).
-/
import LlgVerif.Proofs.CfgPrefixMain
import LlgVerif.Proofs.Earley
namespace LlgVerif
namespace Cfg

abbrev G0 := Gram Nat

/-- chart over the prefix grammar for the input `w` -/
def specChart (G : G0) (s : Nat) (w : List B) (fuel : Nat) : Option (Chart (Nat × Bool)) :=
  chart? (preG G) [[Sym.nt (s, false)], [Sym.nt (s, true)]] w fuel

def acceptsC (c : Chart (Nat × Bool)) (s : Nat) (p : List B) : Bool := c.contains ([Sym.nt (s, false)], p)
def viableC (c : Chart (Nat × Bool)) (s : Nat) (p : List B) : Bool := c.contains ([Sym.nt (s, true)], p)

/-- **C05, complete strings.**  The spec decider says "accepted" for an infix `p` of the charted
input exactly when the grammar derives `p` from the start symbol. -/
theorem spec_accepts (G : G0) (s : Nat) (w : List B) (fuel : Nat) (c : Chart (Nat × Bool))
    (hp : allProductive G = true) (h : specChart G s w fuel = some c) (p : List B) (hpw : p <:+: w) :
    acceptsC c s p = true ↔ DL G [Sym.nt s] p := by
  unfold acceptsC
  rw [chart_correct (preG G) _ w fuel c h _ p (forms_start _ _ _ (by simp)) hpw]
  exact preG_same G hp s p

/-- **C05, prefixes.**  The spec decider says "viable" for `p` exactly when `p` is a prefix of some
string the grammar derives. -/
theorem spec_viable (G : G0) (s : Nat) (w : List B) (fuel : Nat) (c : Chart (Nat × Bool))
    (hp : allProductive G = true) (h : specChart G s w fuel = some c) (p : List B) (hpw : p <:+: w) :
    viableC c s p = true ↔ ∃ v, DL G [Sym.nt s] (p ++ v) := by
  unfold viableC
  rw [chart_correct (preG G) _ w fuel c h _ p (forms_start _ _ _ (by simp)) hpw]
  exact preG_prefix G hp s p

/-- a token (byte string `tok`) is allowed after `p` iff `p ++ tok` is still a prefix of a derivable
string — the statement the mask is compared with -/
theorem token_allowed_cfg (G : G0) (s : Nat) (w : List B) (fuel : Nat) (c : Chart (Nat × Bool))
    (hp : allProductive G = true) (h : specChart G s w fuel = some c) (p tok : List B)
    (hpw : (p ++ tok) <:+: w) :
    viableC c s (p ++ tok) = true ↔ ∃ v, DL G [Sym.nt s] (p ++ tok ++ v) :=
  spec_viable G s w fuel c hp h (p ++ tok) hpw

/-! non-vacuity: `S → "a" S "b" | ε` is productive and derives `ab` -/
def exG : G0 := [(0, [Sym.t 97 97, Sym.nt 0, Sym.t 98 98]), (0, [])]
example : allProductive exG = true := by decide
example : DL exG [Sym.nt 0] [97, 98] := by
  have h0 : DL exG [Sym.nt 0] [] := DL_single exG (β := []) (by simp [exG]) DL.nil
  have h1 : DL exG [Sym.t 97 97, Sym.nt 0, Sym.t 98 98] [97, 98] :=
    DL.t (by decide) (by decide) (DL_append exG h0 (DL.t (by decide) (by decide) DL.nil))
  exact DL_single exG (by simp [exG]) h1

end Cfg

/-! ### the Earley rows (mechanism model M4, tied to the parser's rows item by item)

`Ey.runRows` mirrors `scan` / `process_agenda` over the compiled grammar dump; on every run the
items of every row of the real parser are compared with it.  Soundness of the model: every item has
a derivation of the scanned lexemes, so an accepting last row means the start symbol derives the
input (relative to the grammar's rules and nullable flags; the flags are checked to be closed under
the rules when the dump is loaded). -/

theorem c05_earley_rows_sound (g : Ey.CG) (hw : g.wf = true) (lexs : List (List Nat)) :
    Ey.RowsOK g lexs (Ey.runRows g lexs) :=
  (Ey.runRows_ok g (Ey.wf_of_check g hw) lexs).1

theorem c05_earley_accept_sound (g : Ey.CG) (hw : g.wf = true) (lexs : List (List Nat))
    (h : Ey.accepting g (Ey.runRows g lexs) = true) : Ey.Der g lexs g.start 0 lexs.length :=
  Ey.accepting_sound g (Ey.wf_of_check g hw) lexs h

end LlgVerif
