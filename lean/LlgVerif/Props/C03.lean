/-
C03 — allowed tokens never lead into a dead end (abstract engine M6).

`NoDeadStep`: the byte recogniser never steps into a state from which no accepting state can be
reached (in the implementation: the lexer drops regex derivatives with empty language, rows only
list lexemes some item can scan).  Under that hypothesis and a byte-complete vocabulary, every
state reached through committed tokens is live, a live non-accepting state has a non-empty mask,
and a finite token sequence leads from it to an accepting state.  The harness checks the
hypothesis' observable consequences on the real engine at every state of its walks (mask
non-empty or accepting; a completion is found by search).
-/
import LlgVerif.Props.C01
import LlgVerif.Props.C02
namespace LlgVerif
open EngCfg

variable {S : Type}

/-- some byte string leads from `st` to an accepting state -/
def Live (c : EngCfg S) (st : S) : Prop :=
  ∃ w st', runBytes c.recog st w = some st' ∧ c.accepting st' = true

def NoDeadStep (c : EngCfg S) : Prop :=
  ∀ st b st', c.recog.step st b = some st' → Live c st'

/-- every byte is the text of some non-EOS token -/
def ByteComplete (c : EngCfg S) : Prop := ∀ b : Byte, ∃ t, t ≠ c.eos ∧ c.words[t]? = some [b]

theorem runBytes_last (r : Rec S) (st : S) (b : Byte) (bs : List Byte) (st' : S)
    (h : runBytes r st (b :: bs) = some st') : ∃ st0 b0, r.step st0 b0 = some st' := by
  induction bs generalizing st b with
  | nil =>
    rw [runBytes_cons] at h
    cases hs : r.step st b with
    | none => rw [hs] at h; cases h
    | some s1 =>
      rw [hs] at h
      simp only [Option.bind_some, runBytes, Option.some.injEq] at h
      subst h; exact ⟨st, b, hs⟩
  | cons b2 bs ih =>
    rw [runBytes_cons] at h
    cases hs : r.step st b with
    | none => rw [hs] at h; cases h
    | some s1 =>
      rw [hs] at h
      exact ih s1 b2 h

/-- a committed (non-EOS) token lands in a live state -/
theorem commit_live (c : EngCfg S) (hnd : NoDeadStep c) (s s' : EngState S) (t : Nat)
    (ht : t ≠ c.eos) (h : c.commit s t = some s') : Live c s'.st := by
  unfold commit at h
  by_cases hst : s.stopped = true
  · simp [hst] at h
  · simp only [hst, ht, ↓reduceIte, Bool.false_eq_true] at h
    cases hb : c.tokBytes t with
    | nil => simp [hb] at h
    | cons b bs =>
      simp only [hb] at h
      cases hrun : runBytes c.recog s.st (b :: bs) with
      | none => simp [hrun] at h
      | some st' =>
        simp only [hrun, Option.some.injEq] at h
        subst h
        obtain ⟨st0, b0, hstep⟩ := runBytes_last c.recog s.st b bs st' hrun
        exact hnd st0 b0 st' hstep

/-- **no empty mask.**  A live, non-accepting, not stopped state allows some non-EOS token. -/
theorem live_mask_nonempty (c : EngCfg S) (hbc : ByteComplete c) (s : EngState S)
    (hs : s.stopped = false) (hl : Live c s.st) (hna : c.accepting s.st = false) :
    ∃ t, t ≠ c.eos ∧ t ∈ c.mask s := by
  obtain ⟨w, st', hrun, hacc⟩ := hl
  cases w with
  | nil =>
    simp only [runBytes, Option.some.injEq] at hrun
    subst hrun; rw [hacc] at hna; cases hna
  | cons b w =>
    obtain ⟨t, ht, hw⟩ := hbc b
    refine ⟨t, ht, (mask_eq_commit c s hs t ht).mpr ?_⟩
    rw [runBytes_cons] at hrun
    cases hstep : c.recog.step s.st b with
    | none => rw [hstep] at hrun; cases hrun
    | some s1 =>
      unfold commit
      simp [hs, ht, tokBytes, hw, runBytes, hstep]

/-- commit a list of tokens one after the other -/
def commitAll (c : EngCfg S) : EngState S → List Nat → Option (EngState S)
  | s, [] => some s
  | s, t :: ts => (c.commit s t).bind (fun s' => commitAll c s' ts)

/-- **a completion exists.**  From a live state some finite sequence of (single-byte) tokens is
accepted token by token and ends in an accepting state. -/
theorem live_has_completion (c : EngCfg S) (hbc : ByteComplete c) (s : EngState S)
    (hs : s.stopped = false) (hl : Live c s.st) :
    ∃ ts s', commitAll c s ts = some s' ∧ c.accepting s'.st = true ∧ s'.stopped = false := by
  obtain ⟨w, st', hrun, hacc⟩ := hl
  induction w generalizing s with
  | nil =>
    simp only [runBytes, Option.some.injEq] at hrun
    exact ⟨[], s, rfl, by rw [hrun]; exact hacc, hs⟩
  | cons b w ih =>
    obtain ⟨t, ht, hw⟩ := hbc b
    rw [runBytes_cons] at hrun
    cases hstep : c.recog.step s.st b with
    | none => rw [hstep] at hrun; cases hrun
    | some s1 =>
      rw [hstep] at hrun
      simp only [Option.bind_some] at hrun
      have hc : c.commit s t = some { s with st := s1, tokens := s.tokens ++ [t] } := by
        unfold commit
        simp [hs, ht, tokBytes, hw, runBytes, hstep]
      obtain ⟨ts, s', h1, h2, h3⟩ := ih { s with st := s1, tokens := s.tokens ++ [t] } hs hrun
      exact ⟨t :: ts, s', by simp [commitAll, hc, h1], h2, h3⟩

/-- states reachable from `s0` by committing non-EOS tokens -/
inductive Reach (c : EngCfg S) (s0 : EngState S) : EngState S → Prop where
  | refl : Reach c s0 s0
  | step {s s' t} : Reach c s0 s → t ≠ c.eos → c.commit s t = some s' → Reach c s0 s'

theorem reach_not_stopped (c : EngCfg S) (s0 s : EngState S) (h0 : s0.stopped = false)
    (h : Reach c s0 s) : s.stopped = false := by
  induction h with
  | refl => exact h0
  | @step s1 s2 t _ ht hc ih =>
    unfold commit at hc
    simp only [ih, Bool.false_eq_true, ↓reduceIte, ht] at hc
    cases hb : c.tokBytes t with
    | nil => simp [hb] at hc
    | cons b bs =>
      simp only [hb] at hc
      cases hrun : runBytes c.recog s1.st (b :: bs) with
      | none => simp [hrun] at hc
      | some st' =>
        simp only [hrun, Option.some.injEq] at hc
        subst hc
        rfl

/-- **C03.**  If the recogniser never steps into a dead state, the start state is live and the
vocabulary covers every byte, then every state reachable through committed tokens is accepting or
has a non-empty mask, and can be completed by a finite token sequence to an accepting state. -/
theorem no_dead_end (c : EngCfg S) (hnd : NoDeadStep c) (hbc : ByteComplete c) (s0 s : EngState S)
    (h0 : s0.stopped = false) (hl0 : Live c s0.st) (hr : Reach c s0 s) :
    (c.accepting s.st = true ∨ ∃ t, t ≠ c.eos ∧ t ∈ c.mask s) ∧
    (∃ ts s', commitAll c s ts = some s' ∧ c.accepting s'.st = true ∧ s'.stopped = false) := by
  have hs := reach_not_stopped c s0 s h0 hr
  have hl : Live c s.st := by
    cases hr with
    | refl => exact hl0
    | step _ ht hc => exact commit_live c hnd _ _ _ ht hc
  refine ⟨?_, live_has_completion c hbc s hs hl⟩
  cases hacc : c.accepting s.st with
  | true => exact Or.inl rfl
  | false => exact Or.inr (live_mask_nonempty c hbc s hs hl hacc)

/-! non-vacuity: the recogniser of `a*b` (states 0, 1) with the vocabulary of all bytes -/
def exRec : Rec Nat := ⟨fun s b => if s = 0 ∧ b = 97 then some 0 else if s = 0 ∧ b = 98 then some 1 else none⟩
def exCfg : EngCfg Nat :=
  { recog := exRec, accepting := fun s => s == 1, words := (List.range 256).map (fun i => [UInt8.ofNat i]), eos := 256 }
example : NoDeadStep exCfg := by
  intro st b st' h
  simp only [exCfg, exRec] at h
  split at h
  · injection h with h; subst h
    exact ⟨[98], 1, by simp [exCfg, exRec, runBytes], rfl⟩
  · split at h
    · injection h with h; subst h
      exact ⟨[], 1, rfl, rfl⟩
    · cases h

end LlgVerif
