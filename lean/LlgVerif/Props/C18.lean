/-
C18 — stop, end-of-sequence and accepting status are consistent: the stop-sequence controller
(M9, `Model/Stop.lean`).  The Matcher / Constraint state machines are decided by impl-vs-oracle
runs and, for EOS/accepting, by `eos_iff_accepting` of C01.
-/
import LlgVerif.Proofs.StopRun
namespace LlgVerif
open StopCfg

/-- **stop_output_spec** — for every non-empty set of stop strings, every vocabulary and every
sequence of text tokens: either no stop string ends anywhere in the decoded text, everything
except a withheld tail has been returned (returned chunks ++ withheld bytes = the text) and the
withheld tail is at least as long as any partial stop string at the end of the text; or the
controller stopped exactly at the first position where a stop string ends and the returned
chunks concatenate to the text before that stop string. -/
theorem stop_output_spec (c : StopCfg) (hne : c.stops.isEmpty = false) (ts : List Nat)
    (hts : ∀ t ∈ ts, TextTok c t) :
    let r := run c init ts
    let all := allBytesOf c ts
    RunInv c r.1 r.2 all ∨ StoppedAt c r.1 r.2 all := by
  have := run_from c hne ts hts [] init [] (runInv_init c)
  simpa using this

/-- **nothing_after_stop** — once stopped, every later token returns nothing and changes nothing. -/
theorem nothing_after_stop (c : StopCfg) (s : StopSt) (hs : s.stopped = true) (ts : List Nat) :
    (run c s ts).1.flatten = [] ∧ (run c s ts).2 = s :=
  run_stopped c s hs ts

/-- **stop_token_flushes** — a stop token ends the run and releases exactly the withheld bytes. -/
theorem stop_token_flushes (c : StopCfg) (s : StopSt) (hs : s.stopped = false) (t : Nat)
    (ht : c.stopTokens.contains t = true) :
    c.commit s t = (s.pending, { s with stopped := true, pending := [] }) := by
  have ht' : t ∈ c.stopTokens := by simpa using ht
  unfold commit; simp [hs, ht']

/-- **withheld_covers_lookahead** — the truncation at a match never reaches into text that has
already been returned: a stop string ending inside freshly fed bytes `p` starts at most
`chop text` bytes before them. -/
theorem withheld_covers_lookahead (c : StopCfg) (text p : List SB) (hp : p ≠ []) (k : Nat)
    (h : c.matchLen (text ++ p) = some k) : k ≤ c.chop text + p.length :=
  match_reach c text p hp k h

/-- `valid_utf8_len` never exceeds its input (the returned chunk is a prefix of the buffer) -/
theorem validUtf8Len_bound (d : List SB) : validUtf8Len d ≤ d.length := validUtf8Len_le d

/-- Non-vacuity: stop string "st"; tokens "ab", "s", "ta": stops inside the third token and the
returned text is "ab". -/
example :
    let c : StopCfg := { stops := [[115, 116]], stopTokens := [], tokBytes := fun t => if t = 1 then [97, 98] else if t = 2 then [115] else [116, 97] }
    (run c init [1, 2, 3]).1 = [[97, 98], [], []] ∧ (run c init [1, 2, 3]).2.stopped = true := by
  decide

end LlgVerif
