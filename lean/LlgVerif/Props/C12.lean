/-
C12 — rolling back tokens restores exactly the earlier state (truncation arithmetic of M5/M6,
`Model/Cache.lean`; the engine-level statement is decided by impl-vs-oracle runs).
-/
import LlgVerif.Proofs.Rollback
namespace LlgVerif

/-- **rollback_commits** — for every state in which the per-byte bookkeeping is aligned, every
sequence of committed tokens (special tokens and a final EOS included) and `k` = its length:
rolling back `k` tokens restores every list exactly; a normal stop is undone. -/
theorem rollback_commits {LS} (v : Vocab) (s : RState LS) (hs : s.WF) (cs : List (Cmt LS))
    (hcs : ∀ c ∈ cs, c.WF v) (hne : cs ≠ []) :
    (cs.foldl (RState.apply v) s).rollback v cs.length = some { s with stopOk := false } := by
  obtain ⟨B, T, Ls, st, heq, h1, h3⟩ := apply_decomp v cs s hcs
  obtain ⟨w1, w2, w3⟩ := hs
  have hk : cs.length ≠ 0 := by
    intro h; exact hne (List.length_eq_zero_iff.mp h)
  rw [heq]
  unfold RState.rollback
  simp only [hk, ↓reduceIte, List.length_append, List.length_map]
  have hgt : ¬ cs.length > s.tokens.length + cs.length := by omega
  simp only [hgt, ↓reduceIte, Nat.add_sub_cancel]
  have hdrop : (s.tokens ++ cs.map Cmt.token).drop s.tokens.length = cs.map Cmt.token := by
    simp
  rw [hdrop, h3]
  simp only [h1, Nat.add_sub_cancel]
  have hc : ¬ (B.length > s.llmBytes.length + B.length ∨ B.length > s.byteTok.length + B.length) := by
    omega
  rw [if_neg hc]
  cases s with
  | mk tokens llmBytes pBytes byteTok lexStack stopOk =>
    simp only at w1 w2 w3
    simp only [Option.some.injEq, RState.mk.injEq, List.take_left', and_true,
      List.take_left, true_and]
    refine ⟨?_, ?_⟩
    · rw [w1]; simp
    · rw [w1, ← w3]; simp

/-- rolling back zero tokens is the identity; more than were committed is an error -/
theorem rollback_bounds {LS} (v : Vocab) (s : RState LS) :
    s.rollback v 0 = some s ∧ ∀ k, k > s.tokens.length → s.rollback v k = none := by
  constructor
  · simp [RState.rollback]
  · intro k hk
    have : k ≠ 0 := by omega
    simp [RState.rollback, this, hk]

/-- Non-vacuity: tokens 5 (`"ab"`) and 300 (special: `\xFF[300]`, 6 bytes), then EOS 7. -/
example :
    let v : Vocab := { bytes := fun t => if t = 5 then [97, 98] else if t = 300 then [0xFF, 60, 62] else [], eos := [7] }
    let s : RState Nat := { tokens := [], llmBytes := [], pBytes := [], byteTok := [], lexStack := [0], stopOk := false }
    ((([Cmt.tok 5 [1, 2], Cmt.tok 300 [3, 4, 5, 6, 7, 8], Cmt.eos 7 [9]] : List (Cmt Nat)).foldl (RState.apply v) s).rollback v 3)
      = some s := by
  intro v s
  simp [RState.rollback, RState.apply, RState.commit, RState.commitEos, bytesToDrop, Vocab.tokenLen,
    Vocab.decodeRaw, Vocab.isSpecial, specialTokenLen, digitsLoop, decodeSpecial, decDigits, v, s]

end LlgVerif
