/-
C12 — rolling back tokens restores exactly the earlier state (truncation arithmetic of M5/M6,
`Model/Cache.lean`; the engine-level statement is decided by impl-vs-oracle runs).
-/
import LlgVerif.Proofs.Rollback
namespace LlgVerif

/-- the state after committing the tokens `cs` and, optionally, a final bare EOS -/
def afterCommits {LS} (v : Vocab) (s : RState LS) (cs : List (Cmt LS)) (e : Option (Nat × List LS)) : RState LS :=
  match e with
  | none => cs.foldl (RState.apply v) s
  | some (t, extra) => (cs.foldl (RState.apply v) s).commitEos t extra

/-- **rollback_commits** — for every state in which the per-byte bookkeeping is aligned, every
sequence of committed tokens — special tokens and end-of-sequence tokens that the grammar consumes
*as tokens* included — optionally followed by the EOS that ends the sequence, and `k` = the number
of tokens: rolling back `k` tokens restores every list exactly; a normal stop is undone. -/
theorem rollback_commits {LS} (v : Vocab) (s : RState LS) (hs : s.WF) (hb : s.bareEos = false)
    (cs : List (Cmt LS)) (hcs : ∀ c ∈ cs, c.WF v) (e : Option (Nat × List LS))
    (hne : cs ≠ [] ∨ e.isSome = true) :
    (afterCommits v s cs e).rollback v (cs.length + (if e.isSome then 1 else 0)) =
      some { s with stopOk := false } := by
  obtain ⟨B, T, Ls, heq, h1, h3⟩ := apply_decomp v cs s hcs
  obtain ⟨w1, w2, w3⟩ := hs
  cases e with
  | none =>
    have hne' : cs ≠ [] := by rcases hne with h | h; exact h; simp at h
    have hk : cs.length ≠ 0 := fun h => hne' (List.length_eq_zero_iff.mp h)
    simp only [afterCommits, Option.isSome_none, Bool.false_eq_true, ↓reduceIte, Nat.add_zero]
    rw [heq]
    unfold RState.rollback
    simp only [hk, ↓reduceIte, List.length_append, List.length_map, hne']
    have hgt : ¬ cs.length > s.tokens.length + cs.length := by omega
    simp only [hgt, ↓reduceIte, Nat.add_sub_cancel]
    have hdrop : (s.tokens ++ cs.map Cmt.t).drop s.tokens.length = cs.map Cmt.t := by simp
    rw [hdrop]
    simp only [bytesToDrop, Bool.false_eq_true, ↓reduceIte, h3, h1, Nat.add_sub_cancel]
    have hc : ¬ (B.length > s.llmBytes.length + B.length ∨ B.length > s.byteTok.length + B.length) := by omega
    rw [if_neg hc]
    cases s with
    | mk tokens llmBytes pBytes byteTok lexStack stopOk bareEos =>
      simp only at w1 w2 w3 hb
      simp only [Option.some.injEq, RState.mk.injEq, List.take_left', and_true, List.take_left, true_and]
      refine ⟨?_, ?_, hb.symm⟩
      · rw [w1]; simp
      · rw [w1, ← w3]; simp
  | some te =>
    obtain ⟨t, extra⟩ := te
    simp only [afterCommits, Option.isSome_some, ↓reduceIte]
    rw [heq]
    unfold RState.rollback RState.commitEos
    have hk : cs.length + 1 ≠ 0 := by omega
    simp only [hk, ↓reduceIte, List.length_append, List.length_map, List.length_cons, List.length_nil]
    have hgt : ¬ cs.length + 1 > s.tokens.length + cs.length + (0 + 1) := by omega
    simp only [hgt, ↓reduceIte]
    have e1 : s.tokens.length + cs.length + (0 + 1) - (cs.length + 1) = s.tokens.length := by omega
    rw [e1]
    have hdrop : (s.tokens ++ cs.map Cmt.t ++ [t]).drop s.tokens.length = cs.map Cmt.t ++ [t] := by
      rw [List.append_assoc]; simp
    rw [hdrop]
    simp only [bytesToDrop, ↓reduceIte, List.dropLast_concat, h3, h1, Nat.add_sub_cancel]
    have hc : ¬ (B.length > s.llmBytes.length + B.length ∨ B.length > s.byteTok.length + B.length) := by omega
    rw [if_neg hc]
    cases s with
    | mk tokens llmBytes pBytes byteTok lexStack stopOk bareEos =>
      simp only at w1 w2 w3 hb
      simp only [Option.some.injEq, RState.mk.injEq, List.take_left', and_true, true_and]
      refine ⟨by rw [List.append_assoc]; simp, ?_, ?_, hb.symm⟩
      · rw [w1]; simp
      · rw [w1, ← w3, List.append_assoc]; simp

/-- rolling back zero tokens is the identity; more than were committed is an error -/
theorem rollback_bounds {LS} (v : Vocab) (s : RState LS) :
    s.rollback v 0 = some s ∧ ∀ k, k > s.tokens.length → s.rollback v k = none := by
  constructor
  · simp [RState.rollback]
  · intro k hk
    have : k ≠ 0 := by omega
    simp [RState.rollback, this, hk]

/-- Non-vacuity: tokens 5 (`"ab"`), 300 (special: `\xFF[300]`, 6 bytes), the EOS id 7 consumed *as a token*
(`\xFF[7]`, 4 bytes), then the EOS that ends the sequence. -/
example :
    let v : Vocab := { bytes := fun t => if t = 5 then [97, 98] else if t = 300 then [0xFF, 60, 62] else [], eos := [7] }
    let s : RState Nat := { tokens := [], llmBytes := [], pBytes := [], byteTok := [], lexStack := [0], stopOk := false, bareEos := false }
    (afterCommits v s [⟨5, [1, 2]⟩, ⟨300, [3, 4, 5, 6, 7, 8]⟩, ⟨7, [9, 10, 11, 12]⟩] (some (7, [13]))).rollback v 4 = some s := by
  intro v s
  simp [afterCommits, RState.rollback, RState.apply, RState.commit, RState.commitEos, bytesToDrop, Vocab.tokenLen,
    Vocab.decodeRaw, Vocab.isSpecial, specialTokenLen, digitsLoop, decodeSpecial, decDigits, v, s]

end LlgVerif
