/-
C06 / C07 — the schema IR and `Schema::intersect` (model M7, `Model/Schema.lean`).

`allOf`, `anyOf`, `oneOf`, `enum`, `const` and sibling keywords are all compiled by intersecting IR
nodes (`parser/src/json/schema.rs`).  The theorem: on the fragment without `oneOf` (M7 has every node
kind including objects; `$ref` and `patternProperties` are not modelled) the node `intersect` returns means exactly the
conjunction of its operands — for every JSON value, every recursion budget, every pair of nodes —
and `normalize` does not change the meaning.  `multipleOf` values are combined by the code's checked
least common multiple, which is shown to have exactly the common multiples (`c06_lcm_multiples`).
The model is tied to the code on every run: the hook `verif_intersect` prints the IR of two schema
documents and of their intersection, and `Sch.intersect` must print the same result (also on the
`oneOf` cases, where `normalize` consults `is_verifiably_disjoint_from`, and on the refusals).
-/
import LlgVerif.Proofs.SchemaLcm
import LlgVerif.Proofs.SchemaDisj
namespace LlgVerif
open Sch Js

/-- **the meaning of `Schema::intersect`.** -/
theorem c06_intersect_sat (ρ : String → String → Bool) (f : Nat) (a b r : Sch.Sch)
    (ha : Ok a = true) (hb : Ok b = true) (h : intersect Dec.checkedLcm f a b = some r) :
    Ok r = true ∧ ∀ v, sat ρ isMultDec r v = (sat ρ isMultDec a v && sat ρ isMultDec b v) :=
  intersect_good ρ isMultDec Dec.checkedLcm lcmOK_checked f a b r h ha hb

/-- `normalize` keeps the meaning -/
theorem c06_normalize_sat (ρ : String → String → Bool) (s : Sch.Sch) (hs : Ok s = true) :
    Ok (normalize s) = true ∧ ∀ v, sat ρ isMultDec (normalize s) v = sat ρ isMultDec s v :=
  normalize_sat ρ isMultDec s hs

/-- the multiples of `checked_lcm(a, b)` are the common multiples of `a` and `b` -/
theorem c06_lcm_multiples (a b d : Dec) (h : Dec.checkedLcm a b = some d) (x : Num) :
    isMultDec d x = (isMultDec a x && isMultDec b x) :=
  lcmOK_checked a b d h x

/-- `is_verifiably_disjoint_from` is sound, for every pair of nodes (`oneOf` and objects included) -/
theorem c06_disjoint_sound (ρ : String → String → Bool) (a b : Sch.Sch) (h : disj a b = true) (v : Json) :
    ¬ (sat ρ isMultDec a v = true ∧ sat ρ isMultDec b v = true) :=
  fun hab => disjoint_sound ρ isMultDec _ a b v h hab.1 hab.2

/-- the rewrite of `normalize`: a `oneOf` whose options are pairwise verifiably disjoint means the same as
the `anyOf` of its options -/
theorem c06_oneof_disjoint_is_anyof (ρ : String → String → Bool) (l : SchL) (h : pairwiseDisj l = true) (v : Json) :
    sat ρ isMultDec (.oneOf l) v = sat ρ isMultDec (.anyOf l) v := by
  simp only [sat]
  exact pairwise_count ρ isMultDec v l h

/-! non-vacuity: `{"type":"integer","minimum":0}` ∧ `{"type":"number","maximum":10}`, also under an
`anyOf`; 3 is in, 11 and `null` are out; and 1.5 is a multiple of `lcm(0.5, 0.75)` while 1 is not -/
def nA : NumS :=
  { minimum := some ⟨false, 0, 0⟩, maximum := none, exclusiveMinimum := none, exclusiveMaximum := none, integer := true, multipleOf := none }
def nB : NumS :=
  { minimum := none, maximum := some ⟨false, 10, 0⟩, exclusiveMinimum := none, exclusiveMaximum := none, integer := false, multipleOf := none }
def exA : Sch.Sch := .number nA
def exB : Sch.Sch := .number nB
example : Ok exA = true ∧ Ok exB = true ∧ Ok (.anyOf (.cons exA (.cons .null .nil))) = true := by decide
example : (intersect Dec.checkedLcm 2 exA exB).map (fun r => (sat (fun _ _ => true) isMultDec r (.num ⟨false, 3, 0⟩),
    sat (fun _ _ => true) isMultDec r (.num ⟨false, 11, 0⟩))) = some (true, false) := by decide
example : (intersect Dec.checkedLcm 2 (.anyOf (.cons exA (.cons .null .nil))) exB).map (fun r =>
    (sat (fun _ _ => true) isMultDec r (.num ⟨false, 3, 0⟩), sat (fun _ _ => true) isMultDec r .null)) = some (true, false) := by decide
example : Dec.checkedLcm ⟨5, 1⟩ ⟨75, 2⟩ = some ⟨15, 1⟩ ∧ isMultDec ⟨15, 1⟩ ⟨false, 15, -1⟩ = true ∧
    isMultDec ⟨15, 1⟩ ⟨false, 1, 0⟩ = false := by decide

end LlgVerif
