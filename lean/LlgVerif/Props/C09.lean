/-
C09 — repetition counts and length bounds are exact (M11 `Model/Repeat.lean`, and S2 `rep`).
-/
import LlgVerif.Proofs.Repeat
import LlgVerif.Proofs.RegexRep
namespace LlgVerif
open GExp

theorem counts_star_unit (e : GExp) (u : Nat) (h : HasUnit e u) (c : Nat) :
    counts (star e) c ↔ ∃ k, c = k * u := by
  simp only [counts, h _]
  constructor
  · rintro ⟨cs, hc, hall⟩
    refine ⟨cs.length, ?_⟩
    subst hc
    induction cs with
    | nil => simp
    | cons x xs ih =>
      have hx := hall x List.mem_cons_self
      have := ih (fun y hy => hall y (List.mem_cons_of_mem _ hy))
      simp only [List.sum_cons, List.length_cons, this, hx]
      ring
  · rintro ⟨k, hc⟩
    refine ⟨List.replicate k u, ?_, ?_⟩
    · simp [hc]
    · intro x hx; exact (List.mem_replicate.mp hx).2

/-- **repeat_counts** — for every block size `K ≥ 1` and all `m ≤ n`: the grammar built by
`GrammarBuilder::repeat(elt, m, Some(n))` derives exactly the repetition counts `m..n`;
`repeat(elt, m, None)` derives exactly the counts `≥ m`; `m > n` is the Rust `assert!`. -/
theorem repeat_counts (K : Nat) (hK : 1 ≤ K) (m : Nat) :
    (∀ n g c, repeat? K elt m (some n) = some g → (counts g c ↔ m ≤ c ∧ c ≤ n)) ∧
    (∀ g c, repeat? K elt m none = some g → (counts g c ↔ m ≤ c)) ∧
    (∀ n, m > n → repeat? K elt m (some n) = none) := by
  have hu := hasUnit_elt
  refine ⟨?_, ?_, ?_⟩
  · intro n g c hg
    unfold repeat? at hg
    simp only at hg
    split at hg
    · simp at hg
    · rename_i hle
      split at hg
      · rename_i heq
        injection hg with hg; subst hg
        rw [counts_repeatExact K m elt 1 hu m c]
        omega
      · split at hg
        · rename_i h0
          injection hg with hg; subst hg
          rw [counts_atMost K n hK elt 1 hu n c]
          constructor
          · rintro ⟨j, hj, hc⟩; omega
          · rintro ⟨_, hc⟩; exact ⟨c, hc, by omega⟩
        · injection hg with hg; subst hg
          simp only [counts, counts.countsSeq, counts_repeatExact K m elt 1 hu m _,
            counts_atMost K (n - m) hK elt 1 hu (n - m) _]
          constructor
          · rintro ⟨a, b, hc, ha, b', z, hb, ⟨j, hj, hb'⟩, hz⟩; omega
          · rintro ⟨h1, h2⟩
            exact ⟨m * 1, c - m, by omega, rfl, c - m, 0, by omega, ⟨c - m, by omega, by omega⟩, rfl⟩
  · intro g c hg
    simp only [repeat?, Option.some.injEq] at hg
    subst hg
    unfold atLeast
    split
    · rename_i h0; subst h0
      rw [counts_star_unit elt 1 hu]
      constructor
      · intro _; omega
      · intro _; exact ⟨c, by omega⟩
    · simp only [counts, counts.countsSeq, counts_repeatExact K m elt 1 hu m _]
      have hs := counts_star_unit elt 1 hu
      simp only [counts] at hs
      constructor
      · rintro ⟨a, b, hc, ha, b', z, hb, hb', hz⟩; omega
      · intro hc
        exact ⟨m * 1, c - m, by omega, rfl, c - m, 0, by omega, (hs _).mpr ⟨c - m, by omega⟩, rfl⟩
  · intro n hmn
    simp [repeat?, hmn]

/-- the intermediate builders, for every `K ≥ 1`, any fuel and any element of unit count `u` -/
theorem repeatExact_counts (K fuel : Nat) (e : GExp) (u : Nat) (h : HasUnit e u) (n c : Nat) :
    counts (repeatExact K fuel e n) c ↔ c = n * u :=
  counts_repeatExact K fuel e u h n c

theorem atMost_counts (K fuel : Nat) (hK : 1 ≤ K) (e : GExp) (u : Nat) (h : HasUnit e u) (n c : Nat) :
    counts (atMost K fuel e n) c ↔ ∃ j, j ≤ n ∧ c = j * u :=
  counts_atMost K fuel hK e u h n c

/-- regex-level repetition `r{m,n}` / `r{m,}` (S2) -/
theorem regex_repeat_counts (r : Rx) (m : Nat) (n : Option Nat) (w : List B) :
    Rx.lang (Rx.rep r m n) w ↔
      ∃ c, m ≤ c ∧ (match n with | some n => c ≤ max m n | none => True) ∧ Rx.pow (Rx.lang r) c w :=
  Rx.rep_counts r m n w

/-- Non-vacuity: K = 4, `elt{3,14}` uses the factored branch of `at_most` (11 ≥ 12 is false: list
branch) and `elt{0,13}` the factored one; both are defined. -/
example : (repeat? 4 elt 3 (some 14)).isSome = true ∧ (repeat? 4 elt 0 (some 13)).isSome = true := by
  decide

end LlgVerif
