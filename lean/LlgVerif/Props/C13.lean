/-
C13 — fast-forward bytes and tokens are genuinely forced and change nothing (abstract M6).
-/
import LlgVerif.Props.C02
namespace LlgVerif

variable {S : Type}

theorem mem_probeOrder (b0 : Nat) (b : Byte) : b ∈ probeOrder b0 := by
  unfold probeOrder
  rw [List.mem_map]
  refine ⟨(b.toNat + 256 - b0 % 256) % 256, List.mem_range.mpr (Nat.mod_lt _ (by decide)), ?_⟩
  have hb := UInt8.toNat_lt b
  have h1 : (b0 + (b.toNat + 256 - b0 % 256) % 256) % 256 = b.toNat := by omega
  simp [byteOfNat, h1]

/-- the loop answers `some b` only when `b` is accepted and no other byte of the list is -/
theorem probeLoop_sound (r : Rec S) (s : S) (l : List Byte) (found : Option Byte) (b : Byte)
    (h : probeLoop r s l found = some b) :
    (found = some b ∧ ∀ x ∈ l, (r.step s x).isSome = false) ∨
    (found = none ∧ b ∈ l ∧ (r.step s b).isSome = true ∧
      ∀ x ∈ l, (r.step s x).isSome = true → x = b) := by
  induction l generalizing found with
  | nil => left; exact ⟨h, by simp⟩
  | cons y ys ih =>
    simp only [probeLoop] at h
    by_cases hy : (r.step s y).isSome = true
    · simp only [hy, ↓reduceIte] at h
      cases found with
      | some f => simp at h
      | none =>
        simp only at h
        rcases ih (some y) h with ⟨h1, h2⟩ | ⟨h1, _⟩
        · right
          injection h1 with h1; subst h1
          refine ⟨rfl, List.mem_cons_self, hy, ?_⟩
          intro x hx hxs
          rcases List.mem_cons.mp hx with rfl | hx'
          · rfl
          · rw [h2 x hx'] at hxs; simp at hxs
        · simp at h1
    · have hy' : (r.step s y).isSome = false := by simpa using hy
      simp only [hy', Bool.false_eq_true, ↓reduceIte] at h
      rcases ih found h with ⟨h1, h2⟩ | ⟨h1, h2, h3, h4⟩
      · left
        refine ⟨h1, ?_⟩
        intro x hx
        rcases List.mem_cons.mp hx with rfl | hx'
        · exact hy'
        · exact h2 x hx'
      · right
        refine ⟨h1, List.mem_cons_of_mem _ h2, h3, ?_⟩
        intro x hx hxs
        rcases List.mem_cons.mp hx with rfl | hx'
        · rw [hy'] at hxs; simp at hxs
        · exact h4 x hx' hxs

/-- **forcedByte_unique** — a byte reported by the exhaustive probe (whatever byte the probe
starts from) is accepted, is the only accepted byte, and the state is not accepting. -/
theorem forcedByte_unique (r : Rec S) (accepting : S → Bool) (s : S) (b0 : Nat) (b : Byte)
    (h : forcedByte r accepting s none b0 = some b) :
    accepting s = false ∧ (r.step s b).isSome = true ∧ ∀ x : Byte, (r.step s x).isSome = true → x = b := by
  unfold forcedByte at h
  split at h
  · simp at h
  · rename_i hacc
    simp only at h
    rcases probeLoop_sound r s (probeOrder b0) none b h with ⟨h1, _⟩ | ⟨_, _, h3, h4⟩
    · simp at h1
    · exact ⟨by simpa using hacc, h3, fun x hx => h4 x (mem_probeOrder b0 x) hx⟩

/-- **forced_prefix_of_every_completion** — the bytes pushed by `force_bytes` are a prefix of
every complete output reachable from the state, and the rest of that output is accepted from the
state reached: forcing changes nothing about what can still be generated. -/
theorem forced_prefix_of_every_completion (r : Rec S) (accepting : S → Bool) (b0 fuel : Nat) (s : S)
    (w : List Byte) (sw : S) (hw : runBytes r s w = some sw) (hacc : accepting sw = true) :
    let f := forceBytes r accepting b0 fuel s
    ∃ rest, w = f.1 ++ rest ∧ runBytes r f.2 rest = some sw := by
  induction fuel generalizing s w with
  | zero => exact ⟨w, rfl, hw⟩
  | succ fuel ih =>
    simp only [forceBytes]
    cases hf : forcedByte r accepting s none b0 with
    | none => exact ⟨w, rfl, hw⟩
    | some b =>
      obtain ⟨hna, hstep, huniq⟩ := forcedByte_unique r accepting s b0 b hf
      cases hs : r.step s b with
      | none => rw [hs] at hstep; simp at hstep
      | some s' =>
        simp only
        cases w with
        | nil =>
          simp only [runBytes, Option.some.injEq] at hw
          subst hw; rw [hna] at hacc; simp at hacc
        | cons x w' =>
          simp only [runBytes] at hw
          cases hx : r.step s x with
          | none => rw [hx] at hw; simp at hw
          | some sx =>
            have hxb : x = b := huniq x (by rw [hx]; rfl)
            subst hxb
            rw [hs] at hx; injection hx with hx; subst hx
            rw [hs] at hw
            obtain ⟨rest, h1, h2⟩ := ih s' w' hw
            simp only [hs]
            exact ⟨rest, by simp [h1], h2⟩

/-- **ff_tokens_accepted** — tokens whose bytes concatenate to a prefix of the forced bytes can
be committed one after the other, and afterwards exactly the remaining forced bytes are left. -/
theorem ff_tokens_accepted (c : EngCfg S) (s : EngState S) (hs : s.stopped = false) (b0 fuel : Nat)
    (ts : List Nat) (hts : TextTokens c ts) (tail : List Byte)
    (hpre : (forceBytes c.recog c.accepting b0 fuel s.st).1 = ts.flatMap c.tokBytes ++ tail)
    (hrun : ∃ e, runBytes c.recog s.st (forceBytes c.recog c.accepting b0 fuel s.st).1 = some e) :
    (commits c s ts).isSome = true := by
  obtain ⟨e, he⟩ := hrun
  rw [hpre, runBytes_append] at he
  have h := (commit_factors_through_bytes c ts s hs hts).1
  rw [h]
  cases hr : runBytes c.recog s.st (ts.flatMap c.tokBytes) with
  | none => rw [hr] at he; simp at he
  | some x => rfl

/-- the forced bytes are themselves accepted (needed by `ff_tokens_accepted`) -/
theorem forceBytes_runs (r : Rec S) (accepting : S → Bool) (b0 fuel : Nat) (s : S) :
    runBytes r s (forceBytes r accepting b0 fuel s).1 = some (forceBytes r accepting b0 fuel s).2 := by
  induction fuel generalizing s with
  | zero => rfl
  | succ fuel ih =>
    simp only [forceBytes]
    cases hf : forcedByte r accepting s none b0 with
    | none => simp [runBytes]
    | some b =>
      cases hs : r.step s b with
      | none => simp [hs, runBytes]
      | some s' => simp only [hs, runBytes, ih]

-- Non-vacuity: in a state that accepts only the byte `a` and is not accepting, `a` is what the
-- probe reports, from any starting byte.
set_option maxRecDepth 8000 in
example :
    let r : Rec Nat := ⟨fun q b => if q = 0 ∧ b = 97 then some 1 else none⟩
    forcedByte r (fun q => q == 1) 0 none 32 = some 97 ∧ forcedByte r (fun q => q == 1) 0 none 200 = some 97 := by
  decide

end LlgVerif
