/-
C19 — special tokens are allowed only where the grammar names them: the token-range arithmetic
(`Model/TokRanges.lean`) and the marker argument over the abstract engine.
-/
import LlgVerif.Model.TokRanges
import LlgVerif.Props.C01
namespace LlgVerif

theorem mem_insertByStart (x y : TRange) (l : List TRange) : y ∈ insertByStart x l ↔ y = x ∨ y ∈ l := by
  induction l with
  | nil => simp [insertByStart]
  | cons z zs ih =>
    simp only [insertByStart]
    split
    · simp only [List.mem_cons, ih]
      constructor
      · rintro (h | h | h)
        · exact Or.inr (Or.inl h)
        · exact Or.inl h
        · exact Or.inr (Or.inr h)
      · rintro (h | h | h)
        · exact Or.inr (Or.inl h)
        · exact Or.inl h
        · exact Or.inr (Or.inr h)
    · simp

def SortedByStart : List TRange → Prop
  | [] => True
  | x :: xs => (∀ y ∈ xs, x.1 ≤ y.1) ∧ SortedByStart xs

theorem sorted_insertByStart (x : TRange) (l : List TRange) (h : SortedByStart l) :
    SortedByStart (insertByStart x l) := by
  induction l with
  | nil => simp [insertByStart, SortedByStart]
  | cons z zs ih =>
    obtain ⟨h1, h2⟩ := h
    simp only [insertByStart]
    split
    · rename_i hz
      refine ⟨?_, ih h2⟩
      intro y hy
      rcases (mem_insertByStart x y zs).mp hy with rfl | hy'
      · exact hz
      · exact h1 y hy'
    · rename_i hz
      refine ⟨?_, h1, h2⟩
      intro y hy
      rcases List.mem_cons.mp hy with rfl | hy'
      · omega
      · have := h1 y hy'; omega

theorem sortByStart_spec (rs : List TRange) :
    SortedByStart (sortByStart rs) ∧ ∀ y, y ∈ sortByStart rs ↔ y ∈ rs := by
  unfold sortByStart
  suffices h : ∀ acc, SortedByStart acc →
      SortedByStart (rs.foldl (fun acc x => insertByStart x acc) acc) ∧
      ∀ y, y ∈ rs.foldl (fun acc x => insertByStart x acc) acc ↔ y ∈ rs ∨ y ∈ acc by
    have := h [] trivial
    exact ⟨this.1, fun y => by simpa using this.2 y⟩
  induction rs with
  | nil => intro acc h; exact ⟨h, by simp⟩
  | cons x xs ih =>
    intro acc h
    obtain ⟨h1, h2⟩ := ih (insertByStart x acc) (sorted_insertByStart x acc h)
    refine ⟨h1, ?_⟩
    intro y
    simp only [List.foldl_cons, h2, mem_insertByStart, List.mem_cons]
    constructor
    · rintro (h | h | h)
      · exact Or.inl (Or.inr h)
      · exact Or.inl (Or.inl h)
      · exact Or.inr h
    · rintro ((h | h) | h)
      · exact Or.inr (Or.inl h)
      · exact Or.inl h
      · exact Or.inr (Or.inr h)

theorem inRanges_iff (rs : List TRange) (t : Nat) : inRanges rs t = true ↔ ∃ r ∈ rs, r.1 ≤ t ∧ t ≤ r.2 := by
  simp [inRanges]

/-- loop invariant: below `cur` the accumulated ranges are exactly the complement of the ranges
seen so far; every range seen ends below `cur`; every point already put into the complement lies
below the start of every range still to come (the input is sorted by start) -/
theorem negLoop_spec (rest : List TRange) (cur : Nat) (acc seen : List TRange)
    (hs : SortedByStart rest) (hwf : ∀ r ∈ rest, r.1 ≤ r.2)
    (hinv : ∀ t, inRanges acc t = true ↔ (t < cur ∧ inRanges seen t = false))
    (hseen : ∀ r ∈ seen, r.2 < cur)
    (hgap : ∀ t, inRanges acc t = true → ∀ r ∈ rest, t < r.1) :
    let res := negLoop rest cur acc
    cur ≤ res.1 ∧
    (∀ t, inRanges res.2 t = true ↔ (t < res.1 ∧ inRanges (seen ++ rest) t = false)) ∧
    (∀ r ∈ seen ++ rest, r.2 < res.1) := by
  induction rest generalizing cur acc seen with
  | nil =>
    simp only [negLoop, List.append_nil]
    exact ⟨Nat.le_refl _, hinv, hseen⟩
  | cons x xs ih =>
    obtain ⟨s, e⟩ := x
    obtain ⟨hx1, hx2⟩ := hs
    have hse : s ≤ e := hwf (s, e) List.mem_cons_self
    have hwf' : ∀ r ∈ xs, r.1 ≤ r.2 := fun r hr => hwf r (List.mem_cons_of_mem _ hr)
    have happ : seen ++ (s, e) :: xs = (seen ++ [(s, e)]) ++ xs := by simp
    have hsn : ∀ t, inRanges (seen ++ [(s, e)]) t = (inRanges seen t || (decide (s ≤ t) && decide (t ≤ e))) := by
      intro t; simp [inRanges]
    have hnotseen : ∀ t, cur ≤ t → inRanges seen t = false := by
      intro t hct
      cases hh : inRanges seen t with
      | false => rfl
      | true =>
        obtain ⟨r, hr, _, h2⟩ := (inRanges_iff seen t).mp hh
        have := hseen r hr; omega
    have haccbelow : ∀ t, inRanges acc t = true → t < s := fun t ht => hgap t ht (s, e) List.mem_cons_self
    simp only [negLoop]
    split
    · -- range already covered
      rename_i hlt
      have h := ih cur acc (seen ++ [(s, e)]) hx2 hwf'
        (by
          intro t
          rw [hsn t]
          constructor
          · intro hacc
            have h1 := (hinv t).mp hacc
            have h2 := haccbelow t hacc
            have : ¬ s ≤ t := by omega
            exact ⟨h1.1, by simp [h1.2, this]⟩
          · rintro ⟨h1, h2⟩
            apply (hinv t).mpr
            refine ⟨h1, ?_⟩
            cases hh : inRanges seen t with
            | false => rfl
            | true => simp [hh] at h2)
        (by
          intro r hr
          rcases List.mem_append.mp hr with h | h
          · exact hseen r h
          · simp at h; subst h; exact hlt)
        (by
          intro t ht r hr
          exact hgap t ht r (List.mem_cons_of_mem _ hr))
      rw [happ]; exact h
    · rename_i hge
      have hge' : cur ≤ e := by omega
      have h := ih (max cur (e + 1)) (if s > cur then acc ++ [(cur, s - 1)] else acc) (seen ++ [(s, e)]) hx2 hwf'
        (by
          intro t
          rw [hsn t]
          have hnew : inRanges (if s > cur then acc ++ [(cur, s - 1)] else acc) t =
              (inRanges acc t || (decide (s > cur) && decide (cur ≤ t) && decide (t ≤ s - 1))) := by
            split
            · rename_i hgt; simp [inRanges, hgt]
            · rename_i hle; simp [hle]
          rw [hnew]
          by_cases hlt : t < cur
          · -- below cur: only the old complement matters, and it lies below s
            have hn2 : ¬ cur ≤ t := by omega
            simp only [hn2, decide_false, Bool.and_false, Bool.false_and, Bool.or_false]
            constructor
            · intro hacc
              have h1 := (hinv t).mp hacc
              have h2 := haccbelow t hacc
              have : ¬ s ≤ t := by omega
              exact ⟨by omega, by simp [h1.2, this]⟩
            · rintro ⟨_, h2⟩
              apply (hinv t).mpr
              refine ⟨hlt, ?_⟩
              cases hh : inRanges seen t with
              | false => rfl
              | true => simp [hh] at h2
          · have hct : cur ≤ t := by omega
            have hacc : inRanges acc t = false := by
              cases hh : inRanges acc t with
              | false => rfl
              | true => have := ((hinv t).mp hh).1; omega
            rw [hacc, hnotseen t hct]
            simp only [Bool.false_or, hct, decide_true, Bool.and_true, Bool.and_eq_true,
              decide_eq_true_eq, Bool.or_eq_false_iff, Bool.and_eq_false_iff,
              decide_eq_false_iff_not, true_and]
            constructor
            · rintro ⟨h1, h2⟩; exact ⟨by omega, by omega⟩
            · rintro ⟨h1, h2⟩; omega)
        (by
          intro r hr
          rcases List.mem_append.mp hr with h | h
          · have := hseen r h; omega
          · simp at h; subst h; simp; omega)
        (by
          intro t ht r hr
          have hsr : s ≤ r.1 := hx1 r hr
          split at ht
          · rename_i hgt
            have : inRanges (acc ++ [(cur, s - 1)]) t = (inRanges acc t || (decide (cur ≤ t) && decide (t ≤ s - 1))) := by
              simp [inRanges]
            rw [this] at ht
            cases hh : inRanges acc t with
            | true => have := haccbelow t hh; omega
            | false =>
              simp only [hh, Bool.false_or, Bool.and_eq_true, decide_eq_true_eq] at ht
              omega
          · have := haccbelow t ht; omega)
      rw [happ]
      exact ⟨by omega, h.2.1, h.2.2⟩

theorem negLoop_cur_le (rest : List TRange) (cur : Nat) (acc : List TRange) (B : Nat)
    (hc : cur ≤ B) (hb : ∀ r ∈ rest, r.2 < B) : (negLoop rest cur acc).1 ≤ B := by
  induction rest generalizing cur acc with
  | nil => simpa [negLoop] using hc
  | cons x xs ih =>
    obtain ⟨s, e⟩ := x
    have he : e < B := hb (s, e) List.mem_cons_self
    have hb' : ∀ r ∈ xs, r.2 < B := fun r hr => hb r (List.mem_cons_of_mem _ hr)
    simp only [negLoop]
    split
    · exact ih cur acc hc hb'
    · exact ih _ _ (by omega) hb'

/-- **negatedRanges_correct** — for every vocabulary size and every non-empty list of valid
ranges: a token id below `vocab` is in the negated ranges iff it is in none of the given ranges;
and no id at or above `vocab` is in them. -/
theorem negatedRanges_correct (vocab : Nat) (rs out : List TRange)
    (h : negatedRanges? vocab rs = some out) (t : Nat) :
    inRanges out t = true ↔ (t < vocab ∧ inRanges rs t = false) := by
  unfold negatedRanges? at h
  split at h
  · simp at h
  split at h
  · simp at h
  rename_i hne hbad
  injection h with h
  have hvalid : ∀ r ∈ rs, r.2 < vocab ∧ r.1 ≤ r.2 := by
    intro r hr
    have := hbad
    simp only [List.any_eq_true, Bool.or_eq_true, Bool.not_eq_eq_eq_not, Bool.not_true,
      decide_eq_false_iff_not, not_exists, not_and, not_or, Decidable.not_not] at this
    exact this r hr
  obtain ⟨hsorted, hmem⟩ := sortByStart_spec rs
  have hspec := negLoop_spec (sortByStart rs) 0 [] [] hsorted
    (fun r hr => (hvalid r ((hmem r).mp hr)).2)
    (by intro t; simp [inRanges])
    (by simp) (by intro t ht; simp [inRanges] at ht)
  simp only [List.nil_append] at hspec
  obtain ⟨_, h2, h3⟩ := hspec
  have hsame : ∀ t, inRanges (sortByStart rs) t = inRanges rs t := by
    intro t
    cases h1 : inRanges rs t with
    | true =>
      obtain ⟨r, hr, hb⟩ := (inRanges_iff rs t).mp h1
      exact (inRanges_iff _ t).mpr ⟨r, (hmem r).mpr hr, hb⟩
    | false =>
      cases h1' : inRanges (sortByStart rs) t with
      | false => rfl
      | true =>
        obtain ⟨r, hr, hb⟩ := (inRanges_iff _ t).mp h1'
        have := (inRanges_iff rs t).mpr ⟨r, (hmem r).mp hr, hb⟩
        rw [h1] at this; simp at this
  have hcurle : (negLoop (sortByStart rs) 0 []).1 ≤ vocab :=
    negLoop_cur_le (sortByStart rs) 0 [] vocab (Nat.zero_le _)
      (fun r hr => (hvalid r ((hmem r).mp hr)).1)
  have hvpos : 0 < vocab := by
    cases hrs : rs with
    | nil => simp [hrs] at hne
    | cons r _ => have := (hvalid r (by simp [hrs])).1; omega
  subst h
  split
  · rename_i hle
    have : inRanges ((negLoop (sortByStart rs) 0 []).2 ++ [((negLoop (sortByStart rs) 0 []).1, vocab - 1)]) t =
        (inRanges (negLoop (sortByStart rs) 0 []).2 t || (decide ((negLoop (sortByStart rs) 0 []).1 ≤ t) && decide (t ≤ vocab - 1))) := by
      simp [inRanges]
    rw [this, ← hsame t]
    by_cases hlt : t < (negLoop (sortByStart rs) 0 []).1
    · have hn : ¬ (negLoop (sortByStart rs) 0 []).1 ≤ t := by omega
      simp only [hn, decide_false, Bool.false_and, Bool.or_false, h2 t]
      constructor
      · rintro ⟨_, hh⟩; exact ⟨by omega, hh⟩
      · rintro ⟨_, hh⟩; exact ⟨hlt, hh⟩
    · have hct : (negLoop (sortByStart rs) 0 []).1 ≤ t := by omega
      have hfree : inRanges (sortByStart rs) t = false := by
        cases hh : inRanges (sortByStart rs) t with
        | false => rfl
        | true =>
          obtain ⟨r, hr, _, hb2⟩ := (inRanges_iff _ t).mp hh
          have := h3 r hr; omega
      have hnot : inRanges (negLoop (sortByStart rs) 0 []).2 t = false := by
        cases hh : inRanges (negLoop (sortByStart rs) 0 []).2 t with
        | false => rfl
        | true => have := ((h2 t).mp hh).1; omega
      simp only [hnot, hct, decide_true, Bool.true_and, Bool.false_or, decide_eq_true_eq, hfree, and_true]
      omega
  · rename_i hgt
    rw [h2 t, ← hsame t]
    constructor
    · rintro ⟨h1, hh⟩; exact ⟨by omega, hh⟩
    · rintro ⟨h1, hh⟩; exact ⟨by omega, hh⟩


/-- **no_marker_in_text** — if the recogniser (a grammar matching text) never accepts the marker
byte `0xFF`, then no token whose bytes start with the marker (a special token) is reported by the
trie walk, whatever the rest of its name spells; only the separate range/EOS paths can add it. -/
theorem no_marker_in_text {S : Type} (r : Rec S) (words : List (List Byte)) (s0 : S)
    (hno : ∀ s, r.step s 0xFF = none) (t : Nat) (rest : List Byte)
    (ht : words[t]? = some (0xFF :: rest)) :
    t ∉ addBias r (flatten (buildTree words)) words.length s0 [] := by
  intro hm
  obtain ⟨w, h1, _, h3⟩ := (walk_eq_filter r words s0 t).mp hm
  rw [ht] at h1
  injection h1 with h1
  subst h1
  simp [runBytes, hno s0] at h3

/-- **ranges_exact** (membership form) — ids added through `allow_range` for a list of ranges are
exactly the ids the ranges denote -/
theorem ranges_exact (rs : List TRange) (t : Nat) :
    inRanges rs t = true ↔ ∃ r ∈ rs, r.1 ≤ t ∧ t ≤ r.2 := inRanges_iff rs t

/-- Non-vacuity: vocabulary of 10 ids, `<[^2-3,7]>`. -/
example : negatedRanges? 10 [(7, 7), (2, 3)] = some [(0, 1), (4, 6), (8, 9)] := by decide

end LlgVerif
