/-
C14 — clones are independent and results do not depend on scheduling (M8 `Model/Shared.lean`).
Mutual exclusion, memory safety and panics of real threads are Rust's and `Mutex`'s business and
are not in the model; the sticky error flag under exhausted limits is outside the claim.
-/
import LlgVerif.Model.Shared
namespace LlgVerif

variable {C : Type} [DecidableEq C]

theorem intern_spec (tbl : List C) (c : C) :
    (intern tbl c).2[(intern tbl c).1]? = some c ∧ ∃ ext, (intern tbl c).2 = tbl ++ ext := by
  unfold intern
  simp only
  split
  · rename_i h
    refine ⟨?_, [], by simp⟩
    simp only
    rw [List.getElem?_eq_getElem h]
    simp [List.getElem_idxOf]
  · refine ⟨by simp, [c], rfl⟩

/-- the view of the clones: the content each clone's id denotes -/
def views (st : List C × List Nat) : List (Option C) := st.2.map (fun q => st.1[q]?)

theorem getElem?_append_some (a b : List C) (q : Nat) (c : C) (h : a[q]? = some c) :
    (a ++ b)[q]? = some c := by
  have hq : q < a.length := by
    apply Nat.lt_of_not_le; intro hle
    rw [List.getElem?_eq_none_iff.mpr hle] at h; simp at h
  rw [List.getElem?_append_left hq]; exact h

/-- one atomic step changes only the stepping clone's view, by the pure transition -/
theorem sharedStep_views (delta : C → Nat → C) (st : List C × List Nat) (op : Nat × Nat)
    (hwf : ∀ (j q : Nat), st.2[j]? = some q → ∃ c, st.1[q]? = some c) (j : Nat) :
    (views (sharedStep delta st op))[j]? =
      if j = op.1 then ((views st)[j]?).map (fun v => v.map (fun c => delta c op.2))
      else (views st)[j]? := by
  obtain ⟨tbl, ids⟩ := st
  obtain ⟨i, b⟩ := op
  simp only [sharedStep, views]
  cases hi : ids[i]? with
  | none =>
    simp only
    split
    · rename_i hj; subst hj; simp [hi]
    · rfl
  | some q =>
    obtain ⟨c, hc⟩ := hwf i q hi
    simp only [hc]
    obtain ⟨h1, ext, h2⟩ := intern_spec tbl (delta c b)
    simp only [List.getElem?_map, List.getElem?_set]
    by_cases hj : j = i
    · subst hj
      have hlt : j < ids.length := by
        apply Nat.lt_of_not_le; intro hle
        rw [List.getElem?_eq_none_iff.mpr hle] at hi; simp at hi
      simp only [↓reduceIte, hlt, Option.map_some, h1, hi, hc]
    · have hne : ¬ i = j := fun h => hj h.symm
      simp only [hne, ↓reduceIte, hj]
      cases hq : ids[j]? with
      | none => rfl
      | some q' =>
        obtain ⟨c', hc'⟩ := hwf j q' hq
        simp only [Option.map_some, hc']
        rw [h2]; exact congrArg some (getElem?_append_some tbl ext q' c' hc')

theorem sharedStep_wf (delta : C → Nat → C) (st : List C × List Nat) (op : Nat × Nat)
    (hwf : ∀ (j q : Nat), st.2[j]? = some q → ∃ c, st.1[q]? = some c) :
    ∀ (j q : Nat), (sharedStep delta st op).2[j]? = some q → ∃ c, (sharedStep delta st op).1[q]? = some c := by
  obtain ⟨tbl, ids⟩ := st
  obtain ⟨i, b⟩ := op
  intro j q hq
  simp only [sharedStep] at hq ⊢
  cases hi : ids[i]? with
  | none => simp only [hi] at hq ⊢; exact hwf j q hq
  | some qi =>
    obtain ⟨c, hc⟩ := hwf i qi hi
    simp only [hi, hc] at hq ⊢
    obtain ⟨h1, ext, h2⟩ := intern_spec tbl (delta c b)
    rw [List.getElem?_set] at hq
    split at hq
    · split at hq
      · injection hq with hq; subst hq; exact ⟨_, h1⟩
      · simp at hq
    · obtain ⟨c', hc'⟩ := hwf j q hq
      exact ⟨c', by rw [h2]; exact getElem?_append_some tbl ext q c' hc'⟩

/-- **memo_schedule_independent** — for every number of clones, every initial table in which the
clones' ids are valid, and every interleaving of atomic operations: the state each clone ends in
denotes exactly what a private engine computes from that clone's own operations, in order. -/
theorem memo_schedule_independent (delta : C → Nat → C) (sched : List (Nat × Nat))
    (st : List C × List Nat)
    (hwf : ∀ (j q : Nat), st.2[j]? = some q → ∃ c, st.1[q]? = some c) (j : Nat) (c0 : C)
    (hj : (views st)[j]? = some (some c0)) :
    (views (sharedRun delta st sched))[j]? = some (some (privateRun delta c0 j sched)) := by
  induction sched generalizing st c0 with
  | nil => simpa [sharedRun, privateRun] using hj
  | cons op ops ih =>
    simp only [sharedRun, List.foldl_cons]
    have hv := sharedStep_views delta st op hwf j
    have hwf' := sharedStep_wf delta st op hwf
    by_cases hjo : j = op.1
    · simp only [hjo, ↓reduceIte] at hv
      rw [← hjo] at hv
      rw [hj] at hv
      simp only [Option.map_some] at hv
      have := ih (sharedStep delta st op) hwf' (delta c0 op.2) hv
      simp only [sharedRun] at this
      rw [this]
      simp [privateRun, List.filter_cons, ← hjo]
    · simp only [hjo, ↓reduceIte] at hv
      rw [hj] at hv
      have := ih (sharedStep delta st op) hwf' c0 hv
      simp only [sharedRun] at this
      rw [this]
      have hne : ¬ op.1 = j := fun h => hjo h.symm
      simp [privateRun, List.filter_cons, hne]

/-- the table only grows: ids handed out earlier keep their content (`append_state` only appends) -/
theorem table_append_only (delta : C → Nat → C) (st : List C × List Nat) (op : Nat × Nat)
    (hwf : ∀ (j q : Nat), st.2[j]? = some q → ∃ c, st.1[q]? = some c) :
    ∃ ext, (sharedStep delta st op).1 = st.1 ++ ext := by
  obtain ⟨tbl, ids⟩ := st
  obtain ⟨i, b⟩ := op
  simp only [sharedStep]
  cases hi : ids[i]? with
  | none => exact ⟨[], by simp⟩
  | some q =>
    obtain ⟨c, hc⟩ := hwf i q hi
    simp only [hc]
    exact (intern_spec tbl (delta c b)).2

/-- Non-vacuity: two clones over one table, interleaved; contents are naturals, `delta c b = 2c+b`. -/
example :
    let delta : Nat → Nat → Nat := fun c b => 2 * c + b
    let st : List Nat × List Nat := ([1], [0, 0])
    views (sharedRun delta st [(0, 1), (1, 0), (0, 0), (1, 1)]) = [some 6, some 5] := by decide

end LlgVerif
