/-
C02 — acceptance depends on the bytes, not on how they are split into tokens (abstract M6).
-/
import LlgVerif.Model.Engine
namespace LlgVerif
open EngCfg

variable {S : Type}

theorem runBytes_append (r : Rec S) (s : S) (u v : List Byte) :
    runBytes r s (u ++ v) = (runBytes r s u).bind (fun s' => runBytes r s' v) := by
  induction u generalizing s with
  | nil => simp [runBytes]
  | cons b u ih =>
    simp only [List.cons_append, runBytes]
    cases r.step s b with
    | none => simp
    | some s' => simpa using ih s'

/-- committing a list of non-EOS tokens one by one -/
def commits (c : EngCfg S) (s : EngState S) (ts : List Nat) : Option (EngState S) :=
  ts.foldlM (fun st t => c.commit st t) s

/-- all tokens are text tokens with non-empty bytes -/
def TextTokens (c : EngCfg S) (ts : List Nat) : Prop :=
  ∀ t ∈ ts, t ≠ c.eos ∧ c.tokBytes t ≠ []

theorem commit_text (c : EngCfg S) (s : EngState S) (hs : s.stopped = false) (t : Nat)
    (ht : t ≠ c.eos) (hb : c.tokBytes t ≠ []) :
    (∀ s', c.commit s t = some s' →
        runBytes c.recog s.st (c.tokBytes t) = some s'.st ∧ s'.stopped = false) ∧
    ((c.commit s t).isSome ↔ (runBytes c.recog s.st (c.tokBytes t)).isSome) := by
  unfold commit
  simp only [hs, Bool.false_eq_true, ↓reduceIte, ht]
  cases hw : c.tokBytes t with
  | nil => exact absurd hw hb
  | cons b bs =>
    simp only
    cases hr : runBytes c.recog s.st (b :: bs) with
    | none => simp
    | some st' =>
      refine ⟨?_, by simp⟩
      intro s' h
      injection h with h
      subst h
      exact ⟨rfl, rfl⟩

/-- **commit_factors_through_bytes** — committing text tokens succeeds iff the recogniser accepts
the concatenation of their bytes, and the recogniser state reached is the one reached by the
bytes. -/
theorem commit_factors_through_bytes (c : EngCfg S) (ts : List Nat) (s : EngState S)
    (hs : s.stopped = false) (hts : TextTokens c ts) :
    ((commits c s ts).isSome ↔ (runBytes c.recog s.st (ts.flatMap c.tokBytes)).isSome) ∧
    (∀ s', commits c s ts = some s' →
        runBytes c.recog s.st (ts.flatMap c.tokBytes) = some s'.st) := by
  induction ts generalizing s with
  | nil => simp [commits, runBytes]
  | cons t ts ih =>
    obtain ⟨hne, hbt⟩ := hts t List.mem_cons_self
    have hts' : TextTokens c ts := fun x hx => hts x (List.mem_cons_of_mem _ hx)
    obtain ⟨h1, h2⟩ := commit_text c s hs t hne hbt
    simp only [commits, List.foldlM_cons, List.flatMap_cons, runBytes_append]
    cases hc : c.commit s t with
    | none =>
      have : (runBytes c.recog s.st (c.tokBytes t)).isSome = false := by
        cases hr : (runBytes c.recog s.st (c.tokBytes t)).isSome with
        | false => rfl
        | true => rw [hc] at h2; simp [hr] at h2
      have hn : runBytes c.recog s.st (c.tokBytes t) = none := by
        cases hr : runBytes c.recog s.st (c.tokBytes t) with
        | none => rfl
        | some x => rw [hr] at this; simp at this
      simp [hn]
    | some s1 =>
      obtain ⟨hr, hst⟩ := h1 s1 hc
      simp only [hr, Option.bind_some]
      exact ih s1 hst hts'

/-- **split_independent** — for one recogniser and two vocabularies, two token sequences with
equal concatenated bytes are both accepted or both rejected, and leave the same recogniser state
(hence the same accepting flag, forced bytes and byte-level continuations). -/
theorem split_independent (c1 c2 : EngCfg S) (hrec : c1.recog = c2.recog)
    (s1 s2 : EngState S) (hst : s1.st = s2.st) (h1 : s1.stopped = false) (h2 : s2.stopped = false)
    (ts1 ts2 : List Nat) (ht1 : TextTokens c1 ts1) (ht2 : TextTokens c2 ts2)
    (hbytes : ts1.flatMap c1.tokBytes = ts2.flatMap c2.tokBytes) :
    ((commits c1 s1 ts1).isSome ↔ (commits c2 s2 ts2).isSome) ∧
    (∀ a b, commits c1 s1 ts1 = some a → commits c2 s2 ts2 = some b → a.st = b.st) := by
  obtain ⟨a1, a2⟩ := commit_factors_through_bytes c1 ts1 s1 h1 ht1
  obtain ⟨b1, b2⟩ := commit_factors_through_bytes c2 ts2 s2 h2 ht2
  rw [hbytes, hrec, hst] at a1 a2
  refine ⟨a1.trans b1.symm, ?_⟩
  intro a b ha hb
  have := (a2 a ha).symm.trans (b2 b hb)
  injection this

/-- **token_allowed_iff_bytes_allowed** — a multi-byte token can be committed exactly when its
bytes, fed one at a time as single-byte tokens of another vocabulary over the same recogniser,
can all be committed. -/
theorem token_allowed_iff_bytes_allowed (c cb : EngCfg S) (hrec : c.recog = cb.recog)
    (s sb : EngState S) (hst : s.st = sb.st) (h1 : s.stopped = false) (h2 : sb.stopped = false)
    (t : Nat) (ht : t ≠ c.eos) (hb : c.tokBytes t ≠ [])
    (byteToks : List Nat) (hsingle : TextTokens cb byteToks)
    (hdecomp : byteToks.flatMap cb.tokBytes = c.tokBytes t) :
    (c.commit s t).isSome ↔ (commits cb sb byteToks).isSome := by
  have ht1 : TextTokens c [t] := by
    intro x hx; simp at hx; subst hx; exact ⟨ht, hb⟩
  have := (split_independent c cb hrec s sb hst h1 h2 [t] byteToks ht1 hsingle (by simpa using hdecomp.symm)).1
  simpa [commits] using this

/-- Non-vacuity: `ab` as one token vs `a`,`b` as two, recogniser for `ab*`. -/
example :
    let r : Rec Nat := ⟨fun q b => if q = 0 ∧ b = 97 then some 1 else if q = 1 ∧ b = 98 then some 1 else none⟩
    let c1 : EngCfg Nat := { recog := r, accepting := fun q => q == 1, words := [[97, 98], [0xFF]], eos := 1 }
    let c2 : EngCfg Nat := { recog := r, accepting := fun q => q == 1, words := [[97], [98], [0xFF]], eos := 2 }
    let s0 : EngState Nat := { st := 0, tokens := [], stopped := false }
    (commits c1 s0 [0]).isSome = true ∧ (commits c2 s0 [0, 1]).isSome = true := by decide

end LlgVerif
