//! C16 — vocabulary handling (trie, token sets, tokenizer adapters) matches a naive model.
//!
//! A: random op sequences on `SimpleVob` vs the Lean model M1 (word-for-word) and vs a naive
//!    `Vec<bool>` set model (oracle).
//! B: random vocabularies: flat trie vs Lean M2 (builder + serialisation), `add_bias` /
//!    `has_valid_extensions` under random DFAs and start prefixes vs per-token filtering (oracle)
//!    and vs the Lean walk, token<->bytes round trips, `filter`, greedy tokenisation.
use llguidance::toktrie::{Recognizer, SimpleVob, TokRxInfo, TokTrie, TrieNode};
use serde_json::{json, Value};

use crate::model::{show_list, ModelBatch};
use crate::report::Report;
use crate::rng::Rng;
use crate::vocab::hex;
use crate::Ctx;

pub fn gen_case(rng: &mut Rng, idx: usize, thorough: bool) -> Value {
    if idx % 7 == 6 { return json!({"kind": "tokjson", "seed": rng.next() % 1_000_000_000, "len": if thorough { 60 } else { 30 }}); }
    let kind = if idx % 2 == 0 { "svob" } else { "trie" };
    json!({"kind": kind, "seed": rng.next() % 1_000_000_000, "len": if thorough { 60 } else { 30 }})
}

pub fn run_case(ctx: &Ctx, case: &Value, tag: usize, rep: &mut Report, mb: &mut ModelBatch) {
    match case["kind"].as_str().unwrap_or("") {
        "svob" => run_svob(ctx, case, tag, rep, mb),
        "trie" => run_trie(ctx, case, tag, rep, mb),
        "tokjson" => run_tokjson(case, rep),
        _ => rep.skip("unknown-kind"),
    }
}

// ---------------------------------------------------------------- A: SimpleVob

fn show_vob(v: &SimpleVob) -> String {
    format!("{} {}", v.len(), show_list(v.as_slice()))
}

fn guarded<T>(f: impl FnOnce() -> T) -> Option<T> {
    std::panic::catch_unwind(std::panic::AssertUnwindSafe(f)).ok()
}

/// naive reference: a set as Vec<bool> of length = storage bits, plus `size`
#[derive(Clone)]
struct Naive {
    bits: Vec<bool>,
    size: usize,
}
impl Naive {
    fn of(v: &SimpleVob) -> Naive {
        let n = v.as_slice().len() * 32;
        Naive { bits: (0..n).map(|i| v.as_slice()[i / 32] & (1 << (i % 32)) != 0).collect(), size: v.len() }
    }
}

fn pick_size(rng: &mut Rng) -> usize {
    let base = [0usize, 1, 31, 32, 33, 63, 64, 65, 95, 96, 100, 128][rng.below(12)];
    base
}

fn pick_idx(rng: &mut Rng, v: &SimpleVob) -> usize {
    let n = v.as_slice().len() * 32;
    let cands = [0usize, 1, 31, 32, 33, v.len().saturating_sub(1), v.len(), v.len() + 1, n.saturating_sub(1), n, n + 5];
    if rng.chance(1, 2) { *rng.pick(&cands) } else { rng.below(n + 2) }
}

fn run_svob(_ctx: &Ctx, case: &Value, tag: usize, rep: &mut Report, mb: &mut ModelBatch) {
    let mut rng = Rng::new(case["seed"].as_u64().unwrap());
    let len = case["len"].as_u64().unwrap() as usize;
    let mut regs: Vec<SimpleVob> = (0..3).map(|_| SimpleVob::new()).collect();
    mb.push("reset".into(), "ok".into(), tag);
    let mut ops_log: Vec<String> = vec![];
    // registers often share a size so that binary ops are exercised beyond their asserts
    let common = pick_size(&mut rng);
    for step in 0..len {
        rep.evaluations += 1;
        let r = rng.below(3);
        let r2 = rng.below(3);
        let r3 = rng.below(3);
        let op = if step < 3 { [0usize, 1, 2][rng.below(3)] } else { rng.below(24) };
        let before = Naive::of(&regs[r]);
        let o2 = Naive::of(&regs[r2]);
        let o3 = Naive::of(&regs[r3]);
        let mut req = String::new();
        let mut resp = String::new();
        let mut oracle_err: Option<String> = None;
        macro_rules! upd {
            ($nv:expr) => {{
                match $nv {
                    Some(v) => {
                        regs[r] = v;
                        resp = format!("ok {}", show_vob(&regs[r]));
                    }
                    None => resp = "err".to_string(),
                }
            }};
        }
        match op {
            0 => {
                let size = if rng.chance(2, 3) { common } else { pick_size(&mut rng) };
                req = format!("svob 0 {r} {size}");
                upd!(guarded(|| SimpleVob::alloc(size)));
                if regs[r].to_list().len() != 0 { oracle_err = Some("alloc not empty".into()); }
            }
            1 => {
                let size = if rng.chance(2, 3) { common } else { pick_size(&mut rng) };
                req = format!("svob 1 {r} {size}");
                upd!(guarded(|| SimpleVob::alloc_ones(size)));
                if regs[r].to_list() != (0..size as u32).collect::<Vec<_>>() { oracle_err = Some("alloc_ones != 0..size".into()); }
            }
            2 => {
                let size = if rng.chance(2, 3) { common } else { pick_size(&mut rng) };
                let cap = if rng.chance(1, 6) { size.saturating_sub(1) } else { size + rng.below(3) };
                req = format!("svob 2 {r} {size} {cap}");
                upd!(guarded(|| SimpleVob::alloc_with_capacity(size, cap)));
            }
            3 => {
                let i = pick_idx(&mut rng, &regs[r]);
                let v = rng.chance(1, 2);
                req = format!("svob 3 {r} {i} {}", v as u8);
                let mut c = regs[r].clone();
                upd!(guarded(move || { c.set(i, v); c }));
                if resp != "err" {
                    let after = Naive::of(&regs[r]);
                    for j in 0..after.bits.len() {
                        let exp = if j == i { v } else { before.bits[j] };
                        if after.bits[j] != exp { oracle_err = Some(format!("set({i},{v}) changed bit {j}")); break; }
                    }
                }
            }
            4 => {
                let i = pick_idx(&mut rng, &regs[r]);
                req = format!("svob 4 {r} {i}");
                let c = &regs[r];
                resp = match guarded(|| c.get(i)) { Some(b) => format!("ok {}", b as u8), None => "err".into() };
            }
            5 => {
                let n = regs[r].len();
                let (s, e) = if n == 0 || rng.chance(1, 8) { (rng.below(n + 3), rng.below(n + 3)) } else {
                    let a = rng.below(n); let b = rng.below(n);
                    if rng.chance(1, 8) { (a.max(b), a.min(b)) } else { (a.min(b), a.max(b)) }
                };
                req = format!("svob 5 {r} {s} {e}");
                let mut c = regs[r].clone();
                upd!(guarded(move || { c.allow_range(s as u32..=e as u32); c }));
                if resp != "err" {
                    let after = Naive::of(&regs[r]);
                    for j in 0..after.bits.len() {
                        let exp = before.bits[j] || (s <= j && j <= e);
                        if after.bits[j] != exp { oracle_err = Some(format!("allow_range({s},{e}) wrong at bit {j}")); break; }
                    }
                }
            }
            6 => {
                req = format!("svob 6 {r} {r2}");
                let c = regs[r2].clone();
                upd!(guarded(move || c.negated()));
                if resp != "err" {
                    let after = Naive::of(&regs[r]);
                    for j in 0..after.bits.len() {
                        let exp = j < o2.size && !o2.bits[j];
                        if after.bits[j] != exp { oracle_err = Some(format!("negated wrong at bit {j} (size {})", o2.size)); break; }
                    }
                }
            }
            7 => {
                let v = rng.chance(1, 2);
                req = format!("svob 7 {r} {}", v as u8);
                let mut c = regs[r].clone();
                upd!(guarded(move || { c.set_all(v); c }));
                if resp != "err" {
                    let after = Naive::of(&regs[r]);
                    for j in 0..after.bits.len() {
                        if after.bits[j] != (v && j < before.size) { oracle_err = Some(format!("set_all({v}) wrong at bit {j}")); break; }
                    }
                }
            }
            8 => {
                let size = if rng.chance(1, 2) { regs[r].len() + rng.below(40) } else { pick_size(&mut rng) };
                req = format!("svob 8 {r} {size}");
                let mut c = regs[r].clone();
                upd!(guarded(move || { c.resize(size); c }));
            }
            9 | 10 | 11 | 13 => {
                req = format!("svob {op} {r} {r2}");
                let mut c = regs[r].clone();
                let o = regs[r2].clone();
                upd!(guarded(move || { match op { 9 => c.or(&o), 10 => c.and(&o), 11 => c.sub(&o), _ => c.set_from(&o) }; c }));
                if resp != "err" {
                    let after = Naive::of(&regs[r]);
                    for j in 0..after.bits.len() {
                        let ob = j < o2.bits.len() && o2.bits[j];
                        let exp = match op { 9 => before.bits[j] || ob, 10 => before.bits[j] && (ob || j >= o2.bits.len()), 11 => before.bits[j] && !ob, _ => ob };
                        if after.bits[j] != exp { oracle_err = Some(format!("binary op {op} wrong at bit {j}")); break; }
                    }
                }
            }
            12 => {
                req = format!("svob 12 {r} {r2} {r3}");
                let mut c = regs[r].clone();
                let o = regs[r2].clone();
                let m = regs[r3].clone();
                upd!(guarded(move || { c.or_minus(&o, &m); c }));
                if resp != "err" && o2.bits.len() == before.bits.len() && o3.bits.len() == before.bits.len() {
                    let after = Naive::of(&regs[r]);
                    for j in 0..after.bits.len() {
                        let exp = before.bits[j] || (o2.bits[j] && !o3.bits[j]);
                        if after.bits[j] != exp { oracle_err = Some(format!("or_minus wrong at bit {j}")); break; }
                    }
                }
            }
            14 => {
                req = format!("svob 14 {r}");
                resp = format!("ok {}", regs[r].is_zero() as u8);
                if regs[r].is_zero() != before.bits.iter().all(|b| !b) { oracle_err = Some("is_zero".into()); }
            }
            15 => {
                req = format!("svob 15 {r} {r2}");
                let (a, b) = (&regs[r], &regs[r2]);
                resp = match guarded(|| a.and_is_zero(b)) { Some(x) => format!("ok {}", x as u8), None => "err".into() };
            }
            16 => {
                req = format!("svob 16 {r}");
                let mut c = regs[r].clone();
                upd!(guarded(move || { c.trim_trailing_zeros(); c }));
                if resp != "err" {
                    let after = Naive::of(&regs[r]);
                    let a: Vec<usize> = (0..after.bits.len()).filter(|&j| after.bits[j]).collect();
                    let b: Vec<usize> = (0..before.bits.len()).filter(|&j| before.bits[j]).collect();
                    if a != b { oracle_err = Some("trim_trailing_zeros changed the set".into()); }
                }
            }
            17 => {
                req = format!("svob 17 {r}");
                resp = format!("ok {}", regs[r].num_set());
                if regs[r].num_set() != before.bits.iter().filter(|b| **b).count() { oracle_err = Some("num_set".into()); }
            }
            18 => {
                req = format!("svob 18 {r}");
                let c = &regs[r];
                resp = match guarded(|| c.to_list()) { Some(l) => format!("ok {}", show_list(&l)), None => "err".into() };
                if let Some(l) = guarded(|| c.to_list()) {
                    let exp: Vec<u32> = (0..before.size.min(before.bits.len())).filter(|&j| before.bits[j]).map(|j| j as u32).collect();
                    if l != exp { oracle_err = Some("to_list != sorted members below size".into()); }
                }
            }
            19 => {
                req = format!("svob 19 {r}");
                let l: Vec<u32> = regs[r].iter().collect();
                resp = format!("ok {}", show_list(&l));
                let exp: Vec<u32> = (0..before.bits.len()).filter(|&j| before.bits[j]).map(|j| j as u32).collect();
                if l != exp { oracle_err = Some("iter != set bits".into()); }
            }
            20 => {
                req = format!("svob 20 {r}");
                resp = format!("ok {}", match regs[r].first_bit_set() { Some(x) => x.to_string(), None => "none".into() });
            }
            21 => {
                req = format!("svob 21 {r} {r2}");
                let (a, b) = (&regs[r], &regs[r2]);
                resp = match guarded(|| a.first_bit_set_here_and_in(b)) {
                    Some(Some(x)) => format!("ok {x}"), Some(None) => "ok none".into(), None => "err".into() };
            }
            22 => {
                req = format!("svob 22 {r}");
                let c = &regs[r];
                resp = match guarded(|| c.to_bin_string()) { Some(s) => format!("ok {s}"), None => "err".into() };
            }
            _ => {
                req = format!("svob 23 {r} {r2}");
                regs[r] = regs[r2].clone();
                resp = format!("ok {}", show_vob(&regs[r]));
            }
        }
        ops_log.push(req.clone());
        if let Some(e) = oracle_err {
            rep.fail("oracle", "c16:svob-set-semantics", format!("{e} after `{req}`"), json!({"case": case, "ops": ops_log}));
        }
        rep.count(&format!("svob.op{op}{}", if resp == "err" { ".err" } else { "" }));
        rep.nontrivial(format!("svob|{}|{}", req.split(' ').nth(1).unwrap_or(""), show_vob(&regs[r])));
        mb.push(req, resp, tag);
    }
    rep.sample(json!({"kind": "svob", "ops": ops_log.iter().take(8).collect::<Vec<_>>()}));
}

// ---------------------------------------------------------------- B: trie

pub struct DfaRec {
    pub k: usize,
    pub n: usize,
    pub cls: Vec<usize>,
    pub trans: Vec<usize>,
    pub stack: Vec<usize>,
    pub max_stack: usize,
}

impl DfaRec {
    pub fn random(rng: &mut Rng, alphabet: &[u8]) -> DfaRec {
        let k = 2 + rng.below(4);
        let n = 1 + rng.below(5);
        let mut cls = vec![0usize; 256];
        // class 0 = "other" bytes (mostly dead); the vocabulary's alphabet is spread over classes
        for &b in alphabet {
            cls[b as usize] = 1 + rng.below(k - 1);
        }
        let dead_p = 1 + rng.below(4);
        let mut trans = vec![n; n * k];
        for q in 0..n {
            for c in 0..k {
                trans[q * k + c] = if (c == 0 && rng.chance(7, 8)) || rng.chance(dead_p, 6) { n } else { rng.below(n) };
            }
        }
        DfaRec { k, n, cls, trans, stack: vec![0], max_stack: 1 }
    }
    pub fn step(&self, q: usize, b: u8) -> Option<usize> {
        let q2 = self.trans[q * self.k + self.cls[b as usize]];
        if q2 < self.n { Some(q2) } else { None }
    }
    pub fn run(&self, mut q: usize, bytes: &[u8]) -> Option<usize> {
        for &b in bytes {
            q = self.step(q, b)?;
        }
        Some(q)
    }
    pub fn show(&self) -> String {
        format!("{} {} {} {}", self.k, self.n, show_list(&self.cls), show_list(&self.trans))
    }
}

impl Recognizer for DfaRec {
    fn pop_bytes(&mut self, num: usize) {
        let n = self.stack.len();
        assert!(num < n, "pop_bytes({num}) on a stack of {n}");
        self.stack.truncate(n - num);
    }
    fn collapse(&mut self) {
        let t = *self.stack.last().unwrap();
        self.stack = vec![t];
    }
    fn trie_finished(&mut self) {
        // contract: for an empty start the walk leaves exactly one element
        self.max_stack = self.max_stack.max(self.stack.len());
        let b = self.stack[0];
        self.stack = vec![b];
    }
    fn try_push_byte(&mut self, byte: u8) -> bool {
        match self.step(*self.stack.last().unwrap(), byte) {
            Some(q) => {
                self.stack.push(q);
                true
            }
            None => false,
        }
    }
}

fn flat_nodes(trie: &TokTrie) -> String {
    fn rec(trie: &TokTrie, n: &TrieNode, out: &mut Vec<String>) {
        out.push(format!(
            "{}:{}:{}:{}",
            n.byte(),
            match n.token_id() { Some(t) => t.to_string(), None => "n".into() },
            n.num_parents(),
            n.subtree_size()
        ));
        for c in trie.node_children(n) {
            rec(trie, c, out);
        }
    }
    let mut out = vec![];
    rec(trie, trie.root(), &mut out);
    out.join(";")
}

/// impl-vs-oracle: `token_bytes_from_tokenizer_json` on synthetic tokenizer descriptions (byte-fallback with a space
/// marker, byte-level with the GPT-2 character table) against a naive decoder of the token names
fn run_tokjson(case: &Value, rep: &mut Report) {
    let mut rng = Rng::new(case["seed"].as_u64().unwrap());
    rep.evaluations += 1;
    let byte_level = rng.chance(1, 3);
    let marker = if rng.chance(3, 4) { '\u{2581}' } else { '\u{120}' };
    let mut vocab = serde_json::Map::new();
    let mut expect: Vec<Option<Vec<u8>>> = vec![];
    let mut id = 0usize;
    // GPT-2 bytes_to_unicode
    let self_mapped = |c: char| ('!'..='~').contains(&c) || ('\u{a1}'..='\u{ac}').contains(&c) || ('\u{ae}'..='\u{ff}').contains(&c);
    let mut b2u = vec!['\0'; 256];
    let mut k = 0x100u32;
    for b in 0..=255u8 { let c = b as char; if self_mapped(c) { b2u[b as usize] = c; } else { b2u[b as usize] = char::from_u32(k).unwrap(); k += 1; } }
    let added = json!([{"id": 0, "content": "<s>", "special": true}, {"id": 1, "content": "<tool>", "special": false}]);
    expect.push(Some(b"\xff<s>".to_vec())); expect.push(Some(b"<tool>".to_vec()));
    id += 2;
    vocab.insert("<s>".into(), json!(0)); vocab.insert("<tool>".into(), json!(1));
    let n = case["len"].as_u64().unwrap_or(30) as usize;
    let pieces = ["a", "b", "the", "ing", ".", ",", "\n", "\u{e9}", "\u{65e5}", "x", "0"];
    for _ in 0..n {
        if byte_level {
            let l = 1 + rng.below(4);
            let bytes: Vec<u8> = (0..l).map(|_| [b' ', b'a', b'\n', 0xc3, 0xa9, b'{', 0x00, 0x7f, 0xff, b'z'][rng.below(10)]).collect();
            let name: String = bytes.iter().map(|b| b2u[*b as usize]).collect();
            if vocab.contains_key(&name) { continue; }
            vocab.insert(name, json!(id)); expect.push(Some(bytes)); id += 1;
        } else if rng.chance(1, 5) {
            let b = rng.below(256) as u8;
            let name = format!("<0x{b:02X}>");
            if vocab.contains_key(&name) { continue; }
            vocab.insert(name, json!(id)); expect.push(Some(vec![b])); id += 1;
        } else {
            // the space marker at the start, in the middle, at the end, repeated
            let mut name = String::new();
            for _ in 0..1 + rng.below(4) { if rng.chance(1, 3) { name.push(marker); } else { name.push_str(pieces[rng.below(pieces.len())]); } }
            if vocab.contains_key(&name) || name.starts_with("<0x") { continue; }
            let bytes = name.replace(marker, " ").into_bytes();
            vocab.insert(name, json!(id)); expect.push(Some(bytes)); id += 1;
        }
    }
    let decoder = if byte_level { json!({"type": "ByteLevel"}) } else {
        json!({"type": "Sequence", "decoders": [{"type": "Replace", "pattern": {"String": marker.to_string()}, "content": " "}, {"type": "ByteFallback"}, {"type": "Fuse"}]})
    };
    let tj = json!({"decoder": decoder, "added_tokens": added, "model": {"vocab": vocab}});
    match llguidance::token_bytes_from_tokenizer_json(&tj) {
        Ok(got) => {
            for (i, e) in expect.iter().enumerate() {
                let g = got.get(i).cloned().unwrap_or_default();
                if Some(&g) != e.as_ref() {
                    rep.fail("oracle", "c16:tokenizer-json-bytes", format!("token {i}: token_bytes_from_tokenizer_json gives {}, the decoder of the description gives {}", hex(&g), hex(e.as_ref().unwrap())), json!({"case": case, "tokenizer_json": tj}));
                    return;
                }
            }
            rep.count(if byte_level { "tokjson.byte_level" } else { "tokjson.byte_fallback" });
            rep.nontrivial(format!("tokjson|{}|{}", case["seed"], byte_level));
        }
        Err(e) => rep.fail("oracle", "c16:tokenizer-json-rejected", format!("a well-formed tokenizer description was rejected: {e}"), json!({"case": case, "tokenizer_json": tj})),
    }
}

pub fn random_vocab(rng: &mut Rng) -> Vec<Vec<u8>> {
    let alpha_n = 1 + rng.below(4);
    let alphabet: Vec<u8> = (0..alpha_n).map(|i| [b'a', b'b', 0xc3, 0xa9, b'{'][(i + rng.below(2)) % 5]).collect();
    let n = 1 + rng.below(40);
    let mut words: Vec<Vec<u8>> = vec![];
    for _ in 0..n {
        let kind = rng.below(10);
        let w: Vec<u8> = match kind {
            0 => vec![],                                                   // empty entry
            1 if !words.is_empty() => rng.pick(&words).clone(),            // duplicate
            2 if !words.is_empty() => { let mut w = rng.pick(&words).clone(); w.push(*rng.pick(&alphabet)); w } // extension
            3 => { let mut w = vec![0xffu8]; w.extend_from_slice(format!("<|s{}|>", rng.below(3)).as_bytes()); w }
            4 => { let l = 8 + rng.below(40); (0..l).map(|_| *rng.pick(&alphabet)).collect() } // long chain
            5 => vec![rng.below(256) as u8],
            _ => { let l = 1 + rng.below(4); (0..l).map(|_| *rng.pick(&alphabet)).collect() }
        };
        words.push(w);
    }
    if rng.chance(1, 4) {
        // 256-way fan-out
        for b in 0..=255u8 {
            words.push(vec![b]);
        }
    }
    words
}

fn run_trie(_ctx: &Ctx, case: &Value, tag: usize, rep: &mut Report, mb: &mut ModelBatch) {
    let mut rng = Rng::new(case["seed"].as_u64().unwrap());
    let words = random_vocab(&mut rng);
    let vocab = words.len();
    let eos = (vocab - 1) as u32;
    let info = TokRxInfo::new(vocab as u32, eos);
    let trie = TokTrie::from(&info, &words);
    rep.evaluations += 1;
    let whex: Vec<String> = words.iter().map(|w| if w.is_empty() { "_".to_string() } else { hex(w) }).collect();
    mb.push("reset".into(), "ok".into(), tag);
    mb.push(format!("trie build {}", whex.join(",")), format!("ok {}", flat_nodes(&trie)), tag);
    rep.nontrivial(format!("trie|{}", whex.join(",")));
    rep.count(&format!("trie.vocab_size_bucket.{}", vocab / 16 * 16));
    let dupes = words.iter().enumerate().filter(|(i, w)| !w.is_empty() && words[..*i].contains(w)).count();
    if dupes > 0 { rep.count("trie.with_duplicates"); }

    // token <-> bytes round trips
    for (i, w) in words.iter().enumerate() {
        if trie.token(i as u32) != &w[..] {
            rep.fail("oracle", "c16:token-bytes", format!("token({i}) != word bytes"), json!({"case": case, "words": whex}));
        }
        if !w.is_empty() {
            let lowest = words.iter().position(|x| x == w).unwrap() as u32;
            match trie.token_id(w) {
                Some(t) if t == lowest => {}
                other => rep.fail("oracle", "c16:token-id", format!("token_id({}) = {other:?}, expected lowest id {lowest}", hex(w)), json!({"case": case, "words": whex})),
            }
        }
    }
    // the byte length used for every token id is that of its raw decoding (special and empty entries decode to the
    // spelling \xFF[id]; theorem tokenLen_eq_decodeRaw_length); ids beyond this small vocabulary are covered by a
    // padded trie so that every digit-count boundary of the id occurs
    {
        let check = |trie: &TokTrie, n: usize, rep: &mut Report| {
            for t in 0..n as u32 {
                let raw = trie.decode_raw(&[t]);
                if trie.token_len(t) != raw.len() {
                    rep.fail("oracle", "c16:token-len", format!("token_len({t}) = {} but decode_raw gives {} bytes", trie.token_len(t), raw.len()), json!({"case": case, "token": t}));
                    return;
                }
            }
        };
        check(&trie, vocab, rep);
        if tag % 8 == 1 {
            let mut big = words.clone();
            while big.len() < 1205 { let mut w = vec![0xffu8]; w.extend_from_slice(format!("<|p{}|>", big.len()).as_bytes()); big.push(if big.len() % 7 == 0 { vec![] } else { w }); }
            let info = TokRxInfo::new(big.len() as u32, big.len() as u32 - 1);
            let t2 = TokTrie::from(&info, &big);
            check(&t2, big.len(), rep);
            rep.count("trie.padded-1205");
        }
    }
    // alphabet for DFA classes
    let mut alphabet: Vec<u8> = words.iter().flatten().copied().collect();
    alphabet.sort();
    alphabet.dedup();
    if alphabet.is_empty() { alphabet.push(b'a'); } // a vocabulary of empty words only

    let n_dfa = 6;
    for _ in 0..n_dfa {
        rep.evaluations += 1;
        let mut dfa = DfaRec::random(&mut rng, &alphabet);
        let q0 = rng.below(dfa.n);
        dfa.stack = vec![q0];
        // start prefix: empty (usual), or a prefix of some word, or random
        let start: Vec<u8> = match rng.below(4) {
            0 | 1 => vec![],
            2 => { let w = rng.pick(&words); if w.is_empty() { vec![] } else { w[..1 + rng.below(w.len())].to_vec() } }
            _ => (0..1 + rng.below(2)).map(|_| *rng.pick(&alphabet)).collect(),
        };
        let mut set = trie.alloc_token_set();
        trie.add_bias(&mut dfa, &mut set, &start);
        let got: Vec<u32> = set.iter().collect();
        // oracle: per-token filtering
        let mut exp: Vec<u32> = vec![];
        for (i, w) in words.iter().enumerate() {
            if w.is_empty() { continue; }
            let ok = if w.len() <= start.len() { start[..w.len()] == w[..] && !start.is_empty() }
                     else { w[..start.len()] == start[..] && dfa.run(q0, &w[start.len()..]).is_some() };
            if ok { exp.push(i as u32); }
        }
        if got != exp {
            rep.fail("oracle", "c16:add-bias-vs-filter", format!("add_bias = {got:?}, per-token filter = {exp:?} (start {})", hex(&start)),
                json!({"case": case, "words": whex, "dfa": dfa.show(), "q0": q0, "start": hex(&start)}));
        }
        if got.iter().any(|&t| t as usize >= vocab) {
            rep.fail("oracle", "c16:id-ge-vocab", format!("mask contains id >= vocab {vocab}"), json!({"case": case, "words": whex}));
        }
        if start.is_empty() && dfa.stack != vec![q0] {
            rep.fail("oracle", "c16:stack-not-restored", format!("recognizer stack after add_bias: {:?}", dfa.stack), json!({"case": case, "words": whex, "dfa": dfa.show()}));
        }
        if !exp.is_empty() && exp.len() < vocab { rep.nontrivial(format!("bias|{}|{}|{}|{}", whex.join(","), dfa.show(), q0, hex(&start))); }
        let sh = if start.is_empty() { "_".to_string() } else { hex(&start) };
        mb.push(format!("trie bias {} {q0} {sh}", dfa.show()), format!("ok {}", show_list(&got)), tag);
        // has_valid_extensions
        dfa.stack = vec![q0];
        let hv = trie.has_valid_extensions(&mut dfa, &start);
        let hv_exp = words.iter().any(|w| w.len() > start.len() && w[..start.len()] == start[..] && dfa.run(q0, &w[start.len()..]).is_some());
        if hv != hv_exp {
            rep.fail("oracle", "c16:has-valid-extensions", format!("has_valid_extensions = {hv}, naive = {hv_exp}"),
                json!({"case": case, "words": whex, "dfa": dfa.show(), "q0": q0, "start": hex(&start)}));
        }
        mb.push(format!("trie hasext {} {q0} {sh}", dfa.show()), format!("ok {}", hv as u8), tag);
    }
    // greedy tokenisation round trip on covered text
    for _ in 0..4 {
        rep.evaluations += 1;
        let nonempty: Vec<&Vec<u8>> = words.iter().filter(|w| !w.is_empty()).collect();
        if nonempty.is_empty() { break; }
        let mut text: Vec<u8> = vec![];
        for _ in 0..1 + rng.below(6) {
            let w: &Vec<u8> = nonempty[rng.below(nonempty.len())]; text.extend_from_slice(w);
        }
        let toks = trie.greedy_tokenize(&text);
        let dec: Vec<u8> = toks.iter().flat_map(|t| trie.token(*t).to_vec()).collect();
        // covered: the text is a concatenation of tokens; greedy may still skip bytes only when a
        // byte has no token at all; with single-byte coverage decoding must return the text
        let all_bytes_covered = text.iter().all(|b| words.contains(&vec![*b]));
        if all_bytes_covered && dec != text {
            rep.fail("oracle", "c16:greedy-roundtrip", format!("decode(greedy_tokenize({})) = {}", hex(&text), hex(&dec)), json!({"case": case, "words": whex, "text": hex(&text)}));
        }
        mb.push(format!("trie greedy {}", hex(&text)), format!("ok {}", show_list(&toks)), tag);
    }
    // filter == trie built from filtered vocabulary
    {
        rep.evaluations += 1;
        let mut f = trie.alloc_token_set();
        for i in 0..vocab {
            if rng.chance(1, 2) { f.allow_token(i as u32); }
        }
        let ft = trie.filter(&f);
        let fwords: Vec<Vec<u8>> = (0..vocab).map(|i| if f.is_allowed(i as u32) { words[i].clone() } else { vec![] }).collect();
        let bt = TokTrie::from(&info, &fwords);
        if flat_nodes(&ft) != flat_nodes(&bt) {
            rep.fail("oracle", "c16:filter-vs-build", "filter() differs from a trie built from the filtered vocabulary".into(), json!({"case": case, "words": whex, "filter": f.to_list()}));
        }
        for i in 0..vocab {
            if ft.token(i as u32) != &fwords[i][..] {
                rep.fail("oracle", "c16:filter-token-bytes", format!("filtered trie token({i}) wrong"), json!({"case": case, "words": whex}));
                break;
            }
        }
    }
    rep.sample(json!({"kind": "trie", "words": whex.iter().take(12).collect::<Vec<_>>(), "vocab": vocab}));
}
