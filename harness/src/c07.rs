//! C07 — every valid JSON instance in canonical form can be generated.
//!
//! For schemas of the fully supported subset, candidate instances are generated from the schema,
//! the Lean validator S5 decides which are valid, and every valid one - serialised compactly with
//! keys in schema order, and also with `, `/`: ` separators and pretty-printed (the default
//! whitespace option is flexible) - is tokenised with each vocabulary and fed to the engine: every
//! token must be in the mask and commit, and the final state must be accepting.
use serde_json::{json, Value};

use crate::eng::World;
use crate::engine::Gram;
use crate::js::{self, JV};
use crate::model::ModelBatch;
use crate::report::Report;
use crate::rng::Rng;
use crate::vocab;
use crate::Ctx;

pub fn corpus() -> Vec<Value> {
    vec![
        json!({"type":"object","properties":{"name":{"type":"string","maxLength":5},"age":{"type":"integer","minimum":0,"maximum":120}},"required":["name","age"],"additionalProperties":false}),
        json!({"type":"array","items":{"enum":["x","xy",10,100,true,null]},"minItems":1,"maxItems":4}),
        json!({"anyOf":[{"type":"object","properties":{"k":{"const":"v1"},"a":{"type":"number"}},"required":["k","a"],"additionalProperties":false},{"type":"object","properties":{"k":{"const":"v2"},"b":{"type":"boolean"}},"required":["k","b"],"additionalProperties":false}]}),
        json!({"$defs":{"n":{"type":"object","properties":{"v":{"type":"number"},"next":{"anyOf":[{"$ref":"#/$defs/n"},{"type":"null"}]}},"required":["v","next"],"additionalProperties":false}},"$ref":"#/$defs/n"}),
        json!({"type":"array","prefixItems":[{"type":"string"},{"type":"integer"}],"items":{"type":"null"},"minItems":1}),
        json!({"type":"object","properties":{"a":{"type":"string"},"b":{"type":"number"},"c":{"type":"boolean"},"d":{"type":"null"}},"required":["b"],"additionalProperties":false}),
        json!({"type":"object","properties":{"a":{"type":"integer"},"b":{"type":"integer"},"c":{"type":"integer"}},"additionalProperties":false}),
        json!({"type":"object","properties":{"a":{"type":"integer"}},"required":["a"],"additionalProperties":{"type":"string","maxLength":2}}),
        json!({"type":"object","properties":{"a":{"type":"integer"}},"additionalProperties":true}),
        json!({"type":"array","items":{"$ref":"#"},"maxItems":2}),
        json!({"type":"number","minimum":-1.5,"maximum":2.25}),
        json!({"type":"integer","multipleOf":3,"minimum":-10,"maximum":20}),
        json!({"type":"string","minLength":1,"maxLength":3}),
        json!({"type":["integer","null","string"]}),
        json!({"type":"object","properties":{"o":{"type":"object","properties":{"p":{"type":"array","items":{"type":"array","items":{"type":"integer"},"maxItems":2},"maxItems":2}},"required":["p"],"additionalProperties":false},"q":{"enum":[1,"1",[1],{"a":1}]}},"required":["o"],"additionalProperties":false}),
        json!({"type":"array","items":{"type":"object","properties":{"id":{"type":"integer","minimum":1},"tags":{"type":"array","items":{"type":"string","maxLength":3},"maxItems":2}},"required":["id"],"additionalProperties":false},"maxItems":3}),
        json!({"const":{"a":[1,2.5,"x",null,true]}}),
        json!({"type":"object","properties":{},"additionalProperties":{"type":"integer"}}),
        json!({"type":"object","properties":{"a_rather_long_property_name_1":{"type":"integer"},"a_rather_long_property_name_2":{"type":"boolean"},"a_rather_long_property_name_":{"type":"null"}},"required":["a_rather_long_property_name_1","a_rather_long_property_name_2"],"additionalProperties":false}),
        json!({"enum":["the quick brown fox jumps over A","the quick brown fox jumps over B",{"the quick brown fox jumps over C":1}]}),
        // lengths count characters, not bytes: literals that fit maxLength only in characters
        json!({"type":"string","maxLength":4,"enum":["tea","caf\u{e9}","\u{65e5}\u{672c}\u{8a9e}\u{3067}"]}),
        json!({"type":"object","properties":{"city":{"type":"string","minLength":4,"maxLength":6,"enum":["Oslo","Z\u{fc}rich","M\u{e1}laga"]},"n":{"type":"integer"}},"required":["city"],"additionalProperties":false}),
        json!({"anyOf":[{"type":"integer"},{"type":"string","maxLength":2,"const":"\u{65e5}\u{672c}"}]}),
    ]
}

fn gen_num(rng: &mut Rng) -> Value {
    let integer = rng.chance(1, 2);
    let mut m = serde_json::Map::new();
    m.insert("type".into(), json!(if integer { "integer" } else { "number" }));
    let dec = |rng: &mut Rng| -> Value { let s = if integer { [0usize, 0, 0, 1][rng.below(4)] } else { [0usize, 0, 1, 2][rng.below(4)] }; let v = rng.range(-60, 60); serde_json::from_str(&if s == 0 { format!("{v}") } else { format!("{}", v as f64 / 10f64.powi(s as i32)) }).unwrap() };
    let a = dec(rng); let b = dec(rng);
    let (a, b) = if a.as_f64() > b.as_f64() { (b, a) } else { (a, b) };
    if rng.chance(2, 3) { m.insert(if rng.chance(1, 4) { "exclusiveMinimum" } else { "minimum" }.into(), a); }
    if rng.chance(2, 3) { m.insert(if rng.chance(1, 4) { "exclusiveMaximum" } else { "maximum" }.into(), b); }
    if integer && rng.chance(1, 3) { let k = [1, 2, 3, 5, 10][rng.below(5)]; m.insert("multipleOf".into(), json!(k)); }
    Value::Object(m)
}

pub fn gen_schema(rng: &mut Rng, depth: usize, allow_ref: bool) -> Value {
    match rng.below(if depth > 2 { 5 } else { 10 }) {
        0 => gen_num(rng),
        1 => {
            if rng.chance(1, 4) {
                // literals with non-ASCII characters under length bounds given in characters
                let pool = ["\u{e9}", "a\u{df}", "\u{65e5}\u{672c}", "x\u{1f600}", "na\u{ef}ve", "ab"];
                let lits: Vec<&str> = (0..1 + rng.below(3)).map(|_| pool[rng.below(pool.len())]).collect();
                let n = lits.iter().map(|l| l.chars().count()).max().unwrap();
                let mut v = json!({"type":"string","enum":lits});
                if rng.chance(2, 3) { v["maxLength"] = json!(n); }
                if rng.chance(1, 3) { v["minLength"] = json!(lits.iter().map(|l| l.chars().count()).min().unwrap()); }
                return v;
            }
            let lo = rng.below(3); let mut v = json!({"type":"string"}); if rng.chance(1, 2) { v["minLength"] = json!(lo); } if rng.chance(1, 2) { v["maxLength"] = json!(lo + rng.below(4)); } v
        }
        2 => { let t = ["boolean", "null"][rng.below(2)]; json!({"type": t}) }
        3 => { let e = [json!(["a", 1, null]), json!([true, "x\"y", 2.5]), json!([[1, 2], {"k": "v"}, "z"])][rng.below(3)].clone(); json!({"enum": e}) }
        4 => { let c = [json!("c"), json!(7), json!({"a": [1]}), json!(null)][rng.below(4)].clone(); json!({"const": c}) }
        5 | 6 => {
            let n = rng.below(4);
            let mut props = serde_json::Map::new();
            let mut req = vec![];
            // key families: short; long names that agree on their first 19+ characters; escapes and non-ASCII;
            // names that are prefixes of each other, the empty name
            let fam: [&str; 4] = match rng.below(5) {
                0 | 1 => ["a", "b1", "c\"q", "dd"],
                2 => ["shipping_address_line_one", "shipping_address_line_two", "shipping_address_line_", "shipping_address_city"],
                3 => ["k\u{e9}y \u{43a}\u{43b}", "tab\there", "back\\slash/and\u{1}ctl", "k\u{e9}y"],
                _ => ["ab", "abc", "", "a"],
            };
            for i in 0..n { let k = fam[i].to_string(); props.insert(k.clone(), gen_schema(rng, depth + 1, allow_ref)); if rng.chance(1, 2) { req.push(json!(k)); } }
            json!({"type":"object","properties":props,"required":req,"additionalProperties": match rng.below(4) { 0 => gen_schema(rng, depth + 2, false), 1 => json!(true), _ => json!(false) }})
        }
        7 => { let mut v = json!({"type":"array","items":gen_schema(rng, depth + 1, allow_ref)}); if rng.chance(1, 2) { v["minItems"] = json!(rng.below(3)); } if rng.chance(1, 2) { v["maxItems"] = json!(2 + rng.below(3)); } if rng.chance(1, 3) { v["prefixItems"] = json!([gen_schema(rng, depth + 1, false), gen_schema(rng, depth + 2, false)]); } v }
        8 => json!({"anyOf":[gen_schema(rng, depth + 1, allow_ref), gen_schema(rng, depth + 1, allow_ref)]}),
        _ => if allow_ref { json!({"$ref":"#/$defs/r"}) } else { json!({"type":"integer"}) },
    }
}

pub fn gen_root(rng: &mut Rng) -> Value {
    let mut s = gen_schema(rng, 0, true);
    if s.to_string().contains("#/$defs/r") {
        // the recursive definition must have a non-recursive way out
        let body = json!({"anyOf":[{"type":"null"}, {"type":"object","properties":{"v":gen_schema(rng, 2, false),"next":{"$ref":"#/$defs/r"}},"required":["v"],"additionalProperties":false}]});
        if let Some(o) = s.as_object_mut() { o.insert("$defs".into(), json!({"r": body})); } else { s = json!({"$defs":{"r":body},"$ref":"#/$defs/r"}); }
    }
    s
}

pub fn gen_case(rng: &mut Rng, idx: usize, thorough: bool) -> Value {
    let c = corpus();
    let n = if thorough { 40 } else { 16 };
    if idx < c.len() { return json!({"schema": c[idx], "seed": rng.next() % 1_000_000_000, "instances": n}); }
    if idx % 10 == 9 {
        // the intersection tie of M7 (shared with C06): an intersection that drops instances refuses valid ones
        return json!({"kind": "isect", "seed": rng.next() % 1_000_000_000, "pairs": if thorough { 80 } else { 24 }});
    }
    json!({"schema": gen_root(rng), "seed": rng.next() % 1_000_000_000, "instances": n})
}

/// feed `text` token by token; Ok(()) if every token was allowed and the end state is accepting
pub fn feed(w: &World, g: &Gram, toks: &[u32]) -> Result<(), String> {
    let mut m = w.matcher(g);
    for (i, &t) in toks.iter().enumerate() {
        let mask = m.compute_mask().map_err(|e| format!("mask failed at token {i}: {}", crate::eng::err_class(&e.to_string())))?;
        if !mask.is_allowed(t) { return Err(format!("token {i} ({:?}) is not in the mask", String::from_utf8_lossy(&w.words[t as usize]))); }
        m.consume_token(t).map_err(|e| format!("token {i} refused: {}", crate::eng::err_class(&e.to_string())))?;
    }
    if !m.is_accepting().unwrap_or(false) { return Err("end state is not accepting".into()); }
    Ok(())
}

pub fn run_case(ctx: &Ctx, case: &Value, tag: usize, rep: &mut Report, mb: &mut ModelBatch) {
    if case["kind"] == "isect" { crate::c06::run_isect(case, tag, rep, mb); return; }
    let schema = &case["schema"];
    let mut rng = Rng::new(case["seed"].as_u64().unwrap_or(1));
    let g = Gram::Json(schema.clone());
    let sb = vocab::single_byte_words();
    let eos = sb.len() as u32 - 1;
    let Ok(w1) = World::new(sb, eos, false, None) else { rep.skip("world"); return; };
    let probe = w1.matcher(&g);
    if probe.is_error() {
        rep.skip(&format!("compile-error:{}", crate::eng::err_class(&probe.get_error().unwrap_or_default()).chars().take(40).collect::<String>()));
        return;
    }
    rep.evaluations += 1;
    // candidates, judged by the Lean validator
    let n = case["instances"].as_u64().unwrap_or(16) as usize;
    let mut cands: Vec<JV> = vec![];
    for _ in 0..n * 3 { let v = js::gen_instance(&mut rng, schema, schema, 0); if !cands.contains(&v) { cands.push(v); } if cands.len() >= n { break; } }
    let mut reqs = vec![format!("json schema {tag} {}", js::to_sexp(&js::from_value(schema)))];
    for c in &cands { reqs.push(format!("json v {tag} {}", js::to_sexp(c))); }
    let Ok(resp) = ModelBatch::run_raw(&ctx.model_exe, &reqs) else { rep.fail("model", "c07:model-driver", "model driver failed".into(), case.clone()); return; };
    if resp[0] != "ok" { rep.fail("model", "c07:schema-not-understood", format!("Lean validator cannot read the schema: {}", resp[0]), case.clone()); return; }
    let valid: Vec<&JV> = cands.iter().zip(resp.iter().skip(1)).filter(|(_, r)| r.as_str() == "1").map(|(c, _)| c).collect();
    // keyword-to-IR translation: the IR the code builds for this document (hook verif_intersect), read by the Lean
    // meaning of IR nodes (`Sch.sat` of model M7), must judge every candidate as the validator S5 judges the document
    match llguidance::verif::verif_intersect(schema, &json!(true)) {
        Ok((da, _, _)) if !da.contains("(object)") && !da.contains("(ref)") && !da.contains("(atom ") => {
            for (c, r) in cands.iter().zip(resp.iter().skip(1)) {
                if js::max_abs_exp(c) > 400 { continue; }
                if r == "0" || r == "1" { mb.push(format!("sch sat (pair {da} {})", js::to_sexp(c)), r.clone(), tag); rep.count("ir-meaning.pairs"); }
            }
        }
        Ok(_) => rep.count("ir-meaning.skipped-ref-pattern-or-format"),
        Err(_) => rep.count("ir-meaning.skipped-error"),
    }
    // cross-validation of the specification itself (thorough tier): (schema, instance, S5 verdict) triples
    // for an independent validator (python jsonschema), see tools/crosscheck_s5.py
    if let Ok(path) = std::env::var("LLGV_S5_DUMP") {
        use std::io::Write;
        if let Ok(mut f) = std::fs::OpenOptions::new().create(true).append(true).open(&path) {
            for (c, r) in cands.iter().zip(resp.iter().skip(1)) {
                let _ = writeln!(f, "{}", json!({"schema": schema, "instance": js::serialize(c, 0), "lean": r.as_str() == "1"}));
            }
        }
    }
    rep.count_n("instances.generated", cands.len() as u64);
    rep.count_n("instances.valid", valid.len() as u64);
    mb.push(reqs[0].clone(), "ok".into(), tag);
    if valid.is_empty() { rep.skip("no-valid-instance-generated"); return; }
    rep.nontrivial(schema.to_string());
    // second vocabulary: multi-byte tokens cut from the serialisations
    let texts: Vec<Vec<u8>> = valid.iter().take(8).map(|v| js::serialize(v, 0).into_bytes()).collect();
    let (words, eos2) = vocab::synth_words(&mut rng, &texts, 40, None);
    let w2 = World::new(words, eos2, false, None).ok();
    for v in valid {
        for style in 0..3u8 {
            let text = js::serialize(v, style);
            // the serialisation must itself be what a standard parser reads back as the same value
            if style == 0 { if let Ok(back) = js::parse(text.as_bytes()) { if js::to_sexp(&back) != js::to_sexp(v) && !text.contains('.') { rep.count("serialiser.roundtrip-differs"); } } }
            let bytes = text.as_bytes();
            let mut runs: Vec<(&World, Vec<u32>, &str)> = vec![(&w1, bytes.iter().map(|b| *b as u32).collect(), "single-byte")];
            if let Some(w2) = &w2 { runs.push((w2, w2.env.tokenize_bytes(bytes), "multi-byte greedy")); }
            for (w, toks, vname) in runs {
                rep.count("feeds");
                if let Err(e) = feed(w, &g, &toks) {
                    rep.fail("spec", "c07:valid-instance-refused", format!("valid instance {text:?} (style {style}, {vname} vocabulary) is not generable: {e}"), json!({"schema": schema, "instance": text, "style": style, "vocab": vname, "seed": case["seed"]}));
                    return;
                }
            }
        }
        mb.push(format!("json v {tag} {}", js::to_sexp(v)), "1".into(), tag);
    }
    rep.sample(json!({"schema": schema}));
}
