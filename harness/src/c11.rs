//! C11 — internal caching never changes a mask.
//!
//! impl-vs-oracle: at every state of a random history with read-only queries interleaved the mask
//! equals (i) a second computation, (ii) the computation after `invalidate_bias_cache`, (iii) the
//! mask of a fresh engine that replayed the committed tokens and never ran a query.
//! impl-vs-model: the cache key observed through the hook after every operation vs. the Lean
//! cache model (`Model/Cache.lean`) fed with the observed row log.
use serde_json::{json, Value};

use crate::eng::{self, World};
use crate::engine::Gram;
use crate::model::{show_list, ModelBatch};
use crate::report::Report;
use crate::rng::Rng;
use crate::Ctx;
use llguidance::earley::VerifState;
use llguidance::Matcher;

/// loop grammars with a long probe that stays inside the loop: many read-only queries in one state accumulate
/// speculative parser work without any commit in between
fn heavy_families() -> Vec<(&'static str, &'static str, &'static str)> {
    // (grammar, first committed text, unit of the probe)
    vec![
        ("start: WORD (\",\" WORD)*\nWORD: /[a-z]+/\n", "a", ",a"),
        ("start: \"[\" item (\",\" item)* \"]\"\nitem: NUM | \"x\"\nNUM: /[0-9]+/\n", "[1", ",x,2"),
        ("start: (A | B)+\nA: \"ab\"\nB: /c+d/\n", "ab", "cdab"),
    ]
}

pub fn gen_case(rng: &mut Rng, idx: usize, thorough: bool) -> Value {
    if idx % 10 == 9 {
        let f = (idx / 10) % heavy_families().len();
        return json!({"heavy": f, "reps": if thorough { 200 } else { 90 }, "unit_reps": if thorough { 300 } else { 200 }, "seed": rng.next() % 1_000_000_000});
    }
    let (g, texts) = eng::gen_grammar(rng, idx);
    json!({"grammar": g.to_json(), "texts": texts.iter().map(|t| crate::vocab::hex(t)).collect::<Vec<_>>(),
           "vocab_kind": (idx + idx / 3) % 3, "canonical": idx % 4 == 3, "seed": rng.next() % 1_000_000_000, "steps": if thorough { 40 } else { 22 }})
}

fn key_str(st: &VerifState) -> String {
    match st.cache_key {
        Some((l, r, p)) => format!("k:{l}:{r}:{}", p as u8),
        None => "none".into(),
    }
}

pub struct CacheTie {
    pub prev: Option<VerifState>,
    pub enabled: bool,
}

impl CacheTie {
    /// emit model ops describing what happened between `prev` and the current hook state
    pub fn after(&mut self, m: &Matcher, what: &str, tag: usize, mb: &mut ModelBatch, rep: &mut Report, case: &Value) {
        if !self.enabled {
            return;
        }
        let Some(cur) = eng::vstate(m) else {
            self.enabled = false;
            return;
        };
        let top = cur.lexer_stack.last().unwrap().1;
        let pend = cur.has_pending_lexeme_bytes as u8;
        match &self.prev {
            None => {
                let hs: Vec<u64> = (0..cur.num_rows).map(|i| eng::row_hash(&cur, i)).collect();
                mb.push(format!("cache init {} {top} {pend}", show_list(&hs)), "none".into(), tag);
            }
            Some(prev) => {
                let ptop = prev.lexer_stack.last().unwrap().1;
                let keyexp = key_str(&cur);
                if what == "rollback" {
                    // rows are truncated: the kept prefix must be unchanged
                    for i in 0..cur.num_rows.min(prev.num_rows) {
                        if eng::row_hash(&cur, i) != eng::row_hash(prev, i) {
                            rep.fail("model", "c11:row-log-not-prefix", format!("row {i} changed across rollback"), case.clone());
                        }
                    }
                    mb.push(format!("cache rb {} {top} {pend}", cur.num_rows), keyexp, tag);
                } else {
                    let changed = cur.num_rows != prev.num_rows || top != ptop || cur.has_pending_lexeme_bytes != prev.has_pending_lexeme_bytes;
                    if cur.num_rows < prev.num_rows {
                        rep.fail("model", "c11:rows-shrank", format!("rows shrank {} -> {} during `{what}`", prev.num_rows, cur.num_rows), case.clone());
                    }
                    for i in 0..cur.num_rows.min(prev.num_rows) {
                        if eng::row_hash(&cur, i) != eng::row_hash(prev, i) {
                            rep.fail("model", "c11:row-log-not-append-only", format!("committed row {i} changed during `{what}`"), case.clone());
                        }
                    }
                    if what == "mask" {
                        if changed {
                            // a mask computation may force bytes first (canonical tokenizers are excluded here)
                            let hs: Vec<u64> = (prev.num_rows..cur.num_rows).map(|i| eng::row_hash(&cur, i)).collect();
                            mb.push(format!("cache adv {} {top} {pend}", show_list(&hs)), key_str(prev), tag);
                        }
                        if cur.bytes.len() == cur.byte_to_token_len {
                            mb.push("cache mask".into(), format!("{keyexp} {} {top} {pend}", cur.num_rows), tag);
                        } else {
                            // pending forced bytes: compute_bias runs with a non-empty start and
                            // neither reads nor writes the cache
                            rep.count("mask.with_forced_prefix");
                            if key_str(prev) != keyexp {
                                rep.fail("model", "c11:cache-written-with-prefix", "cache key changed by a mask computation with pending forced bytes".into(), case.clone());
                            }
                        }
                    } else if what == "invalidate" {
                        mb.push("cache inv".into(), keyexp, tag);
                    } else if changed {
                        let hs: Vec<u64> = (prev.num_rows..cur.num_rows).map(|i| eng::row_hash(&cur, i)).collect();
                        mb.push(format!("cache adv {} {top} {pend}", show_list(&hs)), keyexp, tag);
                    } else if key_str(prev) != keyexp {
                        rep.fail("model", "c11:cache-key-changed", format!("cache key changed during `{what}` without state change"), case.clone());
                    }
                }
            }
        }
        self.prev = Some(cur);
    }
}

pub fn world_of(case: &Value, rng: &mut Rng) -> Option<(Gram, World)> {
    let g = Gram::from_json(&case["grammar"]);
    let texts: Vec<Vec<u8>> = case["texts"].as_array().map(|a| a.iter().map(|t| crate::vocab::unhex(t.as_str().unwrap())).collect()).unwrap_or_default();
    let canonical = case["canonical"].as_bool().unwrap_or(false);
    // "slices": true builds the factory with the default JSON slices (the slicer path of the mask computation)
    let sl = llguidance::earley::SlicedBiasComputer::general_slices();
    let slices = if case["slices"].as_bool().unwrap_or(false) { Some(&sl[..]) } else { None };
    let w = eng::build_world(rng, &texts, canonical, slices, case["vocab_kind"].as_u64().unwrap_or(0) as usize).ok()?;
    Some((g, w))
}

/// many read-only queries (validate_tokens over a long probe, is_accepting) in one state: every answer must
/// equal the first one, and afterwards the engine must agree with a fresh one that only replayed the commits
fn run_heavy(case: &Value, rep: &mut Report) {
    let fams = heavy_families();
    let (gs, first, unit) = fams[case["heavy"].as_u64().unwrap_or(0) as usize % fams.len()];
    let g = Gram::Lark(gs.to_string());
    let sb = crate::vocab::single_byte_words();
    let eos = sb.len() as u32 - 1;
    let Ok(w) = eng::World::new(sb, eos, false, None) else { rep.skip("world"); return; };
    rep.count(&format!("case.heavy={}", case["heavy"]));
    let firsts: Vec<u32> = first.bytes().map(|b| b as u32).collect();
    let probe: Vec<u32> = unit.bytes().map(|b| b as u32).cycle().take(unit.len() * case["unit_reps"].as_u64().unwrap_or(200) as usize).collect();
    let mut a = w.matcher(&g);
    if a.is_error() { rep.skip("grammar-rejected"); return; }
    let _ = a.compute_mask();
    for &t in &firsts { if a.consume_token(t).is_err() { rep.skip("heavy-first-rejected"); return; } }
    let mut b = w.matcher(&g);
    for &t in &firsts { let _ = b.consume_token(t); }
    let expect = b.validate_tokens(&probe).unwrap_or(0);
    let reps = case["reps"].as_u64().unwrap_or(90);
    for i in 0..reps {
        rep.evaluations += 1;
        let k = a.validate_tokens(&probe).unwrap_or(usize::MAX);
        if k != expect {
            rep.fail("oracle", "c11:repeated-query-changes-answer", format!("validate_tokens of the same {}-token probe in the same state: call #{i} returns {k}, a fresh engine {expect}", probe.len()), case.clone());
            return;
        }
        if i % 16 == 0 { let _ = a.is_accepting(); }
    }
    rep.count_n("heavy.validated_tokens", reps * probe.len() as u64);
    let (oa, ob) = (eng::observe(&mut a), eng::observe(&mut b));
    if oa != ob {
        rep.fail("oracle", "c11:queries-leave-trace", format!("after {reps} read-only queries the engine differs from a fresh one: {:?} vs {:?}", eng::obs_json(&oa), eng::obs_json(&ob)), case.clone());
        return;
    }
    // and it still commits what the fresh one commits
    let tail: Vec<u32> = probe.iter().copied().take(unit.len() * 3).collect();
    for &t in &tail {
        let (ra, rb) = (a.consume_token(t).is_ok(), b.consume_token(t).is_ok());
        if ra != rb { rep.fail("oracle", "c11:queries-leave-trace", format!("after the queries token {t} is committed by one engine only ({ra} / {rb})"), case.clone()); return; }
    }
    rep.nontrivial(format!("heavy|{gs}"));
}

pub fn run_case(_ctx: &Ctx, case: &Value, tag: usize, rep: &mut Report, mb: &mut ModelBatch) {
    if case.get("heavy").is_some() { run_heavy(case, rep); return; }
    let mut rng = Rng::new(case["seed"].as_u64().unwrap());
    let Some((g, w)) = world_of(case, &mut rng) else { rep.skip("world"); return; };
    let canonical = case["canonical"].as_bool().unwrap_or(false);
    let steps = case["steps"].as_u64().unwrap() as usize;
    let mut m = w.matcher(&g);
    if m.is_error() {
        rep.skip("grammar-rejected");
        return;
    }
    let mut toks: Vec<u32> = vec![];
    let mut tie = CacheTie { prev: None, enabled: !canonical };
    if let Some(script) = case.get("script").and_then(|s| s.as_array()) {
        // directed history (regression corpus): "c:<hex bytes>", "rb:<k>", "mask"
        mb.push("reset".into(), "ok".into(), tag);
        tie.after(&m, "init", tag, mb, rep, case);
        for (step, op) in script.iter().enumerate() {
            let op = op.as_str().unwrap_or("");
            rep.evaluations += 1;
            if let Some(h) = op.strip_prefix("c:") {
                let bytes = crate::vocab::unhex(h);
                let Some(t) = w.words.iter().position(|x| *x == bytes) else { rep.skip("script-token-missing"); return; };
                if m.consume_token(t as u32).is_err() { rep.skip("script-commit-failed"); return; }
                toks.push(t as u32);
                tie.after(&m, "commit", tag, mb, rep, case);
            } else if let Some(k) = op.strip_prefix("rb:") {
                let k: usize = k.parse().unwrap_or(1);
                if m.rollback(k).is_err() { rep.skip("script-rollback-failed"); return; }
                toks.truncate(toks.len() - k);
                tie.after(&m, "rollback", tag, mb, rep, case);
            } else {
                let m1 = eng::mask_of(&mut m);
                tie.after(&m, "mask", tag, mb, rep, case);
                let mut f = w.replay(&g, &toks);
                let m4 = eng::mask_of(&mut f);
                if m1 != m4 {
                    rep.fail("oracle", "c11:mask-vs-fresh-replay", format!("script step {step}: mask {m1:?} differs from fresh replay {m4:?}"), json!({"case": case, "tokens": toks}));
                }
                rep.nontrivial(format!("{}|{:?}", case["grammar"], toks));
            }
        }
        return;
    }
    mb.push("reset".into(), "ok".into(), tag);
    tie.after(&m, "init", tag, mb, rep, case);
    let vocab = w.vocab_size() as u32;
    let mut oplog: Vec<String> = vec![];
    for step in 0..steps {
        if m.is_stopped() || m.is_error() {
            break;
        }
        rep.evaluations += 1;
        // ---- read-only queries in random order before the reference mask
        let nq = rng.below(4);
        for _ in 0..nq {
            match rng.below(4) {
                0 => { let _ = m.is_accepting(); oplog.push("acc".into()); }
                1 => {
                    let ts: Vec<u32> = (0..1 + rng.below(3)).map(|_| rng.below(vocab as usize) as u32).collect();
                    let _ = m.validate_tokens(&ts);
                    oplog.push(format!("val{ts:?}"));
                    tie.after(&m, "validate", tag, mb, rep, case);
                }
                2 => { let _ = m.compute_ff_bytes(); oplog.push("ffb".into()); tie.after(&m, "ffbytes", tag, mb, rep, case); }
                _ => { let _ = eng::mask_of(&mut m); oplog.push("mask".into()); tie.after(&m, "mask", tag, mb, rep, case); }
            }
        }
        if std::env::var("LLGV_TRACE").map(|v| v == "2").unwrap_or(false) {
            if let Some(tp) = m.verif_token_parser() { let st = tp.parser.stats(); eprintln!("step {step} toks={toks:?} all_items={} rows={} ops={:?}", st.all_items, st.rows, oplog.iter().rev().take(4).collect::<Vec<_>>()); }
        }
        let m1 = eng::mask_of(&mut m);
        if std::env::var("LLGV_TRACE").map(|v| v == "2").unwrap_or(false) {
            if let Some(tp) = m.verif_token_parser() { let st = tp.parser.stats(); eprintln!("   after mask: all_items={} rows={} err={:?}", st.all_items, st.rows, m.is_error()); }
        }
        if m.is_stopped() || m.is_error() {
            tie.enabled = false; // the mask call ended in a stop: compute_bias may not have run
        }
        tie.after(&m, "mask", tag, mb, rep, case);
        if let Err(e) = &m1 {
            if e.contains("Too many items") {
                // a documented resource-limit stop (e.g. endless forced bytes between two adjacent identical
                // greedy lexemes, reached through compute_ff_bytes): not a statement about caching
                rep.skip("resource-limit-stop");
                break;
            }
        }
        if m.is_stopped() || m.is_error() {
            // NoExtensionBias etc.: compare with the fresh engine and stop
            let mut f = w.replay(&g, &toks);
            let mf = eng::mask_of(&mut f);
            if mf != m1 {
                rep.fail("oracle", "c11:mask-vs-fresh-replay", format!("step {step}: mask {m1:?} but fresh engine {mf:?}"), json!({"case": case, "tokens": toks, "ops": oplog}));
            }
            break;
        }
        let m2 = eng::mask_of(&mut m);
        tie.after(&m, "mask", tag, mb, rep, case);
        m.invalidate_bias_cache();
        tie.after(&m, "invalidate", tag, mb, rep, case);
        let m3 = eng::mask_of(&mut m);
        tie.after(&m, "mask", tag, mb, rep, case);
        let mut f = w.replay(&g, &toks);
        let m4 = eng::mask_of(&mut f);
        if m1 != m2 {
            rep.fail("oracle", "c11:mask-twice", format!("step {step}: two consecutive mask computations differ"), json!({"case": case, "tokens": toks, "ops": oplog}));
        }
        if m1 != m3 {
            rep.fail("oracle", "c11:mask-after-invalidate", format!("step {step}: mask differs after invalidate_bias_cache: {m1:?} vs {m3:?}"), json!({"case": case, "tokens": toks, "ops": oplog}));
        }
        if m1 != m4 {
            rep.fail("oracle", "c11:mask-vs-fresh-replay", format!("step {step}: mask {m1:?} differs from fresh replay {m4:?}"), json!({"case": case, "tokens": toks, "ops": oplog}));
        }
        let acc = m.is_accepting().unwrap_or(false);
        let facc = f.is_accepting().unwrap_or(false);
        if acc != facc || m.compute_ff_bytes() != f.compute_ff_bytes() {
            rep.fail("oracle", "c11:obs-vs-fresh-replay", format!("step {step}: accepting/forced bytes differ from fresh replay"), json!({"case": case, "tokens": toks, "ops": oplog}));
        }
        let Ok(allowed) = m1 else { break };
        if allowed.len() > 1 && (allowed.len() as u32) < vocab { rep.nontrivial(format!("{}|{:?}", case["grammar"], toks)); }
        // ---- next operation
        let r = rng.below(20);
        if r < 3 && !toks.is_empty() {
            let k = 1 + rng.below(toks.len().min(3));
            if m.rollback(k).is_ok() {
                toks.truncate(toks.len() - k);
                oplog.push(format!("rb{k}"));
                rep.count("op.rollback");
                tie.after(&m, "rollback", tag, mb, rep, case);
            } else {
                rep.count("op.rollback.err");
                break;
            }
        } else if r == 3 && !toks.is_empty() {
            if m.reset().is_ok() {
                toks.clear();
                oplog.push("reset".into());
                rep.count("op.reset");
                tie.after(&m, "rollback", tag, mb, rep, case);
            } else {
                break;
            }
        } else if r == 4 {
            m = if rng.chance(1, 2) { m.deep_clone() } else { m.clone() };
            oplog.push("clone".into());
            rep.count("op.clone");
        } else {
            let non_eos: Vec<u32> = allowed.iter().copied().filter(|t| *t != w.eos).collect();
            let t = if !non_eos.is_empty() && rng.chance(9, 10) { *rng.pick(&non_eos) } else { *rng.pick(&allowed) };
            oplog.push(format!("c{t}"));
            rep.count("op.commit");
            if let Err(e) = m.consume_token(t) {
                let cls = eng::err_class(&e.to_string());
                if cls.contains("Too many items") {
                    // per-step item budget (a state that forces bytes without end): a reported resource-limit stop
                    rep.skip("commit-hit-item-limit");
                } else {
                    rep.fail("oracle", "c11:commit-of-masked-token-failed", format!("step {step}: token {t} from the mask was rejected: {cls}"), json!({"case": case, "tokens": toks, "ops": oplog}));
                }
                break;
            }
            toks.push(t);
            tie.after(&m, "commit", tag, mb, rep, case);
        }
    }
    rep.sample(json!({"grammar": case["grammar"], "vocab": w.vocab_size(), "ops": oplog.iter().take(30).collect::<Vec<_>>()}));
}
