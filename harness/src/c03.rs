//! C03 — allowed tokens never lead into a dead end.
//!
//! Oracle on the real engine: along random walks through mask-allowed tokens (Lark, regex and
//! JSON-schema grammars incl. numeric ranges, multipleOf, length bounds, patterns, formats and
//! allOf intersections; byte-complete vocabularies), every state must be accepting or have a
//! non-empty mask, a stop must happen in an accepting state only, and from every visited state a
//! completion (finite token sequence to an accepting state) is searched for; a search space that is
//! exhausted without reaching acceptance is a dead end.  These are the observable consequences of
//! the hypothesis `NoDeadStep` of theorem `no_dead_end`.
use serde_json::{json, Value};

use crate::c05;
use crate::eng::{self, World};
use crate::engine::Gram;
use crate::model::ModelBatch;
use crate::report::Report;
use crate::rng::Rng;
use crate::vocab;
use crate::Ctx;
use llguidance::Matcher;

fn gen_num(rng: &mut Rng) -> Value {
    let mut m = serde_json::Map::new();
    let integer = rng.chance(1, 2);
    m.insert("type".into(), json!(if integer { "integer" } else { "number" }));
    let dec = |rng: &mut Rng| -> Value { let s = [0usize, 0, 1, 2][rng.below(4)]; let v = rng.range(-300, 300); serde_json::from_str(&if s == 0 { format!("{v}") } else { format!("{}", v as f64 / 10f64.powi(s as i32)) }).unwrap() };
    let a = dec(rng); let b = dec(rng);
    let (a, b) = if a.as_f64() > b.as_f64() { (b, a) } else { (a, b) };
    if rng.chance(2, 3) { m.insert(if rng.chance(1, 3) { "exclusiveMinimum" } else { "minimum" }.into(), a); }
    if rng.chance(2, 3) { m.insert(if rng.chance(1, 3) { "exclusiveMaximum" } else { "maximum" }.into(), b); }
    if rng.chance(1, 3) { m.insert("multipleOf".into(), serde_json::from_str(["1", "2", "3", "5", "0.5", "0.1", "0.25", "1.5", "7"][rng.below(9)]).unwrap()); }
    Value::Object(m)
}

fn gen_str(rng: &mut Rng) -> Value {
    let mut m = serde_json::Map::new();
    m.insert("type".into(), json!("string"));
    match rng.below(4) {
        0 => { let lo = rng.below(4); m.insert("minLength".into(), json!(lo)); if rng.chance(2, 3) { m.insert("maxLength".into(), json!(lo + rng.below(4))); } }
        1 => { let p = ["^[a-c]{2,4}$", "^(ab|cd)+x$", "^[0-9]+(\\.[0-9]+)?$", "^a*b+$", "[xyz]{2}"][rng.below(5)]; m.insert("pattern".into(), json!(p)); if rng.chance(1, 2) { m.insert("minLength".into(), json!(rng.below(4))); m.insert("maxLength".into(), json!(4 + rng.below(4))); } }
        2 => { let f = ["date", "time", "date-time", "uuid", "ipv4", "email", "duration", "hostname"][rng.below(8)]; m.insert("format".into(), json!(f)); }
        _ => { m.insert("enum".into(), json!(["a", "ab", "b\"c", ""])); m.remove("type"); }
    }
    Value::Object(m)
}

pub fn gen_json(rng: &mut Rng, depth: usize) -> Value {
    match rng.below(if depth > 1 { 3 } else { 8 }) {
        0 => gen_num(rng),
        1 => gen_str(rng),
        2 => { let t = ["boolean", "null"][rng.below(2)]; json!({"type": t}) }
        3 | 4 => {
            let n = 1 + rng.below(3);
            let mut props = serde_json::Map::new();
            let mut req = vec![];
            for i in 0..n { let k = ["a", "b1", "c\"q"][i].to_string(); props.insert(k.clone(), gen_json(rng, depth + 1)); if rng.chance(1, 2) { req.push(json!(k)); } }
            let mut v = json!({"type":"object","properties":props,"required":req,"additionalProperties": if rng.chance(1, 3) { gen_json(rng, depth + 2) } else { json!(false) }});
            if rng.chance(1, 4) { v["minProperties"] = json!(1); }
            v
        }
        5 => { let mut v = json!({"type":"array","items":gen_json(rng, depth + 1)}); if rng.chance(1, 2) { v["minItems"] = json!(rng.below(3)); } if rng.chance(1, 2) { v["maxItems"] = json!(2 + rng.below(3)); } if rng.chance(1, 3) { v["prefixItems"] = json!([gen_json(rng, depth + 1)]); } v }
        6 => json!({"anyOf":[gen_json(rng, depth + 1), gen_json(rng, depth + 1)]}),
        _ => {
            // intersections of same-type constraints
            if rng.chance(1, 2) { json!({"allOf":[gen_num(rng), gen_num(rng)]}) } else { json!({"allOf":[gen_str(rng), {"type":"string","maxLength": 3 + rng.below(8)}]}) }
        }
    }
}

pub fn gen_case(rng: &mut Rng, idx: usize, thorough: bool) -> Value {
    let steps = if thorough { 40 } else { 24 };
    let walks = if thorough { 6 } else { 3 };
    let g = match idx % 5 {
        0 => eng::gen_grammar(rng, idx / 5 * 3).0.to_json(),
        1 => { let (g, _) = c05::gen_cfg(rng); json!({"lark": g.to_lark()}) }
        2 => {
            // numeric windows with multipleOf on either side of zero, at the root or inside an object / tuple:
            // satisfiable by construction (the window holds a multiple), so a dead end is the engine's
            let mo = ["1", "2", "3", "5", "10", "0.5", "0.25", "1.5", "0.1"][rng.below(9)];
            let step: f64 = mo.parse().unwrap();
            let k = rng.range(-12, 12);
            let k = if rng.chance(1, 2) { -k.abs() - 1 } else { k };
            let inside = step * k as f64;
            let lo = inside - step * [0.0, 0.5, 1.0, 2.5][rng.below(4)];
            let mut hi = inside + step * [0.0, 0.5, 1.0, 2.5][rng.below(4)];
            if k < 0 && rng.chance(2, 3) { hi = hi.min(inside + step * 0.5); } // window entirely below zero
            let ty = if step.fract() == 0.0 && rng.chance(1, 2) { "integer" } else { "number" };
            let num: Value = serde_json::from_str(&format!("{{\"type\":\"{ty}\",\"minimum\":{lo},\"maximum\":{hi},\"multipleOf\":{mo}}}")).unwrap();
            let sch = match rng.below(3) {
                0 => num,
                1 => json!({"type":"object","properties":{"a":num},"required":["a"],"additionalProperties":false}),
                _ => json!({"type":"array","prefixItems":[{"type":"boolean"}, num],"minItems":2,"maxItems":2,"items":false}),
            };
            json!({"json_schema": sch})
        }
        3 if idx % 10 == 3 => {
            // an optional property (or an anyOf branch) whose string schema has no instance — a pattern or format that
            // cannot meet the length bounds: the schema as a whole stays satisfiable, so no state may dead-end
            let dead = [json!({"type":"string","pattern":"^(ab)+$","maxLength":1}), json!({"type":"string","pattern":"^[0-9]{5}$","minLength":6}),
                        json!({"type":"string","format":"date","maxLength":8}), json!({"type":"string","pattern":"^[a-c]{4}$","maxLength":3}),
                        json!({"type":"string","format":"uuid","minLength":40})][rng.below(5)].clone();
            let sch = match rng.below(3) {
                0 => json!({"type":"object","properties":{"a":{"type":"boolean"},"tag":dead},"additionalProperties":false}),
                1 => json!({"anyOf":[dead, {"type":"integer","minimum":0,"maximum":9}]}),
                _ => json!({"type":"object","properties":{"tag":dead,"n":{"type":"integer"}},"required":["n"],"additionalProperties":false}),
            };
            json!({"json_schema": sch})
        }
        3 if idx % 10 == 8 => {
            // more than 32 (64) lexemes, and a row whose only allowed lexeme has index 32 (64): lexeme sets are bit
            // vectors of several words, and the row's lexer start state is built by iterating one
            let n = [31usize, 63, 32, 64][(idx / 10) % 4];
            let mut g = String::from("start: head TAIL\nhead: ");
            g.push_str(&(1..=n).map(|i| format!("H{i}")).collect::<Vec<_>>().join(" | "));
            g.push('\n');
            for i in 1..=n { g.push_str(&format!("H{i}: \"h{i:02}\"\n")); }
            g.push_str("TAIL: \"zz\"\n");
            json!({"lark": g})
        }
        3 => json!({"json_schema": gen_json(rng, 0)}),
        _ => { let r = crate::rx::gen_rx(rng, 3); json!({"regex": r.to_regex()}) }
    };
    json!({"grammar": g, "seed": rng.next() % 1_000_000_000, "steps": steps, "walks": walks, "vocab_kind": idx % 3, "budget": if thorough { 6000 } else { 1500 }})
}

#[derive(PartialEq, Clone, Copy, Debug)]
enum Res { Found, Exhausted, Unknown }

fn priority(words: &[Vec<u8>], t: u32) -> u32 {
    let w = &words[t as usize];
    if w.is_empty() { return 1000; }
    let b = w[0];
    let base = match b { b'"' => 0, b'}' | b']' | b')' => 1, b',' | b':' => 2, b'0'..=b'9' => 3, b'a'..=b'z' => 4, 0..=0x20 => 9, _ => 5 };
    base * 4 + (w.len() as u32).min(3)
}

fn complete(w: &World, m: &mut Matcher, depth: usize, budget: &mut usize) -> Res {
    if m.is_accepting().unwrap_or(false) { return Res::Found; }
    if m.is_stopped() { return Res::Exhausted; }
    let mut mm = m.deep_clone();
    let Ok(mask) = mm.compute_mask() else { return Res::Unknown };
    let mut cand: Vec<u32> = mask.to_list().into_iter().filter(|t| *t != w.eos && !w.is_special(*t)).collect();
    if cand.is_empty() { return Res::Exhausted; }
    // only whitespace is allowed, and stays the only thing allowed after eight more whitespace tokens: the state can
    // never make progress (skippable whitespace does not change what may follow; no generated grammar asks for
    // eight whitespace tokens in a row)
    let ws_only = |c: &[u32]| c.iter().all(|t| { let wd = &w.words[*t as usize]; !wd.is_empty() && wd.iter().all(|b| matches!(b, 0x20 | 0x09 | 0x0a | 0x0d)) });
    if ws_only(&cand) {
        let mut probe = m.deep_clone();
        let mut stuck = true;
        for _ in 0..8 {
            let Ok(mk) = probe.compute_mask() else { stuck = false; break };
            let c2: Vec<u32> = mk.to_list().into_iter().filter(|t| *t != w.eos && !w.is_special(*t)).collect();
            if c2.is_empty() || !ws_only(&c2) || probe.is_accepting().unwrap_or(false) { stuck = c2.is_empty(); break; }
            if probe.consume_token(c2[0]).is_err() { stuck = false; break; }
        }
        if stuck && !probe.is_accepting().unwrap_or(false) { return Res::Exhausted; }
    }
    if depth == 0 || *budget == 0 { return Res::Unknown; }
    cand.sort_by_key(|t| priority(&w.words, *t));
    // a diverse selection: a few tokens of every priority class (so that '@', '.', '-', 'T' ... are tried
    // even when many digits and letters are allowed)
    let mut picked: Vec<u32> = vec![];
    let mut per_class: std::collections::HashMap<u32, usize> = std::collections::HashMap::new();
    let few = cand.len() <= 14;
    for &t in &cand {
        if few { picked.push(t); continue; }
        let cl = priority(&w.words, t) / 4;
        let n = per_class.entry(cl).or_insert(0);
        if *n < if cl == 5 { 6 } else { 2 } { *n += 1; picked.push(t); }
    }
    let limit = 14;
    let mut unknown = picked.len() > limit || picked.len() < cand.len();
    let cand = picked;
    for &t in cand.iter().take(limit) {
        if *budget == 0 { return Res::Unknown; }
        *budget -= 1;
        let mut m2 = m.deep_clone();
        if std::env::var("LLGV_TRACE").map(|v| v == "2").unwrap_or(false) { eprintln!("  d={depth} try {:?} of {} picked / budget {}", String::from_utf8_lossy(&w.words[t as usize]), cand.len(), *budget); }
        if m2.consume_token(t).is_err() { unknown = true; continue; }
        match complete(w, &mut m2, depth - 1, budget) {
            Res::Found => return Res::Found,
            Res::Unknown => unknown = true,
            Res::Exhausted => {}
        }
    }
    if unknown { Res::Unknown } else { Res::Exhausted }
}

pub fn run_case(_ctx: &Ctx, case: &Value, _tag: usize, rep: &mut Report, _mb: &mut ModelBatch) {
    let g = Gram::from_json(&case["grammar"]);
    let mut rng = Rng::new(case["seed"].as_u64().unwrap_or(1));
    let texts: Vec<Vec<u8>> = vec![b"{\"a\":12.5,\"b1\":[true,null]}".to_vec(), b"abcab 2024-01-02T10:20:30Z".to_vec()];
    let Ok(w) = eng::build_world(&mut rng, &texts, false, None, case["vocab_kind"].as_u64().unwrap_or(0) as usize) else { rep.skip("world"); return; };
    let base = w.matcher(&g);
    if base.is_error() {
        // refusing a grammar at compile time is the documented behaviour for unsatisfiable schemas
        rep.skip(&format!("compile-error:{}", eng::err_class(&base.get_error().unwrap_or_default()).chars().take(28).collect::<String>()));
        return;
    }
    rep.evaluations += 1;
    let kind = match &g { Gram::Lark(_) => "lark", Gram::Json(_) => "json", Gram::Regex(_) => "regex" };
    rep.count(&format!("grammar.{kind}"));
    let steps = case["steps"].as_u64().unwrap_or(20) as usize;
    let budget0 = case["budget"].as_u64().unwrap_or(1500) as usize;
    for walk in 0..case["walks"].as_u64().unwrap_or(3) {
        let mut m = base.deep_clone();
        let mut toks: Vec<u32> = vec![];
        for step in 0..steps {
            let repro = json!({"grammar": case["grammar"], "vocab_kind": case["vocab_kind"], "seed": case["seed"], "walk": walk, "tokens": toks});
            if m.is_stopped() {
                if !m.is_accepting().unwrap_or(false) && format!("{:?}", m.stop_reason()) != "EndOfSentence" {
                    rep.fail("oracle", "c03:stop-in-non-accepting-state", format!("engine stopped ({:?}) after {} tokens in a state that is not accepting", m.stop_reason(), toks.len()), repro);
                    return;
                }
                break;
            }
            let acc = m.is_accepting().unwrap_or(false);
            let mask = match m.compute_mask() {
                Ok(v) => v,
                Err(e) => { rep.fail("oracle", "c03:mask-error", format!("compute_mask failed after {} tokens: {}", toks.len(), eng::err_class(&e.to_string())), repro); return; }
            };
            if m.is_stopped() && !acc {
                rep.fail("oracle", "c03:no-extension-in-non-accepting-state", format!("compute_mask stopped the engine ({:?}) after {} tokens in a non-accepting state", m.stop_reason(), toks.len()), repro);
                return;
            }
            let allowed: Vec<u32> = mask.to_list().into_iter().filter(|t| *t != w.eos).collect();
            if allowed.is_empty() && !acc {
                rep.fail("oracle", "c03:empty-mask-in-non-accepting-state", format!("empty mask after {} tokens in a non-accepting state", toks.len()), repro);
                return;
            }
            rep.count("states.checked");
            // completion search at the start, then at every third state
            if step % 3 == 0 {
                let mut budget = budget0;
                // short completions first (iterative deepening), then a deep greedy search
                let mut res = Res::Unknown;
                for d in [1usize, 2, 3, 5, 48] {
                    let mut b = if d == 48 { budget } else { (budget0 / 8).min(budget) };
                    let before = b;
                    res = complete(&w, &mut m.deep_clone(), d, &mut b);
                    budget = budget.saturating_sub(before - b);
                    if res != Res::Unknown { break; }
                }
                match res {
                    Res::Found => rep.count("completion.found"),
                    Res::Unknown => { rep.count("completion.unknown"); rep.count(&format!("completion.unknown.{kind}")); if std::env::var("LLGV_TRACE").is_ok() { eprintln!("UNKNOWN budget_left={budget} toks={:?} grammar={}", toks.iter().map(|t| String::from_utf8_lossy(&w.words[*t as usize]).to_string()).collect::<Vec<_>>().join("|"), case["grammar"]); } }
                    Res::Exhausted => {
                        rep.fail("oracle", "c03:dead-end", format!("no completion exists after {} tokens: every branch of the search ended in an empty mask or a stop in a non-accepting state", toks.len()), repro);
                        return;
                    }
                }
            }
            if allowed.is_empty() { break; }
            // prefer going on; take EOS-free tokens
            let t = allowed[rng.below(allowed.len())];
            if let Err(e) = m.consume_token(t) {
                rep.fail("oracle", "c03:allowed-token-refused", format!("token {t} from the mask refused: {}", eng::err_class(&e.to_string())), repro);
                return;
            }
            toks.push(t);
        }
    }
    rep.nontrivial(case["grammar"].to_string());
    rep.sample(json!({"grammar": case["grammar"], "kind": kind}));
}
