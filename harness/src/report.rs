//! Result of one harness run; turned into evidence + verdict by /verif/check.
use serde_json::{json, Map, Value};
use std::collections::{BTreeMap, BTreeSet};

#[derive(Clone, Debug)]
pub struct Failure {
    /// "oracle" (property's own oracle on the implementation), "spec" (implementation vs Lean
    /// spec decider), "model" (implementation vs Lean mechanism model: the tie broke)
    pub kind: &'static str,
    /// stable classification used to match known findings
    pub signature: String,
    pub what: String,
    /// the case (input / op sequence) that reproduces it
    pub case: Value,
}

#[derive(Default)]
pub struct Report {
    pub evaluations: u64,
    pub nontrivial: BTreeSet<String>,
    pub dist: BTreeMap<String, u64>,
    pub samples: Vec<Value>,
    pub failures: Vec<Failure>,
    pub model_requests: u64,
    pub skipped: BTreeMap<String, u64>,
    pub rule: String,
    pub exhaustive: bool,
    pub notes: Vec<String>,
}

impl Report {
    pub fn count(&mut self, key: &str) {
        *self.dist.entry(key.to_string()).or_insert(0) += 1;
    }
    pub fn count_n(&mut self, key: &str, n: u64) {
        *self.dist.entry(key.to_string()).or_insert(0) += n;
    }
    pub fn skip(&mut self, key: &str) {
        *self.skipped.entry(key.to_string()).or_insert(0) += 1;
    }
    pub fn nontrivial(&mut self, key: String) {
        self.nontrivial.insert(key);
    }
    pub fn sample(&mut self, v: Value) {
        if self.samples.len() < 6 {
            self.samples.push(v);
        }
    }
    pub fn fail(&mut self, kind: &'static str, signature: &str, what: String, case: Value) {
        // keep the report bounded; count everything
        self.count(&format!("fail.{kind}"));
        if self.failures.len() < 40 {
            self.failures.push(Failure {
                kind,
                signature: signature.to_string(),
                what,
                case,
            });
        }
    }
    pub fn to_json(&self) -> Value {
        let mut m = Map::new();
        m.insert("evaluations".into(), json!(self.evaluations));
        m.insert("distinct_nontrivial".into(), json!(self.nontrivial.len()));
        m.insert("rule".into(), json!(self.rule));
        m.insert("samples".into(), json!(self.samples));
        m.insert("dist".into(), json!(self.dist));
        m.insert("skipped".into(), json!(self.skipped));
        m.insert("model_requests".into(), json!(self.model_requests));
        m.insert("exhaustive".into(), json!(self.exhaustive));
        m.insert("notes".into(), json!(self.notes));
        let fails: Vec<Value> = self
            .failures
            .iter()
            .map(|f| json!({"kind": f.kind, "signature": f.signature, "what": f.what, "case": f.case}))
            .collect();
        m.insert("failures".into(), Value::Array(fails));
        Value::Object(m)
    }
}
