//! C15 — grammar optimisation preserves the language.
//!
//! For every grammar of the run the front end's rule graph and the optimised one are dumped
//! (hook `verif_optimizer_dump`).  The harness derives the inlining certificate (which symbols
//! disappeared, what each was replaced by, a rank) and the Lean function `checkInline` — for which
//! `inline_preserves` proves language equality for strings of every length — re-checks it.
//! If the certificate is rejected the two grammars are compared on every terminal string up to a
//! bound with the proved chart recogniser, to find a concrete string on which they differ.
use serde_json::{json, Value};
use std::collections::HashMap;

use crate::c05;
use crate::engine::Gram;
use crate::model::ModelBatch;
use crate::report::Report;
use crate::rng::Rng;
use crate::vocab;
use crate::Ctx;
use llguidance::api::ParserLimits;
use llguidance::earley::{verif_optimizer_dump, VerifSym};

const SPECIALS_LARK: &[&str] = &[
    "start: \"a\" mid \"z\"\nmid[capture]: inner\ninner: \"b\" | \"c\" inner\n",
    "start: head tail\nhead[max_tokens=3]: /[a-z]+/\ntail: w\nw: \"!\"\n",
    "start: a\na: b\nb[capture=\"cap\"]: c\nc: d\nd: \"x\" | \"y\" d\n",
    "start: (item \",\")* item\nitem[capture=\"it\"]: wrapped\nwrapped: \"<\" /[a-z]*/ \">\"\n",
    "start: a b c\na: \"1\"\nb: a a\nc: b b | \"\"\n",
    "start: x\nx: y\ny: z\nz: x | \"q\"\n",
    "start: opt rep\nopt: \"a\"?\nrep: (\"b\" | \"c\" opt)*\n",
    "start: l\nl: \"[\" (e (\",\" e)*)? \"]\"\ne: l | N\nN: /[0-9]/\n",
    "start: %json {\"type\":\"object\",\"properties\":{\"k\":{\"type\":\"array\",\"items\":{\"type\":\"boolean\"}}},\"required\":[\"k\"],\"additionalProperties\":false}\n",
    "start: a{2,4} b\na: \"a\" | c\nc: \"c\"\nb: c c\n",
];

fn json_corpus() -> Vec<Value> {
    vec![
        json!({"type":"object","properties":{"a":{"type":"integer","minimum":3,"maximum":17},"b":{"type":"string","maxLength":4}},"required":["a"],"additionalProperties":false}),
        json!({"type":"array","items":{"enum":["x","yy",1,true,null]},"minItems":1,"maxItems":3}),
        json!({"$defs":{"n":{"type":"object","properties":{"v":{"type":"number"},"next":{"anyOf":[{"$ref":"#/$defs/n"},{"type":"null"}]}},"required":["v","next"],"additionalProperties":false}},"$ref":"#/$defs/n"}),
        json!({"type":"object","patternProperties":{"^x":{"type":"boolean"}},"additionalProperties":{"type":"integer"},"minProperties":1}),
        json!({"type":"array","prefixItems":[{"type":"string"},{"type":"integer"}],"items":{"type":"null"},"minItems":1}),
        json!({"anyOf":[{"type":"object","properties":{"t":{"const":"a"},"v":{"type":"integer"}},"required":["t","v"],"additionalProperties":false},{"type":"array","items":{"type":"string"},"maxItems":2}]}),
        json!({"type":"object","properties":{"a":{"type":"string"},"b":{"type":"number"},"c":{"type":"boolean"},"d":{"type":"null"}},"required":["b"],"additionalProperties":false}),
        json!({"type":"object","properties":{"n":{"type":"object","properties":{"m":{"type":"object","properties":{"l":{"type":"array","items":{"type":"array","items":{"type":"integer"}}}},"additionalProperties":false}},"additionalProperties":false}},"additionalProperties":false}),
        json!({"oneOf":[{"type":"integer"},{"type":"string","minLength":2}]}),
        json!({"type":"array","items":{"$ref":"#"},"maxItems":2}),
        // definitions referenced exactly once, with a single-rule body, under a multi-rule parent (unit-rule aliases
        // whose target is itself inlined away)
        json!({"x-guidance":{"whitespace_flexible":false},"anyOf":[{"$ref":"#/$defs/A"},{"type":"boolean"}],"$defs":{"A":{"type":"object","properties":{"x":{"type":"null"}},"required":["x"],"additionalProperties":false}}}),
        json!({"anyOf":[{"$ref":"#/$defs/P"},{"type":"null"},{"$ref":"#/$defs/Q"}],"$defs":{"P":{"type":"array","prefixItems":[{"type":"boolean"},{"type":"null"}],"items":false,"minItems":2},"Q":{"type":"object","properties":{"k":{"$ref":"#/$defs/R"}},"required":["k"],"additionalProperties":false},"R":{"type":"array","prefixItems":[{"const":1}],"items":false,"minItems":1}}}),
        json!({"type":"object","properties":{"a":{"anyOf":[{"$ref":"#/$defs/T"},{"type":"integer"}]}},"required":["a"],"additionalProperties":false,"$defs":{"T":{"type":"object","properties":{"u":{"type":"boolean"}},"required":["u"],"additionalProperties":false}}}),
    ]
}

fn gen_schema(rng: &mut Rng, depth: usize) -> Value {
    match rng.below(if depth > 2 { 4 } else { 8 }) {
        0 => json!({"type":"integer"}),
        1 => json!({"type":"string"}),
        2 => json!({"type":"boolean"}),
        3 => json!({"enum": ["a", 1, null]}),
        4 | 5 => {
            let n = rng.below(4);
            let mut props = serde_json::Map::new();
            let mut req = vec![];
            for i in 0..n { let k = format!("k{i}"); props.insert(k.clone(), gen_schema(rng, depth + 1)); if rng.chance(1, 2) { req.push(json!(k)); } }
            json!({"type":"object","properties":props,"required":req,"additionalProperties": if rng.chance(1, 3) { gen_schema(rng, depth + 2) } else { json!(false) }})
        }
        6 => { let mut v = json!({"type":"array","items":gen_schema(rng, depth + 1)}); if rng.chance(1, 2) { v["minItems"] = json!(rng.below(3)); } if rng.chance(1, 2) { v["maxItems"] = json!(2 + rng.below(3)); } v }
        _ => json!({"anyOf":[gen_schema(rng, depth + 1), gen_schema(rng, depth + 1)]}),
    }
}

pub fn gen_case(rng: &mut Rng, idx: usize, _thorough: bool) -> Value {
    let ns = SPECIALS_LARK.len();
    let nj = json_corpus().len();
    if idx < ns { return json!({"lark": SPECIALS_LARK[idx]}); }
    if idx < ns + nj { return json!({"json_schema": json_corpus()[idx - ns]}); }
    match idx % 4 {
        0 => { let (g, _) = c05::gen_cfg(rng); json!({"lark": g.to_lark()}) }
        1 => { let g = crate::lark::gen_lark(rng); json!({"lark": g.to_lark()}) }
        2 => {
            // half of the time two sub-schemas are moved into $defs and referenced once each under an anyOf
            if rng.chance(1, 2) {
                let a = gen_schema(rng, 1); let b = gen_schema(rng, 1);
                json!({"json_schema": {"anyOf":[{"$ref":"#/$defs/A"},{"type":"boolean"},{"$ref":"#/$defs/B"}],"$defs":{"A":a,"B":b}}})
            } else { json!({"json_schema": gen_schema(rng, 0)}) }
        }
        _ => { let c = crate::engine::small_corpus(); rng.pick(&c).to_json() }
    }
}

struct Mapped {
    /// plain rules in the common index space (indices of the grammar before optimisation)
    g: Vec<(usize, Vec<c05::PS>)>,
    g2: Vec<(usize, Vec<c05::PS>)>,
    start: usize,
    start2: usize,
    removed: Vec<usize>,
    protected: Vec<usize>,
    n_terms: usize,
}

fn sym_ps(syms: &[VerifSym], map: &dyn Fn(usize) -> usize, s: u32) -> c05::PS {
    let d = &syms[s as usize];
    match d.lexeme { Some(k) if d.rules.is_empty() => c05::PS::T(k as u8, k as u8), _ => c05::PS::N(map(s as usize)) }
}

fn unrename(name: &str) -> Vec<String> {
    let mut v = vec![name.to_string()];
    if let Some(r) = name.strip_prefix("z_") { v.push(format!("zero_or_more{r}")); }
    if let Some(r) = name.strip_prefix("o_") { v.push(format!("one_or_more{r}")); }
    v
}

fn map_grammars(before: &[VerifSym], after: &[VerifSym]) -> Result<Mapped, String> {
    if before.iter().chain(after.iter()).any(|s| !s.plain) { return Err("skip:parametric".into()); }
    let n_terms = before.iter().filter_map(|s| s.lexeme).max().map(|m| m as usize + 1).unwrap_or(0);
    if n_terms > 255 { return Err("skip:more-than-255-lexemes".into()); }
    let by_name: HashMap<&str, usize> = before.iter().enumerate().map(|(i, s)| (s.name.as_str(), i)).collect();
    let mut amap = vec![usize::MAX; after.len()];
    let mut fresh = vec![];
    for (j, s) in after.iter().enumerate() {
        match unrename(&s.name).iter().find_map(|n| by_name.get(n.as_str())) {
            Some(i) => amap[j] = *i,
            None => {
                if s.name != "_start_repl" { return Err(format!("fail:optimised grammar has a symbol `{}` the original does not have", s.name)); }
                amap[j] = before.len() + fresh.len();
                fresh.push(j);
            }
        }
    }
    // two optimised symbols must not land on one original symbol
    let mut seen = std::collections::HashSet::new();
    for &i in &amap { if !seen.insert(i) { return Err("fail:two optimised symbols map to one original symbol".into()); } }
    let id = |i: usize| i;
    let mut g = vec![];
    for (i, s) in before.iter().enumerate() { for r in &s.rules { g.push((i, r.iter().map(|x| sym_ps(before, &id, *x)).collect())); } }
    let am = |j: usize| amap[j];
    let mut g2 = vec![];
    for (j, s) in after.iter().enumerate() { for r in &s.rules { g2.push((amap[j], r.iter().map(|x| sym_ps(after, &am, *x)).collect())); } }
    // the fresh start wrapper is added to the original grammar as well (a language-neutral wrapper)
    for &j in &fresh { for r in &after[j].rules { g.push((amap[j], r.iter().map(|x| sym_ps(after, &am, *x)).collect())); } }
    // Replaced symbols (guess of the certificate; the Lean check decides): a nonterminal with exactly one
    // rule, not protected, that nothing reachable in the optimised grammar refers to any more.  The
    // optimiser leaves the rules of some inlined symbols behind as dead rules.
    let mut reach: std::collections::HashSet<usize> = std::collections::HashSet::new();
    let mut todo: Vec<usize> = vec![amap[0]];
    todo.extend(before.iter().enumerate().filter(|(_, s)| s.special).map(|(i, _)| i));
    while let Some(x) = todo.pop() {
        if !reach.insert(x) { continue; }
        for (l, r) in g2.iter() { let r: &Vec<c05::PS> = r; if *l == x { for y in r.iter() { if let c05::PS::N(k) = y { todo.push(*k); } } } }
    }
    let removed: Vec<usize> = (0..before.len()).filter(|i| {
        let s = &before[*i];
        !reach.contains(i) && !s.special && s.rules.len() == 1 && !(s.lexeme.is_some() && s.rules.is_empty())
    }).collect();
    let protected: Vec<usize> = before.iter().enumerate().filter(|(_, s)| s.special).map(|(i, _)| i).collect();
    Ok(Mapped { g, g2, start: 0, start2: amap[0], removed, protected, n_terms })
}

/// replacement map and rank, derived from the original grammar and the set of removed symbols
fn certificate(m: &Mapped) -> Result<(Vec<(usize, Vec<c05::PS>)>, Vec<(usize, usize)>), String> {
    let removed: std::collections::HashSet<usize> = m.removed.iter().copied().collect();
    let mut rules: HashMap<usize, Vec<&Vec<c05::PS>>> = HashMap::new();
    for (l, r) in &m.g { rules.entry(*l).or_default().push(r); }
    let mut repl: HashMap<usize, Vec<c05::PS>> = HashMap::new();
    let mut rank: HashMap<usize, usize> = HashMap::new();
    fn expand(s: usize, removed: &std::collections::HashSet<usize>, rules: &HashMap<usize, Vec<&Vec<c05::PS>>>, repl: &mut HashMap<usize, Vec<c05::PS>>, rank: &mut HashMap<usize, usize>, stack: &mut Vec<usize>) -> Result<(), String> {
        if repl.contains_key(&s) { return Ok(()); }
        if stack.contains(&s) { return Err(format!("removed symbols form a cycle through {s}")); }
        let rs = rules.get(&s).map(|v| v.as_slice()).unwrap_or(&[]);
        if rs.len() != 1 { return Err(format!("removed symbol {s} has {} rules", rs.len())); }
        stack.push(s);
        let mut out = vec![];
        let mut rk = 0;
        for x in rs[0].iter() {
            match x {
                c05::PS::N(b) if removed.contains(b) => { expand(*b, removed, rules, repl, rank, stack)?; out.extend(repl[b].iter().copied()); rk = rk.max(rank[b] + 1); }
                _ => out.push(*x),
            }
        }
        stack.pop();
        repl.insert(s, out);
        rank.insert(s, rk);
        Ok(())
    }
    for &s in &m.removed { expand(s, &removed, &rules, &mut repl, &mut rank, &mut vec![])?; }
    let mut r: Vec<(usize, Vec<c05::PS>)> = repl.into_iter().collect();
    r.sort_by_key(|x| x.0);
    let mut k: Vec<(usize, usize)> = rank.into_iter().collect();
    k.sort();
    Ok((r, k))
}

fn or_dash(s: String) -> String { if s.is_empty() { "-".into() } else { s } }

pub fn run_case(ctx: &Ctx, case: &Value, tag: usize, rep: &mut Report, mb: &mut ModelBatch) {
    rep.evaluations += 1;
    let g = Gram::from_json(case);
    let sb = vocab::single_byte_words();
    let eos = sb.len() as u32 - 1;
    let env = vocab::env_from_words(&sb, eos, false);
    let (before, after) = match verif_optimizer_dump(g.top(), Some(env), ParserLimits::default()) {
        Ok(x) => x,
        Err(e) => { rep.skip(&format!("front-end-error:{}", crate::eng::err_class(&e.to_string()).chars().take(30).collect::<String>())); return; }
    };
    rep.count(match &g { Gram::Lark(_) => "front.lark", Gram::Json(_) => "front.json", Gram::Regex(_) => "front.regex" });
    let m = match map_grammars(&before, &after) {
        Ok(m) => m,
        Err(e) if e.starts_with("skip:") => { rep.skip(&e[5..]); return; }
        Err(e) => { rep.fail("oracle", "c15:symbol-map", e, case.clone()); return; }
    };
    // protected symbols must survive (oracle, independent of the certificate)
    for p in &m.protected {
        if m.removed.contains(p) {
            rep.fail("oracle", "c15:protected-symbol-removed", format!("symbol `{}` (capture / token limit / sub-grammar boundary / start) is gone after optimisation", before[*p].name), case.clone());
            return;
        }
    }
    // ... and stay where they were used: a protected symbol reachable from the start symbol before optimisation
    // must be reachable afterwards (inlining it into its user, or dropping it as an alias, loses the boundary)
    {
        let reach_from = |rules: &Vec<(usize, Vec<c05::PS>)>, start: usize| {
            let mut reach: std::collections::HashSet<usize> = Default::default();
            let mut todo = vec![start];
            while let Some(x) = todo.pop() {
                if !reach.insert(x) { continue; }
                for (l, r) in rules.iter() { if *l == x { for y in r.iter() { if let c05::PS::N(k) = y { todo.push(*k); } } } }
            }
            reach
        };
        let rb = reach_from(&m.g, m.start);
        let ra = reach_from(&m.g2, m.start2);
        for p in &m.protected {
            if rb.contains(p) { rep.count("protected.reachable-before"); }
            if rb.contains(p) && !ra.contains(p) {
                rep.fail("oracle", "c15:protected-symbol-unreachable", format!("symbol `{}` (capture / token limit / sub-grammar boundary / start) is used by the grammar before optimisation and no longer reachable from the start symbol afterwards", before[*p].name), case.clone());
                return;
            }
        }
    }
    rep.count_n("symbols.before", before.len() as u64);
    rep.count_n("symbols.removed", m.removed.len() as u64);
    if !m.removed.is_empty() { rep.nontrivial(case.to_string()); }
    let cert = certificate(&m);
    let req = match &cert {
        Ok((r, rk)) => Some(format!("opt check {} {} {} {} {}", or_dash(c05::plain_to_model(&m.g)), or_dash(c05::plain_to_model(&m.g2)), or_dash(c05::plain_to_model(r)),
            or_dash(rk.iter().map(|(a, b)| format!("{a}={b}")).collect::<Vec<_>>().join(";")), or_dash(m.protected.iter().map(|p| p.to_string()).collect::<Vec<_>>().join(",")))),
        Err(_) => None,
    };
    let verdict = match &req {
        Some(rq) => ModelBatch::run_raw(&ctx.model_exe, &[rq.clone()]).map(|v| v[0].clone()).unwrap_or_else(|e| format!("driver-error {e}")),
        None => format!("no-certificate: {}", cert.as_ref().err().unwrap()),
    };
    if verdict == "ok" {
        // recorded in the batch too, so that the evidence counts it as a validated trace
        mb.push(req.unwrap(), "ok".into(), tag);
        rep.sample(json!({"grammar": case, "symbols": before.len(), "removed": m.removed.len(), "terminals": m.n_terms}));
        return;
    }
    // certificate rejected: look for a terminal string on which the two grammars differ
    let terms: Vec<u8> = { let mut t: Vec<u8> = m.g.iter().chain(m.g2.iter()).flat_map(|r| r.1.iter()).filter_map(|s| if let c05::PS::T(a, _) = s { Some(*a) } else { None }).collect(); t.sort(); t.dedup(); t.truncate(6); t };
    let max_len = if terms.len() <= 2 { 7 } else if terms.len() <= 4 { 5 } else { 4 };
    let mut words: Vec<Vec<u8>> = vec![vec![]];
    for _ in 0..max_len { words = words.iter().flat_map(|w| terms.iter().map(move |t| { let mut x = w.clone(); x.push(*t); x })).collect(); }
    let mk = |rules: &[(usize, Vec<c05::PS>)], start: usize| -> Vec<String> { words.iter().map(|w| format!("cfg acc {start} {} {}", or_dash(c05::plain_to_model(rules)), or_dash(vocab::hex(w)))).collect() };
    let (r1, r2) = (ModelBatch::run_raw(&ctx.model_exe, &mk(&m.g, m.start2)), ModelBatch::run_raw(&ctx.model_exe, &mk(&m.g2, m.start2)));
    let _ = m.start;
    if let (Ok(a), Ok(b)) = (r1, r2) {
        for (i, (x, y)) in a.iter().zip(b.iter()).enumerate() {
            if x != y {
                let k = x.bytes().zip(y.bytes()).position(|(p, q)| p != q).unwrap_or(0).saturating_sub(3);
                rep.fail("spec", "c15:language-differs", format!("terminal sequence {:?} (lexeme ids): derived before optimisation = {}, after = {}", &words[i][..k.min(words[i].len())], &x[3 + k..4 + k], &y[3 + k..4 + k]), json!({"grammar": case, "terminals": &words[i][..k.min(words[i].len())]}));
                return;
            }
        }
    }
    rep.fail("model", "c15:certificate-rejected", format!("inlining certificate not accepted ({verdict}); no differing terminal string up to length {max_len}"), json!({"grammar": case, "request": req}));
}
