//! C20 — arbitrary input never crashes, corrupts or hangs the engine.
//!
//! Inputs (random bytes, mutated corpus, adversarial nesting and sizes) are offered as Lark
//! grammar / JSON schema / regex / slice list / tokenizer.json / token ids, followed by random API
//! call sequences under default and tight limits.  Every batch runs in a child process with a
//! time limit and an address-space limit, in two build profiles (release as users build it;
//! overflow checks and debug assertions on).  Oracle: the child ends normally; every input ends in
//! `ok` or a reported error; no panic escapes a library call; after a successful build legal calls
//! never report an internal panic; a failed engine keeps failing; the two profiles agree.
use std::io::Write;
use std::process::{Command, Stdio};
use std::time::{Duration, Instant};

use llguidance::api::{ParserLimits, TopLevelGrammar};
use llguidance::toktrie::InferenceCapabilities;
use llguidance::{Logger, Matcher, ParserFactory};
use serde_json::{json, Value};

use crate::eng;
use crate::model::ModelBatch;
use crate::report::Report;
use crate::rng::Rng;
use crate::vocab;
use crate::Ctx;

const CORPUS_LARK: &[&str] = &[
    "start: \"x\" T \"1\" | \"y\" T \"2\"\nT: /[a-z]+/\n",
    "start: e\ne: e \"+\" t | t\nt: t \"*\" f | f\nf: \"(\" e \")\" | N\nN: /[0-9]+/\n",
    "start: item+\nitem: \"a\" | \"bc\" | \"(\" item* \")\"\n%ignore /[ \\t]+/\n",
    "start: A{2,5} B?\nA: /[a-c]{1,3}/\nB: \"é\" | \"日本\"\n",
    "start: \"<\" name \">\" body \"</\" name \">\"\nname: /[a-z]+/\nbody: /[^<]*/\n",
    "start: %json {\"type\":\"array\",\"items\":{\"type\":\"integer\"}}\n",
];

fn corpus_json() -> Vec<Value> {
    vec![
        json!({"type":"object","properties":{"a":{"type":"integer","minimum":3,"maximum":17},"b":{"type":"string","maxLength":4}},"required":["a"],"additionalProperties":false}),
        json!({"type":"array","items":{"enum":["x","yy",1,true,null]},"minItems":1,"maxItems":3}),
        json!({"$defs":{"n":{"type":"object","properties":{"v":{"type":"number"},"next":{"anyOf":[{"$ref":"#/$defs/n"},{"type":"null"}]}},"required":["v","next"],"additionalProperties":false}},"$ref":"#/$defs/n"}),
        json!({"allOf":[{"type":"number","multipleOf":0.5},{"type":"number","multipleOf":0.2,"minimum":-3}]}),
        json!({"type":"string","pattern":"^[a-z]+@[a-z]+\\.com$","minLength":5}),
        json!({"type":"object","patternProperties":{"^x":{"type":"boolean"}},"additionalProperties":{"type":"integer"},"minProperties":1}),
    ]
}

fn mutate(rng: &mut Rng, s: &[u8]) -> Vec<u8> {
    let mut v = s.to_vec();
    for _ in 0..1 + rng.below(4) {
        if v.is_empty() { v.push(rng.below(256) as u8); continue; }
        let i = rng.below(v.len());
        match rng.below(7) {
            0 => { v[i] = rng.below(256) as u8; }
            1 => { v.remove(i); }
            2 => { let b = v[i]; v.insert(i, b); }
            3 => { let j = rng.below(v.len()); let (a, b) = (i.min(j), i.max(j)); let seg = v[a..b].to_vec(); for _ in 0..1 + rng.below(3) { v.splice(a..a, seg.iter().copied()); } }
            4 => { v.truncate(i); }
            5 => { let ins: &[u8] = [&b"{100000,}"[..], b"*", b"(", b")", b"\"", b"/", b"\\", b"%", b"9999999999", b"-1", b"1e308", b"null", b"[", b"{"][rng.below(14)]; v.splice(i..i, ins.iter().copied()); }
            _ => { let j = rng.below(s.len().max(1)).min(v.len() - 1); v.swap(i, j); }
        }
    }
    v
}

fn adversarial(rng: &mut Rng, kind: usize) -> (String, Vec<u8>) {
    match kind % 20 {
        0 => { let d = 50 + rng.below(3000); ("lark".into(), format!("start: {}\"a\"{}\n", "(".repeat(d), ")".repeat(d)).into_bytes()) }
        1 => { let n = [1000usize, 100000, 4000000000][rng.below(3)]; ("lark".into(), format!("start: \"a\"{{0,{n}}}\n").into_bytes()) }
        2 => { let n = 10 + rng.below(300); ("lark".into(), format!("start: {}\n", (0..n).map(|i| format!("\"k{i}\"")).collect::<Vec<_>>().join(" | ")).into_bytes()) }
        3 => ("lark".into(), b"start: a\na: b\nb: a\n".to_vec()),
        4 => ("lark".into(), b"start: start start | \"a\" | \"\"\n".to_vec()),
        5 => { let d = 20 + rng.below(400); let mut v = json!({"type":"integer"}); for _ in 0..d { v = json!({"type":"array","items": v}); } ("json".into(), v.to_string().into_bytes()) }
        6 => { let n = [1000u64, 1000000000u64, 4294967296u64][rng.below(3)]; ("json".into(), json!({"type":"array","items":{"type":"integer"},"minItems": n}).to_string().into_bytes()) }
        7 => { let a = [1e-10, 1e-7, 0.000001][rng.below(3)]; let b = [3.0, 7.0, 1e5][rng.below(3)]; ("json".into(), json!({"allOf":[{"type":"number","multipleOf": a},{"type":"number","multipleOf": b}]}).to_string().into_bytes()) }
        8 => ("json".into(), json!({"type":"integer","minimum": -9223372036854775808i64, "maximum": 9223372036854775807i64}).to_string().into_bytes()),
        9 => ("json".into(), json!({"type":"number","minimum": -1e308, "maximum": 1e308, "multipleOf": 1e-300}).to_string().into_bytes()),
        10 => ("json".into(), json!({"$ref":"#/$defs/a","$defs":{"a":{"$ref":"#/$defs/b"},"b":{"$ref":"#/$defs/a"}}}).to_string().into_bytes()),
        11 => ("regex".into(), format!("(a{{{}}}){{{}}}", 100 + rng.below(900), 100 + rng.below(900)).into_bytes()),
        12 => ("regex".into(), format!("{}a{}", "(".repeat(200 + rng.below(2000)), ")*".repeat(1)).into_bytes()),
        13 => ("regex".into(), b"((((a*)*)*)*)*b".to_vec()),
        15 => { let d = [29usize, 40, 200, 1000, 5000, 20000][rng.below(6)]; ("lark".into(), format!("{}start: \"a\"\n{}", "start: %lark {\n".repeat(d), "}\n".repeat(d)).into_bytes()) }
        16 => { let d = [29usize, 60, 500, 3000][rng.below(4)]; ("lark".into(), format!("start: {}\"a\"{}\n", "(".repeat(d), ")?".repeat(d)).into_bytes()) }
        17 => { let d = 20 + rng.below(2000); let mut s = String::from("{\"type\":\"integer\"}"); for _ in 0..d { s = format!("{{\"anyOf\":[{s},{{\"type\":\"null\"}}]}}"); } ("json".into(), s.into_bytes()) }
        18 => {
            // token references by id around the vocabulary size (the single-byte vocabulary of the child has 256 bytes
            // plus a handful of special tokens): out-of-range ids must be refused when the grammar is built
            let n = vocab::single_byte_words().len();
            let hi = [n - 1, n, n, n, n + 1, 100000, u32::MAX as usize][rng.below(7)];
            let g = match rng.below(4) {
                0 => format!("start: \"a\" <[97-{hi}]>\n"),
                1 => format!("start: <[5,{hi}]> \"b\"\n"),
                2 => format!("start: <[{hi}]>\n"),
                _ => format!("start: \"a\" <[^0-{hi}]> | \"b\"\n"),
            };
            ("lark".into(), g.into_bytes())
        }
        14 => ("tokjson".into(), json!({"decoder":{"type":"Sequence","decoders":[{"type":"ByteFallback"}]},"added_tokens":[],"model":{"vocab":{"<0xZZ>":0,"a":1,"<0x4":2,"<0x41>":3,"<0x\u{e9}>":4}}}).to_string().into_bytes()),
        _ => ("slices".into(), b"[a-z]+\n[a-z]{1,3}\n(\n[^\n".to_vec()),
    }
}

pub fn gen_case(rng: &mut Rng, idx: usize, thorough: bool) -> Value {
    if idx % 8 == 7 {
        // tie of the Lean model of Decimal::checked_lcm (theorem lcm_no_overflow_or_error) to the code
        let coefs: [u64; 14] = [0, 1, 2, 3, 5, 7, 25, 999, 65535, 65536, 1 << 31, 4294967295, 1410065408, 123456789];
        let n = if thorough { 600 } else { 200 };
        let mut v = vec![];
        for _ in 0..n {
            let c = |rng: &mut Rng| if rng.chance(1, 4) { rng.next() % (1 << 32) } else { coefs[rng.below(coefs.len())] };
            let e = |rng: &mut Rng| if rng.chance(1, 3) { rng.below(5) as u64 } else { rng.below(14) as u64 };
            v.push(json!([c(rng), e(rng), c(rng), e(rng)]));
        }
        return json!({"lcm": v});
    }
    // one case = one batch of inputs for one child process
    let n = if thorough { 60 } else { 25 };
    let mut inputs = vec![];
    for k in 0..n {
        let (kind, bytes): (String, Vec<u8>) = match (idx + k) % 5 {
            0 => { let kinds = ["lark", "json", "regex", "slices", "tokjson"]; let l = rng.below(60); (kinds[rng.below(5)].to_string(), (0..l).map(|_| rng.below(256) as u8).collect()) }
            1 => { let c = rng.pick(CORPUS_LARK); ("lark".to_string(), mutate(rng, c.as_bytes())) }
            2 => { let c = corpus_json(); let v = rng.pick(&c).to_string(); ("json".to_string(), mutate(rng, v.as_bytes())) }
            3 => { let kk = if rng.chance(1, 2) { rng.below(20) } else { idx * 5 + k / 5 }; adversarial(rng, kk) }
            _ => {
                // valid corpus entry followed by an API script (also with tight limits)
                if rng.chance(1, 2) { ("lark".to_string(), rng.pick(CORPUS_LARK).as_bytes().to_vec()) } else { let c = corpus_json(); ("json".to_string(), rng.pick(&c).to_string().into_bytes()) }
            }
        };
        inputs.push(json!({"kind": kind, "data": vocab::hex(&bytes), "seed": rng.next() % 1_000_000, "tight": rng.chance(1, 3)}));
    }
    json!({"inputs": inputs})
}

fn tight_limits() -> ParserLimits {
    ParserLimits { max_items_in_row: 30, initial_lexer_fuel: 20_000, step_lexer_fuel: 2_000, step_max_items: 300, max_lexer_states: 200, max_grammar_size: 2_000, precompute_large_lexemes: false, verbose_errors: false }
}

fn class_of(e: &str) -> String {
    let l = eng::err_class(e);
    // keep classes stable across profiles: drop numbers
    let l: String = l.chars().map(|c| if c.is_ascii_digit() { '#' } else { c }).collect();
    l.chars().take(60).collect()
}

/// runs one input in-process; returns a digest line
pub fn exercise(input: &Value) -> String {
    let kind = input["kind"].as_str().unwrap_or("");
    let data = vocab::unhex(input["data"].as_str().unwrap_or(""));
    let seed = input["seed"].as_u64().unwrap_or(1);
    let tight = input["tight"].as_bool().unwrap_or(false);
    let text = String::from_utf8_lossy(&data).to_string();
    let sb = vocab::single_byte_words();
    let eos = sb.len() as u32 - 1;
    let env = vocab::env_from_words(&sb, eos, false);
    let mut out = String::new();
    let mk_factory = |slices: &[String]| -> anyhow::Result<ParserFactory> {
        let mut f = ParserFactory::new(&env, InferenceCapabilities::default(), slices)?;
        f.quiet();
        if tight { *f.limits_mut() = tight_limits(); }
        Ok(f)
    };
    let top: Option<TopLevelGrammar> = match kind {
        "lark" => Some(TopLevelGrammar::from_lark(text.clone())),
        "regex" => Some(TopLevelGrammar::from_regex(&text)),
        "json" => match serde_json::from_str::<Value>(&text) { Ok(v) => Some(TopLevelGrammar::from_json_schema(v)), Err(_) => { return "skip:invalid-json".into(); } },
        "slices" => {
            let sl: Vec<String> = text.lines().map(|s| s.to_string()).collect();
            return match mk_factory(&sl) { Ok(_) => "ok:factory".into(), Err(e) => format!("err:{}", class_of(&e.to_string())) };
        }
        "tokjson" => {
            return match serde_json::from_str::<Value>(&text) {
                Ok(v) => match llguidance::token_bytes_from_tokenizer_json(&v) { Ok(t) => format!("ok:tokens{}", t.len()), Err(e) => format!("err:{}", class_of(&e.to_string())) },
                Err(_) => "skip:invalid-json".into(),
            };
        }
        _ => None,
    };
    let Some(top) = top else { return "skip:kind".into() };
    let fac = match mk_factory(&[]) { Ok(f) => f, Err(e) => return format!("err:factory:{}", class_of(&e.to_string())) };
    let parser = if tight {
        fac.create_parser_from_init_ext(llguidance::api::GrammarInit::Serialized(top), Logger::new(0, 0), InferenceCapabilities::default(), tight_limits())
    } else {
        fac.create_parser(top)
    };
    let mut m = match parser {
        Ok(p) => Matcher::new(Ok(p)),
        Err(e) => return format!("err:build:{}", class_of(&e.to_string())),
    };
    out.push_str("built");
    // API script: legal and illegal calls
    let mut rng = Rng::new(seed);
    let mut failed = false;
    for _ in 0..24 {
        let op = rng.below(10);
        let r: Result<String, String> = match op {
            0..=4 => match m.compute_mask_or_eos() {
                Ok(mask) => {
                    let l = mask.to_list();
                    if l.is_empty() { Ok("m0".into()) } else {
                        let t = l[rng.below(l.len())];
                        match m.consume_token(t) { Ok(()) => Ok(format!("c{}", l.len() % 7)), Err(e) => Err(format!("legal-commit:{}", class_of(&e.to_string()))) }
                    }
                }
                Err(e) => Err(format!("mask:{}", class_of(&e.to_string()))),
            },
            5 => { let ts: Vec<u32> = (0..1 + rng.below(3)).map(|_| rng.below(270) as u32).collect(); match m.validate_tokens(&ts) { Ok(k) => Ok(format!("v{k}")), Err(e) => Err(format!("validate:{}", class_of(&e.to_string()))) } }
            6 => match m.rollback(1 + rng.below(2)) { Ok(()) => Ok("r".into()), Err(e) => Err(format!("rollback:{}", class_of(&e.to_string()))) },
            7 => match m.consume_token(rng.below(270) as u32) { Ok(()) => Ok("x".into()), Err(e) => Err(format!("commit-any:{}", class_of(&e.to_string()))) },
            8 => { let _ = m.is_accepting(); let _ = m.compute_ff_bytes(); Ok("q".into()) }
            _ => match m.consume_token(100_000 + rng.below(10) as u32) { Ok(()) => Ok("OOB-ACCEPTED".into()), Err(_) => Ok("oob".into()) },
        };
        match r {
            Ok(s) => {
                if failed && !s.starts_with('q') && s != "oob" {
                    out.push_str(&format!(";RECOVERED:{s}"));
                }
                out.push_str(&format!(";{s}"));
            }
            Err(e) => {
                out.push_str(&format!(";E:{e}"));
                if m.is_error() { failed = true; }
            }
        }
        if m.is_stopped() && !m.is_error() { out.push_str(";stopped"); break; }
    }
    out
}

pub fn child_main(inp: &str, outp: &str) {
    let txt = std::fs::read_to_string(inp).expect("batch file");
    let batch: Value = serde_json::from_str(&txt).expect("batch json");
    let mut f = std::fs::File::create(outp).expect("out file");
    std::panic::set_hook(Box::new(|_| {}));
    for input in batch["inputs"].as_array().unwrap() {
        let r = std::panic::catch_unwind(std::panic::AssertUnwindSafe(|| exercise(input)));
        let line = match r {
            Ok(s) => s,
            Err(e) => {
                let msg = e.downcast_ref::<String>().cloned().or_else(|| e.downcast_ref::<&str>().map(|s| s.to_string())).unwrap_or("?".into());
                format!("ESCAPED-PANIC:{}", msg.lines().next().unwrap_or(""))
            }
        };
        writeln!(f, "{}", line.replace('\n', " ")).unwrap();
        f.flush().unwrap();
    }
}

enum ChildEnd { Done(Vec<String>), Crashed(String, Vec<String>), Timeout(Vec<String>) }

fn run_child(exe: &str, batch: &Value, tmpdir: &str, name: &str, secs: u64) -> ChildEnd {
    let inp = format!("{tmpdir}/{name}.in.json");
    let outp = format!("{tmpdir}/{name}.out.txt");
    std::fs::write(&inp, batch.to_string()).unwrap();
    let _ = std::fs::remove_file(&outp);
    // address-space limit 6 GB, stack 64 MB
    let cmd = format!("ulimit -v 6000000; ulimit -s 65536; exec '{exe}' c20child '{inp}' '{outp}'");
    let mut child = Command::new("sh").arg("-c").arg(&cmd).stdout(Stdio::null()).stderr(Stdio::null()).spawn().expect("spawn child");
    let t0 = Instant::now();
    let status = loop {
        match child.try_wait() {
            Ok(Some(st)) => break Some(st),
            Ok(None) => {
                if t0.elapsed() > Duration::from_secs(secs) { let _ = child.kill(); let _ = child.wait(); break None; }
                std::thread::sleep(Duration::from_millis(20));
            }
            Err(_) => break None,
        }
    };
    let lines: Vec<String> = std::fs::read_to_string(&outp).unwrap_or_default().lines().map(|s| s.to_string()).collect();
    let _ = std::fs::remove_file(&inp);
    let _ = std::fs::remove_file(&outp);
    match status {
        None => ChildEnd::Timeout(lines),
        Some(st) if st.success() => ChildEnd::Done(lines),
        Some(st) => ChildEnd::Crashed(format!("{st}"), lines),
    }
}

pub fn run_case(ctx: &Ctx, case: &Value, tag: usize, rep: &mut Report, mb: &mut ModelBatch) {
    if let Some(list) = case["lcm"].as_array() {
        use llguidance::verif::Decimal;
        for q in list {
            let g = |i: usize| q[i].as_u64().unwrap() as u32;
            let (a, b) = (Decimal { coef: g(0), exp: g(1) }, Decimal { coef: g(2), exp: g(3) });
            rep.evaluations += 1;
            let r = std::panic::catch_unwind(|| a.checked_lcm(&b));
            let got = match r { Ok(Some(d)) => format!("some {} {}", d.coef, d.exp), Ok(None) => "none".to_string(), Err(_) => "panic".to_string() };
            if got == "panic" { rep.fail("oracle", "c20:panic", format!("Decimal::checked_lcm({a:?}, {b:?}) panicked"), json!({"lcm": [q]})); continue; }
            if got != "none" { rep.nontrivial(format!("lcm|{q}")); }
            mb.push(format!("num lcm {} {} {} {}", g(0), g(1), g(2), g(3)), got, tag);
        }
        rep.sample(json!({"kind": "lcm-tie", "pairs": list.len()}));
        return;
    }
    let exe_rel = std::env::current_exe().unwrap().to_string_lossy().to_string();
    let exe_chk = exe_rel.replace("/release/", "/checked/");
    let tmpdir = format!("{}/../harness/target/tmp-c20", ctx.data_dir);
    std::fs::create_dir_all(&tmpdir).unwrap();
    let inputs = case["inputs"].as_array().unwrap().clone();
    let per_input_secs = 20u64;
    let mut results: Vec<Vec<String>> = vec![];
    for (pi, exe) in [exe_rel.as_str(), exe_chk.as_str()].iter().enumerate() {
        if pi == 1 && !std::path::Path::new(exe).exists() {
            rep.skip("checked-profile-binary-missing");
            break;
        }
        let name = format!("b{tag}p{pi}");
        let first = run_child(exe, case, &tmpdir, &name, 30 + inputs.len() as u64);
        let (st, partial) = match first {
            ChildEnd::Done(l) => (None, l),
            ChildEnd::Crashed(st, l) => (Some(st), l),
            ChildEnd::Timeout(l) => (Some("timeout".to_string()), l),
        };
        let mut lines = match st {
            None => partial,
            Some(st) => {
                let l = partial;
                // locate the culprit: the first input without a result line, run alone
                let k = l.len();
                let mut lines = l;
                if k < inputs.len() {
                    let single = json!({"inputs": [inputs[k].clone()]});
                    let r = run_child(exe, &single, &tmpdir, &format!("{name}s"), per_input_secs);
                    let (sig, what) = match r {
                        ChildEnd::Done(_) => ("c20:batch-only-failure", format!("child ended abnormally in a batch but input {k} alone ran fine ({st})")),
                        ChildEnd::Crashed(st2, _) => ("c20:crash", format!("process ended with {st2} (abort / stack overflow / allocation failure) on one input, profile {}", if pi == 0 { "release" } else { "checked" })),
                        ChildEnd::Timeout(_) => ("c20:hang", format!("input did not finish within {per_input_secs} s, profile {}", if pi == 0 { "release" } else { "checked" })),
                    };
                    rep.fail("oracle", sig, what, json!({"inputs": [inputs[k].clone()]}));
                    lines.push("ABNORMAL".into());
                    // continue with the rest of the batch
                    if k + 1 < inputs.len() {
                        let rest = json!({"inputs": inputs[k + 1..].to_vec()});
                        if let ChildEnd::Done(l2) = run_child(exe, &rest, &tmpdir, &format!("{name}r"), 30 + inputs.len() as u64) { lines.extend(l2); }
                    }
                }
                lines
            }
        };
        lines.resize(inputs.len(), "MISSING".into());
        results.push(lines);
    }
    for (k, input) in inputs.iter().enumerate() {
        rep.evaluations += 1;
        let a = &results[0][k];
        let kind = input["kind"].as_str().unwrap_or("");
        rep.count(&format!("input.{kind}.{}", a.split(|c| c == ':' || c == ';').next().unwrap_or("")));
        let one = json!({"inputs": [input.clone()]});
        if a.starts_with("ESCAPED-PANIC") {
            rep.fail("oracle", "c20:escaped-panic", format!("a panic escaped a library call: {a}"), one.clone());
        }
        if a.contains("OOB-ACCEPTED") {
            rep.fail("oracle", "c20:oob-token-accepted", "a token id far outside the vocabulary was accepted".into(), one.clone());
        }
        if a.contains("RECOVERED") {
            rep.fail("oracle", "c20:failed-engine-recovered", format!("an engine in error state answered a later call: {a}"), one.clone());
        }
        if a.starts_with("built") && (a.contains("E:mask:panic") || a.contains("E:legal-commit:panic") || a.contains("E:legal-commit:Parser Error: panic") || a.contains("E:validate:panic") || a.contains("E:rollback:panic") || a.contains("E:commit-any:panic")) {
            rep.fail("oracle", "c20:internal-panic-on-legal-call", format!("a legal call on a built engine failed with an internal error: {a}"), one.clone());
        }
        if results.len() > 1 {
            let b = &results[1][k];
            let both_err = a.starts_with("err") && b.starts_with("err");
            if both_err && a != b { rep.count("profile.error_class_differs"); }
            if a != b && !both_err && a != "ABNORMAL" && b != "ABNORMAL" && a != "MISSING" && b != "MISSING" {
                rep.fail("oracle", "c20:profile-divergence", format!("release and overflow-checked builds disagree (a result after an internal overflow?): release `{}` vs checked `{}`", crate::trunc_at(a, 200), crate::trunc_at(b, 200)), one.clone());
            }
        }
        if a.starts_with("built") { rep.nontrivial(format!("{kind}|{}", input["data"].as_str().unwrap_or(""))); }
        if a.starts_with("err") { rep.nontrivial(format!("{kind}|{}", input["data"].as_str().unwrap_or(""))); }
    }
    rep.sample(json!({"first_input": {"kind": inputs[0]["kind"], "data_prefix": &inputs[0]["data"].as_str().unwrap_or("")[..inputs[0]["data"].as_str().unwrap_or("").len().min(60)]}, "first_result": crate::trunc_at(&results[0][0], 120)}));
}
