//! C10 — the slicing optimisation never changes a mask.
//!
//! impl-vs-oracle: the same grammar and vocabulary over (a) `general_slices()`, (b) random valid
//! slice lists (nested, overlapping, single-character classes, `{1,N}` bounds), (c) no slices;
//! masks compared bit for bit at every state of a shared history, especially inside JSON strings
//! with maxLength / pattern / format.  `slices_applied` is counted so the comparison is known to
//! be non-vacuous.
//! impl-vs-model: the slice tree (hook) and the outcomes of the containment tests logged during
//! each mask computation are fed to the Lean model M7; its result, given the unsliced mask as the
//! walk oracle, must equal the implementation's sliced mask; and every matched slice must hold
//! only allowed tokens (the `slice_sound` premise).
use llguidance::earley::{SlicedBiasComputer, VerifSlice, VERIF_SLICE_LOG};
use serde_json::{json, Value};

use crate::eng::{self, World};
use crate::engine::Gram;
use crate::model::{show_list, ModelBatch};
use crate::report::Report;
use crate::rng::Rng;
use crate::vocab;
use crate::Ctx;

fn json_families() -> Vec<(Value, Vec<&'static str>)> {
    vec![
        (json!({"type":"object","properties":{"s":{"type":"string","maxLength":7},"t":{"type":"string","pattern":"^[a-f0-9 ]{2,12}$"}},"required":["s","t"],"additionalProperties":false}), vec!["{\"s\":\"hello w\",\"t\":\"ab 01 ff\"}", "llo", " w", "b 0", "\",\"t\":\""]),
        (json!({"type":"array","items":{"type":"string","minLength":1,"maxLength":12}}), vec!["[\"abc def\", \"x y z\",\"longer text!\"]", "c d", "ext", "\", \"", "  "]),
        (json!({"type":"object","properties":{"d":{"type":"string","format":"date"},"n":{"type":"string"}},"required":["d"],"additionalProperties":false}), vec!["{\"d\":\"2024-01-31\",\"n\":\"some name here\"}", "24-0", "me na", "1-31"]),
        (json!({"type":"string"}), vec!["\"the quick brown fox\\n jumps\"", "quick", " br", "x\\n"]),
        (json!({"type":"object","additionalProperties":{"type":"string","maxLength":30}}), vec!["{\"key one\": \"value one\", \"k2\":\"v2\"}", "ey o", "alue", "\": \""]),
        (json!({"enum":["alpha beta","alpha gamma", "delta"]}), vec!["\"alpha beta\"", "pha ", "gam"]),
    ]
}

/// grammars whose lexemes contain one sibling slice but only part of another
pub fn lark_families() -> Vec<(Gram, Vec<&'static str>, Option<Vec<&'static str>>)> {
    vec![
        // three and more sibling slices under one node, a nested slice listed before its siblings (positions among the
        // children then differ from slice indices); two siblings apply wholesale while a third has to be walked
        (Gram::Lark("start: item (\",\" item)*\nitem: UPNUM | LOW\nUPNUM: /[0-9A-Z]+/\nLOW: /[a-z]{1,3}/\n".into()), vec!["AB12,abc,xy,Q7", "ab", "abc", "cab", "xyz", "12", "AB", "B1", ",a", "az"], Some(vec!["[a-c]+", "[a-z]+", "[0-9]+", "[A-Z]+"])),
        (Gram::Lark("start: (A | B | C)+\nA: /[0-9 ]+/\nB: /[a-z]{1,2}!/\nC: /[A-Z]{1,2}\\?/\n".into()), vec!["12 ab!Q?7", "ab", "b!", "Q?", "1 2", "AB", "a!", "zz"], Some(vec!["[x-z]+", "[0-9]+", "[a-z]+", " +", "[A-Z]+", "[A-C]+"])),
        (Gram::Lark("start: (LINE \"\\n\")+\nLINE: /[^\\n]+/\n".into()), vec!["some text here\nand\tmore \r\n", "\t\t", " \t", "\r\n", " \n", "text"], None),
        (Gram::Lark("start: /.*/\n".into()), vec!["any thing\tat all \r", "\t\t", " \t", "thing"], None),
        (Gram::Lark("start: /[0-9]+/ | \"abc\" | \"  \"\n".into()), vec!["12345", "abc", "  ", "ab", "34", " \t", "\n"], Some(vec!["[a-z]+", "[0-9]+", "[ \\t\\n]+"])),
        (Gram::Lark("start: W (\" \" W)*\nW: /[a-z]+/ | /[0-9]{1,3}/\n".into()), vec!["abc 12 de 345", "bc", "12", " d", "e 3"], Some(vec!["[a-z]+", "[0-9]+", "[a-z0-9]+", " +"])),
        // a lazy lexeme alive together with a greedy lexeme that contains a slice: the lazy one may end inside a token
        (Gram::Lark("start: TEXT | code\nTEXT: /[^\"\\\\\\x00-\\x1F\\x7F]+/\ncode[lazy]: /[a-z]+;/\n".into()), vec!["ab;", "a;b", "ab;cd", "x; y", ";b", "abc", "b;"], None),
        (Gram::Lark("start: (W | stop)+ \".\"\nW: /[a-z ]+/\nstop[lazy]: /[a-z]*!/\n".into()), vec!["ab cd!ef!.", "d!e", "!.", "b c", "f!", "a!b"], Some(vec!["[a-z]+", "[a-z !]+", "[a-z ]+"])),
        (Gram::Lark("start: A | B \"x\"\nA: /[a-z0-9]+/\nB[lazy]: /[a-z]*[0-9]/\n".into()), vec!["abc1x", "c1", "1x", "ab12", "b1x", "a1b"], Some(vec!["[a-z]+", "[a-z0-9]+", "[0-9]+"])),
        (Gram::Lark("start: \"<\" /[a-z ]+/ \">\" /[0-9\\t]*/\n".into()), vec!["<hello world>12\t3", "lo w", "\t3", ">1"], Some(vec!["[a-z]+", "[a-z ]+", "[0-9]+", "[ \\t]+"])),
    ]
}

fn random_slices(rng: &mut Rng) -> Vec<String> {
    let pool = [
        r#"[a-z]+"#, r#"[a-z]{1,3}"#, r#"[a-z ]{1,8}"#, r#"[a-c]+"#, r#"[a-f0-9]+"#, r#"[^"\\\x00-\x1F\x7F]{1,5}"#,
        r#"[^"\\\x00-\x1F\x7F]{1,20}"#, r#"[^"\\\x00-\x1F\x7F]+"#, r#"[\x20\x0A\x0D\x09]+"#, r#"[0-9]{1,4}"#, r#" ?[a-z]+"#, r#"[a-z]"#, r#"[b-d]+"#, r#"[A-Z]+"#, r#"[0-9]+"#, r#"[A-C]+"#,
    ];
    let n = 1 + rng.below(7);
    let mut v: Vec<String> = vec![];
    for _ in 0..n {
        let s = rng.pick(&pool).to_string();
        if !v.contains(&s) {
            v.push(s);
        }
    }
    v
}

pub fn gen_case(rng: &mut Rng, idx: usize, thorough: bool) -> Value {
    let steps = if thorough { 40 } else { 22 };
    let slices: Value = match idx % 3 {
        0 => json!(SlicedBiasComputer::general_slices()),
        _ => json!(random_slices(rng)),
    };
    if idx % 4 == 1 {
        let fams = lark_families();
        let (g, t, sl) = &fams[(idx / 4) % fams.len()];
        let slices = match sl { Some(v) => json!(v), None => json!(SlicedBiasComputer::general_slices()) };
        return json!({"grammar": g.to_json(), "texts": t.iter().map(|s| vocab::hex(s.as_bytes())).collect::<Vec<_>>(), "slices": slices, "canonical": idx % 7 < 3, "seed": rng.next() % 1_000_000_000, "steps": steps});
    }
    if idx % 2 == 0 {
        let fams = json_families();
        let (g, t) = &fams[(idx / 2) % fams.len()];
        return json!({"grammar": {"json_schema": g}, "texts": t.iter().map(|s| vocab::hex(s.as_bytes())).collect::<Vec<_>>(), "slices": slices, "canonical": idx % 7 < 3, "seed": rng.next() % 1_000_000_000, "steps": steps});
    }
    let (g, texts) = eng::gen_grammar(rng, idx);
    json!({"grammar": g.to_json(), "texts": texts.iter().map(|t| vocab::hex(t)).collect::<Vec<_>>(), "slices": slices, "canonical": idx % 7 < 3, "seed": rng.next() % 1_000_000_000, "steps": steps})
}

/// masks are sent without the ids of empty vocabulary entries (a trie never holds them)
fn slice_sexp(s: &VerifSlice, nonempty: &dyn Fn(u32) -> bool) -> String {
    let kids: Vec<String> = s.children.iter().map(|c| slice_sexp(c, nonempty)).collect();
    let m: Vec<u32> = s.mask_with_children.iter().copied().filter(|t| nonempty(*t)).collect();
    format!("(n {} {}{}{})", s.idx, show_list(&m), if kids.is_empty() { "" } else { " " }, kids.join(" "))
}

/// the remainder tries of every node vs the sets the Lean model walks
fn push_parts(s: &VerifSlice, tag: usize, mb: &mut ModelBatch) {
    let exp = format!("ok {}|{}", s.trie_without_child.iter().map(|l| show_list(l)).collect::<Vec<_>>().join(";"), show_list(&s.trie_without_children));
    mb.push(format!("slice parts {}", s.idx), exp, tag);
    for c in &s.children { push_parts(c, tag, mb); }
}

fn find_slice<'a>(s: &'a VerifSlice, idx: usize) -> Option<&'a VerifSlice> {
    if s.idx == idx { return Some(s); }
    s.children.iter().find_map(|c| find_slice(c, idx))
}

pub fn run_case(_ctx: &Ctx, case: &Value, tag: usize, rep: &mut Report, mb: &mut ModelBatch) {
    let mut rng = Rng::new(case["seed"].as_u64().unwrap());
    let g = Gram::from_json(&case["grammar"]);
    let texts: Vec<Vec<u8>> = case["texts"].as_array().map(|a| a.iter().map(|t| vocab::unhex(t.as_str().unwrap())).collect()).unwrap_or_default();
    let slices: Vec<String> = case["slices"].as_array().unwrap().iter().map(|s| s.as_str().unwrap().to_string()).collect();
    let steps = case["steps"].as_u64().unwrap() as usize;
    // vocabulary rich in string-interior tokens
    let (words, eos) = vocab::synth_words(&mut rng, &texts, 120, None);
    // canonical tokenizers too: grammar-forced text then leaves a healing prefix pending, which the slicer must respect
    let canonical = case["canonical"].as_bool().unwrap_or(false);
    let Ok(w_plain) = World::new(words.clone(), eos, canonical, None) else { rep.skip("world"); return; };
    let w_sliced = match World::new(words, eos, canonical, Some(&slices)) {
        Ok(w) => w,
        Err(e) => { rep.skip(&format!("slices-rejected:{}", eng::err_class(&e.to_string()))); return; }
    };
    let mut a = w_sliced.matcher(&g);
    let mut b = w_plain.matcher(&g);
    if a.is_error() || b.is_error() {
        // the slicer adds its regexes as extra lexemes; the grammar itself must not depend on it
        if a.is_error() != b.is_error() {
            rep.fail("oracle", "c10:construction-differs", format!("grammar construction differs with/without slices: {:?} / {:?}", a.get_error(), b.get_error()), case.clone());
        } else {
            rep.skip("grammar-rejected");
        }
        return;
    }
    let tree = w_sliced.fac.slicer().verif_dump();
    mb.push("reset".into(), "ok".into(), tag);
    let ne = |t: u32| !w_plain.words[t as usize].is_empty();
    mb.push(format!("slice tree {}", slice_sexp(&tree, &ne)), "ok".into(), tag);
    push_parts(&tree, tag, mb);
    // every trie is a filter of the vocabulary: trie_with_children holds exactly the (non-empty) mask
    {
        fn chk(s: &VerifSlice, ne: &dyn Fn(u32) -> bool, rep: &mut Report, case: &Value) {
            let m: Vec<u32> = s.mask_with_children.iter().copied().filter(|t| ne(*t)).collect();
            if m != s.trie_with_children {
                rep.fail("model", "c10:trie-with-children", format!("slice {}: trie_with_children does not hold exactly its mask", s.idx), case.clone());
            }
            for c in &s.children { chk(c, ne, rep, case); }
        }
        chk(&tree, &ne, rep, case);
    }
    // the containment answers of the slicer are judged by the proved decision on the checked certificates (S2):
    // the slice regexes are the extra lexemes of the sliced engine's lexer specification
    let lx_model = crate::lx::define_model(&a, tag, rep, mb).map(|x| x.0);
    let extra_lexemes: Vec<usize> = a.verif_token_parser().map(|tp| tp.parser.verif_lexemes().iter().enumerate().filter(|(_, l)| l.2 .5).map(|(i, _)| i).collect()).unwrap_or_default();
    let mut toks: Vec<u32> = vec![];
    for step in 0..steps {
        if a.is_stopped() || b.is_stopped() {
            if a.is_stopped() != b.is_stopped() {
                rep.fail("oracle", "c10:stop-differs", format!("step {step}: stopped sliced={} plain={}", a.is_stopped(), b.is_stopped()), json!({"case": case, "tokens": toks}));
            }
            break;
        }
        rep.evaluations += 1;
        a.invalidate_bias_cache();
        VERIF_SLICE_LOG.with(|l| l.borrow_mut().clear());
        let ma = eng::mask_of(&mut a);
        let log: Vec<(usize, bool)> = VERIF_SLICE_LOG.with(|l| l.borrow().clone());
        let applied = a.last_step_stats().map(|s| s.slices_applied).unwrap_or(0);
        let mbm = eng::mask_of(&mut b);
        let repro = json!({"case": case, "tokens": toks});
        let limit = |r: &Result<Vec<u32>, String>| matches!(r, Err(e) if e.contains("Too many items"));
        if limit(&ma) != limit(&mbm) {
            // slicing changes how much of the trie is walked, so only one of the two walks may exhaust the
            // per-step item budget: a reported resource-limit stop, not a mask
            rep.skip("mask-hit-item-limit");
            break;
        }
        if ma != mbm {
            let detail = match (&ma, &mbm) {
                (Ok(x), Ok(y)) => {
                    let extra: Vec<&u32> = x.iter().filter(|t| !y.contains(t)).collect();
                    let missing: Vec<&u32> = y.iter().filter(|t| !x.contains(t)).collect();
                    format!("sliced has extra {:?} / misses {:?}", extra.iter().take(5).map(|t| vocab::hex(&w_plain.words[**t as usize])).collect::<Vec<_>>(), missing.iter().take(5).map(|t| vocab::hex(&w_plain.words[**t as usize])).collect::<Vec<_>>())
                }
                _ => format!("{ma:?} vs {mbm:?}"),
            };
            rep.fail("oracle", "c10:mask-differs", format!("step {step}: sliced mask != unsliced mask: {detail}"), repro.clone());
            break;
        }
        let Ok(mask) = ma else { break };
        if applied > 0 { rep.count("states.slices_applied"); rep.nontrivial(format!("{}|{:?}|{:?}", case["grammar"], case["slices"], toks)); } else { rep.count("states.no_slice_applied"); }
        // model: sliced result from the logged containment outcomes and the unsliced mask
        let matched: Vec<usize> = log.iter().filter(|(_, r)| *r).map(|(i, _)| *i).collect();
        if let (Some(id), Some(st)) = (lx_model, eng::vstate(&a)) {
            let top_row = st.lexer_stack.last().map(|e| e.0).unwrap_or(0);
            let u: Vec<u8> = st.lexer_stack.iter().filter(|e| e.0 == top_row).filter_map(|e| e.2).collect();
            for &i in &matched {
                if let Some(&sl) = extra_lexemes.get(i) {
                    mb.push(format!("lx contain {id} {} {sl} {}", crate::vocab::hex_or_underscore(&u), show_list(&st.lexer_top.0)), "ok 1".into(), tag);
                    rep.count("containment.claims_checked");
                }
            }
        }
        for &i in &matched {
            if let Some(sl) = find_slice(&tree, i) {
                if let Some(bad) = sl.mask_with_children.iter().find(|t| mask.binary_search(t).is_err()) {
                    rep.fail("oracle", "c10:matched-slice-has-disallowed-token", format!("step {step}: slice {i} /{}/ matched but its token {bad} ({}) is not allowed", sl.regex, vocab::hex(&w_plain.words[*bad as usize])), repro.clone());
                }
            }
        }
        if !tree.children.is_empty() {
            mb.push(format!("slice bias {} {} {}", show_list(&matched), show_list(&mask), if log.is_empty() { 0 } else { 1 }), format!("ok {}", show_list(&mask)), tag);
        }
        let non_eos: Vec<u32> = mask.iter().copied().filter(|t| *t != eos).collect();
        if mask.is_empty() { break; }
        // prefer tokens that keep us inside strings (letters / spaces) so that slices stay relevant
        let interior: Vec<u32> = non_eos.iter().copied().filter(|t| { let wd = &w_plain.words[*t as usize]; !wd.is_empty() && wd.iter().all(|c| c.is_ascii_lowercase() || *c == b' ') }).collect();
        let t = if !interior.is_empty() && rng.chance(3, 5) { *rng.pick(&interior) } else if !non_eos.is_empty() && rng.chance(9, 10) { *rng.pick(&non_eos) } else { *rng.pick(&mask) };
        let (ra, rb) = (a.consume_token(t).is_ok(), b.consume_token(t).is_ok());
        if ra != rb || !ra {
            rep.fail("oracle", "c10:commit-differs", format!("step {step}: commit {t}: sliced {ra} plain {rb}"), repro);
            break;
        }
        toks.push(t);
    }
    rep.sample(json!({"grammar": case["grammar"], "slices": case["slices"], "tokens": toks.len(), "tree_children": tree.children.len()}));
}
