#![allow(dead_code)]
mod c01;
mod c02;
mod c03;
mod c04;
mod c05;
mod c06;
mod c07;
mod js;
mod c08;
mod c09;
mod c10;
mod c11;
mod c12;
mod c13;
mod c14;
mod c15;
mod c16;
mod eng;
mod lark;
mod rx;
mod utf8rx;
mod c17;
mod c18;
mod c19;
mod c20;
mod engine;
mod lx;
mod model;
mod report;
mod rng;
mod vocab;

use model::ModelBatch;
use report::Report;
use rng::Rng;
use serde_json::{json, Value};

pub struct Ctx {
    pub thorough: bool,
    pub seed: u64,
    pub model_exe: String,
    pub data_dir: String,
}

type GenFn = fn(&mut Rng, usize, bool) -> Value;
type RunFn = fn(&Ctx, &Value, usize, &mut Report, &mut ModelBatch);

struct Prop {
    id: &'static str,
    rule: &'static str,
    quick_cases: usize,
    thorough_cases: usize,
    gen: GenFn,
    run: RunFn,
}

fn props() -> Vec<Prop> {
    vec![Prop {
        id: "C01",
        rule: "case = (grammar: family / random Lark / random regex with Lean model; vocabulary: single-byte, synthetic multi-byte; canonical or not; seeded walk through the masks); at every state every token id is validated and committed on clones and compared with mask membership, random token sequences are validated and replayed; distinct non-trivial = distinct (grammar, committed tokens) whose mask has more than one and fewer than all tokens",
        quick_cases: 45,
        thorough_cases: 450,
        gen: c01::gen_case,
        run: c01::run_case,
    }, Prop {
        id: "C02",
        rule: "case = (grammar; engines A: synthetic multi-byte vocabulary with tokens cut from member strings (spanning lexemes, ending inside UTF-8 characters, duplicates, prefixes), B: single-byte, C: second multi-byte vocabulary; seeded walk in A mirrored byte-wise in B and greedily re-tokenised in C); at every state accepting flag, forced bytes, byte-level continuations and token-vs-bytewise validation for every token of A; distinct non-trivial = distinct (grammar, byte prefix) with a mask of more than one token",
        quick_cases: 40,
        thorough_cases: 400,
        gen: c02::gen_case,
        run: c02::run_case,
    }, Prop {
        id: "C03",
        rule: "case = (grammar: hand-written families / random Lark / random productive CFG / random JSON schema with numeric ranges, multipleOf, length bounds, patterns, formats, allOf intersections / random regex; byte-complete vocabulary: single-byte or synthetic multi-byte; seeded walks through mask-allowed tokens); at every state: accepting or non-empty mask, no stop in a non-accepting state, every allowed token commits; at every third state a completion to an accepting state is searched (depth 48, node budget); exhausted search = dead end; distinct non-trivial = distinct grammars walked without compile error",
        quick_cases: 40,
        thorough_cases: 400,
        gen: c03::gen_case,
        run: c03::run_case,
    }, Prop {
        id: "C04",
        rule: "case = random regex AST (classes, negated classes, '.', bounded/unbounded repetition, alternation, (?i), non-ASCII literals; & and ~ in Lark terminal form) in one of three concrete syntaxes; byte strings exhaustive up to length maxlen over <= 6 bytes taken from sampled members plus 'a','b','\\n',0xC3, plus members and their mutations; then 6 mask states over a synthetic multi-byte vocabulary with every token checked; distinct non-trivial = distinct (regex, syntax form) for which both accepted and rejected strings occurred",
        quick_cases: 60,
        thorough_cases: 600,
        gen: c04::gen_case,
        run: c04::run_case,
    }, Prop {
        id: "C05",
        rule: "grammars: hand-written corpus (a^n b^n, nested/sequenced parentheses, left-recursive expressions, S->SS|a|eps, mutual recursion, unit cycles, nullable chains, hidden left recursion, palindromes), seven parametric grammars (expanded by parameter reachability; four with one rule live under several parameter values at the same position), random grammars over ? * + {m,n} groups and references with unconfusable terminals, 'nullable-web' grammars (many mutually dependent nullable symbols referenced in every index order, short strings); for each the engine is walked over every byte string up to max_len over the grammar alphabet plus a junk byte, and the accepting flag of every reachable prefix and the allowed/refused status of every next byte are compared with the proved Lean spec (cfg q); multi-byte tokens of a synthetic vocabulary are compared the same way at sampled prefixes; along seeded walks (also on Lark grammars with regex lexemes and %ignore and on JSON schemas: family rows-any) the item set of every Earley row of the real parser is compared with the Lean rows model M4; distinct non-trivial = distinct grammars walked",
        quick_cases: 58,
        thorough_cases: 160,
        gen: c05::gen_case,
        run: c05::run_case,
    }, Prop {
        id: "C06",
        rule: "schemas: the C07 corpus and random schemas of the supported subset plus allOf / oneOf / min-maxProperties / fractional multipleOf / exclusive decimal bounds / type lists; complete outputs are sampled through the masks (random walks, then a closing bias; every accepting state on the way is an output; single-byte and synthetic multi-byte vocabularies); every output must parse as JSON (strict parser and serde_json), must not repeat a key named under `properties`, and must validate under the Lean validator S5; distinct non-trivial = distinct schemas with at least one sampled output",
        quick_cases: 60,
        thorough_cases: 500,
        gen: c06::gen_case,
        run: c06::run_case,
    }, Prop {
        id: "C07",
        rule: "schemas: corpus of the supported subset (objects with optional/required/additional properties, arrays with prefixItems/items/bounds, enum/const, anyOf, recursive $ref, numeric bounds, integer multipleOf, type lists) plus random schemas of that subset; candidate instances are generated from the schema, the Lean validator S5 decides validity, every valid instance is serialised compactly, with `, `/`: ` separators and pretty-printed, tokenised with the single-byte vocabulary and greedily with a synthetic multi-byte vocabulary, and fed: every token must be in the mask and commit and the end state must be accepting; distinct non-trivial = distinct schemas with at least one valid instance fed",
        quick_cases: 40,
        thorough_cases: 300,
        gen: c07::gen_case,
        run: c07::run_case,
    }, Prop {
        id: "C08",
        rule: "int-grid: every integer pair in a window (exhaustive) through rx_int_range vs the Lean model's printed pattern, a sub-sample through the whole engine; int-random: bounds around powers of ten up to 10^18 with inclusive/exclusive/missing bounds; dec-random: decimal bounds with up to three fractional digits; dec-near: both bounds from a small lattice (equal integer parts, integer-valued and zero bounds, shared fraction prefixes, all inclusive/exclusive combinations); mult-random: multipleOf combined with bounds; float: rx_float_range through the hook vs the printed pattern of the Lean model for decimal bounds from a lattice (signs, equal integer parts, zero, tiny and long fractions, half-open and unbounded ranges, all inclusive/exclusive combinations); lexi: the fraction-digit helpers lexi_x_to_9 / lexi_0_to_x / lexi_range through the hook vs the printed pattern of the Lean model (all digit strings up to length 2-3, random longer ones, all inclusive/exclusive combinations); for each schema every literal of a grid in and around the bounds (0-4 fractional digits, trailing zeros, shorter forms) is accepted iff its exact value satisfies the keywords; distinct non-trivial = distinct schemas that compiled",
        quick_cases: 12,
        thorough_cases: 78,
        gen: c08::gen_case,
        run: c08::run_case,
    }, Prop {
        id: "C09",
        rule: "exhaustive: every 0 <= m <= n <= N (quick N=34, thorough N=60; {0,0} excluded as a documented syntax error) at rule, terminal and regex level with every count 0..n+3, the unbounded forms {m,}, *, +, ?; JSON minItems/maxItems, minLength/maxLength with 1-4 byte characters and escapes, min/maxProperties, prefixItems, over a grid of (m,n); distinct non-trivial = distinct (level, m, n)",
        quick_cases: 39,
        thorough_cases: 65,
        gen: c09::gen_case,
        run: c09::run_case,
    }, Prop {
        id: "C10",
        rule: "case = (grammar: JSON schemas with strings under maxLength/pattern/format, hand-written families, random Lark; slice list: general_slices() or a random valid list with nested/overlapping regexes; synthetic vocabulary rich in string-interior tokens; seeded shared history); sliced and unsliced masks compared bit for bit at every state; distinct non-trivial = distinct (grammar, slice list, history) states in which at least one slice was applied",
        quick_cases: 40,
        thorough_cases: 400,
        gen: c10::gen_case,
        run: c10::run_case,
    }, Prop {
        id: "C11",
        rule: "case = (grammar: hand-written family or random Lark grammar; vocabulary: single-byte / synthetic multi-byte; seeded history of commits, read-only queries, invalidations, clones, rollbacks, resets); at every state the mask is compared with a second computation, with the one after invalidate_bias_cache and with a fresh replay; distinct non-trivial = distinct (grammar, committed tokens) with a mask that is neither a single token nor the whole vocabulary",
        quick_cases: 60,
        thorough_cases: 900,
        gen: c11::gen_case,
        run: c11::run_case,
    }, Prop {
        id: "C12",
        rule: "case = (grammar, vocabulary, seeded nested sequence of commits / rollbacks k / resets, EOS commits included); after every rollback all observables and six steps of continuation are compared with a fresh replay; distinct non-trivial = distinct (grammar, surviving tokens, k)",
        quick_cases: 60,
        thorough_cases: 900,
        gen: c12::gen_case,
        run: c12::run_case,
    }, Prop {
        id: "C13",
        rule: "case = (grammar with forced stretches: JSON schemas with fixed keys / consts / enums sharing prefixes, Lark grammars with literals incl. non-ASCII, regexes with literal parts and a Lean model; canonical greedy tokenizer over a synthetic vocabulary; seeded walk); at every state forced bytes are checked byte by byte against a non-forcing single-byte engine, ff tokens are decoded / committed / compared, and process_prompt is checked for conservation; distinct non-trivial = distinct (grammar, byte prefix) states with at least one forced byte",
        quick_cases: 45,
        thorough_cases: 450,
        gen: c13::gen_case,
        run: c13::run_case,
    }, Prop {
        id: "C14",
        rule: "case = (grammar, vocabulary, mode): mode 0 = all interleavings of k in 2..3 shallow clones x r in 2..3 ops each executed sequentially; 1 = sampled long interleaving over up to 16 shallow/deep clones with mid-way cloning and rollbacks, shared-table hook after every op; 2 = the clones on real threads; 3 = llg_par_compute_mask over cloned C constraints; every clone compared with a private fresh engine; distinct non-trivial = distinct (mode, grammar, clone count)",
        quick_cases: 32,
        thorough_cases: 320,
        gen: c14::gen_case,
        run: c14::run_case,
    }, Prop {
        id: "C15",
        rule: "grammars: hand-written Lark grammars with captures / token limits / stop captures / alias chains / unit cycles / repetitions / inline %json, JSON-schema corpus (objects, arrays, prefixItems, anyOf/oneOf, $ref recursion, patternProperties), random CFGs, random Lark grammars, random JSON schemas; for each the rule graph before and after Grammar::optimize is dumped, the inlining certificate derived and re-checked by the Lean function checkInline (language equality for all strings by theorem inline_preserves); protected symbols must survive; on rejection the two grammars are compared on all terminal strings up to a bound; distinct non-trivial = distinct grammars in which at least one symbol was inlined",
        quick_cases: 60,
        thorough_cases: 600,
        gen: c15::gen_case,
        run: c15::run_case,
    }, Prop {
        id: "C16",
        rule: "even cases: random op sequences over three SimpleVob registers with sizes around 31/32/33/63/64/...; odd cases: random vocabularies (duplicates, empties, prefixes, marker tokens, long chains, 256-way fan-out) x random DFAs x start prefixes; distinct non-trivial = distinct (op, resulting register) pairs, distinct vocabularies, and distinct (vocab, dfa, start) with a mask that is neither empty nor full",
        quick_cases: 120,
        thorough_cases: 2400,
        gen: c16::gen_case,
        run: c16::run_case,
    }, Prop {
        id: "C18",
        rule: "even cases: StopController over a vocabulary of text pieces (multi-byte characters cut apart, special and empty tokens), random stop strings / stop tokens, token sequences of mostly consecutive pieces (every third such case allows arbitrary jumps = invalid UTF-8); odd cases: API scripts on Matcher and Constraint with illegal calls (token outside mask, id out of range, calls after stop); distinct non-trivial = distinct (stop set, sequence prefix) resp. (grammar, committed tokens)",
        quick_cases: 80,
        thorough_cases: 1200,
        gen: c18::gen_case,
        run: c18::run_case,
    }, Prop {
        id: "C19",
        rule: "three kinds: text = grammars without token references over vocabularies whose special tokens spell grammar text, every state of a seeded walk; refs = start: \"A\" REF \"B\" with REF one of <name>, <[id]>, <[a-b,...]>, <[^...]>, <[*]> and the mask at the reference position compared with the denoted id set (negation also via the Lean model); tok = marker-aware tokenisation of marker-free text, marked special names and numeric markers; distinct non-trivial = distinct (kind, grammar/reference/text)",
        quick_cases: 60,
        thorough_cases: 600,
        gen: c19::gen_case,
        run: c19::run_case,
    }, Prop {
        id: "C20",
        rule: "lcm cases: coefficient/exponent pairs (boundary values of u32, exponents 0-13) through Decimal::checked_lcm vs the Lean model (tie of theorem lcm_no_overflow_or_error); fuzz cases: case = one batch of inputs for a child process (time limit, 6 GB address space, 64 MB stack), run in two build profiles; inputs: random bytes as Lark / JSON schema / regex / slice list / tokenizer.json, byte-level mutations of a corpus, adversarial nesting and sizes (deep parentheses, huge counts, multipleOf combinations, i64 extremes, $ref cycles, malformed byte-fallback names), valid corpus entries; each built engine then gets a seeded script of legal and illegal calls under default or tight limits; distinct non-trivial = distinct inputs that either built an engine or were rejected with an error",
        quick_cases: 16,
        thorough_cases: 400,
        gen: c20::gen_case,
        run: c20::run_case,
    }, Prop {
        id: "C17",
        rule: "case = (corpus grammar, synthetic vocabulary sized around a multiple of 32, random history); every step compares C and Rust APIs and runs llg_par_compute_mask for every destination length 0..mask+3 and three longer ones; distinct non-trivial = distinct (grammar, vocab size, mask words) triples with an engine mask",
        quick_cases: 24,
        thorough_cases: 160,
        gen: c17::gen_case,
        run: c17::run_case,
    }]
}

/// prefix of at most `n` bytes that ends on a char boundary
pub fn trunc_at(s: &str, n: usize) -> &str {
    let mut k = n.min(s.len());
    while !s.is_char_boundary(k) { k -= 1; }
    &s[..k]
}

fn main() {
    let args: Vec<String> = std::env::args().collect();
    if args.len() < 2 {
        eprintln!("usage: llgv <PROP> [--tier quick|thorough] [--seed N] [--out FILE] [--model EXE] [--replay FILE]");
        std::process::exit(2);
    }
    if args[1] == "c20child" {
        c20::child_main(&args[2], &args[3]);
        return;
    }
    if args[1] == "probe19" {
        let mut words: Vec<Vec<u8>> = (0..=255u8).map(|x| vec![x]).collect();
        words.push(b"\xff<|end|>".to_vec());
        words.push(vec![0xff]);
        words.push(b"\xff<|eos|>".to_vec());
        let eos = words.len() as u32 - 1;
        let w = eng::World::new(words, eos, false, None).unwrap();
        println!("greedy FF = {:?}", w.env.tok_trie().greedy_tokenize(&[0xff]));
        let mut m = w.matcher(&engine::Gram::Lark("start: \"A\" <[3]> \"B\"\n".into()));
        println!("m0 {:?}", eng::mask_of(&mut m));
        m.consume_token(65).unwrap();
        println!("m1 {:?}", eng::mask_of(&mut m));
        return;
    }
    if args[1] == "probe" {
        // llgv probe <lark-file> <text>: feed text byte by byte, then report observables (debug aid)
        let lark = std::fs::read_to_string(&args[2]).unwrap();
        let text = args[3].as_bytes().to_vec();
        let sb = vocab::single_byte_words();
        let eos = sb.len() as u32 - 1;
        let w = eng::World::new(sb, eos, false, None).unwrap();
        let mut m = w.matcher(&engine::Gram::Lark(lark));
        for (i, b) in text.iter().enumerate() {
            if let Err(e) = m.consume_token(*b as u32) { println!("byte {i} rejected: {e}"); return; }
        }
        if let Some(tp) = m.verif_token_parser() { for (i, l) in tp.parser.verif_lexemes().iter().enumerate() { println!("lexeme {i}: {:?}", l); } println!("state {:?}", tp.parser.verif_state().lexer_top); }
        println!("accepting={:?} stopped={}", m.is_accepting(), m.is_stopped());
        println!("mask={:?}", eng::mask_of(&mut m).map(|v| v.iter().map(|t| *t as u8 as char).collect::<String>()));
        let t0 = std::time::Instant::now();
        let ff = m.compute_ff_bytes();
        println!("ff_bytes={:?} in {:?}", String::from_utf8_lossy(&ff), t0.elapsed());
        return;
    }
    let id = args[1].to_uppercase();
    let mut tier = "quick".to_string();
    let mut seed = 1u64;
    let mut out = String::new();
    let mut model_exe = "/verif/lean/.lake/build/bin/llgmodel".to_string();
    let mut replay: Option<String> = None;
    let mut i = 2;
    while i < args.len() {
        match args[i].as_str() {
            "--tier" => { tier = args[i + 1].clone(); i += 1; }
            "--seed" => { seed = args[i + 1].parse().unwrap_or(1); i += 1; }
            "--out" => { out = args[i + 1].clone(); i += 1; }
            "--model" => { model_exe = args[i + 1].clone(); i += 1; }
            "--replay" => { replay = Some(args[i + 1].clone()); i += 1; }
            _ => {}
        }
        i += 1;
    }
    let ctx = Ctx { thorough: tier == "thorough", seed, model_exe: model_exe.clone(), data_dir: "/verif/data".into() };
    let props = props();
    let Some(p) = props.iter().find(|p| p.id == id) else {
        eprintln!("unknown property {id}");
        std::process::exit(2);
    };
    // quiet panics: they are caught per case and reported
    // panics inside a case are caught per case; with LLGV_TRACE the location is printed
    std::panic::set_hook(Box::new(|info| { if std::env::var("LLGV_TRACE").is_ok() { eprintln!("panic: {info}"); } }));
    let mut rep = Report::default();
    rep.rule = p.rule.to_string();
    let mut mb = ModelBatch::new(&model_exe);
    let mut cases: Vec<Value> = vec![];
    if let Some(path) = &replay {
        let txt = std::fs::read_to_string(path).expect("replay file");
        let v: Value = serde_json::from_str(&txt).expect("replay json");
        let c = v.get("case").cloned().unwrap_or(v);
        let c = c.get("case").cloned().unwrap_or(c);
        cases.push(c);
    } else {
        // regression corpus first
        let rdir = format!("{}/regress/{}", ctx.data_dir, p.id);
        if let Ok(rd) = std::fs::read_dir(&rdir) {
            let mut names: Vec<_> = rd.filter_map(|e| e.ok()).map(|e| e.path()).collect();
            names.sort();
            for n in names {
                if let Ok(txt) = std::fs::read_to_string(&n) {
                    if let Ok(v) = serde_json::from_str::<Value>(&txt) {
                        cases.push(v.get("case").cloned().unwrap_or(v));
                        rep.count("regress_cases");
                    }
                }
            }
        }
        let mut rng = Rng::new(seed.wrapping_mul(1000003) ^ (id.as_bytes()[1] as u64) << 8 ^ id.as_bytes()[2] as u64);
        let n = if ctx.thorough { p.thorough_cases } else { p.quick_cases };
        for k in 0..n {
            cases.push((p.gen)(&mut rng, k, ctx.thorough));
        }
    }
    let trace = std::env::var("LLGV_TRACE").is_ok();
    // watchdog: a case that does not finish is itself a finding (an unbounded loop in the engine);
    // it cannot be interrupted, so the watchdog writes the result file and ends the process
    let progress = std::sync::Arc::new(std::sync::Mutex::new((std::time::Instant::now(), String::new(), 0u64)));
    {
        let progress = progress.clone();
        let out = out.clone();
        let pid = p.id.to_string();
        let tier = tier.clone();
        let limit = if ctx.thorough { 600 } else { 120 };
        std::thread::spawn(move || loop {
            std::thread::sleep(std::time::Duration::from_secs(2));
            let (t, case, n) = { let g = progress.lock().unwrap(); (g.0, g.1.clone(), g.2) };
            if !case.is_empty() && t.elapsed().as_secs() > limit {
                let case_v: Value = serde_json::from_str(&case).unwrap_or(json!({}));
                let j = json!({"property": pid, "tier": tier, "seed": seed, "evaluations": n, "distinct_nontrivial": 0,
                    "rule": "aborted by watchdog", "samples": [], "dist": {}, "skipped": {}, "model_requests": 0, "exhaustive": false, "notes": [],
                    "failures": [{"kind": "oracle", "signature": format!("{}:hang", pid.to_lowercase()),
                                  "what": format!("a case did not finish within {limit} s (unbounded loop or runaway computation in the engine)"), "case": case_v}]});
                if !out.is_empty() { let _ = std::fs::write(&out, serde_json::to_string_pretty(&j).unwrap()); }
                eprintln!("watchdog: case did not finish within {limit} s");
                std::process::exit(0);
            }
        });
    }
    for (tag, case) in cases.iter().enumerate() {
        { let mut g = progress.lock().unwrap(); *g = (std::time::Instant::now(), case.to_string(), tag as u64); }
        if trace {
            eprintln!("case {tag}: {}", if std::env::var("LLGV_TRACE").map(|v| v == "full").unwrap_or(false) { case.to_string() } else { trunc(&case.to_string()) });
        }
        // input distribution: every small scalar parameter of the case (kind, mode, vocabulary kind, canonical, slices, ...)
        // and the grammar front end, so that a generator choice that never occurs shows up as a missing key
        if let Some(o) = case.as_object() {
            let mut combo: Vec<String> = vec![];
            for (k, v) in o.iter() {
                if k == "seed" || k == "steps" || k == "budget" { continue; }
                let sv = match v { Value::Bool(b) => Some(b.to_string()), Value::Number(n) if n.as_u64().map(|x| x < 64).unwrap_or(false) => Some(n.to_string()),
                                   Value::String(t) if t.len() <= 16 => Some(t.clone()), _ => None };
                if let Some(sv) = sv { rep.count(&format!("case.{k}={sv}")); if k == "vocab_kind" || k == "canonical" || k == "slices" { combo.push(format!("{k}={sv}")); } }
                if k == "grammar" { if let Some(g) = v.as_object() { for gk in g.keys() { rep.count(&format!("case.front={gk}")); combo.push(format!("front={gk}")); } } }
            }
            if combo.len() > 1 { combo.sort(); rep.count(&format!("case.combo.{}", combo.join(","))); }
        }
        let before = mb.len();
        let r = std::panic::catch_unwind(std::panic::AssertUnwindSafe(|| {
            (p.run)(&ctx, case, tag, &mut rep, &mut mb);
        }));
        if let Err(e) = r {
            let msg = e.downcast_ref::<String>().cloned().or_else(|| e.downcast_ref::<&str>().map(|s| s.to_string())).unwrap_or("panic".into());
            rep.fail("oracle", &format!("{}:panic", p.id.to_lowercase()), format!("panic in case: {msg}"), case.clone());
            // drop half-written model requests of this case
            mb.reqs.truncate(before);
            mb.expect.truncate(before);
        }
    }
    { let mut g = progress.lock().unwrap(); g.1.clear(); }
    rep.model_requests = mb.len() as u64;
    match mb.run() {
        Ok(mm) => {
            let mut per_sig: std::collections::HashMap<String, usize> = Default::default();
            let mut overflow = 0u64;
            for m in mm.iter() {
                // queries to a proved *specification* decider (S4 chart recogniser, S5 validator, S2 regex language via a
                // checked DFA certificate, numeric emptiness): a disagreement is
                // a concrete input on which the implementation departs from the property
                let is_spec = m.request.starts_with("cfg q ") || m.request.starts_with("json v ") || m.request.starts_with("num sat ") || m.request.starts_with("rx qs ") || m.request.starts_with("sch sat ");
                // C05: the two corpus grammars that record the known finding on parametric rules (several parameter
                // values of one rule live at one position, with a conditional empty alternative) carry their own
                // signature; every other disagreement keeps the general one
                let c = &cases[m.tag];
                let sig = if p.id == "C05" && is_spec && c["kind"] == "param" && c["i"].as_u64().map(|i| i % 7 >= 5).unwrap_or(false) {
                    format!("c05:parametric-several-live-values-{}", c["i"].as_u64().unwrap() % 7)
                } else {
                    format!("{}:{}", p.id.to_lowercase(), if is_spec { "spec-mismatch" } else { "model-mismatch" })
                };
                let n = per_sig.entry(sig.clone()).or_insert(0);
                *n += 1;
                if *n > 10 { overflow += 1; continue; }
                rep.fail(
                    if is_spec { "spec" } else { "model" },
                    &sig,
                    format!("{}request `{}`: implementation `{}`, Lean model `{}`", first_diff(&m.request, &m.expected, &m.got), trunc(&m.request), trunc(&m.expected), trunc(&m.got)),
                    json!({"case": cases[m.tag], "request": m.request, "impl": m.expected, "model": m.got}),
                );
            }
            if overflow > 0 {
                rep.count_n("fail.model", overflow);
            }
            for (_tag, got) in mb.guard_skipped.borrow().iter() {
                rep.skip(&format!("model-undecided:{got}"));
            }
        }
        Err(e) => {
            rep.fail("model", &format!("{}:model-driver", p.id.to_lowercase()), format!("model driver failed: {e}"), json!({}));
        }
    }
    let mut j = rep.to_json();
    j["property"] = json!(p.id);
    j["tier"] = json!(tier);
    j["seed"] = json!(seed);
    let s = serde_json::to_string_pretty(&j).unwrap();
    if out.is_empty() {
        println!("{s}");
    } else {
        std::fs::write(&out, s).expect("write out");
    }
}

/// for batched queries (`... qs <id> a,b,c` answered by two flags per item) name the first item
/// on which implementation and model differ
fn first_diff(req: &str, exp: &str, got: &str) -> String {
    let (Some(e), Some(g)) = (exp.strip_prefix("ok "), got.strip_prefix("ok ")) else { return String::new() };
    let items: Vec<&str> = req.rsplit(' ').next().unwrap_or("").split(',').collect();
    let (eb, gb) = (e.as_bytes(), g.as_bytes());
    if eb.len() != gb.len() || eb.len() != 2 * items.len() {
        return String::new();
    }
    for i in 0..eb.len() {
        if eb[i] != b'?' && eb[i] != gb[i] {
            return format!("item {} `{}` flag {} ({}): implementation {}, model {}; ", i / 2, items[i / 2], i % 2, if i % 2 == 0 { "complete" } else { "viable" }, eb[i] as char, gb[i] as char);
        }
    }
    String::new()
}

fn trunc(s: &str) -> String {
    if s.len() > 300 { format!("{}…", trunc_at(s, 300)) } else { s.to_string() }
}
