//! Char-level regex AST -> byte-level s-expression for the Lean spec S2.
//! Character classes are expanded into alternatives of byte-range sequences with
//! `regex_syntax::utf8::Utf8Sequences` (external crate, trusted; not part of /repo).
use crate::rx::Rx;
use regex_syntax::utf8::Utf8Sequences;

fn scalar_ranges(rs: &[(char, char)], neg: bool) -> Vec<(u32, u32)> {
    let mut v: Vec<(u32, u32)> = rs.iter().map(|(a, b)| (*a as u32, *b as u32)).collect();
    v.sort();
    // merge
    let mut m: Vec<(u32, u32)> = vec![];
    for (a, b) in v {
        if let Some(l) = m.last_mut() {
            if a <= l.1 + 1 {
                l.1 = l.1.max(b);
                continue;
            }
        }
        m.push((a, b));
    }
    let m = if neg {
        let mut out = vec![];
        let mut next = 0u32;
        for (a, b) in m {
            if a > next {
                out.push((next, a - 1));
            }
            next = b + 1;
        }
        if next <= 0x10FFFF {
            out.push((next, 0x10FFFF));
        }
        out
    } else {
        m
    };
    // remove surrogates
    let mut out = vec![];
    for (a, b) in m {
        if b < 0xD800 || a > 0xDFFF {
            out.push((a, b));
        } else {
            if a < 0xD800 {
                out.push((a, 0xD7FF));
            }
            if b > 0xDFFF {
                out.push((0xE000, b));
            }
        }
    }
    out
}

fn class_sexp(rs: &[(char, char)], neg: bool) -> String {
    let mut alts: Vec<String> = vec![];
    for (a, b) in scalar_ranges(rs, neg) {
        let (Some(ca), Some(cb)) = (char::from_u32(a), char::from_u32(b)) else { continue };
        for seq in Utf8Sequences::new(ca, cb) {
            let parts: Vec<String> = seq.as_slice().iter().map(|r| format!("(set {}:{})", r.start, r.end)).collect();
            if parts.len() == 1 {
                alts.push(parts[0].clone());
            } else {
                alts.push(format!("(cat {})", parts.join(" ")));
            }
        }
    }
    match alts.len() {
        0 => "(empty)".into(),
        1 => alts.pop().unwrap(),
        _ => format!("(alt {})", alts.join(" ")),
    }
}

pub fn byte_sexp(r: &Rx) -> String {
    match r {
        Rx::Lit(s) => if s.is_empty() { "(eps)".into() } else { format!("(lit {})", crate::vocab::hex(s.as_bytes())) },
        Rx::LitI(s) => {
            let parts: Vec<String> = s.chars().map(|c| {
                if c.is_ascii_alphabetic() {
                    let l = c.to_ascii_lowercase() as u32;
                    let u = c.to_ascii_uppercase() as u32;
                    format!("(set {u}:{u},{l}:{l})")
                } else {
                    format!("(lit {})", crate::vocab::hex(c.to_string().as_bytes()))
                }
            }).collect();
            format!("(cat {})", parts.join(" "))
        }
        Rx::Class(rs, neg) => class_sexp(rs, *neg),
        Rx::Dot => class_sexp(&[('\n', '\n')], true),
        Rx::Cat(xs) => format!("(cat {})", xs.iter().map(byte_sexp).collect::<Vec<_>>().join(" ")),
        Rx::Alt(xs) => format!("(alt {})", xs.iter().map(byte_sexp).collect::<Vec<_>>().join(" ")),
        Rx::And(xs) => xs.iter().skip(1).fold(byte_sexp(&xs[0]), |acc, x| format!("(and {} {})", acc, byte_sexp(x))),
        Rx::Not(x) => format!("(not {})", byte_sexp(x)),
        Rx::Rep(x, m, n) => format!("(rep {} {} {})", m, match n { Some(n) => n.to_string(), None => "inf".into() }, byte_sexp(x)),
    }
}
