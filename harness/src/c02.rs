//! C02 — acceptance depends on the bytes, not on how they are split into tokens.
//!
//! impl-vs-oracle: one grammar, three engines: A over a synthetic multi-byte vocabulary, B over
//! the single-byte vocabulary, C over a second multi-byte vocabulary.  A random walk in A is
//! mirrored byte by byte in B and, re-tokenised greedily, in C.  At every state: accepting flag,
//! forced bytes and the byte-level continuation set agree; every token of A is in A's mask iff
//! its bytes are validated one at a time by B.
//! impl-vs-model (regex grammars): the Lean engine M6 over the regex certificate with A's and
//! with B's vocabulary must commit the same byte strings (`split_independent`).
use serde_json::{json, Value};

use crate::c04::{rx_from_json, rx_to_json};
use crate::eng::{self, World};
use crate::engine::Gram;
use crate::model::ModelBatch;
use crate::report::Report;
use crate::rng::Rng;
use crate::rx::{gen_rx, ALPHA};
use crate::utf8rx::byte_sexp;
use crate::vocab::{self, hex_or_underscore};
use crate::Ctx;

pub fn gen_case(rng: &mut Rng, idx: usize, thorough: bool) -> Value {
    let steps = if thorough { 30 } else { 14 };
    if idx % 4 == 1 {
        let r = gen_rx(rng, 3);
        let mut texts = vec![];
        for _ in 0..5 {
            let mut s = String::new();
            r.sample(rng, ALPHA, &mut s);
            texts.push(crate::vocab::hex(s.as_bytes()));
        }
        return json!({"rx": rx_to_json(&r), "grammar": {"regex": r.to_regex()}, "texts": texts, "seed": rng.next() % 1_000_000_000, "steps": steps});
    }
    if idx % 6 == 2 {
        // grammars on which the default token slices apply (wide text lexemes, JSON strings), with the slices enabled
        let fams = eng::families();
        let n = fams.len();
        let (g, t) = &fams[[n - 4, n - 3, n - 2, n - 1][(idx / 6) % 4]];
        return json!({"grammar": g.to_json(), "texts": t.iter().map(|t| crate::vocab::hex(t.as_bytes())).collect::<Vec<_>>(), "slices": true, "seed": rng.next() % 1_000_000_000, "steps": steps});
    }
    if idx % 6 == 5 {
        // lazy lexemes alive next to greedy lexemes that contain a slice, and slice lists with several siblings: a token
        // that crosses the end of the lazy lexeme must be judged byte by byte whatever the slicer's shortcut says
        let fams = crate::c10::lark_families();
        // (this branch sees idx = 11, 23, 35, ...: idx % 4 == 1 is taken by the regex cases above)
        let fi = (idx / 12 + 6) % fams.len();
        let (g, t, sl) = &fams[fi];
        let slices = match sl { Some(v) => json!(v), None => json!(llguidance::earley::SlicedBiasComputer::general_slices()) };
        return json!({"grammar": g.to_json(), "texts": t.iter().map(|t| crate::vocab::hex(t.as_bytes())).collect::<Vec<_>>(), "slices": true, "slice_list": slices, "slice_family": fi, "seed": rng.next() % 1_000_000_000, "steps": steps});
    }
    let (g, texts) = eng::gen_grammar(rng, idx);
    json!({"grammar": g.to_json(), "texts": texts.iter().map(|t| crate::vocab::hex(t)).collect::<Vec<_>>(), "slices": (idx / 3) % 2 == 1, "seed": rng.next() % 1_000_000_000, "steps": steps})
}

pub fn run_case(_ctx: &Ctx, case: &Value, tag: usize, rep: &mut Report, mb: &mut ModelBatch) {
    let mut rng = Rng::new(case["seed"].as_u64().unwrap());
    let g = Gram::from_json(&case["grammar"]);
    let texts: Vec<Vec<u8>> = case["texts"].as_array().map(|a| a.iter().map(|t| vocab::unhex(t.as_str().unwrap())).collect()).unwrap_or_default();
    let steps = case["steps"].as_u64().unwrap() as usize;
    let (wa_words, wa_eos) = vocab::synth_words(&mut rng, &texts, 60, None);
    let (wc_words, wc_eos) = vocab::synth_words(&mut rng, &texts, 35, None);
    let sb = vocab::single_byte_words();
    let sb_eos = sb.len() as u32 - 1;
    // half of the cases with the default token slices: the slicer's shortcuts must not depend on the vocabulary either
    if let Some(f) = case.get("slice_family").and_then(|v| v.as_u64()) { rep.count(&format!("case.slice_family={f}")); }
    let sl: Vec<String> = match case.get("slice_list").and_then(|v| v.as_array()) { Some(a) => a.iter().map(|x| x.as_str().unwrap_or("").to_string()).collect(), None => llguidance::earley::SlicedBiasComputer::general_slices() };
    let slices = if case["slices"].as_bool().unwrap_or(false) { Some(&sl[..]) } else { None };
    let (Ok(wa), Ok(wb), Ok(wc)) = (World::new(wa_words, wa_eos, false, slices), World::new(sb, sb_eos, false, slices), World::new(wc_words, wc_eos, false, slices)) else { rep.skip("world"); return; };
    let mut a = wa.matcher(&g);
    let mut b = wb.matcher(&g);
    let mut c = wc.matcher(&g);
    if a.is_error() || b.is_error() || c.is_error() {
        if !(a.is_error() && b.is_error() && c.is_error()) {
            rep.fail("oracle", "c02:construction-depends-on-vocab", "grammar accepted with one vocabulary and rejected with another".into(), case.clone());
        } else {
            rep.skip("grammar-rejected");
        }
        return;
    }
    let has_model = case.get("rx").is_some();
    if has_model {
        let r = rx_from_json(&case["rx"]);
        mb.push("reset".into(), "ok".into(), tag);
        mb.push_guard(format!("rx def {tag} {}", byte_sexp(&r)), "ok*".into(), tag);
    }
    let mut bytes: Vec<u8> = vec![];
    let mut toks_a: Vec<u32> = vec![];
    let mut c_alive = true;
    let mut c_pending: Vec<u8> = vec![]; // bytes not yet fed to C (fed when they form a greedy token boundary)
    for step in 0..steps {
        rep.evaluations += 1;
        if a.is_stopped() != b.is_stopped() {
            rep.fail("oracle", "c02:stop-status", format!("step {step}: stopped A={} B={}", a.is_stopped(), b.is_stopped()), json!({"case": case, "tokens": toks_a, "bytes": vocab::hex(&bytes)}));
            break;
        }
        if a.is_stopped() { break; }
        let ma = eng::mask_of(&mut a);
        let mbm = eng::mask_of(&mut b);
        let repro = json!({"case": case, "tokens": toks_a, "bytes": vocab::hex(&bytes)});
        let (Ok(ma), Ok(mbm)) = (ma.clone(), mbm.clone()) else {
            let limit = |r: &Result<Vec<u32>, String>| matches!(r, Err(e) if e.contains("Too many items"));
            if limit(&ma) || limit(&mbm) {
                // the per-step item budget is spent over the whole trie walk, so whether a very ambiguous grammar
                // exhausts it depends on the vocabulary: a reported resource-limit stop, not a verdict on any token
                rep.skip("mask-hit-item-limit");
            } else if ma.is_ok() != mbm.is_ok() {
                rep.fail("oracle", "c02:mask-error-differs", format!("step {step}: mask A {ma:?} vs B {mbm:?}"), repro);
            }
            break;
        };
        // accepting flag, forced bytes
        let (acc_a, acc_b) = (a.is_accepting().unwrap_or(false), b.is_accepting().unwrap_or(false));
        if acc_a != acc_b {
            rep.fail("oracle", "c02:accepting", format!("step {step}: accepting A={acc_a} B={acc_b}"), repro.clone());
            break;
        }
        let (ffa, ffb) = (a.compute_ff_bytes(), b.compute_ff_bytes());
        if ffa != ffb {
            rep.fail("oracle", "c02:forced-bytes", format!("step {step}: forced bytes A={} B={}", vocab::hex(&ffa), vocab::hex(&ffb)), repro.clone());
            break;
        }
        // byte-level continuation set: single-byte tokens of A are ids 0..=255
        let cont_a: Vec<u32> = ma.iter().copied().filter(|t| *t < 256).collect();
        let cont_b: Vec<u32> = mbm.iter().copied().filter(|t| *t < 256).collect();
        if cont_a != cont_b {
            rep.fail("oracle", "c02:byte-continuations", format!("step {step}: allowed next bytes differ: A {cont_a:?} vs B {cont_b:?}"), repro.clone());
            break;
        }
        // every token of A: in mask iff its bytes are accepted one at a time by B
        let mut multi_checked = 0;
        for (t, wd) in wa.words.iter().enumerate() {
            if wd.is_empty() || wd[0] == 0xff { continue; }
            let in_mask = ma.binary_search(&(t as u32)).is_ok();
            let bt: Vec<u32> = wd.iter().map(|x| *x as u32).collect();
            let k = b.validate_tokens(&bt).unwrap_or(0);
            if (k == bt.len()) != in_mask {
                rep.fail("oracle", "c02:token-vs-bytes", format!("step {step}: token {t} ({}) in mask={in_mask}, byte-wise validated {k}/{}", hex_or_underscore(wd), bt.len()), repro.clone());
                return;
            }
            if wd.len() > 1 { multi_checked += 1; }
        }
        rep.count_n("multibyte_tokens_checked", multi_checked);
        if ma.len() > 1 { rep.nontrivial(format!("{}|{}", case["grammar"], vocab::hex(&bytes))); }
        // advance A by a random allowed text token (prefer multi-byte ones)
        let text: Vec<u32> = ma.iter().copied().filter(|t| *t != wa.eos && !wa.is_special(*t)).collect();
        if text.is_empty() { break; }
        let multi: Vec<u32> = text.iter().copied().filter(|t| wa.words[*t as usize].len() > 1).collect();
        let t = if !multi.is_empty() && rng.chance(2, 3) { *rng.pick(&multi) } else { *rng.pick(&text) };
        if let Err(e) = a.consume_token(t) {
            let cls = eng::err_class(&e.to_string());
            if cls.contains("Too many items") { rep.skip("commit-hit-item-limit"); break; }
            rep.fail("oracle", "c02:commit-failed", format!("step {step}: masked token {t} ({}) rejected: {cls}", hex_or_underscore(&wa.words[t as usize])), repro.clone());
            break;
        }
        toks_a.push(t);
        let tb = wa.words[t as usize].clone();
        // mirror in B byte by byte
        for (i, x) in tb.iter().enumerate() {
            if b.consume_token(*x as u32).is_err() {
                rep.fail("oracle", "c02:bytewise-rejected", format!("step {step}: token {t} ({}) accepted by A, byte {i} rejected by the single-byte engine", vocab::hex(&tb)), repro.clone());
                return;
            }
        }
        bytes.extend_from_slice(&tb);
        if tb.len() > 1 { rep.count("commits.multibyte"); } else { rep.count("commits.singlebyte"); }
        // mirror in C with its own (greedy) tokenisation of the pending bytes, holding back the
        // last token because later bytes may change the greedy split
        if c_alive {
            c_pending.extend_from_slice(&tb);
            let ct = wc.env.tok_trie().greedy_tokenize(&c_pending);
            if ct.len() > 1 {
                for &x in &ct[..ct.len() - 1] {
                    if c.consume_token(x).is_err() {
                        rep.fail("oracle", "c02:retokenised-rejected", format!("step {step}: bytes accepted by A rejected by C when split as {:?}", ct), repro.clone());
                        return;
                    }
                }
                let done: usize = ct[..ct.len() - 1].iter().map(|x| wc.words[*x as usize].len()).sum();
                c_pending.drain(..done);
            }
            if c.is_stopped() { c_alive = false; }
        }
    }
    // flush C and compare final observables
    if c_alive && !a.is_stopped() {
        let ct = wc.env.tok_trie().greedy_tokenize(&c_pending);
        let mut ok = true;
        for &x in &ct {
            if c.consume_token(x).is_err() { ok = false; break; }
        }
        let repro = json!({"case": case, "tokens": toks_a, "bytes": vocab::hex(&bytes)});
        if !ok {
            rep.fail("oracle", "c02:retokenised-rejected", "bytes accepted by A rejected by C at the end".into(), repro);
        } else if !c.is_stopped() {
            let (acc_a, acc_c) = (a.is_accepting().unwrap_or(false), c.is_accepting().unwrap_or(false));
            let cont_a: Vec<u32> = eng::mask_of(&mut a).unwrap_or_default().into_iter().filter(|t| *t < 256).collect();
            let cont_c: Vec<u32> = eng::mask_of(&mut c).unwrap_or_default().into_iter().filter(|t| *t < 256).collect();
            if acc_a != acc_c || cont_a != cont_c || a.compute_ff_bytes() != c.compute_ff_bytes() {
                rep.fail("oracle", "c02:retokenised-observables", format!("after the same bytes: accepting {acc_a}/{acc_c}, continuations {cont_a:?}/{cont_c:?}"), repro);
            }
        }
    }
    if has_model && !toks_a.is_empty() {
        // the Lean engine with A's vocabulary and with the single-byte vocabulary commits the same bytes
        let ws: Vec<String> = wa.words.iter().map(|x| hex_or_underscore(x)).collect();
        mb.push(format!("eng init {tag} {} {}", ws.join(","), wa.eos), "ok".into(), tag);
        for &t in &toks_a { mb.push(format!("eng commit {t}"), "ok".into(), tag); }
        mb.push("eng acc".into(), format!("ok {}", a.is_accepting().unwrap_or(false) as u8), tag);
        let ws: Vec<String> = wb.words.iter().map(|x| hex_or_underscore(x)).collect();
        mb.push(format!("eng init {tag} {} {}", ws.join(","), wb.eos), "ok".into(), tag);
        for &x in &bytes { mb.push(format!("eng commit {x}"), "ok".into(), tag); }
        mb.push("eng acc".into(), format!("ok {}", b.is_accepting().unwrap_or(false) as u8), tag);
    }
    rep.sample(json!({"grammar": case["grammar"], "bytes": vocab::hex(&bytes), "tokens_A": toks_a.len()}));
}
