//! C14 — clones are independent and results do not depend on scheduling.
//!
//! impl-vs-oracle: 2..16 shallow (table-sharing) and deep clones of one matcher with different
//! histories; (a) all interleavings of short runs (<= 3 clones x <= 3 ops) executed sequentially,
//! (b) sampled long interleavings, (c) the same operations on real threads, (d) the batch mask
//! computation of the C API; every clone's masks are compared with those of a private, freshly
//! built engine that replayed the clone's own tokens.
//! impl-vs-model: the shared lexer state table is dumped through a hook after every operation:
//! it must only grow (old entries unchanged), every id a clone holds must stay valid, and the id
//! of each newly appended content must be the one the Lean model's `intern` assigns.
use std::sync::{Arc, Mutex};

use llguidance::ffi::*;
use llguidance::Matcher;
use serde_json::{json, Value};

use crate::c11::world_of;
use crate::eng::{self, World};
use crate::engine::Gram;
use crate::model::ModelBatch;
use crate::report::Report;
use crate::rng::Rng;
use crate::Ctx;

pub fn gen_case(rng: &mut Rng, idx: usize, thorough: bool) -> Value {
    if idx % 16 == 6 {
        return gen_fuel_case(rng, thorough);
    }
    if idx % 2 == 1 {
        // grammars in which different histories reach the same lexer state and row index with a
        // different parser context; clones diverge first and query back to back afterwards
        let fams = eng::families();
        let pick = [0usize, 1, 9, 11, 3, 7][(idx / 2) % 6];
        let (g, t) = &fams[pick];
        return json!({"grammar": g.to_json(), "texts": t.iter().map(|s| crate::vocab::hex(s.as_bytes())).collect::<Vec<_>>(),
               "vocab_kind": (idx / 2) % 2, "canonical": false, "seed": rng.next() % 1_000_000_000,
               "mode": 4, "n_clones": 2 + rng.below(4), "ops": 2 + rng.below(3)});
    }
    let (g, texts) = eng::gen_grammar(rng, idx);
    return json!({"grammar": g.to_json(), "texts": texts.iter().map(|t| crate::vocab::hex(t)).collect::<Vec<_>>(),
           "vocab_kind": 1 + idx % 2, "canonical": idx % 12 == 4, "seed": rng.next() % 1_000_000_000,
           "mode": (idx / 2) % 4, "n_clones": 2 + rng.below(if thorough { 15 } else { 7 }), "ops": if thorough { 60 } else { 30 }});
}

fn gen_fuel_case(rng: &mut Rng, thorough: bool) -> Value {
    {
        // the per-call lexer budget: clones that share a lexer explore different branches of large counting lexemes
        // with a small `step_lexer_fuel`; no clone may run out where a private engine with the same history does not
        let n = 4 + rng.below(3);
        let mut g = String::from("start: ");
        g.push_str(&(0..n).map(|i| format!("T{i}")).collect::<Vec<_>>().join(" | "));
        g.push('\n');
        for i in 0..n { g.push_str(&format!("T{i}: /{}[0-9]{{1,{}}}{}/\n", (b'a' + i as u8) as char, 300 + 100 * rng.below(8), (b'A' + i as u8) as char)); }
        let fuel = [3000u64, 8000, 20000][rng.below(3)];
        return json!({"grammar": {"lark": g}, "texts": [crate::vocab::hex(b"a123A"), crate::vocab::hex(b"b45B")], "vocab_kind": 0, "canonical": false,
               "seed": rng.next() % 1_000_000_000, "mode": 5, "n_clones": n, "ops": if thorough { 40 } else { 14 }, "fuel": fuel});
    }
}

fn hash_content(c: &[u32]) -> u64 {
    let mut h: u64 = 0xcbf29ce484222325;
    for x in c { h ^= *x as u64 + 1; h = h.wrapping_mul(0x100000001b3); }
    h % 1_000_000_007
}

struct Clone_ {
    m: Matcher,
    toks: Vec<u32>,
}

/// one step of clone `i`: compute the mask, compare with a private replay, commit a random token
fn step_clone(w: &World, g: &Gram, c: &mut Clone_, pick: u64, rep: &mut Report, repro: &Value, what: &str) -> bool {
    if c.m.is_stopped() || c.m.is_error() { return true; }
    let mask = eng::mask_of(&mut c.m);
    let mut private = w.replay(g, &c.toks);
    let pmask = eng::mask_of(&mut private);
    if mask != pmask {
        rep.fail("oracle", &format!("c14:{what}-mask-vs-private"), format!("clone with history {:?}: mask differs from a private engine's", c.toks), repro.clone());
        return false;
    }
    let Ok(mask) = mask else { return true };
    if mask.is_empty() { return true; }
    let t = mask[(pick % mask.len() as u64) as usize];
    if c.m.consume_token(t).is_err() {
        rep.fail("oracle", &format!("c14:{what}-commit"), format!("clone with history {:?}: masked token {t} rejected", c.toks), repro.clone());
        return false;
    }
    c.toks.push(t);
    true
}

pub fn run_case(_ctx: &Ctx, case: &Value, tag: usize, rep: &mut Report, mb: &mut ModelBatch) {
    let mut rng = Rng::new(case["seed"].as_u64().unwrap());
    let Some((g, w)) = world_of(case, &mut rng) else { rep.skip("world"); return; };
    let mode = case["mode"].as_u64().unwrap();
    if mode == 5 {
        let Ok(mut fac) = crate::engine::factory(&w.env, None, false) else { rep.skip("factory"); return; };
        fac.limits_mut().step_lexer_fuel = case["fuel"].as_u64().unwrap_or(3000);
        let mk = |fac: &llguidance::ParserFactory| llguidance::Matcher::new(fac.create_parser(g.top()));
        let base = mk(&fac);
        if base.is_error() { rep.skip("grammar-rejected"); return; }
        let n = case["n_clones"].as_u64().unwrap() as usize;
        let mut clones: Vec<Clone_> = (0..n).map(|_| Clone_ { m: base.clone(), toks: vec![] }).collect();
        rep.evaluations += 1;
        for round in 0..case["ops"].as_u64().unwrap() as usize {
            for i in 0..n {
                if clones[i].m.is_stopped() || clones[i].m.is_error() { continue; }
                let mask = eng::mask_of(&mut clones[i].m);
                let mut private = mk(&fac);
                let replay_ok = private.consume_tokens(&clones[i].toks).is_ok();
                let pmask = if replay_ok { eng::mask_of(&mut private) } else { Err("replay failed".into()) };
                match (&mask, &pmask) {
                    (Ok(a), Ok(b)) if a == b => {}
                    (Ok(_), Err(_)) => { rep.count("fuel.private-ran-out-first"); }   // the clone profits from states its siblings built: a resource-limit difference in the harmless direction
                    (Err(_), Err(_)) => {}
                    _ => {
                        rep.fail("oracle", "c14:fuel-mask-vs-private", format!("round {round}, clone {i} with history {:?}: {} while a private engine with the same history and limits gives {}", clones[i].toks,
                            match &mask { Ok(m) => format!("a mask of {} tokens", m.len()), Err(e) => format!("error `{e}`") }, match &pmask { Ok(m) => format!("a mask of {} tokens", m.len()), Err(e) => format!("error `{e}`") }), json!({"case": case}));
                        return;
                    }
                }
                let Ok(mask) = mask else { continue };
                // clone i follows branch i: its letter first, digits afterwards
                let want = if round == 0 { b'a' + i as u8 } else { b'0' + ((round * 7 + i) % 10) as u8 } as u32;
                let t = if mask.contains(&want) { want } else if let Some(t) = mask.first() { *t } else { continue };
                if clones[i].m.consume_token(t).is_ok() { clones[i].toks.push(t); }
            }
        }
        rep.count("fuel.cases");
        rep.nontrivial(format!("fuel|{}", case["grammar"]));
        rep.sample(json!({"grammar": case["grammar"], "mode": mode, "clones": n}));
        return;
    }
    let base = w.matcher(&g);
    if base.is_error() { rep.skip("grammar-rejected"); return; }
    let n = case["n_clones"].as_u64().unwrap() as usize;
    let n_ops = case["ops"].as_u64().unwrap() as usize;
    let repro = json!({"case": case});
    rep.evaluations += 1;
    match mode {
        0 => {
            // exhaustive interleavings of short runs: k clones x r ops each, all shallow clones
            let k = 2 + rng.below(2);
            let r = 2 + rng.below(2);
            // enumerate all sequences over {0..k} in which each clone appears exactly r times
            let mut scheds: Vec<Vec<usize>> = vec![];
            fn rec(k: usize, left: &mut Vec<usize>, cur: &mut Vec<usize>, out: &mut Vec<Vec<usize>>) {
                if left.iter().all(|x| *x == 0) { out.push(cur.clone()); return; }
                if out.len() > 2000 { return; }
                for i in 0..k {
                    if left[i] > 0 { left[i] -= 1; cur.push(i); rec(k, left, cur, out); cur.pop(); left[i] += 1; }
                }
            }
            rec(k, &mut vec![r; k], &mut vec![], &mut scheds);
            let picks: Vec<Vec<u64>> = (0..k).map(|_| (0..r).map(|_| rng.next()).collect()).collect();
            let mut finals: Option<Vec<Vec<u32>>> = None;
            for sched in &scheds {
                let mut clones: Vec<Clone_> = (0..k).map(|_| Clone_ { m: base.clone(), toks: vec![] }).collect();
                let mut used = vec![0usize; k];
                for &i in sched {
                    let p = picks[i][used[i]];
                    used[i] += 1;
                    if !step_clone(&w, &g, &mut clones[i], p, rep, &json!({"case": case, "schedule": sched}), "interleaving") { return; }
                }
                let f: Vec<Vec<u32>> = clones.iter().map(|c| c.toks.clone()).collect();
                match &finals {
                    None => finals = Some(f),
                    Some(f0) => if *f0 != f {
                        rep.fail("oracle", "c14:schedule-dependent", format!("histories depend on the interleaving: {:?} vs {:?}", f0, f), json!({"case": case, "schedule": sched}));
                        return;
                    }
                }
            }
            rep.count_n("interleavings.exhaustive", scheds.len() as u64);
            rep.nontrivial(format!("exh|{}|{k}x{r}", case["grammar"]));
            rep.exhaustive = false;
        }
        1 => {
            // long sampled interleaving with shallow + deep clones, cloning mid-way; table hook
            let mut clones: Vec<Clone_> = (0..n).map(|i| Clone_ { m: if i % 3 == 2 { base.deep_clone() } else { base.clone() }, toks: vec![] }).collect();
            // model tie: the table shared by the shallow clones
            let shared_idx: Vec<usize> = (0..n).filter(|i| i % 3 != 2).collect();
            let table0 = clones[shared_idx[0]].m.verif_token_parser().map(|tp| tp.parser.verif_lexer_table()).unwrap_or_default();
            mb.push("reset".into(), "ok".into(), tag);
            mb.push(format!("shared init {}", crate::model::show_list(&table0.iter().map(|c| hash_content(c)).collect::<Vec<_>>())), format!("ok {}", table0.len()), tag);
            let mut table = table0;
            for _ in 0..n_ops {
                let i = rng.below(clones.len());
                let p = rng.next();
                if rng.chance(1, 12) && clones.len() < 16 {
                    let src = &clones[i];
                    let nc = Clone_ { m: if rng.chance(1, 2) { src.m.clone() } else { src.m.deep_clone() }, toks: src.toks.clone() };
                    clones.push(nc);
                    rep.count("op.clone_midway");
                    continue;
                }
                if rng.chance(1, 10) && !clones[i].toks.is_empty() {
                    if clones[i].m.rollback(1).is_ok() { clones[i].toks.pop(); rep.count("op.rollback"); }
                    continue;
                }
                if !step_clone(&w, &g, &mut clones[i], p, rep, &repro, "sampled") { return; }
                rep.count("op.step");
                // table hook on the shared table
                let newt = clones[shared_idx[0]].m.verif_token_parser().map(|tp| tp.parser.verif_lexer_table()).unwrap_or_default();
                if newt.len() < table.len() || newt[..table.len()] != table[..] {
                    rep.fail("model", "c14:table-not-append-only", format!("shared lexer table changed in place or shrank ({} -> {} states)", table.len(), newt.len()), repro.clone());
                    return;
                }
                for c in &newt[table.len()..] {
                    // the model appends unseen contents at the end and returns their index
                    let exp_id = table.len();
                    table.push(c.clone());
                    mb.push(format!("shared intern {}", hash_content(c)), format!("ok {} {}", exp_id, table.len()), tag);
                }
                for &j in &shared_idx {
                    if let Some(st) = eng::vstate(&clones[j].m) {
                        let top = st.lexer_stack.last().unwrap().1 as usize >> 1;
                        if top >= table.len() {
                            rep.fail("model", "c14:dangling-state-id", format!("clone {j} holds lexer state id {top} >= table size {}", table.len()), repro.clone());
                            return;
                        }
                    }
                }
            }
            rep.nontrivial(format!("sampled|{}|{}", case["grammar"], clones.len()));
        }
        2 => {
            // real threads: each clone runs its own script on its own thread; shallow clones share tables
            let scripts: Vec<Vec<u64>> = (0..n).map(|_| (0..n_ops / 4 + 2).map(|_| rng.next()).collect()).collect();
            let results: Arc<Mutex<Vec<(usize, Vec<u32>, Vec<Result<Vec<u32>, String>>)>>> = Arc::new(Mutex::new(vec![]));
            let mut handles = vec![];
            for (i, script) in scripts.iter().enumerate() {
                let mut m = if i % 3 == 2 { base.deep_clone() } else { base.clone() };
                let script = script.clone();
                let results = results.clone();
                handles.push(std::thread::spawn(move || {
                    let mut toks = vec![];
                    let mut masks = vec![];
                    for p in script {
                        if m.is_stopped() || m.is_error() { break; }
                        let mask = eng::mask_of(&mut m);
                        masks.push(mask.clone());
                        let Ok(mask) = mask else { break };
                        if mask.is_empty() { break; }
                        let t = mask[(p % mask.len() as u64) as usize];
                        if m.consume_token(t).is_err() { masks.push(Err(format!("commit {t} failed"))); break; }
                        toks.push(t);
                    }
                    results.lock().unwrap().push((i, toks, masks));
                }));
            }
            for h in handles {
                if h.join().is_err() {
                    rep.fail("oracle", "c14:thread-panic", "a clone's thread panicked".into(), repro.clone());
                    return;
                }
            }
            let res = results.lock().unwrap();
            for (i, toks, masks) in res.iter() {
                // private sequential engine with the same picks
                let mut pm = w.matcher(&g);
                for (k, mk) in masks.iter().enumerate() {
                    let pmk = eng::mask_of(&mut pm);
                    if *mk != pmk {
                        rep.fail("oracle", "c14:threads-mask-vs-private", format!("clone {i} step {k}: mask under concurrency differs from a private engine's"), json!({"case": case, "clone": i, "tokens": toks}));
                        return;
                    }
                    if k < toks.len() { let _ = pm.consume_token(toks[k]); }
                }
            }
            rep.count_n("threads.clones", n as u64);
            rep.nontrivial(format!("threads|{}|{n}", case["grammar"]));
        }
        4 => {
            // diverge, then query back to back: every clone commits a different first token and
            // `depth` further tokens chosen through a private shadow engine (no query on the clone
            // itself), then all clones compute their masks one after the other, in two orders
            let depth = n_ops;
            let Ok(first) = eng::mask_of(&mut base.deep_clone()) else { rep.skip("mask"); return; };
            let firsts: Vec<u32> = first.iter().copied().filter(|t| *t != w.eos).collect();
            if firsts.len() < 2 { rep.skip("single-first-token"); return; }
            for order in 0..2 {
                let mut clones: Vec<Clone_> = vec![];
                for i in 0..n.min(firsts.len()) {
                    let mut c = Clone_ { m: if i % 4 == 3 { base.deep_clone() } else { base.clone() }, toks: vec![] };
                    let mut shadow = w.matcher(&g);
                    let mut t = firsts[(i * 7 + order) % firsts.len()];
                    for d in 0..=depth {
                        if c.m.consume_token(t).is_err() || shadow.consume_token(t).is_err() { break; }
                        c.toks.push(t);
                        if shadow.is_stopped() || d == depth { break; }
                        let Ok(al) = eng::mask_of(&mut shadow) else { break };
                        if al.is_empty() { break; }
                        // prefer the same continuation in every clone so that lexer states coincide
                        t = al[(17 * (d + 1)) % al.len()];
                    }
                    clones.push(c);
                }
                let idxs: Vec<usize> = if order == 0 { (0..clones.len()).collect() } else { (0..clones.len()).rev().collect() };
                for &i in &idxs {
                    if clones[i].m.is_stopped() { continue; }
                    let mask = eng::mask_of(&mut clones[i].m);
                    let mut private = w.replay(&g, &clones[i].toks);
                    let pmask = eng::mask_of(&mut private);
                    if mask != pmask {
                        rep.fail("oracle", "c14:back-to-back-mask-vs-private", format!("clone {i} (history {:?}) queried after its siblings: mask differs from a private engine's", clones[i].toks), json!({"case": case, "order": order}));
                        return;
                    }
                }
                // a deep clone taken right after a sibling's query
                if let Some(c0) = clones.first() {
                    let mut d = Clone_ { m: c0.m.deep_clone(), toks: c0.toks.clone() };
                    if !d.m.is_stopped() {
                        let mask = eng::mask_of(&mut d.m);
                        let pmask = eng::mask_of(&mut w.replay(&g, &d.toks));
                        if mask != pmask {
                            rep.fail("oracle", "c14:deep-clone-mask-vs-private", "deep clone taken after a sibling's query: mask differs from a private engine's".into(), json!({"case": case, "order": order}));
                            return;
                        }
                    }
                }
            }
            rep.count("diverge_then_query.cases");
            rep.nontrivial(format!("diverge|{}|{n}|{depth}", case["grammar"]));
        }
        _ => {
            // batch mask computation of the C API over clones of one constraint
            let Ok(tp) = w.fac.create_parser(g.top()) else { rep.skip("parser"); return; };
            let _ = tp;
            // build C objects over the same vocabulary
            let lens: Vec<u32> = w.words.iter().map(|x| x.len() as u32).collect();
            let bytes: Vec<u8> = w.words.iter().flat_map(|x| x.iter().copied()).collect();
            let empty: [*const std::ffi::c_char; 1] = [std::ptr::null()];
            let init = LlgTokenizerInit { vocab_size: w.words.len() as u32, tok_eos: w.eos, token_lens: lens.as_ptr(), token_bytes: bytes.as_ptr(),
                tokenizer_json: std::ptr::null(), tokenize_assumes_string: false, tokenize_fn: None, use_approximate_greedy_tokenize_fn: true,
                tokenize_user_data: std::ptr::null(), slices: empty.as_ptr() };
            let mut err = vec![0u8; 256];
            let tok = unsafe { llg_new_tokenizer(&init, err.as_mut_ptr() as *mut _, err.len()) };
            if tok.is_null() { rep.skip("ctokenizer"); return; }
            let mut cinit: LlgConstraintInit = unsafe { std::mem::zeroed() };
            llg_constraint_init_set_defaults(&mut cinit, tok);
            cinit.log_stderr_level = 0;
            let (tagc, datac) = match &g { Gram::Lark(s) => ("lark", s.clone()), Gram::Regex(s) => ("regex", s.clone()), Gram::Json(v) => ("json_schema", v.to_string()) };
            let tagc = std::ffi::CString::new(tagc).unwrap();
            let datac = std::ffi::CString::new(datac).unwrap();
            let c0 = llg_new_constraint_any(&cinit, tagc.as_ptr(), datac.as_ptr());
            if !llg_get_error(unsafe { &*c0 }).is_null() { unsafe { llg_free_constraint(c0); llg_free_tokenizer(tok); } rep.skip("cconstraint"); return; }
            let mut cs: Vec<*mut LlgConstraint> = vec![c0];
            let mut hist: Vec<Vec<u32>> = vec![vec![]];
            let words_n = (w.words.len() + 1 + 31) / 32;
            for round in 0..(n_ops / 6 + 2) {
                // clone some
                if cs.len() < n { let i = rng.below(cs.len()); cs.push(llg_clone_constraint(unsafe { &*cs[i] })); hist.push(hist[i].clone()); }
                let mut bufs: Vec<Vec<u32>> = cs.iter().map(|_| vec![0xAAAA_AAAAu32; words_n]).collect();
                let steps: Vec<LlgConstraintStep> = cs.iter().zip(bufs.iter_mut()).map(|(c, b)| LlgConstraintStep { constraint: *c, mask_dest: b.as_mut_ptr(), mask_byte_len: words_n * 4 }).collect();
                unsafe { llg_par_compute_mask(steps.as_ptr(), steps.len(), std::ptr::null(), None) };
                for (i, b) in bufs.iter().enumerate() {
                    if !llg_get_error(unsafe { &*cs[i] }).is_null() { continue; }
                    let ids: Vec<u32> = (0..w.words.len() as u32).filter(|t| b[(*t / 32) as usize] & (1 << (t % 32)) != 0).collect();
                    let mut pm = w.replay(&g, &hist[i]);
                    let stopped = llg_is_stopped(unsafe { &*cs[i] });
                    let pmask = if pm.is_stopped() { Ok(vec![w.eos]) } else { eng::mask_of(&mut pm) };
                    if !stopped && pmask.as_ref().ok() != Some(&ids) && !(pmask.is_err() && ids == vec![w.eos]) {
                        rep.fail("oracle", "c14:par-mask-vs-private", format!("round {round}: llg_par_compute_mask for clone {i} (history {:?}) differs from a private engine", hist[i]), repro.clone());
                        for c in &cs { unsafe { llg_free_constraint(*c) }; }
                        unsafe { llg_free_tokenizer(tok) };
                        return;
                    }
                    if !stopped && !ids.is_empty() {
                        let t = ids[rng.below(ids.len())];
                        let mut cr: LlgCommitResult = unsafe { std::mem::zeroed() };
                        if llg_commit_token(unsafe { &mut *cs[i] }, t, &mut cr) == 0 { hist[i].push(t); }
                    }
                }
                rep.count("par.rounds");
            }
            for c in &cs { unsafe { llg_free_constraint(*c) }; }
            unsafe { llg_free_tokenizer(tok) };
            rep.nontrivial(format!("par|{}|{}", case["grammar"], cs.len()));
        }
    }
    rep.sample(json!({"grammar": case["grammar"], "mode": mode, "clones": n}));
}
