//! C19 — special tokens are allowed only where the grammar names them.
//!
//! impl-vs-oracle: (text) grammars without token references over vocabularies whose special
//! tokens are named like grammar text (`<|end|>`, `"`, `abc`): at every state no special token,
//! no empty token and never the bare marker token is in the mask (EOS excepted, iff accepting).
//! (refs) grammars `"A" ( <name> | <[id]> | <[a-b,...]> | <[^...]> | <[*]> ) "B"`: at the
//! reference position the mask is exactly the denoted id set, elsewhere no special token.
//! (tok) marker-aware tokenisation: marker-free text is tokenised as ordinary text.
//! impl-vs-model: `<[^...]>` id sets vs the Lean model of `negated_token_ranges`.
use serde_json::{json, Value};

use crate::eng::{self, World};
use crate::engine::Gram;
use crate::model::ModelBatch;
use crate::report::Report;
use crate::rng::Rng;
use crate::vocab;
use crate::Ctx;

pub fn gen_case(rng: &mut Rng, idx: usize, thorough: bool) -> Value {
    let steps = if thorough { 30 } else { 16 };
    match idx % 3 {
        0 => {
            let (g, texts) = eng::gen_grammar(rng, idx);
            json!({"kind": "text", "grammar": g.to_json(), "texts": texts.iter().map(|t| vocab::hex(t)).collect::<Vec<_>>(), "seed": rng.next() % 1_000_000_000, "steps": steps})
        }
        1 => if idx % 2 == 0 { json!({"kind": "refs", "seed": rng.next() % 1_000_000_000, "form": rng.below(6)}) } else { json!({"kind": "multiref", "seed": rng.next() % 1_000_000_000}) },
        _ => json!({"kind": "tok", "seed": rng.next() % 1_000_000_000}),
    }
}

/// vocabulary with special tokens whose names collide with grammar text
fn colliding_vocab(rng: &mut Rng, texts: &[Vec<u8>]) -> (Vec<Vec<u8>>, u32, Vec<u32>) {
    let (mut words, _) = vocab::synth_words(rng, texts, 30, None);
    words.pop(); // drop the EOS added by synth_words; re-add at the end
    let mut specials = vec![];
    for name in ["<|end|>", "\"", "abc", "a", "{", "<[1]>", "x", "12", " "] {
        let mut w = vec![0xffu8];
        w.extend_from_slice(name.as_bytes());
        specials.push(words.len() as u32);
        words.push(w);
    }
    // the bare marker token is the single-byte token 0xFF (id 255) that synth_words already holds;
    // a second token with the same bytes is not generated (the engine clears one marker token,
    // found by greedy tokenisation of [0xFF]; duplicates of it are outside this check)
    let mut e = vec![0xffu8];
    e.extend_from_slice(b"<|eos|>");
    words.push(e);
    let eos = words.len() as u32 - 1;
    // pre-existing special tokens of synth_words
    for (i, w) in words.iter().enumerate() {
        if !w.is_empty() && w[0] == 0xff && !specials.contains(&(i as u32)) && i as u32 != eos { specials.push(i as u32); }
    }
    (words, eos, specials)
}

pub fn run_case(_ctx: &Ctx, case: &Value, tag: usize, rep: &mut Report, mb: &mut ModelBatch) {
    let mut rng = Rng::new(case["seed"].as_u64().unwrap());
    match case["kind"].as_str().unwrap_or("") {
        "text" => {
            let g = Gram::from_json(&case["grammar"]);
            let texts: Vec<Vec<u8>> = case["texts"].as_array().map(|a| a.iter().map(|t| vocab::unhex(t.as_str().unwrap())).collect()).unwrap_or_default();
            let steps = case["steps"].as_u64().unwrap() as usize;
            let (words, eos, _) = colliding_vocab(&mut rng, &texts);
            let Ok(w) = World::new(words, eos, false, None) else { rep.skip("world"); return; };
            let mut m = w.matcher(&g);
            if m.is_error() { rep.skip("grammar-rejected"); return; }
            let mut toks = vec![];
            for step in 0..steps {
                if m.is_stopped() { break; }
                rep.evaluations += 1;
                let Ok(mask) = eng::mask_of(&mut m) else { break };
                let acc = m.is_accepting().unwrap_or(false);
                for &t in &mask {
                    let wd = &w.words[t as usize];
                    let special = wd.is_empty() || wd[0] == 0xff;
                    if special && !(t == w.eos && acc) {
                        rep.fail("oracle", "c19:special-in-text-mask", format!("step {step}: text grammar allows special/empty token {t} ({})", vocab::hex_or_underscore(wd)), json!({"case": case, "tokens": toks}));
                        return;
                    }
                }
                rep.nontrivial(format!("text|{}|{:?}", case["grammar"], toks));
                let cands: Vec<u32> = mask.iter().copied().filter(|t| *t != w.eos).collect();
                if cands.is_empty() { break; }
                let t = *rng.pick(&cands);
                if m.consume_token(t).is_err() { break; }
                toks.push(t);
            }
            rep.sample(json!({"kind": "text", "grammar": case["grammar"], "steps": toks.len()}));
        }
        "multiref" => {
            // several different references in one grammar: in sequence (separated by literals) and as
            // alternatives at the same position; every position must allow exactly what *its* reference denotes
            let texts = vec![b"AB".to_vec(), b"AxB".to_vec()];
            let (words, eos, specials) = colliding_vocab(&mut rng, &texts);
            let n = words.len() as u32;
            // canonical tokenizers too: forcing then looks at the token references possible at a position
            let canonical = rng.chance(1, 2);
            // a canonical tokenizer maps a byte string to one token: entries that repeat the bytes of a lower id cannot be
            // told apart from it once forced text goes through the byte level, so the canonical worlds have none
            let mut words = words;
            if canonical {
                for i in 0..words.len() {
                    if !words[i].is_empty() && words[..i].contains(&words[i]) { words[i] = vec![]; }
                }
            }
            let Ok(w) = World::new(words, eos, canonical, None) else { rep.skip("world"); return; };
            let mut gen_ref = |rng: &mut Rng| -> (String, Vec<u32>) {
                match rng.below(5) {
                    0 => {
                        // only names of the form <|...|> can be written as a reference
                        let named: Vec<u32> = specials.iter().copied().filter(|t| w.words[*t as usize][1..].starts_with(b"<|")).collect();
                        let t = named[rng.below(named.len())];
                        (String::from_utf8_lossy(&w.words[t as usize][1..]).to_string(), vec![t])
                    }
                    1 => { let id = rng.below(n as usize) as u32; (format!("<[{id}]>"), vec![id]) }
                    2 => { let a = rng.below(n as usize) as u32; let b = (a + rng.below(6) as u32).min(n - 1); (format!("<[{a}-{b}]>"), (a..=b).collect()) }
                    3 => { let a = rng.below(n as usize) as u32; let b = (a + rng.below(40) as u32).min(n - 1); (format!("<[^{a}-{b}]>"), (0..n).filter(|t| *t < a || *t > b).collect()) }
                    _ => { let a = rng.below(n as usize) as u32; let c = rng.below(n as usize) as u32; let mut ids = vec![a, c]; ids.sort(); ids.dedup(); (format!("<[{a},{c}]>"), ids) }
                }
            };
            if rng.chance(1, 2) {
                // alternatives at one position where nothing but token references is possible: the position denotes the
                // union, whatever the order of multi-id and single-id references, also after forced bytes were computed
                let k = 2 + rng.below(3);
                let alts: Vec<(String, Vec<u32>)> = (0..k).map(|_| gen_ref(&mut rng)).collect();
                let g = Gram::Lark(format!("start: \"A\" ( {} ) \"B\"\n", alts.iter().map(|r| r.0.clone()).collect::<Vec<_>>().join(" | ")));
                let repro = json!({"case": case, "grammar": g.to_json(), "canonical": canonical});
                let mut m = w.matcher(&g);
                if m.is_error() { rep.fail("oracle", "c19:reference-rejected", format!("grammar with alternative references rejected: {}", eng::err_class(&m.get_error().unwrap_or_default())), repro); return; }
                rep.evaluations += 1;
                if m.consume_token(b'A' as u32).is_err() { rep.skip("sep-rejected"); return; }
                let mut exp: Vec<u32> = alts.iter().flat_map(|r| r.1.iter().copied()).collect();
                exp.sort(); exp.dedup();
                for round in 0..2 {
                    if round == 1 { let _ = m.compute_ff_bytes(); }
                    match eng::mask_of(&mut m) {
                        Ok(got) if got == exp => {}
                        Ok(got) => {
                            let extra: Vec<&u32> = got.iter().filter(|t| !exp.contains(t)).take(6).collect();
                            let missing: Vec<&u32> = exp.iter().filter(|t| !got.contains(t)).take(6).collect();
                            rep.fail("oracle", "c19:reference-id-set", format!("alternatives {:?}{}: mask has extra {extra:?}, misses {missing:?} (vocab {n})", alts.iter().map(|r| r.0.clone()).collect::<Vec<_>>(), if round == 1 { " after compute_ff_bytes" } else { "" }), repro.clone());
                            return;
                        }
                        Err(e) => { rep.fail("oracle", "c19:mask-at-reference", format!("alternatives: mask failed: {e}"), repro.clone()); return; }
                    }
                }
                for &t in exp.iter().filter(|t| **t != w.eos).take(8) {
                    let mut c = m.deep_clone();
                    if c.consume_token(t).is_err() { rep.fail("oracle", "c19:reference-token-rejected", format!("alternatives: denoted token {t} rejected"), repro.clone()); return; }
                }
                rep.nontrivial(format!("multiref-alts|{}|{canonical}", alts.iter().map(|r| r.0.clone()).collect::<Vec<_>>().join(" ")));
                rep.sample(json!({"kind": "multiref-alts", "refs": alts.iter().map(|r| r.0.clone()).collect::<Vec<_>>(), "canonical": canonical}));
                return;
            }
            let k = 2 + rng.below(3);
            let refs: Vec<(String, Vec<u32>)> = (0..k).map(|_| gen_ref(&mut rng)).collect();
            let alt = gen_ref(&mut rng);
            let seps = ["\"A\"", "\"B\"", "\"C\"", "\"D\"", "\"E\""];
            // start: "A" R0 "B" R1 ... | ALT "Z"
            let mut body = String::new();
            for (i, r) in refs.iter().enumerate() { body.push_str(&format!("{} {} ", seps[i], r.0)); }
            let with_alt = rng.chance(1, 2);
            let g = Gram::Lark(if with_alt { format!("start: seq | alt\nseq: {} {body}\"Q\"\nalt: {} \"Z\"\n", refs[0].0, alt.0) } else { format!("start: {body}\"Q\"\n") });
            let repro = json!({"case": case, "grammar": g.to_json()});
            let mut m = w.matcher(&g);
            if m.is_error() { rep.fail("oracle", "c19:reference-rejected", format!("grammar with several references rejected: {}", eng::err_class(&m.get_error().unwrap_or_default())), repro); return; }
            rep.evaluations += 1;
            let check = |m: &mut llguidance::Matcher, exp: &[u32], what: &str, rep: &mut Report| -> bool {
                let mut exp = exp.to_vec(); exp.sort(); exp.dedup();
                match eng::mask_of(m) {
                    Ok(got) if got == exp => true,
                    Ok(got) => {
                        let extra: Vec<&u32> = got.iter().filter(|t| !exp.contains(t)).take(6).collect();
                        let missing: Vec<&u32> = exp.iter().filter(|t| !got.contains(t)).take(6).collect();
                        rep.fail("oracle", "c19:reference-id-set", format!("{what}: mask has extra {extra:?}, misses {missing:?} (vocab {n})"), repro.clone());
                        false
                    }
                    Err(e) => { rep.fail("oracle", "c19:mask-at-reference", format!("{what}: mask failed: {e}"), repro.clone()); false }
                }
            };
            if with_alt {
                // first position: union of refs[0] and alt
                let mut u = refs[0].1.clone(); u.extend(alt.1.iter().copied());
                if !check(&mut m, &u, &format!("start position ({} | {})", refs[0].0, alt.0), rep) { return; }
                // take a token only the first alternative denotes, if any
                let Some(&t) = refs[0].1.iter().find(|t| !alt.1.contains(t) && **t != w.eos) else { rep.skip("no-distinguishing-token"); return; };
                if m.consume_token(t).is_err() { rep.fail("oracle", "c19:reference-token-rejected", format!("denoted token {t} rejected at start"), repro.clone()); return; }
            }
            for (i, r) in refs.iter().enumerate() {
                let sep = seps[i].as_bytes()[1];
                if !check(&mut m, &[sep as u32], &format!("text before reference {i}"), rep) { return; }
                if m.consume_token(sep as u32).is_err() { rep.skip("sep-rejected"); return; }
                if !check(&mut m, &r.1, &format!("reference {i} {} of {} in one grammar", r.0, refs.len()), rep) { return; }
                let Some(&t) = r.1.iter().find(|t| **t != w.eos) else { rep.skip("only-eos"); return; };
                if let Err(e) = m.consume_token(t) { rep.fail("oracle", "c19:reference-token-rejected", format!("{}: denoted token {t} ({}) rejected: {}", r.0, vocab::hex(&w.words[t as usize]), eng::err_class(&e.to_string())), repro.clone()); return; }
            }
            if !check(&mut m, &[b'Q' as u32], "text after the last reference", rep) { return; }
            rep.nontrivial(format!("multiref|{}", refs.iter().map(|r| r.0.clone()).collect::<Vec<_>>().join(" ")));
            rep.sample(json!({"kind": "multiref", "refs": refs.iter().map(|r| r.0.clone()).collect::<Vec<_>>(), "alt": with_alt}));
        }
        "refs" => {
            let texts = vec![b"AB".to_vec(), b"AxB".to_vec()];
            let (words, eos, specials) = colliding_vocab(&mut rng, &texts);
            let n = words.len() as u32;
            let Ok(w) = World::new(words, eos, false, None) else { rep.skip("world"); return; };
            // choose the reference form and the id set it denotes
            let form = case["form"].as_u64().unwrap();
            let named = specials[0]; // \xFF<|end|>
            let (refsyn, expected): (String, Vec<u32>) = match form {
                0 => ("<|end|>".to_string(), vec![named]),
                1 => { let id = rng.below(n as usize) as u32; (format!("<[{id}]>"), vec![id]) }
                2 => {
                    let mut rs = vec![];
                    let mut ids = vec![];
                    for _ in 0..1 + rng.below(3) {
                        let a = rng.below(n as usize) as u32;
                        let b = (a + rng.below(6) as u32).min(n - 1);
                        rs.push(format!("{a}-{b}"));
                        ids.extend(a..=b);
                    }
                    ids.sort(); ids.dedup();
                    (format!("<[{}]>", rs.join(",")), ids)
                }
                3 | 4 => {
                    let mut rs = vec![];
                    let mut pairs = vec![];
                    let mut ids: Vec<u32> = vec![];
                    let mut prev: Option<(u32, u32)> = None;
                    for _ in 0..1 + rng.below(3) {
                        // random ranges, and the edge shapes of the sweep in negated_token_ranges: a range at id 0,
                        // a single id or range that starts right after / overlaps the end of the previous one
                        let (a, b) = match (prev, rng.below(4)) {
                            (None, 0) => (0, rng.below(2) as u32 * rng.below(5) as u32),
                            (Some((_, pb)), 0) if pb + 1 < n => { let a = pb + 1; (a, (a + rng.below(2) as u32 * rng.below(4) as u32).min(n - 1)) }
                            (Some((pa, pb)), 1) if pb + 1 < n => (pa + rng.below((pb - pa + 1) as usize) as u32, pb + 1),
                            _ => { let a = rng.below(n as usize) as u32; (a, (a + rng.below(40) as u32).min(n - 1)) }
                        };
                        prev = Some((a, b));
                        rs.push(if a == b && rng.chance(1, 2) { format!("{a}") } else { format!("{a}-{b}") });
                        pairs.push(format!("{a}:{b}"));
                        ids.extend(a..=b);
                    }
                    let exp: Vec<u32> = (0..n).filter(|t| !ids.contains(t)).collect();
                    // Lean model of negated_token_ranges
                    let exp_ranges = {
                        let mut out = vec![]; let mut i = 0usize;
                        while i < exp.len() { let mut j = i; while j + 1 < exp.len() && exp[j + 1] == exp[j] + 1 { j += 1; } out.push(format!("{}:{}", exp[i], exp[j])); i = j + 1; }
                        if out.is_empty() { "-".to_string() } else { out.join(",") }
                    };
                    mb.push(format!("ranges neg {n} {}", pairs.join(",")), format!("ok {exp_ranges}"), tag);
                    (format!("<[^{}]>", rs.join(",")), exp)
                }
                _ => ("<[*]>".to_string(), (0..n).collect()),
            };
            // ids beyond the vocabulary denote nothing: such a reference must be refused when the grammar is built
            for (hi, shape) in [(n, 0), (n, 1), (n, 2), (n + 1, 0), (n + 40, 1), (1_000_000, 2)] {
                let bad = match shape { 0 => format!("<[{hi}]>"), 1 => format!("<[{}-{hi}]>", rng.below(n as usize)), _ => format!("<[3,{hi}]>") };
                let gb = Gram::Lark(format!("start: \"A\" {bad} \"B\"\n"));
                let mb_ = w.matcher(&gb);
                rep.evaluations += 1;
                if !mb_.is_error() {
                    rep.fail("oracle", "c19:out-of-range-reference-accepted", format!("reference {bad} names an id beyond the vocabulary ({n} entries) and the grammar was accepted"), json!({"case": case, "reference": bad}));
                    return;
                }
                rep.count("refs.out-of-range-refused");
            }
            let g = Gram::Lark(format!("start: \"A\" {refsyn} \"B\"\n"));
            let mut m = w.matcher(&g);
            if m.is_error() {
                // an empty negated set is a legitimate rejection
                if expected.is_empty() { rep.skip("empty-negation-rejected"); } else {
                    rep.fail("oracle", "c19:reference-rejected", format!("grammar with {refsyn} rejected: {}", eng::err_class(&m.get_error().unwrap_or_default())), case.clone());
                }
                return;
            }
            rep.evaluations += 1;
            let repro = json!({"case": case, "reference": refsyn});
            // before "A": no special
            let Ok(m0) = eng::mask_of(&mut m) else { return };
            if m0.iter().any(|t| w.is_special(*t)) {
                rep.fail("oracle", "c19:special-before-reference", format!("special token allowed before the reference position: {:?}", m0.iter().filter(|t| w.is_special(**t)).collect::<Vec<_>>()), repro.clone());
                return;
            }
            if m.consume_token(b'A' as u32).is_err() { rep.skip("no-A-token"); return; }
            let Ok(m1) = eng::mask_of(&mut m) else { rep.fail("oracle", "c19:mask-at-reference", "mask computation failed at the reference position".into(), repro); return; };
            // the bare marker token is never allowed by itself
            let exp: Vec<u32> = expected.clone();
            if m1 != exp {
                let extra: Vec<&u32> = m1.iter().filter(|t| !exp.contains(t)).take(6).collect();
                let missing: Vec<&u32> = exp.iter().filter(|t| !m1.contains(t)).take(6).collect();
                rep.fail("oracle", "c19:reference-id-set", format!("{refsyn}: mask at the reference position has extra {extra:?}, misses {missing:?} (vocab {n})"), repro.clone());
                return;
            }
            rep.nontrivial(format!("refs|{refsyn}"));
            // commit one denoted token, then only "B" text
            if let Some(&t) = exp.iter().find(|t| **t != w.eos) {
                if m.consume_token(t).is_err() {
                    rep.fail("oracle", "c19:reference-token-rejected", format!("{refsyn}: denoted token {t} rejected"), repro.clone());
                    return;
                }
                if let Ok(m2) = eng::mask_of(&mut m) {
                    if m2.iter().any(|t| w.is_special(*t)) || !m2.contains(&(b'B' as u32)) {
                        rep.fail("oracle", "c19:after-reference", format!("{refsyn}: after the referenced token the mask is {m2:?}"), repro.clone());
                    }
                }
            }
            rep.sample(json!({"kind": "refs", "reference": refsyn, "denoted": exp.len()}));
        }
        _ => {
            // marker-aware tokenisation
            let texts = vec![b"say <|end|> or \"abc\" <[1]>".to_vec()];
            let (words, eos, specials) = colliding_vocab(&mut rng, &texts);
            let Ok(w) = World::new(words, eos, false, None) else { rep.skip("world"); return; };
            let trie = w.env.tok_trie();
            for _ in 0..8 {
                rep.evaluations += 1;
                // marker-free text built from pieces incl. the spelled names of special tokens
                let pieces = ["<|end|>", "abc", "\"", " ", "x12", "<[1]>", "say ", "{a}"];
                let mut text: Vec<u8> = vec![];
                for _ in 0..1 + rng.below(5) { text.extend_from_slice(rng.pick(&pieces).as_bytes()); }
                let (toks, fixed) = w.env.tokenize_bytes_marker(&text);
                let dec: Vec<u8> = toks.iter().flat_map(|t| w.words[*t as usize].clone()).collect();
                if toks.iter().any(|t| w.is_special(*t)) || dec != text || fixed != 0 {
                    rep.fail("oracle", "c19:text-tokenised-as-special", format!("marker-free text {:?} tokenised to {:?} (fixed {fixed})", String::from_utf8_lossy(&text), toks), json!({"case": case, "text": vocab::hex(&text)}));
                    return;
                }
                // with the marker: \xFF<|end|> is the special token, \xFF[id] is token id
                let sp = specials[0];
                let mut marked = text.clone();
                marked.extend_from_slice(&w.words[sp as usize]);
                marked.extend_from_slice(b"z");
                let (toks2, _) = w.env.tokenize_bytes_marker(&marked);
                if !toks2.contains(&sp) {
                    rep.fail("oracle", "c19:marker-not-honoured", format!("marked special token not produced: {:?}", toks2), json!({"case": case}));
                    return;
                }
                let id = rng.below(w.vocab_size()) as u32;
                let mut m2 = text.clone();
                m2.push(0xff);
                m2.extend_from_slice(format!("[{id}]").as_bytes());
                let (toks3, _) = w.env.tokenize_bytes_marker(&m2);
                if toks3.last() != Some(&id) {
                    rep.fail("oracle", "c19:numeric-marker", format!("\\xFF[{id}] tokenised to {:?}", toks3), json!({"case": case}));
                    return;
                }
                let _ = trie;
                rep.nontrivial(format!("tok|{}", vocab::hex(&text)));
            }
            rep.sample(json!({"kind": "tok"}));
        }
    }
}
