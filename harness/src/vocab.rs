//! Vocabularies / tokenizer environments used by the checks.
use std::sync::Arc;
use toktrie::{TokEnv, TokRxInfo, TokTrie, TokenId, TokenizerEnv};

use crate::rng::Rng;

pub struct VEnv {
    pub trie: TokTrie,
    pub canonical: bool,
}

impl TokenizerEnv for VEnv {
    fn tok_trie(&self) -> &TokTrie {
        &self.trie
    }
    fn tokenize_bytes(&self, s: &[u8]) -> Vec<TokenId> {
        self.trie.greedy_tokenize(s)
    }
    fn tokenize_is_canonical(&self) -> bool {
        self.canonical
    }
}

pub fn env_from_words(words: &[Vec<u8>], eos: u32, canonical: bool) -> TokEnv {
    let info = TokRxInfo::new(words.len() as u32, eos);
    Arc::new(VEnv { trie: TokTrie::from(&info, words), canonical })
}

/// several end-of-sequence tokens (the first one is the primary)
pub fn env_from_words_eos(words: &[Vec<u8>], eos: &[u32], canonical: bool) -> TokEnv {
    let info = TokRxInfo::new(words.len() as u32, eos[0]);
    Arc::new(VEnv { trie: TokTrie::from(&info, words).with_eos_tokens(eos), canonical })
}

/// all 256 single bytes + a few special tokens; last one is EOS
pub fn single_byte_words() -> Vec<Vec<u8>> {
    let mut words: Vec<Vec<u8>> = (0..=255u8).map(|x| vec![x]).collect();
    for s in ["<|tool|>", "<|user|>", "<|end|>"] {
        let mut w = vec![0xffu8];
        w.extend_from_slice(s.as_bytes());
        words.push(w);
    }
    words
}

/// Synthetic multi-byte vocabulary: all single bytes, substrings cut from `texts`
/// (spanning lexemes, possibly ending inside a UTF-8 character), duplicates, empties,
/// special tokens; padded to `target` entries (so sizes around multiples of 32 can be hit).
pub fn synth_words(rng: &mut Rng, texts: &[Vec<u8>], n_multi: usize, target: Option<usize>) -> (Vec<Vec<u8>>, u32) {
    let mut words: Vec<Vec<u8>> = (0..=255u8).map(|x| vec![x]).collect();
    let mut tries = 0;
    while words.len() < 256 + n_multi && tries < n_multi * 10 {
        tries += 1;
        if texts.is_empty() {
            break;
        }
        let t = rng.pick(texts);
        if t.len() < 2 {
            continue;
        }
        let len = 2 + rng.below(std::cmp::min(6, t.len() - 1));
        let start = rng.below(t.len() - len + 1);
        let w = t[start..start + len].to_vec();
        if w.contains(&0xff) {
            continue;
        }
        if rng.chance(1, 8) || !words.contains(&w) {
            words.push(w); // occasionally a duplicate
        }
    }
    if rng.chance(1, 2) {
        words.push(vec![]); // empty entry
    }
    for s in ["<|tool|>", "<|user|>"] {
        let mut w = vec![0xffu8];
        w.extend_from_slice(s.as_bytes());
        words.push(w);
    }
    if let Some(t) = target {
        while words.len() + 1 < t {
            let mut w = vec![0xffu8];
            w.extend_from_slice(format!("<|pad{}|>", words.len()).as_bytes());
            words.push(w);
        }
    }
    let mut w = vec![0xffu8];
    w.extend_from_slice(b"<|end|>");
    words.push(w);
    let eos = words.len() as u32 - 1;
    (words, eos)
}

pub fn hex(b: &[u8]) -> String {
    b.iter().map(|x| format!("{x:02x}")).collect()
}

pub fn unhex(s: &str) -> Vec<u8> {
    (0..s.len() / 2).map(|i| u8::from_str_radix(&s[2 * i..2 * i + 2], 16).unwrap()).collect()
}

pub fn hex_or_underscore(b: &[u8]) -> String {
    if b.is_empty() { "_".to_string() } else { hex(b) }
}
