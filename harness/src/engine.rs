//! Shared helpers around the real engine: factories, matchers, random walks.
use anyhow::Result;
use llguidance::api::TopLevelGrammar;
use llguidance::toktrie::{InferenceCapabilities, SimpleVob, TokEnv};
use llguidance::{Constraint, Matcher, ParserFactory};
use serde_json::Value;

use crate::rng::Rng;

#[derive(Clone, Debug)]
pub enum Gram {
    Lark(String),
    Json(Value),
    Regex(String),
}

impl Gram {
    pub fn top(&self) -> TopLevelGrammar {
        match self {
            Gram::Lark(s) => TopLevelGrammar::from_lark(s.clone()),
            Gram::Json(v) => TopLevelGrammar::from_json_schema(v.clone()),
            Gram::Regex(r) => TopLevelGrammar::from_regex(r),
        }
    }
    pub fn to_json(&self) -> Value {
        match self {
            Gram::Lark(s) => serde_json::json!({"lark": s}),
            Gram::Json(v) => serde_json::json!({"json_schema": v}),
            Gram::Regex(r) => serde_json::json!({"regex": r}),
        }
    }
    pub fn from_json(v: &Value) -> Gram {
        if let Some(s) = v.get("lark") {
            Gram::Lark(s.as_str().unwrap().to_string())
        } else if let Some(s) = v.get("regex") {
            Gram::Regex(s.as_str().unwrap().to_string())
        } else {
            Gram::Json(v.get("json_schema").unwrap().clone())
        }
    }
}

pub fn factory(env: &TokEnv, slices: Option<&[String]>, ff_tokens: bool) -> Result<ParserFactory> {
    let caps = InferenceCapabilities { ff_tokens, backtrack: false, conditional_ff_tokens: false, fork: false };
    let slices: Vec<String> = match slices {
        Some(s) => s.to_vec(),
        None => vec![],
    };
    let mut f = ParserFactory::new(env, caps, &slices)?;
    f.quiet();
    Ok(f)
}

pub fn matcher(f: &ParserFactory, g: &Gram) -> Matcher {
    Matcher::new(f.create_parser(g.top()))
}

pub fn constraint(f: &ParserFactory, g: &Gram) -> Result<Constraint> {
    Ok(Constraint::new(f.create_parser(g.top())?))
}

pub fn mask_ids(m: &SimpleVob) -> Vec<u32> {
    m.to_list()
}

/// pick a token from the mask, biased towards a guide byte string when given
pub fn pick_from_mask(rng: &mut Rng, mask: &SimpleVob) -> Option<u32> {
    let l = mask.to_list();
    if l.is_empty() {
        None
    } else {
        Some(*rng.pick(&l))
    }
}

/// A few grammars used by checks that only need "some engine with a non-trivial mask".
pub fn small_corpus() -> Vec<Gram> {
    vec![
        Gram::Lark("start: \"x\" T \"1\" | \"y\" T \"2\"\nT: /[a-z]+/\n".into()),
        Gram::Lark("start: item+\nitem: \"a\" | \"bc\" | \"(\" item* \")\"\n".into()),
        Gram::Lark("start: NUM (\",\" NUM)*\nNUM: /[0-9]{1,3}/\n".into()),
        Gram::Regex("(ab|cd)*e{2,3}".into()),
        Gram::Regex("[a-c]{0,5}x".into()),
        Gram::Json(serde_json::json!({"type":"object","properties":{"a":{"type":"integer","minimum":3,"maximum":17},"b":{"type":"string","maxLength":4}},"required":["a"],"additionalProperties":false})),
        Gram::Json(serde_json::json!({"type":"array","items":{"enum":["x","yy",1,true,null]},"minItems":1,"maxItems":3})),
        Gram::Lark("start: \"[\" (A | B)* \"]\"\nA: \"é\"\nB: /[xyz]{2}/\n".into()),
        // long forced stretches (several forced tokens on a canonical tokenizer)
        Gram::Lark("start: \"hello world, \" /[0-9]+/ \" items left\"\n".into()),
        Gram::Json(serde_json::json!({"type":"object","properties":{"status_code":{"type":"integer"},"message_text":{"const":"all good"}},"required":["status_code","message_text"],"additionalProperties":false})),
    ]
}
