//! Tie of the byte-level engine model M5 (`Model/Lexer.lean`: lexer state vector + lexeme ends +
//! `advance_parser` over the Earley rows of M4) to the real parser, state by state on random walks.
use serde_json::json;

use crate::eng::World;
use crate::engine::Gram;
use crate::model::ModelBatch;
use crate::report::Report;
use crate::rng::Rng;
use crate::vocab;

fn csv<T: std::fmt::Display>(v: impl Iterator<Item = T>) -> String { let s: Vec<String> = v.map(|x| x.to_string()).collect(); if s.is_empty() { "-".into() } else { s.join(",") } }

fn sorted(mut v: Vec<u32>) -> Vec<u32> { v.sort(); v.dedup(); v }

/// 256 bits as 64 hex digits (bit b of digit b/4)
fn byte_set_hex(bits: &[bool]) -> String {
    (0..64).map(|k| { let v = (0..4).fold(0u32, |a, j| if bits[4 * k + j] { a | (1 << j) } else { a }); char::from_digit(v, 16).unwrap() }).collect()
}

pub const SKIP_REASONS: [&str; 6] = ["no-parser", "parametric-or-subgrammar", "lexeme-not-exportable", "token-ranges-or-suffix", "several-lexeme-classes", "several-skip-lexemes"];

/// sends the compiled grammar, the lexeme regexes and the M5 configuration of this grammar to the model driver
/// (guards: a certificate beyond the state budget leaves the case undecided); returns the model id and the skip lexemes
pub fn define_model(base: &llguidance::Matcher, tag: usize, rep: &mut Report, mb: &mut ModelBatch) -> Option<(usize, Vec<u32>)> {
    let Some(tp) = base.verif_token_parser() else { rep.count("lexer.skipped.no-parser"); return None };
    let cg = tp.parser.grammar().verif_dump();
    if cg.parametric || cg.syms.iter().any(|s| s.3) { rep.count("lexer.skipped.parametric-or-subgrammar"); return None; }
    let lexemes = tp.parser.verif_lexemes();
    if lexemes.iter().any(|l| l.0.is_none()) { rep.count("lexer.skipped.lexeme-not-exportable"); return None; }
    if lexemes.iter().any(|l| l.2 .4) { rep.count("lexer.skipped.token-ranges"); return None; }
    if lexemes.iter().any(|l| l.2 .6 != lexemes[0].2 .6) { rep.count("lexer.skipped.several-lexeme-classes"); return None; }
    let skips: Vec<usize> = lexemes.iter().enumerate().filter(|(_, l)| l.2 .0).map(|(i, _)| i).collect();
    if skips.len() > 1 { rep.count("lexer.skipped.several-skip-lexemes"); return None; }
    let allow_initial_skip = tp.parser.verif_allow_initial_skip();
    let syms = cg.syms.iter().map(|(rules, nullable, lexeme, _, _)| format!("{}/{}/{}", if rules.is_empty() { "-".to_string() } else { rules.iter().map(|r| r.to_string()).collect::<Vec<_>>().join("+") }, *nullable as u8, lexeme.map(|l| l.to_string()).unwrap_or("-".into()))).collect::<Vec<_>>().join(";");
    let id = 200_000 + tag;
    mb.push_guard(format!("ey def {id} {} {} {} {}", cg.start, csv(cg.rhs.iter()), csv(cg.lhs_of.iter()), syms), "ok".into(), tag);
    let mut lx = vec![];
    for (i, (rx, lazy, fl)) in lexemes.iter().enumerate() {
        let rid = tag * 1000 + i + 1_000_000;
        // a certificate beyond the state budget leaves the case undecided (guard)
        mb.push_guard(format!("rx def {rid} {}", rx.as_ref().unwrap()), "ok*".into(), tag);
        lx.push(format!("{rid}/{}/{}/{}", *lazy as u8, fl.0 as u8, fl.1 as u8));
        if *lazy { rep.count("lexer.lexemes.lazy"); }
        if fl.0 { rep.count("lexer.lexemes.skip"); }
        rep.count("lexer.lexemes");
    }
    mb.push_guard(format!("lx def {id} {id} {} {} {}", skips.first().map(|s| s.to_string()).unwrap_or("-".into()), allow_initial_skip as u8, lx.join(";")), "ok".into(), tag);
    rep.count("lexer.grammars");
    Some((id, cg.skips.clone()))
}

/// `guides`: byte strings the walks try to follow (member strings of the grammar), besides random allowed bytes
pub fn lexer_tie(world: &World, g: &Gram, guides: &[Vec<u8>], seed: u64, tag: usize, rep: &mut Report, mb: &mut ModelBatch) {
    let base = world.matcher(g);
    if base.is_error() { return; }
    let Some((id, cg_skips)) = define_model(&base, tag, rep, mb) else { return };
    let mut rng = Rng::new(seed ^ 0x1e8);
    let mut seen: std::collections::HashSet<Vec<u8>> = std::collections::HashSet::new();
    let nwalks = 4 + guides.len().min(4);
    for walk in 0..nwalks {
        let mut m = base.deep_clone();
        let guide: Option<&Vec<u8>> = if walk >= 4 { guides.get(walk - 4) } else { None };
        let mut committed: Vec<u8> = vec![];
        for step in 0..24 {
            if m.is_stopped() { break; }
            let Some(st) = crate::eng::vstate(&m) else { break };
            let Ok(mask) = m.compute_mask() else { break };
            let bits: Vec<bool> = (0..256u32).map(|b| mask.is_allowed(b)).collect();
            let plain = st.definitive && st.row_infos_len == st.num_rows && st.row_lexemes.len() + 1 == st.rows.len() && !st.lexer_stack_top_eos;
            if plain && seen.insert(st.bytes.clone()) {
                let is_skip: Vec<bool> = st.row_lexemes.iter().map(|l| l.iter().any(|x| cg_skips.contains(x))).collect();
                let lexs: Vec<String> = st.row_lexemes.iter().zip(is_skip.iter()).filter(|(_, sk)| !**sk).map(|(l, _)| csv(sorted(l.clone()).iter())).collect();
                let nrows = 1 + is_skip.iter().filter(|x| !**x).count();
                let acc = m.deep_clone().is_accepting().unwrap_or(false);
                // the mask is comparable when the parser has read exactly the committed bytes (no forced stretch pending)
                let mask_s = if st.bytes == committed { byte_set_hex(&bits) } else { rep.count("lexer.states.mask-not-compared"); "?".repeat(64) };
                rep.count("lexer.states");
                if st.has_pending_lexeme_bytes { rep.count("lexer.states.pending"); }
                if is_skip.iter().any(|x| *x) { rep.count("lexer.states.after-skip-lexeme"); }
                if st.row_lexemes.iter().any(|l| l.len() > 1) { rep.count("lexer.states.lexeme-set-of-several"); }
                mb.push(format!("lx run {id} {}", if st.bytes.is_empty() { "_".to_string() } else { vocab::hex(&st.bytes) }),
                    format!("ok lexs={} po={} ac={} pend={} acc={} rows={} mask={}", if lexs.is_empty() { "-".to_string() } else { lexs.join("|") },
                        csv(sorted(st.lexer_top.0.clone()).iter()), csv(sorted(st.lexer_top.1.clone()).iter()), st.has_pending_lexeme_bytes as u8, acc as u8, nrows, mask_s), tag);
                // a byte the engine refuses must kill the model too (one sample per state)
                let refused: Vec<u8> = (0..=255u8).filter(|b| !bits[*b as usize]).collect();
                if st.bytes == committed && !refused.is_empty() {
                    let b = refused[rng.below(refused.len())];
                    let mut s = st.bytes.clone(); s.push(b);
                    mb.push(format!("lx run {id} {}", vocab::hex(&s)), "dead".into(), tag);
                }
            }
            let allowed: Vec<u32> = (0..256u32).filter(|b| bits[*b as usize]).collect();
            if allowed.is_empty() { break; }
            let b = match guide { Some(gd) if step < gd.len() && bits[gd[step] as usize] => gd[step] as u32, _ => allowed[rng.below(allowed.len())] };
            if m.consume_token(b).is_err() { break; }
            committed.push(b as u8);
        }
    }
    let _ = json!(null);
}
