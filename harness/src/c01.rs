//! C01 — the token mask is exactly the set of tokens the engine will accept next.
//!
//! impl-vs-oracle (every grammar kind): at every reached state, on clones, every token id of the
//! vocabulary is validated and (all of them for small vocabularies, a sample otherwise) committed;
//! both must equal mask membership; `validate_tokens` of random sequences must return the length
//! of the longest prefix committable one by one; EOS in mask iff `is_accepting`.
//! impl-vs-model (regex grammars): masks, commit results and validate counts vs the Lean engine
//! M6 instantiated with the checked regex certificate of S2.
use serde_json::{json, Value};

use crate::c04::{rx_from_json, rx_to_json};
use crate::c11::world_of;
use crate::eng::{self, World};
use crate::engine::Gram;
use crate::model::{show_list, ModelBatch};
use crate::report::Report;
use crate::rng::Rng;
use crate::rx::{gen_rx, ALPHA};
use crate::utf8rx::byte_sexp;
use crate::vocab::hex_or_underscore;
use crate::Ctx;
use llguidance::Matcher;

pub fn gen_case(rng: &mut Rng, idx: usize, thorough: bool) -> Value {
    let steps = if thorough { 30 } else { 16 };
    if idx % 3 == 1 {
        // regex grammar with a Lean-side model
        let r = gen_rx(rng, 3);
        let mut texts = vec![];
        for _ in 0..5 {
            let mut s = String::new();
            r.sample(rng, ALPHA, &mut s);
            texts.push(crate::vocab::hex(s.as_bytes()));
        }
        return json!({"rx": rx_to_json(&r), "grammar": {"regex": r.to_regex()}, "texts": texts, "vocab_kind": 1 + idx % 2,
                      "canonical": false, "seed": rng.next() % 1_000_000_000, "steps": steps});
    }
    let (g, texts) = eng::gen_grammar(rng, idx);
    json!({"grammar": g.to_json(), "texts": texts.iter().map(|t| crate::vocab::hex(t)).collect::<Vec<_>>(),
           "vocab_kind": (idx + idx / 3) % 3, "canonical": idx % 5 >= 3, "slices": idx % 2 == 0, "seed": rng.next() % 1_000_000_000, "steps": steps})
}

/// every token: validate on the live engine (read-only) and commit on a clone
pub fn oracle_state(w: &World, m: &mut Matcher, mask: &[u32], canonical: bool, rng: &mut Rng, step: usize,
                    rep: &mut Report, repro: &Value) -> bool {
    let vocab = w.vocab_size() as u32;
    let in_mask = |t: u32| mask.binary_search(&t).is_ok();
    let forced_single = canonical && mask.len() == 1 && !m.compute_ff_tokens().is_empty();
    if forced_single {
        rep.count("state.forced_single_token");
    }
    let commit_all = vocab <= 400;
    let mut ok = true;
    for t in 0..vocab {
        let v = m.validate_tokens(&[t]).map(|n| n == 1).unwrap_or(false);
        if m.is_error() {
            rep.fail("oracle", "c01:validate-error", format!("step {step}: validate_tokens([{t}]) put the matcher into error state: {:?}", m.get_error()), repro.clone());
            return false;
        }
        let exp = in_mask(t);
        if forced_single {
            // documented exception: the mask may narrow to the canonically forced token
            if exp && !v {
                rep.fail("oracle", "c01:mask-not-validated", format!("step {step}: forced token {t} in mask but validate rejects it"), repro.clone());
                ok = false;
            }
        } else if v != exp {
            rep.fail("oracle", if exp { "c01:mask-not-validated" } else { "c01:validated-not-in-mask" },
                format!("step {step}: token {t} ({}) mask={exp} validate={v}", hex_or_underscore(&w.words[t as usize])), repro.clone());
            ok = false;
        }
        if commit_all || rng.chance(1, 8) || exp {
            let mut c = m.deep_clone();
            let cres = c.consume_token(t);
            let cerr = cres.as_ref().err().map(|e| crate::eng::err_class(&e.to_string())).unwrap_or_default();
            let committed = cres.is_ok();
            // validation and commit must agree on every single token, also in a canonically forced state
            // (the documented exception narrows the mask, not what validate_tokens reports)
            if !committed && cerr.contains("Too many items") {
                // the commit ran into the per-step item budget (a state that forces the same byte without end,
                // e.g. two adjacent greedy lexemes /c+/ /c+/): a reported resource-limit stop, not a verdict on the token
                rep.skip("commit-hit-item-limit");
                continue;
            }
            if v != committed {
                rep.fail("oracle", "c01:validate-vs-commit", format!("step {step}: token {t} ({}) validate_tokens={v} but commit on a clone {}", hex_or_underscore(&w.words[t as usize]), if committed { "succeeds".to_string() } else { format!("fails: {cerr}") }), repro.clone());
                ok = false;
            }
            if forced_single {
                if exp && !committed {
                    rep.fail("oracle", "c01:mask-not-committable", format!("step {step}: forced token {t} in mask but commit fails"), repro.clone());
                    ok = false;
                }
            } else if committed != exp {
                rep.fail("oracle", if exp { "c01:mask-not-committable" } else { "c01:committable-not-in-mask" },
                    format!("step {step}: token {t} ({}) mask={exp} commit={committed}", hex_or_underscore(&w.words[t as usize])), repro.clone());
                ok = false;
            }
        }
        if !ok {
            return false;
        }
    }
    // EOS in mask iff accepting
    let acc = m.is_accepting().unwrap_or(false);
    if in_mask(w.eos) != acc && !forced_single {
        rep.fail("oracle", "c01:eos-vs-accepting", format!("step {step}: EOS in mask = {}, is_accepting = {acc}", in_mask(w.eos)), repro.clone());
        return false;
    }
    // validate a sequence = longest committable prefix
    for _ in 0..3 {
        let mut seq: Vec<u32> = vec![];
        let mut c = m.deep_clone();
        let len = 1 + rng.below(5);
        for _ in 0..len {
            let t = match eng::mask_of(&mut c) {
                Ok(al) if !al.is_empty() && rng.chance(4, 5) && !c.is_stopped() => *rng.pick(&al),
                _ => rng.below(vocab as usize) as u32,
            };
            seq.push(t);
            if c.is_stopped() || c.consume_token(t).is_err() {
                break;
            }
        }
        let k = match m.validate_tokens(&seq) { Ok(k) => k, Err(_) => break };
        let mut c = m.deep_clone();
        let mut kk = 0;
        for &t in &seq {
            // a token is committable iff it is validated as a single next token
            if c.is_stopped() || c.validate_tokens(&[t]).unwrap_or(0) != 1 {
                break;
            }
            if c.consume_token(t).is_err() {
                break;
            }
            kk += 1;
        }
        // EOS ends validation successfully when accepting; afterwards nothing more is counted
        if k != kk && !forced_single && !canonical {
            // recorded finding: after the token that completes the grammar (accepting, no extension) the matcher
            // has stopped, so EOS cannot be committed any more, but validate_tokens still counts an EOS there
            if k == kk + 1 && seq.get(kk) == Some(&w.eos) && c.is_stopped() && c.is_accepting().unwrap_or(false) {
                rep.fail("oracle", "c01:validate-counts-eos-after-final-token", format!("step {step}: validate_tokens({seq:?}) = {k}: the EOS after the token that completes the grammar is counted, but the matcher has already stopped and commits only {kk}"), repro.clone());
                return false;
            }
            rep.fail("oracle", "c01:validate-longest-prefix", format!("step {step}: validate_tokens({seq:?}) = {k}, committable one by one = {kk}"), repro.clone());
            return false;
        }
    }
    true
}

pub fn run_case(_ctx: &Ctx, case: &Value, tag: usize, rep: &mut Report, mb: &mut ModelBatch) {
    let mut rng = Rng::new(case["seed"].as_u64().unwrap());
    let Some((g, w)) = world_of(case, &mut rng) else { rep.skip("world"); return; };
    let canonical = case["canonical"].as_bool().unwrap_or(false);
    let steps = case["steps"].as_u64().unwrap() as usize;
    let mut m = w.matcher(&g);
    if m.is_error() {
        rep.skip("grammar-rejected");
        return;
    }
    let has_model = case.get("rx").is_some();
    if has_model {
        let r = rx_from_json(&case["rx"]);
        mb.push("reset".into(), "ok".into(), tag);
        mb.push_guard(format!("rx def {tag} {}", byte_sexp(&r)), "ok*".into(), tag);
        let ws: Vec<String> = w.words.iter().map(|x| hex_or_underscore(x)).collect();
        mb.push(format!("eng init {tag} {} {}", ws.join(","), w.eos), "ok".into(), tag);
        rep.count("cases.with_model");
    }
    // every other grammar of the M5 fragment (Lark, JSON; non-canonical worlds): the Lean token-level engine over
    // the byte-level engine model M5 must produce the same masks as the implementation's speculative trie walk
    let mut has_elx = false;
    if !has_model && !canonical {
        if let Some((id, _)) = crate::lx::define_model(&m, tag, rep, mb) {
            let ws: Vec<String> = w.words.iter().map(|x| hex_or_underscore(x)).collect();
            mb.push(format!("elx init {id} {} {}", ws.join(","), w.eos), "ok".into(), tag);
            has_elx = true;
            rep.count("cases.with_lexer_model");
        }
    }
    let mut toks: Vec<u32> = vec![];
    for step in 0..steps {
        if m.is_stopped() || m.is_error() {
            break;
        }
        rep.evaluations += 1;
        let mask = match eng::mask_of(&mut m) {
            Ok(v) => v,
            Err(e) => {
                // a stop at mask time (NoExtensionBias) is judged by C03; nothing to compare here
                rep.count(&format!("mask.err.{e}"));
                break;
            }
        };
        let repro = json!({"case": case, "tokens": toks});
        if !oracle_state(&w, &mut m, &mask, canonical, &mut rng, step, rep, &repro) {
            break;
        }
        if mask.len() > 1 && mask.len() < w.vocab_size() {
            rep.nontrivial(format!("{}|{:?}", case["grammar"], toks));
        }
        if has_model {
            mb.push("eng mask".into(), format!("ok {}", show_list(&mask)), tag);
            let seq: Vec<u32> = (0..1 + rng.below(4)).map(|_| if rng.chance(2, 3) && !mask.is_empty() { *rng.pick(&mask) } else { rng.below(w.vocab_size()) as u32 }).collect();
            if let Ok(k) = m.validate_tokens(&seq) {
                mb.push(format!("eng validate {}", show_list(&seq)), format!("ok {k}"), tag);
            }
            // a token outside the mask must be rejected by both
            let t_bad = rng.below(w.vocab_size()) as u32;
            if mask.binary_search(&t_bad).is_err() {
                let mut c = m.deep_clone();
                let r = c.consume_token(t_bad).is_ok();
                mb.push(format!("eng commit {t_bad}"), if r { "ok".into() } else { "err".into() }, tag);
            }
        }
        if has_elx {
            mb.push("elx mask".into(), format!("ok {}", show_list(&mask)), tag);
            rep.count("states.mask_vs_lexer_model");
        }
        let non_eos: Vec<u32> = mask.iter().copied().filter(|t| *t != w.eos).collect();
        if mask.is_empty() {
            break;
        }
        let t = if !non_eos.is_empty() && rng.chance(9, 10) { *rng.pick(&non_eos) } else { *rng.pick(&mask) };
        if let Err(e) = m.consume_token(t) {
            let cls = crate::eng::err_class(&e.to_string());
            if cls.contains("Too many items") {
                rep.skip("commit-hit-item-limit");
            } else {
                rep.fail("oracle", "c01:mask-not-committable", format!("step {step}: token {t} from the mask rejected by commit: {cls}"), repro.clone());
            }
            break;
        }
        toks.push(t);
        if has_model {
            mb.push(format!("eng commit {t}"), "ok".into(), tag);
        }
        if has_elx {
            mb.push(format!("elx commit {t}"), "ok".into(), tag);
        }
    }
    rep.sample(json!({"grammar": case["grammar"], "vocab": w.vocab_size(), "tokens": toks.iter().take(20).collect::<Vec<_>>(), "model": has_model}));
}
