//! Engine-level scenario helpers shared by C01, C02, C03, C10–C14, C18, C19.
use llguidance::earley::VerifState;
use llguidance::toktrie::{SimpleVob, TokEnv};
use llguidance::{Matcher, ParserFactory};
use serde_json::{json, Value};

use crate::engine::{self, Gram};
use crate::lark;
use crate::rng::Rng;
use crate::vocab;

pub struct World {
    pub words: Vec<Vec<u8>>,
    pub eos: u32,
    /// every end-of-sequence token (the primary one first)
    pub eos_all: Vec<u32>,
    pub env: TokEnv,
    pub fac: ParserFactory,
}

impl World {
    pub fn new(words: Vec<Vec<u8>>, eos: u32, canonical: bool, slices: Option<&[String]>) -> anyhow::Result<World> {
        let env = vocab::env_from_words(&words, eos, canonical);
        let fac = engine::factory(&env, slices, false)?;
        Ok(World { words, eos, eos_all: vec![eos], env, fac })
    }
    pub fn new_multi_eos(words: Vec<Vec<u8>>, eos_all: Vec<u32>, canonical: bool, slices: Option<&[String]>) -> anyhow::Result<World> {
        let env = vocab::env_from_words_eos(&words, &eos_all, canonical);
        let fac = engine::factory(&env, slices, false)?;
        Ok(World { words, eos: eos_all[0], eos_all, env, fac })
    }
    pub fn is_eos(&self, t: u32) -> bool {
        self.eos_all.contains(&t)
    }
    pub fn matcher(&self, g: &Gram) -> Matcher {
        engine::matcher(&self.fac, g)
    }
    pub fn vocab_size(&self) -> usize {
        self.words.len()
    }
    /// fresh engine that only replays the committed tokens
    pub fn replay(&self, g: &Gram, toks: &[u32]) -> Matcher {
        let mut m = self.matcher(g);
        for &t in toks {
            if m.consume_token(t).is_err() {
                break;
            }
        }
        m
    }
    pub fn is_special(&self, t: u32) -> bool {
        let w = &self.words[t as usize];
        w.is_empty() || w[0] == 0xff
    }
}

#[derive(Clone, Debug, PartialEq)]
pub struct Obs {
    pub mask: Result<Vec<u32>, String>,
    pub accepting: bool,
    pub stopped: bool,
    pub reason: String,
    pub ff_bytes: Vec<u8>,
    pub error: bool,
}

pub fn err_class(e: &str) -> String {
    // first line, without the verbose state dump
    let l = e.lines().next().unwrap_or("");
    let l = l.split("<state>").next().unwrap_or(l);
    l.chars().take(80).collect()
}

pub fn mask_of(m: &mut Matcher) -> Result<Vec<u32>, String> {
    match m.compute_mask_or_eos() {
        Ok(v) => Ok(v.to_list()),
        Err(e) => Err(err_class(&e.to_string())),
    }
}

pub fn observe(m: &mut Matcher) -> Obs {
    let mask = mask_of(m);
    let accepting = m.is_accepting().unwrap_or(false);
    let ff_bytes = m.compute_ff_bytes();
    Obs { mask, accepting, stopped: m.is_stopped(), reason: format!("{:?}", m.stop_reason()), ff_bytes, error: m.is_error() }
}

pub fn obs_json(o: &Obs) -> Value {
    json!({"mask": match &o.mask { Ok(v) => json!(v), Err(e) => json!({"err": e}) }, "accepting": o.accepting, "stopped": o.stopped, "reason": o.reason, "ff_bytes": vocab::hex(&o.ff_bytes)})
}

pub fn vstate(m: &Matcher) -> Option<VerifState> {
    m.verif_token_parser().map(|tp| tp.parser.verif_state())
}

pub fn row_hash(st: &VerifState, i: usize) -> u64 {
    // FNV over the sorted items and the row's lexer start state
    let mut h: u64 = 0xcbf29ce484222325;
    let mut add = |x: u64| {
        h ^= x;
        h = h.wrapping_mul(0x100000001b3);
    };
    for (a, b) in &st.rows[i] {
        add(*a as u64 + 1);
        add((*b as u64) << 1);
    }
    add(0xabcdef ^ st.row_start_states[i] as u64);
    h % 1_000_000_007
}

pub fn words_set(v: &SimpleVob) -> Vec<u32> {
    v.to_list()
}

/// grammar + sample texts for vocabulary construction
pub fn gen_grammar(rng: &mut Rng, idx: usize) -> (Gram, Vec<Vec<u8>>) {
    let fams = families();
    if idx % 3 == 0 {
        let (g, t) = &fams[(idx / 3) % fams.len()];
        return (g.clone(), t.iter().map(|s| s.as_bytes().to_vec()).collect());
    }
    let g = lark::gen_lark(rng);
    let mut texts = vec![];
    for _ in 0..4 {
        let mut s = String::new();
        g.sample(rng, &mut s);
        texts.push(s.into_bytes());
    }
    (Gram::Lark(g.to_lark()), texts)
}

/// hand-written families: same lexer state and row index recurring with different parser context,
/// lexemes ending inside tokens, nested repetition, JSON with forced keys, UTF-8
pub fn families() -> Vec<(Gram, Vec<&'static str>)> {
    vec![
        (Gram::Lark("start: \"x\" T \"1\" | \"y\" T \"2\"\nT: /[a-z]+/\n".into()), vec!["xabc1", "yab2", "a1", "a2"]),
        // tokens that span three terminals, two of them sharing the middle one under different first terminals
        // (rows pushed for one token must not be re-used for a sibling token in the same trie walk)
        (Gram::Lark("start: \"a\" \"b\" \"x\" | \"c\" \"b\" \"y\" | \"d\" \"b\" (\"x\" | \"z\")\n".into()), vec!["abx", "cby", "cbx", "aby", "dbz", "dbx", "bx", "cb", "abz"]),
        (Gram::Lark("start: A B | C D\nA: \"p\"\nC: \"q\"\nB: /[0-9]+x/\nD: /[0-9]+y/\n".into()), vec!["p12x", "q34y", "2x", "4y"]),
        (Gram::Lark("start: item+\nitem: \"a\" | \"bc\" | \"(\" item* \")\"\n".into()), vec!["a(bc)a", "((a))", "bc(", ")a"]),
        (Gram::Lark("start: NUM (\",\" NUM)*\nNUM: /[0-9]{1,3}/\n".into()), vec!["12,345,6", ",12", "3,"]),
        (Gram::Lark("start: \"[\" (A | B)* \"]\"\nA: \"é\"\nB: /[xyz]{2}/\n".into()), vec!["[éxyé]", "zzé", "[x"]),
        (Gram::Regex("(ab|cd)*e{2,3}".into()), vec!["ababcdee", "cdeee", "bc", "de"]),
        (Gram::Regex("[a-c]{0,5}x|日本+".into()), vec!["abcx", "日本本", "本本", "cx"]),
        (Gram::Json(json!({"type":"object","properties":{"name":{"type":"string","maxLength":5},"age":{"type":"integer","minimum":0,"maximum":120}},"required":["name","age"],"additionalProperties":false})), vec!["{\"name\":\"ab\",\"age\":42}", "\":\"", "\",\"age\":", "e\":"]),
        (Gram::Json(json!({"type":"array","items":{"enum":["x","xy",10,100,true,null]},"minItems":1,"maxItems":4})), vec!["[\"x\",\"xy\",10,100,true,null]", "\",\"", "ue,n", "0,1"]),
        (Gram::Json(json!({"anyOf":[{"type":"object","properties":{"k":{"const":"v1"},"a":{"type":"number"}},"required":["k","a"],"additionalProperties":false},{"type":"object","properties":{"k":{"const":"v2"},"b":{"type":"boolean"}},"required":["k","b"],"additionalProperties":false}]})), vec!["{\"k\":\"v1\",\"a\":1.5}", "{\"k\":\"v2\",\"b\":true}", "\"v", ":tr"]),
        (Gram::Lark("start: (\"a\" | \"ab\" | \"abc\")+ \"!\"\n".into()), vec!["aababc!", "abca!", "bc!"]),
        (Gram::Lark("start: e\ne: e \"+\" t | t\nt: t \"*\" f | f\nf: \"(\" e \")\" | N\nN: /[0-9]+/\n".into()), vec!["1+2*(3+4)", "12*3", ")*(", "+1"]),
        (Gram::Lark("start: W (\" \" W)*\nW: /[a-z]+/\n%ignore /\\t/\n".into()), vec!["ab cd e", "\tab", "b c"]),
        // forced text that ends the grammar (accepting right after the forced stretch)
        (Gram::Lark("start: \"abc\"\n".into()), vec!["abc", "bc"]),
        (Gram::Lark("start: /[a-z]+/ \"=done\"\n".into()), vec!["xy=done", "=do", "ne"]),
        (Gram::Json(json!({"const":"ok"})), vec!["\"ok\"", "ok"]),
        (Gram::Regex("(foo|bar)baz".into()), vec!["foobaz", "barbaz", "obaz"]),
        // lexemes that take all plain text but not every whitespace string (the text slice applies, the whitespace slice does not)
        (Gram::Lark("start: (LINE \"\\n\")+\nLINE: /[^\\n]+/\n".into()), vec!["some text\tmore \r\n", "\t\t", " \t", "\r", "a\t", "text"]),
        (Gram::Lark("start: line+\nline: KEY \"=\" VALUE \"\\n\"\nKEY: /[a-z]+/\nVALUE: /[^\\n]*/\n".into()), vec!["k=a b\tc\n", "\t", " \t ", "=a", "b\n"]),
        // forced text whose last byte can start a longer token, followed by a wide string lexeme (where token slices apply)
        (Gram::Lark("start: \"k:\" S\nS: /\"[^\"\\\\\\x00-\\x1F\\x7F]*\"/\n".into()), vec!["k:\"ab cd\"", "\"a", "\"ab", "b c", "d\"", ":\""]),
        (Gram::Json(json!({"type":"object","properties":{"s":{"type":"string"},"t":{"type":"string","maxLength":12}},"required":["s","t"],"additionalProperties":false})), vec!["{\"s\":\"hello w\",\"t\":\"ab\"}", "\":\"h", "\"he", "llo", "\",\"t\":\"a", "\"ab"]),
    ]
}

pub fn build_world(rng: &mut Rng, texts: &[Vec<u8>], canonical: bool, slices: Option<&[String]>, kind: usize) -> anyhow::Result<World> {
    let (words, eos) = match if kind >= 3 { kind } else { kind % 3 } {
        0 => {
            let w = vocab::single_byte_words();
            let e = w.len() as u32 - 1;
            (w, e)
        }
        // kind 3..: a vocabulary padded with special tokens up to 1100 entries, so that special ids with every
        // leading-digit pattern exist (10xx, 1xx, 999/1000 boundaries of the \xFF[id] spelling)
        k if k >= 3 => { let n = 20 + rng.below(30); vocab::synth_words(rng, texts, n, Some(1100)) }
        _ => { let n = 30 + rng.below(60); vocab::synth_words(rng, texts, n, None) }
    };
    World::new(words, eos, canonical, slices)
}
