//! C13 — fast-forward bytes and tokens are genuinely forced and change nothing.
//!
//! impl-vs-oracle: canonical (greedy) tokenizers over synthetic vocabularies; at every reached
//! state the forced bytes are checked one by one against a non-forcing single-byte engine (the
//! byte is the only allowed one and the state is not accepting); fast-forward tokens decode to a
//! prefix of the forced bytes, are accepted, and lead to the state the bytes lead to;
//! `process_prompt` conserves text.
//! impl-vs-model (regex grammars): forced bytes vs `forceBytes` of the Lean engine over the
//! checked regex certificate.
use serde_json::{json, Value};

use crate::c04::{rx_from_json, rx_to_json};
use crate::eng::{self, World};
use crate::engine::Gram;
use crate::model::ModelBatch;
use crate::report::Report;
use crate::rng::Rng;
use crate::rx::Rx;
use crate::utf8rx::byte_sexp;
use crate::vocab::{self, hex_or_underscore};
use crate::Ctx;

fn families() -> Vec<(Gram, Vec<&'static str>)> {
    vec![
        (Gram::Json(json!({"type":"object","properties":{"first_name":{"type":"string","maxLength":4},"first_nick":{"type":"integer"},"kind":{"const":"person"}},"required":["first_name","first_nick","kind"],"additionalProperties":false})), vec!["{\"first_name\":\"ab\",\"first_nick\":12,\"kind\":\"person\"}", "first_n", "\":\"", "\",\"first_nick\":", ",\"kind\":\"person\"}"]),
        (Gram::Json(json!({"enum":["prefix-alpha","prefix-beta","prefix-al"]})), vec!["\"prefix-alpha\"", "prefix-", "-al", "eta\""]),
        (Gram::Json(json!({"type":"object","properties":{"a":{"const":true},"b":{"enum":["xx","xy"]}},"required":["a","b"],"additionalProperties":false})), vec!["{\"a\":true,\"b\":\"xy\"}", "true,", "\"b\":\"x"]),
        (Gram::Lark("start: \"SELECT \" col \" FROM \" tbl\ncol: \"id\" | \"name\"\ntbl: \"users\" | \"user_groups\"\n".into()), vec!["SELECT name FROM user_groups", "SELECT ", " FROM user", "s", "_groups"]),
        (Gram::Lark("start: \"<a>\" body \"</a>\"\nbody: /[0-9]+/\n".into()), vec!["<a>123</a>", "<a>", "</a", ">"]),
        (Gram::Lark("start: \"été \" (\"日本\" | \"日曜\") \"!\"\n".into()), vec!["été 日本!", "té", "日", "本!"]),
    ]
}

pub fn gen_case(rng: &mut Rng, idx: usize, thorough: bool) -> Value {
    let steps = if thorough { 30 } else { 16 };
    if idx % 3 == 2 {
        // regex with literal stretches, with a Lean model
        let lits = ["abc", "key=", "--", "xyz", "Q"];
        let mut parts = vec![];
        for _ in 0..2 + rng.below(3) {
            if rng.chance(1, 2) { parts.push(Rx::Lit(rng.pick(&lits).to_string())); }
            else if rng.chance(1, 2) { parts.push(Rx::Class(vec![('0', '9')], false)); }
            else { parts.push(Rx::Alt(vec![Rx::Lit("pq".into()), Rx::Lit("pr".into())])); }
        }
        parts.push(Rx::Lit("end".into()));
        let r = Rx::Cat(parts);
        let mut s = String::new();
        r.sample(rng, crate::rx::ALPHA, &mut s);
        return json!({"rx": rx_to_json(&r), "grammar": {"regex": r.to_regex()}, "texts": [vocab::hex(s.as_bytes())], "seed": rng.next() % 1_000_000_000, "steps": steps});
    }
    if idx % 6 == 4 {
        // a lexeme with an optional continuation (bounded repetition, optional last byte, enum values sharing a
        // prefix) followed by text that starts with a byte above or below the continuation byte: the lexer's
        // next-byte hint is then one of several viable bytes, in either order
        let bytes = ['a', 'b', 'x', 'z', '1', '2', ',', '~', '!'];
        let c = *rng.pick(&bytes);
        let d = *rng.pick(&bytes);
        let e = *rng.pick(&bytes);
        let lit: String = format!("{e}{}", ["", "k", "99"][rng.below(3)]);
        let (g, texts): (Value, Vec<String>) = match rng.below(4) {
            0 => { let k = 2 + rng.below(3); (json!({"lark": format!("start: A B\nA: /{c}{{1,{k}}}/\nB: \"{lit}\"\n")}), vec![format!("{c}{c}{lit}"), format!("{c}{lit}")]) }
            1 => (json!({"lark": format!("start: A B\nA: /{c}{d}?/\nB: \"{lit}\"\n")}), vec![format!("{c}{d}{lit}"), format!("{c}{lit}")]),
            2 => { let n = 1 + rng.below(9); (json!({"json_schema": {"type":"object","properties":{"a":{"enum":[n, n * 10 + rng.below(10)]},"b":{"const":2}},"required":["a","b"],"additionalProperties":false}}), vec![format!("{{\"a\":{n},\"b\":2}}"), format!("{{\"a\":{}", n * 10)]) }
            _ => (json!({"lark": format!("start: A+ B\nA: \"{c}\" | \"{c}{d}\"\nB: \"{lit}\"\n")}), vec![format!("{c}{d}{c}{lit}"), format!("{c}{lit}")]),
        };
        return json!({"grammar": g, "texts": texts.iter().map(|s| vocab::hex(s.as_bytes())).collect::<Vec<_>>(), "seed": rng.next() % 1_000_000_000, "steps": steps});
    }
    let fams = families();
    let (g, t) = &fams[(idx / 3 * 2 + idx % 3) % fams.len()];
    json!({"grammar": g.to_json(), "texts": t.iter().map(|s| vocab::hex(s.as_bytes())).collect::<Vec<_>>(), "seed": rng.next() % 1_000_000_000, "steps": steps})
}

pub fn run_case(_ctx: &Ctx, case: &Value, tag: usize, rep: &mut Report, mb: &mut ModelBatch) {
    let mut rng = Rng::new(case["seed"].as_u64().unwrap());
    let g = Gram::from_json(&case["grammar"]);
    let texts: Vec<Vec<u8>> = case["texts"].as_array().map(|a| a.iter().map(|t| vocab::unhex(t.as_str().unwrap())).collect()).unwrap_or_default();
    let steps = case["steps"].as_u64().unwrap() as usize;
    let (mut words, mut eos) = vocab::synth_words(&mut rng, &texts, 50, None);
    // tokens that span the end of a prompt, the grammar's forced start and one more byte: prompt healing then chops
    // back into the prompt (texts[0] is a complete example, so it begins with the forced bytes)
    if let Some(first) = texts.first() {
        for tail in [&b" "[..], &b": "[..], &b"s "[..], &b"x "[..]] {
            for k in 1..=4usize.min(first.len()) {
                let mut wd = tail.to_vec();
                wd.extend_from_slice(&first[..k]);
                if !wd.contains(&0xff) && !words.contains(&wd) { words.insert(256, wd); eos += 1; }
            }
        }
    }
    let sb = vocab::single_byte_words();
    let sb_eos = sb.len() as u32 - 1;
    // every other case with the default token slices: a pending healing prefix must survive the slicer's shortcut
    let sl = llguidance::earley::SlicedBiasComputer::general_slices();
    let slices = if case["seed"].as_u64().unwrap_or(0) % 2 == 0 { rep.count("case.slices=1"); Some(&sl[..]) } else { rep.count("case.slices=0"); None };
    let (Ok(wc), Ok(wb)) = (World::new(words, eos, true, slices), World::new(sb, sb_eos, false, None)) else { rep.skip("world"); return; };
    let mut m = wc.matcher(&g);
    let mut b = wb.matcher(&g);
    if m.is_error() || b.is_error() { rep.skip("grammar-rejected"); return; }
    let has_model = case.get("rx").is_some();
    if has_model {
        let r = rx_from_json(&case["rx"]);
        mb.push("reset".into(), "ok".into(), tag);
        mb.push_guard(format!("rx def {tag} {}", byte_sexp(&r)), "ok*".into(), tag);
        let ws: Vec<String> = wb.words.iter().map(|x| hex_or_underscore(x)).collect();
        mb.push(format!("eng init {tag} {} {}", ws.join(","), wb.eos), "ok".into(), tag);
    }
    // grammars of the M5 fragment: the forced bytes of the Lean byte-level engine (exhaustive probe over the model
    // of lexer + rows) must be the implementation's; the model is vocabulary-free, so the bytes committed so far suffice
    let lx_id = if has_model { None } else { crate::lx::define_model(&b, tag, rep, mb).map(|x| x.0) };
    if lx_id.is_some() { rep.count("cases.with_lexer_model"); }
    let mut bytes: Vec<u8> = vec![];
    let mut toks: Vec<u32> = vec![];
    for step in 0..steps {
        if m.is_stopped() || m.is_error() { break; }
        rep.evaluations += 1;
        let repro = json!({"case": case, "tokens": toks, "bytes": vocab::hex(&bytes)});
        // ---- forced bytes
        let ff = m.compute_ff_bytes();
        if has_model {
            mb.push("eng ff".into(), format!("ok {}", hex_or_underscore(&ff)), tag);
        }
        if let Some(id) = lx_id {
            mb.push(format!("lx ff {id} {}", hex_or_underscore(&bytes)), format!("ok {}", hex_or_underscore(&ff)), tag);
            rep.count("states.ff_vs_lexer_model");
        }
        if !ff.is_empty() {
            rep.count("states.with_forced_bytes");
            rep.nontrivial(format!("{}|{}", case["grammar"], vocab::hex(&bytes)));
            // each forced byte is the only byte the non-forcing single-byte engine allows
            let mut probe = b.deep_clone();
            for (i, &fb) in ff.iter().enumerate() {
                let mask = match eng::mask_of(&mut probe) { Ok(v) => v, Err(e) => { rep.fail("oracle", "c13:forced-byte-dead-end", format!("step {step}: single-byte engine stopped ({e}) before forced byte {i}"), repro.clone()); return; } };
                let allowed: Vec<u32> = mask.iter().copied().filter(|t| *t < 256).collect();
                let acc = probe.is_accepting().unwrap_or(false);
                if allowed != vec![fb as u32] || acc {
                    rep.fail("oracle", "c13:forced-byte-not-unique", format!("step {step}: forced byte #{i} = {fb:#x} but the grammar allows {allowed:?} (accepting={acc}) after {}", vocab::hex(&ff[..i])), repro.clone());
                    return;
                }
                if probe.consume_token(fb as u32).is_err() {
                    rep.fail("oracle", "c13:forced-byte-rejected", format!("step {step}: forced byte #{i} = {fb:#x} rejected"), repro.clone());
                    return;
                }
            }
            // and no further byte is forced (maximality is not required by the property; counted only)
        }
        // ---- fast-forward tokens
        let fft = m.compute_ff_tokens();
        if !fft.is_empty() {
            rep.count("states.with_ff_tokens");
            let dec: Vec<u8> = fft.iter().flat_map(|t| wc.words[*t as usize].clone()).collect();
            if dec.len() > ff.len() || ff[..dec.len()] != dec[..] {
                rep.fail("oracle", "c13:ff-tokens-not-prefix", format!("step {step}: ff tokens decode to {} which is not a prefix of the forced bytes {}", vocab::hex(&dec), vocab::hex(&ff)), repro.clone());
                return;
            }
            let mut c = m.deep_clone();
            for &t in &fft {
                if c.consume_token(t).is_err() {
                    rep.fail("oracle", "c13:ff-token-rejected", format!("step {step}: fast-forward token {t} rejected on commit"), repro.clone());
                    return;
                }
            }
            // same continuation as the byte-wise engine after the same bytes
            let mut pb = b.deep_clone();
            let mut ok = true;
            for &x in &dec { if pb.consume_token(x as u32).is_err() { ok = false; break; } }
            if ok && !c.is_stopped() && !pb.is_stopped() {
                // the forcing engine narrows its mask to forced tokens; compare what is byte-level:
                // accepting flag and remaining forced bytes
                let (fa, fb2) = (c.compute_ff_bytes(), pb.compute_ff_bytes());
                if c.is_accepting().unwrap_or(false) != pb.is_accepting().unwrap_or(false) || fa != fb2 {
                    rep.fail("oracle", "c13:ff-commit-changes-state", format!("step {step}: after committing ff tokens: forced bytes {} vs byte-wise {}", vocab::hex(&fa), vocab::hex(&fb2)), repro.clone());
                    return;
                }
            }
        }
        // ---- advance by a masked token
        let Ok(mask) = eng::mask_of(&mut m) else { break };
        if mask.is_empty() { break; }
        let non_eos: Vec<u32> = mask.iter().copied().filter(|t| *t != wc.eos).collect();
        let t = if !non_eos.is_empty() && rng.chance(9, 10) { *rng.pick(&non_eos) } else { *rng.pick(&mask) };
        if m.consume_token(t).is_err() {
            rep.fail("oracle", "c13:masked-token-rejected", format!("step {step}: token {t} from the mask rejected"), repro.clone());
            break;
        }
        toks.push(t);
        if t == wc.eos { break; }
        let tb = wc.words[t as usize].clone();
        for &x in &tb {
            if b.consume_token(x as u32).is_err() {
                rep.fail("oracle", "c13:bytewise-rejected", format!("step {step}: token {t} accepted, byte {x:#x} rejected by the byte engine"), repro.clone());
                return;
            }
            if has_model { mb.push(format!("eng commit {x}"), "ok".into(), tag); }
        }
        bytes.extend_from_slice(&tb);
    }
    // ---- prompt processing conserves text
    if let Ok(mut tp) = wc.fac.create_parser(g.top()) {
        rep.evaluations += 1;
        let prompt_text: &[u8] = [&b"Answer: "[..], &b"x "[..], &b""[..], &b"The JSON is "[..]][rng.below(4)];
        let prompt = wc.env.tokenize_bytes(prompt_text);
        let res = tp.process_prompt(prompt.clone());
        let trie = wc.env.tok_trie();
        let mut left = trie.decode_raw(&res);
        left.extend_from_slice(&tp.force_bytes());
        // reference: original prompt plus the forced bytes of a fresh engine
        let mut fresh = wc.matcher(&g);
        let mut right = trie.decode_raw(&prompt);
        right.extend_from_slice(&fresh.compute_ff_bytes());
        if left != right {
            rep.fail("oracle", "c13:prompt-not-conserved", format!("process_prompt: returned prompt + pending forced text = {:?}, original prompt + forced bytes = {:?}", String::from_utf8_lossy(&left), String::from_utf8_lossy(&right)), json!({"case": case, "prompt": String::from_utf8_lossy(prompt_text)}));
        }
    }
    rep.sample(json!({"grammar": case["grammar"], "bytes": String::from_utf8_lossy(&bytes), "tokens": toks.len()}));
}
